(** Generic theorems about the routing model of Builder.v.  Nothing here mentions /repo data:
    the instance (gen/BuilderRouting.v) enters only through decidable side conditions. *)
Require Import SqlV.Base SqlV.Builder.
From Coq Require Import Arith.

(** ** Association lists over field names *)

Lemma memb_In f l : memb f l = true <-> In f l.
Proof.
  induction l as [|g l IH]; cbn [memb In].
  - split; [discriminate | tauto].
  - rewrite orb_true_iff, IH, str_eqb_eq. tauto.
Qed.

Lemma memb_false f l : memb f l = false <-> ~ In f l.
Proof.
  rewrite <- memb_In. destruct (memb f l); split; intro H.
  - discriminate.
  - exfalso; apply H; reflexivity.
  - intro; discriminate.
  - reflexivity.
Qed.

Lemma nodupb_NoDup l : nodupb l = true -> NoDup l.
Proof.
  induction l as [|a l IH]; cbn [nodupb]; intro H.
  - constructor.
  - apply andb_true_iff in H as [H1 H2]. apply negb_true_iff in H1.
    constructor; [apply memb_false; exact H1 | apply IH; exact H2].
Qed.

Lemma assoc_cons_eq {A} f (a : A) l : assoc ((f, a) :: l) f = Some a.
Proof. cbn [assoc]. rewrite str_eqb_refl. reflexivity. Qed.

Lemma assoc_cons_neq {A} g f (a : A) l : g <> f -> assoc ((g, a) :: l) f = assoc l f.
Proof. intro H. cbn [assoc]. apply str_eqb_neq in H. rewrite H. reflexivity. Qed.

Lemma assoc_in_keys {A} (l : list (field * A)) f : In f (keys l) -> exists a, assoc l f = Some a.
Proof.
  induction l as [|[g a] l IH]; cbn [keys map fst In]; intro H; [contradiction|].
  cbn [assoc]. destruct (str_eqb g f) eqn:E.
  - eexists; reflexivity.
  - destruct H as [H|H]; [apply str_eqb_neq in E; contradiction | apply IH; exact H].
Qed.

Lemma assoc_not_in_keys {A} (l : list (field * A)) f : ~ In f (keys l) -> assoc l f = None.
Proof.
  induction l as [|[g a] l IH]; cbn [keys map fst In]; intro H; [reflexivity|].
  cbn [assoc]. destruct (str_eqb g f) eqn:E.
  - apply str_eqb_eq in E. exfalso; apply H; left; exact E.
  - apply IH. intro; apply H; right; assumption.
Qed.

Section Proofs.
  Variable V : Type.
  Variable cval : str -> option V.
  Variable P : Type.
  Variable stmt_fields builder_fields : list field.
  Variable sigma_build : routing.
  Variable arms : list arm.
  Variable display_ok : stmt V P -> bool.

  Notation record := (record V).
  Notation get := (get V).
  Notation eval := (eval V cval).
  Notation construct := (construct V cval).
  Notation build := (build V cval P stmt_fields sigma_build).
  Notation try_from := (try_from V cval P builder_fields arms display_ok).
  Notation round_trip := (round_trip V cval P stmt_fields builder_fields sigma_build arms display_ok).
  Notation routing_ok := (routing_ok stmt_fields builder_fields sigma_build arms).
  Notation routing_ok_rev := (routing_ok_rev stmt_fields builder_fields sigma_build arms).

  (** Two records with the same duplicate-free keys and the same contents are equal. *)
  Lemma record_ext (r r' : record) :
    NoDup (keys r) -> keys r = keys r' ->
    (forall f, In f (keys r) -> get r f = get r' f) -> r = r'.
  Proof.
    revert r'. induction r as [|[f v] r IH]; intros [|[f' v'] r'] Hnd Hk Hg;
      cbn [keys map fst] in *; try discriminate; [reflexivity|].
    inversion Hk; subst f'. inversion Hnd; subst.
    assert (v = v').
    { specialize (Hg f (or_introl eq_refl)). unfold Builder.get in Hg.
      rewrite !assoc_cons_eq in Hg. congruence. }
    subst v'. f_equal. apply IH; auto.
    intros g Hin. specialize (Hg g (or_intror Hin)). unfold Builder.get in *.
    assert (f <> g) by (intro; subst; contradiction).
    rewrite !assoc_cons_neq in Hg by assumption. exact Hg.
  Qed.

  Lemma construct_keys sigma fs r ps t : construct sigma fs r ps = Some t -> keys t = fs.
  Proof.
    revert t. induction fs as [|f fs IH]; cbn [Builder.construct]; intros t H.
    - inversion H. reflexivity.
    - destruct (assoc sigma f); [|discriminate].
      destruct (eval r ps s); [|discriminate].
      destruct (construct sigma fs r ps) eqn:E; [|discriminate].
      inversion H; subst. cbn [keys map fst]. f_equal. apply IH. reflexivity.
  Qed.

  Lemma construct_get sigma fs r ps t :
    construct sigma fs r ps = Some t ->
    forall f, In f fs -> exists e, assoc sigma f = Some e /\ get t f = eval r ps e.
  Proof.
    revert t. induction fs as [|g fs IH]; cbn [Builder.construct]; intros t H f Hin; [contradiction|].
    destruct (assoc sigma g) as [e|] eqn:Eg; [|discriminate].
    destruct (eval r ps e) as [v|] eqn:Ev; [|discriminate].
    destruct (construct sigma fs r ps) as [t'|] eqn:E; [|discriminate].
    inversion H; subst t. unfold Builder.get. cbn [assoc].
    destruct (str_eqb g f) eqn:Egf.
    - apply str_eqb_eq in Egf. subst g. exists e. split; [exact Eg | symmetry; exact Ev].
    - destruct Hin as [Hin|Hin]; [apply str_eqb_neq in Egf; contradiction|].
      apply (IH t' eq_refl f Hin).
  Qed.

  Lemma construct_total sigma fs r ps :
    (forall f, In f fs -> exists e v, assoc sigma f = Some e /\ eval r ps e = Some v) ->
    exists t, construct sigma fs r ps = Some t.
  Proof.
    induction fs as [|f fs IH]; intro H; cbn [Builder.construct].
    - eexists; reflexivity.
    - destruct (H f (or_introl eq_refl)) as (e & v & He & Hv). rewrite He, Hv.
      destruct IH as [t Ht]. { intros g Hg. apply H. right. exact Hg. }
      rewrite Ht. eexists; reflexivity.
  Qed.

  (** What [try_from] does on a CREATE TABLE statement is decided by [ct_routing]. *)
  Lemma run_arms_ct l sigma r :
    ct_routing l = Some sigma ->
    run_arms V cval P builder_fields display_ok l (SCreateTable r) =
      match construct sigma builder_fields r [] with Some b => ROk b | None => RStuck end.
  Proof.
    induction l as [|[p b] l IH]; cbn [ct_routing]; intro H; [discriminate|].
    cbn [run_arms]. destruct p; cbn [pat_matches].
    - destruct b; try discriminate. inversion H; subst. cbn [run_body]. reflexivity.
    - apply IH. exact H.
    - discriminate.
    - discriminate.
  Qed.

  (** ** Round trip statement -> builder -> statement *)
  Theorem round_trip_ok :
    routing_ok = true ->
    forall r, keys r = stmt_fields ->
      round_trip (SCreateTable r) = Some (SCreateTable r).
  Proof.
    unfold Builder.routing_ok. destruct (ct_routing arms) as [sigma_try|] eqn:Ect; [|discriminate].
    intro H. apply andb_true_iff in H as [H Htot]. apply andb_true_iff in H as [H Hfld].
    apply andb_true_iff in H as [Hnd1 Hnd2].
    apply nodupb_NoDup in Hnd1. rewrite forallb_forall in Hfld, Htot.
    intros r Hk.
    unfold Builder.round_trip, Builder.try_from. rewrite (run_arms_ct _ _ _ Ect).
    (* try_from succeeds *)
    destruct (construct_total sigma_try builder_fields r []) as [b Hb].
    { intros g Hg. specialize (Htot g Hg). unfold total_ok in Htot.
      destruct (assoc sigma_try g) as [[f| | |]|]; try discriminate.
      apply memb_In in Htot. rewrite <- Hk in Htot.
      destruct (assoc_in_keys r f Htot) as [v Hv].
      exists (SField f), v. split; [reflexivity | exact Hv]. }
    rewrite Hb.
    pose proof (construct_keys _ _ _ _ _ Hb) as Hkb.
    (* build succeeds *)
    unfold Builder.build.
    destruct (construct_total sigma_build stmt_fields b []) as [r' Hr'].
    { intros f Hf. specialize (Hfld f Hf). unfold field_ok in Hfld.
      destruct (assoc sigma_build f) as [[g| | |]|]; try discriminate.
      destruct (assoc sigma_try g) as [[f'| | |]|]; try discriminate.
      apply andb_true_iff in Hfld as [_ Hg]. apply memb_In in Hg. rewrite <- Hkb in Hg.
      destruct (assoc_in_keys b g Hg) as [v Hv].
      exists (SField g), v. split; [reflexivity | exact Hv]. }
    rewrite Hr'. do 2 f_equal.
    pose proof (construct_keys _ _ _ _ _ Hr') as Hkr'.
    apply record_ext.
    - rewrite Hkr'. exact Hnd1.
    - congruence.
    - rewrite Hkr'. intros f Hf.
      destruct (construct_get _ _ _ _ _ Hr' f Hf) as (e & He & Hge). rewrite Hge.
      specialize (Hfld f Hf). unfold field_ok in Hfld. rewrite He in Hfld.
      destruct e as [g| | |]; try discriminate.
      destruct (assoc sigma_try g) as [[f'| | |]|] eqn:Eg; try discriminate.
      apply andb_true_iff in Hfld as [Hff Hg]. apply str_eqb_eq in Hff. subst f'.
      apply memb_In in Hg.
      destruct (construct_get _ _ _ _ _ Hb g Hg) as (e' & He' & Hge').
      rewrite Eg in He'. inversion He'; subst e'.
      cbn [Builder.eval]. rewrite Hge'. reflexivity.
  Qed.

  (** The same, showing the intermediate builder: [try_from] returns [Ok], never an error or
      a panic, on every CREATE TABLE statement. *)
  Corollary try_from_ct_ok :
    routing_ok = true ->
    forall r, keys r = stmt_fields ->
      exists b, try_from (SCreateTable r) = ROk b /\ keys b = builder_fields
                /\ build b = Some (SCreateTable r).
  Proof.
    intros Hok r Hk. pose proof (round_trip_ok Hok r Hk) as H.
    unfold Builder.round_trip in H.
    destruct (try_from (SCreateTable r)) as [b| | |] eqn:E; try discriminate.
    exists b. split; [reflexivity|]. split; [|exact H].
    unfold Builder.routing_ok in Hok. destruct (ct_routing arms) as [sg|] eqn:Ect; [|discriminate].
    unfold Builder.try_from in E. rewrite (run_arms_ct _ _ _ Ect) in E.
    destruct (construct sg builder_fields r []) eqn:Ec; [|discriminate].
    inversion E; subst. eapply construct_keys; eassumption.
  Qed.

  (** ** Round trip builder -> statement -> builder *)
  Theorem round_trip_rev_ok :
    routing_ok_rev = true ->
    forall b, keys b = builder_fields ->
      exists r, build b = Some (SCreateTable r) /\ keys r = stmt_fields
                /\ try_from (SCreateTable r) = ROk b.
  Proof.
    unfold Builder.routing_ok_rev. destruct (ct_routing arms) as [sigma_try|] eqn:Ect; [|discriminate].
    intro H. apply andb_true_iff in H as [H Htot]. apply andb_true_iff in H as [H Hfld].
    apply andb_true_iff in H as [Hnd1 Hnd2].
    apply nodupb_NoDup in Hnd2. rewrite forallb_forall in Hfld, Htot.
    intros b Hk. unfold Builder.build.
    destruct (construct_total sigma_build stmt_fields b []) as [r Hr].
    { intros f Hf. specialize (Htot f Hf). unfold build_total_ok in Htot.
      destruct (assoc sigma_build f) as [[g| | |]|]; try discriminate.
      apply memb_In in Htot. rewrite <- Hk in Htot.
      destruct (assoc_in_keys b g Htot) as [v Hv].
      exists (SField g), v. split; [reflexivity | exact Hv]. }
    rewrite Hr. exists r. split; [reflexivity|].
    pose proof (construct_keys _ _ _ _ _ Hr) as Hkr. split; [exact Hkr|].
    unfold Builder.try_from. rewrite (run_arms_ct _ _ _ Ect).
    destruct (construct_total sigma_try builder_fields r []) as [b' Hb'].
    { intros g Hg. specialize (Hfld g Hg). unfold field_ok_rev in Hfld.
      destruct (assoc sigma_try g) as [[f| | |]|]; try discriminate.
      destruct (assoc sigma_build f) as [[g'| | |]|]; try discriminate.
      apply andb_true_iff in Hfld as [_ Hf]. apply memb_In in Hf. rewrite <- Hkr in Hf.
      destruct (assoc_in_keys r f Hf) as [v Hv].
      exists (SField f), v. split; [reflexivity | exact Hv]. }
    rewrite Hb'. f_equal.
    pose proof (construct_keys _ _ _ _ _ Hb') as Hkb'.
    apply record_ext.
    - rewrite Hkb'. exact Hnd2.
    - congruence.
    - rewrite Hkb'. intros g Hg.
      destruct (construct_get _ _ _ _ _ Hb' g Hg) as (e & He & Hge). rewrite Hge.
      specialize (Hfld g Hg). unfold field_ok_rev in Hfld. rewrite He in Hfld.
      destruct e as [f| | |]; try discriminate.
      destruct (assoc sigma_build f) as [[g'| | |]|] eqn:Ef; try discriminate.
      apply andb_true_iff in Hfld as [Hgg Hf]. apply str_eqb_eq in Hgg. subst g'.
      apply memb_In in Hf.
      destruct (construct_get _ _ _ _ _ Hr f Hf) as (e' & He' & Hge').
      rewrite Ef in He'. inversion He'; subst e'.
      cbn [Builder.eval]. rewrite Hge'. reflexivity.
  Qed.

  (** ** [try_from] on the other statement kinds *)
  Lemma run_arms_other l v p :
    arms_total l = true ->
    run_arms V cval P builder_fields display_ok l (SOther v p) =
      RErr \/
    (run_arms V cval P builder_fields display_ok l (SOther v p) = RPanic
     /\ display_ok (SOther v p) = false).
  Proof.
    induction l as [|[pt b] l IH]; cbn [arms_total]; intro H; [discriminate|].
    cbn [run_arms]. destruct pt; cbn [pat_matches].
    - apply IH. exact H.
    - destruct b as [|d|]; try discriminate.
      destruct (str_eqb v0 v); [|apply IH; exact H].
      cbn [run_body]. destruct d; cbn [andb]; [|left; reflexivity].
      destruct (display_ok (SOther v p)); cbn [negb]; [left; reflexivity | right; split; reflexivity].
    - destruct b as [|d|]; try discriminate.
      cbn [run_body]. destruct d; cbn [andb]; [|left; reflexivity].
      destruct (display_ok (SOther v p)); cbn [negb]; [left; reflexivity | right; split; reflexivity].
    - discriminate.
  Qed.

  (** A statement of any other kind is answered by an error value; the only way not to get
      one is a panic of that statement's own [Display] while the message is formatted. *)
  Theorem try_from_total :
    arms_total arms = true ->
    forall v p, display_ok (SOther v p) = true -> try_from (SOther v p) = RErr.
  Proof.
    intros H v p Hd. destruct (run_arms_other arms v p H) as [E|[_ E]].
    - exact E.
    - congruence.
  Qed.

  Theorem try_from_other_never_ok :
    arms_total arms = true ->
    forall v p, try_from (SOther v p) = RErr \/ try_from (SOther v p) = RPanic.
  Proof.
    intros H v p. destruct (run_arms_other arms v p H) as [E|[E _]]; [left|right]; exact E.
  Qed.

  Lemma run_arms_display_free l v p :
    arms_total l = true -> arms_display_free l = true ->
    run_arms V cval P builder_fields display_ok l (SOther v p) = RErr.
  Proof.
    induction l as [|[pt b] l IH]; cbn [arms_total arms_display_free]; intros H H2; [discriminate|].
    cbn [run_arms]. destruct pt; cbn [pat_matches].
    - apply IH; assumption.
    - destruct b as [|d|]; try discriminate. apply andb_true_iff in H2 as [Hd H2].
      destruct (str_eqb v0 v); [|apply IH; assumption].
      cbn [run_body]. destruct d; [discriminate|reflexivity].
    - destruct b as [|d|]; try discriminate. apply andb_true_iff in H2 as [Hd H2].
      cbn [run_body]. destruct d; [discriminate|reflexivity].
    - discriminate.
  Qed.

  (** ** Setters: the frame theorem *)
  Lemma update_keys (b : record) f v : keys (update V b f v) = keys b.
  Proof.
    unfold Builder.update, keys. rewrite map_map. apply map_ext. intros [g w]; cbn [fst].
    destruct (str_eqb g f); reflexivity.
  Qed.

  Lemma update_get_same (b : record) f v : In f (keys b) -> get (update V b f v) f = Some v.
  Proof.
    induction b as [|[g w] b IH]; cbn [keys map fst In]; intro H; [contradiction|].
    unfold Builder.get, Builder.update in *. cbn [map fst]. destruct (str_eqb g f) eqn:E.
    - cbn [assoc fst]. rewrite E. reflexivity.
    - cbn [assoc]. rewrite E. apply IH. destruct H as [H|H]; [|exact H].
      apply str_eqb_neq in E. contradiction.
  Qed.

  Lemma update_get_other (b : record) f v g : g <> f -> get (update V b f v) g = get b g.
  Proof.
    intro Hne. induction b as [|[h w] b IH]; [reflexivity|].
    unfold Builder.get, Builder.update in *. cbn [map fst]. destruct (str_eqb h f) eqn:E.
    - cbn [assoc fst]. apply str_eqb_eq in E. subst h.
      assert (str_eqb f g = false) as E2 by (apply str_eqb_neq; congruence).
      rewrite E2. exact IH.
    - cbn [assoc]. destruct (str_eqb h g); [reflexivity | exact IH].
  Qed.

  Lemma setter_target_shape s f :
    setter_target s = Some f ->
    st_assigns s = [(f, SParam 0)] /\ st_returns_self s = true /\ st_nparams s = 1%nat.
  Proof.
    unfold setter_target. intro H.
    destruct (st_assigns s) as [|[g e] l]; try discriminate H.
    destruct e as [|[|i]| |]; try discriminate H; destruct l; try discriminate H.
    destruct (st_returns_self s); cbn [andb] in H; try discriminate H.
    destruct (Nat.eqb (st_nparams s) 1) eqn:E; try discriminate H.
    inversion H; subst. apply Nat.eqb_eq in E. auto.
  Qed.

  (** A setter whose body is the single assignment [self.f = <its parameter>] returns the
      builder with [f] replaced by the argument and every other field untouched. *)
  Theorem setter_frame s f :
    setter_target s = Some f ->
    forall (x : V) (b : record), In f (keys b) ->
      exists b', apply_setter V cval s [x] b = Some b'
        /\ b' = update V b f x
        /\ get b' f = Some x
        /\ (forall g, g <> f -> get b' g = get b g)
        /\ keys b' = keys b.
  Proof.
    intros Ht x b Hin. destruct (setter_target_shape s f Ht) as (Ha & Hr & Hn).
    exists (update V b f x). unfold apply_setter. rewrite Ha, Hr, Hn.
    cbn [length Nat.eqb andb run_assigns].
    apply memb_In in Hin. rewrite Hin. cbn [Builder.eval nth_error].
    apply memb_In in Hin.
    split; [reflexivity|]. split; [reflexivity|]. split; [apply update_get_same; exact Hin|].
    split; [intros g Hg; apply update_get_other; exact Hg | apply update_keys].
  Qed.

  (** Applying a well-formed setter keeps the builder convertible: the setter composed with
      [build] yields a statement whose fields are the old ones except the one routed from [f]. *)
  Corollary setter_frame_wf s f :
    setter_target s = Some f -> In f builder_fields ->
    forall (x : V) (b : record), keys b = builder_fields ->
      exists b', apply_setter V cval s [x] b = Some b' /\ keys b' = builder_fields
        /\ get b' f = Some x /\ (forall g, g <> f -> get b' g = get b g).
  Proof.
    intros Ht Hf x b Hk. rewrite <- Hk in Hf.
    destruct (setter_frame s f Ht x b Hf) as (b' & H1 & _ & H3 & H4 & H5).
    exists b'. repeat split; try assumption. congruence.
  Qed.

  (** ** The view is by name *)
  Theorem build_by_name :
    names_ok stmt_fields builder_fields sigma_build = true ->
    forall b, keys b = builder_fields ->
      exists r, build b = Some (SCreateTable r) /\ keys r = stmt_fields
                /\ forall f, In f stmt_fields -> get r f = get b f.
  Proof.
    unfold names_ok. intro H. rewrite forallb_forall in H. intros b Hk. unfold Builder.build.
    destruct (construct_total sigma_build stmt_fields b []) as [r Hr].
    { intros f Hf. specialize (H f Hf).
      destruct (assoc sigma_build f) as [[g| | |]|]; try discriminate.
      apply andb_true_iff in H as [_ Hg]. apply memb_In in Hg. rewrite <- Hk in Hg.
      destruct (assoc_in_keys b g Hg) as [v Hv].
      exists (SField g), v. split; [reflexivity | exact Hv]. }
    rewrite Hr. exists r. split; [reflexivity|]. split; [eapply construct_keys; exact Hr|].
    intros f Hf. destruct (construct_get _ _ _ _ _ Hr f Hf) as (e & He & Hge). rewrite Hge.
    specialize (H f Hf). rewrite He in H. destruct e as [g| | |]; try discriminate.
    apply andb_true_iff in H as [Hgf _]. apply str_eqb_eq in Hgf. subst g. reflexivity.
  Qed.

  (** Setting [f] and building: the statement has the argument in [f] and the builder's old
      contents in every other field. *)
  Theorem setter_then_build s f :
    names_ok stmt_fields builder_fields sigma_build = true ->
    setter_target s = Some f -> In f builder_fields ->
    forall (x : V) (b : record), keys b = builder_fields ->
      exists b' r, apply_setter V cval s [x] b = Some b' /\ build b' = Some (SCreateTable r)
        /\ keys r = stmt_fields
        /\ (In f stmt_fields -> get r f = Some x)
        /\ (forall g, g <> f -> In g stmt_fields -> get r g = get b g).
  Proof.
    intros Hn Ht Hf x b Hk.
    destruct (setter_frame_wf s f Ht Hf x b Hk) as (b' & Ha & Hk' & Hx & Hfr).
    destruct (build_by_name Hn b' Hk') as (r & Hb & Hkr & Hg).
    exists b', r. repeat split; try assumption.
    - intro Hfs. rewrite (Hg f Hfs). exact Hx.
    - intros g Hne Hgs. rewrite (Hg g Hgs). apply Hfr. exact Hne.
  Qed.
End Proofs.

(** ** The setter table *)
Section SetterTable.
  Variable builder_fields : list field.
  Variable setters : list setter.
  Variable sigma_new : routing.

  Notation own_field := (own_field builder_fields setters sigma_new).
  Notation setters_ok := (setters_ok builder_fields setters sigma_new).

  Lemma setters_ok_each :
    setters_ok = true ->
    forall s, In s setters ->
      exists f, own_field s = Some f /\ In f builder_fields /\ setter_target s = Some f.
  Proof.
    unfold Builder.setters_ok. intro H.
    apply andb_true_iff in H as [H _]. apply andb_true_iff in H as [_ H].
    rewrite forallb_forall in H. intros s Hs. specialize (H s Hs).
    unfold setter_ok in H. apply andb_true_iff in H as [H1 H2].
    destruct (own_field s) as [f|]; [|discriminate].
    exists f. split; [reflexivity|]. split; [apply memb_In; exact H2|].
    unfold opt_field_eqb in H1. destruct (setter_target s) as [f'|]; [|discriminate].
    apply str_eqb_eq in H1. congruence.
  Qed.

  (** Every setter of the table changes exactly its own field. *)
  Theorem setters_frame (V : Type) (cval : str -> option V) :
    setters_ok = true ->
    forall s, In s setters ->
      exists f, own_field s = Some f /\ In f builder_fields /\
        forall (x : V) (b : record V), keys b = builder_fields ->
          exists b', apply_setter V cval s [x] b = Some b' /\ keys b' = builder_fields
            /\ get V b' f = Some x /\ (forall g, g <> f -> get V b' g = get V b g).
  Proof.
    intros Hok s Hs. destruct (setters_ok_each Hok s Hs) as (f & Ho & Hf & Ht).
    exists f. split; [exact Ho|]. split; [exact Hf|].
    intros x b Hk. apply setter_frame_wf; assumption.
  Qed.

  Lemma filter_singleton {A} (p : A -> bool) l a x :
    filter p l = [a] -> In x l -> p x = true -> x = a.
  Proof.
    intros H Hin Hp. assert (In x (filter p l)) as Hx by (apply filter_In; auto).
    rewrite H in Hx. destruct Hx as [Hx|[]]. congruence.
  Qed.

  (** No two setters share their own field. *)
  Theorem own_field_injective :
    setters_ok = true ->
    forall s1 s2 f, In s1 setters -> In s2 setters ->
      own_field s1 = Some f -> own_field s2 = Some f -> st_name s1 = st_name s2.
  Proof.
    intros _ s1 s2 f H1 H2. unfold Builder.own_field.
    assert (Hn1 : In (st_name s1) (setter_names setters)) by (apply in_map; exact H1).
    assert (Hn2 : In (st_name s2) (setter_names setters)) by (apply in_map; exact H2).
    destruct (memb (st_name s1) builder_fields) eqn:E1;
      destruct (memb (st_name s2) builder_fields) eqn:E2.
    - congruence.
    - destruct (orphan_fields builder_fields setters sigma_new) as [|o [|]] eqn:Eo; try discriminate.
      destruct (orphan_setters builder_fields setters) as [|? [|]]; try discriminate.
      intros Ha Hb. inversion Ha; inversion Hb; subst.
      assert (In (st_name s1) (orphan_fields builder_fields setters sigma_new)) as Hi
        by (rewrite Eo; left; reflexivity).
      unfold orphan_fields in Hi. apply filter_In in Hi as [_ Hi].
      apply andb_true_iff in Hi as [Hi _]. apply negb_true_iff in Hi.
      apply memb_false in Hi. contradiction.
    - destruct (orphan_fields builder_fields setters sigma_new) as [|o [|]] eqn:Eo; try discriminate.
      destruct (orphan_setters builder_fields setters) as [|? [|]]; try discriminate.
      intros Ha Hb. inversion Ha; inversion Hb; subst.
      assert (In (st_name s2) (orphan_fields builder_fields setters sigma_new)) as Hi
        by (rewrite Eo; left; reflexivity).
      unfold orphan_fields in Hi. apply filter_In in Hi as [_ Hi].
      apply andb_true_iff in Hi as [Hi _]. apply negb_true_iff in Hi.
      apply memb_false in Hi. contradiction.
    - destruct (orphan_fields builder_fields setters sigma_new) as [|o [|]]; try discriminate.
      destruct (orphan_setters builder_fields setters) as [|n [|]] eqn:En; try discriminate.
      intros _ _. unfold orphan_setters in En.
      rewrite (filter_singleton _ _ _ _ En Hn1), (filter_singleton _ _ _ _ En Hn2);
        [reflexivity | rewrite E2; reflexivity | rewrite E1; reflexivity].
  Qed.

  (** Every builder field can be set: it is the own field of a setter or a parameter of [new]. *)
  Theorem fields_settable :
    setters_ok = true ->
    forall g, In g builder_fields ->
      In g (new_param_fields sigma_new) \/ exists s, In s setters /\ own_field s = Some g.
  Proof.
    unfold Builder.setters_ok. intro H. apply andb_true_iff in H as [_ H].
    rewrite forallb_forall in H. intros g Hg. specialize (H g Hg).
    unfold field_settable in H. apply orb_true_iff in H as [H|H].
    - left. apply memb_In. exact H.
    - right. apply existsb_exists in H as (s & Hs & He). exists s. split; [exact Hs|].
      unfold opt_field_eqb in He. destruct (own_field s) as [f|]; [|discriminate].
      apply str_eqb_eq in He. congruence.
  Qed.

  (** [new] succeeds whenever its constants are defined, and yields a well-keyed builder. *)
  Theorem new_total (V : Type) (cval : str -> option V) (ps : list V) :
    new_ok builder_fields sigma_new = true ->
    (forall g c, assoc sigma_new g = Some (SConst c) -> cval c <> None) ->
    (forall g i, assoc sigma_new g = Some (SParam i) -> (i < length ps)%nat) ->
    exists b, run_new V cval builder_fields sigma_new ps = Some b /\ keys b = builder_fields.
  Proof.
    unfold new_ok, run_new. intros H Hc Hp. rewrite forallb_forall in H.
    destruct (construct_total V cval sigma_new builder_fields [] ps) as [b Hb].
    { intros g Hg. specialize (H g Hg).
      destruct (assoc sigma_new g) as [[| i | c |]|] eqn:E; try discriminate.
      - specialize (Hp g i E). destruct (nth_error ps i) as [v|] eqn:En.
        + exists (SParam i), v. split; [reflexivity | exact En].
        + apply nth_error_None in En. lia.
      - specialize (Hc g c E). destruct (cval c) as [v|] eqn:Ev; [|contradiction].
        exists (SConst c), v. split; [reflexivity | exact Ev]. }
    exists b. split; [exact Hb | eapply construct_keys; exact Hb].
  Qed.
End SetterTable.

(** ** Setter table and by-name view together *)
Section SetterThenBuild.
  Variable stmt_fields builder_fields : list field.
  Variable sigma_build : routing.
  Variable setters : list setter.
  Variable sigma_new : routing.

  Theorem setters_then_build (V : Type) (cval : str -> option V) (P : Type) :
    setters_ok builder_fields setters sigma_new = true ->
    names_ok stmt_fields builder_fields sigma_build = true ->
    forall s f, In s setters -> own_field builder_fields setters sigma_new s = Some f ->
    forall (x : V) (b : record V), keys b = builder_fields ->
      exists b' r, apply_setter V cval s [x] b = Some b'
        /\ build V cval P stmt_fields sigma_build b' = Some (SCreateTable r)
        /\ keys r = stmt_fields
        /\ (In f stmt_fields -> get V r f = Some x)
        /\ (forall g, g <> f -> In g stmt_fields -> get V r g = get V b g).
  Proof.
    intros Hok Hn s f Hs Ho.
    destruct (setters_ok_each builder_fields setters sigma_new Hok s Hs) as (f' & Ho' & Hf & Ht).
    assert (f' = f) by congruence. subst f'.
    exact (setter_then_build V cval P stmt_fields builder_fields sigma_build s f Hn Ht Hf).
  Qed.
End SetterThenBuild.
