(** Blank-look-ahead insensitivity of the lexer model (property C07, lexer level).

    A token whose text ended right before a blank (space, TAB, LF, CR) -- or at the end of the
    input -- is the same token whichever blank follows and whatever comes after it.  The proof
    is per scanner ("if the scanner on [c ++ T] stopped inside [c], it does the same on
    [c ++ T']" for any two tails [T], [T'] that are empty or start with a blank), then the
    dispatcher by destructing the input to four shapes, then the token stream.

    The two real exceptions are part of the statements:
    - CR followed by LF is one Newline token ([c = [CR]] needs a tail not starting with LF);
    - Redshift-style [is_proper_identifier_inside_quotes] skips any amount of whitespace after
      a delimited-identifier opener and looks at the first character behind it
      ([probe c = true]: unbounded look-ahead; refuted by a computed witness). *)
Require Import SqlV.Base SqlV.Lexer SqlV.LexerProofs SqlV.LexerTiling.
From Coq Require Import ZArith ZifyBool ZifyN ZifyNat Arith.
Local Open Scope N_scope.

(** * Blanks and the side condition on the dialect *)
Definition blank (c : N) : Prop := c = 32 \/ c = 9 \/ c = 10 \/ c = 13.
Definition blankb (c : N) : bool := (c =? 32) || (c =? 9) || (c =? 10) || (c =? 13).

Lemma blankb_spec c : blankb c = true <-> blank c.
Proof. unfold blankb, blank. rewrite !orb_true_iff, !N.eqb_eq. tauto. Qed.

Definition blank_list : list N := [32; 9; 10; 13].

Definition neutral_at (d : dialect) (u : uni) (c : N) : bool :=
  negb (d_ident_part d c) && negb (d_ident_start d c) && negb (d_custom_op d c) &&
  negb (d_delim_start d c) && u_whitespace u c && negb (u_numeric u c) &&
  negb (u_alphanumeric u c).

Definition blank_neutralb (d : dialect) (u : uni) : bool := forallb (neutral_at d u) blank_list.

Definition blank_neutral (d : dialect) (u : uni) : Prop :=
  forall c, blank c ->
    d_ident_part d c = false /\ d_ident_start d c = false /\ d_custom_op d c = false /\
    d_delim_start d c = false /\ u_whitespace u c = true /\ u_numeric u c = false /\
    u_alphanumeric u c = false.

Lemma blank_neutralb_spec d u : blank_neutralb d u = true <-> blank_neutral d u.
Proof.
  unfold blank_neutralb, blank_neutral, blank_list. cbn [forallb]. split.
  - intro H. repeat (apply andb_true_iff in H; destruct H as [? H]).
    intros c [-> | [-> | [-> | ->]]];
      match goal with Hc : neutral_at d u ?k = true |- context [d_ident_part d ?k] =>
        unfold neutral_at in Hc; repeat (apply andb_true_iff in Hc; destruct Hc as [Hc ?]);
        repeat match goal with Hn : negb _ = true |- _ => apply negb_true_iff in Hn end;
        repeat split; assumption end.
  - intro H.
    assert (Hc : forall c, blank c -> neutral_at d u c = true).
    { intros c Hb. destruct (H c Hb) as (H1 & H2 & H3 & H4 & H5 & H6 & H7).
      unfold neutral_at. rewrite H1, H2, H3, H4, H5, H6, H7. reflexivity. }
    rewrite !Hc; [reflexivity| | | |]; unfold blank; auto.
Qed.

(** a tail: the end of the input, or something that starts with a blank *)
Definition btail (X : str) : Prop := match X with [] => True | x :: _ => blank x end.
Definition pblank (p : N -> bool) : Prop := forall x, blank x -> p x = false.

Lemma blank_neq b k : blank b -> blankb k = false -> (b =? k) = false.
Proof.
  intros Hb Hk. apply N.eqb_neq. intros ->. apply blankb_spec in Hb. congruence.
Qed.

Lemma pblank_digit : pblank is_digit.
Proof. intros x [-> | [-> | [-> | ->]]]; reflexivity. Qed.
Lemma pblank_hexdigit : pblank is_hexdigit.
Proof. intros x [-> | [-> | [-> | ->]]]; reflexivity. Qed.
Lemma pblank_octal : pblank is_octal.
Proof. intros x [-> | [-> | [-> | ->]]]; reflexivity. Qed.
Lemma pblank_digit_or_dot : pblank is_digit_or_dot.
Proof. intros x [-> | [-> | [-> | ->]]]; reflexivity. Qed.

Lemma btail_peek X k : btail X -> blankb k = false -> peek_is X k = false.
Proof. destruct X as [|b r]; cbn [btail peek_is]; [reflexivity|]. apply blank_neq. Qed.

Lemma btail_cases X : btail X -> X = [] \/ exists b r, X = b :: r /\ blank b.
Proof. destruct X as [|b r]; cbn [btail]; [left; reflexivity|]. intro H. right. eauto. Qed.

(** * List facts *)
Lemma app_tail_nil (c2 X : str) : X = c2 ++ X -> c2 = [].
Proof. intro H. symmetry. apply (app_inv_tail X [] c2). exact H. Qed.

Lemma too_long (c2 X Y : str) : Suffix (c2 ++ X) Y -> (length Y < length X)%nat -> False.
Proof. intros H Hl. apply Suffix_length in H. rewrite app_length in H. lia. Qed.

Ltac slen H := exfalso; apply Suffix_length in H; cbn [length] in H; rewrite ?app_length in H; cbn [length] in H; lia.

(** * Base behaviour of the scanners on a tail *)
Lemma tw_bt p X : pblank p -> btail X -> take_while p X = ([], X).
Proof. intros Hp. destruct X as [|b r]; cbn [btail take_while]; [reflexivity|].
  intro Hb. rewrite (Hp b Hb). reflexivity. Qed.

Lemma num_period_bt s0 X : btail X -> num_period s0 X = (s0, X).
Proof. destruct X as [|b r]; cbn [btail]; [reflexivity|]. intro Hb. unfold num_period.
  rewrite (blank_neq b cDOT Hb) by reflexivity. reflexivity. Qed.

Lemma num_sign_bt X : btail X -> num_sign X = ([], X).
Proof. destruct X as [|b r]; cbn [btail]; [reflexivity|]. intro Hb. unfold num_sign.
  rewrite (blank_neq b cPLUS Hb), (blank_neq b cMINUS Hb) by reflexivity. reflexivity. Qed.

Lemma num_exponent_bt s2 X : btail X -> num_exponent s2 X = (s2, X, false).
Proof. destruct X as [|b r]; cbn [btail]; [reflexivity|]. intro Hb. unfold num_exponent.
  rewrite (blank_neq b 101 Hb), (blank_neq b 69 Hb) by reflexivity. reflexivity. Qed.

(** * Scanner lemmas *)
Section Scan.
  Variable d : dialect.
  Variable u : uni.
  Variable unesc : bool.
  Variables T T' : str.
  Hypothesis HT : btail T.
  Hypothesis HT' : btail T'.
  Hypothesis HN : blank_neutral d u.

  (** [Stop x y]: the scanner result [x] on [c ++ T] left all of [T]; [y] is the same on [T']. *)
  Definition Stop {A} (x y : A * str) : Prop :=
    forall a r, x = (a, r) -> exists c3, r = c3 ++ T /\ y = (a, c3 ++ T').

  Lemma pblank_ident_part : pblank (d_ident_part d).
  Proof. intros x Hx. apply (HN x Hx). Qed.
  Lemma pblank_custom_op : pblank (d_custom_op d).
  Proof. intros x Hx. apply (HN x Hx). Qed.
  Lemma pblank_numeric : pblank (u_numeric u).
  Proof. intros x Hx. apply (HN x Hx). Qed.
  Lemma pblank_alnum_us : pblank (fun ch => u_alphanumeric u ch || (ch =? cUS)).
  Proof. intros x Hx. destruct (HN x Hx) as (_ & _ & _ & _ & _ & _ & ->).
    rewrite (blank_neq x cUS Hx) by reflexivity. reflexivity. Qed.

  Lemma tw_stop p c : pblank p -> Stop (take_while p (c ++ T)) (take_while p (c ++ T')).
  Proof.
    intros Hp. induction c as [|x c IH]; intros a r; cbn [app].
    - rewrite !tw_bt by assumption. intros [= <- <-]. exists []. split; reflexivity.
    - cbn [take_while]. destruct (p x).
      + destruct (take_while p (c ++ T)) as [a1 r1] eqn:E.
        destruct (IH _ _ eq_refl) as (c3 & -> & ->). intros [= <- <-]. exists c3. split; reflexivity.
      + intros [= <- <-]. exists (x :: c). split; reflexivity.
  Qed.

  (** generic consequences of [Stop] *)
  Lemma Stop_elim {A} (x y : A * str) a c2 : Stop x y -> x = (a, c2 ++ T) -> y = (a, c2 ++ T').
  Proof. intros H E. destruct (H _ _ E) as (c3 & E3 & ->). apply app_inv_tail in E3. subst. reflexivity. Qed.

  Lemma tokenize_word_stop f c : Stop (tokenize_word d f (c ++ T)) (tokenize_word d f (c ++ T')).
  Proof.
    unfold tokenize_word. intros a r.
    destruct (take_while (d_ident_part d) (c ++ T)) as [w r0] eqn:E.
    destruct (tw_stop _ c pblank_ident_part _ _ E) as (c3 & -> & ->).
    intros [= <- <-]. exists c3. split; reflexivity.
  Qed.

  Lemma ident_stop chs x c :
    Stop (ident_or_keyword d chs (x :: c ++ T)) (ident_or_keyword d chs (x :: c ++ T')).
  Proof.
    unfold ident_or_keyword. cbn [tl]. intros a r.
    destruct (tokenize_word d chs (c ++ T)) as [w r0] eqn:E.
    destruct (tokenize_word_stop chs c _ _ E) as (c3 & -> & ->).
    destruct (forallb is_digit_or_dot w).
    - destruct (take_while is_digit_or_dot w) as [s s'].
      destruct (take_while is_digit_or_dot (c3 ++ T)) as [s2 r2] eqn:E2.
      destruct (tw_stop _ c3 pblank_digit_or_dot _ _ E2) as (c4 & -> & ->).
      intros [= <- <-]. exists c4. split; reflexivity.
    - intros [= <- <-]. exists c3. split; reflexivity.
  Qed.

  Lemma start_binop_stop p f c : Stop (start_binop d p f (c ++ T)) (start_binop d p f (c ++ T')).
  Proof.
    unfold start_binop. intros a r.
    destruct (take_while (d_custom_op d) (c ++ T)) as [ops r0] eqn:E.
    destruct (tw_stop _ c pblank_custom_op _ _ E) as (c3 & -> & ->).
    destruct ops; intros [= <- <-]; exists c3; split; reflexivity.
  Qed.

  (** numbers *)
  Lemma num_period_stop s0 c : Stop (num_period s0 (c ++ T)) (num_period s0 (c ++ T')).
  Proof.
    intros a r. destruct c as [|x c]; cbn [app].
    - rewrite !num_period_bt by assumption. intros [= <- <-]. exists []. split; reflexivity.
    - unfold num_period. destruct (x =? cDOT); intros [= <- <-].
      + exists c. split; reflexivity.
      + exists (x :: c). split; reflexivity.
  Qed.

  Lemma num_sign_stop c : Stop (num_sign (c ++ T)) (num_sign (c ++ T')).
  Proof.
    intros a r. destruct c as [|x c]; cbn [app].
    - rewrite !num_sign_bt by assumption. intros [= <- <-]. exists []. split; reflexivity.
    - unfold num_sign. destruct ((x =? cPLUS) || (x =? cMINUS)); intros [= <- <-].
      + exists c. split; reflexivity.
      + exists (x :: c). split; reflexivity.
  Qed.

  Lemma num_exponent_stop s2 c a r sw : num_exponent s2 (c ++ T) = (a, r, sw) ->
    exists c3, r = c3 ++ T /\ num_exponent s2 (c ++ T') = (a, c3 ++ T', sw).
  Proof.
    destruct c as [|e c]; cbn [app].
    - rewrite !num_exponent_bt by assumption. intros [= <- <- <-]. exists []. split; reflexivity.
    - unfold num_exponent. destruct ((e =? 101) || (e =? 69)).
      2:{ intros [= <- <- <-]. exists (e :: c). split; reflexivity. }
      destruct (num_sign (c ++ T)) as [sg rb] eqn:Es.
      destruct (num_sign_stop c _ _ Es) as (c3 & -> & ->).
      destruct c3 as [|dg c3]; cbn [app].
      + assert (Hd : forall X, btail X ->
                  match X with dg :: _ => if is_digit dg then
                     (let '(ds, rc) := take_while is_digit X in (s2 ++ e :: sg ++ ds, rc, true))
                     else (s2, e :: c ++ X, true) | [] => (s2, e :: c ++ X, true) end
                  = (s2, e :: c ++ X, true)).
        { intros [|b0 r0] Hb0; [reflexivity|]. cbn [btail] in Hb0. rewrite (pblank_digit b0 Hb0). reflexivity. }
        rewrite (Hd T HT), (Hd T' HT'). intros [= <- <- <-]. exists (e :: c). split; reflexivity.
      + destruct (is_digit dg).
        * destruct (take_while is_digit (dg :: c3 ++ T)) as [ds rc] eqn:Ed.
          destruct (tw_stop _ (dg :: c3) pblank_digit _ _ Ed) as (c4 & -> & E').
          cbn [app] in E'. rewrite E'. intros [= <- <- <-]. exists c4. split; reflexivity.
        * intros [= <- <- <-]. exists (e :: c). split; reflexivity.
  Qed.

  Lemma num_tail_stop s3 sw c : Stop (num_tail d s3 (c ++ T) sw) (num_tail d s3 (c ++ T') sw).
  Proof.
    intros a r. unfold num_tail.
    assert (Hn : forall a r,
      (match c ++ T with
       | ch :: r4 => if ch =? 76 then (TNumber s3 true, r4) else (TNumber s3 false, c ++ T)
       | [] => (TNumber s3 false, c ++ T) end) = (a, r) ->
      exists c3, r = c3 ++ T /\
      (match c ++ T' with
       | ch :: r4 => if ch =? 76 then (TNumber s3 true, r4) else (TNumber s3 false, c ++ T')
       | [] => (TNumber s3 false, c ++ T') end) = (a, c3 ++ T')).
    { clear a r. intros a r. destruct c as [|x c]; cbn [app].
      - assert (Hd : forall X, btail X ->
          match X with ch :: r4 => if ch =? 76 then (TNumber s3 true, r4) else (TNumber s3 false, X)
                     | [] => (TNumber s3 false, X) end = (TNumber s3 false, X)).
        { intros [|b0 r0] Hb0; [reflexivity|]. cbn [btail] in Hb0.
          rewrite (blank_neq b0 76 Hb0) by reflexivity. reflexivity. }
        rewrite (Hd T HT), (Hd T' HT'). intros [= <- <-]. exists []. split; reflexivity.
      - destruct (x =? 76); intros [= <- <-].
        + exists c. split; reflexivity.
        + exists (x :: c). split; reflexivity. }
    destruct (d_numeric_prefix d && negb sw); [|apply Hn].
    destruct (take_while (d_ident_part d) (c ++ T)) as [w r4] eqn:E.
    destruct (tw_stop _ c pblank_ident_part _ _ E) as (c3 & -> & ->).
    destruct w; [apply Hn|]. intros [= <- <-]. exists c3. split; reflexivity.
  Qed.

  Lemma number_stop c : Stop (number d (c ++ T)) (number d (c ++ T')).
  Proof.
    intros a r. unfold number.
    destruct (take_while is_digit (c ++ T)) as [s0 r0] eqn:E0.
    destruct (tw_stop _ c pblank_digit _ _ E0) as (c0 & -> & ->).
    assert (Hh : match num_hex_prefix s0 (c0 ++ T) with
                 | Some rx => exists cx, rx = cx ++ T /\ num_hex_prefix s0 (c0 ++ T') = Some (cx ++ T')
                 | None => num_hex_prefix s0 (c0 ++ T') = None end).
    { unfold num_hex_prefix. destruct (str_eqb s0 [48]); [|reflexivity].
      destruct c0 as [|x c0]; cbn [app].
      - assert (Hd : forall X, btail X ->
          match X with ch :: r4 => if ch =? 120 then Some r4 else None | [] => None end = @None str).
        { intros [|b0 r0] Hb0; [reflexivity|]. cbn [btail] in Hb0.
          rewrite (blank_neq b0 120 Hb0) by reflexivity. reflexivity. }
        rewrite (Hd T HT), (Hd T' HT'). reflexivity.
      - destruct (x =? 120); [|reflexivity]. exists c0. split; reflexivity. }
    destruct (num_hex_prefix s0 (c0 ++ T)) as [rx|].
    { destruct Hh as (cx & -> & ->).
      destruct (take_while is_hexdigit (cx ++ T)) as [h r'] eqn:Eh.
      destruct (tw_stop _ cx pblank_hexdigit _ _ Eh) as (c3 & -> & ->).
      intros [= <- <-]. exists c3. split; reflexivity. }
    rewrite Hh.
    destruct (num_period s0 (c0 ++ T)) as [s1 r1] eqn:E1.
    destruct (num_period_stop s0 c0 _ _ E1) as (c1 & -> & ->).
    destruct (take_while is_digit (c1 ++ T)) as [s2d r2] eqn:E2.
    destruct (tw_stop _ c1 pblank_digit _ _ E2) as (c2 & -> & ->).
    cbv zeta. destruct (str_eqb (s1 ++ s2d) [cDOT]).
    { intros [= <- <-]. exists c2. split; reflexivity. }
    destruct (num_exponent (s1 ++ s2d) (c2 ++ T)) as [[s3 r3] sw] eqn:E3.
    destruct (num_exponent_stop _ c2 _ _ _ E3) as (c3 & -> & ->).
    apply num_tail_stop.
  Qed.

  (** ** Scanners that may run into the tail: "if it stopped inside [c] ..." *)
  Definition LAo {A} (x y : option (A * str)) : Prop :=
    forall a c2, x = Some (a, c2 ++ T) -> y = Some (a, c2 ++ T').
  Definition LAr {A} (x y : res (A * str)) : Prop :=
    forall a c2, x = Ok (a, c2 ++ T) -> y = Ok (a, c2 ++ T').

  Ltac prefix_of l X :=
    lazymatch l with
    | X => constr:(@nil N)
    | ?c ++ X => constr:(c)
    | ?x :: ?l' => let p := prefix_of l' X in constr:(x :: p)
    end.
  (** [E : l = c2 ++ T] with [l] syntactically [x1 :: .. :: c ++ T]: solve for [c2] *)
  Ltac tail_inv E :=
    match type of E with
    | ?l = ?c2 ++ ?X => let p := prefix_of l X in apply (app_inv_tail X p c2) in E; try subst c2
    end.
  Ltac gen_tails := generalize HT'; generalize T'; generalize HT; generalize T.

  Lemma suffix_split r1 c (X : str) :
    Suffix r1 (c ++ X) -> (exists c1, r1 = c1 ++ X) \/ (length r1 < length X)%nat.
  Proof.
    intros [p Hp]. revert p Hp. induction c as [|x c IH]; intros p Hp; cbn [app] in Hp.
    - destruct p as [|y p]; cbn [app] in Hp.
      + left. exists []. auto.
      + right. subst X. cbn [length]. rewrite app_length. lia.
    - destruct p as [|y p]; cbn [app] in Hp.
      + left. exists (x :: c). auto.
      + injection Hp as _ Hp. eapply IH; eauto.
  Qed.

  (** quoted strings *)
  Lemma qs_bt q many bs ncq X s c2 : btail X -> blankb q = false ->
    qs_loop unesc q many bs ncq X = Some (s, c2 ++ X) -> False.
  Proof.
    intros HX Hq. destruct X as [|b r]; [discriminate|]. cbn [btail] in HX.
    cbn [qs_loop]. rewrite (blank_neq b q HX Hq), (blank_neq b cBSL HX) by reflexivity. cbn [andb].
    destruct (qs_loop unesc q many bs 0 r) as [[s' r']|] eqn:E; [|discriminate].
    intros [= _ E2]. apply qs_loop_suffix in E. rewrite E2 in E. slen E.
  Qed.

  Lemma qs_la q many bs : blankb q = false -> forall c ncq,
    LAo (qs_loop unesc q many bs ncq (c ++ T)) (qs_loop unesc q many bs ncq (c ++ T')).
  Proof.
    intros Hq c. induction c as [c IH] using len_ind. intros ncq s c2.
    destruct c as [|ch c]; cbn [app].
    { intro H. exfalso. exact (qs_bt q many bs ncq T s c2 HT Hq H). }
    cbn [qs_loop].
    destruct ((ch =? q) && (if many then ncq + 1 =? 3 else true)).
    { destruct many.
      - intros [= <- E]. tail_inv E. reflexivity.
      - destruct c as [|x c]; cbn [app].
        + gen_tails. intros [|b r] Hb [|b' r'] Hb'; cbn [btail] in *;
            rewrite ?(blank_neq _ q Hb Hq), ?(blank_neq _ q Hb' Hq);
            intros [= <- E]; tail_inv E; reflexivity.
        + destruct (x =? q).
          * destruct (qs_loop unesc q false bs ncq (c ++ T)) as [[s' r']|] eqn:E; [|discriminate].
            intros [= <- ->]. rewrite (IH c ltac:(cbn [length]; lia) _ _ _ E). reflexivity.
          * intros [= <- E]. tail_inv E. reflexivity. }
    destruct ((ch =? cBSL) && bs).
    { destruct c as [|nx c]; cbn [app].
      - intro H. exfalso. revert H. gen_tails. intros [|b r] Hb _ _; [discriminate|].
        destruct (qs_loop unesc q many bs 0 r) as [[s' r']|] eqn:E; [|discriminate].
        intros [= _ E2]. apply qs_loop_suffix in E. rewrite E2 in E. slen E.
      - destruct (qs_loop unesc q many bs 0 (c ++ T)) as [[s' r']|] eqn:E; [|discriminate].
        intros [= <- ->]. rewrite (IH c ltac:(cbn [length]; lia) _ _ _ E). reflexivity. }
    destruct (qs_loop unesc q many bs _ (c ++ T)) as [[s' r']|] eqn:E; [|discriminate].
    intros [= <- ->]. rewrite (IH c ltac:(cbn [length]; lia) _ _ _ E). reflexivity.
  Qed.

  Lemma single_quoted_la q bs c : blankb q = false ->
    LAr (single_quoted unesc q bs (c ++ T)) (single_quoted unesc q bs (c ++ T')).
  Proof.
    intros Hq s c2. destruct c as [|x c]; cbn [app].
    - intro H. exfalso. revert H. gen_tails. intros [|b r] Hb _ _; [discriminate|].
      cbn [btail] in Hb. unfold single_quoted. rewrite (blank_neq b q Hb Hq). discriminate.
    - unfold single_quoted. destruct (x =? q); [|discriminate].
      destruct (qs_loop unesc q false bs 0 (c ++ T)) as [[s' r']|] eqn:E; [|discriminate].
      intros [= <- ->]. rewrite (qs_la q false bs Hq c _ _ _ E). reflexivity.
  Qed.

  Lemma single_or_triple_la q bs k1 k3 c : blankb q = false ->
    LAr (single_or_triple unesc q bs k1 k3 (c ++ T)) (single_or_triple unesc q bs k1 k3 (c ++ T')).
  Proof.
    intros Hq t c2. destruct c as [|x1 c]; cbn [app].
    { intro H. exfalso. revert H. gen_tails. intros [|b r] Hb _ _; [discriminate|].
      cbn [btail] in Hb. unfold single_or_triple. rewrite (blank_neq b q Hb Hq). discriminate. }
    unfold single_or_triple. destruct (x1 =? q); [|discriminate].
    destruct c as [|x2 c]; cbn [app].
    { intro H. exfalso. revert H. gen_tails. intros [|b r] Hb _ _; [discriminate|].
      cbn [btail] in Hb. rewrite (blank_neq b q Hb Hq).
      destruct (qs_loop unesc q false bs 0 (b :: r)) as [[s' r']|] eqn:E; [|discriminate].
      intros [= _ ->]. exact (qs_bt q false bs 0 (b :: r) s' c2 Hb Hq E). }
    destruct (x2 =? q).
    - destruct c as [|x3 c]; cbn [app].
      + gen_tails. intros [|b r] Hb [|b' r'] Hb'; cbn [btail] in *;
          rewrite ?(blank_neq _ q Hb Hq), ?(blank_neq _ q Hb' Hq);
          intros [= <- E]; tail_inv E; reflexivity.
      + destruct (x3 =? q).
        * destruct (qs_loop unesc q true bs 0 (c ++ T)) as [[s' r']|] eqn:E; [|discriminate].
          intros [= <- ->]. rewrite (qs_la q true bs Hq c _ _ _ E). reflexivity.
        * intros [= <- E]. tail_inv E. reflexivity.
    - destruct (qs_loop unesc q false bs 0 (x2 :: c ++ T)) as [[s' r']|] eqn:E; [|discriminate].
      intros [= <- ->]. pose proof (qs_la q false bs Hq (x2 :: c) _ _ _ E) as E'. cbn [app] in E'.
      rewrite E'. reflexivity.
  Qed.

  Lemma quoted_ident_la qe : blankb qe = false -> forall c,
    LAo (quoted_ident unesc qe (c ++ T)) (quoted_ident unesc qe (c ++ T')).
  Proof.
    intros Hq c. induction c as [c IH] using len_ind. intros s c2.
    destruct c as [|ch c]; cbn [app].
    { intro H. exfalso. revert H. gen_tails. intros [|b r] Hb _ _; [discriminate|].
      cbn [btail] in Hb. cbn [quoted_ident]. rewrite (blank_neq b qe Hb Hq).
      destruct (quoted_ident unesc qe r) as [[s' r']|] eqn:E; [|discriminate].
      intros [= _ E2]. apply quoted_ident_suffix in E. rewrite E2 in E. slen E. }
    cbn [quoted_ident]. destruct (ch =? qe).
    - destruct c as [|x c]; cbn [app].
      + gen_tails. intros [|b r] Hb [|b' r'] Hb'; cbn [btail] in *;
          rewrite ?(blank_neq _ qe Hb Hq), ?(blank_neq _ qe Hb' Hq);
          intros [= <- E]; tail_inv E; reflexivity.
      + destruct (x =? qe).
        * destruct (quoted_ident unesc qe (c ++ T)) as [[s' r']|] eqn:E; [|discriminate].
          intros [= <- ->]. rewrite (IH c ltac:(cbn [length]; lia) _ _ E). reflexivity.
        * intros [= <- E]. tail_inv E. reflexivity.
    - destruct (quoted_ident unesc qe (c ++ T)) as [[s' r']|] eqn:E; [|discriminate].
      intros [= <- ->]. rewrite (IH c ltac:(cbn [length]; lia) _ _ E). reflexivity.
  Qed.

  (** E'..' *)
  Lemma take_exact_la k : forall c, LAo (take_exact k (c ++ T)) (take_exact k (c ++ T')).
  Proof.
    induction k as [|k IH]; intros c a c2; cbn [take_exact].
    - intros [= <- E]. tail_inv E. reflexivity.
    - destruct c as [|x c]; cbn [app].
      + intro H. exfalso. revert H. gen_tails. intros [|b r] Hb _ _; [discriminate|].
        destruct (take_exact k r) as [[a' b']|] eqn:E; [|discriminate].
        intros [= _ E2]. apply take_exact_suffix in E. rewrite E2 in E. slen E.
      + destruct (take_exact k (c ++ T)) as [[a' b']|] eqn:E; [|discriminate].
        intros [= <- ->]. rewrite (IH c _ _ E). reflexivity.
  Qed.

  Lemma take_upto_stop k p : pblank p -> forall c, Stop (take_upto k p (c ++ T)) (take_upto k p (c ++ T')).
  Proof.
    intros Hp. induction k as [|k IH]; intros c a r.
    - cbn [take_upto]. intros [= <- <-]. exists c. split; reflexivity.
    - destruct c as [|x c]; cbn [app].
      + assert (Hd : forall X, btail X -> take_upto (S k) p X = ([], X)).
        { intros [|b0 r0] Hb0; [reflexivity|]. cbn [btail] in Hb0. cbn [take_upto].
          rewrite (Hp b0 Hb0). reflexivity. }
        rewrite (Hd T HT), (Hd T' HT'). intros [= <- <-]. exists []. split; reflexivity.
      + cbn [take_upto]. destruct (p x).
        * destruct (take_upto k p (c ++ T)) as [a1 r1] eqn:E. destruct (IH c _ _ E) as (c3 & -> & ->).
          intros [= <- <-]. exists c3. split; reflexivity.
        * intros [= <- <-]. exists (x :: c). split; reflexivity.
  Qed.

  Lemma unescape_unicode_la k c : LAo (unescape_unicode k (c ++ T)) (unescape_unicode k (c ++ T')).
  Proof.
    intros n c2. unfold unescape_unicode.
    destruct (take_exact k (c ++ T)) as [[s r]|] eqn:E; [|discriminate].
    destruct (from_str_radix 16 is_hexdigit s) as [v|] eqn:Ev; [|discriminate].
    destruct (valid_scalar v) eqn:Evs; [|discriminate]. intros [= <- ->].
    rewrite (take_exact_la k c _ _ E), Ev, Evs. reflexivity.
  Qed.

  Lemma esc_one_la c : LAo (esc_one (c ++ T)) (esc_one (c ++ T')).
  Proof.
    intros n c2. destruct c as [|x c]; cbn [app].
    - intro H. exfalso. revert H. gen_tails. intros [|b r] Hb _ _; [discriminate|].
      intro H. apply esc_one_suffix, SSuffix_length in H. rewrite app_length in H. cbn [length] in H. lia.
    - unfold esc_one.
      repeat match goal with |- (if ?b then _ else _) = _ -> _ => destruct b end;
      try (intros [= <- E]; tail_inv E; reflexivity).
      + apply unescape_unicode_la.
      + apply unescape_unicode_la.
      + destruct (take_upto 2 is_hexdigit (c ++ T)) as [s r'] eqn:E.
        destruct (take_upto_stop 2 _ pblank_hexdigit c _ _ E) as (c3 & -> & ->).
        destruct s as [|s0 s].
        * intros [= <- E2]. tail_inv E2. reflexivity.
        * destruct (byte_to_char 16 is_hexdigit (s0 :: s)); [|discriminate].
          intros [= <- E2]. tail_inv E2. reflexivity.
      + destruct (take_upto 2 is_octal (c ++ T)) as [s r'] eqn:E.
        destruct (take_upto_stop 2 _ pblank_octal c _ _ E) as (c3 & -> & ->).
        destruct (byte_to_char 8 is_octal (x :: s)); [|discriminate].
        intros [= <- E2]. tail_inv E2. reflexivity.
  Qed.

  Lemma esc_loop_la : forall f c f' s c2,
    esc_loop f (c ++ T) = Some (s, c2 ++ T) -> (length (c ++ T') < f')%nat ->
    esc_loop f' (c ++ T') = Some (s, c2 ++ T').
  Proof.
    induction f as [|f IH]; intros c f' s c2; [discriminate|].
    intros H Hf. destruct f' as [|f']; [lia|]. revert H.
    destruct c as [|x c]; cbn [app].
    - intro H; exfalso; revert H. gen_tails. intros [|b r] Hb _ _; [discriminate|].
      cbn [esc_loop]. rewrite (blank_neq b cSQ Hb), (blank_neq b cBSL Hb) by reflexivity. cbn [negb].
      destruct (esc_loop f r) as [[s' r']|] eqn:E; [|discriminate].
      intros [= _ E2]. apply esc_loop_suffix in E. rewrite E2 in E. slen E.
    - cbn [esc_loop]. cbn [app length] in Hf. destruct (x =? cSQ).
      { destruct c as [|y c]; cbn [app].
        - clear Hf. gen_tails. intros [|b r] Hb [|b' r'] Hb';
            rewrite ?(blank_neq _ cSQ Hb), ?(blank_neq _ cSQ Hb') by reflexivity;
            intros [= <- E]; tail_inv E; reflexivity.
        - destruct (y =? cSQ).
          + destruct (esc_loop f (c ++ T)) as [[s' r']|] eqn:E; [|discriminate].
            intros [= <- ->]. rewrite (IH c f' _ _ E); [reflexivity|cbn [app length] in Hf; lia].
          + intros [= <- E]. tail_inv E. reflexivity. }
      destruct (negb (x =? cBSL)).
      { destruct (esc_loop f (c ++ T)) as [[s' r']|] eqn:E; [|discriminate].
        intros [= <- ->]. rewrite (IH c f' _ _ E); [reflexivity|lia]. }
      destruct (esc_one (c ++ T)) as [[n r1]|] eqn:E1; [|discriminate].
      destruct (n =? 0) eqn:En; [discriminate|].
      destruct (esc_loop f r1) as [[s' r']|] eqn:E; [|discriminate].
      intros [= <- ->].
      pose proof (SSuffix_Suffix _ _ (esc_one_suffix _ _ _ E1)) as S1.
      destruct (suffix_split _ _ _ S1) as [(c1 & ->)|Hlt].
      + pose proof (esc_one_la c _ _ E1) as E1'. rewrite E1', En.
        pose proof (SSuffix_length _ _ (esc_one_suffix _ _ _ E1')) as S1'.
        rewrite (IH c1 f' _ _ E); [reflexivity|lia].
      + apply esc_loop_suffix in E. exfalso. eapply too_long; eauto.
  Qed.

  (** U&'..' *)
  Lemma hex_digits_la k : forall acc c, LAr (hex_digits k acc (c ++ T)) (hex_digits k acc (c ++ T')).
  Proof.
    induction k as [|k IH]; intros acc c n c2; cbn [hex_digits].
    - destruct (valid_scalar acc); [|discriminate]. intros [= <- E]. tail_inv E. reflexivity.
    - destruct c as [|x c]; cbn [app].
      + intro H; exfalso; revert H. gen_tails. intros [|b r] Hb _ _; [discriminate|].
        rewrite (pblank_hexdigit b Hb). discriminate.
      + destruct (is_hexdigit x); [|discriminate]. apply IH.
  Qed.

  Definition ustep (f : nat) (x : res (N * str)) : res (str * str) :=
    match x with
    | Ok (n, r1) => match uni_loop f r1 with
                    | Ok (s, r') => Ok (n :: s, r') | Err e a => Err e a | Panic w => Panic w end
    | Err e a => Err e a
    | Panic w => Panic w
    end.
  Definition ucons (f : nat) (x : N) (l : str) : res (str * str) :=
    match uni_loop f l with
    | Ok (s, r') => Ok (x :: s, r') | Err e a => Err e a | Panic w => Panic w end.
  Lemma uni_loop_S f c r : uni_loop (S f) (c :: r) =
    if c =? cSQ then
      match r with
      | c2 :: r2 => if c2 =? cSQ then ucons f cSQ r2 else Ok ([], r)
      | [] => Ok ([], r) end
    else if c =? cBSL then
      match r with
      | c2 :: r2 => if c2 =? cBSL then ucons f cBSL r2
                    else if c2 =? cPLUS then ustep f (hex_digits 6 0 r2) else ustep f (hex_digits 4 0 r)
      | [] => ustep f (hex_digits 4 0 r) end
    else ucons f c r.
  Proof. reflexivity. Qed.

  Lemma uni_loop_la : forall f c f' s c2,
    uni_loop f (c ++ T) = Ok (s, c2 ++ T) -> (length (c ++ T') < f')%nat ->
    uni_loop f' (c ++ T') = Ok (s, c2 ++ T').
  Proof.
    induction f as [|f IH]; intros c f' s c2; [discriminate|].
    intros H Hf. destruct f' as [|f']; [lia|]. revert H.
    assert (Hrec : forall cc x s c2, (length (cc ++ T') < f')%nat ->
              ucons f x (cc ++ T) = Ok (s, c2 ++ T) -> ucons f' x (cc ++ T') = Ok (s, c2 ++ T')).
    { intros cc x s0 c0 Hl. unfold ucons.
      destruct (uni_loop f (cc ++ T)) as [[s' r']|e a|w] eqn:E; try discriminate.
      intros [= <- ->]. rewrite (IH cc f' _ _ E Hl). reflexivity. }
    assert (Hstep : forall k cc s c2, (length (cc ++ T') < f')%nat ->
              ustep f (hex_digits k 0 (cc ++ T)) = Ok (s, c2 ++ T) ->
              ustep f' (hex_digits k 0 (cc ++ T')) = Ok (s, c2 ++ T')).
    { intros k cc s0 c0 Hl. unfold ustep.
      destruct (hex_digits k 0 (cc ++ T)) as [[n r1]|e a|w] eqn:Eh; try discriminate.
      destruct (uni_loop f r1) as [[s' r']|e a|w] eqn:Eu; try discriminate.
      intros [= <- ->]. pose proof (hex_digits_suffix _ _ _ _ _ Eh) as S1.
      destruct (suffix_split _ _ _ S1) as [(c1 & ->)|Hlt].
      - pose proof (hex_digits_la k 0 cc _ _ Eh) as Eh'. rewrite Eh'.
        pose proof (Suffix_length _ _ (hex_digits_suffix _ _ _ _ _ Eh')) as S1'.
        rewrite (IH c1 f' _ _ Eu) by lia. reflexivity.
      - pose proof (uni_loop_suffix f r1) as Hs. rewrite Eu in Hs. exfalso. eapply too_long; eauto. }
    destruct c as [|x c]; cbn [app].
    - intro H; exfalso; revert H. clear Hrec Hstep. gen_tails. intros [|b r] Hb _ _; [discriminate|].
      rewrite uni_loop_S. rewrite (blank_neq b cSQ Hb), (blank_neq b cBSL Hb) by reflexivity.
      unfold ucons. pose proof (uni_loop_suffix f r) as Hs.
      destruct (uni_loop f r) as [[s' r']|e a|w]; try discriminate.
      intros [= _ E2]. rewrite E2 in Hs. slen Hs.
    - rewrite !uni_loop_S. cbn [app length] in Hf. destruct (x =? cSQ).
      { destruct c as [|y c]; cbn [app].
        - clear Hf Hrec Hstep. gen_tails. intros [|b r] Hb [|b' r'] Hb';
            rewrite ?(blank_neq _ cSQ Hb), ?(blank_neq _ cSQ Hb') by reflexivity;
            intros [= <- E]; tail_inv E; reflexivity.
        - destruct (y =? cSQ).
          + apply Hrec. cbn [app length] in Hf. lia.
          + intros [= <- E]. tail_inv E. reflexivity. }
      destruct (x =? cBSL).
      { destruct c as [|y c]; cbn [app].
        - intro H; exfalso; revert H. clear Hrec Hstep Hf. gen_tails. intros [|b r] Hb _ _.
          + cbn. discriminate.
          + rewrite (blank_neq b cBSL Hb), (blank_neq b cPLUS Hb) by reflexivity.
            unfold ustep. cbn [hex_digits]. rewrite (pblank_hexdigit b Hb). discriminate.
        - cbn [app length] in Hf. destruct (y =? cBSL); [apply Hrec; lia|].
          destruct (y =? cPLUS); [apply Hstep; lia|]. apply (Hstep 4%nat (y :: c)). cbn [app length]. lia. }
      apply Hrec. lia.
  Qed.

  (** dollar-quoted strings *)
  Lemma dq_loop_la : forall c prev, LAo (dq_loop prev (c ++ T)) (dq_loop prev (c ++ T')).
  Proof.
    induction c as [|ch c IH]; intros prev s c2; cbn [app].
    - intro H; exfalso; revert H. gen_tails. intros [|b r] Hb _ _; [discriminate|].
      cbn [dq_loop]. rewrite (blank_neq b cDOLLAR Hb) by reflexivity. cbn [negb].
      destruct prev as [p|]; [destruct (p =? cDOLLAR)|];
      (destruct (dq_loop (Some b) r) as [[s' r']|] eqn:E; [|discriminate];
       intros [= _ E2]; apply dq_loop_suffix in E; rewrite E2 in E; slen E).
    - cbn [dq_loop].
      assert (Hrec : forall x,
        match dq_loop (Some ch) (c ++ T) with Some (s, r') => Some (x ++ s, r') | None => None end
          = Some (s, c2 ++ T) ->
        match dq_loop (Some ch) (c ++ T') with Some (s, r') => Some (x ++ s, r') | None => None end
          = Some (s, c2 ++ T')).
      { intro x. destruct (dq_loop (Some ch) (c ++ T)) as [[s' r']|] eqn:E; [|discriminate].
        intros [= <- ->]. rewrite (IH _ _ _ E). reflexivity. }
      destruct prev as [p|].
      + destruct (p =? cDOLLAR).
        * destruct (ch =? cDOLLAR).
          -- intros [= <- E]. tail_inv E. reflexivity.
          -- apply (Hrec [cDOLLAR; ch]).
        * destruct (negb (ch =? cDOLLAR)); [apply (Hrec [ch])|apply IH].
      + destruct (negb (ch =? cDOLLAR)); [apply (Hrec [ch])|apply IH].
  Qed.

  Lemma match_tag_la : forall tag c,
    match match_tag tag (c ++ T) with
    | TagEq r => forall c2, r = c2 ++ T -> match_tag tag (c ++ T') = TagEq (c2 ++ T')
    | TagNe ms r => forall c2, r = c2 ++ T -> match_tag tag (c ++ T') = TagNe ms (c2 ++ T')
    | TagEof => True
    end.
  Proof.
    induction tag as [|t tag IH]; intros c.
    - cbn [match_tag]. intros c2 E. tail_inv E. reflexivity.
    - destruct c as [|x c]; cbn [app].
      + gen_tails. intros [|b r] Hb X' _; [exact I|]. cbn [match_tag].
        pose proof (match_tag_suffix tag r) as Hs.
        destruct (b =? t).
        * destruct (match_tag tag r) as [r2|ms r2|]; [| |exact I]; intros c2 ->.
          -- slen Hs.
          -- apply SSuffix_Suffix in Hs. slen Hs.
        * intros c2 E. assert (Hx : Suffix (c2 ++ b :: r) r) by (rewrite <- E; apply Suffix_refl). slen Hx.
      + cbn [match_tag]. destruct (x =? t).
        * specialize (IH c). destruct (match_tag tag (c ++ T)) as [r2|ms r2|]; [| |exact I];
            intros c2 E; rewrite (IH c2 E); reflexivity.
        * intros c2 E. tail_inv E. reflexivity.
  Qed.

  Lemma tw_split p c :
    (exists pre x c1, c = pre ++ x :: c1 /\ p x = false /\
       forall X, take_while p (c ++ X) = (pre, x :: c1 ++ X)) \/
    (forall X, take_while p (c ++ X) = (c ++ fst (take_while p X), snd (take_while p X))).
  Proof.
    induction c as [|y c IH].
    - right. intro X. cbn [app]. destruct (take_while p X); reflexivity.
    - destruct (p y) eqn:Ey.
      + destruct IH as [(pre & x & c1 & -> & Hx & H)|H].
        * left. exists (y :: pre), x, c1. repeat split; auto. intro X. cbn [app take_while].
          rewrite Ey, H. reflexivity.
        * right. intro X. cbn [app take_while]. rewrite Ey, H. reflexivity.
      + left. exists [], y, c. repeat split; auto. intro X. cbn [app take_while]. rewrite Ey. reflexivity.
  Qed.

  Lemma tagged_after f tag l s rest : tagged_loop (S f) tag l = Ok (s, rest) ->
    exists pre x r1, take_while (fun ch => negb (ch =? cDOLLAR)) l = (pre, x :: r1) /\
      match match_tag tag r1 with
      | TagEq r2 => Suffix rest r2
      | TagNe _ r2 => Suffix rest r2
      | TagEof => False
      end.
  Proof.
    cbn [tagged_loop]. destruct (take_while _ l) as [pre r] eqn:E.
    destruct r as [|x r1]; [discriminate|]. intro H. exists pre, x, r1. split; [reflexivity|]. revert H.
    assert (Hcont : forall ms r2,
      match tagged_loop f tag r2 with
      | Ok (s, r') => Ok (pre ++ cDOLLAR :: ms ++ s, r') | Err e a => Err e a | Panic w => Panic w end
        = Ok (s, rest) -> Suffix rest r2).
    { intros ms r2. pose proof (tagged_loop_suffix f tag r2) as Hs.
      destruct (tagged_loop f tag r2) as [[s' r']|e a|w]; try discriminate. intros [= _ <-]. exact Hs. }
    destruct (match_tag tag r1) as [r2|ms r2|]; [| |discriminate].
    - destruct r2 as [|c r3]; [apply Hcont|]. destruct (c =? cDOLLAR); [|apply Hcont].
      intros [= _ <-]. auto with sfx.
    - apply Hcont.
  Qed.

  Lemma tagged_loop_la tag : forall f c f' s c2,
    tagged_loop f tag (c ++ T) = Ok (s, c2 ++ T) -> (length (c ++ T') < f')%nat ->
    tagged_loop f' tag (c ++ T') = Ok (s, c2 ++ T').
  Proof.
    induction f as [|f IH]; intros c f' s c2; [discriminate|].
    intros H Hf. destruct f' as [|f']; [lia|].
    destruct (tagged_after _ _ _ _ _ H) as (pre0 & x0 & r1 & E0 & Hm0).
    destruct (tw_split (fun ch => negb (ch =? cDOLLAR)) c) as [(pre & x & c1 & -> & Hx & Htw)|Htw].
    2:{ exfalso. rewrite Htw in E0. destruct (take_while _ T) as [a b] eqn:Et. cbn [fst snd] in E0.
        injection E0 as _ ->. apply take_while_suffix, Suffix_length in Et. cbn [length] in Et.
        pose proof (match_tag_suffix tag r1) as Hs.
        destruct (match_tag tag r1) as [r2|ms r2|]; [| |contradiction].
        - apply Suffix_length in Hs. eapply too_long; [exact Hm0|lia].
        - apply SSuffix_length in Hs. eapply too_long; [exact Hm0|lia]. }
    rewrite Htw in E0. injection E0 as <- <- <-.
    revert H. cbn [tagged_loop]. rewrite !Htw.
    assert (Hcont : forall ms cc s c2, (length cc <= length c1)%nat ->
       match tagged_loop f tag (cc ++ T) with
       | Ok (s, r') => Ok (pre ++ cDOLLAR :: ms ++ s, r') | Err e a => Err e a | Panic w => Panic w end
         = Ok (s, c2 ++ T) ->
       match tagged_loop f' tag (cc ++ T') with
       | Ok (s, r') => Ok (pre ++ cDOLLAR :: ms ++ s, r') | Err e a => Err e a | Panic w => Panic w end
         = Ok (s, c2 ++ T')).
    { intros ms cc s0 c0 Hl. destruct (tagged_loop f tag (cc ++ T)) as [[s' r']|e a|w] eqn:E; try discriminate.
      intros [= <- ->]. rewrite (IH cc f' _ _ E); [reflexivity|].
      rewrite !app_length in *. cbn [length] in *. lia. }
    pose proof (match_tag_la tag c1) as Hm. pose proof (match_tag_suffix tag (c1 ++ T)) as Hs.
    destruct (match_tag tag (c1 ++ T)) as [r2|ms r2|] eqn:Em; [| |contradiction].
    - destruct (suffix_split _ _ _ Hs) as [(c3 & ->)|Hlt]; [|exfalso; eapply too_long; eauto].
      rewrite (Hm c3 eq_refl).
      assert (Hl3 : (length c3 <= length c1)%nat).
      { apply Suffix_length in Hs. rewrite !app_length in Hs. lia. }
      destruct c3 as [|y c3]; cbn [app].
      + clear Hm Em Hs Hm0 IH Hf. revert Hcont. gen_tails.
        intros [|b r] Hb [|b' r'] Hb' Hcont;
          rewrite ?(blank_neq _ cDOLLAR Hb), ?(blank_neq _ cDOLLAR Hb') by reflexivity;
          apply (Hcont tag []); cbn [length]; lia.
      + destruct (y =? cDOLLAR).
        * intros [= <- E]. tail_inv E. reflexivity.
        * apply (Hcont tag (y :: c3)). exact Hl3.
    - apply SSuffix_Suffix in Hs.
      destruct (suffix_split _ _ _ Hs) as [(c3 & ->)|Hlt]; [|exfalso; eapply too_long; eauto].
      rewrite (Hm c3 eq_refl). apply Hcont.
      apply Suffix_length in Hs. rewrite !app_length in Hs. lia.
  Qed.

  Lemma dollar_value_bt x X : btail X -> dollar_value u (x :: X) = Ok (TPlaceholder [cDOLLAR], X).
  Proof.
    destruct X as [|b r]; [reflexivity|]. intro Hb. unfold dollar_value. cbn [tl].
    rewrite (blank_neq b cDOLLAR Hb) by reflexivity.
    rewrite (tw_bt _ (b :: r) pblank_alnum_us Hb).
    rewrite (blank_neq b cDOLLAR Hb) by reflexivity. reflexivity.
  Qed.

  Lemma dollar_value_la x c : LAr (dollar_value u (x :: c ++ T)) (dollar_value u (x :: c ++ T')).
  Proof.
    intros t c2. destruct c as [|y c]; cbn [app].
    { rewrite !dollar_value_bt by assumption. intros [= <- E]. tail_inv E. reflexivity. }
    unfold dollar_value. cbn [tl]. destruct (y =? cDOLLAR).
    - destruct (dq_loop None (c ++ T)) as [[s r]|] eqn:E; [|discriminate].
      intros [= <- ->]. rewrite (dq_loop_la c None _ _ E). reflexivity.
    - destruct (take_while _ (y :: c ++ T)) as [value l3] eqn:E.
      destruct (tw_stop _ (y :: c) pblank_alnum_us _ _ E) as (c3 & -> & E'). cbn [app] in E'. rewrite E'.
      destruct c3 as [|z c3]; cbn [app].
      + clear E E'. gen_tails. intros [|b r] Hb [|b' r'] Hb';
          rewrite ?(blank_neq _ cDOLLAR Hb), ?(blank_neq _ cDOLLAR Hb') by reflexivity;
          intros [= <- E2]; tail_inv E2; reflexivity.
      + destruct (z =? cDOLLAR).
        * destruct (tagged_loop (S (length (c3 ++ T))) value (c3 ++ T)) as [[s r]|e a|w] eqn:Et; try discriminate.
          intros [= <- ->].
          rewrite (tagged_loop_la value _ c3 (S (length (c3 ++ T'))) _ _ Et) by lia. reflexivity.
        * intros [= <- E2]. tail_inv E2. reflexivity.
  Qed.

  (** comments *)
  Lemma line_comment_la c cm c2 : (c2 = [] -> T = [] -> T' = []) ->
    line_comment (c ++ T) = Ok (cm, c2 ++ T) -> line_comment (c ++ T') = Ok (cm, c2 ++ T').
  Proof.
    intros HL. unfold line_comment.
    destruct (tw_split (fun ch => negb (ch =? cLF)) c) as [(pre & x & c1 & -> & Hx & Htw)|Htw]; rewrite !Htw.
    - destruct (x =? cLF); [|discriminate]. intros [= <- E]. tail_inv E. reflexivity.
    - clear Htw. revert HL. gen_tails. intros [|b r] Hb [|b' r'] Hb' HL.
      + cbn. intros [= <- E]. symmetry in E. apply app_eq_nil in E as [-> _]. reflexivity.
      + cbn. intros [= _ E]. symmetry in E. apply app_eq_nil in E as [E _].
        specialize (HL E eq_refl). discriminate.
      + intro H. exfalso. revert H. destruct (take_while _ (b :: r)) as [a0 b0] eqn:Et.
        apply take_while_suffix in Et. cbn [fst snd]. destruct b0 as [|ch b0].
        * intros [= _ E]. symmetry in E. apply app_eq_nil in E as [_ E]. discriminate.
        * destruct (ch =? cLF); [|discriminate]. intros [= _ ->]. slen Et.
      + intro H. exfalso. revert H. destruct (take_while _ (b :: r)) as [a0 b0] eqn:Et.
        apply take_while_suffix in Et. cbn [fst snd]. destruct b0 as [|ch b0].
        * intros [= _ E]. symmetry in E. apply app_eq_nil in E as [_ E]. discriminate.
        * destruct (ch =? cLF); [|discriminate]. intros [= _ ->]. slen Et.
  Qed.

  Lemma ml_loop_la : forall c last n, LAo (ml_loop last n (c ++ T)) (ml_loop last n (c ++ T')).
  Proof.
    induction c as [|ch c IH]; intros last n s c2; cbn [app].
    - intro H; exfalso; revert H. gen_tails. intros [|b r] Hb _ _; [discriminate|].
      cbn [ml_loop]. rewrite (blank_neq b cSTAR Hb), (blank_neq b cSLASH Hb) by reflexivity.
      rewrite !andb_false_r.
      destruct (ml_loop b n r) as [[s' r']|] eqn:E; [|discriminate].
      intros [= _ E2]. apply ml_loop_suffix in E. rewrite E2 in E. slen E.
    - cbn [ml_loop].
      assert (Hrec : forall m,
        match ml_loop ch m (c ++ T) with Some (s, r') => Some (ch :: s, r') | None => None end
          = Some (s, c2 ++ T) ->
        match ml_loop ch m (c ++ T') with Some (s, r') => Some (ch :: s, r') | None => None end
          = Some (s, c2 ++ T')).
      { intro m. destruct (ml_loop ch m (c ++ T)) as [[s' r']|] eqn:E; [|discriminate].
        intros [= <- ->]. rewrite (IH _ _ _ _ E). reflexivity. }
      destruct ((last =? cSLASH) && (ch =? cSTAR)); [apply Hrec|].
      destruct ((last =? cSTAR) && (ch =? cSLASH)); [|apply Hrec].
      destruct (n - 1 =? 0); [|apply Hrec]. intros [= <- E]. tail_inv E. reflexivity.
  Qed.

  Lemma multiline_comment_la c : LAr (multiline_comment (c ++ T)) (multiline_comment (c ++ T')).
  Proof.
    intros t c2. unfold multiline_comment.
    destruct (ml_loop cSP 1 (c ++ T)) as [[s r]|] eqn:E; [|discriminate].
    intros [= <- ->]. rewrite (ml_loop_la c _ _ _ _ E). reflexivity.
  Qed.

  (** * The dispatcher *)
  (** [Rel l l']: the same characters followed by [T] resp. [T'] *)
  Inductive Rel : str -> str -> Prop :=
  | Rel_nil : Rel T T'
  | Rel_cons x l l' : Rel l l' -> Rel (x :: l) (x :: l').
  Lemma Rel_app c : Rel (c ++ T) (c ++ T').
  Proof. induction c; cbn [app]; constructor; auto. Qed.
  Lemma Rel_inv l l' : Rel l l' -> exists c, l = c ++ T /\ l' = c ++ T'.
  Proof. induction 1 as [|x l l' _ (c & -> & ->)]; [exists []|exists (x :: c)]; split; reflexivity. Qed.

  (** tokens of interest (lets the statement exclude some whitespace tokens) *)
  Variable P : tok -> str -> Prop.
  Definition LAt (x y : res (option (tok * str))) : Prop :=
    forall t c2, P t c2 -> x = Ok (Some (t, c2 ++ T)) -> y = Ok (Some (t, c2 ++ T')).

  Lemma LAt_ret t l l' : Rel l l' -> LAt (ret t l) (ret t l').
  Proof. intros (c & -> & ->)%Rel_inv t0 c2 _. unfold ret. intros [= <- E]. tail_inv E. reflexivity. Qed.

  Lemma LAt_retp (x y : tok * str) : Stop x y -> LAt (retp x) (retp y).
  Proof. destruct x as [t r]. intros H t0 c2 _ [= <- ->]. unfold retp.
    rewrite (Stop_elim _ _ _ _ H eq_refl). reflexivity. Qed.

  Lemma LAt_word ch l l' : Rel l l' -> LAt (word_from d ch l) (word_from d ch l').
  Proof. intros (c & -> & ->)%Rel_inv t0 c2 _. unfold word_from.
    destruct (tokenize_word d [ch] (c ++ T)) as [w r] eqn:E.
    destruct (tokenize_word_stop [ch] c _ _ E) as (c3 & -> & ->).
    unfold ret. intros [= <- E2]. tail_inv E2. reflexivity. Qed.

  Lemma LAt_sot q bs k1 k3 l l' : Rel l l' -> blankb q = false ->
    LAt (lift (single_or_triple unesc q bs k1 k3 l) (fun x => retp x))
        (lift (single_or_triple unesc q bs k1 k3 l') (fun x => retp x)).
  Proof. intros (c & -> & ->)%Rel_inv Hq t0 c2 _. unfold lift, retp.
    destruct (single_or_triple unesc q bs k1 k3 (c ++ T)) as [[t r]|e a|w] eqn:E; try discriminate.
    intros [= <- ->]. rewrite (single_or_triple_la q bs k1 k3 c Hq _ _ E). reflexivity. Qed.

  Lemma LAt_sq q bs k l l' : Rel l l' -> blankb q = false ->
    LAt (lift (single_quoted unesc q bs l) (fun '(s, r') => ret (TStr k s) r'))
        (lift (single_quoted unesc q bs l') (fun '(s, r') => ret (TStr k s) r')).
  Proof. intros (c & -> & ->)%Rel_inv Hq t0 c2 _. unfold lift, ret.
    destruct (single_quoted unesc q bs (c ++ T)) as [[t r]|e a|w] eqn:E; try discriminate.
    intros [= <- ->]. rewrite (single_quoted_la q bs c Hq _ _ E). reflexivity. Qed.

  Lemma LAt_esc f f' a a' l l' : Rel l l' -> (length l' < f')%nat ->
    LAt (match esc_loop f l with
         | Some (s, r') => ret (TStr KEscaped s) r' | None => Err EUnterminatedEncoded a end)
        (match esc_loop f' l' with
         | Some (s, r') => ret (TStr KEscaped s) r' | None => Err EUnterminatedEncoded a' end).
  Proof. intros (c & -> & ->)%Rel_inv Hf t0 c2 _. unfold ret.
    destruct (esc_loop f (c ++ T)) as [[s r]|] eqn:E; try discriminate.
    intros [= <- ->]. rewrite (esc_loop_la f c f' _ _ E Hf). reflexivity. Qed.

  Lemma LAt_uni f f' l l' : Rel l l' -> (length l' < f')%nat ->
    LAt (lift (uni_loop f l) (fun '(s, r') => ret (TStr KUnicode s) r'))
        (lift (uni_loop f' l') (fun '(s, r') => ret (TStr KUnicode s) r')).
  Proof. intros (c & -> & ->)%Rel_inv Hf t0 c2 _. unfold lift, ret.
    destruct (uni_loop f (c ++ T)) as [[s r]|e a|w] eqn:E; try discriminate.
    intros [= <- ->]. rewrite (uni_loop_la f c f' _ _ E Hf). reflexivity. Qed.

  Lemma meq_blank ch qe : matching_end_quote ch = Some qe -> blankb qe = false.
  Proof. unfold matching_end_quote.
    repeat match goal with |- (if ?b then _ else _) = _ -> _ => destruct b end;
      try discriminate; intros [= <-]; reflexivity. Qed.

  Lemma LAt_delim ch a a' l l' : Rel l l' ->
    LAt (match matching_end_quote ch with
         | Some qe => match quoted_ident unesc qe l with
                      | Some (s, r') => ret (TWord s (Some ch)) r'
                      | None => Err (EExpectedClose qe) a end
         | None => Panic 1 end)
        (match matching_end_quote ch with
         | Some qe => match quoted_ident unesc qe l' with
                      | Some (s, r') => ret (TWord s (Some ch)) r'
                      | None => Err (EExpectedClose qe) a' end
         | None => Panic 1 end).
  Proof. intros (c & -> & ->)%Rel_inv t0 c2 _. unfold ret.
    destruct (matching_end_quote ch) as [qe|] eqn:Eq; [|discriminate].
    destruct (quoted_ident unesc qe (c ++ T)) as [[s r]|] eqn:E; try discriminate.
    intros [= <- ->]. rewrite (quoted_ident_la qe (meq_blank _ _ Eq) c _ _ E). reflexivity. Qed.

  Lemma LAt_number l l' : Rel l l' -> LAt (retp (number d l)) (retp (number d l')).
  Proof. intros (c & -> & ->)%Rel_inv. apply LAt_retp, number_stop. Qed.
  Lemma LAt_binop p f l l' : Rel l l' -> LAt (retp (start_binop d p f l)) (retp (start_binop d p f l')).
  Proof. intros (c & -> & ->)%Rel_inv. apply LAt_retp, start_binop_stop. Qed.
  Lemma LAt_consume p f x l l' : Rel l l' ->
    LAt (retp (consume_for_binop d p f (x :: l))) (retp (consume_for_binop d p f (x :: l'))).
  Proof. intros (c & -> & ->)%Rel_inv. apply LAt_retp. unfold consume_for_binop. cbn [tl].
    apply start_binop_stop. Qed.
  Lemma LAt_ident chs x l l' : Rel l l' ->
    LAt (retp (ident_or_keyword d chs (x :: l))) (retp (ident_or_keyword d chs (x :: l'))).
  Proof. intros (c & -> & ->)%Rel_inv. apply LAt_retp, ident_stop. Qed.

  Hypothesis HL : forall p cm, P (TWs (WLine p cm)) [] -> T = [] -> T' = [].

  Lemma LAt_line p l l' : Rel l l' -> LAt (line_comment_tok p l) (line_comment_tok p l').
  Proof. intros (c & -> & ->)%Rel_inv t0 c2 Pt. unfold line_comment_tok, lift, ret.
    destruct (line_comment (c ++ T)) as [[cm r]|e a|w] eqn:E; try discriminate.
    intros [= <- ->]. rewrite (line_comment_la c _ _ (fun E0 => HL _ _ (eq_ind _ _ Pt _ E0)) E). reflexivity. Qed.

  Lemma LAt_ml l l' : Rel l l' ->
    LAt (lift (multiline_comment l) (fun x => retp x)) (lift (multiline_comment l') (fun x => retp x)).
  Proof. intros (c & -> & ->)%Rel_inv t0 c2 _. unfold lift, retp.
    destruct (multiline_comment (c ++ T)) as [[t r]|e a|w] eqn:E; try discriminate.
    intros [= <- ->]. rewrite (multiline_comment_la c _ _ E). reflexivity. Qed.

  Lemma LAt_dollar x l l' : Rel l l' ->
    LAt (lift (dollar_value u (x :: l)) (fun y => retp y)) (lift (dollar_value u (x :: l')) (fun y => retp y)).
  Proof. intros (c & -> & ->)%Rel_inv t0 c2 _. unfold lift, retp.
    destruct (dollar_value u (x :: c ++ T)) as [[t r]|e a|w] eqn:E; try discriminate.
    intros [= <- ->]. rewrite (dollar_value_la x c _ _ E). reflexivity. Qed.

  Lemma LAt_qm l l' : Rel l l' ->
    LAt (let '(s, r') := take_while (u_numeric u) l in ret (TPlaceholder (cQM :: s)) r')
        (let '(s, r') := take_while (u_numeric u) l' in ret (TPlaceholder (cQM :: s)) r').
  Proof. intros (c & -> & ->)%Rel_inv t0 c2 _.
    destruct (take_while (u_numeric u) (c ++ T)) as [s r] eqn:E.
    destruct (tw_stop _ c pblank_numeric _ _ E) as (c3 & -> & ->).
    unfold ret. intros [= <- E2]. tail_inv E2. reflexivity. Qed.

  (** CR: the only place where the dispatcher looks for a blank *)
  Lemma LAt_cr1 t y : peek_is T cLF = true -> LAt (ret t (tl T)) y.
  Proof. intros Hp t0 c2 _. unfold ret. intros [= _ E]. exfalso. revert Hp E. clear.
    destruct T as [|b r]; [discriminate|]. cbn [tl]. intros _ E.
    assert (Hx : Suffix (c2 ++ b :: r) r) by (rewrite <- E; apply Suffix_refl). slen Hx. Qed.
  Lemma peek_ws_bt {A} X (a : A) (f : N -> A) (c : A) : btail X -> (X = [] -> c = a) ->
    match X with [] => c | s :: _ => if u_whitespace u s then a else f s end = a.
  Proof. destruct X as [|b r]; [intros _ H; apply H; reflexivity|]. cbn [btail]. intros Hb _.
    destruct (HN b Hb) as (_ & _ & _ & _ & -> & _). reflexivity. Qed.

  Ltac split_ifs :=
    repeat match goal with
    | |- context [if ?b then _ else _] => destruct b eqn:?
    end.
  Ltac rel := repeat first [apply Rel_nil | apply Rel_cons | apply Rel_app].
  Ltac leaf :=
    first
      [ match goal with H : peek_is T cLF = true |- _ => apply (LAt_cr1 _ _ H) end
      | apply LAt_ret; solve [rel]
      | apply LAt_word; rel
      | apply LAt_sq; [rel|reflexivity]
      | apply LAt_sot; [rel|reflexivity]
      | apply LAt_esc; [rel|cbn [length]; lia]
      | apply LAt_uni; [rel|cbn [length]; lia]
      | apply LAt_delim; rel
      | apply LAt_number; rel
      | apply LAt_binop; rel
      | apply LAt_consume; rel
      | apply LAt_ident; rel
      | apply LAt_line; rel
      | apply LAt_ml; rel
      | apply LAt_dollar; rel
      | apply LAt_qm; rel ].

  Theorem next_token_la ch c :
    (forall c2, P (TWs WNewline) c2 -> ch = cCR -> c = [] -> peek_is T' cLF = false) ->
    d_delim_start d ch && proper_inside_quotes d u (ch :: c ++ T)
      = d_delim_start d ch && proper_inside_quotes d u (ch :: c ++ T') ->
    LAt (next_token d u unesc (ch :: c ++ T)) (next_token d u unesc (ch :: c ++ T')).
  Proof.
    intros HCR Hprobe.
    destruct c as [|x [|y [|z c]]]; cbn [app] in *; unfold next_token; cbn [peek_is tl];
      rewrite ?Hprobe;
      repeat match goal with
             | |- context [peek_is T ?k] => rewrite (btail_peek T k HT eq_refl)
             | |- context [peek_is T' ?k] => rewrite (btail_peek T' k HT' eq_refl)
             end;
      repeat (rewrite (peek_ws_bt T) by first [exact HT | let E := fresh in intro E; rewrite E; reflexivity]);
      repeat (rewrite (peek_ws_bt T') by first [exact HT' | let E := fresh in intro E; rewrite E; reflexivity]);
      rewrite ?andb_false_r; cbn [andb orb negb].
    all: split_ifs.
    all: try solve [leaf].
    (* CR directly before the tail, and [T'] starts with LF *)
    intros t0 c2 Pt. unfold ret. intros [= <- _]. exfalso.
    match goal with H : (ch =? cCR) = true |- _ => apply N.eqb_eq in H; specialize (HCR _ Pt H eq_refl) end.
    discriminate.
  Qed.
End Scan.

(** * The unbounded probe of Redshift-style dialects *)
(** [probe d u c]: [c] is a delimited-identifier opener followed by whitespace only, in a dialect
    whose [is_proper_identifier_inside_quotes] skips whitespace and inspects the next character:
    the token then depends on what follows the blanks (known exception, refuted below). *)
Definition probe (d : dialect) (u : uni) (c : str) : bool :=
  match d_piq d with
  | PiqAlways => false
  | PiqRedshift =>
      match c with ch :: c' => d_delim_start d ch && forallb (u_whitespace u) c' | [] => false end
  end.

Lemma skip_ws_app u c : forallb (u_whitespace u) c = false ->
  exists y c1, forall X, skip_ws u (c ++ X) = y :: c1 ++ X.
Proof.
  induction c as [|x c IH]; cbn [forallb]; [discriminate|].
  destruct (u_whitespace u x) eqn:E; cbn [andb].
  - intro H. destruct (IH H) as (y & c1 & H1). exists y, c1. intro X. cbn [app skip_ws]. rewrite E. apply H1.
  - intros _. exists x, c. intro X. cbn [app skip_ws]. rewrite E. reflexivity.
Qed.

Lemma probe_eq d u ch c X X' : probe d u (ch :: c) = false ->
  d_delim_start d ch && proper_inside_quotes d u (ch :: c ++ X)
    = d_delim_start d ch && proper_inside_quotes d u (ch :: c ++ X').
Proof.
  unfold probe, proper_inside_quotes. destruct (d_piq d); [reflexivity|]. cbn [tl].
  destruct (d_delim_start d ch); [|reflexivity]. cbn [andb]. intro H.
  destruct (skip_ws_app u c H) as (y & c1 & H1). rewrite !H1. reflexivity.
Qed.

(** * Main theorems (token level) *)
(** General form: tails [T], [T'] are the end of input or start with a blank; the token left the
    characters [c2] of [c] and all of [T] unread.  Side conditions: only for a CR immediately
    before the tail (CR LF is one token) and for a line comment that ended at the end of input. *)
Theorem next_token_lookahead d u unesc T T' c t c2 :
  blank_neutral d u -> btail T -> btail T' -> probe d u c = false ->
  (t = TWs WNewline -> c = [cCR] -> peek_is T' cLF = false) ->
  ((exists p cm, t = TWs (WLine p cm)) -> c2 = [] -> T = [] -> T' = []) ->
  next_token d u unesc (c ++ T) = Ok (Some (t, c2 ++ T)) ->
  next_token d u unesc (c ++ T') = Ok (Some (t, c2 ++ T')).
Proof.
  intros HN HT HT' Hp HCR HL H. destruct c as [|ch c].
  { exfalso. pose proof (next_token_spec d u unesc T) as Hs. cbn [app] in H. rewrite H in Hs. cbn in Hs.
    apply SSuffix_length in Hs. rewrite app_length in Hs. lia. }
  cbn [app] in *.
  refine (next_token_la d u unesc T T' HT HT' HN (fun t' c' => t' = t /\ c' = c2) _ ch c _ _ t c2 (conj eq_refl eq_refl) H).
  - intros p cm [E1 E2] ET. apply HL; eauto.
  - intros c0 [E1 _] -> ->. apply HCR; auto.
  - apply probe_eq. exact Hp.
Qed.

Definition not_ws (t : tok) : Prop := forall w, t <> TWs w.

(** C07, lexer level: a non-whitespace token that ended right before a blank does not depend
    on which blank follows nor on anything after it. *)
Theorem lookahead_blank d u unesc c b r b' r' t :
  blank_neutral d u -> probe d u c = false -> blank b -> blank b' -> not_ws t ->
  next_token d u unesc (c ++ b :: r) = Ok (Some (t, b :: r)) ->
  next_token d u unesc (c ++ b' :: r') = Ok (Some (t, b' :: r')).
Proof.
  intros HN Hp Hb Hb' Ht H.
  apply (next_token_lookahead d u unesc (b :: r) (b' :: r') c t []); auto.
  - intros E. exfalso. eapply Ht; eauto.
  - intros (p & cm & E). exfalso. eapply Ht; eauto.
Qed.

(** the same for whitespace tokens, with the two exceptions spelled out (the exclusion of line
    comments is vacuous here: a comment that stopped before [b] ended at an LF inside [c]) *)
Theorem lookahead_blank_ws d u unesc c b r b' r' t :
  blank_neutral d u -> probe d u c = false -> blank b -> blank b' ->
  (c = [cCR] -> b' <> cLF) ->
  next_token d u unesc (c ++ b :: r) = Ok (Some (t, b :: r)) ->
  next_token d u unesc (c ++ b' :: r') = Ok (Some (t, b' :: r')).
Proof.
  intros HN Hp Hb Hb' Hcr H.
  apply (next_token_lookahead d u unesc (b :: r) (b' :: r') c t []); auto.
  - intros _ Ec. cbn [peek_is]. apply N.eqb_neq. auto.
  - intros _ _ E. discriminate.
Qed.

(** end of input: a token that ends at the end of the input is the same token when a blank and
    anything else is appended (except: line comments run on; CR merges with LF) ... *)
Theorem lookahead_eof_to_blank d u unesc c b r t :
  blank_neutral d u -> probe d u c = false -> blank b ->
  (forall p cm, t <> TWs (WLine p cm)) -> (c = [cCR] -> b <> cLF) ->
  next_token d u unesc c = Ok (Some (t, [])) ->
  next_token d u unesc (c ++ b :: r) = Ok (Some (t, b :: r)).
Proof.
  intros HN Hp Hb Hl Hcr H.
  apply (next_token_lookahead d u unesc [] (b :: r) c t []); auto.
  - exact I.
  - intros _ Ec. cbn [peek_is]. apply N.eqb_neq. auto.
  - intros (p & cm & E). exfalso. eapply Hl; eauto.
  - rewrite app_nil_r. exact H.
Qed.

(** ... and vice versa, for every token *)
Theorem lookahead_blank_to_eof d u unesc c b r t :
  blank_neutral d u -> probe d u c = false -> blank b ->
  next_token d u unesc (c ++ b :: r) = Ok (Some (t, b :: r)) ->
  next_token d u unesc c = Ok (Some (t, [])).
Proof.
  intros HN Hp Hb H.
  pose proof (next_token_lookahead d u unesc (b :: r) [] c t [] HN Hb I Hp) as H0.
  rewrite app_nil_r in H0. apply H0; auto.
Qed.

(** Refutation inside the exception class: with a Redshift-style probe the token "[" before a
    blank depends on what follows the blank ("[ 1]" is a bracket, "[ x]" an identifier). *)
Definition probing_dialect : dialect :=
  {| d_ident_start := fun c => ((97 <=? c) && (c <=? 122)) || ((65 <=? c) && (c <=? 90)) || (c =? cUS);
     d_ident_part := fun c => ((97 <=? c) && (c <=? 122)) || ((65 <=? c) && (c <=? 90)) || (c =? cUS) || is_digit c;
     d_delim_start := fun c => (c =? cDQ) || (c =? cLBR); d_custom_op := fun _ => false;
     d_piq := PiqRedshift;
     d_backslash := false; d_unicode_lit := false; d_triple := false; d_numeric_prefix := false;
     d_bq_or_generic := false; d_snowflake := false; d_duck_or_generic := false; d_sf_or_bq := false; d_pg := false |}.
Definition ascii_uni : uni :=
  {| u_whitespace := fun c => (c =? cSP) || (c =? cTAB) || (c =? cLF) || (c =? cCR);
     u_numeric := is_digit;
     u_alphanumeric := fun c => ((97 <=? c) && (c <=? 122)) || ((65 <=? c) && (c <=? 90)) || is_digit c |}.

Lemma lookahead_blank_refuted : exists d u c b r r' t,
  blank_neutralb d u = true /\ probe d u c = true /\ blank b /\ not_ws t /\
  next_token d u true (c ++ b :: r) = Ok (Some (t, b :: r)) /\
  next_token d u true (c ++ b :: r') <> Ok (Some (t, b :: r')).
Proof.
  exists probing_dialect, ascii_uni, [cLBR], cSP, [49; cRBR], [120; cRBR], (TFix FLBracket).
  repeat split; try reflexivity.
  - left. reflexivity.
  - intros w; discriminate.
  - vm_compute. discriminate.
Qed.

(** * Token streams *)
Definition is_ws (t : tok) : bool := match t with TWs _ => true | _ => false end.
(** the token list with whitespace and comment tokens removed *)
Definition nows (ts : list tok) : list tok := filter (fun t => negb (is_ws t)) ts.
Definition blanks (w : str) : Prop := Forall blank w.
(** the last token is a line comment (it would swallow blanks appended to the input) *)
Definition ends_with_line (ts : list tok) : Prop := exists ts0 p cm, ts = ts0 ++ [TWs (WLine p cm)].

Lemma nows_app a b : nows (a ++ b) = nows a ++ nows b.
Proof. apply filter_app. Qed.

Section Stream.
  Variable d : dialect.
  Variable u : uni.
  Variable unesc : bool.
  Hypothesis HN : blank_neutral d u.
  Notation next := (next_token d u unesc).

  (** [Steps l ts e]: lexing from [l] yields the tokens [ts] and then the remaining input [e] *)
  Inductive Steps : str -> list tok -> str -> Prop :=
  | Steps_nil l : Steps l [] l
  | Steps_cons l t r ts e : next l = Ok (Some (t, r)) -> Steps r ts e -> Steps l (t :: ts) e.
  (** a complete run *)
  Definition Run (l : str) (ts : list tok) : Prop := Steps l ts [].

  Lemma Steps_suffix l ts e : Steps l ts e -> Suffix e l.
  Proof.
    induction 1 as [l|l t r ts e Hn _ IH]; [apply Suffix_refl|].
    pose proof (next_token_spec d u unesc l) as Hs. rewrite Hn in Hs. cbn in Hs.
    eapply Suffix_trans; [exact IH|apply SSuffix_Suffix; exact Hs].
  Qed.
  Lemma Steps_length l ts e : Steps l ts e -> (length e + length ts <= length l)%nat.
  Proof.
    induction 1 as [l|l t r ts e Hn _ IH]; [cbn [length]; lia|].
    pose proof (next_token_spec d u unesc l) as Hs. rewrite Hn in Hs. cbn in Hs.
    apply SSuffix_length in Hs. cbn [length]. lia.
  Qed.
  Lemma Steps_app l ts1 m ts2 e : Steps l ts1 m -> Steps m ts2 e -> Steps l (ts1 ++ ts2) e.
  Proof. induction 1; cbn [app]; [auto|]. intro. econstructor; eauto. Qed.

  Lemma Steps_split l ts1 m : Steps l ts1 m -> forall ts, Run l ts ->
    exists ts2, ts = ts1 ++ ts2 /\ Run m ts2.
  Proof.
    induction 1 as [l|l t r ts1 m Hn _ IH]; intros ts HR.
    - exists ts. auto.
    - unfold Run in HR. inversion HR as [l0 E0 E1 E2|l0 t0 r0 ts0 e0 Hn0 HS0]; subst.
      + cbn in Hn. discriminate.
      + rewrite Hn in Hn0. injection Hn0 as <- <-. destruct (IH _ HS0) as (ts2 & -> & H2).
        exists ts2. auto.
  Qed.

  (** runs and the executable tokenizer *)
  Lemma Tiles_Run p l ts cs : Tiles d u unesc p l ts cs -> Run l (map fst ts).
  Proof. induction 1; cbn [map fst]; [constructor|]. econstructor; eauto. Qed.
  Lemma Run_Tiles l toks : Run l toks ->
    forall p, exists ts cs, Tiles d u unesc p l ts cs /\ map fst ts = toks.
  Proof.
    unfold Run. intro H. remember (@nil N) as e eqn:Ee.
    induction H as [l|l t r ts e Hn HS IH]; intro p; subst.
    - exists [], []. split; constructor.
    - pose proof (next_token_spec d u unesc l) as Hs. rewrite Hn in Hs. cbn in Hs.
      destruct Hs as (c & Hc & ->).
      destruct (IH eq_refl (advance p c)) as (ts' & cs & HT & Hm).
      exists ((t, p) :: ts'), (c :: cs). split; [eapply Tiles_cons; eauto|cbn [map fst]; congruence].
  Qed.
  Lemma tokenize_Run s ts : tokenize d u unesc s = LexOk ts -> Run s (map fst ts).
  Proof. unfold tokenize. intro H. destruct (tokenize_from_tiles _ _ _ _ _ _ _ H) as (cs & HT).
    eapply Tiles_Run; eauto. Qed.
  Lemma Run_tokenize s toks : Run s toks ->
    exists ts, tokenize d u unesc s = LexOk ts /\ map fst ts = toks.
  Proof. intro H. destruct (Run_Tiles _ _ H (1, 1)) as (ts & cs & HT & Hm). exists ts.
    split; [|exact Hm]. unfold tokenize. eapply tiles_tokenize; eauto. Qed.

  (** ** A run of blanks lexes to whitespace tokens only *)
  Lemma next_cr r : next (cCR :: r) = Ok (Some (TWs WNewline, if peek_is r cLF then tl r else r)).
  Proof. reflexivity. Qed.
  Lemma next_blank b r : blank b -> exists w r', next (b :: r) = Ok (Some (TWs w, r')) /\
    (r' = r \/ (b = cCR /\ r = cLF :: r')).
  Proof.
    intros [-> | [-> | [-> | ->]]].
    - exists WSpace, r. split; [reflexivity|auto].
    - exists WTab, r. split; [reflexivity|auto].
    - exists WNewline, r. split; [reflexivity|auto].
    - exists WNewline, (if peek_is r cLF then tl r else r). split; [reflexivity|].
      destruct r as [|x r1]; [left; reflexivity|]. cbn [peek_is tl].
      destruct (N.eqb_spec x cLF); [right; subst; auto|left; reflexivity].
  Qed.

  Lemma blank_steps : forall w, blanks w -> forall rest,
    exists tsw e, Steps (w ++ rest) tsw e /\ nows tsw = [] /\ (e = rest \/ rest = cLF :: e).
  Proof.
    induction w as [w IH] using len_ind. intros Hw rest. destruct w as [|b w].
    - exists [], rest. repeat split; [constructor|auto].
    - inversion Hw as [|? ? Hb Hw']; subst. cbn [app].
      destruct (next_blank b (w ++ rest) Hb) as (t & r' & Hn & [-> | (-> & E)]).
      + destruct (IH w ltac:(cbn [length]; lia) Hw' rest) as (tsw & e & HS & Hn0 & He).
        exists (TWs t :: tsw), e. repeat split; [econstructor; eauto|exact Hn0|exact He].
      + destruct w as [|x w]; cbn [app] in E.
        * exists [TWs t], r'. repeat split; [econstructor; [exact Hn|constructor]|auto].
        * injection E as -> <-. inversion Hw' as [|? ? _ Hw'']; subst.
          destruct (IH w ltac:(cbn [length]; lia) Hw'' rest) as (tsw & e & HS & Hn0 & He).
          exists (TWs t :: tsw), e. repeat split; [econstructor; eauto|exact Hn0|exact He].
  Qed.

  Lemma bridge rest e : (e = rest \/ rest = cLF :: e) -> exists tsb, Steps rest tsb e /\ nows tsb = [].
  Proof.
    intros [-> | ->].
    - exists []. split; [constructor|reflexivity].
    - exists [TWs WNewline]. split; [econstructor; [reflexivity|constructor]|reflexivity].
  Qed.

  Lemma blank_prefix_fwd w rest ts : blanks w -> Run (w ++ rest) ts ->
    exists ts', Run rest ts' /\ nows ts' = nows ts.
  Proof.
    intros Hw HR. destruct (blank_steps w Hw rest) as (tsw & e & HS & Hn0 & He).
    destruct (Steps_split _ _ _ HS _ HR) as (ts2 & -> & H2).
    destruct (bridge rest e He) as (tsb & HSb & Hnb).
    exists (tsb ++ ts2). split; [eapply Steps_app; eauto|]. rewrite !nows_app, Hn0, Hnb. reflexivity.
  Qed.
  Lemma blank_prefix_bwd w rest ts' : blanks w -> Run rest ts' ->
    exists ts, Run (w ++ rest) ts /\ nows ts = nows ts'.
  Proof.
    intros Hw HR. destruct (blank_steps w Hw rest) as (tsw & e & HS & Hn0 & He).
    destruct (bridge rest e He) as (tsb & HSb & Hnb).
    destruct (Steps_split _ _ _ HSb _ HR) as (ts2 & -> & H2).
    exists (tsw ++ ts2). split; [eapply Steps_app; eauto|]. rewrite !nows_app, Hn0, Hnb. reflexivity.
  Qed.

  (** ** No delimited-identifier opener of a probing dialect is followed by blanks only *)
  Fixpoint probe_freeb (a : str) : bool :=
    match a with [] => true | _ :: s => negb (probe d u a) && probe_freeb s end.
  Lemma probe_freeb_head a : probe_freeb a = true -> probe d u a = false.
  Proof. destruct a as [|x a]; [intros _; unfold probe; destruct (d_piq d); reflexivity|].
    cbn [probe_freeb]. intros [H _]%andb_true_iff. apply negb_true_iff in H. exact H. Qed.
  Lemma probe_freeb_app c a : probe_freeb (c ++ a) = true -> probe_freeb a = true.
  Proof. induction c as [|x c IH]; [auto|]. cbn [app probe_freeb]. intros [_ H]%andb_true_iff. auto. Qed.
  Lemma probe_freeb_always a : d_piq d = PiqAlways -> probe_freeb a = true.
  Proof. intro E. induction a as [|x a IH]; [reflexivity|]. cbn [probe_freeb]. rewrite IH.
    unfold probe. rewrite E. reflexivity. Qed.

  (** ** Transport of a run prefix from one tail to another *)
  Lemma steps_transport T T' : btail T -> btail T' ->
    forall ts a, probe_freeb a = true ->
      (T = [] -> T' <> [] -> ~ ends_with_line ts) ->
      Steps (a ++ T) ts T ->
      exists ts' e', Steps (a ++ T') ts' e' /\ nows ts' = nows ts /\
                     (e' = T' \/ (peek_is T' cLF = true /\ e' = tl T')).
  Proof.
    intros HT HT'. induction ts as [|t ts1 IH]; intros a Hpf HLast HS.
    - inversion HS as [l0 E0 E1 E2|]; subst. symmetry in E2. apply app_tail_nil in E2. subst a.
      exists [], T'. repeat split; [constructor|auto].
    - inversion HS as [|l0 t0 r1 ts0 e0 Hn HS1]; subst.
      destruct (Steps_suffix _ _ _ HS1) as [a1 ->].
      pose proof (next_token_spec d u unesc (a ++ T)) as Hs. rewrite Hn in Hs. cbn in Hs.
      destruct Hs as (c1 & Hc1 & Ec1). rewrite app_assoc in Ec1. apply app_inv_tail in Ec1. subst a.
      assert (Hlast : a1 = [] -> ts1 = []).
      { intros ->. apply Steps_length in HS1. cbn [app] in HS1. destruct ts1; [reflexivity|cbn [length] in HS1; lia]. }
      assert (Hnormal : (t = TWs WNewline -> c1 ++ a1 = [cCR] -> peek_is T' cLF = false) ->
        exists ts' e', Steps ((c1 ++ a1) ++ T') ts' e' /\ nows ts' = nows (t :: ts1) /\
                       (e' = T' \/ (peek_is T' cLF = true /\ e' = tl T'))).
      { intro HCR.
        assert (Hn' : next ((c1 ++ a1) ++ T') = Ok (Some (t, a1 ++ T'))).
        { apply (next_token_lookahead d u unesc T T' (c1 ++ a1) t a1); auto.
          - apply probe_freeb_head; auto.
          - intros (p & cm & ->) E1 ET. destruct T' as [|b' r']; [reflexivity|]. exfalso.
            apply (HLast ET); [discriminate|]. rewrite (Hlast E1). exists [], p, cm. reflexivity. }
        destruct (IH a1) as (ts' & e' & HS' & Hn0 & He).
        - eapply probe_freeb_app; eauto.
        - intros ET ET' (ts0 & p & cm & E). apply (HLast ET ET'). exists (t :: ts0), p, cm. rewrite E. reflexivity.
        - exact HS1.
        - exists (t :: ts'), e'. repeat split; [econstructor; eauto| |exact He].
          unfold nows in *. cbn [filter]. destruct (negb (is_ws t)); congruence. }
      destruct (peek_is T' cLF) eqn:Epk; [|apply Hnormal; auto].
      destruct c1 as [|ch c1]; [congruence|].
      destruct (N.eq_dec ch cCR) as [->|Hne]; [|apply Hnormal; intros _ [= E _]; congruence].
      destruct (c1 ++ a1) as [|y ca] eqn:Eca; [|apply Hnormal; intros _ [= E0]; rewrite Eca in E0; discriminate].
      apply app_eq_nil in Eca as [-> ->]. cbn [app] in *.
      rewrite next_cr in Hn. injection Hn as <- _. rewrite (Hlast eq_refl).
      exists [TWs WNewline], (tl T'). repeat split; [|auto].
      econstructor; [|constructor]. rewrite next_cr, Epk. reflexivity.
  Qed.

  (** ** Stream-level corollaries *)
  (** (A) [a] ends at a token boundary of the run on [a ++ w ++ rest]: replacing the blank run
      [w] by another blank run leaves the non-whitespace tokens unchanged. *)
  Theorem blank_run_invariance a w w' rest tsa ts :
    blanks w -> blanks w' -> w <> [] -> w' <> [] -> probe_freeb a = true ->
    Steps (a ++ w ++ rest) tsa (w ++ rest) ->
    Run (a ++ w ++ rest) ts ->
    exists ts', Run (a ++ w' ++ rest) ts' /\ nows ts' = nows ts.
  Proof.
    intros Hw Hw' Hne Hne' Hpf HS HR.
    assert (HT : btail (w ++ rest)).
    { destruct w as [|b w]; [congruence|]. inversion Hw; subst. assumption. }
    assert (HT' : btail (w' ++ rest)).
    { destruct w' as [|b w']; [congruence|]. inversion Hw'; subst. assumption. }
    destruct (Steps_split _ _ _ HS _ HR) as (ts2 & -> & H2).
    destruct (blank_prefix_fwd _ _ _ Hw H2) as (ts3 & H3 & Hn3).
    destruct (steps_transport _ _ HT HT' tsa a Hpf) as (tsa' & e' & HS' & Hna & He); [|exact HS|].
    { intros E. destruct w; [congruence|discriminate]. }
    assert (Hw'' : exists w'', blanks w'' /\ e' = w'' ++ rest).
    { destruct He as [-> | (Hpk & ->)]; [exists w'; auto|].
      destruct w' as [|b w'']; [congruence|]. inversion Hw'; subst. exists w''. auto. }
    destruct Hw'' as (w'' & Hb'' & ->).
    destruct (blank_prefix_bwd _ _ _ Hb'' H3) as (ts4 & H4 & Hn4).
    exists (tsa' ++ ts4). split; [eapply Steps_app; eauto|].
    rewrite !nows_app. congruence.
  Qed.

  Theorem tokenize_blank_run_invariance a w w' rest tsa ts :
    blanks w -> blanks w' -> w <> [] -> w' <> [] -> probe_freeb a = true ->
    Steps (a ++ w ++ rest) tsa (w ++ rest) ->
    tokenize d u unesc (a ++ w ++ rest) = LexOk ts ->
    exists ts', tokenize d u unesc (a ++ w' ++ rest) = LexOk ts' /\
                nows (map fst ts') = nows (map fst ts).
  Proof.
    intros Hw Hw' Hne Hne' Hpf HS Htk. apply tokenize_Run in Htk.
    destruct (blank_run_invariance a w w' rest tsa _ Hw Hw' Hne Hne' Hpf HS Htk) as (ts1 & HR & Hn).
    destruct (Run_tokenize _ _ HR) as (ts' & Ht & Hm). exists ts'. split; [exact Ht|]. congruence.
  Qed.

  (** (B) [a] lexes completely on its own and its last token is not a line comment: then
      [a ++ w ++ rest] and [a ++ w' ++ rest] have the same non-whitespace tokens, namely those
      of [a] followed by those of [rest]. *)
  Theorem blank_gap_tokens a w rest tsa tsr :
    blanks w -> w <> [] -> probe_freeb a = true -> ~ ends_with_line tsa ->
    Run a tsa -> Run rest tsr ->
    exists ts, Run (a ++ w ++ rest) ts /\ nows ts = nows tsa ++ nows tsr.
  Proof.
    intros Hw Hne Hpf Hl Ha Hr.
    assert (HT' : btail (w ++ rest)).
    { destruct w as [|b w]; [congruence|]. inversion Hw; subst. assumption. }
    destruct (steps_transport [] (w ++ rest) I HT' tsa a Hpf) as (tsa' & e' & HS' & Hna & He).
    { intros _ _. exact Hl. }
    { rewrite app_nil_r. exact Ha. }
    assert (Hw'' : exists w'', blanks w'' /\ e' = w'' ++ rest).
    { destruct He as [-> | (Hpk & ->)]; [exists w; auto|].
      destruct w as [|b w'']; [congruence|]. inversion Hw; subst. exists w''. auto. }
    destruct Hw'' as (w'' & Hb'' & ->).
    destruct (blank_prefix_bwd _ _ _ Hb'' Hr) as (ts4 & H4 & Hn4).
    exists (tsa' ++ ts4). split; [eapply Steps_app; eauto|].
    rewrite !nows_app. congruence.
  Qed.

  Theorem tokenize_blank_gap a w w' rest tsa ts :
    blanks w -> blanks w' -> w <> [] -> w' <> [] -> probe_freeb a = true ->
    tokenize d u unesc a = LexOk tsa -> ~ ends_with_line (map fst tsa) ->
    tokenize d u unesc (a ++ w ++ rest) = LexOk ts ->
    exists ts', tokenize d u unesc (a ++ w' ++ rest) = LexOk ts' /\
                nows (map fst ts') = nows (map fst ts).
  Proof.
    intros Hw Hw' Hne Hne' Hpf Ha Hl Htk. apply tokenize_Run in Ha, Htk.
    (* the run on [a ++ w ++ rest] splits at the end of the blank gap *)
    assert (HT : btail (w ++ rest)).
    { destruct w as [|b w]; [congruence|]. inversion Hw; subst. assumption. }
    destruct (steps_transport [] (w ++ rest) I HT (map fst tsa) a Hpf) as (tsa1 & e1 & HS1 & Hn1 & He1).
    { intros _ _. exact Hl. }
    { rewrite app_nil_r. exact Ha. }
    assert (Hw1 : exists w1, blanks w1 /\ e1 = w1 ++ rest).
    { destruct He1 as [-> | (Hpk & ->)]; [exists w; auto|].
      destruct w as [|b w1]; [congruence|]. inversion Hw; subst. exists w1. auto. }
    destruct Hw1 as (w1 & Hb1 & ->).
    destruct (Steps_split _ _ _ HS1 _ Htk) as (ts2 & E2 & H2).
    destruct (blank_prefix_fwd _ _ _ Hb1 H2) as (tsr & Hr & Hnr).
    destruct (blank_gap_tokens a w' rest (map fst tsa) tsr Hw' Hne' Hpf Hl Ha Hr) as (ts1 & HR & Hn).
    destruct (Run_tokenize _ _ HR) as (ts' & Ht & Hm). exists ts'. split; [exact Ht|].
    rewrite Hm, Hn, E2, nows_app. congruence.
  Qed.
End Stream.

Print Assumptions next_token_lookahead.
Print Assumptions lookahead_blank.
Print Assumptions lookahead_blank_ws.
Print Assumptions lookahead_eof_to_blank.
Print Assumptions lookahead_blank_to_eof.
Print Assumptions lookahead_blank_refuted.
Print Assumptions blank_run_invariance.
Print Assumptions tokenize_blank_run_invariance.
Print Assumptions tokenize_blank_gap.
