(** Model of the literal printers of src/ast/value.rs and of [Ident]'s Display
    (src/ast/mod.rs): [EscapeQuotedString], [EscapeEscapedStringLiteral],
    [EscapeUnicodeStringLiteral], and the per-kind delimiters.  Model only. *)
Require Import SqlV.Base SqlV.Lexer.
Local Open Scope N_scope.

(** [EscapeQuotedString]: the heuristic quote-doubling printer.  [prev] is [previous_char]
    (initially NUL); note that the backslash-quote branch [continue]s without updating it. *)
Fixpoint eq_loop (q prev : N) (l : str) : str :=
  match l with
  | [] => []
  | ch :: r =>
      if ch =? q then
        if prev =? cBSL then ch :: eq_loop q prev r
        else
          match r with
          | c2 :: r2 => if c2 =? q then ch :: ch :: eq_loop q ch r2 else ch :: ch :: eq_loop q ch r
          | [] => [ch; ch]
          end
      else ch :: eq_loop q ch r
  end.
Definition escape_quoted (q : N) (s : str) : str := eq_loop q 0 s.

(** [EscapeEscapedStringLiteral] *)
Definition esc_char (c : N) : str :=
  if c =? cSQ then [cBSL; cSQ] else if c =? cBSL then [cBSL; cBSL]
  else if c =? cLF then [cBSL; 110] else if c =? cTAB then [cBSL; 116]
  else if c =? cCR then [cBSL; 114] else [c].
Definition escape_escaped (s : str) : str := flat_map esc_char s.

(** upper-case hex digit of a value < 16 *)
Definition hexdigit_of (v : N) : N := if v <? 10 then 48 + v else 55 + v.
Definition hex4 (n : N) : str :=
  [hexdigit_of (n / 4096 mod 16); hexdigit_of (n / 256 mod 16); hexdigit_of (n / 16 mod 16); hexdigit_of (n mod 16)].
Definition hex6 (n : N) : str :=
  [hexdigit_of (n / 1048576 mod 16); hexdigit_of (n / 65536 mod 16)] ++ hex4 (n mod 65536).

(** [EscapeUnicodeStringLiteral] *)
Definition uni_char (c : N) : str :=
  if c =? cSQ then [cSQ; cSQ] else if c =? cBSL then [cBSL; cBSL]
  else if c <? 128 then [c]
  else if c <=? 65535 then cBSL :: hex4 c else cBSL :: cPLUS :: hex6 c.
Definition escape_unicode (s : str) : str := flat_map uni_char s.

(** printed text of a [Value] string literal of kind [k] with payload [p] *)
Definition print_str (k : strkind) (p : str) : str :=
  match k with
  | KSingle => cSQ :: escape_quoted cSQ p ++ [cSQ]
  | KDouble => cDQ :: escape_quoted cDQ p ++ [cDQ]
  | KTripleSingle => [cSQ; cSQ; cSQ] ++ p ++ [cSQ; cSQ; cSQ]
  | KTripleDouble => [cDQ; cDQ; cDQ] ++ p ++ [cDQ; cDQ; cDQ]
  | KByteSingle => 66 :: cSQ :: p ++ [cSQ]
  | KByteDouble => 66 :: cDQ :: p ++ [cDQ]
  | KTripleByteSingle => 66 :: [cSQ; cSQ; cSQ] ++ p ++ [cSQ; cSQ; cSQ]
  | KTripleByteDouble => 66 :: [cDQ; cDQ; cDQ] ++ p ++ [cDQ; cDQ; cDQ]
  | KRawSingle => 82 :: cSQ :: p ++ [cSQ]
  | KRawDouble => 82 :: cDQ :: p ++ [cDQ]
  | KTripleRawSingle => 82 :: [cSQ; cSQ; cSQ] ++ p ++ [cSQ; cSQ; cSQ]
  | KTripleRawDouble => 82 :: [cDQ; cDQ; cDQ] ++ p ++ [cDQ; cDQ; cDQ]
  | KNational => 78 :: cSQ :: p ++ [cSQ]
  | KEscaped => 69 :: cSQ :: escape_escaped p ++ [cSQ]
  | KUnicode => 85 :: cAMP :: cSQ :: escape_unicode p ++ [cSQ]
  | KHex => 88 :: cSQ :: p ++ [cSQ]
  end.

(** printed text of an [Ident] with quote style [q] (double quote, single quote, backtick or
    opening bracket) *)
Definition print_ident (q : N) (p : str) : str :=
  if q =? cLBR then cLBR :: p ++ [cRBR] else q :: escape_quoted q p ++ [q].

Definition print_dollar (tag : option str) (p : str) : str :=
  match tag with
  | Some t => cDOLLAR :: t ++ cDOLLAR :: p ++ cDOLLAR :: t ++ [cDOLLAR]
  | None => cDOLLAR :: cDOLLAR :: p ++ [cDOLLAR; cDOLLAR]
  end.

(** ** The decidable "known finding" classes of payloads (C06) *)
Fixpoint has_pair (a b : N) (l : str) : bool :=
  match l with
  | x :: ((y :: _) as r) => ((x =? a) && (y =? b)) || has_pair a b r
  | _ => false
  end.
Definition has_char (a : N) (l : str) : bool := existsb (fun x => x =? a) l.
Definition starts_with_c (a : N) (l : str) : bool := match l with x :: _ => x =? a | [] => false end.

(** quote-doubling printer: payload already holds a doubled quote or a backslash-quote, or (when
    the lexer un-escapes backslashes) any backslash; in triple-quote dialects also a leading
    quote (the printed text then opens with three quotes) *)
Definition known_quoted (q : N) (bs triple : bool) (p : str) : bool :=
  has_pair q q p || has_pair cBSL q p || (bs && has_char cBSL p) || (triple && starts_with_c q p).
