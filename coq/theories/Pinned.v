(** Pinned.v — the reviewed exception lists of the inventory-based checks (C11, C12, C13).
    Hand-written and committed; lib/machine.py reads the very same lists.  An inventory item that
    needs an exception and is not listed here is an unresolved obligation of its property.
    Every key of a [*_known_*] list has a [known:] line in /verif/KNOWN_FINDINGS.txt. *)
From Coq Require Import String List.
Import ListNotations.
Local Open Scope string_scope.

(** C12: discard sites that can swallow RecursionLimitExceeded on the pinned tree
    (key = file:fn/kind/head#ordinal). *)
Definition c12_known_sites : list string := [].

(** C12: how those sites show on the limit ladder (statement kind : deviation class). *)
Definition c12_known_ladder : list string := [].

(** C13: hand-rolled comma loops that ignore the trailing_commas option (confirmed by a witness
    on every run; key = file:fn/comma_loop/Token::Comma#ordinal). *)
Definition c13_known_loops : list string := [
  "dialect/snowflake:parse_select_items_for_data_load/comma_loop/Token::Comma#0";
  "parser/mod:parse_struct_type_def/comma_loop/Token::Comma#0";
  "parser/mod:parse_click_house_tuple_def/comma_loop/Token::Comma#0";
  "parser/mod:parse_mssql_declare/comma_loop/Token::Comma#0";
  "parser/mod:parse_set/comma_loop/Token::Comma#0";
  "parser/mod:parse_transaction_modes/comma_loop/Token::Comma#0"
].

(** C13: hand-rolled loops reviewed as harmless: they honour the option by hand (probed:
    trailing comma accepted, same tree) or are not lists ({n,m} quantifiers). *)
Definition c13_reviewed_loops : list string := [
  "parser/mod:parse_optional_procedure_parameters/comma_loop/Token::Comma#0";
  "parser/mod:parse_columns/comma_loop/Token::Comma#0";
  "parser/mod:parse_optional_type_modifiers/comma_loop/Token::Comma#0";
  "parser/mod:parse_query/comma_loop/Token::Comma#0";
  "parser/mod:parse_for_xml/comma_loop/Token::Comma#0";
  "parser/mod:parse_for_json/comma_loop/Token::Comma#0";
  "parser/mod:parse_repetition_pattern/comma_loop/Token::Comma#0";
  "parser/mod:parse_repetition_pattern/comma_loop/Token::Comma#1";
  "parser/mod:parse_create_type/comma_loop/Token::Comma#0"
].

(** C13: list contexts (word before the bracket / clause keyword) in which the sampler sees the
    known loops reject a trailing comma. *)
Definition c13_known_ctx : list string := [
  "tc:insert:SET";
  "tc:insert:SET:("
].

(** C13: contexts that look like lists to the textual sampler but are fixed-arity syntax
    (CEIL(x, scale), SUBSTRING(s, from, len), LIMIT offset, count, DECIMAL(p, s) ...) or a type
    named like a clause keyword (DuckDB UNION(...)): not list positions of the property. *)
Definition c13_not_a_list : list string := [
  "tc:insert:CEIL(";
  "tc:insert:FLOOR(";
  "tc:insert:EXTRACT(";
  "tc:insert:SUBSTRING(";
  "tc:insert:IDENTITY(";
  "tc:insert:LIMIT";
  "tc:insert:SECOND(";
  "tc:insert:DECIMAL(";
  "tc:insert:DATETIME64(";
  "tc:insert:UNION"
].

(** C11: places where a statement parser looks at EOF or at the separator, or advances the
    cursor unconditionally in a loop.  [c11_known_sites] are the ones behind the known findings
    (they treat EOF but not [;] as the end of the statement, or consume the separator);
    [c11_reviewed_sites] were read and are harmless for the separator: they stop on a token of
    their own syntax, or on EOF inside a construct where [;] cannot be the next token
    (identifier parsing, Snowflake stage names and COPY option lists, MERGE clauses and DECLARE
    treat [;] like EOF explicitly; parse_copy's expect_token(';') is the documented COPY .. FROM
    STDIN exception). *)
Definition c11_known_sites : list string := [].

Definition c11_reviewed_sites : list string := [
  (* formerly behind known findings; repaired in /repo (b89d7b9): they now treat ';' like EOF / un-consume *)
  "parser/mod:parse_show/next_loop/-#0"; (* SHOW <words>: advances over word tokens only, so it stops in front of ';' and EOF *)
  "parser/mod:parse_flush/next_loop/-#0";
  "parser/mod:parse_cache_table/eof/-#0";
  "parser/mod:parse_cache_table/eof/-#1";
  "parser/mod:parse_cache_table/eof/-#2";
  "parser/mod:parse_cache_table/eof/-#3";
  "parser/mod:parse_cache_table/eof/-#4";
  "parser/mod:parse_identifiers/next_loop/-#0";
  "parser/mod:parse_identifiers/eof/-#0";
  "dialect/snowflake:parse_create_table/next_loop/-#0";
  "dialect/snowflake:parse_create_table/eof/-#0";
  "dialect/snowflake:parse_copy_into/next_loop/-#0";
  "dialect/snowflake:parse_select_items_for_data_load/next_loop/-#0";
  "dialect/snowflake:parse_select_items_for_data_load/next_loop/-#1";
  "dialect/snowflake:parse_select_items_for_data_load/next_loop/-#2";
  "dialect/snowflake:parse_parentheses_options/next_loop/-#0";
  "parser/mod:parse_wildcard_expr/next_loop/-#0";
  "parser/mod:parse_prefix/next_loop/-#0";
  "parser/mod:parse_infix/next_loop/-#0";
  "parser/mod:parse_json_access/next_loop/-#0";
  "parser/mod:parse_snowflake_declare/semi/consume_token#0";
  "parser/mod:parse_copy/semi/expect_token#0";
  "parser/mod:parse_string_values/next_loop/-#0";
  "parser/mod:parse_string_values/next_loop/-#1";
  "parser/mod:parse_multipart_identifier/eof/-#0";
  "parser/mod:parse_multipart_identifier/next_loop/-#0";
  "parser/mod:parse_multipart_identifier/eof/-#1";
  "parser/mod:parse_multipart_identifier/eof/-#2";
  "parser/mod:parse_identifier/next_loop/-#0";
  "parser/mod:parse_identifier/next_loop/-#1";
  "parser/mod:parse_identifier/eof/-#0";
  "parser/mod:parse_identifier/eof/-#1";
  "parser/mod:parse_optional_type_modifiers/next_loop/-#0";
  "parser/mod:parse_for_xml/next_loop/-#0";
  "parser/mod:parse_for_json/next_loop/-#0";
  "parser/mod:parse_remaining_set_exprs/next_loop/-#0";
  "parser/mod:parse_repetition_pattern/next_loop/-#0";
  "parser/mod:parse_merge_clauses/eof/-#0"
].

(** C11: statement kinds whose parser does not stop before the separator (sampled). *)
Definition c11_known_kinds : list string := [].

(** C14: writes to parser state outside the modelled constructors/primitives.  Only the cursor
    index is written (backtracking in parse_wildcard_expr: save at entry, restore on the fallback
    path); the index is reset by with_tokens*, so it cannot leak between parses. *)
Definition c14_reviewed_writes : list string := [
  "parser/mod:parse_wildcard_expr/write/index#0";
  (* FILTER (WHERE ..) after a function call: save before FILTER, restore when `(WHERE` does not follow *)
  "parser/mod:parse_function/write/index#0"
].

(** C14: reads of a token's [.location].  Every one feeds an error constructor (parser_err!,
    Parser::parse's error text, Display of TokenizerError): results depend on locations only
    through error position text. *)
Definition c14_location_reads : list string := [
  "parser/mod:parse_flush/location/-#0";
  "parser/mod:parse_prefix/location/-#0";
  "parser/mod:parse_prefix/location/-#1";
  "parser/mod:parse_interval/location/-#0";
  "parser/mod:parse_bigquery_struct_literal/location/-#0";
  "parser/mod:parse_struct_field_expr/location/-#0";
  "parser/mod:parse_struct_type_def/location/-#0";
  "parser/mod:parse_infix/location/-#0";
  "parser/mod:parse_infix/location/-#1";
  "parser/mod:parse_infix/location/-#2";
  "parser/mod:expected/location/-#0";
  "parser/mod:parse_all_or_distinct/location/-#0";
  "parser/mod:parse_create_external_table/location/-#0";
  "parser/mod:parse_create_role/location/-#0";
  "parser/mod:parse_drop/location/-#0";
  "parser/mod:parse_drop/location/-#1";
  "parser/mod:parse_create/location/-#0";
  "parser/mod:parse_hive_formats/location/-#0";   (* the LOCATION field of HiveFormat, not a token location *)
  "parser/mod:parse_hive_formats/location/-#1";
  "parser/mod:parse_create_table/location/-#0";
  "parser/mod:parse_optional_table_constraint/location/-#0";
  "parser/mod:parse_call/location/-#0";
  "parser/mod:parse_literal_char/location/-#0";
  "parser/mod:parse_value/location/-#0";
  "parser/mod:parse_introduced_string_value/location/-#0";
  "parser/mod:parse_literal_uint/location/-#0";
  "parser/mod:parse_optional_group_by/location/-#0";
  "parser/mod:parse_repetition_pattern/location/-#0";
  "parser/mod:parse_repetition_pattern/location/-#1";
  "parser/mod:parse_repetition_pattern/location/-#2";
  "parser/mod:parse_repetition_pattern/location/-#3";
  "parser/mod:parse_repetition_pattern/location/-#4";
  "parser/mod:parse_revoke/location/-#0";
  "parser/mod:parse_replace/location/-#0";
  "parser/mod:parse_duplicate_treatment/location/-#0";
  "parser/mod:parse_select_item/location/-#0";
  "parser/mod:parse_top/location/-#0";
  "src/tokenizer:fmt/location/-#0"
].

(** C15: uses of Any / TypeId.  All inside src/dialect/mod.rs: the import, the supertrait bound,
    the default body of Dialect::dialect() and the test in <dyn Dialect>::is(). *)
Definition c15_identity_sites : list string := [
  "dialect/mod:<module>/identity/use#0";
  "dialect/mod:<module>/identity/Any#0";
  "dialect/mod:dialect/identity/TypeId#0";
  "dialect/mod:dialect/identity/type_id#0";
  "dialect/mod:is/identity/TypeId::of#0"
].

(** C15: construction of a concrete dialect outside an `impl Dialect for ..` (delegation inside
    an impl, Redshift -> PostgreSQL predicates, needs no pin): the public factory dialect_from_str. *)
Definition c15_concrete_dialects : list string := [
  "dialect/mod:dialect_from_str/concrete_dialect/MySqlDialect#0";
  "dialect/mod:dialect_from_str/concrete_dialect/PostgreSqlDialect#0";
  "dialect/mod:dialect_from_str/concrete_dialect/HiveDialect#0";
  "dialect/mod:dialect_from_str/concrete_dialect/SQLiteDialect#0";
  "dialect/mod:dialect_from_str/concrete_dialect/RedshiftSqlDialect#0";
  "dialect/mod:dialect_from_str/concrete_dialect/MsSqlDialect#0";
  "dialect/mod:dialect_from_str/concrete_dialect/ClickHouseDialect#0";
  "dialect/mod:dialect_from_str/concrete_dialect/AnsiDialect#0";
  "dialect/mod:dialect_from_str/concrete_dialect/DuckDbDialect#0";
  "dialect/mod:dialect_from_str/concrete_dialect/DatabricksDialect#0"
].
