(** C03 — model of the recursion-depth discipline of the parser.

    A *graph* is the function-level call graph of src/parser + src/dialect (generated on every
    run into gen/CallGraph.v): edges, the set of guarded nodes (functions whose first statement
    takes a [DepthGuard] that lives until the function returns), entry points, and the list of
    *bounded* edges (edges that can be taken at most [k] times inside one guard-free segment;
    the only instance is the set-operation precedence loop, see [qrem] below).

    A *stack* is a list of nodes, innermost frame first.  The machine [step]/[run] is the RAII
    discipline of [RecursionCounter::try_decrease] / [Drop for DepthGuard]: calling a guarded
    node needs [rem > 0] and holds one unit until that frame is popped; calling it with
    [rem = 0] raises the limit error and pushes nothing.

    Only executable definitions live here; the theorems are in DepthProofs.v. *)
From SqlV Require Import Base.

Record graph := mkGraph {
  g_edges : list (N * N);
  g_guarded : list N;
  g_bounded : list (N * N * N);
  g_entries : list N }.

Definition memN (x : N) (l : list N) : bool := existsb (N.eqb x) l.
Definition guardedb (g : graph) (v : N) : bool := memN v (g_guarded g).
Definition edgeb (g : graph) (u v : N) : bool :=
  existsb (fun e => N.eqb (fst e) u && N.eqb (snd e) v) (g_edges g).
Definition is_bedge (a b u v : N) : bool := N.eqb u a && N.eqb v b.
Definition bedgeb (B : list (N * N * N)) (u v : N) : bool :=
  existsb (fun e => is_bedge (fst (fst e)) (snd (fst e)) u v) B.
Definition boundedb (g : graph) (u v : N) : bool := bedgeb (g_bounded g) u v.
Fixpoint bsum (B : list (N * N * N)) : N :=
  match B with [] => 0 | e :: r => snd e + bsum r end.

(** number of guarded frames of a stack = units of depth it holds *)
Fixpoint gcount (g : graph) (s : list N) : N :=
  match s with [] => 0 | v :: r => (if guardedb g v then 1 else 0) + gcount g r end.

(** [v :: r] is a path of the graph from an entry point (innermost frame first) *)
Fixpoint stack_path_from (g : graph) (v : N) (r : list N) : bool :=
  match r with
  | [] => memN v (g_entries g)
  | u :: r' => edgeb g u v && stack_path_from g u r'
  end.
Definition stack_path (g : graph) (s : list N) : bool :=
  match s with [] => true | v :: r => stack_path_from g v r end.

(** occurrences of the edge (a,b) in the topmost guard-free segment of the stack [v :: r] *)
Fixpoint seg_count_from (g : graph) (a b : N) (v : N) (r : list N) : N :=
  match r with
  | [] => 0
  | u :: r' => if guardedb g v then 0
               else (if is_bedge a b u v then 1 else 0) + seg_count_from g a b u r'
  end.

(** traversals of any bounded edge in the topmost guard-free segment *)
Fixpoint seg_b_from (B : list (N * N * N)) (g : graph) (v : N) (r : list N) : N :=
  match r with
  | [] => 0
  | u :: r' => if guardedb g v then 0
               else (if bedgeb B u v then 1 else 0) + seg_b_from B g u r'
  end.

(** every suffix of the stack respects the bounds of the bounded edges *)
Fixpoint bounded_ok_from (g : graph) (v : N) (r : list N) {struct r} : Prop :=
  (forall a b k, In (a, b, k) (g_bounded g) -> seg_count_from g a b v r <= k) /\
  match r with [] => True | u :: r' => bounded_ok_from g u r' end.
Definition bounded_ok (g : graph) (s : list N) : Prop :=
  match s with [] => True | v :: r => bounded_ok_from g v r end.

(** the stack avoids the listed nodes *)
Definition avoids (exc : list N) (s : list N) : bool := forallb (fun v => negb (memN v exc)) s.

(** * The machine *)
Inductive event := Call (v : N) | Ret.
Definition mstate := (list N * N)%type.

Definition step (g : graph) (st : mstate) (e : event) : mstate * bool :=
  match e with
  | Call v =>
      if guardedb g v then
        if snd st =? 0 then (st, true) else ((v :: fst st, snd st - 1), false)
      else ((v :: fst st, snd st), false)
  | Ret =>
      match fst st with
      | [] => (st, false)
      | v :: s' => ((s', if guardedb g v then snd st + 1 else snd st), false)
      end
  end.

(** run a trace; the boolean tells whether the limit error was raised at least once *)
Fixpoint run (g : graph) (st : mstate) (evs : list event) : mstate * bool :=
  match evs with
  | [] => (st, false)
  | e :: r => let '(st1, f1) := step g st e in
              let '(st2, f2) := run g st1 r in (st2, f1 || f2)
  end.

(** a call respects the graph: from the top frame along an edge, or an entry on the empty stack *)
Definition call_ok (g : graph) (s : list N) (v : N) : bool :=
  match s with [] => memN v (g_entries g) | u :: _ => edgeb g u v end.
Fixpoint trace_ok (g : graph) (st : mstate) (evs : list event) : bool :=
  match evs with
  | [] => true
  | e :: r => (match e with Call v => call_ok g (fst st) v | Ret => true end)
              && trace_ok g (fst (step g st e)) r
  end.

(** * Certificate *)
Fixpoint rank_lookup (t : list (N * N)) (v : N) : N :=
  match t with [] => 0 | (k, x) :: r => if N.eqb k v then x else rank_lookup r v end.
(** ranks are clamped by [R], so that [rk v <= R] holds by construction *)
Definition rk_of (t : list (N * N)) (R : N) (v : N) : N := N.min (rank_lookup t v) R.

Definition check_cert (g : graph) (rk : N -> N) : bool :=
  forallb (fun e => guardedb g (snd e) || boundedb g (fst e) (snd e) || (rk (snd e) <? rk (fst e)))
          (g_edges g).

(** the graph with extra nodes treated as guarded (listed known exceptions) *)
Definition with_exceptions (g : graph) (exc : list N) : graph :=
  mkGraph (g_edges g) (exc ++ g_guarded g) (g_bounded g) (g_entries g).

(** * Witness of an unguarded cycle: [base = x :: rest] is a path from an entry, [c] is a closed
    walk of unguarded nodes from [x] back to [x] (innermost first, [c] starts with [x]). *)
Fixpoint chain_from (g : graph) (v : N) (r : list N) : bool :=
  match r with [] => true | u :: r' => edgeb g u v && chain_from g u r' end.
Definition check_pump (g : graph) (w : list N * list N) : bool :=
  let '(base, c) := w in
  match base, c with
  | x :: rest, v :: c' =>
      stack_path_from g x rest && N.eqb v x && chain_from g v (c' ++ [x])
      && forallb (fun y => negb (guardedb g y)) c
  | _, _ => false
  end.
Fixpoint pump (c : list N) (j : nat) (base : list N) : list N :=
  match j with O => base | S j' => c ++ pump c j' base end.

(** * The set-operation loop ([parse_query_body] / [parse_remaining_set_exprs] /
    [parse_boxed_query_body]): operators 0 = UNION, 1 = EXCEPT, 2 = INTERSECT between atomic
    operands.  [qrem fuel prec ops] = (operators left, nesting depth of recursive
    [parse_query_body] frames opened by this loop and not separated by a guard). *)
Definition setop_prec (o : N) : N := if N.ltb o 2 then 10 else 20.
Fixpoint qrem (fuel : nat) (prec : N) (ops : list N) : list N * N :=
  match fuel with
  | O => (ops, 0)
  | S f =>
      match ops with
      | [] => ([], 0)
      | o :: rest =>
          let np := setop_prec o in
          if prec <? np then
            let '(ops1, d1) := qrem f np rest in
            let '(ops2, d2) := qrem f prec ops1 in
            (ops2, N.max (d1 + 1) d2)
          else (ops, 0)
      end
  end.
(** depth of right-nesting of the resulting tree = depth of the recursion *)
Definition setops_depth (ops : list N) : N := snd (qrem (S (2 * length ops)) 0 ops).

(** counter model used by the correspondence: a chain of [n] nested constructs each entering
    [a] guarded frames on top of [b] guarded frames of fixed overhead, under limit [L] *)
Fixpoint chain_events (frames : list N) : list event :=
  match frames with [] => [] | v :: r => Call v :: chain_events r end.
Definition chain_outcome (a b n L : N) : bool :=
  (* one guarded node 1, one unguarded node 0; edges irrelevant for [run] *)
  let g := mkGraph [] [1] [] [] in
  let frames := repeat 1 (N.to_nat (a * n + b)) in
  snd (run g ([], L) (chain_events frames)).
