(** Model of [Token::make_word] (src/tokenizer.rs) over an arbitrary keyword table, and the
    token-level keyword theorems of C08.  The table itself is generated (gen/KeywordTable.v). *)
Require Import SqlV.Base SqlV.Bsearch.
From Coq Require Import Arith.

Inductive kwres :=
| NoKeyword
| Kw (name : str)       (* the Debug name of the [Keyword] variant *)
| IndexPanic.           (* [ALL_KEYWORDS_INDEX[x]] out of bounds *)

Record word := { w_value : str; w_quote : option N; w_keyword : kwres }.

Section MakeWord.
  Variable tbl : list str.   (* ALL_KEYWORDS *)
  Variable idx : list str.   (* ALL_KEYWORDS_INDEX, by variant name *)

  Definition lookup_keyword (w : str) : kwres :=
    match bsearch tbl (ascii_upper w) with
    | Some i => match nth_error idx i with Some n => Kw n | None => IndexPanic end
    | None => NoKeyword
    end.

  Definition make_word (w : str) (q : option N) : word :=
    {| w_value := w; w_quote := q;
       w_keyword := match q with None => lookup_keyword w | Some _ => NoKeyword end |}.

  (** Side conditions, all decidable; evaluated on the generated table. *)
  Definition all_upper : bool := forallb (fun k => str_eqb (ascii_upper k) k) tbl.
  Definition table_ok : bool :=
    sortedb tbl && Nat.eqb (length tbl) (length idx) && all_upper.

  Hypothesis Hok : table_ok = true.

  Lemma ok_sorted : Sorted_lt tbl.
  Proof. unfold table_ok in Hok. apply andb_true_iff in Hok as [H _].
    apply andb_true_iff in H as [H _]. apply sortedb_sorted. exact H. Qed.
  Lemma ok_len : length tbl = length idx.
  Proof. unfold table_ok in Hok. apply andb_true_iff in Hok as [H _].
    apply andb_true_iff in H as [_ H]. apply Nat.eqb_eq. exact H. Qed.
  Lemma ok_upper k : In k tbl -> ascii_upper k = k.
  Proof. unfold table_ok in Hok. apply andb_true_iff in Hok as [_ H].
    unfold all_upper in H. rewrite forallb_forall in H. intro Hin.
    apply str_eqb_eq. apply H. exact Hin. Qed.

  (** Every table entry is recognised in every capitalisation, with the spelling kept. *)
  Theorem recognised i k name w :
    nth_error tbl i = Some k -> nth_error idx i = Some name -> ascii_ci_eq w k ->
    make_word w None = {| w_value := w; w_quote := None; w_keyword := Kw name |}.
  Proof.
    intros Hk Hn Hci. unfold make_word, lookup_keyword. f_equal.
    assert (Hu : ascii_upper w = k).
    { unfold ascii_ci_eq in Hci. rewrite Hci. apply ok_upper. eapply nth_error_In; eauto. }
    rewrite Hu. destruct (bsearch_spec tbl k ok_sorted) as [Hs _].
    apply Hs in Hk. rewrite Hk, Hn. reflexivity.
  Qed.

  (** Nothing else is recognised. *)
  Theorem only w name :
    w_keyword (make_word w None) = Kw name ->
    exists i k, nth_error tbl i = Some k /\ nth_error idx i = Some name /\ ascii_ci_eq w k.
  Proof.
    unfold make_word, lookup_keyword; cbn [w_keyword].
    destruct (bsearch tbl (ascii_upper w)) as [i|] eqn:E; [|discriminate].
    destruct (nth_error idx i) as [n|] eqn:En; [|discriminate].
    intros [= <-]. apply bsearch_sound in E. exists i, (ascii_upper w). repeat split; auto.
    unfold ascii_ci_eq. rewrite ascii_upper_idem. reflexivity.
  Qed.

  (** The index lookup never goes out of bounds. *)
  Theorem no_index_panic w q : w_keyword (make_word w q) <> IndexPanic.
  Proof.
    unfold make_word, lookup_keyword; cbn [w_keyword]. destruct q; [discriminate|].
    destruct (bsearch tbl (ascii_upper w)) as [i|] eqn:E; [|discriminate].
    apply bsearch_sound in E.
    assert (i < length idx)%nat by (rewrite <- ok_len; apply nth_error_Some; congruence).
    destruct (nth_error idx i) eqn:En; [discriminate|].
    apply nth_error_None in En. lia.
  Qed.

  (** Quoted words are never keywords and spelling/quoting is kept verbatim. *)
  Theorem quoted_never w c : w_keyword (make_word w (Some c)) = NoKeyword.
  Proof. reflexivity. Qed.
  Theorem spelling_kept w q : w_value (make_word w q) = w /\ w_quote (make_word w q) = q.
  Proof. split; reflexivity. Qed.

  (** Case-insensitivity as an equation between two spellings. *)
  Corollary recase w w' : ascii_ci_eq w w' ->
    w_keyword (make_word w None) = w_keyword (make_word w' None).
  Proof. unfold make_word, lookup_keyword, ascii_ci_eq; cbn [w_keyword]. intros ->. reflexivity. Qed.
End MakeWord.
