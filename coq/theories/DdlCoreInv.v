(** C01 / C05 — the DDL core: what the model parser [parse_create_table_core] returns.
    [ddl_outputs_wf]  : every tree it returns is well-formed ([dwf], the hypothesis of [ddl_roundtrip]), given
                        that its expressions are in canonical spelling ([dcanonical], as in [C01_core]; [dwf]
                        asks for it literally) and its column types are in the proved part of the data type
                        round trip ([dtypes_hyp]) — the two things a parser output need not have;
    [ddl_content_ordered] / [ddl_content] (the model-level C05): for ANY content predicate [keep] that rejects
                        the statement-level keywords and everything that is not literal-like, the content
                        tokens of an accepted list of lexed tokens are those of the result printed with its
                        elements in input order, in order; those of the printed statement ([dtoks]: columns
                        before constraints) are a permutation of them.  Exclusions: an unquoted ESCAPE word
                        ([dword_escape], known finding core:like-escape-word); column types some spelling of
                        which has another content than their printed form ([col_faithful], C18's side);
    [ddl_fixpoint]    : parse -> print -> parse gives the same tree and rest back, for every accepted token list
                        whose printed form passes the syntactic fragment test [dfrag] (kept as a hypothesis:
                        conservative, false for some outputs, see Properties/C01.v).
    One invariant lemma per parser function / loop ([pobjname_inv], [pcols_inv], [popt_inv], [popts_inv],
    [pcoldef_inv], [ptcbody_inv], [ptcons_inv], [pelem_inv], [pelems_inv], [ptable_inv], [parse_create_inv]),
    the loops by induction on the fuel; each gives well-formedness of the result, "the rest is a suffix of the
    input" and the content equation at once. *)
From SqlV Require Import Base PrecSpec Pratt PrattProofs PrinterCore PrinterCoreProofs DdlCore DdlCoreProofs.
Require SqlV.DataTypeRTProofs.
From Coq Require Import ZifyBool ZifyN ZifyNat Permutation.

(** * What a parser output need not have *)
(** canonical spelling of the expressions ([PrinterCoreProofs.canonical]: no [==], no unquoted ESCAPE word) *)
Definition copt_canon (o : copt) : bool :=
  match o with ODefault e | OCheck e => canonical e | _ => true end.
Definition coldef_canon (c : column_def) : bool := forallb (fun o => copt_canon (oopt o)) (coptions c).
Definition tcons_canon (t : tconstraint) : bool :=
  match tbody t with TCheck e => canonical e | _ => true end.
Definition dcanonical (c : create_table) : bool :=
  forallb coldef_canon (columns c) && forallb tcons_canon (constraints c).

(** the one place where the printer changes a content token ([PrinterCore.word_escape]): an unquoted ESCAPE
    word, printed as a string (known finding core:like-escape-word); implied by canonical spelling *)
Definition copt_wesc (o : copt) : bool :=
  match o with ODefault e | OCheck e => word_escape e | _ => false end.
Definition opts_wesc (l : list coptdef) : bool := existsb (fun o => copt_wesc (oopt o)) l.
Definition coldef_wesc (c : column_def) : bool := opts_wesc (coptions c).
Definition tcb_wesc (b : tcbody) : bool := match b with TCheck e => word_escape e | _ => false end.
Definition tcons_wesc (t : tconstraint) : bool := tcb_wesc (tbody t).
Definition dword_escape (c : create_table) : bool :=
  existsb coldef_wesc (columns c) || existsb tcons_wesc (constraints c).

Lemma wesc_any l :
  (fix any (l : list expr) : bool := match l with [] => false | x :: r => word_escape x || any r end) l
  = existsb word_escape l.
Proof. induction l as [|x l IH]; [reflexivity|]. cbn [existsb]. rewrite <- IH. reflexivity. Qed.

Lemma canonical_any l :
  (fix all (l : list expr) : bool := match l with [] => true | x :: r => canonical x && all r end) l
  = forallb canonical l.
Proof. induction l as [|x l IH]; [reflexivity|]. cbn [forallb]. rewrite <- IH. reflexivity. Qed.

Lemma canonical_no_word_escape e : canonical e = true -> word_escape e = false.
Proof.
  induction e using expr_rect'; cbn [canonical word_escape]; rewrite ?wesc_any, ?canonical_any; intro Hc;
    repeat (apply andb_true_iff in Hc; destruct Hc as [Hc ?]);
    rewrite ?IHe, ?IHe1, ?IHe2, ?IHe3 by assumption; try reflexivity.
  - rewrite forallb_forall in Hc. rewrite Forall_forall in H.
    destruct (existsb word_escape l) eqn:E; [|reflexivity]. apply existsb_exists in E. destruct E as (x & Hin & Hx).
    rewrite (H x Hin (Hc x Hin)) in Hx. discriminate.
  - destruct esc as [[[|] c]|]; try reflexivity. discriminate Hc.
  - cbn [orb]. rewrite forallb_forall in H0. rewrite Forall_forall in H.
    destruct (existsb word_escape l) eqn:E; [|reflexivity]. apply existsb_exists in E. destruct E as (x & Hin & Hx).
    rewrite (H x Hin (H0 x Hin)) in Hx. discriminate.
Qed.


Lemma dcanonical_no_word_escape c : dcanonical c = true -> dword_escape c = false.
Proof.
  unfold dcanonical, dword_escape. intro H. apply andb_true_iff in H. destruct H as [H1 H2].
  rewrite forallb_forall in H1, H2. apply orb_false_iff. split.
  - destruct (existsb coldef_wesc (columns c)) eqn:E; [|reflexivity]. apply existsb_exists in E.
    destruct E as (col & Hin & Hx). specialize (H1 col Hin). unfold coldef_canon in H1. rewrite forallb_forall in H1.
    unfold coldef_wesc, opts_wesc in Hx. apply existsb_exists in Hx. destruct Hx as (o & Ho & Hx). specialize (H1 o Ho).
    destruct (oopt o); cbn [copt_canon copt_wesc] in *; try discriminate Hx;
      rewrite (canonical_no_word_escape _ H1) in Hx; discriminate Hx.
  - destruct (existsb tcons_wesc (constraints c)) eqn:E; [|reflexivity]. apply existsb_exists in E.
    destruct E as (t & Hin & Hx). specialize (H2 t Hin). unfold tcons_canon in H2. unfold tcons_wesc in Hx.
    destruct (tbody t); cbn [tcb_wesc] in *; try discriminate Hx.
    rewrite (canonical_no_word_escape _ H2) in Hx. discriminate Hx.
Qed.

(** a column type in the proved part of the C18 round trip whose printed form SQLite does not take for the
    start of a column option (exactly what [ctype_wf] asks of a typed column) *)
Definition ctype_hyp (d : ddialect) (c : column_def) : bool :=
  match ctype c with
  | DT.DUnspecified => true
  | t =>
      pfb (dtab d) (dname d) t &&
      (negb (gate d ["sqlite"]%string) ||
       match type_toks (dtab d) t with w :: _ => is_wordtok w && negb (sqlite_kw w) | [] => false end)
  end.
Definition dtypes_hyp (d : ddialect) (c : create_table) : bool := forallb (ctype_hyp d) (columns c).

(** * Tokens *)
(** the tokens a lexer view produces: both views of one token ([TT]) *)
Definition lexed (t : dtok) : Prop := ev t = ev_of (tv t).
(** literal-like tokens: the only ones that can be content *)
Definition is_lit (x : DT.tok) : bool :=
  match x with DT.TWord _ | DT.TQWord _ _ | DT.TNum _ | DT.TStr _ => true | _ => false end.

Definition suf (r ts : list dtok) : Prop := exists pre, ts = pre ++ r.
Lemma suf_refl ts : suf ts ts.
Proof. exists []. reflexivity. Qed.
Lemma suf_cons t r ts : suf r ts -> suf r (t :: ts).
Proof. intros (p & E). exists (t :: p). rewrite E. reflexivity. Qed.
Lemma suf_trans a b c : suf a b -> suf b c -> suf a c.
Proof. intros (p & E) (q & F). exists (q ++ p). rewrite F, E, app_assoc. reflexivity. Qed.
Lemma suf_tl ts : suf (tl ts) ts.
Proof. destruct ts as [|t r]; [apply suf_refl|apply suf_cons, suf_refl]. Qed.
Lemma suf_skipn n (l : list dtok) : suf (skipn n l) l.
Proof. exists (firstn n l). symmetry. apply firstn_skipn. Qed.
Lemma suf_Forall (P : dtok -> Prop) r ts : suf r ts -> Forall P ts -> Forall P r.
Proof. intros (p & E) H. subst ts. apply Forall_app in H. tauto. Qed.

Lemma lexed_TT x : lexed (TT x).
Proof. reflexivity. Qed.
Lemma lexed_map_TT xs : Forall lexed (map TT xs).
Proof. induction xs; constructor; [apply lexed_TT|assumption]. Qed.

Lemma assoc_kw_view w t : assoc_str w kw_view = Some t -> tv_of t = DT.TWord w.
Proof.
  unfold kw_view. cbn [assoc_str].
  repeat match goal with
  | |- (if str_eqb ?k w then _ else _) = _ -> _ =>
      let E := fresh "E" in
      destruct (str_eqb k w) eqn:E;
      [apply str_eqb_eq in E; subst w; intro H; inversion H; reflexivity|clear E]
  end.
  discriminate.
Qed.

Lemma word_view_tv w x : word_view w = Some x -> tv_of x = DT.TWord w.
Proof.
  unfold word_view. destruct (assoc_str w kw_view) as [t|] eqn:A.
  - intro H. inversion H; subst. apply assoc_kw_view. exact A.
  - intro H.
    repeat match type of H with
    | context [match ?v with _ => _ end] => destruct v eqn:?; try discriminate H
    end.
    inversion H; subst x.
    match goal with Hb : (_ && _) = true |- _ => apply andb_true_iff in Hb; destruct Hb as [Hb1 Hb2] end.
    apply str_eqb_eq in Hb2. cbn [tv_of]. rewrite Hb1. rewrite Hb2. reflexivity.
Qed.

Lemma str_view_tv s x : str_view s = x -> is_other x = false -> tv_of x = DT.TStr s.
Proof.
  unfold str_view. intros H Ho.
  repeat match type of H with
  | context [match ?v with _ => _ end] => destruct v eqn:?; try (subst x; discriminate Ho)
  end.
  - subst x. match goal with Hb : (_ && _) = true |- _ => apply andb_true_iff in Hb; destruct Hb as [Hb1 Hb2] end.
    apply str_eqb_eq in Hb2. cbn [tv_of]. rewrite Hb2. reflexivity.
  - subst x. match goal with Hb : str_eqb _ _ = true |- _ => apply str_eqb_eq in Hb; rename Hb into Hb2 end.
    cbn [tv_of]. unfold str_payload.
    match goal with |- context [100000 <=? 100000 + ?n] => destruct (N.leb_spec 100000 (100000 + n)); [|lia];
      replace (100000 + n - 100000) with n by lia end.
    rewrite Hb2. reflexivity.
Qed.

(** the two views of a lexed token of the expression alphabet: the printer's token [EE x] is the token
    itself, unless neither is literal-like (operators: [>] is [TGt] at the type level, ..) *)
Lemma ev_tv y x : ev_of y = Some x -> is_other x = false ->
  tv_of x = y \/ (is_lit y = false /\ is_lit (tv_of x) = false).
Proof.
  destruct y; cbn [ev_of]; intros H Ho; try (inversion H; subst x; try discriminate Ho; left; reflexivity).
  - left. apply word_view_tv. exact H.
  - inversion H; subst x. left. cbn [tv_of]. unfold D_NUM_BASE.
    destruct (N.ltb_spec (5000 + n) 5000); [lia|]. f_equal. lia.
  - inversion H. left. apply str_view_tv; [reflexivity|]. rewrite H1. exact Ho.
  - destruct (n =? K_Semi) eqn:E0; [discriminate|].
    destruct ((43 <=? n) && (n <=? 86)) eqn:E1.
    + inversion H; subst x. right. split; [reflexivity|]. cbn [tv_of].
      apply andb_true_iff in E1. destruct E1 as [A B]. apply N.leb_le in A. apply N.leb_le in B.
      unfold K_Gt, K_Lt, K_Shr, K_AND, K_OR, K_XOR.
      repeat match goal with |- context [n =? ?c] => destruct (N.eqb_spec n c); [try reflexivity; lia|] end.
      reflexivity.
    + destruct ((87 <=? n) && (n <=? 90)) eqn:E2; [inversion H; subst x; left; reflexivity|].
      destruct (n =? K_DCOLON) eqn:E3; [inversion H; subst x; left; apply N.eqb_eq in E3; subst n; reflexivity|].
      destruct (n =? K_EXCL) eqn:E4; [inversion H; subst x; left; apply N.eqb_eq in E4; subst n; reflexivity|].
      inversion H; subst x. discriminate Ho.
Qed.

(** * The cut the expression parser sees *)
Lemma cutd_prefix l : forall k a b,
  cutd k l = a ++ b -> (termd k l = true -> b <> []) -> map ev (firstn (length a) l) = map Some a.
Proof.
  induction l as [|t l IH]; intros k a b H Hb.
  - cbn [cutd] in H. destruct a; [reflexivity|discriminate H].
  - destruct a as [|x a]; [reflexivity|].
    cbn [cutd termd] in H, Hb. cbn [length firstn map].
    destruct (ev t) as [y|] eqn:Et.
    + assert (Hgo : forall k', (termd k' l = true -> b <> []) ->
                               y :: cutd k' l = (x :: a) ++ b -> Some y :: map ev (firstn (length a) l) = Some x :: map Some a).
      { intros k' Ht E. cbn [app] in E. inversion E; subst x. f_equal. apply (IH k' a b); assumption. }
      assert (Hstop : (true = true -> b <> []) -> [y] = (x :: a) ++ b -> Some y :: map ev (firstn (length a) l) = Some x :: map Some a).
      { intros Hb' E. cbn [app] in E. inversion E. destruct a; [|discriminate]. destruct b; [|discriminate].
        exfalso. apply Hb'; reflexivity. }
      destruct y; try (apply (Hgo _ Hb H)); destruct k as [|k0]; first [apply (Hstop Hb H)|apply (Hgo _ Hb H)].
    + cbn [app] in H. inversion H. destruct a; [|discriminate]. destruct b; [|discriminate].
      exfalso. apply Hb; reflexivity.
Qed.

(** * The data type parser never returns the "no type" marker [DUnspecified] *)
Ltac brk H :=
  match type of H with
  | context [bind ?c _] => destruct c as [[? ?]| | |] eqn:?; cbn [bind] in H; try discriminate H
  | context [if ?x then _ else _] => destruct x eqn:?; try discriminate H
  | context [match ?x with _ => _ end] => destruct x eqn:?; try discriminate H
  end.

Lemma q_square_nz dn f : forall t ts t' r,
  DT.q_square dn f t ts = Some (t', r) -> t <> DT.DUnspecified -> t' <> DT.DUnspecified.
Proof.
  induction f as [|f IH]; intros t ts t' r H Hn; cbn [DT.q_square] in H; [discriminate|].
  repeat brk H; try (inversion H; subst; exact Hn); (eapply IH; [exact H|discriminate]).
Qed.

Lemma wrap_square_nz dn p t tr r :
  DT.wrap_square dn p = DT.POk t tr r ->
  (forall t0 tr0 r0, p = DT.POk t0 tr0 r0 -> t0 <> DT.DUnspecified) -> t <> DT.DUnspecified.
Proof.
  intros H Hp. unfold DT.wrap_square in H. destruct p as [t0 tr0 r0|]; [|discriminate].
  specialize (Hp _ _ _ eq_refl).
  destruct tr0; [inversion H; subst; exact Hp|].
  destruct (DT.q_square dn (S (length r0)) t0 r0) as [[t' r'']|] eqn:E; [|discriminate].
  inversion H; subst. eapply q_square_nz; eauto.
Qed.

Lemma run_alts_nz alts : forall ts t tr r, DT.run_alts alts ts = DT.POk t tr r -> t <> DT.DUnspecified.
Proof.
  induction alts as [|a alts IH]; intros ts t tr r H; cbn [DT.run_alts] in H; [discriminate|].
  destruct (DT.take_kws (DT.a_kws a) ts) as [ts'|]; [|eapply IH; exact H].
  unfold DT.run_leaf in H. repeat brk H; inversion H; subst; discriminate.
Qed.

Lemma parse_main_nz T dn f ts t tr r : DT.parse_main T dn f ts = DT.POk t tr r -> t <> DT.DUnspecified.
Proof.
  destruct f as [|f]; intro H; [discriminate H|]. cbn [DT.parse_main] in H. unfold DT.q_custom in H.
  destruct ts as [|x ts']; [discriminate H|].
  destruct x; try discriminate H.
  - destruct (DT.find_parow (DT.t_parse T) dn (ascii_upper w)) as [[kw gt [alts|tag]]|] eqn:E.
    + eapply run_alts_nz; exact H.
    + repeat brk H; inversion H; subst; discriminate.
    + repeat brk H; inversion H; subst; discriminate.
  - repeat brk H; inversion H; subst; discriminate.
Qed.

Lemma parse_dt_nz T dn ts t tr r : DT.parse_dt T dn ts = DT.POk t tr r -> t <> DT.DUnspecified.
Proof.
  unfold DT.parse_dt, DT.parse_helper. intro H.
  destruct (DT.wrap_square dn (DT.parse_main T dn (S (length ts)) ts)) as [t0 [|] r0|] eqn:E; try discriminate H.
  inversion H; subst. eapply wrap_square_nz; [exact E|]. intros t1 tr1 r1 E1. eapply parse_main_nz; exact E1.
Qed.

(** * The invariants of the statement-level parser functions *)
Section Inv.
  Variable d : ddialect.
  Hypothesis Hd : ddialect_ok d = true.
  Notation T := (dtab d).

  (** which tokens are content: any predicate that rejects the keywords the statement level tests for (in any
      capitalisation) and everything that is not literal-like *)
  Variable keep : dtok -> bool.
  Hypothesis Hkw : forall t, kwc t <> None -> keep t = false.
  Hypothesis Hlit : forall t, keep t = true -> is_lit (tv t) = true.
  Notation K := (filter keep).

  (** a column type all of whose spellings (as lexed tokens) have the content of its printed form;
      discharged for every type by [DdlCoreContent.col_faithful_all] *)
  Definition ty_faithful (t : DT.dt) : Prop :=
    forall l r, Forall lexed l -> dtype d l = Ok (t, r) -> K l = K (type_toks T t) ++ K r.
  Definition col_faithful (c : column_def) : Prop :=
    match ctype c with DT.DUnspecified => True | t => ty_faithful t end.

  Lemma keep_nolit t : is_lit (tv t) = false -> keep t = false.
  Proof. intro H. destruct (keep t) eqn:E; [|reflexivity]. apply Hlit in E. congruence. Qed.
  Lemma keep_kt k : keep (kt k) = false.
  Proof. apply Hkw. rewrite kwc_kt. discriminate. Qed.
  Lemma keep_k k t : is_k k t = true -> keep t = false.
  Proof. unfold is_k. intro H. apply Hkw. destruct (kwc t); [discriminate|discriminate H]. Qed.
  Lemma keep_kwc k t : kwc t = Some k -> keep t = false.
  Proof. intro H. apply Hkw. congruence. Qed.
  Lemma keep_lparen t : is_lparen t = true -> keep t = false.
  Proof. unfold is_lparen. intro H. apply keep_nolit. destruct (tv t); try discriminate H; reflexivity. Qed.
  Lemma keep_rparen t : is_rparen t = true -> keep t = false.
  Proof. unfold is_rparen. intro H. apply keep_nolit. destruct (tv t); try discriminate H; reflexivity. Qed.
  Lemma keep_comma t : is_comma t = true -> keep t = false.
  Proof. unfold is_comma. intro H. apply keep_nolit. destruct (tv t); try discriminate H; reflexivity. Qed.
  Lemma keep_period t : is_period t = true -> keep t = false.
  Proof. unfold is_period. intro H. apply keep_nolit. destruct (tv t); try discriminate H; reflexivity. Qed.

  Lemma is_kh_cons k ts : is_kh k ts = true -> exists t r, ts = t :: r /\ is_k k t = true /\ keep t = false.
  Proof. destruct ts as [|t r]; [discriminate|]. cbn [is_kh]. intro H. exists t, r. repeat split; [exact H|eapply keep_k; exact H]. Qed.
  Lemma K_cons_drop t r : keep t = false -> K (t :: r) = K r.
  Proof. intro H. cbn [filter]. rewrite H. reflexivity. Qed.
  Lemma K_app a b : K (a ++ b) = K a ++ K b.
  Proof. apply filter_app. Qed.

  (** separators and brackets are not content *)
  Lemma K_name_toks l : K (name_toks l) = K l.
  Proof.
    induction l as [|w l IH]; [reflexivity|]. destruct l as [|w' l']; [reflexivity|].
    change (name_toks (w :: w' :: l')) with (w :: P_Period :: name_toks (w' :: l')).
    cbn [filter] in *. rewrite IH. rewrite (keep_period P_Period eq_refl). reflexivity.
  Qed.
  Lemma K_dsepc ls : K (dsepc ls) = K (concat ls).
  Proof.
    induction ls as [|x ls IH]; [reflexivity|]. destruct ls as [|y ls'].
    - cbn [dsepc concat]. rewrite app_nil_r. reflexivity.
    - rewrite dsepc_cons. cbn [concat] in *. rewrite !K_app. cbn [filter]. rewrite (keep_comma P_Comma eq_refl).
      rewrite IH. rewrite K_app. reflexivity.
  Qed.
  Lemma concat_words (l : list word) : concat (map (fun w => [w]) l) = l.
  Proof. induction l as [|w l IH]; [reflexivity|]. cbn [map concat app]. rewrite IH. reflexivity. Qed.
  Lemma K_cols_toks l : K (cols_toks l) = K l.
  Proof.
    unfold cols_toks. cbn [filter]. rewrite (keep_lparen P_LParen eq_refl). rewrite K_app. cbn [filter].
    rewrite (keep_rparen P_RParen eq_refl), app_nil_r, K_dsepc, concat_words. reflexivity.
  Qed.
  Lemma K_cname_toks n : K (cname_toks n) = K (match n with Some w => [w] | None => [] end).
  Proof. destruct n; [|reflexivity]. cbn [cname_toks filter]. rewrite keep_kt. reflexivity. Qed.

  (** ** Printing an expression in canonical spelling keeps its content, unless it has an unquoted ESCAPE word *)
  Definition KE (ts : list tok) : list dtok := K (ee ts).
  Lemma KE_app a b : KE (a ++ b) = KE a ++ KE b.
  Proof. unfold KE, ee. rewrite map_app. apply filter_app. Qed.
  Lemma sc_app a a' b b' : KE a = KE a' -> KE b = KE b' -> KE (a ++ b) = KE (a' ++ b').
  Proof. intros H1 H2. rewrite !KE_app, H1, H2. reflexivity. Qed.
  Lemma sc_cons t a a' : KE a = KE a' -> KE (t :: a) = KE (t :: a').
  Proof. intro H. apply (sc_app [t] [t]); [reflexivity|exact H]. Qed.
  Lemma keep_EE_op k : is_lit (tv_of (TOp k)) = false -> keep (EE (TOp k)) = false.
  Proof. intro H. destruct (keep (EE (TOp k))) eqn:E; [|reflexivity]. apply Hlit in E. cbn [tv EE] in E. congruence. Qed.
  Lemma sc_key k a a' : KE a = KE a' -> KE (TOp (norm_key k) :: a) = KE (TOp k :: a').
  Proof.
    intro H. unfold norm_key. destruct (k =? K_DoubleEq) eqn:E; [|apply sc_cons; exact H].
    apply N.eqb_eq in E. subst k. unfold KE in *. cbn [ee map filter]. fold (ee a) (ee a').
    rewrite (keep_EE_op K_Eq eq_refl), (keep_EE_op K_DoubleEq eq_refl). exact H.
  Qed.

  Lemma sc_commas l :
    Forall (fun x => word_escape x = false -> KE (yield (norm x)) = KE (yield x)) l ->
    existsb word_escape l = false -> KE (commas (map norm l)) = KE (commas l).
  Proof.
    induction 1 as [|x r Hx Hr IH]; [reflexivity|]. cbn [existsb]. intro Hw. apply orb_false_iff in Hw. destruct Hw as [Hw1 Hw2].
    destruct r as [|y r'].
    - cbn [map commas]. apply Hx. exact Hw1.
    - change (commas (map norm (x :: y :: r'))) with (yield (norm x) ++ TComma :: commas (map norm (y :: r'))).
      change (commas (x :: y :: r')) with (yield x ++ TComma :: commas (y :: r')).
      apply sc_app; [apply Hx; exact Hw1|]. apply sc_cons. apply IH. exact Hw2.
  Qed.

  Lemma KE_norm e : word_escape e = false -> KE (yield (norm e)) = KE (yield e).
  Proof.
    induction e using expr_rect'; cbn [norm]; try rewrite !yield_tuple; try rewrite !yield_inlist;
      cbn [yield word_escape]; rewrite ?wesc_any; intro Hw;
      repeat (apply orb_false_iff in Hw; destruct Hw as [Hw ?]);
      repeat first [ reflexivity | assumption
                   | apply sc_key | apply sc_cons | apply sc_app
                   | apply sc_commas; assumption
                   | apply IHe | apply IHe1 | apply IHe2 | apply IHe3 ].
    destruct esc as [[[|] c]|]; try reflexivity. discriminate Hw.
  Qed.

  Lemma K_ptoks e : word_escape e = false -> K (ee (ptoks e)) = K (ee (yield e)).
  Proof. apply KE_norm. Qed.

  (** ** Expressions *)
  Lemma keep_lexed t x : lexed t -> ev t = Some x -> is_other x = false ->
    t = EE x \/ (keep t = false /\ keep (EE x) = false).
  Proof.
    intros Hl He Ho. unfold lexed in Hl. rewrite He in Hl. symmetry in Hl.
    destruct (ev_tv _ _ Hl Ho) as [E|[E1 E2]].
    - left. destruct t as [y e]. cbn [tv ev] in *. unfold EE. rewrite E, He. reflexivity.
    - right. split; apply keep_nolit; assumption.
  Qed.

  Lemma K_ee l : forall xs, Forall lexed l -> map ev l = map Some xs -> existsb is_other xs = false ->
    K l = K (ee xs).
  Proof.
    induction l as [|t l IH]; intros xs Hl Hm Ho; destruct xs as [|x xs]; try discriminate Hm; [reflexivity|].
    cbn [map] in Hm. inversion Hm as [[Ht Hm']]. inversion Hl as [|? ? Hl1 Hl2]; subst.
    cbn [existsb] in Ho. apply orb_false_iff in Ho. destruct Ho as [Ho1 Ho2].
    cbn [ee map filter]. fold (ee xs). rewrite (IH xs Hl2 Hm' Ho2).
    destruct (keep_lexed t x Hl1 Ht Ho1) as [E|[E1 E2]].
    - rewrite <- E. reflexivity.
    - rewrite E1, E2. reflexivity.
  Qed.

  Lemma existsb_app_false {A} (f : A -> bool) a b : existsb f (a ++ b) = false -> existsb f a = false.
  Proof. rewrite existsb_app. intro H. apply orb_false_iff in H. tauto. Qed.

  Lemma dexpr_inv l e r :
    dexpr (dbase d) l = Ok (e, r) ->
    (canonical e = true -> dewf (dbase d) e = true) /\ suf r l /\
    (Forall lexed l -> K l = K (ee (yield e)) ++ K r).
  Proof.
    unfold dexpr. intro H.
    destruct (parse_expr (dbase d) (cutd 0 l)) as [[e0 r0]| | |] eqn:E; cbn [bind] in H; try discriminate H.
    destruct (termd 0 l && Nat.eqb (length r0) 0) eqn:G; [discriminate H|]. inversion H; subst e0 r. clear H.
    pose proof (pratt_invariant (dbase d) (d_U0 d Hd) _ _ _ E) as (Hy & (_ & Hw & Hls) & _).
    pose proof (parse_expr_shape (dbase d) _ _ _ E) as (Hs & _).
    assert (Hn : (length (cutd 0 l) - length r0 = length (yield e))%nat) by (rewrite Hy, app_length; lia).
    rewrite Hn. split; [|split].
    - intro Hc. unfold dewf. rewrite Hc, andb_true_r.
      apply andb_true_iff. split; [apply andb_true_iff; split|].
      + apply shapeb_iff. exact Hs.
      + apply wfb_iff. exact Hw.
      + apply lspine_gtb_iff. exact Hls.
    - apply suf_skipn.
    - intro Hl. rewrite <- (firstn_skipn (length (yield e)) l) at 1. rewrite K_app. f_equal.
      apply K_ee.
      + apply Forall_forall. intros x Hx. rewrite Forall_forall in Hl. apply Hl.
        rewrite <- (firstn_skipn (length (yield e)) l). apply in_or_app. left. exact Hx.
      + apply (cutd_prefix l 0 (yield e) r0 Hy). intros Ht Hr. subst r0. rewrite Ht in G. discriminate G.
      + unfold parse_expr in E. destruct (existsb is_other (cutd 0 l)) eqn:Eo; [discriminate E|].
        rewrite Hy in Eo. apply existsb_app_false in Eo. exact Eo.
  Qed.

  (** ** Identifiers, names, column lists *)
  Lemma pident_inv ts w r : pident ts = Ok (w, r) -> ts = w :: r /\ is_wordtok w = true.
  Proof.
    unfold pident, is_wordtok. destruct ts as [|t r0]; [discriminate|].
    destruct (tv t) eqn:E; try discriminate; try (destruct (is_foreign t); discriminate).
    intro H. inversion H; subst. rewrite E. auto.
  Qed.

  Lemma pobjname_inv hy g : forall ts l r,
    pobjname hy g ts = Ok (l, r) -> name_wf l = true /\ suf r ts /\ K ts = K l ++ K r.
  Proof.
    induction g as [|g IH]; intros ts l r H; cbn [pobjname] in H; [discriminate H|].
    destruct (pident ts) as [[w r0]| | |] eqn:Ei; cbn [bind] in H; try discriminate H.
    apply pident_inv in Ei. destruct Ei as [-> Hw].
    destruct r0 as [|p r'].
    - inversion H; subst. cbn [name_wf forallb]. rewrite Hw. repeat split; [apply suf_cons, suf_refl|].
      cbn [filter]. rewrite app_nil_r. reflexivity.
    - destruct (hy && is_minus p); [discriminate H|].
      destruct (is_period p) eqn:Ep.
      + destruct (pobjname hy g r') as [[l' r'']| | |] eqn:E; cbn [bind] in H; try discriminate H.
        inversion H; subst. apply IH in E. destruct E as (Hn & Hs & Hk).
        split; [|split].
        * unfold name_wf in *. destruct l'; [discriminate Hn|]. cbn [forallb] in *. rewrite Hw, Hn. reflexivity.
        * apply suf_cons, suf_cons. exact Hs.
        * cbn [filter]. rewrite (keep_period p Ep). rewrite Hk. destruct (keep w); reflexivity.
      + inversion H; subst. cbn [name_wf forallb]. rewrite Hw. repeat split; [apply suf_cons, suf_refl|].
        cbn [filter]. destruct (keep w); reflexivity.
  Qed.

  Lemma pcols_inv g : forall ts l r,
    pcols d g ts = Ok (l, r) ->
    (exists w l' x, l = w :: l' /\ ts = w :: x) /\ cols_wf d l = true /\ suf r ts /\ K ts = K l ++ K r.
  Proof.
    induction g as [|g IH]; intros ts l r H; cbn [pcols] in H; [discriminate H|].
    destruct (pident ts) as [[w r0]| | |] eqn:Ei; cbn [bind] in H; try discriminate H.
    apply pident_inv in Ei. destruct Ei as [-> Hw].
    assert (Hone : forall r1, suf r1 r0 -> K r0 = K r1 ->
              (exists w0 l' x, [w] = w0 :: l' /\ w :: r0 = w0 :: x) /\ cols_wf d [w] = true /\ suf r1 (w :: r0) /\
              K (w :: r0) = K [w] ++ K r1).
    { intros r1 Hs Hk. split; [exists w, [], r0; auto|]. split; [|split].
      - unfold cols_wf. cbn [forallb tl existsb]. rewrite Hw, andb_false_r. reflexivity.
      - apply suf_cons. exact Hs.
      - cbn [filter]. rewrite Hk. destruct (keep w); reflexivity. }
    destruct r0 as [|c r'].
    - inversion H; subst. apply Hone; [apply suf_refl|reflexivity].
    - destruct (is_comma c) eqn:Ec.
      + destruct (dtrailing d && dcomma_end d r') eqn:Et.
        * inversion H; subst. apply Hone; [apply suf_cons, suf_refl|]. apply K_cons_drop, keep_comma, Ec.
        * destruct (pcols d g r') as [[l' r'']| | |] eqn:E; cbn [bind] in H; try discriminate H.
          inversion H; subst. apply IH in E. destruct E as ((w' & l'' & x & -> & ->) & Hc & Hs & Hk).
          split; [exists w, (w' :: l''), (c :: w' :: x); auto|]. split; [|split].
          -- unfold cols_wf in *. apply andb_true_iff in Hc. destruct Hc as [Hc1 Hc2].
             cbn [forallb] in Hc1. apply andb_true_iff in Hc1. destruct Hc1 as [Hw' Hc1].
             cbn [forallb tl existsb] in *. rewrite Hw, Hw', Hc1. cbn [andb].
             apply negb_true_iff. apply negb_true_iff in Hc2.
             destruct (dtrailing d); [|reflexivity]. cbn [andb] in *.
             rewrite Hc2, orb_false_r. rewrite <- (word_not_end d w' x Hw'). exact Et.
          -- apply suf_cons, suf_cons. exact Hs.
          -- cbn [filter] in *. rewrite (keep_comma c Ec). rewrite Hk. destruct (keep w); reflexivity.
      + inversion H; subst. apply Hone; [apply suf_refl|reflexivity].
  Qed.

  Lemma pcollist_inv opt g ts l r :
    pcollist d opt g ts = Ok (l, r) ->
    (l = [] /\ r = ts /\ lparen_h ts = false) \/
    (cols1_wf d l = true /\ suf r ts /\ K ts = K l ++ K r).
  Proof.
    unfold pcollist. destruct (lparen_h ts) eqn:El.
    - intro H. right. destruct ts as [|t ts']; [discriminate El|]. cbn [lparen_h tl] in *.
      destruct (pcols d g ts') as [[l' r1]| | |] eqn:E; cbn [bind] in H; try discriminate H.
      unfold expect_rp in H. destruct r1 as [|c r2]; [discriminate H|].
      destruct (is_rparen c) eqn:Ec; [|discriminate H]. inversion H; subst.
      apply pcols_inv in E. destruct E as ((w & l'' & x & -> & ->) & Hc & Hs & Hk).
      split; [exact Hc|]. split.
      + apply suf_cons. eapply suf_trans; [apply suf_cons, suf_refl|exact Hs].
      + rewrite (K_cons_drop t _ (keep_lparen t El)). rewrite Hk. rewrite (K_cons_drop c _ (keep_rparen c Ec)). reflexivity.
    - destruct opt; [|discriminate]. intro H. inversion H; subst. left. auto.
  Qed.

  Lemma pcollist_K opt g ts l r :
    pcollist d opt g ts = Ok (l, r) -> suf r ts /\ K ts = K l ++ K r.
  Proof.
    intro H. apply pcollist_inv in H. destruct H as [(-> & -> & _)|(_ & Hs & Hk)]; [split; [apply suf_refl|reflexivity]|auto].
  Qed.

  (** ** Column options *)
  Lemma Forall_lexed_tl t r : Forall lexed (t :: r) -> Forall lexed r.
  Proof. intro H. inversion H; assumption. Qed.

  Lemma ptoks_canon e : canonical e = true -> ptoks e = yield e.
  Proof. intro H. unfold ptoks. rewrite (norm_canonical e H). reflexivity. Qed.

  Definition opt_inv (ts : list dtok) (o : copt) (r : list dtok) : Prop :=
    (copt_canon o = true -> copt_wf d o = true) /\ suf r ts /\
    (Forall lexed ts -> copt_wesc o = false -> K ts = K (opt_toks o) ++ K r) /\
    (o = ONull -> hkw ts = Some WNull).

  Lemma popt_inv g ts o r : popt d g ts = Ok (o, r) ->
    match o with None => r = ts | Some o => opt_inv ts o r end.
  Proof.
    destruct ts as [|t r0]; intro H; [inversion H; reflexivity|]. cbn [popt] in H.
    destruct (kwc t) as [k|] eqn:Ek; [|inversion H; reflexivity].
    pose proof (keep_kwc _ _ Ek) as Hkt.
    destruct k; cbv beta iota in H;
      try (repeat brk H; inversion H; subst; reflexivity).
    - (* NOT NULL *)
      destruct (is_kh WNull r0) eqn:En; inversion H; subst; [|reflexivity].
      destruct (is_kh_cons _ _ En) as (t' & r' & -> & _ & Hk').
      repeat split; try discriminate.
      + apply suf_cons, suf_cons, suf_refl.
      + intros _ _. cbn [opt_toks tl]. rewrite !K_cons_drop by (assumption || apply keep_kt). reflexivity.
    - (* UNIQUE *)
      destruct (cchar_ahead r0); [discriminate H|]. inversion H; subst.
      repeat split; try discriminate.
      + apply suf_cons, suf_refl.
      + intros _ _. cbn [opt_toks]. rewrite !K_cons_drop by (assumption || apply keep_kt). reflexivity.
    - (* PRIMARY KEY *)
      destruct (is_kh WKey r0) eqn:En; [|inversion H; subst; reflexivity].
      destruct (cchar_ahead (tl r0)); [discriminate H|]. inversion H; subst.
      destruct (is_kh_cons _ _ En) as (t' & r' & -> & _ & Hk').
      repeat split; try discriminate.
      + apply suf_cons, suf_cons, suf_refl.
      + intros _ _. cbn [opt_toks tl]. rewrite !K_cons_drop by (assumption || apply keep_kt). reflexivity.
    - (* CHECK (e) *)
      destruct (lparen_h r0) eqn:El; [|discriminate H].
      destruct r0 as [|p r0']; [discriminate El|]. cbn [lparen_h tl] in *.
      destruct (dexpr (dbase d) r0') as [[e r1]| | |] eqn:E; cbn [bind] in H; try discriminate H.
      unfold expect_rp in H. destruct r1 as [|c r2]; [discriminate H|].
      destruct (is_rparen c) eqn:Ec; [|discriminate H]. inversion H; subst.
      apply dexpr_inv in E. destruct E as (Hw & Hs & Hk).
      repeat split; try discriminate.
      + exact Hw.
      + apply suf_cons, suf_cons. eapply suf_trans; [apply suf_cons, suf_refl|exact Hs].
      + intros Hl Hc. cbn [copt_wesc] in Hc. cbn [opt_toks].
        rewrite (K_cons_drop t _ Hkt), (K_cons_drop p _ (keep_lparen p El)).
        rewrite (K_cons_drop _ _ (keep_kt WCheck)), (K_cons_drop _ _ (keep_lparen P_LParen eq_refl)).
        rewrite Hk by (eapply Forall_lexed_tl, Forall_lexed_tl; exact Hl).
        rewrite (K_cons_drop c _ (keep_rparen c Ec)). rewrite K_app, (K_ptoks e Hc). cbn [filter].
        rewrite (keep_rparen P_RParen eq_refl), app_nil_r. reflexivity.
    - (* REFERENCES *)
      destruct (pobjname false g r0) as [[nm r1]| | |] eqn:E1; cbn [bind] in H; try discriminate H.
      destruct (pcollist d true g r1) as [[cols r2]| | |] eqn:E2; cbn [bind] in H; try discriminate H.
      destruct (refact_ahead r2 || cchar_ahead r2); [discriminate H|]. inversion H; subst.
      apply pobjname_inv in E1. destruct E1 as (Hn & Hs1 & Hk1).
      pose proof (pcollist_K _ _ _ _ _ E2) as (Hs2 & Hk2).
      repeat split; try discriminate.
      + intros _. cbn [copt_wf]. rewrite Hn. cbn [andb].
        apply pcollist_inv in E2. destruct E2 as [(-> & _)|(Hc & _)]; [unfold cols_wf; cbn [forallb tl existsb]; rewrite andb_false_r; reflexivity|].
        unfold cols1_wf in Hc. destruct cols; [discriminate Hc|exact Hc].
      + apply suf_cons. eapply suf_trans; eassumption.
      + intros _ _. cbn [opt_toks]. rewrite !K_cons_drop by (assumption || apply keep_kt).
        rewrite Hk1, Hk2, !K_app, K_name_toks, <- app_assoc. f_equal. f_equal.
        destruct cols; [reflexivity|]. symmetry. apply K_cols_toks.
    - (* NULL *)
      inversion H; subst. repeat split.
      + apply suf_cons, suf_refl.
      + intros _ _. cbn [opt_toks]. rewrite !K_cons_drop by (assumption || apply keep_kt). reflexivity.
      + intros _. cbn [hkw]. exact Ek.
    - (* DEFAULT e *)
      destruct (dexpr (dbase d) r0) as [[e r']| | |] eqn:E; cbn [bind] in H; try discriminate H.
      inversion H; subst. apply dexpr_inv in E. destruct E as (Hw & Hs & Hk).
      repeat split; try discriminate.
      + exact Hw.
      + apply suf_cons. exact Hs.
      + intros Hl Hc. cbn [copt_wesc] in Hc. cbn [opt_toks].
        rewrite !K_cons_drop by (assumption || apply keep_kt). rewrite (K_ptoks e Hc). apply Hk. eapply Forall_lexed_tl; exact Hl.
  Qed.

  Definition opts_canon (l : list coptdef) : bool := forallb (fun o => copt_canon (oopt o)) l.
  Definition first_not_null (l : list coptdef) : bool :=
    match l with
    | [] => true
    | o :: _ => match oname o, oopt o with None, ONull => false | _, _ => true end
    end.

  Lemma popts_inv g : forall ts l r,
    popts d g ts = Ok (l, r) ->
    (opts_canon l = true -> forallb (coptdef_wf d) l = true) /\ suf r ts /\
    (Forall lexed ts -> opts_wesc l = false -> K ts = K (opts_toks l) ++ K r) /\
    (first_not_null l = false -> hkw ts = Some WNull).
  Proof.
    induction g as [|g IH]; intros ts l r H; cbn [popts] in H; [discriminate H|].
    destruct (is_kh WConstraint ts) eqn:Ec.
    - destruct (is_kh_cons _ _ Ec) as (t & ts' & -> & _ & Hkt). cbn [tl] in H.
      destruct (pident ts') as [[n r1]| | |] eqn:Ei; cbn [bind] in H; try discriminate H.
      apply pident_inv in Ei. destruct Ei as [-> Hn].
      destruct (popt d g r1) as [[[o|] r2]| | |] eqn:Eo; cbn [bind] in H; try discriminate H.
      destruct (popts d g r2) as [[l' r3]| | |] eqn:Er; cbn [bind] in H; try discriminate H.
      inversion H; subst. apply popt_inv in Eo. destruct Eo as (Ow & Os & Ok_ & _).
      apply IH in Er. destruct Er as (Lw & Ls & Lk & _).
      split; [|split; [|split]].
      + unfold opts_canon. cbn [forallb oopt]. intro Hc. apply andb_true_iff in Hc. destruct Hc as [Hc1 Hc2].
        unfold coptdef_wf at 1. cbn [oname oopt oword_wf]. rewrite Hn, (Ow Hc1). cbn [andb]. apply Lw. exact Hc2.
      + apply suf_cons, suf_cons. eapply suf_trans; eassumption.
      + unfold opts_wesc. cbn [existsb oopt]. intros Hl Hc. apply orb_false_iff in Hc. destruct Hc as [Hc1 Hc2].
        pose proof (Forall_lexed_tl _ _ (Forall_lexed_tl _ _ Hl)) as Hl1.
        rewrite (K_cons_drop t _ Hkt). cbn [opts_toks flat_map]. fold (opts_toks l'). unfold optdef_toks. cbn [oname oopt].
        rewrite !K_app, K_cname_toks. cbn [filter]. rewrite (Ok_ Hl1 Hc1).
        rewrite (Lk (suf_Forall _ _ _ Os Hl1) Hc2). destruct (keep n); cbn [app]; rewrite <- ?app_assoc; reflexivity.
      + cbn [first_not_null oname]. discriminate.
    - destruct (popt d g ts) as [[[o|] r2]| | |] eqn:Eo; cbn [bind] in H; try discriminate H.
      + destruct (popts d g r2) as [[l' r3]| | |] eqn:Er; cbn [bind] in H; try discriminate H.
        inversion H; subst. apply popt_inv in Eo. destruct Eo as (Ow & Os & Ok_ & On).
        apply IH in Er. destruct Er as (Lw & Ls & Lk & _).
        split; [|split; [|split]].
        * unfold opts_canon. cbn [forallb oopt]. intro Hc. apply andb_true_iff in Hc. destruct Hc as [Hc1 Hc2].
          unfold coptdef_wf at 1. cbn [oname oopt oword_wf]. rewrite (Ow Hc1). cbn [andb]. apply Lw. exact Hc2.
        * eapply suf_trans; eassumption.
        * unfold opts_wesc. cbn [existsb oopt]. intros Hl Hc. apply orb_false_iff in Hc. destruct Hc as [Hc1 Hc2].
          cbn [opts_toks flat_map]. fold (opts_toks l'). unfold optdef_toks. cbn [oname oopt cname_toks app].
          rewrite K_app, (Ok_ Hl Hc1), (Lk (suf_Forall _ _ _ Os Hl) Hc2), <- app_assoc. reflexivity.
        * cbn [first_not_null oname oopt]. destruct o; try discriminate. intros _. apply On. reflexivity.
      + destruct (is_kh WCollate ts && gate d ["mysql"; "generic"]%string); [discriminate H|].
        inversion H; subst. repeat split; try reflexivity; try apply suf_refl. discriminate.
  Qed.

  (** ** Column definitions *)
  Definition col_inv (ts : list dtok) (c : column_def) (r : list dtok) : Prop :=
    (exists x, ts = cname c :: x) /\ is_wordtok (cname c) = true /\
    (coldef_canon c = true -> forallb (coptdef_wf d) (coptions c) = true) /\
    (ctype c = DT.DUnspecified -> gate d ["sqlite"]%string = true /\ first_not_null (coptions c) = true) /\
    suf r ts /\
    (Forall lexed ts -> coldef_wesc c = false -> col_faithful c -> K ts = K (col_toks T c) ++ K r).

  Lemma dtype_nz l t r : dtype d l = Ok (t, r) -> t <> DT.DUnspecified.
  Proof.
    unfold dtype. destruct (DT.parse_dt T (dname d) (map tv l)) as [t0 tr0 r0|] eqn:E; [|discriminate].
    intro H. inversion H; subst. eapply parse_dt_nz; exact E.
  Qed.
  Lemma dtype_suf l t r : dtype d l = Ok (t, r) -> suf r l.
  Proof.
    unfold dtype. destruct (DT.parse_dt T (dname d) (map tv l)) as [t0 tr0 r0|]; [|discriminate].
    intro H. inversion H; subst. apply suf_skipn.
  Qed.

  Lemma sqlite_unspec_null ts : hkw ts = Some WNull -> sqlite_unspec d ts = false.
  Proof.
    destruct ts as [|t r]; [discriminate|]. cbn [hkw]. intro H. unfold sqlite_unspec.
    destruct (gate d ["sqlite"]%string); [|reflexivity]. cbn [andb]. rewrite H.
    unfold kwc in H. destruct (tv t); try discriminate H. reflexivity.
  Qed.

  Lemma pcoldef_inv g ts c r : pcoldef d g ts = Ok (c, r) -> col_inv ts c r.
  Proof.
    unfold pcoldef. intro H.
    destruct (pident ts) as [[n r0]| | |] eqn:Ei; cbn [bind] in H; try discriminate H.
    apply pident_inv in Ei. destruct Ei as [-> Hn].
    destruct (sqlite_unspec d r0) eqn:Eu.
    - cbn [bind] in H. destruct (is_kh WCollate r0); [discriminate H|].
      destruct (popts d g r0) as [[os r2]| | |] eqn:Eo; cbn [bind] in H; try discriminate H.
      inversion H; subst. apply popts_inv in Eo. destruct Eo as (Lw & Ls & Lk & Ln).
      unfold col_inv. cbn [cname ctype coptions]. split; [eexists; reflexivity|]. split; [exact Hn|].
      split; [exact Lw|]. split; [|split].
      + intros _. split.
        * unfold sqlite_unspec in Eu. apply andb_true_iff in Eu. tauto.
        * destruct (first_not_null os) eqn:Ef; [reflexivity|].
          rewrite (sqlite_unspec_null _ (Ln eq_refl)) in Eu. discriminate Eu.
      + apply suf_cons. exact Ls.
      + intros Hl Hc _. unfold col_toks. cbn [cname ctype coptions].
        change (type_toks T DT.DUnspecified) with (@nil dtok). cbn [app filter].
        rewrite (Lk (Forall_lexed_tl _ _ Hl) Hc). destruct (keep n); reflexivity.
    - destruct (dtype d r0) as [[ty r1]| | |] eqn:Et; cbn [bind] in H; try discriminate H.
      destruct (is_kh WCollate r1); [discriminate H|].
      destruct (popts d g r1) as [[os r2]| | |] eqn:Eo; cbn [bind] in H; try discriminate H.
      inversion H; subst. apply popts_inv in Eo. destruct Eo as (Lw & Ls & Lk & _).
      pose proof (dtype_nz _ _ _ Et) as Hnz. pose proof (dtype_suf _ _ _ Et) as Hts.
      unfold col_inv. cbn [cname ctype coptions]. split; [eexists; reflexivity|]. split; [exact Hn|].
      split; [exact Lw|]. split; [|split].
      + intro E. congruence.
      + apply suf_cons. eapply suf_trans; eassumption.
      + intros Hl Hc Hf. unfold col_toks. cbn [cname ctype coptions].
        assert (Hf' : ty_faithful ty).
        { unfold col_faithful in Hf. cbn [ctype] in Hf. destruct ty; try exact Hf. congruence. }
        pose proof (Forall_lexed_tl _ _ Hl) as Hl0.
        cbn [filter]. rewrite K_app. rewrite (Hf' _ _ Hl0 Et). rewrite (Lk (suf_Forall _ _ _ Hts Hl0) Hc).
        rewrite <- ?app_assoc. destruct (keep n); cbn [app]; rewrite <- ?app_assoc; reflexivity.
  Qed.

  (** ** Table constraints *)
  Definition tcb_canon (b : tcbody) : bool := match b with TCheck e => canonical e | _ => true end.
  Definition tcb_wf (b : tcbody) : bool :=
    match b with
    | TPrimaryKey cols | TUnique cols => cols1_wf d cols
    | TCheck e => dewf (dbase d) e
    | TForeignKey cols n rcols => cols1_wf d cols && name_wf n && cols1_wf d rcols
    end.
  Definition tcb_inv (ts : list dtok) (b : tcbody) (r : list dtok) : Prop :=
    (tcb_canon b = true -> tcb_wf b = true) /\ suf r ts /\
    (Forall lexed ts -> tcb_wesc b = false -> K ts = K (tcbody_toks b) ++ K r).

  Lemma pcollist_req g ts l r :
    pcollist d false g ts = Ok (l, r) -> cols1_wf d l = true /\ suf r ts /\ K ts = K l ++ K r.
  Proof.
    intro H. pose proof H as H0. apply pcollist_inv in H. destruct H as [(-> & -> & El)|H]; [|exact H].
    unfold pcollist in H0. rewrite El in H0. discriminate H0.
  Qed.

  Lemma ptcbody_inv g named ts b r : ptcbody d g named ts = Ok (b, r) ->
    match b with
    | None => r = ts /\ named = false /\
              match ts with t :: _ => cons_start d t = false \/ kwc t = Some WConstraint | [] => True end
    | Some b => tcb_inv ts b r
    end.
  Proof.
    destruct ts as [|t r0]; intro H; cbn [ptcbody] in H.
    - destruct named; [discriminate H|]. inversion H; subst. auto.
    - destruct (kwc t) as [k|] eqn:Ek.
      2:{ destruct named; [discriminate H|]. inversion H; subst. repeat split. left. unfold cons_start. rewrite Ek. reflexivity. }
      pose proof (keep_kwc _ _ Ek) as Hkt.
      assert (Hfb : forall (gt : bool), cons_start d t = gt ->
                (if gt then (if named then Err else OutOfFragment) else (if named then Err else Ok (None, t :: r0))) = Ok (b, r) \/
                (if gt && negb named then OutOfFragment else (if named then Err else Ok (None, t :: r0))) = Ok (b, r) ->
                match b with
                | None => r = t :: r0 /\ named = false /\ (cons_start d t = false \/ Some k = Some WConstraint)
                | Some b => tcb_inv (t :: r0) b r
                end).
      { intros gt Hg [H'|H']; destruct gt, named; cbn [andb negb] in H'; try discriminate H'; inversion H'; subst; auto. }
      destruct k; cbv beta iota in H;
        try (destruct named; [discriminate H|]; inversion H; subst; repeat split; first [left; unfold cons_start; rewrite Ek; reflexivity|right; first [exact Ek|reflexivity]]);
        try (apply (Hfb (gate d ["generic"; "mysql"]%string)); [unfold cons_start; rewrite Ek; reflexivity|auto]; fail).
      + (* UNIQUE *)
        destruct (hkw r0) as [k2|] eqn:Eh.
        1: destruct k2.
        all: cbv beta iota in H; try (destruct (gate d ["generic"; "mysql"]%string); discriminate H).
        all: destruct (ident_ahead r0); [discriminate H|];
          destruct (pcollist d false g r0) as [[cols r1]| | |] eqn:E; cbn [bind] in H; try discriminate H;
          destruct (idxopt_ahead r1 || cchar_ahead r1); [discriminate H|]; inversion H; subst;
          apply pcollist_req in E; destruct E as (Hc & Hs & Hk);
          (split; [intros _; exact Hc|]); (split; [apply suf_cons; exact Hs|]);
          intros _ _; cbn [tcbody_toks]; rewrite !K_cons_drop by (assumption || apply keep_kt);
          rewrite K_cols_toks; exact Hk.
      + (* PRIMARY KEY *)
        destruct (is_kh WKey r0) eqn:En; [|discriminate H].
        destruct (is_kh_cons _ _ En) as (t' & r' & -> & _ & Hk'). cbn [tl] in H.
        destruct (ident_ahead r'); [discriminate H|].
        destruct (pcollist d false g r') as [[cols r1]| | |] eqn:E; cbn [bind] in H; try discriminate H.
        destruct (idxopt_ahead r1 || cchar_ahead r1); [discriminate H|]. inversion H; subst.
        apply pcollist_req in E. destruct E as (Hc & Hs & Hk).
        split; [intros _; exact Hc|]. split; [apply suf_cons, suf_cons; exact Hs|].
        intros _ _. cbn [tcbody_toks]. rewrite !K_cons_drop by (assumption || apply keep_kt).
        rewrite K_cols_toks. exact Hk.
      + (* FOREIGN KEY *)
        destruct (is_kh WKey r0) eqn:En; [|discriminate H].
        destruct (is_kh_cons _ _ En) as (t' & r' & -> & _ & Hk'). cbn [tl] in H.
        destruct (pcollist d false g r') as [[cols r1]| | |] eqn:E; cbn [bind] in H; try discriminate H.
        destruct (is_kh WReferences r1) eqn:Er; [|discriminate H].
        destruct (is_kh_cons _ _ Er) as (t2 & r1' & -> & _ & Hk2). cbn [tl] in H.
        destruct (pobjname false g r1') as [[nm r2]| | |] eqn:E2; cbn [bind] in H; try discriminate H.
        destruct (pcollist d false g r2) as [[rcols r3]| | |] eqn:E3; cbn [bind] in H; try discriminate H.
        destruct (refact_ahead r3 || cchar_ahead r3); [discriminate H|]. inversion H; subst.
        apply pcollist_req in E. destruct E as (Hc & Hs & Hk).
        apply pobjname_inv in E2. destruct E2 as (Hn & Hs2 & Hkn).
        apply pcollist_req in E3. destruct E3 as (Hc3 & Hs3 & Hk3).
        split; [intros _; cbn [tcb_wf]; rewrite Hc, Hn, Hc3; reflexivity|]. split.
        * apply suf_cons, suf_cons. eapply suf_trans; [|exact Hs]. apply suf_cons.
          eapply suf_trans; [exact Hs3|exact Hs2].
        * intros _ _. cbn [tcbody_toks]. rewrite !K_cons_drop by (assumption || apply keep_kt).
          rewrite Hk, (K_cons_drop t2 _ Hk2), Hkn, Hk3. rewrite !K_app, K_cols_toks. cbn [filter].
          rewrite keep_kt, K_app, K_name_toks, K_cols_toks, <- !app_assoc. reflexivity.
      + (* CHECK (e) *)
        destruct (lparen_h r0) eqn:El; [|discriminate H].
        destruct r0 as [|p r0']; [discriminate El|]. cbn [lparen_h tl] in *.
        destruct (dexpr (dbase d) r0') as [[e r1]| | |] eqn:E; cbn [bind] in H; try discriminate H.
        unfold expect_rp in H. destruct r1 as [|c r2]; [discriminate H|].
        destruct (is_rparen c) eqn:Ec; [|discriminate H]. inversion H; subst.
        apply dexpr_inv in E. destruct E as (Hw & Hs & Hk).
        split; [exact Hw|]. split.
        * apply suf_cons, suf_cons. eapply suf_trans; [apply suf_cons, suf_refl|exact Hs].
        * intros Hl Hc. cbn [tcb_wesc] in Hc. cbn [tcbody_toks].
          rewrite (K_cons_drop t _ Hkt), (K_cons_drop p _ (keep_lparen p El)).
          rewrite (K_cons_drop _ _ (keep_kt WCheck)), (K_cons_drop _ _ (keep_lparen P_LParen eq_refl)).
          rewrite Hk by (eapply Forall_lexed_tl, Forall_lexed_tl; exact Hl).
          rewrite (K_cons_drop c _ (keep_rparen c Ec)). rewrite K_app, (K_ptoks e Hc). cbn [filter].
          rewrite (keep_rparen P_RParen eq_refl), app_nil_r. reflexivity.
  Qed.

  Definition tc_inv (ts : list dtok) (c : tconstraint) (r : list dtok) : Prop :=
    (tcons_canon c = true -> tcons_wf d c = true) /\ suf r ts /\
    (Forall lexed ts -> tcons_wesc c = false -> K ts = K (tcons_toks c) ++ K r).

  Lemma ptcons_inv g ts oc r : ptcons d g ts = Ok (oc, r) ->
    match oc with
    | None => r = ts /\ match ts with t :: _ => cons_start d t = false | [] => True end
    | Some c => tc_inv ts c r
    end.
  Proof.
    unfold ptcons. destruct (is_kh WConstraint ts) eqn:Ec; intro H.
    - destruct (is_kh_cons _ _ Ec) as (t & ts' & -> & _ & Hkt). cbn [tl] in H.
      destruct (pident ts') as [[n r1]| | |] eqn:Ei; cbn [bind] in H; try discriminate H.
      apply pident_inv in Ei. destruct Ei as [-> Hn].
      destruct (ptcbody d g true r1) as [[[b|] r2]| | |] eqn:Eb; cbn [bind] in H; try discriminate H.
      inversion H; subst. apply ptcbody_inv in Eb. destruct Eb as (Bw & Bs & Bk).
      unfold tc_inv, tcons_canon, tcons_wf, tcons_toks. cbn [tname tbody oword_wf]. split; [|split].
      + intro Hc. rewrite Hn. cbn [andb]. specialize (Bw Hc). destruct b; exact Bw.
      + apply suf_cons, suf_cons. exact Bs.
      + intros Hl Hc. rewrite (K_cons_drop t _ Hkt). rewrite K_app, K_cname_toks.
        cbn [filter]. rewrite (Bk (Forall_lexed_tl _ _ (Forall_lexed_tl _ _ Hl)) Hc).
        destruct (keep n); reflexivity.
    - destruct (ptcbody d g false ts) as [[[b|] r2]| | |] eqn:Eb; cbn [bind] in H; try discriminate H.
      + inversion H; subst. apply ptcbody_inv in Eb. destruct Eb as (Bw & Bs & Bk).
        unfold tc_inv, tcons_canon, tcons_wf, tcons_toks. cbn [tname tbody oword_wf cname_toks app]. split; [|split].
        * intro Hc. specialize (Bw Hc). destruct b; exact Bw.
        * exact Bs.
        * exact Bk.
      + inversion H; subst. apply ptcbody_inv in Eb. destruct Eb as (-> & _ & Hcs). split; [reflexivity|].
        destruct ts as [|t ts']; [exact I|]. destruct Hcs as [Hcs|Hcs]; [exact Hcs|].
        cbn [is_kh] in Ec. unfold is_k in Ec. rewrite Hcs in Ec. discriminate Ec.
  Qed.

  (** ** The element list *)
  Definition elem_canon (el : elem) : bool := match el with inl c => coldef_canon c | inr t => tcons_canon t end.
  Definition elem_wesc (el : elem) : bool := match el with inl c => coldef_wesc c | inr t => tcons_wesc t end.
  Definition elem_tyhyp (el : elem) : bool := match el with inl c => ctype_hyp d c | inr _ => true end.
  Definition elem_faithful (el : elem) : Prop := match el with inl c => col_faithful c | inr _ => True end.
  Definition elem_good (el : elem) : Prop :=
    elem_canon el = true -> elem_tyhyp el = true -> elem_wf d el = true.
  Definition elem_inv (ts : list dtok) (el : elem) (r : list dtok) : Prop :=
    elem_good el /\ suf r ts /\
    (Forall lexed ts -> elem_wesc el = false -> elem_faithful el -> K ts = K (elem_toks T el) ++ K r).

  Lemma coldef_wf_from ts c r x :
    col_inv ts c r -> ts = x :: tl ts -> cons_start d x = false ->
    coldef_canon c = true -> ctype_hyp d c = true -> coldef_wf d c = true.
  Proof.
    intros ((y & Ey) & Hn & Ho & Hu & _) Ex Hcs Hc Hty.
    assert (x = cname c) by (rewrite Ey in Ex; cbn [tl] in Ex; inversion Ex; reflexivity). subst x.
    unfold coldef_wf, coldef_wf_gen. rewrite Hn, Hcs, (Ho Hc). cbn [negb andb]. rewrite andb_true_r.
    unfold ctype_wf_gen. unfold ctype_hyp in Hty.
    destruct (ctype c) eqn:Ect; try exact Hty.
    destruct (Hu eq_refl) as [Hg Hf]. rewrite Hg. cbn [andb]. exact Hf.
  Qed.

  Lemma pelem_inv g ts el r : pelem d g ts = Ok (el, r) -> elem_inv ts el r.
  Proof.
    unfold pelem. intro H.
    destruct (ptcons d g ts) as [[[c|] r1]| | |] eqn:Ec; cbn [bind] in H; try discriminate H.
    - inversion H; subst. apply ptcons_inv in Ec. destruct Ec as (Cw & Cs & Ck).
      unfold elem_inv, elem_good. cbn [elem_canon elem_tyhyp elem_wf elem_faithful elem_toks].
      split; [intros Hc _; exact (Cw Hc)|]. split; [exact Cs|]. intros Hl Hc _. exact (Ck Hl Hc).
    - apply ptcons_inv in Ec. destruct Ec as (-> & Hcs).
      destruct ts as [|t ts']; [discriminate H|].
      assert (Hp : exists c, pcoldef d g (t :: ts') = Ok (c, r) /\ el = inl c).
      { destruct (tv t); try (destruct (is_foreign t); discriminate H);
          destruct (pcoldef d g (t :: ts')) as [[c r']| | |]; cbn [bind] in H; try discriminate H;
          inversion H; subst; eexists; split; reflexivity. }
      destruct Hp as (c & Hp & ->). apply pcoldef_inv in Hp.
      unfold elem_inv, elem_good. cbn [elem_canon elem_tyhyp elem_wf elem_faithful elem_toks].
      split; [|split].
      + intros Hc Hty. eapply coldef_wf_from; [exact Hp|reflexivity|exact Hcs|exact Hc|exact Hty].
      + destruct Hp as (_ & _ & _ & _ & Hs & _). exact Hs.
      + destruct Hp as (_ & _ & _ & _ & _ & Hk). exact Hk.
  Qed.

  Lemma split_elems_cons el els : split_elems (el :: els) = add_elem el (split_elems els).
  Proof. reflexivity. Qed.

  Definition elems_inv (ts : list dtok) (cc : list column_def * list tconstraint) (r : list dtok) : Prop :=
    exists els, cc = split_elems els /\ Forall elem_good els /\ suf r ts /\
      (Forall lexed ts -> existsb elem_wesc els = false -> Forall elem_faithful els ->
       K ts = K (concat (map (elem_toks T) els)) ++ K r).

  Lemma pelems_inv g : forall ts cc r, pelems d g ts = Ok (cc, r) -> elems_inv ts cc r.
  Proof.
    induction g as [|g IH]; intros ts cc r H; cbn [pelems] in H; [discriminate H|].
    destruct (pelem d g ts) as [[el r1]| | |] eqn:Ee; cbn [bind] in H; try discriminate H.
    apply pelem_inv in Ee. destruct Ee as (Eg & Es & Ek). cbv zeta in H.
    set (comma := match r1 with c :: _ => is_comma c | [] => false end) in *.
    set (r2 := if comma then tl r1 else r1) in *.
    assert (H2 : suf r2 r1 /\ K r1 = K r2).
    { unfold r2, comma. destruct r1 as [|c r1']; [split; [apply suf_refl|reflexivity]|].
      destruct (is_comma c) eqn:Ecm; [|split; [apply suf_refl|reflexivity]].
      cbn [tl]. split; [apply suf_cons, suf_refl|]. apply K_cons_drop, keep_comma, Ecm. }
    destruct H2 as [Hs2 Hk2].
    destruct (negb comma && negb (rparen_h r2)); [discriminate H|].
    destruct (rparen_h r2 && (negb comma || dtrailing d)) eqn:Eend.
    - inversion H; subst. apply andb_true_iff in Eend. destruct Eend as [Erp _].
      destruct r2 as [|c r2'] eqn:Er2; [discriminate Erp|]. cbn [rparen_h tl] in *.
      exists [el]. split; [reflexivity|]. split; [constructor; [exact Eg|constructor]|]. split.
      + eapply suf_trans; [|exact Es]. eapply suf_trans; [|exact Hs2]. apply suf_cons, suf_refl.
      + intros Hl Hc Hf. cbn [existsb] in Hc. apply orb_false_iff in Hc. destruct Hc as [Hc _].
        inversion Hf; subst. cbn [map concat]. rewrite app_nil_r.
        rewrite (Ek Hl Hc) by assumption. rewrite Hk2. rewrite (K_cons_drop c _ (keep_rparen c Erp)). reflexivity.
    - destruct (pelems d g r2) as [[cc' r3]| | |] eqn:Er; cbn [bind] in H; try discriminate H.
      inversion H; subst. apply IH in Er. destruct Er as (els & -> & Lg & Ls & Lk).
      exists (el :: els). split; [reflexivity|]. split; [constructor; assumption|]. split.
      + eapply suf_trans; [exact Ls|]. eapply suf_trans; [exact Hs2|exact Es].
      + intros Hl Hc Hf. cbn [existsb] in Hc. apply orb_false_iff in Hc. destruct Hc as [Hc Hcs].
        inversion Hf; subst. cbn [map concat]. rewrite K_app.
        rewrite (Ek Hl Hc) by assumption. rewrite Hk2.
        rewrite Lk; [rewrite <- app_assoc; reflexivity| |assumption|assumption].
        eapply suf_Forall; [|exact Hl]. eapply suf_trans; [exact Hs2|exact Es].
  Qed.

  Lemma pcolumns_inv g ts cc r : pcolumns d g ts = Ok (cc, r) -> elems_inv ts cc r.
  Proof.
    unfold pcolumns. destruct (lparen_h ts) eqn:El.
    - destruct ts as [|p ts']; [discriminate El|]. cbn [lparen_h tl] in *.
      destruct (rparen_h ts') eqn:Er.
      + intro H. inversion H; subst. destruct ts' as [|c ts'']; [discriminate Er|]. cbn [rparen_h tl] in *.
        exists []. split; [reflexivity|]. split; [constructor|]. split; [apply suf_cons, suf_cons, suf_refl|].
        intros _ _ _. cbn [map concat filter app]. rewrite (keep_lparen p El), (keep_rparen c Er). reflexivity.
      + intro H. apply pelems_inv in H. destruct H as (els & -> & Lg & Ls & Lk).
        exists els. split; [reflexivity|]. split; [exact Lg|]. split; [apply suf_cons; exact Ls|].
        intros Hl Hc Hf. rewrite (K_cons_drop p _ (keep_lparen p El)). apply Lk; [|assumption|assumption].
        eapply Forall_lexed_tl; exact Hl.
    - intro H. inversion H; subst. exists []. split; [reflexivity|]. split; [constructor|]. split; [apply suf_refl|].
      intros _ _ _. reflexivity.
  Qed.

  (** ** The statement *)
  Lemma opt1_inv k ts b r : opt1 k ts = (b, r) -> suf r ts /\ K ts = K r.
  Proof.
    unfold opt1. destruct (is_kh k ts) eqn:E; intro H; inversion H; subst; [|split; [apply suf_refl|reflexivity]].
    destruct (is_kh_cons _ _ E) as (t & r' & -> & _ & Hk). cbn [tl].
    split; [apply suf_cons, suf_refl|apply K_cons_drop; exact Hk].
  Qed.
  Lemma opt2_inv k1 k2 ts b r : opt2 k1 k2 ts = (b, r) -> suf r ts /\ K ts = K r.
  Proof.
    unfold opt2. destruct (is_kh k1 ts && is_kh k2 (tl ts)) eqn:E; intro H; inversion H; subst; [|split; [apply suf_refl|reflexivity]].
    apply andb_true_iff in E. destruct E as [E1 E2].
    destruct (is_kh_cons _ _ E1) as (t & r' & -> & _ & Hk). cbn [tl] in *.
    destruct (is_kh_cons _ _ E2) as (t2 & r2 & -> & _ & Hk2). cbn [tl].
    split; [apply suf_cons, suf_cons, suf_refl|rewrite !K_cons_drop by assumption; reflexivity].
  Qed.
  Lemma opt3_inv k1 k2 k3 ts b r : opt3 k1 k2 k3 ts = (b, r) -> suf r ts /\ K ts = K r.
  Proof.
    unfold opt3. destruct (is_kh k1 ts && is_kh k2 (tl ts) && is_kh k3 (tl (tl ts))) eqn:E; intro H; inversion H; subst;
      [|split; [apply suf_refl|reflexivity]].
    apply andb_true_iff in E. destruct E as [E E3]. apply andb_true_iff in E. destruct E as [E1 E2].
    destruct (is_kh_cons _ _ E1) as (t & r' & -> & _ & Hk). cbn [tl] in *.
    destruct (is_kh_cons _ _ E2) as (t2 & r2 & -> & _ & Hk2). cbn [tl] in *.
    destruct (is_kh_cons _ _ E3) as (t3 & r3 & -> & _ & Hk3). cbn [tl].
    split; [apply suf_cons, suf_cons, suf_cons, suf_refl|rewrite !K_cons_drop by assumption; reflexivity].
  Qed.

  Definition tbl_inv (ts : list dtok) (c : create_table) (rest : list dtok) : Prop :=
    exists els, (columns c, constraints c) = split_elems els /\ name_wf (tbl_name c) = true /\
      Forall elem_good els /\ suf rest ts /\
      (Forall lexed ts -> existsb elem_wesc els = false -> Forall elem_faithful els ->
       K ts = K (tbl_name c) ++ K (concat (map (elem_toks T) els)) ++ K rest).

  Lemma ptable_inv fuel orr tmp ts c rest : ptable d fuel orr tmp ts = Ok (c, rest) -> tbl_inv ts c rest.
  Proof.
    unfold ptable. destruct (opt3 WIf WNot WExists ts) as [ine r1] eqn:E3. intro H.
    apply opt3_inv in E3. destruct E3 as [S1 K1].
    destruct (pobjname (gate d ["bigquery"]%string) fuel r1) as [[nm r2]| | |] eqn:En; cbn [bind] in H; try discriminate H.
    destruct (is_kh WOn r2 && is_kh WCluster (tl r2)); [discriminate H|].
    destruct (is_kh WLike r2 || is_kh WILike r2 || is_kh WClone r2); [discriminate H|].
    destruct (pcolumns d fuel r2) as [[cc r3]| | |] eqn:Ec; cbn [bind] in H; try discriminate H.
    destruct (clause_ahead r3); [discriminate H|]. inversion H; subst. clear H.
    apply pobjname_inv in En. destruct En as (Hn & S2 & K2).
    apply pcolumns_inv in Ec. destruct Ec as (els & -> & Lg & S3 & K3).
    exists els. cbn [columns constraints tbl_name]. split; [destruct (split_elems els); reflexivity|].
    split; [exact Hn|]. split; [exact Lg|]. split.
    - eapply suf_trans; [exact S3|]. eapply suf_trans; [exact S2|exact S1].
    - intros Hl Hc Hf. rewrite K1, K2. f_equal. apply K3; [|assumption|assumption].
      eapply suf_Forall; [|exact Hl]. eapply suf_trans; [exact S2|exact S1].
  Qed.

  Lemma parse_create_inv fuel ts c rest :
    parse_create_table_core d fuel ts = Ok (c, rest) -> tbl_inv ts c rest.
  Proof.
    unfold parse_create_table_core. destruct (gate d ["snowflake"]%string); [discriminate|].
    destruct (is_kh WCreate ts) eqn:Ecr; [|discriminate].
    destruct (is_kh_cons _ _ Ecr) as (t0 & ts0 & -> & _ & Hk0). cbn [tl].
    destruct (opt2 WOr WReplace ts0) as [orr r1] eqn:E1.
    destruct (opt2 WOr WAlter r1) as [ora r2] eqn:E2.
    destruct (opt1 WLocal r2) as [loc r3] eqn:E3.
    destruct (opt1 WGlobal r3) as [glo r4] eqn:E4.
    destruct (opt1 WTransient r4) as [tra r5] eqn:E5.
    apply opt2_inv in E1. apply opt2_inv in E2. apply opt1_inv in E3. apply opt1_inv in E4. apply opt1_inv in E5.
    destruct E1 as [S1 K1], E2 as [S2 K2], E3 as [S3 K3], E4 as [S4 K4], E5 as [S5 K5].
    destruct (loc && glo); [discriminate|].
    assert (H6 : exists tmp r6, (if is_kh WTemp r5 || is_kh WTemporary r5 then (true, tl r5) else (false, r5)) = (tmp, r6) /\
                                suf r6 r5 /\ K r5 = K r6).
    { destruct (is_kh WTemp r5 || is_kh WTemporary r5) eqn:Et; [|exists false, r5; repeat split; apply suf_refl].
      exists true, (tl r5). split; [reflexivity|]. split; [apply suf_tl|].
      apply orb_true_iff in Et. destruct Et as [Et|Et]; destruct (is_kh_cons _ _ Et) as (t & r' & -> & _ & Hk);
        cbn [tl]; apply K_cons_drop; exact Hk. }
    destruct H6 as (tmp & r6 & -> & S6 & K6).
    assert (H7 : exists per r7, (if gate d ["duckdb"]%string then opt1 WPersistent r6 else (false, r6)) = (per, r7) /\
                                suf r7 r6 /\ K r6 = K r7).
    { destruct (gate d ["duckdb"]%string); [|exists false, r6; repeat split; apply suf_refl].
      destruct (opt1 WPersistent r6) as [per r7] eqn:E7. exists per, r7. split; [reflexivity|]. apply opt1_inv in E7. exact E7. }
    destruct H7 as (per & r7 & -> & S7 & K7).
    destruct r7 as [|t7 r7']; [discriminate|].
    destruct (is_kh WTable (t7 :: r7')) eqn:Etb; [|discriminate].
    destruct (ora || per); [discriminate|]. destruct (loc || glo || tra); [discriminate|].
    cbn [tl]. intro H. apply ptable_inv in H. destruct H as (els & Hsp & Hn & Lg & Ls & Lk).
    assert (Sall : suf (t7 :: r7') ts0).
    { eapply suf_trans; [exact S7|]. eapply suf_trans; [exact S6|]. eapply suf_trans; [exact S5|].
      eapply suf_trans; [exact S4|]. eapply suf_trans; [exact S3|]. eapply suf_trans; [exact S2|exact S1]. }
    exists els. split; [exact Hsp|]. split; [exact Hn|]. split; [exact Lg|]. split.
    - apply suf_cons. eapply suf_trans; [|exact Sall]. apply suf_cons. exact Ls.
    - intros Hl Hc Hf. rewrite (K_cons_drop t0 _ Hk0), K1, K2, K3, K4, K5, K6, K7.
      cbn [is_kh] in Etb. rewrite (K_cons_drop t7 _ (keep_k _ _ Etb)). apply Lk; [|assumption|assumption].
      eapply suf_Forall; [|exact Hl]. apply suf_cons. eapply suf_trans; [|exact Sall]. apply suf_cons, suf_refl.
  Qed.

  (** ** The printed statement *)
  (** the statement printed with its elements in the order of the input (Display prints the columns first) *)
  Definition dtoks_in (c : create_table) (els : list elem) : list dtok :=
    head_toks c ++ P_LParen :: dsepc (map (elem_toks T) els) ++ [P_RParen].

  Lemma dtoks_in_elems_of c : dtoks_in c (elems_of c) = dtoks T c.
  Proof.
    unfold dtoks_in, dtoks, elems_toks, elems_of. rewrite map_app, !map_map. reflexivity.
  Qed.

  Lemma K_head_toks c : K (head_toks c) = K (tbl_name c).
  Proof.
    unfold head_toks. destruct (or_replace c), (temporary c), (if_not_exists c); cbn [app];
      rewrite ?K_app; cbn [filter]; rewrite ?keep_kt; cbn [app]; apply K_name_toks.
  Qed.

  Lemma K_dtoks_in c els : K (dtoks_in c els) = K (tbl_name c) ++ K (concat (map (elem_toks T) els)).
  Proof.
    unfold dtoks_in. rewrite K_app, K_head_toks. f_equal. cbn [filter].
    rewrite (keep_lparen P_LParen eq_refl), K_app, K_dsepc. cbn [filter].
    rewrite (keep_rparen P_RParen eq_refl), app_nil_r. reflexivity.
  Qed.

  Lemma K_split_perm els :
    Permutation (K (concat (map (elem_toks T) els)))
                (K (concat (map (elem_toks T) (map inl (fst (split_elems els)) ++ map inr (snd (split_elems els)))))).
  Proof.
    induction els as [|el els IH]; [apply perm_nil|].
    rewrite split_elems_cons. destruct (split_elems els) as [cols cons]. cbn [fst snd] in *.
    destruct el as [c|t]; cbn [add_elem fst snd map concat app]; rewrite !K_app.
    - apply Permutation_app_head. exact IH.
    - rewrite map_app, concat_app, K_app in *. cbn [map concat]. rewrite K_app.
      eapply Permutation_trans; [apply Permutation_app_head; exact IH|]. apply Permutation_app_swap_app.
  Qed.

  Lemma split_elems_inl els : forall c, In c (fst (split_elems els)) <-> In (inl c) els.
  Proof.
    induction els as [|el els IH]; intro c; [cbn; tauto|].
    rewrite split_elems_cons. destruct el as [c0|t0]; cbn [add_elem fst In]; rewrite IH.
    - split; intros [H|H]; [left; congruence|right; exact H|left; inversion H; reflexivity|right; exact H].
    - split; [intro H; right; exact H|intros [H|H]; [discriminate H|exact H]].
  Qed.
  Lemma split_elems_inr els : forall t, In t (snd (split_elems els)) <-> In (inr t) els.
  Proof.
    induction els as [|el els IH]; intro t; [cbn; tauto|].
    rewrite split_elems_cons. destruct el as [c0|t0]; cbn [add_elem snd In]; rewrite IH.
    - split; [intro H; right; exact H|intros [H|H]; [discriminate H|exact H]].
    - split; intros [H|H]; [left; congruence|right; exact H|left; inversion H; reflexivity|right; exact H].
  Qed.

  Lemma els_canon c els : (columns c, constraints c) = split_elems els -> dcanonical c = true -> forallb elem_canon els = true.
  Proof.
    intros Hs Hc. unfold dcanonical in Hc. apply andb_true_iff in Hc. destruct Hc as [H1 H2].
    rewrite forallb_forall in *. intros [c0|t0] Hin; cbn [elem_canon].
    - apply H1. apply split_elems_inl in Hin. rewrite <- Hs in Hin. exact Hin.
    - apply H2. apply split_elems_inr in Hin. rewrite <- Hs in Hin. exact Hin.
  Qed.
  Lemma els_wesc c els : (columns c, constraints c) = split_elems els -> dword_escape c = false -> existsb elem_wesc els = false.
  Proof.
    intros Hs Hc. unfold dword_escape in Hc. apply orb_false_iff in Hc. destruct Hc as [H1 H2].
    destruct (existsb elem_wesc els) eqn:E; [|reflexivity]. apply existsb_exists in E. destruct E as ([c0|t0] & Hin & Hx); cbn [elem_wesc] in Hx.
    - apply split_elems_inl in Hin. rewrite <- Hs in Hin. cbn [fst] in Hin.
      assert (existsb coldef_wesc (columns c) = true) by (apply existsb_exists; eauto). congruence.
    - apply split_elems_inr in Hin. rewrite <- Hs in Hin. cbn [snd] in Hin.
      assert (existsb tcons_wesc (constraints c) = true) by (apply existsb_exists; eauto). congruence.
  Qed.
  Lemma els_faithful c els :
    (columns c, constraints c) = split_elems els -> Forall col_faithful (columns c) -> Forall elem_faithful els.
  Proof.
    intros Hs Hf. rewrite Forall_forall in *. intros [c0|t0] Hin; cbn [elem_faithful]; [|exact I].
    apply Hf. apply split_elems_inl in Hin. rewrite <- Hs in Hin. exact Hin.
  Qed.

  (** * The theorems *)
  (** 1. Outputs are well-formed: whatever the model parser returns satisfies [dwf], the hypothesis of
      [ddl_roundtrip], provided its DEFAULT / CHECK expressions are in canonical spelling (as in [C01_core]) and
      its column types are in the proved part of the data type round trip ([ctype_hyp]) *)
  Theorem ddl_outputs_wf_k fuel ts c rest :
    parse_create_table_core d fuel ts = Ok (c, rest) ->
    dcanonical c = true -> dtypes_hyp d c = true -> dwf d c = true.
  Proof.
    intros H Hc Hty. apply parse_create_inv in H. destruct H as (els & Hs & Hn & Lg & _).
    unfold dwf, dwf_gen. rewrite Hn. cbn [andb].
    pose proof (els_canon c els Hs Hc) as Hce. rewrite forallb_forall in Hce. rewrite Forall_forall in Lg.
    apply andb_true_iff. split; apply forallb_forall.
    - intros c0 Hin. assert (Hi : In (inl c0) els) by (apply split_elems_inl; rewrite <- Hs; exact Hin).
      apply (Lg _ Hi); [apply Hce; exact Hi|]. cbn [elem_tyhyp]. unfold dtypes_hyp in Hty. rewrite forallb_forall in Hty.
      apply Hty. exact Hin.
    - intros t0 Hin. assert (Hi : In (inr t0) els) by (apply split_elems_inr; rewrite <- Hs; exact Hin).
      apply (Lg _ Hi); [apply Hce; exact Hi|reflexivity].
  Qed.

  (** 2. Token preservation (the model-level C05): the content tokens of an accepted token list are those of
      the result printed with its elements in input order, followed by those of the rest — in order *)
  Theorem ddl_content_ordered fuel ts c rest :
    parse_create_table_core d fuel ts = Ok (c, rest) ->
    Forall lexed ts -> dword_escape c = false -> Forall col_faithful (columns c) ->
    exists els, (columns c, constraints c) = split_elems els /\ K ts = K (dtoks_in c els ++ rest).
  Proof.
    intros H Hl Hc Hf. apply parse_create_inv in H. destruct H as (els & Hs & _ & _ & _ & Lk).
    exists els. split; [exact Hs|]. rewrite K_app, K_dtoks_in, <- app_assoc.
    apply Lk; [exact Hl|eapply els_wesc; eassumption|eapply els_faithful; eassumption].
  Qed.

  (** ... and the content of the printed statement itself is a permutation of it: Display prints the column
      definitions before the table constraints ([ddl_content_order_refuted] in Properties/C05.v) *)
  Theorem ddl_content fuel ts c rest :
    parse_create_table_core d fuel ts = Ok (c, rest) ->
    Forall lexed ts -> dword_escape c = false -> Forall col_faithful (columns c) ->
    Permutation (K ts) (K (dtoks T c ++ rest)).
  Proof.
    intros H Hl Hc Hf. destruct (ddl_content_ordered _ _ _ _ H Hl Hc Hf) as (els & Hs & E).
    rewrite E, !K_app. apply Permutation_app_tail.
    rewrite <- dtoks_in_elems_of, !K_dtoks_in. apply Permutation_app_head.
    unfold elems_of. replace (columns c) with (fst (split_elems els)) by (rewrite <- Hs; reflexivity).
    replace (constraints c) with (snd (split_elems els)) by (rewrite <- Hs; reflexivity).
    apply K_split_perm.
  Qed.

  (** equality when no table constraint precedes a column definition in the input *)
  Theorem ddl_content_columns_first fuel ts c rest :
    parse_create_table_core d fuel ts = Ok (c, rest) ->
    Forall lexed ts -> dword_escape c = false -> Forall col_faithful (columns c) ->
    exists els, (columns c, constraints c) = split_elems els /\ (els = elems_of c -> K ts = K (dtoks T c ++ rest)).
  Proof.
    intros H Hl Hc Hf. destruct (ddl_content_ordered _ _ _ _ H Hl Hc Hf) as (els & Hs & E).
    exists els. split; [exact Hs|]. intros ->. rewrite dtoks_in_elems_of in E. exact E.
  Qed.

  (** 3. Parse -> print -> parse is a fixpoint for accepted token lists (1 + [ddl_roundtrip]).  The syntactic
      fragment test [dfrag] on the printed tokens stays a hypothesis: it is conservative (false for some
      parser outputs, [C01_ddl_output_dfrag_refuted]) and its [no_gtgt] half is the genuine restriction behind
      the known finding ddl:angle-close:pg-triple-gt *)
  Theorem ddl_fixpoint_k fuel ts c rest :
    parse_create_table_core d fuel ts = Ok (c, rest) ->
    dcanonical c = true -> dtypes_hyp d c = true -> dfrag d c rest = true -> dender rest = true ->
    forall fuel', (length (dtoks T c ++ rest) < fuel')%nat ->
    parse_create_table_core d fuel' (dtoks T c ++ rest) = Ok (c, rest).
  Proof.
    intros H Hc Hty Hf He fuel' Hlen. apply (ddl_roundtrip d Hd); auto. eapply ddl_outputs_wf_k; eassumption.
  Qed.

  (** for a whole accepted input ([Parser::parse_sql] on one statement): the printed statement parses back *)
  Theorem ddl_fixpoint_top_k ts c :
    parse_ddl_top d ts = Ok c ->
    dcanonical c = true -> dtypes_hyp d c = true -> dfrag d c [] = true ->
    parse_create_table_core d (S (length (dtoks T c))) (dtoks T c ++ []) = Ok (c, []).
  Proof.
    unfold parse_ddl_top. destruct (existsb is_foreign ts); [discriminate|].
    destruct (parse_create_table_core d (S (length ts)) ts) as [[c0 r]| | |] eqn:E; cbn [bind]; try discriminate.
    destruct (forallb is_semi r); [|discriminate]. intros H Hc Hty Hf. inversion H; subst c0.
    apply (ddl_roundtrip d Hd); auto.
    - eapply ddl_outputs_wf_k; eassumption.
    - rewrite app_nil_r. lia.
  Qed.
End Inv.

(** the statements that do not mention the content predicate, without it *)
Definition keep_none (_ : dtok) : bool := false.
Lemma keep_none_kw : forall t, kwc t <> None -> keep_none t = false.
Proof. reflexivity. Qed.
Lemma keep_none_lit : forall t, keep_none t = true -> is_lit (tv t) = true.
Proof. discriminate. Qed.

Theorem ddl_outputs_wf d fuel ts c rest :
  ddialect_ok d = true ->
  parse_create_table_core d fuel ts = Ok (c, rest) ->
  dcanonical c = true -> dtypes_hyp d c = true -> dwf d c = true.
Proof. intro Hd. exact (ddl_outputs_wf_k d Hd keep_none keep_none_kw keep_none_lit fuel ts c rest). Qed.

Theorem ddl_fixpoint d fuel ts c rest :
  ddialect_ok d = true ->
  parse_create_table_core d fuel ts = Ok (c, rest) ->
  dcanonical c = true -> dtypes_hyp d c = true -> dfrag d c rest = true -> dender rest = true ->
  forall fuel', (length (dtoks (dtab d) c ++ rest) < fuel')%nat ->
  parse_create_table_core d fuel' (dtoks (dtab d) c ++ rest) = Ok (c, rest).
Proof. intro Hd. exact (ddl_fixpoint_k d Hd keep_none keep_none_kw keep_none_lit fuel ts c rest). Qed.

Theorem ddl_fixpoint_top d ts c :
  ddialect_ok d = true ->
  parse_ddl_top d ts = Ok c ->
  dcanonical c = true -> dtypes_hyp d c = true -> dfrag d c [] = true ->
  parse_create_table_core d (S (length (dtoks (dtab d) c))) (dtoks (dtab d) c ++ []) = Ok (c, []).
Proof. intro Hd. exact (ddl_fixpoint_top_k d Hd keep_none keep_none_kw keep_none_lit ts c). Qed.

(** a tree in canonical spelling is its own normal form *)
Lemma dcanonical_norm c : dcanonical c = true -> ct_norm c = c.
Proof.
  intro H. unfold dcanonical in H. apply andb_true_iff in H. destruct H as [H1 H2].
  destruct c as [orr tmp ine nm cols cons]. unfold ct_norm. cbn [or_replace temporary if_not_exists tbl_name columns constraints] in *.
  f_equal.
  - rewrite <- (map_id cols) at 2. apply map_ext_in. intros col Hin. rewrite forallb_forall in H1. specialize (H1 col Hin).
    destruct col as [n ty os]. unfold coldef_norm, coldef_canon in *. cbn [cname ctype coptions] in *. f_equal.
    rewrite <- (map_id os) at 2. apply map_ext_in. intros o Ho. rewrite forallb_forall in H1. specialize (H1 o Ho).
    destruct o as [on oo]. cbn [oname oopt] in *. f_equal.
    destruct oo; cbn [copt_norm copt_canon] in *; try reflexivity; rewrite (norm_canonical _ H1); reflexivity.
  - rewrite <- (map_id cons) at 2. apply map_ext_in. intros t Hin. rewrite forallb_forall in H2. specialize (H2 t Hin).
    destruct t as [tn tb]. unfold tcons_norm, tcons_canon in *. cbn [tname tbody] in *. f_equal.
    destruct tb; try reflexivity. rewrite (norm_canonical _ H2). reflexivity.
Qed.

(** * The content predicate of the property: literal-like tokens that are not keywords, for a keyword list
    that contains the keywords the statement level tests for (e.g. the crate's ALL_KEYWORDS) *)
Definition content_tok (kws : list str) (t : dtok) : bool :=
  match tv t with
  | DT.TWord w => negb (DT.mem_str (ascii_upper w) kws)
  | DT.TQWord _ _ | DT.TNum _ | DT.TStr _ => true
  | _ => false
  end.
Definition kws_ok (kws : list str) : bool := forallb (fun k => DT.mem_str (dkw_text k) kws) all_dkw.

Lemma find_dkw_In l u k : find_dkw l u = Some k -> In k l.
Proof.
  induction l as [|x l IH]; cbn [find_dkw]; [discriminate|].
  destruct (str_eqb (dkw_text x) u); [intro H; inversion H; left; reflexivity|intro H; right; auto].
Qed.

Lemma content_tok_kw kws : kws_ok kws = true -> forall t, kwc t <> None -> content_tok kws t = false.
Proof.
  intros Hk t Ht. unfold kwc, content_tok in *. destruct (tv t); try congruence.
  destruct (find_dkw all_dkw (ascii_upper w)) as [k|] eqn:E; [|congruence].
  unfold kws_ok in Hk. rewrite forallb_forall in Hk. specialize (Hk k (find_dkw_In _ _ _ E)).
  rewrite (find_dkw_text _ _ _ E) in Hk. rewrite Hk. reflexivity.
Qed.
Lemma content_tok_lit kws t : content_tok kws t = true -> is_lit (tv t) = true.
Proof. unfold content_tok, is_lit. destruct (tv t); auto. Qed.
