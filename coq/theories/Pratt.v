(** C04 — executable token-level model of [Parser::parse_subexpr] / [get_next_precedence] /
    [parse_prefix] / [parse_infix] (src/parser/mod.rs, src/dialect/mod.rs) restricted to the
    operator core, parametric in the dialect's dumped binding powers.  Model only; the theorems
    are in PrattProofs.v.  The control flow follows the Rust code branch by branch so that a
    mutation of the code shows up as a disagreement with this model. *)
From SqlV Require Import Base PrecSpec.

(** What the model needs to know about a dialect; every field is regenerated from the running
    crate (coq/gen/PrecTables.v). *)
Record dialect := {
  lvl : N -> N;               (* key -> binding power: prec_value / get_next_precedence dumps *)
  binop : N -> bool;          (* parse_infix has a regular binary operator for token key k *)
  cmpop : N -> bool;          (* ... and it is one of = <> < <= > >= (allowed before ANY/ALL/SOME) *)
  is_pg : bool;               (* dialect_of!(PostgreSqlDialect): prefix !! |/ ||/ @ ~ *)
  lambda : bool;              (* supports_lambda_functions *)
  in_empty_list : bool;       (* supports_in_empty_list *)
  mysql_div : bool;           (* Dialect::parse_infix override parsing DIV (MySQL) *)
  subscript : bool;           (* '[' is parse_subscript (PostgreSQL, DuckDB, Generic) *)
  isdf_fixed : bool;          (* IS [NOT] DISTINCT FROM parses its operand with parse_subexpr(precedence) *)
  div_fixed : bool            (* MySQL DIV parses its operand with parse_subexpr(precedence) *)
}.

Definition flags_of (d : dialect) : flags := {| isdf_ok := isdf_fixed d; div_ok := div_fixed d |}.

Inductive res (A : Type) := Ok (a : A) | Err | OutOfFragment | OutOfFuel.
Arguments Ok {A}. Arguments Err {A}. Arguments OutOfFragment {A}. Arguments OutOfFuel {A}.

Definition bind {A B} (r : res A) (f : A -> res B) : res B :=
  match r with Ok a => f a | Err => Err | OutOfFragment => OutOfFragment | OutOfFuel => OutOfFuel end.

(** [get_next_precedence_default]: which key's power the next token (sequence) has. *)
Definition np_key (ts : list tok) : N :=
  match ts with
  | TOp k :: _ => k
  | TKw KIs :: _ => K_IS
  | TKw KIn :: _ => K_IN
  | TKw KBetween :: _ => K_BETWEEN
  | TKw KLike :: _ => K_LIKE
  | TKw KILike :: _ => K_ILIKE
  | TKw KSimilar :: _ => K_SIMILAR
  | TKw KRLike :: _ => K_RLIKE
  | TKw KRegexp :: _ => K_REGEXP
  | TKw KNot :: TKw KIn :: _ => K_NOT_IN
  | TKw KNot :: TKw KBetween :: _ => K_NOT_BETWEEN
  | TKw KNot :: TKw KLike :: _ => K_NOT_LIKE
  | TKw KNot :: TKw KILike :: _ => K_NOT_ILIKE
  | TKw KNot :: TKw KSimilar :: _ => K_NOT_SIMILAR
  | TKw KNot :: TKw KRLike :: _ => K_NOT_RLIKE
  | TKw KNot :: TKw KRegexp :: _ => K_NOT_REGEXP
  | TKw KAt :: TKw KTime :: TKw KZone :: _ => K_ATTZ
  | TKw KDiv :: _ => K_DIV
  | TKw KOperator :: _ => K_OPERATOR
  | TDoubleColon :: _ => K_DCOLON
  | TExcl :: _ => K_EXCL
  | TLBracket :: _ => K_LBRACKET
  | TColon :: _ => K_COLON
  | _ => K_UNKNOWN
  end.

Definition is_other (t : tok) : bool := match t with TOther => true | _ => false end.
Definition is_quant (w : kwd) : bool := match w with KAny | KAll | KSome => true | _ => false end.
Definition is_word_op (k : N) : bool := (k =? K_AND) || (k =? K_OR) || (k =? K_XOR).

(** [( a, b ) ->] : try_parse_lambda would succeed *)
Fixpoint lambda_ahead (ts : list tok) : bool :=
  match ts with
  | TAtom false _ :: TRParen :: TOp k :: _ => k =? K_Arrow
  | TAtom false _ :: TComma :: r => lambda_ahead r
  | _ => false
  end.

(** operand levels of the two constructs with a known finding: as the code does today
    ([parse_expr], i.e. the unknown level) or, once repaired, [parse_subexpr(precedence)] *)
Definition isdf_level (d : dialect) (q : N) : N := if isdf_fixed d then q else lvl d K_UNKNOWN.
Definition div_level (d : dialect) (q : N) : N := if div_fixed d then q else lvl d K_UNKNOWN.

Section Model.
  Variable d : dialect.
  Notation L := (lvl d).
  Definition np (ts : list tok) : N := L (np_key ts).

  (** the recursive call: [parse_subexpr] one level down *)
  Variable rec : N -> list tok -> res (expr * list tok).

  (** [parse_comma_separated(Parser::parse_expr)] (trailing commas off) *)
  Fixpoint parse_list (g : nat) (ts : list tok) : res (list expr * list tok) :=
    match g with
    | O => OutOfFuel
    | S g' =>
        bind (rec (L K_UNKNOWN) ts) (fun '(e, r) =>
          match r with
          | TComma :: r' => bind (parse_list g' r') (fun '(l, r'') => Ok (e :: l, r''))
          | _ => Ok ([e], r)
          end)
    end.

  Definition expect_rparen {A} (r : list tok) (k : list tok -> res A) : res A :=
    match r with TRParen :: r' => k r' | _ => Err end.

  (** [parse_prefix] *)
  Definition parse_prefix (ts : list tok) : res (expr * list tok) :=
    match ts with
    | TAtom s n :: r =>
        match r with
        | TLParen :: _ => if s then Ok (EAtom s n, r) else OutOfFragment      (* function call *)
        | TOp k :: _ => if negb s && lambda d && (k =? K_Arrow) then OutOfFragment else Ok (EAtom s n, r)
        | TAtom true _ :: _ => if s then Ok (EAtom s n, r) else OutOfFragment  (* introducer / typed string *)
        | _ => Ok (EAtom s n, r)
        end
    | TLParen :: r =>
        if lambda d && lambda_ahead r then OutOfFragment else
        bind (parse_list (S (length r)) r) (fun '(l, r1) =>
          expect_rparen r1 (fun r2 =>
            match l with
            | [x] => Ok (ENested x, r2)
            | _ => Ok (ETuple l, r2)
            end))
    | TOp k :: r =>
        if (k =? K_Plus) || (k =? K_Minus) then
          bind (rec (L C_MulDivModOp) r) (fun '(e, r1) => Ok (EPre k e, r1))
        else if (k =? K_Tilde) && is_pg d then
          bind (rec (L C_PlusMinus) r) (fun '(e, r1) => Ok (EPre k e, r1))
        else if is_word_op k then OutOfFragment        (* a keyword read as an identifier *)
        else Err
    | TPre k :: r =>
        if (k =? K_Plus) || (k =? K_Minus) || (k =? K_Tilde) then OutOfFragment   (* not a prefix-only token *)
        else if is_pg d then bind (rec (L C_PlusMinus) r) (fun '(e, r1) => Ok (EPre k e, r1))
        else OutOfFragment
    | TKw KNot :: r =>
        bind (rec (L C_UnaryNot) r) (fun '(e, r1) => Ok (ENot e, r1))
    | TKw _ :: _ => OutOfFragment                      (* literal keywords / keyword as identifier *)
    | TType _ :: _ => OutOfFragment
    | TLBracket :: _ | TColon :: _ | TOther :: _ => OutOfFragment
    | TRParen :: _ | TComma :: _ | TDoubleColon :: _ | TExcl :: _ | TRBracket :: _ | [] => Err
    end.

  (** [parse_in], after IN *)
  Definition parse_in (e : expr) (neg : bool) (r : list tok) : res (expr * list tok) :=
    match r with
    | TKw KUnnest :: r1 =>
        match r1 with
        | TLParen :: r2 =>
            bind (rec (L K_UNKNOWN) r2) (fun '(a, r3) =>
              expect_rparen r3 (fun r4 => Ok (EInUnnest neg e a, r4)))
        | _ => Err
        end
    | TLParen :: r1 =>
        match r1 with
        | TRParen :: r2 => if in_empty_list d then Ok (EInList neg e [], r2) else Err
        | _ =>
            bind (parse_list (S (length r1)) r1) (fun '(l, r2) =>
              expect_rparen r2 (fun r3 => Ok (EInList neg e l, r3)))
        end
    | _ => Err
    end.

  (** LIKE / ILIKE / SIMILAR TO pattern and optional ESCAPE, after the keyword(s) *)
  Definition parse_like (kd : likekind) (e : expr) (neg : bool) (allow_any : bool) (r : list tok)
    : res (expr * list tok) :=
    let '(any, r1) := match r with
                      | TKw KAny :: r' => if allow_any then (true, r') else (false, r)
                      | _ => (false, r)
                      end in
    bind (rec (L C_Like) r1) (fun '(pat, r2) =>
      match r2 with
      | TKw KEscape :: r3 =>
          match r3 with
          | TAtom s n :: r4 => Ok (ELike kd neg any e pat (Some (s, n)), r4)
          | TOther :: _ => OutOfFragment
          | _ => Err
          end
      | _ => Ok (ELike kd neg any e pat None, r2)
      end).

  (** the [NOT|IN|BETWEEN|LIKE|ILIKE|SIMILAR|REGEXP|RLIKE] arm of parse_infix *)
  Definition parse_not_family (e : expr) (ts : list tok) : res (expr * list tok) :=
    let '(neg, r) := match ts with TKw KNot :: r' => (true, r') | _ => (false, ts) end in
    match r with
    | TKw KRegexp :: TKw KRLike :: _ => OutOfFragment   (* both flags set: not expressible *)
    | TKw KRegexp :: r1 =>
        bind (rec (L C_Like) r1) (fun '(pat, r2) => Ok (ELike LRegexp neg false e pat None, r2))
    | TKw KRLike :: r1 =>
        bind (rec (L C_Like) r1) (fun '(pat, r2) => Ok (ELike LRLike neg false e pat None, r2))
    | TKw KIn :: r1 => parse_in e neg r1
    | TKw KBetween :: r1 =>
        bind (rec (L C_Between) r1) (fun '(lo, r2) =>
          match r2 with
          | TOp k :: r3 =>
              if k =? K_AND then
                bind (rec (L C_Between) r3) (fun '(hi, r4) => Ok (EBetween neg e lo hi, r4))
              else Err
          | _ => Err
          end)
    | TKw KLike :: r1 => parse_like LLike e neg true r1
    | TKw KILike :: r1 => parse_like LILike e neg true r1
    | TKw KSimilar :: TKw KTo :: r1 => parse_like LSimilar e neg false r1
    | _ => Err
    end.

  (** [parse_infix expr precedence]; [ts] starts with the operator token, [q] is its power *)
  Definition parse_infix (e : expr) (q : N) (ts : list tok) : res (expr * list tok) :=
    match ts with
    | TKw KDiv :: r =>
        if mysql_div d then
          bind (rec (div_level d q) r) (fun '(x, r1) => Ok (EDiv e x, r1))
        else Err
    | TOp k :: r =>
        if binop d k then
          match r with
          | TKw w :: r1 =>
              if is_quant w then
                match r1 with
                | TLParen :: r2 =>
                    bind (rec q r2) (fun '(x, r3) =>
                      expect_rparen r3 (fun r4 =>
                        if cmpop d k then Ok (EAnyAll k w e x, r4) else Err))
                | _ => Err
                end
              else bind (rec q r) (fun '(x, r1) => Ok (EBin k e x, r1))
          | _ => bind (rec q r) (fun '(x, r1) => Ok (EBin k e x, r1))
          end
        else Err
    | TKw KIs :: r =>
        match r with
        | TKw KNull :: r1 => Ok (EIs false KNull e, r1)
        | TKw KNot :: TKw KNull :: r1 => Ok (EIs true KNull e, r1)
        | TKw KTrue :: r1 => Ok (EIs false KTrue e, r1)
        | TKw KNot :: TKw KTrue :: r1 => Ok (EIs true KTrue e, r1)
        | TKw KFalse :: r1 => Ok (EIs false KFalse e, r1)
        | TKw KNot :: TKw KFalse :: r1 => Ok (EIs true KFalse e, r1)
        | TKw KUnknown :: r1 => Ok (EIs false KUnknown e, r1)
        | TKw KNot :: TKw KUnknown :: r1 => Ok (EIs true KUnknown e, r1)
        | TKw KDistinct :: TKw KFrom :: r1 =>
            bind (rec (isdf_level d q) r1) (fun '(x, r2) => Ok (EIsDF false e x, r2))
        | TKw KNot :: TKw KDistinct :: TKw KFrom :: r1 =>
            bind (rec (isdf_level d q) r1) (fun '(x, r2) => Ok (EIsDF true e x, r2))
        | _ => Err
        end
    | TKw KAt :: TKw KTime :: TKw KZone :: r =>
        bind (rec q r) (fun '(x, r1) => Ok (EAtTz e x, r1))
    | TKw KNot :: _ | TKw KIn :: _ | TKw KBetween :: _ | TKw KLike :: _ | TKw KILike :: _
    | TKw KSimilar :: _ | TKw KRegexp :: _ | TKw KRLike :: _ => parse_not_family e ts
    | TKw KOperator :: _ => OutOfFragment
    | TDoubleColon :: r =>
        match r with
        | TType n :: r1 =>
            match r1 with
            | TLBracket :: _ | TLParen :: _ => OutOfFragment      (* array / parameterised type *)
            | _ => Ok (ECast e n, r1)
            end
        | _ => OutOfFragment
        end
    | TExcl :: r => Ok (EPostfix e, r)
    | TLBracket :: r =>
        if subscript d then
          match r with
          | TColon :: _ => OutOfFragment                           (* slice *)
          | _ =>
              bind (rec (L K_UNKNOWN) r) (fun '(i, r1) =>
                match r1 with
                | TRBracket :: r2 => Ok (ESubscript e i, r2)
                | TColon :: _ => OutOfFragment
                | _ => Err
                end)
          end
        else OutOfFragment
    | TColon :: _ => OutOfFragment
    | _ => Err
    end.

  (** the loop of [parse_subexpr] *)
  Fixpoint loop (g : nat) (p : N) (e : expr) (ts : list tok) : res (expr * list tok) :=
    match g with
    | O => OutOfFuel
    | S g' =>
        let q := np ts in
        if q <=? p then Ok (e, ts)
        else bind (parse_infix e q ts) (fun '(e', ts') => loop g' p e' ts')
    end.
End Model.

(** [parse_subexpr precedence] *)
Fixpoint parse_sub (d : dialect) (fuel : nat) (p : N) (ts : list tok) : res (expr * list tok) :=
  match fuel with
  | O => OutOfFuel
  | S f =>
      bind (parse_prefix d (parse_sub d f) ts) (fun '(e, r) =>
        loop d (parse_sub d f) (S (length r)) p e r)
  end.

(** [parse_expr]: anything outside the core anywhere in the input is out of the fragment *)
Definition parse_expr (d : dialect) (ts : list tok) : res (expr * list tok) :=
  if existsb is_other ts then OutOfFragment
  else parse_sub d (S (length ts)) (lvl d K_UNKNOWN) ts.

(** * Correspondence / oracle evaluation of one case (run inside the kernel VM by lib/props/C04.py).
    [i] is what [Parser::parse_expr] returned on the token list [ts]: a tree plus the number of
    unconsumed tokens, or an error.  Result bits: 1 = model and implementation disagree;
    2 = the implementation's tree is not the precedence-climbing tree for the PUBLISHED table [pin]
    (the property itself fails on this input); 4 = as 2, but the tree is correct once the operand
    levels of the known findings are weakened to what the code does (known class);
    8 = input outside the modelled fragment (no comparison). *)
Inductive ires := IOk (t : expr) (nrest : nat) | IErr | IBad.

Definition oracle_case (fl : flags) (pin : N -> N) (ts : list tok) (i : ires) : N :=
  match i with
  | IOk t n =>
      let used := firstn (length ts - n) ts in
      if correctb published pin t used then 0
      else if correctb fl pin t used && loose pin fl t then 4 else 2
  | _ => 0
  end.

Definition check_case (d : dialect) (pin : N -> N) (ts : list tok) (i : ires) : N :=
  let corr :=
    match parse_expr d ts, i with
    | OutOfFragment, _ => 8
    | Ok (t, rest), IOk t' n => if expr_eqb t t' && Nat.eqb (length rest) n then 0 else 1
    | Err, IErr => 0
    | _, _ => 1
    end in
  corr + oracle_case (flags_of d) pin ts i.
