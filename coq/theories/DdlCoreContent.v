(** C05 — the DDL core: the column types keep their content tokens, for EVERY type the data type parser returns.
    [dtype_content]        : the statement-level view of [DataTypeContent.parse_dt_content]: on lexed tokens,
                             [dtype d l = Ok (t, r) -> filter keep l = filter keep (type_toks T t) ++ filter keep r],
                             for any content predicate that rejects the non-literal tokens and the words the type
                             grammar reads or prints as keywords ([DataTypeContent.type_kws], any capitalisation),
                             the tables passing the decidable test [DataTypeContent.content_tables_ok];
    [col_faithful_all]     : hence [DdlCoreInv.col_faithful] holds of every column;
    [ddl_content_ordered_types] / [ddl_content_types] : [DdlCoreInv.ddl_content_ordered] / [ddl_content] without
                             their hypothesis on the column types.
    [content_tok_type_kw]  : the content predicate of the property ([DdlCoreInv.content_tok kws]) meets the keyword
                             condition when [kws] contains the type keywords ([type_kws_in], decidable). *)
From SqlV Require Import Base PrecSpec Pratt PrinterCore DdlCore DdlCoreProofs DdlCoreInv.
Require SqlV.DataTypeContent.
From Coq Require Import Permutation.
Module DC := SqlV.DataTypeContent.

Lemma lexed_eq t : lexed t -> t = TT (tv t).
Proof. unfold lexed, TT. destruct t as [x e]. cbn [tv ev]. intros ->. reflexivity. Qed.

Lemma lexed_map l : Forall lexed l -> l = map TT (map tv l).
Proof.
  induction 1 as [|t l Ht _ IH]; [reflexivity|]. cbn [map]. rewrite <- IH, <- (lexed_eq t Ht). reflexivity.
Qed.

Lemma firstn_length_app {A} (a b : list A) : firstn (length a) (a ++ b) = a.
Proof. induction a as [|x a IH]; [destruct b; reflexivity|]. cbn [length app firstn]. rewrite IH. reflexivity. Qed.

Section TypeContent.
  Variable d : ddialect.
  Notation T := (dtab d).
  Variable keep : dtok -> bool.
  (** content is literal-like and not a keyword of the type grammar *)
  Hypothesis Hlit : forall t, keep t = true -> is_lit (tv t) = true.
  Hypothesis Hty : forall t w, tv t = DT.TWord w -> DT.mem_str (ascii_upper w) (DC.type_kws T) = true -> keep t = false.
  Hypothesis Htab : DC.content_tables_ok T = true.
  Notation K := (filter keep).

  Definition kp (x : DT.tok) : bool := keep (TT x).

  Lemma K_map_TT xs : K (map TT xs) = map TT (filter kp xs).
  Proof.
    induction xs as [|x xs IH]; [reflexivity|]. cbn [map filter]. unfold kp at 1. rewrite IH.
    destruct (keep (TT x)); reflexivity.
  Qed.

  Lemma kp_lit x : kp x = true -> DC.is_litb x = true.
  Proof. unfold kp. intro H. apply Hlit in H. cbn [tv TT] in H. destruct x; try discriminate H; reflexivity. Qed.
  Lemma kp_kw w : DT.mem_str (ascii_upper w) (DC.type_kws T) = true -> kp (DT.TWord w) = false.
  Proof. intro H. unfold kp. apply (Hty _ w); [reflexivity|exact H]. Qed.

  (** the type parser keeps the content tokens of what it consumes: every type it can return *)
  Theorem dtype_content l t r :
    Forall lexed l -> dtype d l = Ok (t, r) -> K l = K (type_toks T t) ++ K r.
  Proof.
    intros Hl H. unfold dtype in H.
    destruct (DT.parse_dt T (dname d) (map tv l)) as [t0 tr0 r0|] eqn:E; [|discriminate H].
    inversion H; subst t0 r. clear H.
    destruct (DC.parse_dt_content T (dname d) kp kp_lit kp_kw Htab _ _ _ _ E) as (pre & Epre & HF).
    assert (Hn : (length (map tv l) - length r0 = length pre)%nat) by (rewrite Epre, app_length; lia).
    rewrite Hn. rewrite <- (firstn_skipn (length pre) l) at 1. rewrite filter_app. f_equal.
    assert (Hf : Forall lexed (firstn (length pre) l)).
    { apply Forall_forall. intros x Hx. rewrite Forall_forall in Hl. apply Hl.
      rewrite <- (firstn_skipn (length pre) l). apply in_or_app. left. exact Hx. }
    rewrite (lexed_map _ Hf), <- firstn_map, Epre, firstn_length_app.
    unfold type_toks. rewrite !K_map_TT, HF. reflexivity.
  Qed.

  (** ... so the hypothesis of [ddl_content*] on the column types holds of every column *)
  Theorem ty_faithful_all t : ty_faithful d keep t.
  Proof. intros l r Hl H. exact (dtype_content l t r Hl H). Qed.

  Theorem col_faithful_all c : col_faithful d keep c.
  Proof. unfold col_faithful. destruct (ctype c); try exact I; apply ty_faithful_all. Qed.

  Hypothesis Hd : ddialect_ok d = true.
  Hypothesis Hkw : forall t, kwc t <> None -> keep t = false.

  Lemma cols_faithful (c : create_table) : Forall (col_faithful d keep) (columns c).
  Proof. apply Forall_forall. intros col _. apply col_faithful_all. Qed.

  (** the model-level C05 for CREATE TABLE, whatever the column types *)
  Theorem ddl_content_ordered_types fuel ts c rest :
    parse_create_table_core d fuel ts = Ok (c, rest) ->
    Forall lexed ts -> dword_escape c = false ->
    exists els, (columns c, constraints c) = split_elems els /\ K ts = K (dtoks_in d c els ++ rest).
  Proof.
    intros H Hl Hc. exact (ddl_content_ordered d Hd keep Hkw Hlit fuel ts c rest H Hl Hc (cols_faithful c)).
  Qed.

  Theorem ddl_content_types fuel ts c rest :
    parse_create_table_core d fuel ts = Ok (c, rest) ->
    Forall lexed ts -> dword_escape c = false ->
    Permutation (K ts) (K (dtoks T c ++ rest)).
  Proof.
    intros H Hl Hc. exact (ddl_content d Hd keep Hkw Hlit fuel ts c rest H Hl Hc (cols_faithful c)).
  Qed.
End TypeContent.

(** the content predicate of the property rejects the type keywords when the keyword list contains them *)
Definition type_kws_in (kws : list str) (T : DT.tables) : bool :=
  forallb (fun k => DT.mem_str k kws) (DC.type_kws T).

Lemma content_tok_type_kw kws T : type_kws_in kws T = true ->
  forall t w, tv t = DT.TWord w -> DT.mem_str (ascii_upper w) (DC.type_kws T) = true -> content_tok kws t = false.
Proof.
  intros Hk t w Ht Hm. unfold content_tok. rewrite Ht.
  unfold type_kws_in in Hk. rewrite forallb_forall in Hk.
  apply SqlV.DataTypeRTProofs.mem_str_In in Hm. rewrite (Hk _ Hm). reflexivity.
Qed.
