(** Routes.v — C14 and C15 at the level of the interface.

    C14
    - [Rloc]: two runs over token vectors that are equal up to locations (same length, same
      tokens, whitespace included), same cursor, same parser state.  Instance of the two-run
      logic of MachineRel.v, here including the non-skipping primitives.
      [route_tokens]: feeding tokens with or without locations gives results equal up to token
      locations and errors equal up to the position text.
    - [reuse_fresh]: because every interface program restores [pst], [tc], [depth] on every
      non-panicking exit ([iface_frame]), re-targeting the parser value at new tokens
      ([retarget] = with_tokens_with_locations) after ANY history of calls gives exactly the
      state of a fresh parser with the same configuration.
    - [parse_sql_def]: the convenience entry point is the explicit route with the default
      configuration of the dialect.
    - [embed_elem], [embed_stmt]: a local sub-parser gives the same value standalone and embedded.
    C15
    - [dial_eqv]: two dialect records that answer every interface question alike (reported
      identity included; capability answers pointwise).  [dial_independence]: every pair of
      programs built alike from the interface, every program of the closure language, runs
      identically under both. *)
Require Import SqlV.Base SqlV.Machine SqlV.MachineProofs SqlV.LimitMono SqlV.MachineRel SqlV.CommaList SqlV.Script.
From Coq Require Import Arith.

(** * R_loc *)
Definition Rloc (s s' : mstate) : Prop :=
  Forall2 tok_sim (toks s) (toks s') /\ idx s = idx s' /\ pst s = pst s' /\ tc s = tc s' /\ depth s = depth s'.

Lemma sim_is_ws t t' : tok_sim t t' -> is_ws t = is_ws t'.
Proof. unfold tok_sim, is_ws. intros ->. reflexivity. Qed.
Lemma sim_eof : tok_sim eof_twl eof_twl.
Proof. reflexivity. Qed.

Lemma Forall2_skipn' {X} (R : X -> X -> Prop) n : forall l l', Forall2 R l l' -> Forall2 R (skipn n l) (skipn n l').
Proof. induction n; intros l l' H; [exact H|]. destruct H; cbn; [constructor|auto]. Qed.

Lemma peek_from_sim l l' : Forall2 tok_sim l l' -> forall n, tok_sim (peek_from l n) (peek_from l' n).
Proof.
  induction 1 as [|t t' l l' Ht Hl IH]; intro n; cbn [peek_from]; [apply sim_eof|].
  rewrite (sim_is_ws t t' Ht). destruct (is_ws t'); [apply IH|]. destruct n; [exact Ht|apply IH].
Qed.
Lemma next_from_sim l l' : Forall2 tok_sim l l' -> forall i,
  tok_sim (fst (next_from l i)) (fst (next_from l' i)) /\ snd (next_from l i) = snd (next_from l' i).
Proof.
  induction 1 as [|t t' l l' Ht Hl IH]; intro i; cbn [next_from]; [split; [apply sim_eof|reflexivity]|].
  rewrite (sim_is_ws t t' Ht). destruct (is_ws t'); [apply IH|]. split; [exact Ht|reflexivity].
Qed.
Lemma nth_error_sim l l' : Forall2 tok_sim l l' -> forall j, opt_rel tok_sim (nth_error l j) (nth_error l' j).
Proof. induction 1; intros [|j]; cbn; auto. Qed.
Lemma prev_idx_sim l l' : Forall2 tok_sim l l' -> forall i, prev_idx l i = prev_idx l' i.
Proof.
  intros H i. induction i as [|j IH]; cbn [prev_idx]; [reflexivity|].
  pose proof (nth_error_sim l l' H j) as Hn. destruct (nth_error l j), (nth_error l' j); cbn in Hn; try contradiction; auto.
  rewrite (sim_is_ws _ _ Hn). destruct (is_ws _); auto.
Qed.
Lemma nth_sim l l' : Forall2 tok_sim l l' -> forall j, tok_sim (nth j l eof_twl) (nth j l' eof_twl).
Proof. induction 1; intros [|j]; cbn; auto; apply sim_eof. Qed.
Lemma existsb_sim (g : token -> bool) l l' :
  Forall2 tok_sim l l' -> existsb (fun t => g (tok t)) l = existsb (fun t => g (tok t)) l'.
Proof. induction 1 as [|t t' l l' Ht Hl IH]; cbn; [reflexivity|]. rewrite Ht, IH. reflexivity. Qed.

Lemma Forall2_len {X} (R : X -> X -> Prop) l l' : Forall2 R l l' -> length l = length l'.
Proof. induction 1; cbn; auto. Qed.

Definition Rdeq (d d' : dial) : Prop := d = d'.
Notation RelL := (Rel Rdeq Rloc err_sim).

Notation anycmp := (fun _ : token => true).
Lemma loc_facts : Facts Rdeq Rloc err_sim tok_sim eq anycmp.
Proof.
  constructor.
  - intros t t' H. left. exact H.
  - intros e t t' _ H. rewrite H. reflexivity.
  - reflexivity.
  - intros n d d' s s' _ (Ht & Hi & Hr). unfold peek_nth_token. cbn [fst snd]. split; [|repeat split; tauto].
    cbn. rewrite <- Hi. apply peek_from_sim. apply Forall2_skipn'. exact Ht.
  - intros d d' s s' _ (Ht & Hi & Hp & Htc & Hd). unfold next_token. rewrite <- Hi.
    destruct (next_from_sim _ _ (Forall2_skipn' tok_sim (idx s) _ _ Ht) (idx s)) as [H1 H2].
    destruct (next_from (skipn (idx s) (toks s)) (idx s)) as [t j],
             (next_from (skipn (idx s) (toks s')) (idx s)) as [t' j']. cbn [fst snd] in *. subst j'.
    split; [exact H1|]. repeat split; cbn; auto.
  - intros d d' s s' _ (Ht & Hi & Hp & Htc & Hd). unfold prev_token. rewrite <- Hi, <- (prev_idx_sim _ _ Ht).
    destruct (prev_idx (toks s) (idx s)); cbn; (split; [auto|repeat split; cbn; auto]).
  - intros d d' s s' _ H. cbn. split; [apply H|exact H].
  - intros i i' <- d d' s s' _ (Ht & Hi & Hp & Htc & Hd). cbn. split; [reflexivity|repeat split; cbn; auto].
  - intros s s' t t' (_ & Hi & _) (Ht & _ & Hp & Htc & Hd). repeat split; cbn; auto.
  - intros s s' H; apply H.
  - intros s s' H; apply H.
  - intros s s' H; apply H.
  - intros s s' b (Ht & Hi & Hp & Htc & Hd). repeat split; cbn; auto.
  - intros s s' p (Ht & Hi & Hp & Htc & Hd). repeat split; cbn; auto.
  - intros s s' n (Ht & Hi & Hp & Htc & Hd). repeat split; cbn; auto.
  - intros d d' ->; reflexivity.
  - intros d d' ->; reflexivity.
  - intros d d' ->; reflexivity.
  - intros d d' n ->; reflexivity.
  - apply err_sim_refl.
  - apply err_sim_limit.
  - intros. apply expected_sim. assumption.
Qed.

Lemma loc_skip_all : RelL eq skip_all_semis skip_all_semis.
Proof.
  intros d d' s s' Hd Hs. unfold skip_all_semis.
  assert (E : length (toks s) = length (toks s')) by (destruct Hs as (Ht & _); eapply Forall2_len; exact Ht).
  rewrite <- E. apply (rel_skip_semis Rdeq Rloc err_sim tok_sim eq anycmp loc_facts); assumption.
Qed.

Lemma loc_next_ns : RelL (opt_rel tok_sim) next_token_no_skip next_token_no_skip.
Proof.
  intros d d' s s' _ (Ht & Hi & Hp & Htc & Hd). unfold next_token_no_skip. cbn [fst snd]. rewrite <- Hi. split.
  - cbn. apply nth_error_sim. exact Ht.
  - repeat split; cbn; auto.
Qed.
Lemma loc_peek_ns n : RelL tok_sim (peek_nth_token_no_skip n) (peek_nth_token_no_skip n).
Proof.
  intros d d' s s' _ (Ht & Hi & Hr). unfold peek_nth_token_no_skip. cbn [fst snd]. rewrite <- Hi. split.
  - cbn. apply nth_sim. exact Ht.
  - repeat split; tauto.
Qed.
Lemma loc_lookahead A (RA : A -> A -> Prop) p p' q q' :
  RelL RA p p' -> RelL RA q q' ->
  RelL RA (lookahead (existsb (fun t => token_eqb (tok t) (TP PLParen))) p q)
          (lookahead (existsb (fun t => token_eqb (tok t) (TP PLParen))) p' q').
Proof.
  intros Hp Hq d d' s s' Hd Hs. unfold lookahead. destruct Hs as (Ht & Hi & Hr).
  rewrite <- Hi. rewrite (existsb_sim (fun t => token_eqb t (TP PLParen)) _ _ (Forall2_skipn' tok_sim (idx s) _ _ Ht)).
  assert (Hs : Rloc s s') by (repeat split; tauto).
  destruct (existsb _ _); [apply Hp|apply Hq]; assumption.
Qed.

(** Every pair of programs built alike from the interface is location-blind ... *)
Theorem loc_invariance A (RA : A -> A -> Prop) (p p' : M A) : IfaceR tok_sim A RA p p' -> RelL RA p p'.
Proof. apply (ifaceR_sound Rdeq Rloc err_sim tok_sim eq anycmp loc_facts loc_skip_all). Qed.

(** ... and so is every program of the closure language, raw primitives included. *)
Theorem loc_invariance_prog rr fuel p : RelL (val_rel tok_sim) (denote rr fuel p) (denote rr fuel p).
Proof.
  apply (denote_rel Rdeq Rloc err_sim tok_sim eq anycmp loc_facts loc_skip_all true).
  - intros _. apply loc_next_ns.
  - intros _. apply loc_peek_ns.
  - intros _. apply loc_lookahead.
  - reflexivity.
  - apply prog_cmp_ok_all.
Qed.

(** [Parser::with_tokens]: the same tokens with dummy locations. *)
Definition strip_loc (ts : list twl) : list twl := map (fun t => {| tok := tok t; line := 0; col := 0 |}) ts.
Lemma strip_sim ts : Forall2 tok_sim ts (strip_loc ts).
Proof. induction ts; cbn; constructor; auto. reflexivity. Qed.

Theorem route_tokens rr fuel p d ts tcf limit :
  Ro err_sim (val_rel tok_sim)
     (fst (denote rr fuel p d (init_state ts tcf limit)))
     (fst (denote rr fuel p d (init_state (strip_loc ts) tcf limit))).
Proof.
  apply (loc_invariance_prog rr fuel p d d (init_state ts tcf limit) (init_state (strip_loc ts) tcf limit) eq_refl).
  repeat split; cbn; auto. apply strip_sim.
Qed.

(** Statement level, for any statement parser built from the interface. *)
Theorem route_tokens_statements A (RA : A -> A -> Prop) (stmt stmt' : M A) fuel d ts tcf limit :
  IfaceR tok_sim A RA stmt stmt' ->
  Ro err_sim (Forall2 RA)
     (fst (parse_statements fuel stmt d (init_state ts tcf limit)))
     (fst (parse_statements fuel stmt' d (init_state (strip_loc ts) tcf limit))).
Proof.
  intro Hi.
  apply (loc_invariance _ _ _ _ (R_parse_statements tok_sim (fun _ => true) A RA fuel stmt stmt' Hi)
           d d (init_state ts tcf limit) (init_state (strip_loc ts) tcf limit) eq_refl).
  repeat split; cbn; auto. apply strip_sim.
Qed.

(** * The parser value: configuration, fresh parser, re-targeting *)
Record cfg := { c_tc : bool; c_limit : nat }.
(** Parser::new(d)[.with_options(..)][.with_recursion_limit(..)].with_tokens_with_locations(ts) *)
Definition fresh (c : cfg) (ts : list twl) : mstate := init_state ts (c_tc c) (c_limit c).
(** parser.with_tokens_with_locations(ts) on an existing value: tokens and index are replaced,
    everything else is whatever the previous calls left. *)
Definition retarget (ts : list twl) (s : mstate) : mstate :=
  {| toks := ts; idx := 0; pst := pst s; tc := tc s; depth := depth s |}.

Definition configured (c : cfg) (s : mstate) : Prop := pst s = Normal /\ tc s = c_tc c /\ depth s = c_limit c.

Lemma fresh_configured c ts : configured c (fresh c ts).
Proof. repeat split. Qed.
Lemma retarget_configured c ts s : configured c s -> retarget ts s = fresh c ts.
Proof. intros (a & b & e). unfold retarget, fresh, init_state. rewrite a, b, e. reflexivity. Qed.

(** One public call on a configured parser leaves it configured (any outcome but a panic). *)
Theorem call_keeps_configuration okm oke A (p : M A) c d s :
  Iface okm oke A p -> configured c s -> fst (p d s) <> Panic -> configured c (snd (p d s)).
Proof.
  intros Hp (a & b & e) Hn. destruct (iface_frame okm oke A p Hp d s Hn) as (_ & h2 & h3 & h4).
  repeat split; congruence.
Qed.

(** A history: texts (token vectors) and the interface program run on each. *)
Section History.
  Variables (okm : forall A, bool -> M A -> Prop) (oke : token -> Prop).
  Variable A : Type.
  Variable d : dial.
  Variable c : cfg.

  (** state of the re-used parser before the k-th call, if no earlier call panicked *)
  Fixpoint after (h : list (list twl * M A)) (s : mstate) : option mstate :=
    match h with
    | [] => Some s
    | (ts, p) :: r =>
        let '(o, s') := p d (retarget ts s) in
        match o with Panic => None | _ => after r s' end
    end.

  Theorem reuse_fresh : forall h s s1,
    (forall ts p, In (ts, p) h -> Iface okm oke A p) ->
    configured c s -> after h s = Some s1 ->
    configured c s1 /\ forall ts (p : M A), p d (retarget ts s1) = p d (fresh c ts).
  Proof.
    induction h as [|[ts p] r IH]; intros s s1 Hall Hc Ha; cbn [after] in Ha.
    - injection Ha as <-. split; [exact Hc|]. intros. rewrite (retarget_configured c ts s Hc). reflexivity.
    - assert (Hp : Iface okm oke A p) by (apply (Hall ts p); left; reflexivity).
      assert (Hc0 : configured c (retarget ts s)) by (destruct Hc as (a & b & e); repeat split; assumption).
      pose proof (call_keeps_configuration okm oke A p c d (retarget ts s) Hp Hc0) as Hk.
      destruct (p d (retarget ts s)) as [o s'] eqn:E. cbn [fst snd] in Hk.
      destruct o; try discriminate; (apply (IH s' s1); [intros; eapply Hall; right; eassumption|apply Hk; discriminate|exact Ha]).
  Qed.
End History.

(** * The convenience entry point *)
Section EntryPoints.
  Variable lex : dial -> str -> err + list twl.   (* Tokenizer::tokenize_with_location *)
  Variable A : Type.
  Variable stmt : M A.
  Variable fuel : nat.

  (** Parser::new(d): options from the dialect, default recursion limit. *)
  Definition default_cfg (d : dial) : cfg := {| c_tc := d_tc d; c_limit := 50 |}.
  (** Parser::new(d).with_options(o).with_recursion_limit(n).try_with_sql(sql)?.parse_statements() *)
  Definition explicit_route (c : cfg) (d : dial) (sql : str) : outcome (list A) :=
    match lex d sql with
    | inl e => Err e
    | inr ts => fst (parse_statements fuel stmt d (fresh c ts))
    end.
  (** Parser::parse_sql(d, sql) = Parser::new(d).try_with_sql(sql)?.parse_statements() *)
  Definition parse_sql (d : dial) (sql : str) : outcome (list A) :=
    match lex d sql with
    | inl e => Err e
    | inr ts => fst (parse_statements fuel stmt d (init_state ts (d_tc d) 50))
    end.
  Theorem parse_sql_def d sql : parse_sql d sql = explicit_route (default_cfg d) d sql.
  Proof. reflexivity. Qed.

  (** tokens produced separately and fed through with_tokens_with_locations: same thing *)
  Theorem route_with_tokens c d sql ts :
    lex d sql = inr ts -> explicit_route c d sql = fst (parse_statements fuel stmt d (retarget ts (fresh c []))).
  Proof. intro H. unfold explicit_route. rewrite H. reflexivity. Qed.
End EntryPoints.

(** * Sub-parsers: standalone vs embedded *)
Theorem embed_elem A (f : M A) d ts a :
  Elem A f d ts a ->
  (forall tcf limit, f d (init_state ts tcf limit) = (Ok a, set_idx (length ts) (init_state ts tcf limit))) /\
  (forall pre rest s, toks s = pre ++ ts ++ rest -> delim d (first_tok rest) = true ->
      fst (f d (set_idx (length pre) s)) = Ok a).
Proof.
  intro H. split.
  - intros tcf limit. specialize (H [] [] (init_state ts tcf limit)). cbn [app length] in H.
    rewrite app_nil_r in H. apply H; reflexivity.
  - intros pre rest s Ht Hd. rewrite (H pre rest s Ht Hd). reflexivity.
Qed.
Theorem embed_stmt A (stmt : M A) d ts a :
  Local A stmt d ts a ->
  (forall tcf limit, fst (stmt d (init_state ts tcf limit)) = Ok a) /\
  (forall pre rest s, toks s = pre ++ ts ++ rest -> stmt_end (first_tok rest) = true ->
      fst (stmt d (set_idx (length pre) s)) = Ok a).
Proof.
  intro H. split.
  - intros tcf limit. specialize (H [] [] (init_state ts tcf limit)). cbn [app length] in H.
    rewrite app_nil_r in H.
    assert (E : stmt d (init_state ts tcf limit) = (Ok a, set_idx (length ts) (init_state ts tcf limit))) by (apply H; reflexivity).
    rewrite E. reflexivity.
  - intros pre rest s Ht Hd. rewrite (H pre rest s Ht Hd). reflexivity.
Qed.

(** * C15: dialect records that answer alike *)
Definition dial_eqv (d d' : dial) : Prop :=
  d_tc d = d_tc d' /\ d_proj_tc d = d_proj_tc d' /\ d_reserved d = d_reserved d' /\ d_id d = d_id d' /\
  forall n, d_flag d n = d_flag d' n.
Notation RelD := (Rel dial_eqv eq eq).

Lemma dial_facts : Facts dial_eqv eq eq eq eq anycmp.
Proof.
  constructor; try (intros; subst; reflexivity); try (intros; subst; tauto).
  - intros t t' <-. left. reflexivity.
  - intros n d d' s s' _ <-. cbn. auto.
  - intros d d' s s' _ <-. unfold next_token. destruct (next_from _ _). cbn. auto.
  - intros d d' s s' _ <-. unfold prev_token. destruct (prev_idx _ _); cbn; auto.
  - intros d d' s s' _ <-. cbn. auto.
  - intros i i' <- d d' s s' _ <-. cbn. auto.
  - intros d d' H; apply H.
  - intros d d' H; apply H.
  - intros d d' H; apply H.
  - intros d d' n H; apply H.
Qed.
Lemma dial_skip_all : RelD eq skip_all_semis skip_all_semis.
Proof.
  intros d d' s s' Hd <-. unfold skip_all_semis.
  apply (rel_skip_semis dial_eqv eq eq eq eq anycmp dial_facts); auto.
Qed.

Theorem dial_independence A (RA : A -> A -> Prop) (p p' : M A) : IfaceR eq A RA p p' -> RelD RA p p'.
Proof. apply (ifaceR_sound dial_eqv eq eq eq eq anycmp dial_facts dial_skip_all). Qed.

Lemma val_rel_eq : forall v v', val_rel eq v v' -> v = v'.
Proof.
  fix IH 3. intros v v' H. destruct H; try reflexivity.
  - subst. reflexivity.
  - f_equal. f_equal. apply IH. assumption.
  - f_equal. revert l l' H. fix IHl 3. intros l l' H. destruct H; [reflexivity|].
    f_equal; [apply IH; assumption|apply IHl; assumption].
Qed.

(** Every program of the closure language — and so every operation sequence the harness runs
    through the real parser — is blind to everything in the dialect but its answers. *)
Theorem dial_independence_prog rr fuel p d d' s :
  dial_eqv d d' -> denote rr fuel p d s = denote rr fuel p d' s.
Proof.
  intro Hd.
  assert (H : RelD (val_rel eq) (denote rr fuel p) (denote rr fuel p)).
  { apply (denote_rel dial_eqv eq eq eq eq anycmp dial_facts dial_skip_all true); try reflexivity; try apply prog_cmp_ok_all.
    - intros _ d0 d0' s0 s0' _ <-. cbn. split; [|reflexivity]. destruct (nth_error _ _); cbn; auto.
    - intros _ n d0 d0' s0 s0' _ <-. cbn. auto.
    - intros _ B RB p0 p0' q q' Hp Hq d0 d0' s0 s0' Hd0 <-. unfold lookahead. destruct (existsb _ _); [apply Hp|apply Hq]; auto. }
  destruct (H d d' s s Hd eq_refl) as [Ho Hs].
  destruct (denote rr fuel p d s) as [o t], (denote rr fuel p d' s) as [o' t']. cbn [fst snd] in *. subst t'.
  f_equal. destruct o, o'; cbn in Ho; try contradiction; try reflexivity; try (f_equal; assumption).
  f_equal. apply val_rel_eq. exact Ho.
Qed.

(** A wrapper that forwards every answer, reported identity included, is [dial_eqv] to the
    wrapped dialect; one that keeps its own identity differs exactly in [d_id], and then only
    [dialect_is] can tell (non-vacuity of the identity field). *)
Definition forwarding (own_id : option N) (d : dial) : dial :=
  {| d_tc := d_tc d; d_proj_tc := d_proj_tc d; d_reserved := d_reserved d;
     d_id := match own_id with Some i => i | None => d_id d end; d_flag := fun n => d_flag d n |}.
Lemma forwarding_eqv d : dial_eqv (forwarding None d) d.
Proof. repeat split. Qed.
Example own_identity_visible :
  let d := {| d_tc := false; d_proj_tc := false; d_reserved := []; d_id := 7; d_flag := fun _ => false |} in
  fst (dialect_is [7] d (init_state [] false 50)) <> fst (dialect_is [7] (forwarding (Some 99) d) (init_state [] false 50)).
Proof. vm_compute. discriminate. Qed.

(** Non-vacuity for C14: with and without locations a failing parse reports the same message
    up to the position suffix. *)
Example route_example :
  let a := {| tok := TWord (s2l "a") None no_keyword; line := 2; col := 5 |} in
  let d := mk_dial false false [] in
  fst (denote false 5 (PExpectTok (TP PRParen)) d (init_state [a] false 50)) = Err (Syntax (s2l "Expected: ), found: a at Line: 2, Column: 5")) /\
  fst (denote false 5 (PExpectTok (TP PRParen)) d (init_state (strip_loc [a]) false 50)) = Err (Syntax (s2l "Expected: ), found: a")).
Proof. vm_compute. split; reflexivity. Qed.
