(** One universe for the AST-generic properties (C16 visitors, C17 serialisation).

    - [ty], [decl], [env]: the type declarations of src/ast/**, tokenizer.rs, keywords.rs as
      the translator (harness/astx, astx-env) reads them: fields and variants in declaration
      order, the derives that are active, [visit(with = ..)] and [serde(..)] attributes.
    - [sval]: untyped value trees, exactly the calls a derived [Serialize] impl makes on a
      [serde::Serializer] (type, variant and field names kept) — what astx-drive dumps.
    - [has_type E t v]: the typing judgment (= which serializer calls serde-derive emits for a
      declaration of a given shape); [check_type] is its boolean, fuelled checker.
    No proofs about /repo data live here. *)
From SqlV Require Import Base.
From Coq Require Import ZArith.

(* ------------------------------------------------------------------ types *)

Inductive prim :=
| PBool
| PUInt (bits : N)      (* u8 u16 u32 u64 *)
| PSInt (bits : N)      (* i8 i16 i32 i64 *)
| PChar
| PStr                  (* String *)
| PUnit.                (* () *)

Inductive ty :=
| TPrim (p : prim)
| TOpt (t : ty)
| TVec (t : ty)
| TBox (t : ty)
| TTuple (ts : list ty)
| TNamed (n : str)       (* a declared type; generic instances are monomorphised by name *)
| TOpaque (n : str).     (* anything the translator does not interpret: never well-formed *)

Record field := mkField {
  f_name : str;                 (* [] for unnamed fields *)
  f_ty : ty;
  f_visit : option str;         (* visit(with = "..") on the field *)
  f_serde : list str }.         (* serde(..) attributes, verbatim *)

Inductive fields :=
| FUnit
| FTuple (fs : list field)
| FNamed (fs : list field).

Record variant := mkVariant {
  v_name : str;
  v_fields : fields;
  v_serde : list str }.

Inductive body :=
| BStruct (fs : fields)
| BEnum (vs : list variant).

Record decl := mkDecl {
  d_name : str;                 (* the Rust identifier (what serde passes as type name) *)
  d_body : body;
  d_visit : option str;         (* visit(with = "..") on the type *)
  d_serde : list str;           (* serde(..) attributes on the type *)
  d_ser : bool; d_de : bool;    (* derive(Serialize), derive(Deserialize) active *)
  d_vis : bool; d_vismut : bool;(* derive(Visit), derive(VisitMut) active *)
  d_manual : list str }.        (* traits among Visit/VisitMut/Serialize/Deserialize with a manual impl *)

Definition env := list (str * decl).

Fixpoint lookup (E : env) (n : str) : option decl :=
  match E with
  | [] => None
  | (k, d) :: r => if str_eqb k n then Some d else lookup r n
  end.

Fixpoint find_variant (vs : list variant) (vn : str) : option variant :=
  match vs with
  | [] => None
  | v :: r => if str_eqb (v_name v) vn then Some v else find_variant r vn
  end.

Fixpoint find_field (fs : list field) (k : str) : option field :=
  match fs with
  | [] => None
  | f :: r => if str_eqb (f_name f) k then Some f else find_field r k
  end.

Definition mem (n : str) (l : list str) : bool := existsb (str_eqb n) l.

Fixpoint nodup_names (l : list str) : bool :=
  match l with [] => true | a :: r => negb (mem a r) && nodup_names r end.

(* ------------------------------------------------------------------ values *)

Inductive shape := SUnit | SNewtype | STuple | SNamed.

Inductive sval :=
| VBool (b : bool)
| VNum (z : Z)
| VChar (c : N)
| VStr (s : str)
| VUnit
| VNone
| VSome (v : sval)
| VSeq (vs : list sval)
| VTuple (vs : list sval)
| VStruct (tn : str) (sh : shape) (args : list (str * sval))
| VEnum (tn vn : str) (sh : shape) (args : list (str * sval))
| VOpaque (s : str).      (* a serializer call outside the model (float, bytes, map, 128 bit) *)

Definition shape_of (fs : fields) : shape :=
  match fs with
  | FUnit => SUnit
  | FTuple [_] => SNewtype
  | FTuple _ => STuple
  | FNamed _ => SNamed
  end.

Definition shape_eqb (a b : shape) : bool :=
  match a, b with
  | SUnit, SUnit | SNewtype, SNewtype | STuple, STuple | SNamed, SNamed => true
  | _, _ => false
  end.

Definition in_urange (bits : N) (z : Z) : bool :=
  ((0 <=? z) && (z <? 2 ^ Z.of_N bits))%Z.
Definition in_srange (bits : N) (z : Z) : bool :=
  ((- 2 ^ (Z.of_N bits - 1) <=? z) && (z <? 2 ^ (Z.of_N bits - 1)))%Z.

(* ------------------------------------------------------------------ typing *)

Section Typing.
  Variable E : env.

  Inductive has_type : ty -> sval -> Prop :=
  | HT_bool b : has_type (TPrim PBool) (VBool b)
  | HT_uint bits z : in_urange bits z = true -> has_type (TPrim (PUInt bits)) (VNum z)
  | HT_sint bits z : in_srange bits z = true -> has_type (TPrim (PSInt bits)) (VNum z)
  | HT_char c : has_type (TPrim PChar) (VChar c)
  | HT_str s : has_type (TPrim PStr) (VStr s)
  | HT_unit : has_type (TPrim PUnit) VUnit
  | HT_none t : has_type (TOpt t) VNone
  | HT_some t v : has_type t v -> has_type (TOpt t) (VSome v)
  | HT_vec t vs : has_type_all t vs -> has_type (TVec t) (VSeq vs)
  | HT_box t v : has_type t v -> has_type (TBox t) v       (* Box is invisible in the dump *)
  | HT_tuple ts vs : has_types ts vs -> has_type (TTuple ts) (VTuple vs)
  | HT_struct n d fs sh args :
      lookup E n = Some d -> d_body d = BStruct fs -> has_fields fs sh args ->
      has_type (TNamed n) (VStruct (d_name d) sh args)
  | HT_enum n d vs var sh args :
      lookup E n = Some d -> d_body d = BEnum vs ->
      find_variant vs (v_name var) = Some var -> has_fields (v_fields var) sh args ->
      has_type (TNamed n) (VEnum (d_name d) (v_name var) sh args)
  with has_type_all : ty -> list sval -> Prop :=
  | HA_nil t : has_type_all t []
  | HA_cons t v vs : has_type t v -> has_type_all t vs -> has_type_all t (v :: vs)
  with has_types : list ty -> list sval -> Prop :=
  | HTs_nil : has_types [] []
  | HTs_cons t ts v vs : has_type t v -> has_types ts vs -> has_types (t :: ts) (v :: vs)
  with has_fields : fields -> shape -> list (str * sval) -> Prop :=
  | HF_unit : has_fields FUnit SUnit []
  | HF_newtype f v : has_type (f_ty f) v -> has_fields (FTuple [f]) SNewtype [([], v)]
  | HF_tuple fs args : length fs <> 1%nat -> has_args false fs args -> has_fields (FTuple fs) STuple args
  | HF_named fs args : has_args true fs args -> has_fields (FNamed fs) SNamed args
  with has_args : bool -> list field -> list (str * sval) -> Prop :=
  | HAr_nil b : has_args b [] []
  | HAr_cons b f fs v args :
      has_type (f_ty f) v -> has_args b fs args ->
      has_args b (f :: fs) ((if b then f_name f else [], v) :: args).

  Scheme has_type_mut := Minimality for has_type Sort Prop
    with has_type_all_mut := Minimality for has_type_all Sort Prop
    with has_types_mut := Minimality for has_types Sort Prop
    with has_fields_mut := Minimality for has_fields Sort Prop
    with has_args_mut := Minimality for has_args Sort Prop.
  Combined Scheme has_type_mutind from
    has_type_mut, has_type_all_mut, has_types_mut, has_fields_mut, has_args_mut.
End Typing.

(** Boolean checker (fuelled by recursion depth; exhausted = [false]). *)
Fixpoint zip_all {A B} (p : A -> B -> bool) (l1 : list A) (l2 : list B) : bool :=
  match l1, l2 with
  | [], [] => true
  | a :: r1, b :: r2 => p a b && zip_all p r1 r2
  | _, _ => false
  end.

Definition check_args (rec : ty -> sval -> bool) (named : bool) (fs : list field) (args : list (str * sval)) : bool :=
  zip_all (fun f kv => str_eqb (fst kv) (if named then f_name f else []) && rec (f_ty f) (snd kv)) fs args.

Definition check_fields (rec : ty -> sval -> bool) (fs : fields) (sh : shape) (args : list (str * sval)) : bool :=
  match fs, sh with
  | FUnit, SUnit => match args with [] => true | _ => false end
  | FTuple [f], SNewtype => check_args rec false [f] args
  | FTuple fl, STuple => negb (Nat.eqb (length fl) 1) && check_args rec false fl args
  | FNamed fl, SNamed => check_args rec true fl args
  | _, _ => false
  end.

Fixpoint check_type (fuel : nat) (E : env) (t : ty) (v : sval) : bool :=
  match fuel with
  | O => false
  | S f =>
    match t, v with
    | TPrim PBool, VBool _ => true
    | TPrim (PUInt b), VNum z => in_urange b z
    | TPrim (PSInt b), VNum z => in_srange b z
    | TPrim PChar, VChar _ => true
    | TPrim PStr, VStr _ => true
    | TPrim PUnit, VUnit => true
    | TOpt _, VNone => true
    | TOpt t', VSome v' => check_type f E t' v'
    | TVec t', VSeq vs => forallb (check_type f E t') vs
    | TBox t', _ => check_type f E t' v
    | TTuple ts, VTuple vs => zip_all (check_type f E) ts vs
    | TNamed n, VStruct tn sh args =>
        match lookup E n with
        | Some d => str_eqb (d_name d) tn &&
            match d_body d with
            | BStruct fs => check_fields (check_type f E) fs sh args
            | BEnum _ => false
            end
        | None => false
        end
    | TNamed n, VEnum tn vn sh args =>
        match lookup E n with
        | Some d => str_eqb (d_name d) tn &&
            match d_body d with
            | BEnum vs =>
                match find_variant vs vn with
                | Some var => check_fields (check_type f E) (v_fields var) sh args
                | None => false
                end
            | BStruct _ => false
            end
        | None => false
        end
    | _, _ => false
    end
  end.

(* ------------------------------------------------------------------ decidable equality *)

Fixpoint sval_eqb (a b : sval) : bool :=
  match a, b with
  | VBool x, VBool y => Bool.eqb x y
  | VNum x, VNum y => Z.eqb x y
  | VChar x, VChar y => N.eqb x y
  | VStr x, VStr y => str_eqb x y
  | VUnit, VUnit => true
  | VNone, VNone => true
  | VSome x, VSome y => sval_eqb x y
  | VSeq l1, VSeq l2 | VTuple l1, VTuple l2 =>
      (fix go (l1 l2 : list sval) : bool :=
         match l1, l2 with
         | [], [] => true
         | x :: r1, y :: r2 => sval_eqb x y && go r1 r2
         | _, _ => false
         end) l1 l2
  | VStruct t1 s1 a1, VStruct t2 s2 a2 =>
      str_eqb t1 t2 && shape_eqb s1 s2 &&
      (fix go (l1 l2 : list (str * sval)) : bool :=
         match l1, l2 with
         | [], [] => true
         | (k1, x) :: r1, (k2, y) :: r2 => str_eqb k1 k2 && sval_eqb x y && go r1 r2
         | _, _ => false
         end) a1 a2
  | VEnum t1 v1 s1 a1, VEnum t2 v2 s2 a2 =>
      str_eqb t1 t2 && str_eqb v1 v2 && shape_eqb s1 s2 &&
      (fix go (l1 l2 : list (str * sval)) : bool :=
         match l1, l2 with
         | [], [] => true
         | (k1, x) :: r1, (k2, y) :: r2 => str_eqb k1 k2 && sval_eqb x y && go r1 r2
         | _, _ => false
         end) a1 a2
  | VOpaque x, VOpaque y => str_eqb x y
  | _, _ => false
  end.

(* ------------------------------------------------------------------ measures, paths *)

Fixpoint sv_depth (v : sval) : nat :=
  match v with
  | VSome v' => S (sv_depth v')
  | VSeq vs | VTuple vs => S (fold_right (fun x a => Nat.max (sv_depth x) a) O vs)
  | VStruct _ _ args | VEnum _ _ _ args =>
      S (fold_right (fun kv a => Nat.max (match kv with (_, x) => sv_depth x end) a) O args)
  | _ => 1%nat
  end.

Fixpoint sv_size (v : sval) : N :=
  match v with
  | VSome v' => 1 + sv_size v'
  | VSeq vs | VTuple vs => fold_right (fun x a => sv_size x + a) 1 vs
  | VStruct _ _ args | VEnum _ _ _ args =>
      fold_right (fun kv a => (match kv with (_, x) => sv_size x end) + a) 1 args
  | _ => 1
  end.

(** Children in document order; a path is the list of child indices from the root. *)
Definition children (v : sval) : list sval :=
  match v with
  | VSome v' => [v']
  | VSeq vs | VTuple vs => vs
  | VStruct _ _ args | VEnum _ _ _ args => map snd args
  | _ => []
  end.

Definition path := list nat.

Fixpoint sub (v : sval) (p : path) : option sval :=
  match p with
  | [] => Some v
  | i :: r => match nth_error (children v) i with Some c => sub c r | None => None end
  end.

(* ------------------------------------------------------------------ fingerprint *)

(** Structural fingerprint of a value; the same function is implemented in
    harness/astx/src/lib.rs ([Sv::hash]).  Visitor callbacks receive a node but no position,
    so trace correspondence compares (phase, hook, fingerprint of the node). *)
Definition hP : N := 2147483647.
Definition mix (a b : N) : N := ((a mod hP) * 1000003 + (b mod hP) + 7) mod hP.
Definition hstr (s : str) : N := fold_left mix s 17.

Fixpoint sv_hash (v : sval) : N :=
  match v with
  | VBool b => mix 1 (if b then 1 else 0)
  | VNum z => match z with
              | Zneg p => mix 3 (Npos p mod hP)
              | _ => mix 2 (Z.to_N z mod hP)
              end
  | VChar c => mix 4 c
  | VStr s => mix 5 (hstr s)
  | VUnit => 6
  | VNone => 7
  | VSome v' => mix 8 (sv_hash v')
  | VSeq vs => fold_left (fun a x => mix a (sv_hash x)) vs 9
  | VTuple vs => fold_left (fun a x => mix a (sv_hash x)) vs 10
  | VStruct tn _ args =>
      fold_left (fun a kv => match kv with (k, x) => mix a (mix (hstr k) (sv_hash x)) end) args (mix 11 (hstr tn))
  | VEnum tn vn _ args =>
      fold_left (fun a kv => match kv with (k, x) => mix a (mix (hstr k) (sv_hash x)) end) args
                (mix (mix 12 (hstr tn)) (hstr vn))
  | VOpaque s => mix 13 (hstr s)
  end.

(* ------------------------------------------------------------------ reachable sub-environment *)

Fixpoint ty_names (t : ty) : list str :=
  match t with
  | TNamed n => [n]
  | TOpt t' | TVec t' | TBox t' => ty_names t'
  | TTuple ts => flat_map ty_names ts
  | _ => []
  end.

Definition fields_list (fs : fields) : list field :=
  match fs with FUnit => [] | FTuple l | FNamed l => l end.

Definition body_fields (b : body) : list field :=
  match b with
  | BStruct fs => fields_list fs
  | BEnum vs => flat_map (fun v => fields_list (v_fields v)) vs
  end.

Definition decl_names (d : decl) : list str :=
  flat_map (fun f => ty_names (f_ty f)) (body_fields (d_body d)).

Fixpoint reach (fuel : nat) (E : env) (todo seen : list str) : list str :=
  match fuel with
  | O => seen
  | S f =>
    match todo with
    | [] => seen
    | n :: r =>
      if mem n seen then reach f E r seen
      else match lookup E n with
           | Some d => reach f E (decl_names d ++ r) (n :: seen)
           | None => reach f E r (n :: seen)
           end
    end
  end.

Definition reach_fuel (E : env) (roots : list str) : nat :=
  (1 + length roots + length E + fold_right (fun kd a => length (decl_names (snd kd)) + a) 0 E)%nat.

(** The declarations reachable from [roots], in the order of [E]. *)
Definition reach_env (E : env) (roots : list str) : env :=
  let R := reach (reach_fuel E roots) E roots [] in
  filter (fun kd => mem (fst kd) R) E.

(** Every type name mentioned by a declaration of [E] (and every root) is declared in [E]. *)
Definition closed_env (E : env) (roots : list str) : bool :=
  forallb (fun n => match lookup E n with Some _ => true | None => false end) roots &&
  forallb (fun kd => forallb (fun n => match lookup E n with Some _ => true | None => false end)
                             (decl_names (snd kd))) E.
