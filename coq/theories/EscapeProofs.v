(** Print -> lex round trips for the literal printers (C06) and raw-body lemmas (C20). *)
Require Import SqlV.Base SqlV.Lexer SqlV.LexerProofs SqlV.Escape.
From Coq Require Import ZArith ZifyBool ZifyN ZifyNat Arith.
Local Open Scope N_scope.

Lemma has_pair_cons_false a b x l : has_pair a b (x :: l) = false -> has_pair a b l = false.
Proof. destruct l as [|y l]; [reflexivity|]. cbn [has_pair]. intro H. apply orb_false_iff in H as [_ H]. exact H. Qed.
Lemma has_pair_head_false a b x y l : has_pair a b (x :: y :: l) = false -> (x =? a) && (y =? b) = false.
Proof. cbn [has_pair]. intro H. apply orb_false_iff in H as [H _]. exact H. Qed.
Lemma has_char_cons_false a x l : has_char a (x :: l) = false -> (x =? a) = false /\ has_char a l = false.
Proof. unfold has_char. cbn [existsb]. intro H. apply orb_false_iff in H. exact H. Qed.

Section QuoteDoubling.
  Variable q : N.
  Hypothesis q_not_bsl : (q =? cBSL) = false.

  (** ** The quote-doubling printer against the One-quote string scanner *)
  (** [Good bs prev p]: the payload is outside the known-finding class, seen from a point where
      the previous printed character was [prev]. *)
  Definition Good (bs : bool) (prev : N) (p : str) : Prop :=
    has_pair q q p = false /\ has_pair cBSL q p = false /\
    (bs = true -> has_char cBSL p = false) /\
    (prev = cBSL -> starts_with_c q p = false).

  Lemma Good_tail_same bs prev ch r : Good bs prev (ch :: r) -> (ch =? q) = false -> Good bs ch r.
  Proof.
    intros (H1 & H2 & H3 & H4) Hch. repeat split.
    - eapply has_pair_cons_false; eauto.
    - eapply has_pair_cons_false; eauto.
    - intro Hb. specialize (H3 Hb). apply has_char_cons_false in H3. tauto.
    - intros ->. destruct r as [|y r']; [reflexivity|]. cbn [starts_with_c].
      apply has_pair_head_false in H2. rewrite N.eqb_refl in H2. exact H2.
  Qed.
  Lemma Good_tail_quote bs prev r : Good bs prev (q :: r) -> Good bs q r /\ starts_with_c q r = false.
  Proof.
    intros (H1 & H2 & H3 & H4). split; [repeat split|].
    - eapply has_pair_cons_false; eauto.
    - eapply has_pair_cons_false; eauto.
    - intro Hb. specialize (H3 Hb). apply has_char_cons_false in H3. tauto.
    - intros E. apply N.eqb_eq in E. congruence.
    - destruct r as [|y r']; [reflexivity|]. cbn [starts_with_c].
      apply has_pair_head_false in H1. rewrite N.eqb_refl in H1. exact H1.
  Qed.

  Theorem qs_escape_quoted bs : forall p prev ncq rest,
    Good bs prev p -> starts_with_c q rest = false ->
    qs_loop true q false bs ncq (eq_loop q prev p ++ q :: rest) = Some (p, rest).
  Proof.
    induction p as [|ch r IH]; intros prev ncq rest HG Hrest.
    - cbn [eq_loop app qs_loop]. rewrite N.eqb_refl. cbn [andb].
      destruct rest as [|c2 r2]; [reflexivity|]. cbn [starts_with_c] in Hrest. rewrite Hrest. reflexivity.
    - cbn [eq_loop]. destruct (ch =? q) eqn:Ech.
      + apply N.eqb_eq in Ech. subst ch.
        destruct (prev =? cBSL) eqn:Ep.
        { apply N.eqb_eq in Ep. destruct HG as (_ & _ & _ & H4). specialize (H4 Ep).
          cbn [starts_with_c] in H4. rewrite N.eqb_refl in H4. discriminate. }
        destruct (Good_tail_quote _ _ _ HG) as (HG' & Hsw).
        assert (Hpr : eq_loop q prev (q :: r) = q :: q :: eq_loop q q r).
        { cbn [eq_loop]. rewrite N.eqb_refl, Ep. destruct r as [|c2 r2]; [reflexivity|].
          cbn [starts_with_c] in Hsw. rewrite Hsw. reflexivity. }
        cbn [eq_loop] in Hpr. rewrite N.eqb_refl, Ep in Hpr. rewrite Hpr.
        cbn [app qs_loop]. rewrite N.eqb_refl. cbn [andb].
        rewrite (IH q ncq rest HG' Hrest). reflexivity.
      + cbn [app qs_loop]. rewrite Ech. cbn [andb].
        assert (Hb : (ch =? cBSL) && bs = false).
        { destruct bs; [|apply andb_false_r]. destruct HG as (_ & _ & H3 & _).
          specialize (H3 eq_refl). apply has_char_cons_false in H3. rewrite (proj1 H3). reflexivity. }
        rewrite Hb. rewrite (IH ch 0 rest); [reflexivity| |exact Hrest].
        eapply Good_tail_same; eauto.
  Qed.

  (** ** ... and against the quoted-identifier scanner (no backslash handling there) *)
  Theorem ident_escape_quoted : forall p prev rest,
    Good false prev p -> starts_with_c q rest = false ->
    quoted_ident true q (eq_loop q prev p ++ q :: rest) = Some (p, rest).
  Proof.
    induction p as [|ch r IH]; intros prev rest HG Hrest.
    - cbn [eq_loop app quoted_ident]. rewrite N.eqb_refl.
      destruct rest as [|c2 r2]; [reflexivity|]. cbn [starts_with_c] in Hrest. rewrite Hrest. reflexivity.
    - cbn [eq_loop]. destruct (ch =? q) eqn:Ech.
      + apply N.eqb_eq in Ech. subst ch.
        destruct (prev =? cBSL) eqn:Ep.
        { apply N.eqb_eq in Ep. destruct HG as (_ & _ & _ & H4). specialize (H4 Ep).
          cbn [starts_with_c] in H4. rewrite N.eqb_refl in H4. discriminate. }
        destruct (Good_tail_quote _ _ _ HG) as (HG' & Hsw).
        assert (Hpr : eq_loop q prev (q :: r) = q :: q :: eq_loop q q r).
        { cbn [eq_loop]. rewrite N.eqb_refl, Ep. destruct r as [|c2 r2]; [reflexivity|].
          cbn [starts_with_c] in Hsw. rewrite Hsw. reflexivity. }
        cbn [eq_loop] in Hpr. rewrite N.eqb_refl, Ep in Hpr. rewrite Hpr.
        cbn [app quoted_ident]. rewrite N.eqb_refl.
        rewrite (IH q rest HG' Hrest). reflexivity.
      + cbn [app quoted_ident]. rewrite Ech. rewrite (IH ch rest); [reflexivity| |exact Hrest].
        eapply Good_tail_same; eauto.
  Qed.

  (** ** Verbatim printers: payloads without the terminator (and, when the scanner un-escapes
      backslashes, without backslash) *)
  Theorem qs_verbatim bs unesc : forall p ncq rest,
    has_char q p = false -> (bs = true -> has_char cBSL p = false) -> starts_with_c q rest = false ->
    qs_loop unesc q false bs ncq (p ++ q :: rest) = Some (p, rest).
  Proof.
    induction p as [|ch r IH]; intros ncq rest Hq Hb Hrest.
    - cbn [app qs_loop]. rewrite N.eqb_refl. cbn [andb].
      destruct rest as [|c2 r2]; [reflexivity|]. cbn [starts_with_c] in Hrest. rewrite Hrest. reflexivity.
    - apply has_char_cons_false in Hq as [Hq1 Hq2]. cbn [app qs_loop]. rewrite Hq1. cbn [andb].
      assert (Hbb : (ch =? cBSL) && bs = false).
      { destruct bs; [|apply andb_false_r]. specialize (Hb eq_refl). apply has_char_cons_false in Hb.
        rewrite (proj1 Hb). reflexivity. }
      rewrite Hbb. rewrite IH; auto. intro Hbs. specialize (Hb Hbs). apply has_char_cons_false in Hb. tauto.
  Qed.
End QuoteDoubling.

(** ** Escaped strings E'...': full round trip, no exception class *)
Lemma esc_one_sq r : esc_one (cSQ :: r) = Some (cSQ, r).
Proof. reflexivity. Qed.
Lemma esc_one_bsl r : esc_one (cBSL :: r) = Some (cBSL, r).
Proof. reflexivity. Qed.
Lemma esc_one_n r : esc_one (110 :: r) = Some (10, r).
Proof. reflexivity. Qed.
Lemma esc_one_t r : esc_one (116 :: r) = Some (9, r).
Proof. reflexivity. Qed.
Lemma esc_one_r r : esc_one (114 :: r) = Some (13, r).
Proof. reflexivity. Qed.

Theorem esc_roundtrip : forall p fuel rest,
  starts_with_c cSQ rest = false ->
  (length (escape_escaped p ++ cSQ :: rest) < fuel)%nat ->
  esc_loop fuel (escape_escaped p ++ cSQ :: rest) = Some (p, rest).
Proof.
  induction p as [|c p IH]; intros fuel rest Hrest Hf.
  - cbn [escape_escaped flat_map app] in *. destruct fuel as [|f]; [cbn in Hf; lia|].
    cbn [esc_loop]. rewrite N.eqb_refl. destruct rest as [|c2 r2]; [reflexivity|].
    cbn [starts_with_c] in Hrest. rewrite Hrest. reflexivity.
  - unfold escape_escaped in *. cbn [flat_map] in *. rewrite <- app_assoc in *.
    unfold esc_char in *.
    destruct (c =? cSQ) eqn:E1.
    { apply N.eqb_eq in E1. subst c. cbn [app] in *. destruct fuel as [|f]; [cbn in Hf; lia|].
      cbn [esc_loop]. change (cBSL =? cSQ) with false. change (negb (cBSL =? cBSL)) with false. cbv iota.
      rewrite esc_one_sq. change (cSQ =? 0) with false. cbv iota.
      rewrite IH; [reflexivity|exact Hrest|cbn [length] in Hf; lia]. }
    destruct (c =? cBSL) eqn:E2.
    { apply N.eqb_eq in E2. subst c. cbn [app] in *. destruct fuel as [|f]; [cbn in Hf; lia|].
      cbn [esc_loop]. change (cBSL =? cSQ) with false. change (negb (cBSL =? cBSL)) with false. cbv iota.
      rewrite esc_one_bsl. change (cBSL =? 0) with false. cbv iota.
      rewrite IH; [reflexivity|exact Hrest|cbn [length] in Hf; lia]. }
    destruct (c =? cLF) eqn:E3.
    { apply N.eqb_eq in E3. subst c. cbn [app] in *. destruct fuel as [|f]; [cbn in Hf; lia|].
      cbn [esc_loop]. change (cBSL =? cSQ) with false. change (negb (cBSL =? cBSL)) with false. cbv iota.
      rewrite esc_one_n.
      change (10 =? 0) with false. cbv iota.
      rewrite IH; [reflexivity|exact Hrest|cbn [length] in Hf; lia]. }
    destruct (c =? cTAB) eqn:E4.
    { apply N.eqb_eq in E4. subst c. cbn [app] in *. destruct fuel as [|f]; [cbn in Hf; lia|].
      cbn [esc_loop]. change (cBSL =? cSQ) with false. change (negb (cBSL =? cBSL)) with false. cbv iota.
      rewrite esc_one_t.
      change (9 =? 0) with false. cbv iota.
      rewrite IH; [reflexivity|exact Hrest|cbn [length] in Hf; lia]. }
    destruct (c =? cCR) eqn:E5.
    { apply N.eqb_eq in E5. subst c. cbn [app] in *. destruct fuel as [|f]; [cbn in Hf; lia|].
      cbn [esc_loop]. change (cBSL =? cSQ) with false. change (negb (cBSL =? cBSL)) with false. cbv iota.
      rewrite esc_one_r.
      change (13 =? 0) with false. cbv iota.
      rewrite IH; [reflexivity|exact Hrest|cbn [length] in Hf; lia]. }
    cbn [app] in *. destruct fuel as [|f]; [cbn in Hf; lia|].
    cbn [esc_loop]. rewrite E1, E2. cbn [negb].
    rewrite IH; [reflexivity|exact Hrest|cbn [length] in Hf; lia].
Qed.

(** * Token level: the printed text lexes to exactly one token carrying the payload *)
Section OneToken.
  Variable d : dialect.
  Variable u : uni.

  Lemma tokenize_single unesc l t : l <> [] ->
    next_token d u unesc l = Ok (Some (t, [])) -> tokenize d u unesc l = LexOk [(t, (1, 1))].
  Proof.
    intros Hl Hn. unfold tokenize. destruct l as [|c l]; [congruence|].
    cbn [length tokenize_from]. rewrite Hn. reflexivity.
  Qed.

  Lemma starts_nil c : starts_with_c c [] = false. Proof. reflexivity. Qed.

  (** E'...' : every dialect, every payload *)
  Theorem escaped_one_token p :
    tokenize d u true (print_str KEscaped p) = LexOk [(TStr KEscaped p, (1, 1))].
  Proof.
    apply tokenize_single; [discriminate|]. unfold print_str.
    change (next_token d u true (69 :: cSQ :: escape_escaped p ++ [cSQ]))
      with (match esc_loop (length (cSQ :: escape_escaped p ++ [cSQ])) (escape_escaped p ++ [cSQ]) with
            | Some (s, r') => ret (TStr KEscaped s) r'
            | None => Err EUnterminatedEncoded (69 :: cSQ :: escape_escaped p ++ [cSQ]) end).
    rewrite esc_roundtrip; [reflexivity|reflexivity|cbn [length]; lia].
  Qed.

  (** '...' in dialects without triple-quoted strings, payload outside the known class *)
  Theorem single_one_token p :
    d_triple d = false -> known_quoted cSQ (d_backslash d) false p = false ->
    tokenize d u true (print_str KSingle p) = LexOk [(TStr KSingle p, (1, 1))].
  Proof.
    intros Ht Hk. apply tokenize_single; [discriminate|]. unfold print_str.
    change (next_token d u true (cSQ :: escape_quoted cSQ p ++ [cSQ]))
      with (if d_triple d then
              lift (single_or_triple true cSQ (d_backslash d) KSingle KTripleSingle (cSQ :: escape_quoted cSQ p ++ [cSQ])) (fun x => retp x)
            else lift (single_quoted true cSQ (d_backslash d) (cSQ :: escape_quoted cSQ p ++ [cSQ]))
                   (fun '(s, r') => ret (TStr KSingle s) r')).
    rewrite Ht. unfold single_quoted. rewrite N.eqb_refl. unfold escape_quoted.
    rewrite (qs_escape_quoted cSQ eq_refl); [reflexivity| |reflexivity].
    unfold known_quoted in Hk. rewrite andb_false_l, orb_false_r in Hk.
    apply orb_false_iff in Hk as [Hk H3]. apply orb_false_iff in Hk as [H1 H2].
    repeat split; auto.
    - intro Hb. rewrite Hb in H3. exact H3.
    - discriminate.
  Qed.

  (** N'...' and X'...' are printed verbatim; their scanner un-escapes backslashes *)
  Theorem national_one_token p :
    has_char cSQ p = false -> has_char cBSL p = false ->
    tokenize d u true (print_str KNational p) = LexOk [(TStr KNational p, (1, 1))].
  Proof.
    intros H1 H2. apply tokenize_single; [discriminate|]. unfold print_str.
    change (next_token d u true (78 :: cSQ :: p ++ [cSQ]))
      with (if ((78 =? 66) || (78 =? 98)) && d_bq_or_generic d then next_token d u true (78 :: cSQ :: p ++ [cSQ])
            else if ((78 =? 82) || (78 =? 114)) && d_bq_or_generic d then next_token d u true (78 :: cSQ :: p ++ [cSQ])
            else lift (single_quoted true cSQ true (cSQ :: p ++ [cSQ])) (fun '(s, r') => ret (TStr KNational s) r')).
    cbn [N.eqb orb andb]. unfold single_quoted. rewrite N.eqb_refl.
    rewrite (qs_verbatim cSQ true true p 0 []); auto.
  Qed.

  (** quoted identifiers "..." and `...` *)
  Theorem ident_one_token q p :
    (q = cDQ \/ q = cBQ) -> d_delim_start d q = true -> d_piq d = PiqAlways ->
    has_pair q q p = false -> has_pair cBSL q p = false ->
    tokenize d u true (print_ident q p) = LexOk [(TWord p (Some q), (1, 1))].
  Proof.
    intros Hq Hd Hpiq H1 H2. apply tokenize_single.
    { unfold print_ident. destruct (q =? cLBR); discriminate. }
    assert (Hg : Good q false 0 p) by (repeat split; auto; discriminate).
    destruct Hq as [-> | ->]; unfold print_ident.
    - change (cDQ =? cLBR) with false. cbv iota.
      unfold next_token.
      cbv beta iota delta [N.eqb Pos.eqb andb orb negb cSP cTAB cLF cCR cSQ cDQ cBQ cBSL peek_is is_digit N.leb N.compare Pos.compare Pos.compare_cont cDOT].
      change 34 with cDQ. rewrite Hd. cbv beta iota delta [andb negb].
      unfold proper_inside_quotes. rewrite Hpiq. cbv iota.
      change (matching_end_quote cDQ) with (Some cDQ). cbv iota.
      unfold escape_quoted. rewrite (ident_escape_quoted cDQ eq_refl); auto.
    - change (cBQ =? cLBR) with false. cbv iota.
      unfold next_token.
      cbv beta iota delta [N.eqb Pos.eqb andb orb negb cSP cTAB cLF cCR cSQ cDQ cBQ cBSL peek_is is_digit N.leb N.compare Pos.compare Pos.compare_cont cDOT].
      change 96 with cBQ. rewrite Hd. cbv beta iota delta [andb negb].
      unfold proper_inside_quotes. rewrite Hpiq. cbv iota.
      change (matching_end_quote cBQ) with (Some cBQ). cbv iota.
      unfold escape_quoted. rewrite (ident_escape_quoted cBQ eq_refl); auto.
  Qed.
End OneToken.

(** * Refutation witnesses inside the known classes (evaluated on an arbitrary minimal dialect) *)
Definition plain_dialect : dialect :=
  {| d_ident_start := fun c => ((97 <=? c) && (c <=? 122)) || ((65 <=? c) && (c <=? 90)) || (c =? cUS);
     d_ident_part := fun c => ((97 <=? c) && (c <=? 122)) || ((65 <=? c) && (c <=? 90)) || (c =? cUS) || is_digit c;
     d_delim_start := fun c => c =? cDQ; d_custom_op := fun _ => false; d_piq := PiqAlways;
     d_backslash := false; d_unicode_lit := false; d_triple := false; d_numeric_prefix := false;
     d_bq_or_generic := false; d_snowflake := false; d_duck_or_generic := false; d_sf_or_bq := false; d_pg := false |}.
Definition plain_uni : uni :=
  {| u_whitespace := fun c => (c =? cSP) || (c =? cTAB) || (c =? cLF) || (c =? cCR);
     u_numeric := is_digit; u_alphanumeric := fun c => d_ident_part plain_dialect c && negb (c =? cUS) |}.

(** payload  a''b  (already doubled): printed unchanged, lexes to  a'b *)
Lemma single_doubled_refuted : exists p,
  has_pair cSQ cSQ p = true /\
  tokenize plain_dialect plain_uni true (print_str KSingle p) <> LexOk [(TStr KSingle p, (1, 1))].
Proof. exists (s2l "a" ++ [cSQ; cSQ] ++ s2l "b"). split; [reflexivity|]. vm_compute. discriminate. Qed.

(** payload  a'b  in a national literal: printed verbatim, the quote ends the literal *)
Lemma national_quote_refuted : exists p,
  has_char cSQ p = true /\
  tokenize plain_dialect plain_uni true (print_str KNational p) <> LexOk [(TStr KNational p, (1, 1))].
Proof. exists (s2l "a" ++ [cSQ] ++ s2l "b"). split; [reflexivity|]. vm_compute. discriminate. Qed.

(** * Unicode string literals U&'...' *)
Ltac Zify.zify_post_hook ::= Z.div_mod_to_equations.
Lemma hexdigit_of_ok v : v < 16 -> is_hexdigit (hexdigit_of v) = true /\ hexval (hexdigit_of v) = v /\
  (hexdigit_of v =? cBSL) = false /\ (hexdigit_of v =? cPLUS) = false /\ (hexdigit_of v =? cSQ) = false.
Proof.
  intro H. assert (Hc : v = 0 \/ v = 1 \/ v = 2 \/ v = 3 \/ v = 4 \/ v = 5 \/ v = 6 \/ v = 7 \/ v = 8 \/ v = 9 \/
                        v = 10 \/ v = 11 \/ v = 12 \/ v = 13 \/ v = 14 \/ v = 15) by lia.
  repeat (destruct Hc as [-> | Hc]; [vm_compute; repeat split; reflexivity|]). subst. vm_compute. repeat split; reflexivity.
Qed.

(** [hex_digits] on [k] well-formed digits followed by anything *)
Lemma hex_digits_app : forall ds acc r,
  Forall (fun c => is_hexdigit c = true) ds ->
  hex_digits (length ds) acc (ds ++ r) =
    let v := fold_left (fun a c => a * 16 + hexval c) ds acc in
    if valid_scalar v then Ok (v, r) else Err (EInvalidUnicode v) r.
Proof.
  induction ds as [|c ds IH]; intros acc r H; cbn [length hex_digits app fold_left]; [reflexivity|].
  inversion H; subst. rewrite H2. apply IH. assumption.
Qed.

Lemma hex4_value c : c <= 65535 ->
  Forall (fun x => is_hexdigit x = true) (hex4 c) /\
  fold_left (fun a x => a * 16 + hexval x) (hex4 c) 0 = c /\ length (hex4 c) = 4%nat.
Proof.
  intro H. unfold hex4.
  assert (H3 : c / 4096 mod 16 < 16) by (apply N.mod_lt; lia).
  assert (H2 : c / 256 mod 16 < 16) by (apply N.mod_lt; lia).
  assert (H1 : c / 16 mod 16 < 16) by (apply N.mod_lt; lia).
  assert (H0 : c mod 16 < 16) by (apply N.mod_lt; lia).
  destruct (hexdigit_of_ok _ H3) as (A3 & B3 & _), (hexdigit_of_ok _ H2) as (A2 & B2 & _),
           (hexdigit_of_ok _ H1) as (A1 & B1 & _), (hexdigit_of_ok _ H0) as (A0 & B0 & _).
  split; [repeat constructor; assumption|]. split; [|reflexivity].
  cbn [fold_left]. rewrite B3, B2, B1, B0. lia.
Qed.

Lemma hex6_value c : c <= 16777215 ->
  Forall (fun x => is_hexdigit x = true) (hex6 c) /\
  fold_left (fun a x => a * 16 + hexval x) (hex6 c) 0 = c /\ length (hex6 c) = 6%nat.
Proof.
  intro H. unfold hex6.
  assert (H5 : c / 1048576 mod 16 < 16) by (apply N.mod_lt; lia).
  assert (H4 : c / 65536 mod 16 < 16) by (apply N.mod_lt; lia).
  assert (Hm : c mod 65536 <= 65535) by (pose proof (N.mod_lt c 65536); lia).
  destruct (hexdigit_of_ok _ H5) as (A5 & B5 & _), (hexdigit_of_ok _ H4) as (A4 & B4 & _).
  destruct (hex4_value _ Hm) as (F & V & L).
  split; [constructor; [assumption|constructor; [assumption|exact F]]|]. split.
  - cbn [app fold_left]. rewrite B5, B4.
    assert (G : forall l a, fold_left (fun a x => a * 16 + hexval x) l a =
                            a * 16 ^ N.of_nat (length l) + fold_left (fun a x => a * 16 + hexval x) l 0).
    { induction l as [|x l IH]; intro a; cbn [fold_left length]; [cbn; lia|].
      rewrite IH, (IH (0 * 16 + hexval x)). rewrite Nat2N.inj_succ, N.pow_succ_r'. lia. }
    rewrite G, V, L. change (16 ^ N.of_nat 4) with 65536. lia.
  - cbn [app length]. rewrite L. reflexivity.
Qed.

Lemma hex4_head c : c <= 65535 -> exists h t, hex4 c = h :: t /\ (h =? cBSL) = false /\ (h =? cPLUS) = false.
Proof. intro H. unfold hex4. eexists _, _. split; [reflexivity|].
  assert (H3 : c / 4096 mod 16 < 16) by (apply N.mod_lt; lia).
  destruct (hexdigit_of_ok _ H3) as (_ & _ & A & B & _). auto. Qed.

(** U&'...' round trip at scanner level *)
Theorem uni_roundtrip : forall p fuel rest,
  Forall (fun c => valid_scalar c = true) p -> starts_with_c cSQ rest = false ->
  (length (escape_unicode p ++ cSQ :: rest) < fuel)%nat ->
  uni_loop fuel (escape_unicode p ++ cSQ :: rest) = Ok (p, rest).
Proof.
  induction p as [|c p IH]; intros fuel rest Hv Hrest Hf.
  - cbn [escape_unicode flat_map app] in *. destruct fuel as [|f]; [cbn in Hf; lia|].
    cbn [uni_loop]. rewrite ?N.eqb_refl. destruct rest as [|c2 r2]; [reflexivity|].
    cbn [starts_with_c] in Hrest. rewrite Hrest. reflexivity.
  - inversion Hv as [|x l Hc Hp]; subst. unfold escape_unicode in *. cbn [flat_map] in *. rewrite <- app_assoc in *.
    destruct fuel as [|f]; [cbn in Hf; lia|].
    unfold uni_char in *.
    destruct (c =? cSQ) eqn:E1.
    { apply N.eqb_eq in E1. subst c. cbn [app] in *. cbn [uni_loop]. rewrite ?N.eqb_refl. cbn [length] in Hf.
      rewrite ?N.eqb_refl. rewrite IH; [reflexivity|assumption|assumption|lia]. }
    destruct (c =? cBSL) eqn:E2.
    { apply N.eqb_eq in E2. subst c. cbn [app] in *. cbn [uni_loop]. change (cBSL =? cSQ) with false. cbv iota.
      rewrite ?N.eqb_refl. cbn [length] in Hf. rewrite IH; [reflexivity|assumption|assumption|lia]. }
    destruct (c <? 128) eqn:E3.
    { cbn [app] in *. cbn [uni_loop]. rewrite E1, E2. cbn [length] in Hf.
      rewrite IH; [reflexivity|assumption|assumption|lia]. }
    destruct (c <=? 65535) eqn:E4.
    { apply N.leb_le in E4. cbn [app] in *. cbn [uni_loop]. change (cBSL =? cSQ) with false. cbv iota.
      rewrite ?N.eqb_refl. destruct (hex4_head c E4) as (h & t & Hh & Hb & Hpl).
      destruct (hex4_value c E4) as (F & V & L).
      rewrite Hh in *. cbn [app]. rewrite Hb, Hpl.
      change (h :: t ++ flat_map _ p ++ cSQ :: rest) with ((h :: t) ++ flat_map
        (fun c0 : N => if c0 =? cSQ then [cSQ; cSQ] else if c0 =? cBSL then [cBSL; cBSL] else if c0 <? 128 then [c0]
                        else if c0 <=? 65535 then cBSL :: hex4 c0 else cBSL :: cPLUS :: hex6 c0) p ++ cSQ :: rest).
      replace 4%nat with (length (h :: t)) by exact L.
      rewrite hex_digits_app by exact F. cbv zeta. rewrite V, Hc.
      rewrite IH; [reflexivity|assumption|assumption|]. cbn [length app] in Hf. rewrite app_length in Hf. cbn [length] in L. lia. }
    { apply N.leb_gt in E4. unfold valid_scalar in Hc.
      assert (Hle : c <= 16777215).
      { destruct (c <? 55296) eqn:Ea; [apply N.ltb_lt in Ea; lia|]. cbn [orb] in Hc.
        apply andb_true_iff in Hc as [_ Hc]. apply N.leb_le in Hc. lia. }
      cbn [app] in *. cbn [uni_loop]. change (cBSL =? cSQ) with false. cbv iota.
      rewrite ?N.eqb_refl. change (cPLUS =? cBSL) with false. cbv iota. rewrite ?N.eqb_refl.
      destruct (hex6_value c Hle) as (F & V & L).
      replace 6%nat with (length (hex6 c)) by exact L.
      rewrite hex_digits_app by exact F. cbv zeta. rewrite V.
      assert (Hc' : valid_scalar c = true) by (inversion Hv; assumption). rewrite Hc'.
      rewrite IH; [reflexivity|assumption|assumption|]. cbn [length] in Hf. rewrite app_length in Hf. lia. }
Qed.

(** token level, dialects with Unicode string literals *)
Theorem unicode_one_token d u p : d_unicode_lit d = true ->
  Forall (fun c => valid_scalar c = true) p ->
  tokenize d u true (print_str KUnicode p) = LexOk [(TStr KUnicode p, (1, 1))].
Proof.
  intros Hd Hv. apply tokenize_single; [discriminate|]. unfold print_str.
  unfold next_token.
  cbv beta iota delta [N.eqb Pos.eqb andb orb negb cSP cTAB cLF cCR cSQ cDQ cAMP peek_is tl].
  rewrite Hd. cbv beta iota delta [andb]. fold cSQ.
  rewrite uni_roundtrip; [reflexivity|exact Hv|reflexivity|cbn [length]; lia].
Qed.
