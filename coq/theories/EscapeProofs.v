(** Print -> lex round trips for the literal printers (C06) and raw-body lemmas (C20). *)
Require Import SqlV.Base SqlV.Lexer SqlV.LexerProofs SqlV.Escape.
From Coq Require Import ZArith ZifyBool ZifyN ZifyNat Arith.
Local Open Scope N_scope.

Lemma has_pair_cons_false a b x l : has_pair a b (x :: l) = false -> has_pair a b l = false.
Proof. destruct l as [|y l]; [reflexivity|]. cbn [has_pair]. intro H. apply orb_false_iff in H as [_ H]. exact H. Qed.
Lemma has_pair_head_false a b x y l : has_pair a b (x :: y :: l) = false -> (x =? a) && (y =? b) = false.
Proof. cbn [has_pair]. intro H. apply orb_false_iff in H as [H _]. exact H. Qed.
Lemma has_char_cons_false a x l : has_char a (x :: l) = false -> (x =? a) = false /\ has_char a l = false.
Proof. unfold has_char. cbn [existsb]. intro H. apply orb_false_iff in H. exact H. Qed.

Section QuoteDoubling.
  Variable q : N.
  Hypothesis q_not_bsl : (q =? cBSL) = false.

  (** ** The quote-doubling printer against the One-quote string scanner *)
  (** [Good bs prev p]: the payload is outside the known-finding class, seen from a point where
      the previous printed character was [prev]. *)
  Definition Good (bs : bool) (prev : N) (p : str) : Prop :=
    has_pair q q p = false /\ has_pair cBSL q p = false /\
    (bs = true -> has_char cBSL p = false) /\
    (prev = cBSL -> starts_with_c q p = false).

  Lemma Good_tail_same bs prev ch r : Good bs prev (ch :: r) -> (ch =? q) = false -> Good bs ch r.
  Proof.
    intros (H1 & H2 & H3 & H4) Hch. repeat split.
    - eapply has_pair_cons_false; eauto.
    - eapply has_pair_cons_false; eauto.
    - intro Hb. specialize (H3 Hb). apply has_char_cons_false in H3. tauto.
    - intros ->. destruct r as [|y r']; [reflexivity|]. cbn [starts_with_c].
      apply has_pair_head_false in H2. rewrite N.eqb_refl in H2. exact H2.
  Qed.
  Lemma Good_tail_quote bs prev r : Good bs prev (q :: r) -> Good bs q r /\ starts_with_c q r = false.
  Proof.
    intros (H1 & H2 & H3 & H4). split; [repeat split|].
    - eapply has_pair_cons_false; eauto.
    - eapply has_pair_cons_false; eauto.
    - intro Hb. specialize (H3 Hb). apply has_char_cons_false in H3. tauto.
    - intros E. apply N.eqb_eq in E. congruence.
    - destruct r as [|y r']; [reflexivity|]. cbn [starts_with_c].
      apply has_pair_head_false in H1. rewrite N.eqb_refl in H1. exact H1.
  Qed.

  Theorem qs_escape_quoted bs : forall p prev ncq rest,
    Good bs prev p -> starts_with_c q rest = false ->
    qs_loop true q false bs ncq (eq_loop q prev p ++ q :: rest) = Some (p, rest).
  Proof.
    induction p as [|ch r IH]; intros prev ncq rest HG Hrest.
    - cbn [eq_loop app qs_loop]. rewrite N.eqb_refl. cbn [andb].
      destruct rest as [|c2 r2]; [reflexivity|]. cbn [starts_with_c] in Hrest. rewrite Hrest. reflexivity.
    - cbn [eq_loop]. destruct (ch =? q) eqn:Ech.
      + apply N.eqb_eq in Ech. subst ch.
        destruct (prev =? cBSL) eqn:Ep.
        { apply N.eqb_eq in Ep. destruct HG as (_ & _ & _ & H4). specialize (H4 Ep).
          cbn [starts_with_c] in H4. rewrite N.eqb_refl in H4. discriminate. }
        destruct (Good_tail_quote _ _ _ HG) as (HG' & Hsw).
        assert (Hpr : eq_loop q prev (q :: r) = q :: q :: eq_loop q q r).
        { cbn [eq_loop]. rewrite N.eqb_refl, Ep. destruct r as [|c2 r2]; [reflexivity|].
          cbn [starts_with_c] in Hsw. rewrite Hsw. reflexivity. }
        cbn [eq_loop] in Hpr. rewrite N.eqb_refl, Ep in Hpr. rewrite Hpr.
        cbn [app qs_loop]. rewrite N.eqb_refl. cbn [andb].
        rewrite (IH q ncq rest HG' Hrest). reflexivity.
      + cbn [app qs_loop]. rewrite Ech. cbn [andb].
        assert (Hb : (ch =? cBSL) && bs = false).
        { destruct bs; [|apply andb_false_r]. destruct HG as (_ & _ & H3 & _).
          specialize (H3 eq_refl). apply has_char_cons_false in H3. rewrite (proj1 H3). reflexivity. }
        rewrite Hb. rewrite (IH ch 0 rest); [reflexivity| |exact Hrest].
        eapply Good_tail_same; eauto.
  Qed.

  (** ** ... and against the quoted-identifier scanner (no backslash handling there) *)
  Theorem ident_escape_quoted : forall p prev rest,
    Good false prev p -> starts_with_c q rest = false ->
    quoted_ident true q (eq_loop q prev p ++ q :: rest) = Some (p, rest).
  Proof.
    induction p as [|ch r IH]; intros prev rest HG Hrest.
    - cbn [eq_loop app quoted_ident]. rewrite N.eqb_refl.
      destruct rest as [|c2 r2]; [reflexivity|]. cbn [starts_with_c] in Hrest. rewrite Hrest. reflexivity.
    - cbn [eq_loop]. destruct (ch =? q) eqn:Ech.
      + apply N.eqb_eq in Ech. subst ch.
        destruct (prev =? cBSL) eqn:Ep.
        { apply N.eqb_eq in Ep. destruct HG as (_ & _ & _ & H4). specialize (H4 Ep).
          cbn [starts_with_c] in H4. rewrite N.eqb_refl in H4. discriminate. }
        destruct (Good_tail_quote _ _ _ HG) as (HG' & Hsw).
        assert (Hpr : eq_loop q prev (q :: r) = q :: q :: eq_loop q q r).
        { cbn [eq_loop]. rewrite N.eqb_refl, Ep. destruct r as [|c2 r2]; [reflexivity|].
          cbn [starts_with_c] in Hsw. rewrite Hsw. reflexivity. }
        cbn [eq_loop] in Hpr. rewrite N.eqb_refl, Ep in Hpr. rewrite Hpr.
        cbn [app quoted_ident]. rewrite N.eqb_refl.
        rewrite (IH q rest HG' Hrest). reflexivity.
      + cbn [app quoted_ident]. rewrite Ech. rewrite (IH ch rest); [reflexivity| |exact Hrest].
        eapply Good_tail_same; eauto.
  Qed.

  (** ** Verbatim printers: payloads without the terminator (and, when the scanner un-escapes
      backslashes, without backslash) *)
  Theorem qs_verbatim bs unesc : forall p ncq rest,
    has_char q p = false -> (bs = true -> has_char cBSL p = false) -> starts_with_c q rest = false ->
    qs_loop unesc q false bs ncq (p ++ q :: rest) = Some (p, rest).
  Proof.
    induction p as [|ch r IH]; intros ncq rest Hq Hb Hrest.
    - cbn [app qs_loop]. rewrite N.eqb_refl. cbn [andb].
      destruct rest as [|c2 r2]; [reflexivity|]. cbn [starts_with_c] in Hrest. rewrite Hrest. reflexivity.
    - apply has_char_cons_false in Hq as [Hq1 Hq2]. cbn [app qs_loop]. rewrite Hq1. cbn [andb].
      assert (Hbb : (ch =? cBSL) && bs = false).
      { destruct bs; [|apply andb_false_r]. specialize (Hb eq_refl). apply has_char_cons_false in Hb.
        rewrite (proj1 Hb). reflexivity. }
      rewrite Hbb. rewrite IH; auto. intro Hbs. specialize (Hb Hbs). apply has_char_cons_false in Hb. tauto.
  Qed.
End QuoteDoubling.

(** ** Escaped strings E'...': full round trip, no exception class *)
Lemma esc_one_sq r : esc_one (cSQ :: r) = Some (cSQ, r).
Proof. reflexivity. Qed.
Lemma esc_one_bsl r : esc_one (cBSL :: r) = Some (cBSL, r).
Proof. reflexivity. Qed.
Lemma esc_one_n r : esc_one (110 :: r) = Some (10, r).
Proof. reflexivity. Qed.
Lemma esc_one_t r : esc_one (116 :: r) = Some (9, r).
Proof. reflexivity. Qed.
Lemma esc_one_r r : esc_one (114 :: r) = Some (13, r).
Proof. reflexivity. Qed.

Theorem esc_roundtrip : forall p fuel rest,
  starts_with_c cSQ rest = false ->
  (length (escape_escaped p ++ cSQ :: rest) < fuel)%nat ->
  esc_loop fuel (escape_escaped p ++ cSQ :: rest) = Some (p, rest).
Proof.
  induction p as [|c p IH]; intros fuel rest Hrest Hf.
  - cbn [escape_escaped flat_map app] in *. destruct fuel as [|f]; [cbn in Hf; lia|].
    cbn [esc_loop]. rewrite N.eqb_refl. destruct rest as [|c2 r2]; [reflexivity|].
    cbn [starts_with_c] in Hrest. rewrite Hrest. reflexivity.
  - unfold escape_escaped in *. cbn [flat_map] in *. rewrite <- app_assoc in *.
    unfold esc_char in *.
    destruct (c =? cSQ) eqn:E1.
    { apply N.eqb_eq in E1. subst c. cbn [app] in *. destruct fuel as [|f]; [cbn in Hf; lia|].
      cbn [esc_loop]. change (cBSL =? cSQ) with false. change (negb (cBSL =? cBSL)) with false. cbv iota.
      rewrite esc_one_sq. change (cSQ =? 0) with false. cbv iota.
      rewrite IH; [reflexivity|exact Hrest|cbn [length] in Hf; lia]. }
    destruct (c =? cBSL) eqn:E2.
    { apply N.eqb_eq in E2. subst c. cbn [app] in *. destruct fuel as [|f]; [cbn in Hf; lia|].
      cbn [esc_loop]. change (cBSL =? cSQ) with false. change (negb (cBSL =? cBSL)) with false. cbv iota.
      rewrite esc_one_bsl. change (cBSL =? 0) with false. cbv iota.
      rewrite IH; [reflexivity|exact Hrest|cbn [length] in Hf; lia]. }
    destruct (c =? cLF) eqn:E3.
    { apply N.eqb_eq in E3. subst c. cbn [app] in *. destruct fuel as [|f]; [cbn in Hf; lia|].
      cbn [esc_loop]. change (cBSL =? cSQ) with false. change (negb (cBSL =? cBSL)) with false. cbv iota.
      rewrite esc_one_n.
      change (10 =? 0) with false. cbv iota.
      rewrite IH; [reflexivity|exact Hrest|cbn [length] in Hf; lia]. }
    destruct (c =? cTAB) eqn:E4.
    { apply N.eqb_eq in E4. subst c. cbn [app] in *. destruct fuel as [|f]; [cbn in Hf; lia|].
      cbn [esc_loop]. change (cBSL =? cSQ) with false. change (negb (cBSL =? cBSL)) with false. cbv iota.
      rewrite esc_one_t.
      change (9 =? 0) with false. cbv iota.
      rewrite IH; [reflexivity|exact Hrest|cbn [length] in Hf; lia]. }
    destruct (c =? cCR) eqn:E5.
    { apply N.eqb_eq in E5. subst c. cbn [app] in *. destruct fuel as [|f]; [cbn in Hf; lia|].
      cbn [esc_loop]. change (cBSL =? cSQ) with false. change (negb (cBSL =? cBSL)) with false. cbv iota.
      rewrite esc_one_r.
      change (13 =? 0) with false. cbv iota.
      rewrite IH; [reflexivity|exact Hrest|cbn [length] in Hf; lia]. }
    cbn [app] in *. destruct fuel as [|f]; [cbn in Hf; lia|].
    cbn [esc_loop]. rewrite E1, E2. cbn [negb].
    rewrite IH; [reflexivity|exact Hrest|cbn [length] in Hf; lia].
Qed.

(** * Token level: the printed text lexes to exactly one token carrying the payload *)
Section OneToken.
  Variable d : dialect.
  Variable u : uni.

  Lemma tokenize_single unesc l t : l <> [] ->
    next_token d u unesc l = Ok (Some (t, [])) -> tokenize d u unesc l = LexOk [(t, (1, 1))].
  Proof.
    intros Hl Hn. unfold tokenize. destruct l as [|c l]; [congruence|].
    cbn [length tokenize_from]. rewrite Hn. reflexivity.
  Qed.

  Lemma starts_nil c : starts_with_c c [] = false. Proof. reflexivity. Qed.

  (** E'...' : every dialect, every payload *)
  Theorem escaped_one_token p :
    tokenize d u true (print_str KEscaped p) = LexOk [(TStr KEscaped p, (1, 1))].
  Proof.
    apply tokenize_single; [discriminate|]. unfold print_str.
    change (next_token d u true (69 :: cSQ :: escape_escaped p ++ [cSQ]))
      with (match esc_loop (length (cSQ :: escape_escaped p ++ [cSQ])) (escape_escaped p ++ [cSQ]) with
            | Some (s, r') => ret (TStr KEscaped s) r'
            | None => Err EUnterminatedEncoded (69 :: cSQ :: escape_escaped p ++ [cSQ]) end).
    rewrite esc_roundtrip; [reflexivity|reflexivity|cbn [length]; lia].
  Qed.

  (** '...' in dialects without triple-quoted strings, payload outside the known class *)
  Theorem single_one_token p :
    d_triple d = false -> known_quoted cSQ (d_backslash d) false p = false ->
    tokenize d u true (print_str KSingle p) = LexOk [(TStr KSingle p, (1, 1))].
  Proof.
    intros Ht Hk. apply tokenize_single; [discriminate|]. unfold print_str.
    change (next_token d u true (cSQ :: escape_quoted cSQ p ++ [cSQ]))
      with (if d_triple d then
              lift (single_or_triple true cSQ (d_backslash d) KSingle KTripleSingle (cSQ :: escape_quoted cSQ p ++ [cSQ])) (fun x => retp x)
            else lift (single_quoted true cSQ (d_backslash d) (cSQ :: escape_quoted cSQ p ++ [cSQ]))
                   (fun '(s, r') => ret (TStr KSingle s) r')).
    rewrite Ht. unfold single_quoted. rewrite N.eqb_refl. unfold escape_quoted.
    rewrite (qs_escape_quoted cSQ eq_refl); [reflexivity| |reflexivity].
    unfold known_quoted in Hk. rewrite andb_false_l, orb_false_r in Hk.
    apply orb_false_iff in Hk as [Hk H3]. apply orb_false_iff in Hk as [H1 H2].
    repeat split; auto.
    - intro Hb. rewrite Hb in H3. exact H3.
    - discriminate.
  Qed.

  (** N'...' and X'...' are printed verbatim; their scanner un-escapes backslashes *)
  Theorem national_one_token p :
    has_char cSQ p = false -> has_char cBSL p = false ->
    tokenize d u true (print_str KNational p) = LexOk [(TStr KNational p, (1, 1))].
  Proof.
    intros H1 H2. apply tokenize_single; [discriminate|]. unfold print_str.
    change (next_token d u true (78 :: cSQ :: p ++ [cSQ]))
      with (if ((78 =? 66) || (78 =? 98)) && d_bq_or_generic d then next_token d u true (78 :: cSQ :: p ++ [cSQ])
            else if ((78 =? 82) || (78 =? 114)) && d_bq_or_generic d then next_token d u true (78 :: cSQ :: p ++ [cSQ])
            else lift (single_quoted true cSQ true (cSQ :: p ++ [cSQ])) (fun '(s, r') => ret (TStr KNational s) r')).
    cbn [N.eqb orb andb]. unfold single_quoted. rewrite N.eqb_refl.
    rewrite (qs_verbatim cSQ true true p 0 []); auto.
  Qed.

  (** quoted identifiers "..." and `...` *)
  Theorem ident_one_token q p :
    (q = cDQ \/ q = cBQ) -> d_delim_start d q = true -> d_piq d = PiqAlways ->
    has_pair q q p = false -> has_pair cBSL q p = false ->
    tokenize d u true (print_ident q p) = LexOk [(TWord p (Some q), (1, 1))].
  Proof.
    intros Hq Hd Hpiq H1 H2. apply tokenize_single.
    { unfold print_ident. destruct (q =? cLBR); discriminate. }
    assert (Hg : Good q false 0 p) by (repeat split; auto; discriminate).
    destruct Hq as [-> | ->]; unfold print_ident.
    - change (cDQ =? cLBR) with false. cbv iota.
      unfold next_token.
      cbv beta iota delta [N.eqb Pos.eqb andb orb negb cSP cTAB cLF cCR cSQ cDQ cBQ cBSL peek_is is_digit N.leb N.compare Pos.compare Pos.compare_cont cDOT].
      change 34 with cDQ. rewrite Hd. cbv beta iota delta [andb negb].
      unfold proper_inside_quotes. rewrite Hpiq. cbv iota.
      change (matching_end_quote cDQ) with (Some cDQ). cbv iota.
      unfold escape_quoted. rewrite (ident_escape_quoted cDQ eq_refl); auto.
    - change (cBQ =? cLBR) with false. cbv iota.
      unfold next_token.
      cbv beta iota delta [N.eqb Pos.eqb andb orb negb cSP cTAB cLF cCR cSQ cDQ cBQ cBSL peek_is is_digit N.leb N.compare Pos.compare Pos.compare_cont cDOT].
      change 96 with cBQ. rewrite Hd. cbv beta iota delta [andb negb].
      unfold proper_inside_quotes. rewrite Hpiq. cbv iota.
      change (matching_end_quote cBQ) with (Some cBQ). cbv iota.
      unfold escape_quoted. rewrite (ident_escape_quoted cBQ eq_refl); auto.
  Qed.
End OneToken.

(** * Refutation witnesses inside the known classes (evaluated on an arbitrary minimal dialect) *)
Definition plain_dialect : dialect :=
  {| d_ident_start := fun c => ((97 <=? c) && (c <=? 122)) || ((65 <=? c) && (c <=? 90)) || (c =? cUS);
     d_ident_part := fun c => ((97 <=? c) && (c <=? 122)) || ((65 <=? c) && (c <=? 90)) || (c =? cUS) || is_digit c;
     d_delim_start := fun c => c =? cDQ; d_custom_op := fun _ => false; d_piq := PiqAlways;
     d_backslash := false; d_unicode_lit := false; d_triple := false; d_numeric_prefix := false;
     d_bq_or_generic := false; d_snowflake := false; d_duck_or_generic := false; d_sf_or_bq := false; d_pg := false |}.
Definition plain_uni : uni :=
  {| u_whitespace := fun c => (c =? cSP) || (c =? cTAB) || (c =? cLF) || (c =? cCR);
     u_numeric := is_digit; u_alphanumeric := fun c => d_ident_part plain_dialect c && negb (c =? cUS) |}.

(** payload  a''b  (already doubled): printed unchanged, lexes to  a'b *)
Lemma single_doubled_refuted : exists p,
  has_pair cSQ cSQ p = true /\
  tokenize plain_dialect plain_uni true (print_str KSingle p) <> LexOk [(TStr KSingle p, (1, 1))].
Proof. exists (s2l "a" ++ [cSQ; cSQ] ++ s2l "b"). split; [reflexivity|]. vm_compute. discriminate. Qed.

(** payload  a'b  in a national literal: printed verbatim, the quote ends the literal *)
Lemma national_quote_refuted : exists p,
  has_char cSQ p = true /\
  tokenize plain_dialect plain_uni true (print_str KNational p) <> LexOk [(TStr KNational p, (1, 1))].
Proof. exists (s2l "a" ++ [cSQ] ++ s2l "b"). split; [reflexivity|]. vm_compute. discriminate. Qed.
