(** Print -> lex round trips for the remaining literal kinds of C06: byte strings B'..'/B"..",
    raw strings R'..'/R"..", triple-quoted strings (plain, byte, raw), bracket identifiers [..],
    untagged and tagged dollar-quoted strings.  All these printers emit the payload verbatim, so
    each theorem carries the decidable class of payloads the scanner cannot give back, and each
    class comes with a computed refutation witness. *)
Require Import SqlV.Base SqlV.Lexer SqlV.LexerProofs SqlV.Escape SqlV.EscapeProofs.
From Coq Require Import ZArith ZifyBool ZifyN ZifyNat Arith.
Local Open Scope N_scope.

(** * Exception classes *)
Fixpoint ends_with_c (a : N) (l : str) : bool :=
  match l with
  | [] => false
  | [x] => x =? a
  | _ :: r => ends_with_c a r
  end.
Fixpoint has_triple (a : N) (l : str) : bool :=
  match l with
  | x :: ((y :: z :: _) as r) => ((x =? a) && (y =? a) && (z =? a)) || has_triple a r
  | _ => false
  end.

(** verbatim one-quote literals (B, R, N, X): the terminator, and a backslash when the scanner
    un-escapes *)
Definition known_verbatim (q : N) (bs : bool) (p : str) : bool :=
  has_char q p || (bs && has_char cBSL p).
(** triple-quoted literals: three quotes in a row, a trailing quote, and a backslash when the
    dialect un-escapes *)
Definition known_triple (q : N) (bs : bool) (p : str) : bool :=
  has_triple q p || ends_with_c q p || (bs && has_char cBSL p).
(** dollar-quoted strings *)
Definition known_dollar (p : str) : bool := has_pair cDOLLAR cDOLLAR p || ends_with_c cDOLLAR p.
Definition known_dollar_tagged (p : str) : bool := has_char cDOLLAR p.

(** * Scanner level *)
Section Scanners.
  Variable unesc : bool.

  (** ** one-quote verbatim literals through both entry points *)
  Theorem sq_verbatim q bs p rest :
    known_verbatim q bs p = false -> starts_with_c q rest = false ->
    single_quoted unesc q bs (q :: p ++ q :: rest) = Ok (p, rest).
  Proof.
    unfold known_verbatim. intros [H1 H2]%orb_false_iff Hr. unfold single_quoted. rewrite N.eqb_refl.
    rewrite qs_verbatim; auto. intros ->. exact H2.
  Qed.

  Theorem sot_verbatim q bs k1 k3 p rest :
    known_verbatim q bs p = false -> starts_with_c q rest = false ->
    single_or_triple unesc q bs k1 k3 (q :: p ++ q :: rest) = Ok (TStr k1 p, rest).
  Proof.
    unfold known_verbatim. intros [H1 H2]%orb_false_iff Hr. unfold single_or_triple. rewrite N.eqb_refl.
    destruct p as [|x p]; cbn [app].
    - rewrite N.eqb_refl. destruct rest as [|c3 r3]; [reflexivity|].
      cbn [starts_with_c] in Hr. rewrite Hr. reflexivity.
    - pose proof (has_char_cons_false _ _ _ H1) as [Hx _]. rewrite Hx.
      change (x :: p ++ q :: rest) with ((x :: p) ++ q :: rest).
      rewrite qs_verbatim; auto. intros ->. exact H2.
  Qed.

  (** ** triple-quoted literals *)
  (** [tq_ok q ncq p]: scanning [p] from a state with [ncq] pending quotes never sees a third
      quote in a row and ends with no quote pending *)
  Fixpoint tq_ok (q ncq : N) (p : str) : bool :=
    match p with
    | [] => ncq =? 0
    | ch :: r => if ch =? q then negb (ncq + 1 =? 3) && tq_ok q (ncq + 1) r else tq_ok q 0 r
    end.

  Lemma qs_triple q bs : (q =? cBSL) = false -> forall p ncq rest,
    tq_ok q ncq p = true -> (bs = true -> has_char cBSL p = false) ->
    qs_loop unesc q true bs ncq (p ++ q :: q :: q :: rest) = Some (p ++ [q; q], rest).
  Proof.
    intros Hq. induction p as [|ch r IH]; intros ncq rest Hok Hb.
    - cbn [tq_ok] in Hok. apply N.eqb_eq in Hok. subst ncq. cbn [app qs_loop].
      rewrite !N.eqb_refl, Hq.
      change (0 + 1 =? 3) with false. change (0 + 1 + 1 =? 3) with false. change (0 + 1 + 1 + 1 =? 3) with true.
      cbn [andb]. reflexivity.
    - cbn [tq_ok] in Hok. cbn [app qs_loop].
      assert (Hbb : (ch =? cBSL) && bs = false).
      { destruct bs; [|apply andb_false_r]. specialize (Hb eq_refl). apply has_char_cons_false in Hb.
        rewrite (proj1 Hb). reflexivity. }
      assert (Hb' : bs = true -> has_char cBSL r = false).
      { intro E. specialize (Hb E). apply has_char_cons_false in Hb. tauto. }
      destruct (ch =? q) eqn:Ech.
      + apply andb_true_iff in Hok as [Hn Hok]. apply negb_true_iff in Hn. rewrite Hn. cbn [andb].
        rewrite Hbb. rewrite (IH _ _ Hok Hb'). reflexivity.
      + cbn [andb]. rewrite Hbb. rewrite (IH _ _ Hok Hb'). reflexivity.
  Qed.

  Lemma strip2_app2 (p : str) a b : strip2 (p ++ [a; b]) = p.
  Proof. unfold strip2. change [a; b] with ([a] ++ [b]). rewrite app_assoc, !removelast_last. reflexivity. Qed.

  Theorem sot_triple q bs k1 k3 p rest : (q =? cBSL) = false ->
    tq_ok q 0 p = true -> (bs = true -> has_char cBSL p = false) ->
    single_or_triple unesc q bs k1 k3 (q :: q :: q :: p ++ q :: q :: q :: rest) = Ok (TStr k3 p, rest).
  Proof.
    intros Hq Hok Hb. unfold single_or_triple. rewrite !N.eqb_refl.
    rewrite (qs_triple q bs Hq p 0 rest Hok Hb), strip2_app2. reflexivity.
  Qed.

  (** ** bracket identifiers (and any delimited identifier printed verbatim) *)
  Theorem ident_verbatim qe : forall p rest,
    has_char qe p = false -> starts_with_c qe rest = false ->
    quoted_ident unesc qe (p ++ qe :: rest) = Some (p, rest).
  Proof.
    induction p as [|ch r IH]; intros rest Hp Hr.
    - cbn [app quoted_ident]. rewrite N.eqb_refl. destruct rest as [|c2 r2]; [reflexivity|].
      cbn [starts_with_c] in Hr. rewrite Hr. reflexivity.
    - apply has_char_cons_false in Hp as [H1 H2]. cbn [app quoted_ident]. rewrite H1.
      rewrite IH; auto.
  Qed.
End Scanners.

Lemma has_triple_cons a x y z l :
  has_triple a (x :: y :: z :: l) = ((x =? a) && (y =? a) && (z =? a)) || has_triple a (y :: z :: l).
Proof. reflexivity. Qed.

(** the class of triple-quoted payloads in plain words *)
Lemma tq_ok_spec q : forall p k, (k <= 2)%nat ->
  tq_ok q (N.of_nat k) p =
  negb (has_triple q (repeat q k ++ p)) && negb (ends_with_c q (repeat q k ++ p)).
Proof.
  induction p as [|ch r IH]; intros k Hk.
  - cbn [tq_ok]. rewrite app_nil_r.
    destruct k as [|[|[|k]]]; [reflexivity| | |lia]; cbn [repeat has_triple ends_with_c N.of_nat];
      rewrite ?N.eqb_refl; reflexivity.
  - cbn [tq_ok]. destruct (ch =? q) eqn:Ech.
    + apply N.eqb_eq in Ech. subst ch.
      destruct k as [|[|[|k]]]; [| | |lia].
      * change (N.of_nat 0 + 1) with (N.of_nat 1). rewrite (IH 1%nat) by lia. reflexivity.
      * change (N.of_nat 1 + 1) with (N.of_nat 2). rewrite (IH 2%nat) by lia. reflexivity.
      * change (N.of_nat 2 + 1 =? 3) with true. cbn [negb andb repeat app has_triple].
        rewrite !N.eqb_refl. reflexivity.
    + pose proof (IH 0%nat ltac:(lia)) as IH0. cbn [N.of_nat repeat app] in IH0. rewrite IH0. clear IH0.
      assert (He : forall l, ends_with_c q (ch :: l) = ends_with_c q l).
      { intros [|y l]; [cbn [ends_with_c]; exact Ech|reflexivity]. }
      assert (Ht : forall l, has_triple q (ch :: l) = has_triple q l).
      { intros [|y [|z l]]; try reflexivity. rewrite has_triple_cons, Ech. reflexivity. }
      assert (H1 : forall l, has_triple q (q :: ch :: l) = has_triple q (ch :: l)).
      { intros [|z l]; [reflexivity|]. rewrite has_triple_cons, Ech, andb_false_r. reflexivity. }
      assert (H2 : forall l, has_triple q (q :: q :: ch :: l) = has_triple q (q :: ch :: l)).
      { intros l. rewrite has_triple_cons, Ech, andb_false_r. reflexivity. }
      destruct k as [|[|[|k]]]; [| | |lia]; cbn [repeat app].
      * rewrite Ht, He. reflexivity.
      * rewrite H1, Ht. change (ends_with_c q (q :: ch :: r)) with (ends_with_c q (ch :: r)).
        rewrite He. reflexivity.
      * rewrite H2, H1, Ht. change (ends_with_c q (q :: q :: ch :: r)) with (ends_with_c q (ch :: r)).
        rewrite He. reflexivity.
Qed.

Lemma known_triple_ok q bs p : known_triple q bs p = false ->
  tq_ok q 0 p = true /\ (bs = true -> has_char cBSL p = false).
Proof.
  unfold known_triple. intros [[H1 H2]%orb_false_iff H3]%orb_false_iff. split.
  - pose proof (tq_ok_spec q p 0%nat ltac:(lia)) as E. cbn [N.of_nat repeat app] in E.
    rewrite E, H1, H2. reflexivity.
  - intros ->. exact H3.
Qed.

(** ** dollar-quoted strings *)
Lemma ends_with_tail a x r : ends_with_c a (x :: r) = false -> ends_with_c a r = false.
Proof. destruct r; [reflexivity|]. exact (fun H => H). Qed.

Definition pending_dollar (prev : option N) : bool :=
  match prev with Some x => x =? cDOLLAR | None => false end.

Lemma dq_gen : forall p prev rest,
  has_pair cDOLLAR cDOLLAR p = false -> ends_with_c cDOLLAR p = false ->
  (pending_dollar prev = true -> starts_with_c cDOLLAR p = false /\ p <> []) ->
  dq_loop prev (p ++ cDOLLAR :: cDOLLAR :: rest) =
  Some ((if pending_dollar prev then [cDOLLAR] else []) ++ p, rest).
Proof.
  induction p as [|ch r IH]; intros prev rest H1 H2 H3.
  - assert (Hp : pending_dollar prev = false).
    { destruct (pending_dollar prev); [|reflexivity]. destruct (H3 eq_refl) as [_ H]. congruence. }
    rewrite Hp. cbn [app dq_loop].
    destruct prev as [x|]; cbn [pending_dollar] in Hp; rewrite ?Hp, ?N.eqb_refl; cbn [negb];
      rewrite ?N.eqb_refl; reflexivity.
  - pose proof (has_pair_cons_false _ _ _ _ H1) as H1'. pose proof (ends_with_tail _ _ _ H2) as H2'.
    assert (Hpush : (ch =? cDOLLAR) = false ->
              dq_loop (Some ch) (r ++ cDOLLAR :: cDOLLAR :: rest) = Some (r, rest)).
    { intro Ech. rewrite (IH (Some ch) rest H1' H2'); cbn [pending_dollar]; rewrite Ech; [reflexivity|discriminate]. }
    assert (Hskip : (ch =? cDOLLAR) = true ->
              dq_loop (Some ch) (r ++ cDOLLAR :: cDOLLAR :: rest) = Some (ch :: r, rest)).
    { intro Ech. rewrite (IH (Some ch) rest H1' H2'); cbn [pending_dollar]; rewrite Ech.
      - apply N.eqb_eq in Ech. subst ch. reflexivity.
      - intros _. apply N.eqb_eq in Ech. subst ch. destruct r as [|y r]; [discriminate|]. split; [|discriminate].
        apply has_pair_head_false in H1. rewrite N.eqb_refl in H1. exact H1. }
    cbn [app dq_loop]. destruct prev as [x|]; cbn [pending_dollar] in *.
    + destruct (x =? cDOLLAR) eqn:Ex.
      * destruct (H3 eq_refl) as [Hs _]. cbn [starts_with_c] in Hs. rewrite Hs, (Hpush Hs). reflexivity.
      * destruct (ch =? cDOLLAR) eqn:Ech; cbn [negb]; [rewrite (Hskip eq_refl)|rewrite (Hpush eq_refl)]; reflexivity.
    + destruct (ch =? cDOLLAR) eqn:Ech; cbn [negb]; [rewrite (Hskip eq_refl)|rewrite (Hpush eq_refl)]; reflexivity.
Qed.

Theorem dq_verbatim p rest : known_dollar p = false ->
  dq_loop None (p ++ cDOLLAR :: cDOLLAR :: rest) = Some (p, rest).
Proof.
  unfold known_dollar. intros [H1 H2]%orb_false_iff.
  rewrite (dq_gen p None rest H1 H2); [reflexivity|discriminate].
Qed.

Lemma tw_all p l x r : forallb p l = true -> p x = false -> take_while p (l ++ x :: r) = (l, x :: r).
Proof.
  induction l as [|c l IH]; cbn [forallb app take_while]; intros Hl Hx.
  - rewrite Hx. reflexivity.
  - apply andb_true_iff in Hl as [Hc Hl]. rewrite Hc, (IH Hl Hx). reflexivity.
Qed.
Lemma match_tag_self tag r : match_tag tag (tag ++ r) = TagEq r.
Proof. induction tag as [|c tag IH]; cbn [app match_tag]; [reflexivity|]. rewrite N.eqb_refl, IH. reflexivity. Qed.
Lemma no_dollar_forallb p : has_char cDOLLAR p = false ->
  forallb (fun ch => negb (ch =? cDOLLAR)) p = true.
Proof. induction p as [|c p IH]; [reflexivity|]. intros [H1 H2]%has_char_cons_false.
  cbn [forallb]. rewrite H1, (IH H2). reflexivity. Qed.

Theorem tagged_verbatim tag p rest f : known_dollar_tagged p = false ->
  tagged_loop (S f) tag (p ++ cDOLLAR :: tag ++ cDOLLAR :: rest) = Ok (p, rest).
Proof.
  unfold known_dollar_tagged. intro Hp. cbn [tagged_loop].
  rewrite (tw_all _ p cDOLLAR _ (no_dollar_forallb p Hp) eq_refl).
  rewrite match_tag_self. rewrite N.eqb_refl. reflexivity.
Qed.

Theorem dollar_value_untagged u p rest : known_dollar p = false ->
  dollar_value u (cDOLLAR :: cDOLLAR :: p ++ cDOLLAR :: cDOLLAR :: rest) = Ok (TDollar p None, rest).
Proof. intro Hp. unfold dollar_value. cbn [tl]. rewrite N.eqb_refl, (dq_verbatim p rest Hp). reflexivity. Qed.

(** a tag the lexer reads back: non-empty, made of alphanumerics and '_' *)
Definition tag_ok (u : uni) (tag : str) : bool :=
  negb (match tag with [] => true | _ => false end) &&
  forallb (fun ch => u_alphanumeric u ch || (ch =? cUS)) tag.

Theorem dollar_value_tagged u tag p rest :
  tag_ok u tag = true -> u_alphanumeric u cDOLLAR = false -> known_dollar_tagged p = false ->
  dollar_value u (cDOLLAR :: tag ++ cDOLLAR :: p ++ cDOLLAR :: tag ++ cDOLLAR :: rest)
    = Ok (TDollar p (Some tag), rest).
Proof.
  unfold tag_ok. intros [Hne Hall]%andb_true_iff Hd Hp.
  destruct tag as [|t0 tag]; [discriminate|]. unfold dollar_value. cbn [tl app].
  assert (Ht0 : (t0 =? cDOLLAR) = false).
  { apply N.eqb_neq. intros ->. cbn [forallb] in Hall. rewrite Hd in Hall. discriminate. }
  rewrite Ht0.
  change (t0 :: tag ++ cDOLLAR :: p ++ cDOLLAR :: t0 :: tag ++ cDOLLAR :: rest)
    with ((t0 :: tag) ++ cDOLLAR :: p ++ cDOLLAR :: (t0 :: tag) ++ cDOLLAR :: rest).
  rewrite (tw_all _ (t0 :: tag) cDOLLAR _ Hall); [|rewrite Hd; reflexivity].
  rewrite N.eqb_refl, tagged_verbatim by exact Hp. reflexivity.
Qed.

(** * Token level: the printed text lexes to exactly one token carrying the payload *)
Section Tokens.
  Variable d : dialect.
  Variable u : uni.
  Variable unesc : bool.

  Ltac chain :=
    cbv beta iota delta [N.eqb Pos.eqb andb orb negb cSP cTAB cLF cCR cSQ cDQ cBQ cBSL cLBR cRBR
      cDOLLAR cDOT cMINUS cSLASH cPLUS cSTAR cPCT cPIPE cEQ cBANG cLT cGT cCOLON cAMP cCARET cHASH
      cTILDE cAT cQM cUS peek_is tl is_digit N.leb N.compare Pos.compare Pos.compare_cont
      matching_end_quote].

  Ltac verb q Hp :=
    first [ rewrite (sot_verbatim unesc q false _ _ _ []) | rewrite (sq_verbatim unesc q false _ []) ];
    [reflexivity| unfold known_verbatim; rewrite Hp; reflexivity | reflexivity].

  (** B'..' and B".." (one-quote form; through either entry point) *)
  Theorem byte_single_one_token p : d_bq_or_generic d = true -> known_verbatim cSQ false p = false ->
    tokenize d u unesc (print_str KByteSingle p) = LexOk [(TStr KByteSingle p, (1, 1))].
  Proof.
    intros Hbq Hp. apply tokenize_single; [discriminate|]. unfold print_str, next_token. chain.
    rewrite Hbq. cbv beta iota delta [andb]. destruct (d_triple d); unfold lift.
    - rewrite (sot_verbatim unesc 39 false _ _ p []); [reflexivity|exact Hp|reflexivity].
    - rewrite (sq_verbatim unesc 39 false p []); [reflexivity|exact Hp|reflexivity].
  Qed.
  Theorem byte_double_one_token p : d_bq_or_generic d = true -> known_verbatim cDQ false p = false ->
    tokenize d u unesc (print_str KByteDouble p) = LexOk [(TStr KByteDouble p, (1, 1))].
  Proof.
    intros Hbq Hp. apply tokenize_single; [discriminate|]. unfold print_str, next_token. chain.
    rewrite Hbq. cbv beta iota delta [andb]. destruct (d_triple d); unfold lift.
    - rewrite (sot_verbatim unesc 34 false _ _ p []); [reflexivity|exact Hp|reflexivity].
    - rewrite (sq_verbatim unesc 34 false p []); [reflexivity|exact Hp|reflexivity].
  Qed.

  (** R'..' and R"..": always through [single_or_triple] *)
  Theorem raw_single_one_token p : d_bq_or_generic d = true -> known_verbatim cSQ false p = false ->
    tokenize d u unesc (print_str KRawSingle p) = LexOk [(TStr KRawSingle p, (1, 1))].
  Proof.
    intros Hbq Hp. apply tokenize_single; [discriminate|]. unfold print_str, next_token. chain.
    rewrite Hbq. cbv beta iota delta [andb]. unfold lift.
    rewrite (sot_verbatim unesc 39 false _ _ p []); [reflexivity|exact Hp|reflexivity].
  Qed.
  Theorem raw_double_one_token p : d_bq_or_generic d = true -> known_verbatim cDQ false p = false ->
    tokenize d u unesc (print_str KRawDouble p) = LexOk [(TStr KRawDouble p, (1, 1))].
  Proof.
    intros Hbq Hp. apply tokenize_single; [discriminate|]. unfold print_str, next_token. chain.
    rewrite Hbq. cbv beta iota delta [andb]. unfold lift.
    rewrite (sot_verbatim unesc 34 false _ _ p []); [reflexivity|exact Hp|reflexivity].
  Qed.

  (** triple-quoted strings *)
  Theorem triple_single_one_token p : d_triple d = true -> known_triple cSQ (d_backslash d) p = false ->
    tokenize d u unesc (print_str KTripleSingle p) = LexOk [(TStr KTripleSingle p, (1, 1))].
  Proof.
    intros Ht Hp. destruct (known_triple_ok _ _ _ Hp) as [H1 H2].
    apply tokenize_single; [discriminate|]. unfold print_str. cbn [app]. unfold next_token. chain.
    rewrite Ht. unfold lift.
    rewrite (sot_triple unesc 39 (d_backslash d) _ _ p [] eq_refl H1 H2). reflexivity.
  Qed.
  Theorem triple_double_one_token p : d_triple d = true ->
    d_delim_start d cDQ = false -> d_ident_start d cDQ = false ->
    known_triple cDQ (d_backslash d) p = false ->
    tokenize d u unesc (print_str KTripleDouble p) = LexOk [(TStr KTripleDouble p, (1, 1))].
  Proof.
    intros Ht Hd Hi Hp. destruct (known_triple_ok _ _ _ Hp) as [H1 H2].
    apply tokenize_single; [discriminate|]. unfold print_str. cbn [app]. unfold next_token. chain.
    cbv delta [cDQ] in Hd, Hi. rewrite Hd, Hi. cbv beta iota delta [andb negb]. rewrite Ht. unfold lift.
    rewrite (sot_triple unesc 34 (d_backslash d) _ _ p [] eq_refl H1 H2). reflexivity.
  Qed.
  Theorem triple_byte_single_one_token p : d_bq_or_generic d = true -> d_triple d = true ->
    known_triple cSQ false p = false ->
    tokenize d u unesc (print_str KTripleByteSingle p) = LexOk [(TStr KTripleByteSingle p, (1, 1))].
  Proof.
    intros Hbq Ht Hp. destruct (known_triple_ok _ _ _ Hp) as [H1 H2].
    apply tokenize_single; [discriminate|]. unfold print_str. cbn [app]. unfold next_token. chain.
    rewrite Hbq. cbv beta iota delta [andb]. rewrite Ht. unfold lift.
    rewrite (sot_triple unesc 39 false _ _ p [] eq_refl H1 H2). reflexivity.
  Qed.
  Theorem triple_byte_double_one_token p : d_bq_or_generic d = true -> d_triple d = true ->
    known_triple cDQ false p = false ->
    tokenize d u unesc (print_str KTripleByteDouble p) = LexOk [(TStr KTripleByteDouble p, (1, 1))].
  Proof.
    intros Hbq Ht Hp. destruct (known_triple_ok _ _ _ Hp) as [H1 H2].
    apply tokenize_single; [discriminate|]. unfold print_str. cbn [app]. unfold next_token. chain.
    rewrite Hbq. cbv beta iota delta [andb]. rewrite Ht. unfold lift.
    rewrite (sot_triple unesc 34 false _ _ p [] eq_refl H1 H2). reflexivity.
  Qed.
  Theorem triple_raw_single_one_token p : d_bq_or_generic d = true ->
    known_triple cSQ false p = false ->
    tokenize d u unesc (print_str KTripleRawSingle p) = LexOk [(TStr KTripleRawSingle p, (1, 1))].
  Proof.
    intros Hbq Hp. destruct (known_triple_ok _ _ _ Hp) as [H1 H2].
    apply tokenize_single; [discriminate|]. unfold print_str. cbn [app]. unfold next_token. chain.
    rewrite Hbq. cbv beta iota delta [andb]. unfold lift.
    rewrite (sot_triple unesc 39 false _ _ p [] eq_refl H1 H2). reflexivity.
  Qed.
  Theorem triple_raw_double_one_token p : d_bq_or_generic d = true ->
    known_triple cDQ false p = false ->
    tokenize d u unesc (print_str KTripleRawDouble p) = LexOk [(TStr KTripleRawDouble p, (1, 1))].
  Proof.
    intros Hbq Hp. destruct (known_triple_ok _ _ _ Hp) as [H1 H2].
    apply tokenize_single; [discriminate|]. unfold print_str. cbn [app]. unfold next_token. chain.
    rewrite Hbq. cbv beta iota delta [andb]. unfold lift.
    rewrite (sot_triple unesc 34 false _ _ p [] eq_refl H1 H2). reflexivity.
  Qed.

  (** bracket identifiers *)
  Theorem bracket_one_token p :
    d_delim_start d cLBR = true -> d_piq d = PiqAlways -> has_char cRBR p = false ->
    tokenize d u unesc (print_ident cLBR p) = LexOk [(TWord p (Some cLBR), (1, 1))].
  Proof.
    intros Hd Hpiq Hp. unfold print_ident. change (cLBR =? cLBR) with true. cbv iota.
    apply tokenize_single; [discriminate|]. unfold next_token. chain.
    cbv delta [cLBR] in Hd. rewrite Hd. cbv beta iota delta [andb negb].
    unfold proper_inside_quotes. rewrite Hpiq. cbv iota.
    rewrite (ident_verbatim unesc 93 p [] Hp eq_refl). reflexivity.
  Qed.

  (** dollar-quoted strings *)
  Theorem dollar_one_token p :
    d_delim_start d cDOLLAR = false -> d_ident_start d cDOLLAR = false -> known_dollar p = false ->
    tokenize d u unesc (print_dollar None p) = LexOk [(TDollar p None, (1, 1))].
  Proof.
    intros Hd Hi Hp. unfold print_dollar. apply tokenize_single; [discriminate|].
    unfold next_token. chain. cbv delta [cDOLLAR] in Hd, Hi. rewrite Hd. chain. rewrite Hi.
    pose proof (dollar_value_untagged u p [] Hp) as E. cbv delta [cDOLLAR] in E.
    unfold lift. rewrite E. reflexivity.
  Qed.
  Theorem dollar_tagged_one_token tag p :
    d_delim_start d cDOLLAR = false -> d_ident_start d cDOLLAR = false ->
    tag_ok u tag = true -> u_alphanumeric u cDOLLAR = false -> known_dollar_tagged p = false ->
    tokenize d u unesc (print_dollar (Some tag) p) = LexOk [(TDollar p (Some tag), (1, 1))].
  Proof.
    intros Hd Hi Htag Hu Hp. unfold print_dollar. apply tokenize_single; [discriminate|].
    unfold next_token. chain. cbv delta [cDOLLAR] in Hd, Hi. rewrite Hd. chain. rewrite Hi.
    pose proof (dollar_value_tagged u tag p [] Htag Hu Hp) as E. cbv delta [cDOLLAR] in E.
    unfold lift. rewrite E. reflexivity.
  Qed.
End Tokens.

(** * Refutation witnesses inside the classes (computed on a minimal dialect that lexes all the
    kinds: BigQuery-like byte/raw/triple strings with backslash escapes, [..] identifiers) *)
Definition rich_dialect : dialect :=
  {| d_ident_start := fun c => ((97 <=? c) && (c <=? 122)) || ((65 <=? c) && (c <=? 90)) || (c =? cUS);
     d_ident_part := fun c => ((97 <=? c) && (c <=? 122)) || ((65 <=? c) && (c <=? 90)) || (c =? cUS) || is_digit c;
     d_delim_start := fun c => (c =? cLBR) || (c =? cBQ); d_custom_op := fun _ => false; d_piq := PiqAlways;
     d_backslash := true; d_unicode_lit := false; d_triple := true; d_numeric_prefix := false;
     d_bq_or_generic := true; d_snowflake := false; d_duck_or_generic := false; d_sf_or_bq := false; d_pg := false |}.

(** the hypotheses of the token-level theorems hold for this dialect *)
Example rich_dialect_ok :
  d_bq_or_generic rich_dialect = true /\ d_triple rich_dialect = true /\
  d_delim_start rich_dialect cDQ = false /\ d_ident_start rich_dialect cDQ = false /\
  d_delim_start rich_dialect cLBR = true /\ d_piq rich_dialect = PiqAlways /\
  d_delim_start rich_dialect cDOLLAR = false /\ d_ident_start rich_dialect cDOLLAR = false /\
  u_alphanumeric plain_uni cDOLLAR = false /\ tag_ok plain_uni (s2l "t") = true.
Proof. repeat split; reflexivity. Qed.

Notation lexes_back k p :=
  (tokenize rich_dialect plain_uni true (print_str k p) = LexOk [(TStr k p, (1, 1))]).

(** B'a'b': the quote ends the literal *)
Lemma byte_quote_refuted : exists p, known_verbatim cSQ false p = true /\ ~ lexes_back KByteSingle p.
Proof. exists (s2l "a" ++ [cSQ] ++ s2l "b"). split; [reflexivity|]. vm_compute. discriminate. Qed.
Lemma byte_double_quote_refuted : exists p, known_verbatim cDQ false p = true /\ ~ lexes_back KByteDouble p.
Proof. exists (s2l "a" ++ [cDQ] ++ s2l "b"). split; [reflexivity|]. vm_compute. discriminate. Qed.
Lemma raw_quote_refuted : exists p, known_verbatim cSQ false p = true /\ ~ lexes_back KRawSingle p.
Proof. exists (s2l "a" ++ [cSQ] ++ s2l "b"). split; [reflexivity|]. vm_compute. discriminate. Qed.
(** R''a': a payload that starts with the quote opens a triple-quoted literal *)
Lemma raw_leading_quote_refuted : exists p,
  starts_with_c cSQ p = true /\ known_verbatim cSQ false p = true /\ ~ lexes_back KRawSingle p.
Proof. exists ([cSQ] ++ s2l "a"). repeat split; try reflexivity. vm_compute. discriminate. Qed.
Lemma raw_double_quote_refuted : exists p, known_verbatim cDQ false p = true /\ ~ lexes_back KRawDouble p.
Proof. exists (s2l "a" ++ [cDQ] ++ s2l "b"). split; [reflexivity|]. vm_compute. discriminate. Qed.

(** '''a'''': a trailing quote is taken for the first closing quote *)
Lemma triple_trailing_quote_refuted : exists p,
  ends_with_c cSQ p = true /\ known_triple cSQ true p = true /\ ~ lexes_back KTripleSingle p.
Proof. exists (s2l "a" ++ [cSQ]). repeat split; try reflexivity. vm_compute. discriminate. Qed.
Lemma triple_inner_refuted : exists p,
  has_triple cSQ p = true /\ known_triple cSQ true p = true /\ ~ lexes_back KTripleSingle p.
Proof. exists (s2l "a" ++ [cSQ; cSQ; cSQ] ++ s2l "b"). repeat split; try reflexivity. vm_compute. discriminate. Qed.
(** a backslash is un-escaped by dialects with backslash escapes *)
Lemma triple_backslash_refuted : exists p,
  has_char cBSL p = true /\ known_triple cDQ true p = true /\ ~ lexes_back KTripleDouble p.
Proof. exists (s2l "a" ++ [cBSL] ++ s2l "nb"). repeat split; try reflexivity. vm_compute. discriminate. Qed.
Lemma triple_raw_trailing_quote_refuted : exists p,
  known_triple cSQ false p = true /\ ~ lexes_back KTripleRawSingle p.
Proof. exists (s2l "a" ++ [cSQ]). split; [reflexivity|]. vm_compute. discriminate. Qed.
Lemma triple_byte_trailing_quote_refuted : exists p,
  known_triple cDQ false p = true /\ ~ lexes_back KTripleByteDouble p.
Proof. exists (s2l "a" ++ [cDQ]). split; [reflexivity|]. vm_compute. discriminate. Qed.

(** [a]b] *)
Lemma bracket_refuted : exists p, has_char cRBR p = true /\
  tokenize rich_dialect plain_uni true (print_ident cLBR p) <> LexOk [(TWord p (Some cLBR), (1, 1))].
Proof. exists (s2l "a" ++ [cRBR] ++ s2l "b"). split; [reflexivity|]. vm_compute. discriminate. Qed.

(** $$a$$b$$ and $$a$$$ *)
Lemma dollar_pair_refuted : exists p, has_pair cDOLLAR cDOLLAR p = true /\ known_dollar p = true /\
  tokenize rich_dialect plain_uni true (print_dollar None p) <> LexOk [(TDollar p None, (1, 1))].
Proof. exists (s2l "a$$b"). repeat split; try reflexivity. vm_compute. discriminate. Qed.
Lemma dollar_trailing_refuted : exists p, ends_with_c cDOLLAR p = true /\ known_dollar p = true /\
  tokenize rich_dialect plain_uni true (print_dollar None p) <> LexOk [(TDollar p None, (1, 1))].
Proof. exists (s2l "a$"). repeat split; try reflexivity. vm_compute. discriminate. Qed.
(** a single dollar inside an untagged payload is outside the class and does come back *)
Example dollar_single_inside : known_dollar (s2l "a$b") = false /\ known_dollar (s2l "$a") = false.
Proof. split; reflexivity. Qed.

(** $t$$t$$t$: the payload "$t$" closes the literal at once *)
Lemma dollar_tagged_refuted : exists tag p, tag_ok plain_uni tag = true /\ known_dollar_tagged p = true /\
  tokenize rich_dialect plain_uni true (print_dollar (Some tag) p) <> LexOk [(TDollar p (Some tag), (1, 1))].
Proof. exists (s2l "t"), (s2l "$t$"). repeat split; try reflexivity. vm_compute. discriminate. Qed.
(** the class of tagged payloads over-approximates: "a$b" is in it and still comes back *)
Example dollar_tagged_class_not_exact :
  known_dollar_tagged (s2l "a$b") = true /\
  tokenize rich_dialect plain_uni true (print_dollar (Some (s2l "t")) (s2l "a$b"))
    = LexOk [(TDollar (s2l "a$b") (Some (s2l "t")), (1, 1))].
Proof. split; vm_compute; reflexivity. Qed.
(** an empty tag prints as the untagged form and is read back without a tag *)
Lemma dollar_empty_tag_refuted : exists p, tag_ok plain_uni [] = false /\ known_dollar_tagged p = false /\
  tokenize rich_dialect plain_uni true (print_dollar (Some []) p) = LexOk [(TDollar p None, (1, 1))].
Proof. exists (s2l "a"). repeat split; vm_compute; reflexivity. Qed.

Print Assumptions sq_verbatim.
Print Assumptions sot_verbatim.
Print Assumptions sot_triple.
Print Assumptions tq_ok_spec.
Print Assumptions ident_verbatim.
Print Assumptions dq_verbatim.
Print Assumptions tagged_verbatim.
Print Assumptions dollar_value_untagged.
Print Assumptions dollar_value_tagged.
Print Assumptions byte_single_one_token.
Print Assumptions byte_double_one_token.
Print Assumptions raw_single_one_token.
Print Assumptions raw_double_one_token.
Print Assumptions triple_single_one_token.
Print Assumptions triple_double_one_token.
Print Assumptions triple_byte_single_one_token.
Print Assumptions triple_byte_double_one_token.
Print Assumptions triple_raw_single_one_token.
Print Assumptions triple_raw_double_one_token.
Print Assumptions bracket_one_token.
Print Assumptions dollar_one_token.
Print Assumptions dollar_tagged_one_token.
Print Assumptions triple_trailing_quote_refuted.
Print Assumptions dollar_tagged_refuted.
