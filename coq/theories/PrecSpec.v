(** C04 — specification of "the precedence-climbing tree", independent of the algorithm.

    Tokens and trees of the operator core, the yield of a tree, and [Correct fl lvl t ts]:
    [t] yields exactly [ts] and at every node
      (R) every node on the left spine of the node's right-open operand was consumed under a
          power strictly greater than the level the operand is parsed at, and
      (L) every node on the right spine of the node's left operand has a right level >= the
          power under which the node's own operator token is consumed;
    interior operands (delimited by keywords or brackets) obey (R) at their own level.
    Also here: the pinned published order of binding powers (what the crate documents at this
    commit) and the order-isomorphism test applied to the tables dumped from the running crate. *)
From SqlV Require Import Base.

(** * Keys: everything that has a binding power.  Ids are fixed here; names are the names the
    harness uses for the dumped values (class:<Precedence variant>, kw:<keyword sequence>,
    <Token variant>). *)
Definition C_DoubleColon := 0.  Definition C_AtTz := 1.       Definition C_MulDivModOp := 2.
Definition C_PlusMinus := 3.    Definition C_Xor := 4.        Definition C_Ampersand := 5.
Definition C_Caret := 6.        Definition C_Pipe := 7.       Definition C_Between := 8.
Definition C_Eq := 9.           Definition C_Like := 10.      Definition C_Is := 11.
Definition C_PgOther := 12.     Definition C_UnaryNot := 13.  Definition C_And := 14.
Definition C_Or := 15.
Definition K_UNKNOWN := 16.
Definition K_IS := 17.          Definition K_IN := 18.        Definition K_NOT_IN := 19.
Definition K_BETWEEN := 20.     Definition K_NOT_BETWEEN := 21.
Definition K_LIKE := 22.        Definition K_NOT_LIKE := 23.
Definition K_ILIKE := 24.       Definition K_NOT_ILIKE := 25.
Definition K_SIMILAR := 26.     Definition K_NOT_SIMILAR := 27.
Definition K_RLIKE := 28.       Definition K_NOT_RLIKE := 29.
Definition K_REGEXP := 30.      Definition K_NOT_REGEXP := 31.
Definition K_ATTZ := 32.        Definition K_DCOLON := 33.    Definition K_EXCL := 34.
Definition K_LBRACKET := 35.    Definition K_COLON := 36.     Definition K_COLLATE := 37.
Definition K_DIV := 38.         Definition K_OPERATOR := 39.
Definition K_AND := 40.         Definition K_OR := 41.        Definition K_XOR := 42.
Definition K_Plus := 51.        Definition K_Minus := 52.     Definition K_Tilde := 66.
Definition K_Arrow := 74.

Local Open Scope string_scope.
(** id, name, default level, PostgreSQL level.  Levels are the crate's documented numbers at the
    pinned commit; only their order and ties matter ([published_order]). *)
Definition key_table : list (N * string * N * N) := [
  (0, "class:DoubleColon", 50, 140); (1, "class:AtTz", 41, 110); (2, "class:MulDivModOp", 40, 90);
  (3, "class:PlusMinus", 30, 80); (4, "class:Xor", 24, 75); (5, "class:Ampersand", 23, 70);
  (6, "class:Caret", 22, 100); (7, "class:Pipe", 21, 70); (8, "class:Between", 20, 60);
  (9, "class:Eq", 20, 50); (10, "class:Like", 19, 60); (11, "class:Is", 17, 40);
  (12, "class:PgOther", 16, 70); (13, "class:UnaryNot", 15, 30); (14, "class:And", 10, 20);
  (15, "class:Or", 5, 10);
  (16, "unknown", 0, 0);
  (17, "kw:IS", 17, 40); (18, "kw:IN", 20, 60); (19, "kw:NOT IN", 20, 60);
  (20, "kw:BETWEEN", 20, 60); (21, "kw:NOT BETWEEN", 20, 60);
  (22, "kw:LIKE", 19, 60); (23, "kw:NOT LIKE", 19, 60);
  (24, "kw:ILIKE", 19, 60); (25, "kw:NOT ILIKE", 19, 60);
  (26, "kw:SIMILAR", 19, 60); (27, "kw:NOT SIMILAR", 19, 60);
  (28, "kw:RLIKE", 19, 60); (29, "kw:NOT RLIKE", 19, 60);
  (30, "kw:REGEXP", 19, 60); (31, "kw:NOT REGEXP", 19, 60);
  (32, "kw:AT TIME ZONE", 41, 110); (33, "DoubleColon", 50, 140); (34, "ExclamationMark", 50, 70);
  (35, "LBracket", 50, 130); (36, "Colon", 0, 0); (37, "kw:COLLATE", 0, 120);
  (38, "kw:DIV", 40, 90); (39, "kw:OPERATOR", 20, 60);
  (40, "kw:AND", 10, 20); (41, "kw:OR", 5, 10); (42, "kw:XOR", 24, 75);
  (43, "Spaceship", 20, 50); (44, "DoubleEq", 20, 50); (45, "Eq", 20, 50); (46, "Neq", 20, 50);
  (47, "Gt", 20, 50); (48, "GtEq", 20, 50); (49, "Lt", 20, 50); (50, "LtEq", 20, 50);
  (51, "Plus", 30, 80); (52, "Minus", 30, 80);
  (53, "Mul", 40, 90); (54, "Mod", 40, 90); (55, "Div", 40, 90); (56, "DuckIntDiv", 40, 90);
  (57, "StringConcat", 40, 70); (58, "Pipe", 21, 70); (59, "Caret", 22, 100);
  (60, "Ampersand", 23, 70); (61, "ShiftLeft", 22, 70); (62, "ShiftRight", 22, 70);
  (63, "Sharp", 22, 70); (64, "Overlap", 50, 70); (65, "CaretAt", 50, 70);
  (66, "Tilde", 20, 50); (67, "TildeAsterisk", 20, 50); (68, "ExclamationMarkTilde", 20, 50);
  (69, "ExclamationMarkTildeAsterisk", 20, 50); (70, "DoubleTilde", 20, 50);
  (71, "DoubleTildeAsterisk", 20, 50); (72, "ExclamationMarkDoubleTilde", 20, 50);
  (73, "ExclamationMarkDoubleTildeAsterisk", 20, 50);
  (74, "Arrow", 16, 70); (75, "LongArrow", 16, 70); (76, "HashArrow", 16, 70);
  (77, "HashLongArrow", 16, 70); (78, "AtArrow", 16, 70); (79, "ArrowAt", 16, 70);
  (80, "HashMinus", 16, 70); (81, "AtQuestion", 16, 70); (82, "AtAt", 16, 70);
  (83, "Question", 16, 70); (84, "QuestionAnd", 16, 70); (85, "QuestionPipe", 16, 70);
  (86, "CustomBinaryOperator", 16, 70);
  (* tokens that are not infix operators: pinned at the unknown level *)
  (87, "DoubleExclamationMark", 0, 0); (88, "AtSign", 0, 0); (89, "PGSquareRoot", 0, 0);
  (90, "PGCubeRoot", 0, 0); (91, "kw:NOT", 0, 0); (92, "kw:AT", 0, 0); (93, "ident", 0, 0);
  (94, "Number", 0, 0); (95, "SingleQuotedString", 0, 0); (96, "LParen", 0, 0);
  (97, "RParen", 0, 0); (98, "Comma", 0, 0); (99, "RBracket", 0, 0); (100, "Period", 0, 0);
  (101, "EOF", 0, 0); (102, "SemiColon", 0, 0) ].
Local Close Scope string_scope.

Definition n_keys : N := 103.

(** Published families: the default table, PostgreSQL's own constants, Snowflake = default with
    [:] at the level of [::]. *)
Inductive family := FDefault | FPostgres | FSnowflake.

Definition pinned_levels (f : family) : list N :=
  map (fun '(id, _, a, b) =>
         match f with
         | FDefault => a
         | FPostgres => b
         | FSnowflake => if id =? K_COLON then 50 else a
         end) key_table.

Definition nthN (l : list N) (k : N) : N := nth (N.to_nat k) l 0.
Definition pinned (f : family) : N -> N := nthN (pinned_levels f).

Local Open Scope string_scope.
Definition dialect_family : list (string * family) := [
  ("generic", FDefault); ("ansi", FDefault); ("bigquery", FDefault); ("clickhouse", FDefault);
  ("databricks", FDefault); ("duckdb", FDefault); ("hive", FDefault); ("mssql", FDefault);
  ("mysql", FDefault); ("postgresql", FPostgres); ("redshift", FDefault);
  ("snowflake", FSnowflake); ("sqlite", FDefault) ].
Local Close Scope string_scope.

(** The dumped table of a dialect (levels aligned with [key_table]) is order-isomorphic to the
    published one: every pair of keys compares the same way, and the unknown level is 0. *)
Definition same_order (a b : list N) : bool :=
  (N.of_nat (length a) =? n_keys) && (N.of_nat (length b) =? n_keys) &&
  forallb (fun i => forallb (fun j =>
     match N.compare (nthN a i) (nthN a j), N.compare (nthN b i) (nthN b j) with
     | Eq, Eq | Lt, Lt | Gt, Gt => true | _, _ => false end)
     (map N.of_nat (seq 0 (N.to_nat n_keys)))) (map N.of_nat (seq 0 (N.to_nat n_keys))).

Definition published_order (f : family) (dumped : list N) : bool :=
  same_order (pinned_levels f) dumped && (nthN dumped K_UNKNOWN =? 0).

Definition key_ids_ok : bool :=
  forallb (fun '(i, (id, _, _, _)) => N.of_nat i =? id) (combine (seq 0 (length key_table)) key_table)
  && (N.of_nat (length key_table) =? n_keys).

(** * Tokens and trees of the operator core *)
Inductive kwd :=
  KNot | KIs | KNull | KTrue | KFalse | KUnknown | KDistinct | KFrom | KIn | KBetween | KLike
| KILike | KSimilar | KTo | KRLike | KRegexp | KEscape | KAt | KTime | KZone | KAny | KAll | KSome
| KUnnest | KDiv | KOperator.

Inductive tok :=
| TAtom (s : bool) (n : N)      (* identifier (s = false) or string literal (s = true) *)
| TType (n : N)                 (* a simple type name after [::] *)
| TOp (k : N)                   (* a token subject to parse_infix's regular_binary_operator: key k *)
| TPre (k : N)                  (* prefix-only operator token (PostgreSQL !! |/ ||/ @) *)
| TKw (k : kwd)
| TLParen | TRParen | TComma | TDoubleColon | TExcl | TLBracket | TRBracket | TColon
| TOther.                       (* anything outside the core *)

Inductive likekind := LLike | LILike | LSimilar | LRLike | LRegexp.

Inductive expr :=
| EAtom (s : bool) (n : N)
| ENested (e : expr)
| ETuple (l : list expr)
| EPre (k : N) (e : expr)                  (* prefix operator token k: + - and the PostgreSQL ones *)
| ENot (e : expr)
| EBin (k : N) (l r : expr)                (* regular binary operator token k *)
| EAnyAll (k : N) (q : kwd) (l r : expr)   (* l <op k> ANY|ALL|SOME ( r ) *)
| EPostfix (e : expr)                      (* e ! *)
| EIs (neg : bool) (w : kwd) (e : expr)    (* e IS [NOT] NULL|TRUE|FALSE|UNKNOWN *)
| EIsDF (neg : bool) (l r : expr)          (* l IS [NOT] DISTINCT FROM r *)
| EAtTz (l r : expr)
| ECast (e : expr) (ty : N)
| ELike (kd : likekind) (neg any : bool) (e pat : expr) (esc : option (bool * N))
| EBetween (neg : bool) (e lo hi : expr)
| EInList (neg : bool) (e : expr) (l : list expr)
| EInUnnest (neg : bool) (e arr : expr)
| EDiv (l r : expr)                        (* MySQL l DIV r *)
| ESubscript (e i : expr).

Definition like_key (kd : likekind) (neg : bool) : N :=
  match kd, neg with
  | LLike, false => K_LIKE | LLike, true => K_NOT_LIKE
  | LILike, false => K_ILIKE | LILike, true => K_NOT_ILIKE
  | LSimilar, false => K_SIMILAR | LSimilar, true => K_NOT_SIMILAR
  | LRLike, false => K_RLIKE | LRLike, true => K_NOT_RLIKE
  | LRegexp, false => K_REGEXP | LRegexp, true => K_NOT_REGEXP
  end.

Definition like_toks (kd : likekind) : list tok :=
  match kd with
  | LLike => [TKw KLike] | LILike => [TKw KILike] | LSimilar => [TKw KSimilar; TKw KTo]
  | LRLike => [TKw KRLike] | LRegexp => [TKw KRegexp]
  end.

Definition not_toks (neg : bool) : list tok := if neg then [TKw KNot] else [].
Definition any_toks (any : bool) : list tok := if any then [TKw KAny] else [].

(** The tokens a tree was built from. *)
Fixpoint yield (e : expr) : list tok :=
  let commas := fix commas (l : list expr) : list tok :=
    match l with
    | [] => []
    | [x] => yield x
    | x :: r => yield x ++ TComma :: commas r
    end in
  match e with
  | EAtom s n => [TAtom s n]
  | ENested x => TLParen :: yield x ++ [TRParen]
  | ETuple l => TLParen :: commas l ++ [TRParen]
  | EPre k x => (if (k =? K_Plus) || (k =? K_Minus) || (k =? K_Tilde) then TOp k else TPre k) :: yield x
  | ENot x => TKw KNot :: yield x
  | EBin k l r => yield l ++ TOp k :: yield r
  | EAnyAll k q l r => yield l ++ TOp k :: TKw q :: TLParen :: yield r ++ [TRParen]
  | EPostfix x => yield x ++ [TExcl]
  | EIs neg w x => yield x ++ TKw KIs :: not_toks neg ++ [TKw w]
  | EIsDF neg l r => yield l ++ TKw KIs :: not_toks neg ++ TKw KDistinct :: TKw KFrom :: yield r
  | EAtTz l r => yield l ++ TKw KAt :: TKw KTime :: TKw KZone :: yield r
  | ECast x ty => yield x ++ [TDoubleColon; TType ty]
  | ELike kd neg any x pat esc =>
      yield x ++ not_toks neg ++ like_toks kd ++ any_toks any ++ yield pat ++
      match esc with Some (s, n) => [TKw KEscape; TAtom s n] | None => [] end
  | EBetween neg x lo hi =>
      yield x ++ not_toks neg ++ TKw KBetween :: yield lo ++ TOp K_AND :: yield hi
  | EInList neg x l => yield x ++ not_toks neg ++ TKw KIn :: TLParen :: commas l ++ [TRParen]
  | EInUnnest neg x a => yield x ++ not_toks neg ++ TKw KIn :: TKw KUnnest :: TLParen :: yield a ++ [TRParen]
  | EDiv l r => yield l ++ TKw KDiv :: yield r
  | ESubscript x i => yield x ++ TLBracket :: yield i ++ [TRBracket]
  end.

(** * The specification *)

(** Which operand levels the published table prescribes can be weakened per construct to state
    what the code does today (known findings): [isdf_ok = false] means the right operand of
    IS [NOT] DISTINCT FROM is parsed at the unknown level; [div_ok] likewise for MySQL DIV. *)
Record flags := { isdf_ok : bool; div_ok : bool }.
Definition published : flags := {| isdf_ok := true; div_ok := true |}.

Definition pre_level_key (k : N) : N :=
  if (k =? K_Plus) || (k =? K_Minus) then C_MulDivModOp else C_PlusMinus.

Section Spec.
  Variable fl : flags.
  Variable lvl : N -> N.

  (** left head: key of the power under which the node's operator token is consumed, and the
      operand to its left *)
  Definition lhead (e : expr) : option (N * expr) :=
    match e with
    | EBin k l _ => Some (k, l)
    | EAnyAll k _ l _ => Some (k, l)
    | EPostfix l => Some (K_EXCL, l)
    | EIs _ _ l => Some (K_IS, l)
    | EIsDF _ l _ => Some (K_IS, l)
    | EAtTz l _ => Some (K_ATTZ, l)
    | ECast l _ => Some (K_DCOLON, l)
    | ELike kd neg _ l _ _ => Some (like_key kd neg, l)
    | EBetween neg l _ _ => Some (if neg then K_NOT_BETWEEN else K_BETWEEN, l)
    | EInList neg l _ => Some (if neg then K_NOT_IN else K_IN, l)
    | EInUnnest neg l _ => Some (if neg then K_NOT_IN else K_IN, l)
    | EDiv l _ => Some (K_DIV, l)
    | ESubscript l _ => Some (K_LBRACKET, l)
    | _ => None
    end.

  (** right head: key of the level at which the right-open last operand is parsed *)
  Definition rhead (e : expr) : option (N * expr) :=
    match e with
    | EPre k r => Some (pre_level_key k, r)
    | ENot r => Some (C_UnaryNot, r)
    | EBin k _ r => Some (k, r)
    | EIsDF _ _ r => Some (if isdf_ok fl then K_IS else K_UNKNOWN, r)
    | EAtTz _ r => Some (K_ATTZ, r)
    | ELike _ _ _ _ pat None => Some (C_Like, pat)
    | EBetween _ _ _ hi => Some (C_Between, hi)
    | EDiv _ r => Some (if div_ok fl then K_DIV else K_UNKNOWN, r)
    | _ => None
    end.

  (** every node on the left spine was consumed under a power > p *)
  Fixpoint lspine_gt (p : N) (e : expr) : Prop :=
    match e with
    | EBin k l _ => p < lvl k /\ lspine_gt p l
    | EAnyAll k _ l _ => p < lvl k /\ lspine_gt p l
    | EPostfix l => p < lvl K_EXCL /\ lspine_gt p l
    | EIs _ _ l => p < lvl K_IS /\ lspine_gt p l
    | EIsDF _ l _ => p < lvl K_IS /\ lspine_gt p l
    | EAtTz l _ => p < lvl K_ATTZ /\ lspine_gt p l
    | ECast l _ => p < lvl K_DCOLON /\ lspine_gt p l
    | ELike kd neg _ l _ _ => p < lvl (like_key kd neg) /\ lspine_gt p l
    | EBetween neg l _ _ => p < lvl (if neg then K_NOT_BETWEEN else K_BETWEEN) /\ lspine_gt p l
    | EInList neg l _ => p < lvl (if neg then K_NOT_IN else K_IN) /\ lspine_gt p l
    | EInUnnest neg l _ => p < lvl (if neg then K_NOT_IN else K_IN) /\ lspine_gt p l
    | EDiv l _ => p < lvl K_DIV /\ lspine_gt p l
    | ESubscript l _ => p < lvl K_LBRACKET /\ lspine_gt p l
    | _ => True
    end.

  (** every node on the right spine parses its right-open operand at a level >= p *)
  Fixpoint rspine_ge (p : N) (e : expr) : Prop :=
    match e with
    | EPre k r => p <= lvl (pre_level_key k) /\ rspine_ge p r
    | ENot r => p <= lvl C_UnaryNot /\ rspine_ge p r
    | EBin k _ r => p <= lvl k /\ rspine_ge p r
    | EIsDF _ _ r => p <= lvl (if isdf_ok fl then K_IS else K_UNKNOWN) /\ rspine_ge p r
    | EAtTz _ r => p <= lvl K_ATTZ /\ rspine_ge p r
    | ELike _ _ _ _ pat None => p <= lvl C_Like /\ rspine_ge p pat
    | EBetween _ _ _ hi => p <= lvl C_Between /\ rspine_ge p hi
    | EDiv _ r => p <= lvl (if div_ok fl then K_DIV else K_UNKNOWN) /\ rspine_ge p r
    | _ => True
    end.

  Definition U : N := lvl K_UNKNOWN.

  (** interior operands obey (R) at the level they are parsed at; BETWEEN's low bound is
      delimited by the AND keyword, which acts with AND's power *)
  Definition interior (e : expr) : Prop :=
    match e with
    | ENested x => lspine_gt U x
    | ETuple l => Forall (lspine_gt U) l
    | EAnyAll k _ _ r => lspine_gt (lvl k) r
    | ELike _ _ _ _ pat (Some _) => lspine_gt (lvl C_Like) pat
    | EBetween _ _ lo _ => lspine_gt (lvl C_Between) lo /\ rspine_ge (lvl K_AND) lo
    | EInList _ _ l => Forall (lspine_gt U) l
    | EInUnnest _ _ a => lspine_gt U a
    | ESubscript _ i => lspine_gt U i
    | _ => True
    end.

  (** the local conditions (L), (R) and the interior ones at one node *)
  Definition local (e : expr) : Prop :=
    match lhead e with Some (k, l) => rspine_ge (lvl k) l | None => True end /\
    match rhead e with Some (k, r) => lspine_gt (lvl k) r | None => True end /\
    interior e.

  Fixpoint wf (e : expr) : Prop :=
    local e /\
    let all := fix all (l : list expr) : Prop :=
      match l with [] => True | x :: r => wf x /\ all r end in
    match e with
    | EAtom _ _ => True
    | ENested x | EPre _ x | ENot x | EPostfix x | EIs _ _ x | ECast x _ => wf x
    | ETuple l => all l
    | EBin _ l r | EAnyAll _ _ l r | EIsDF _ l r | EAtTz l r | EInUnnest _ l r | EDiv l r
    | ESubscript l r => wf l /\ wf r
    | ELike _ _ _ x pat _ => wf x /\ wf pat
    | EBetween _ x lo hi => wf x /\ wf lo /\ wf hi
    | EInList _ x l => wf x /\ all l
    end.

  (** [t] is the precedence-climbing tree of [ts] *)
  Definition Correct_gen (t : expr) (ts : list tok) : Prop :=
    yield t = ts /\ wf t /\ lspine_gt U t.
End Spec.

Definition Correct (lvl : N -> N) := Correct_gen published lvl.

(** * Known-finding class: a tree in which an IS [NOT] DISTINCT FROM (resp. MySQL DIV) node whose
    right operand captured an operator that the published level forbids.  Decidable. *)
Section Loose.
  Variable lvl : N -> N.

  Fixpoint lspine_gtb (p : N) (e : expr) : bool :=
    match e with
    | EBin k l _ => (p <? lvl k) && lspine_gtb p l
    | EAnyAll k _ l _ => (p <? lvl k) && lspine_gtb p l
    | EPostfix l => (p <? lvl K_EXCL) && lspine_gtb p l
    | EIs _ _ l => (p <? lvl K_IS) && lspine_gtb p l
    | EIsDF _ l _ => (p <? lvl K_IS) && lspine_gtb p l
    | EAtTz l _ => (p <? lvl K_ATTZ) && lspine_gtb p l
    | ECast l _ => (p <? lvl K_DCOLON) && lspine_gtb p l
    | ELike kd neg _ l _ _ => (p <? lvl (like_key kd neg)) && lspine_gtb p l
    | EBetween neg l _ _ => (p <? lvl (if neg then K_NOT_BETWEEN else K_BETWEEN)) && lspine_gtb p l
    | EInList neg l _ => (p <? lvl (if neg then K_NOT_IN else K_IN)) && lspine_gtb p l
    | EInUnnest neg l _ => (p <? lvl (if neg then K_NOT_IN else K_IN)) && lspine_gtb p l
    | EDiv l _ => (p <? lvl K_DIV) && lspine_gtb p l
    | ESubscript l _ => (p <? lvl K_LBRACKET) && lspine_gtb p l
    | _ => true
    end.

  Section B.
  Variable fl : flags.
  Fixpoint rspine_geb (p : N) (e : expr) : bool :=
    match e with
    | EPre k r => (p <=? lvl (pre_level_key k)) && rspine_geb p r
    | ENot r => (p <=? lvl C_UnaryNot) && rspine_geb p r
    | EBin k _ r => (p <=? lvl k) && rspine_geb p r
    | EIsDF _ _ r => (p <=? lvl (if isdf_ok fl then K_IS else K_UNKNOWN)) && rspine_geb p r
    | EAtTz _ r => (p <=? lvl K_ATTZ) && rspine_geb p r
    | ELike _ _ _ _ pat None => (p <=? lvl C_Like) && rspine_geb p pat
    | EBetween _ _ _ hi => (p <=? lvl C_Between) && rspine_geb p hi
    | EDiv _ r => (p <=? lvl (if div_ok fl then K_DIV else K_UNKNOWN)) && rspine_geb p r
    | _ => true
    end.

  Definition interiorb (e : expr) : bool :=
    match e with
    | ENested x => lspine_gtb (lvl K_UNKNOWN) x
    | ETuple l => forallb (lspine_gtb (lvl K_UNKNOWN)) l
    | EAnyAll k _ _ r => lspine_gtb (lvl k) r
    | ELike _ _ _ _ pat (Some _) => lspine_gtb (lvl C_Like) pat
    | EBetween _ _ lo _ => lspine_gtb (lvl C_Between) lo && rspine_geb (lvl K_AND) lo
    | EInList _ _ l => forallb (lspine_gtb (lvl K_UNKNOWN)) l
    | EInUnnest _ _ a => lspine_gtb (lvl K_UNKNOWN) a
    | ESubscript _ i => lspine_gtb (lvl K_UNKNOWN) i
    | _ => true
    end.

  Definition localb (e : expr) : bool :=
    match lhead e with Some (k, l) => rspine_geb (lvl k) l | None => true end &&
    match rhead fl e with Some (k, r) => lspine_gtb (lvl k) r | None => true end &&
    interiorb e.

  Fixpoint wfb (e : expr) : bool :=
    localb e &&
    let all := fix all (l : list expr) : bool :=
      match l with [] => true | x :: r => wfb x && all r end in
    match e with
    | EAtom _ _ => true
    | ENested x | EPre _ x | ENot x | EPostfix x | EIs _ _ x | ECast x _ => wfb x
    | ETuple l => all l
    | EBin _ l r | EAnyAll _ _ l r | EIsDF _ l r | EAtTz l r | EInUnnest _ l r | EDiv l r
    | ESubscript l r => wfb l && wfb r
    | ELike _ _ _ x pat _ => wfb x && wfb pat
    | EBetween _ x lo hi => wfb x && wfb lo && wfb hi
    | EInList _ x l => wfb x && all l
    end.
  End B.

  (** some IS [NOT] DISTINCT FROM / DIV node has a right operand that violates (R) at the
      published level *)
  Fixpoint loose (fl : flags) (e : expr) : bool :=
    let any := fix any (l : list expr) : bool :=
      match l with [] => false | x :: r => loose fl x || any r end in
    match e with
    | EAtom _ _ => false
    | ENested x | EPre _ x | ENot x | EPostfix x | EIs _ _ x | ECast x _ => loose fl x
    | ETuple l => any l
    | EIsDF _ l r => (negb (isdf_ok fl) && negb (lspine_gtb (lvl K_IS) r)) || loose fl l || loose fl r
    | EDiv l r => (negb (div_ok fl) && negb (lspine_gtb (lvl K_DIV) r)) || loose fl l || loose fl r
    | EBin _ l r | EAnyAll _ _ l r | EAtTz l r | EInUnnest _ l r | ESubscript l r => loose fl l || loose fl r
    | ELike _ _ _ x pat _ => loose fl x || loose fl pat
    | EBetween _ x lo hi => loose fl x || loose fl lo || loose fl hi
    | EInList _ x l => loose fl x || any l
    end.
End Loose.

(** * Decidable equality on tokens and trees (used by the oracle and the correspondence) *)
Scheme Equality for kwd.
Scheme Equality for likekind.

Definition tok_eqb (a b : tok) : bool :=
  match a, b with
  | TAtom s n, TAtom s' n' => Bool.eqb s s' && (n =? n')
  | TType n, TType n' => n =? n'
  | TOp k, TOp k' => k =? k'
  | TPre k, TPre k' => k =? k'
  | TKw k, TKw k' => kwd_beq k k'
  | TLParen, TLParen | TRParen, TRParen | TComma, TComma | TDoubleColon, TDoubleColon
  | TExcl, TExcl | TLBracket, TLBracket | TRBracket, TRBracket | TColon, TColon
  | TOther, TOther => true
  | _, _ => false
  end.

Fixpoint toks_eqb (a b : list tok) : bool :=
  match a, b with
  | [], [] => true
  | x :: a', y :: b' => tok_eqb x y && toks_eqb a' b'
  | _, _ => false
  end.

Definition esc_eqb (a b : option (bool * N)) : bool :=
  match a, b with
  | None, None => true
  | Some (s, n), Some (s', n') => Bool.eqb s s' && (n =? n')
  | _, _ => false
  end.

Fixpoint expr_eqb (a b : expr) : bool :=
  let list_eqb := fix list_eqb (l m : list expr) : bool :=
    match l, m with
    | [], [] => true
    | x :: l', y :: m' => expr_eqb x y && list_eqb l' m'
    | _, _ => false
    end in
  match a, b with
  | EAtom s n, EAtom s' n' => Bool.eqb s s' && (n =? n')
  | ENested x, ENested y => expr_eqb x y
  | ETuple l, ETuple m => list_eqb l m
  | EPre k x, EPre k' y => (k =? k') && expr_eqb x y
  | ENot x, ENot y => expr_eqb x y
  | EBin k l r, EBin k' l' r' => (k =? k') && expr_eqb l l' && expr_eqb r r'
  | EAnyAll k q l r, EAnyAll k' q' l' r' => (k =? k') && kwd_beq q q' && expr_eqb l l' && expr_eqb r r'
  | EPostfix x, EPostfix y => expr_eqb x y
  | EIs n w x, EIs n' w' y => Bool.eqb n n' && kwd_beq w w' && expr_eqb x y
  | EIsDF n l r, EIsDF n' l' r' => Bool.eqb n n' && expr_eqb l l' && expr_eqb r r'
  | EAtTz l r, EAtTz l' r' => expr_eqb l l' && expr_eqb r r'
  | ECast x t, ECast y t' => expr_eqb x y && (t =? t')
  | ELike kd n a x p e, ELike kd' n' a' x' p' e' =>
      likekind_beq kd kd' && Bool.eqb n n' && Bool.eqb a a' && expr_eqb x x' && expr_eqb p p' && esc_eqb e e'
  | EBetween n x lo hi, EBetween n' x' lo' hi' => Bool.eqb n n' && expr_eqb x x' && expr_eqb lo lo' && expr_eqb hi hi'
  | EInList n x l, EInList n' x' l' => Bool.eqb n n' && expr_eqb x x' && list_eqb l l'
  | EInUnnest n x a, EInUnnest n' x' a' => Bool.eqb n n' && expr_eqb x x' && expr_eqb a a'
  | EDiv l r, EDiv l' r' => expr_eqb l l' && expr_eqb r r'
  | ESubscript x i, ESubscript x' i' => expr_eqb x x' && expr_eqb i i'
  | _, _ => false
  end.

(** The boolean oracle: [correctb fl lvl t ts = true <-> Correct_gen fl lvl t ts] (PrattProofs). *)
Definition correctb (fl : flags) (lvl : N -> N) (t : expr) (ts : list tok) : bool :=
  toks_eqb (yield t) ts && wfb lvl fl t && lspine_gtb lvl (lvl K_UNKNOWN) t.
