(** Abstract work recurrences used to classify backtracking sites (C02): a parser that parses
    each nested construct once is linear in the nesting depth up to the per-level work; one that
    re-parses the nested construct on failure of a speculative attempt doubles per level. *)
From Coq Require Import Arith Lia List.

(** single pass: T(n+1) <= T(n) + P  ==>  T(n) <= T(0) + n*P *)
Theorem single_pass_linear (T : nat -> nat) (P : nat) :
  (forall n, T (S n) <= T n + P) -> forall n, T n <= T 0 + n * P.
Proof. intros H n. induction n as [|n IH]; [lia|]. specialize (H n). lia. Qed.

(** bounded fan-out over strictly smaller parts with polynomial local work stays polynomial:
    T(n+1) <= T(n) + P(n) with P monotone  ==>  T(n) <= T(0) + n * P(n) *)
Theorem single_pass_poly (T P : nat -> nat) :
  (forall a b, a <= b -> P a <= P b) -> (forall n, T (S n) <= T n + P n) ->
  forall n, T n <= T 0 + n * P n.
Proof.
  intros Hm H n. induction n as [|n IH]; [lia|].
  specialize (H n). pose proof (Hm n (S n) ltac:(lia)). nia.
Qed.

(** speculative attempt that parses the nested construct, fails, and falls back to a second
    full parse: T(n+1) >= 2*T(n) + 1  ==>  T(n) >= 2^n - 1 (exponential in the depth) *)
Theorem reparse_exponential (T : nat -> nat) :
  (forall n, T (S n) >= 2 * T n + 1) -> forall n, T n + 1 >= 2 ^ n.
Proof. intros H n. induction n as [|n IH]; cbn [Nat.pow]; [lia|]. specialize (H n). lia. Qed.

(** the measured POSITION( ladder has exactly this shape: steps(n+1) = 2*steps(n) - c *)
Example doubling_sequence_is_exponential :
  forall T, T 0 = 7 -> (forall n, T (S n) = 2 * T n - 6) -> forall n, T n = 2 ^ n + 6.
Proof. intros T H0 H n. induction n as [|n IH]; cbn [Nat.pow]; [lia|]. rewrite H, IH. lia. Qed.
