(** C01 / C05 — the query core: what the model parser [parse_query] returns.
    [query_outputs_wf]   : every tree it returns on an input of at most 10^6 tokens satisfies [qwfg false] - all of
                           [qwf], the hypothesis of [query_roundtrip], except the conservative fragment test
                           [frag_ok] on its expressions - given that its expressions are in canonical spelling
                           ([qcanonical], as in [C01_core]); with [qfragx] (that test) as a hypothesis: [qwf];
    [query_content] / [query_content_ordered] (the model-level C05): for ANY content predicate [keep] that
                           rejects everything that is not an identifier / number / string token, the content
                           tokens of an accepted token list are a permutation of those of the printed result
                           followed by the rest; they are equal, in order, when no (sub)query of the result has
                           both LIMIT and OFFSET (the printer writes LIMIT before OFFSET whatever the input order).
                           Exclusion: an unquoted ESCAPE word ([qword_escape], known finding core:like-escape-word);
    [query_fixpoint]     : parse -> print -> parse gives the same tree and rest back (1 + [query_roundtrip]).
    One invariant per parser function / loop, giving at once "the rest is a suffix of the input",
    well-formedness of the result and the content equation; the mutual recursion (query - body - select - table
    with joins - derived table - expressions with subqueries) is closed by one induction on the fuel. *)
From SqlV Require Import Base PrecSpec Pratt PrattProofs SetOps PrinterCore PrinterCoreProofs QueryCore QueryCoreProofs.
From Coq Require Import ZifyBool ZifyN ZifyNat Permutation.

(** * A property of all expressions [P] and of the LIMIT / OFFSET pair of all queries [T] of a tree *)
Fixpoint ball (P : expr -> bool) (T : option xexpr -> option xexpr -> bool) (b : setexpr) {struct b} : bool :=
  match b with
  | BSelect _ items from wh gb hv =>
      forallb (iall P T) items && forallb (twall P T) from &&
      match wh with Some x => xall P T x | None => true end && forallb (xall P T) gb &&
      match hv with Some x => xall P T x | None => true end
  | BSetOp _ _ l r => ball P T l && ball P T r
  | BNested q => qall P T q
  | BValues rows => forallb (vrall P T) rows
  | BTable _ => true
  end
with vrall (P : expr -> bool) (T : option xexpr -> option xexpr -> bool) (r : vrow) {struct r} : bool :=
  match r with VRow l => forallb (xall P T) l end
with qall (P : expr -> bool) (T : option xexpr -> option xexpr -> bool) (q : query) {struct q} : bool :=
  match q with
  | Query w b ob lim off =>
      match w with Some x => wall P T x | None => true end && ball P T b &&
      (forallb (oall P T) ob && match lim with Some x => xall P T x | None => true end &&
       match off with Some x => xall P T x | None => true end && T lim off)
  end
with trall (P : expr -> bool) (T : option xexpr -> option xexpr -> bool) (t : tref) {struct t} : bool :=
  match t with TTable _ _ => true | TDerived q _ => qall P T q | TNested x _ => twall P T x end
with twall (P : expr -> bool) (T : option xexpr -> option xexpr -> bool) (t : twj) {struct t} : bool :=
  match t with Twj r js => trall P T r && forallb (jall P T) js end
with jall (P : expr -> bool) (T : option xexpr -> option xexpr -> bool) (j : join) {struct j} : bool :=
  match j with Join o r => joall P T o && trall P T r end
with joall (P : expr -> bool) (T : option xexpr -> option xexpr -> bool) (o : jop) {struct o} : bool :=
  match o with JCross => true | JOp _ c => jcall P T c end
with jcall (P : expr -> bool) (T : option xexpr -> option xexpr -> bool) (c : jcons) {struct c} : bool :=
  match c with JOn x => xall P T x | _ => true end
with wall (P : expr -> bool) (T : option xexpr -> option xexpr -> bool) (w : withc) {struct w} : bool :=
  match w with With _ ctes => forallb (call P T) ctes end
with call (P : expr -> bool) (T : option xexpr -> option xexpr -> bool) (c : cte) {struct c} : bool :=
  match c with Cte _ _ q => qall P T q end
with iall (P : expr -> bool) (T : option xexpr -> option xexpr -> bool) (i : item) {struct i} : bool :=
  match i with IWild => true | IExpr x => xall P T x | IAlias x _ => xall P T x end
with oall (P : expr -> bool) (T : option xexpr -> option xexpr -> bool) (o : oelem) {struct o} : bool :=
  match o with OElem x _ => xall P T x end
with xall (P : expr -> bool) (T : option xexpr -> option xexpr -> bool) (x : xexpr) {struct x} : bool :=
  match x with X e subs => P e && forallb (qall P T) subs end.

Definition oxall (P : expr -> bool) (T : option xexpr -> option xexpr -> bool) (x : option xexpr) : bool :=
  match x with Some y => xall P T y | None => true end.

Definition tt2 (_ _ : option xexpr) : bool := true.
(** canonical spelling of every expression ([PrinterCoreProofs.canonical]: no [==], no unquoted ESCAPE word) *)
Definition qcanonical : query -> bool := qall canonical tt2.
(** the conservative fragment test of the operator core on every expression: the part of [qwf] a parser
    output need not have *)
Definition qfragx (d : qdialect) : query -> bool := qall (fun e => frag_ok (base d) (yield e)) tt2.
(** no unquoted ESCAPE word anywhere (the one place where the printer changes a content token) *)
Definition qword_escape (q : query) : bool := negb (qall (fun e => negb (word_escape e)) tt2 q).
(** no query of the tree has both LIMIT and OFFSET *)
Definition one_of (lim off : option xexpr) : bool := negb (is_some lim && is_some off).
Definition qtail_ordered : query -> bool := qall (fun _ => true) one_of.

(** * Suffixes *)
Definition suf (r ts : list qtok) : Prop := exists pre, ts = pre ++ r.
Lemma suf_refl ts : suf ts ts.
Proof. exists []. reflexivity. Qed.
Lemma suf_cons t r ts : suf r ts -> suf r (t :: ts).
Proof. intros (p & E). exists (t :: p). rewrite E. reflexivity. Qed.
Lemma suf_trans a b c : suf a b -> suf b c -> suf a c.
Proof. intros (p & E) (q & F). exists (q ++ p). rewrite F, E, app_assoc. reflexivity. Qed.
Lemma suf_len r ts : suf r ts -> (length r <= length ts)%nat.
Proof. intros (p & ->). rewrite app_length. lia. Qed.
Lemma suf_app a r : suf r (a ++ r).
Proof. exists a. reflexivity. Qed.

(** the model numbers the subqueries of one expression from [SQ_BASE] = 10^6: inputs of at most 10^6 tokens *)
Definition fits (ts : list qtok) : Prop := N.of_nat (length ts) <= 1000000.
Lemma fits_suf r ts : suf r ts -> fits ts -> fits r.
Proof. unfold fits. intros H. apply suf_len in H. lia. Qed.

(** * Canonical spelling changes only [==] *)
Definition tsim (a b : tok) : Prop := a = b \/ (a = TOp K_Eq /\ b = TOp K_DoubleEq).
Lemma sim_refl l : Forall2 tsim l l.
Proof. induction l; constructor; [left; reflexivity|assumption]. Qed.
Lemma sim_app a a' b b' : Forall2 tsim a a' -> Forall2 tsim b b' -> Forall2 tsim (a ++ b) (a' ++ b').
Proof. apply Forall2_app. Qed.
Lemma sim_cons t a a' : Forall2 tsim a a' -> Forall2 tsim (t :: a) (t :: a').
Proof. intro H. constructor; [left; reflexivity|exact H]. Qed.
Lemma sim_key k a a' : Forall2 tsim a a' -> Forall2 tsim (TOp (norm_key k) :: a) (TOp k :: a').
Proof.
  intro H. constructor; [|exact H]. unfold norm_key. destruct (k =? K_DoubleEq) eqn:E; [|left; reflexivity].
  apply N.eqb_eq in E. subst k. right. split; reflexivity.
Qed.

Lemma wesc_any l :
  (fix any (l : list expr) : bool := match l with [] => false | x :: r => word_escape x || any r end) l
  = existsb word_escape l.
Proof. induction l as [|x l IH]; [reflexivity|]. cbn [existsb]. rewrite <- IH. reflexivity. Qed.

Lemma sim_commas l :
  Forall (fun x => word_escape x = false -> Forall2 tsim (yield (norm x)) (yield x)) l ->
  existsb word_escape l = false -> Forall2 tsim (commas (map norm l)) (commas l).
Proof.
  induction 1 as [|x r Hx Hr IH]; [intros; constructor|]. cbn [existsb]. intro Hw.
  apply orb_false_iff in Hw. destruct Hw as [Hw1 Hw2].
  destruct r as [|y r'].
  - cbn [map commas]. apply Hx. exact Hw1.
  - change (commas (map norm (x :: y :: r'))) with (yield (norm x) ++ TComma :: commas (map norm (y :: r'))).
    change (commas (x :: y :: r')) with (yield x ++ TComma :: commas (y :: r')).
    apply sim_app; [apply Hx; exact Hw1|]. apply sim_cons. apply IH. exact Hw2.
Qed.

Lemma yield_norm_sim e : word_escape e = false -> Forall2 tsim (yield (norm e)) (yield e).
Proof.
  induction e using expr_rect'; cbn [norm]; try rewrite !yield_tuple; try rewrite !yield_inlist;
    cbn [yield word_escape]; rewrite ?wesc_any; intro Hw;
    repeat (apply orb_false_iff in Hw; destruct Hw as [Hw ?]);
    repeat first [ apply sim_refl | assumption
                 | apply sim_key | apply sim_cons | apply sim_app
                 | apply sim_commas; assumption
                 | apply IHe | apply IHe1 | apply IHe2 | apply IHe3 ].
  destruct esc as [[[|] c]|]; try apply sim_refl. discriminate Hw.
Qed.

(** * The subquery atoms of an expression's tokens, apart from the parentheses: [okts] = [okd] + [oka] *)
Definition la (w : kwd) (r : list tok) : bool :=
  match w, r with
  | KUnnest, TLParen :: TAtom false n :: _ => in_sq n
  | KAny, TLParen :: TLParen :: TAtom false n :: _ | KAll, TLParen :: TLParen :: TAtom false n :: _
  | KSome, TLParen :: TLParen :: TAtom false n :: _ => in_sq n
  | _, _ => false
  end.

Fixpoint oka (i : nat) (ts : list tok) : option nat :=
  match ts with
  | [] => Some i
  | TLParen :: r =>
      match r with
      | TAtom false n :: r1 =>
          if in_sq n then
            match r1 with
            | TRParen :: r2 => if (n =? SQ_BASE + N.of_nat i) && small i then oka (S i) r2 else None
            | _ => None
            end
          else oka i r
      | _ => oka i r
      end
  | TKw w :: r =>
      if la w r then None
      else if is_not w && exhead r then None
      else oka i r
  | TAtom false n :: r =>
      if n <? SQ_BASE then oka i r
      else if ((n =? EX_BASE + N.of_nat i) || (n =? NEX_BASE + N.of_nat i)) && small i then oka (S i) r
      else None
  | _ :: r => oka i r
  end.

Lemma okts_kw k i w r :
  okts k i (TKw w :: r) =
  match w with
  | KDistinct => match r with TKw KFrom :: r1 => okts k i r1 | _ => None end
  | KFrom => match k with O => None | S _ => okts k i r end
  | _ => if la w r then None else if is_not w && exhead r then None else okts k i r
  end.
Proof. destruct w; reflexivity. Qed.

Lemma oka_lparen_plain i r : sqhead r = false -> oka i (TLParen :: r) = oka i r.
Proof.
  destruct r as [|t r']; [reflexivity|]. destruct t; try reflexivity. destruct s; [reflexivity|].
  cbn [sqhead]. intro H. cbn [oka]. rewrite H. reflexivity.
Qed.

Lemma okd_kw k w r :
  okd k (TKw w :: r) =
  match w with
  | KDistinct => match r with TKw KFrom :: r1 => okd k r1 | _ => None end
  | KFrom => match k with O => None | S _ => okd k r end
  | _ => okd k r
  end.
Proof. destruct w; reflexivity. Qed.

Lemma okts_combine : forall n ts, (length ts <= n)%nat -> forall k i k' i',
  okd k ts = Some k' -> oka i ts = Some i' -> okts k i ts = Some (k', i').
Proof.
  induction n as [|n IH]; intros ts Hn k i k' i' Hd Ha.
  - destruct ts; [|cbn [length] in Hn; lia]. cbn in *. congruence.
  - destruct ts as [|t r]; [cbn in *; congruence|]. cbn [length] in Hn.
    assert (IH' : forall r' k0 i0, (length r' <= length r)%nat -> okd k0 r' = Some k' -> oka i0 r' = Some i' ->
              okts k0 i0 r' = Some (k', i')) by (intros; apply IH; auto; lia).
    destruct t; try (cbn [okts okd oka] in *; apply IH'; auto; fail).
    + (* atom *) destruct s; [cbn [okts okd oka] in *; apply IH'; auto|].
      cbn [okts okd oka] in *. destruct (n0 <? SQ_BASE); [apply IH'; auto|].
      destruct (((n0 =? EX_BASE + N.of_nat i) || (n0 =? NEX_BASE + N.of_nat i)) && small i); [apply IH'; auto|discriminate Ha].
    + (* keyword *)
      rewrite okts_kw. rewrite okd_kw in Hd. cbn [oka] in Ha.
      destruct (la k0 r) eqn:L; [discriminate Ha|].
      destruct (is_not k0 && exhead r) eqn:E; [discriminate Ha|].
      destruct k0; try (apply IH'; auto; fail).
      * destruct r as [|[] r1]; try discriminate Hd. destruct k0; try discriminate Hd.
        cbn [oka la is_not andb] in Ha. apply IH'; auto. cbn [length]. lia.
      * destruct k; [discriminate Hd|]. apply IH'; auto.
    + (* ( *)
      cbn [okd] in Hd. destruct (sqhead r) eqn:Sq.
      * destruct r as [|t1 r1]; [discriminate Sq|]. destruct t1; try discriminate Sq. destruct s; try discriminate Sq.
        cbn [sqhead] in Sq. cbn [okts oka] in *. rewrite Sq in *.
        destruct r1 as [|[] r2]; try discriminate Ha.
        destruct ((n0 =? SQ_BASE + N.of_nat i) && small i); [|discriminate Ha].
        cbn [okd] in Hd. apply IH'; auto. cbn [length]. lia.
      * rewrite okts_lparen_plain by exact Sq. rewrite oka_lparen_plain in Ha by exact Sq. apply IH'; auto.
    + (* ) *) cbn [okts okd oka] in *. destruct k; [discriminate Hd|]. apply IH'; auto.
    + (* , *) cbn [okts okd oka] in *. destruct k; [discriminate Hd|]. apply IH'; auto.
Qed.

(** ** [oka] passes over the tokens of an expression independently of what follows *)
Definition obal (a : list tok) : Prop :=
  forall i b, oka i (a ++ b) = match oka i a with Some i' => oka i' b | None => None end.

Lemma obal_nil : obal [].
Proof. intros i b. reflexivity. Qed.
Lemma obal_app a b : obal a -> obal b -> obal (a ++ b).
Proof.
  intros Ha Hb i c. rewrite <- app_assoc, Ha, (Ha i b). destruct (oka i a) as [i'|]; [apply Hb|reflexivity].
Qed.

Definition oplain (t : tok) : bool :=
  match t with
  | TLParen => false
  | TKw w => kw_plain w || match w with KDistinct | KFrom => true | _ => false end
  | _ => true
  end.
Lemma obal_one t : oplain t = true -> obal [t].
Proof.
  intros Ht i b. cbn [app]. destruct t; try discriminate Ht; try reflexivity.
  - destruct s; [reflexivity|]. cbn [oka]. destruct (n <? SQ_BASE); [reflexivity|].
    destruct (((n =? EX_BASE + N.of_nat i) || (n =? NEX_BASE + N.of_nat i)) && small i); reflexivity.
  - destruct k; try discriminate Ht; reflexivity.
Qed.
Lemma obal_cons t a : oplain t = true -> obal a -> obal (t :: a).
Proof. intros Ht Ha. change (t :: a) with ([t] ++ a). apply obal_app; [apply obal_one; exact Ht|exact Ha]. Qed.

Lemma obal_not a : a <> [] -> obal a -> obal (TKw KNot :: a).
Proof.
  intros Hne Ha i b. cbn [app oka la is_not andb].
  assert (E : exhead (a ++ b) = exhead a) by (destruct a; [congruence|reflexivity]).
  rewrite E. destruct (exhead a); [reflexivity|apply Ha].
Qed.

Lemma la_app w a b : a <> [] -> (forall r, a = TLParen :: r -> (2 <= length r)%nat) -> la w (a ++ b) = la w a.
Proof.
  intros Hne Hl. destruct a as [|t1 a1]; [congruence|]. destruct t1; try (destruct w; reflexivity).
  specialize (Hl a1 eq_refl). destruct a1 as [|t2 [|t3 a3]]; cbn [length] in Hl; try lia.
  destruct w; reflexivity.
Qed.

Lemma obal_quant w a : is_quant w = true \/ w = KUnnest -> a <> [] ->
  (forall r, a = TLParen :: r -> (2 <= length r)%nat) -> obal a -> obal (TKw w :: a).
Proof.
  intros Hw Hne Hl Ha i b. cbn [app oka]. rewrite la_app by assumption.
  assert (E : is_not w = false) by (destruct Hw as [Hw|Hw]; [destruct w; try discriminate Hw; reflexivity|subst; reflexivity]).
  rewrite E. cbn [andb]. destruct (la w a); [reflexivity|apply Ha].
Qed.

(** what follows an opening parenthesis: not [atom )] unless that is all *)
Definition nrp (a : list tok) : Prop := match a with TAtom _ _ :: TRParen :: _ => False | _ => True end.

Lemma obal_paren a : obal a -> nrp a -> obal (TLParen :: a ++ [TRParen]).
Proof.
  intros Ha Hn i b. cbn [app]. rewrite <- app_assoc. cbn [app].
  destruct (sqhead (a ++ TRParen :: b)) eqn:Sq.
  - destruct a as [|t a1]; [discriminate Sq|]. cbn [app] in *. destruct t; try discriminate Sq. destruct s; try discriminate Sq.
    cbn [sqhead] in Sq. cbn [oka]. rewrite Sq.
    destruct a1 as [|t2 a2].
    + cbn [app]. destruct ((n =? SQ_BASE + N.of_nat i) && small i); reflexivity.
    + cbn [app]. destruct t2; try reflexivity. cbn [nrp] in Hn. contradiction.
  - assert (Sq2 : sqhead (a ++ [TRParen]) = false).
    { destruct a as [|t a1]; [reflexivity|]. exact Sq. }
    rewrite !oka_lparen_plain by assumption. rewrite Ha, (Ha i [TRParen]).
    destruct (oka i a) as [i'|]; reflexivity.
Qed.

Lemma commas_obal l : Forall (fun e => obal (yield e)) l -> obal (commas l).
Proof.
  induction 1 as [|x r Hx Hr IH]; [apply obal_nil|].
  destruct r as [|y r']; [exact Hx|].
  change (commas (x :: y :: r')) with (yield x ++ TComma :: commas (y :: r')).
  apply obal_app; [exact Hx|apply obal_cons; [reflexivity|exact IH]].
Qed.

Definition nr (b : list tok) : Prop := match b with TRParen :: _ => False | _ => True end.

Lemma yield_nrp e : forall b, nr b -> nrp (yield e ++ b).
Proof.
  induction e using expr_rect'; intros b Hb; try rewrite yield_tuple; try rewrite yield_inlist; cbn [yield];
    rewrite <- ?app_assoc; cbn [app];
    try exact I;
    try (first [apply IHe|apply IHe1]; try destruct n; try destruct kd; try destruct neg; exact I).
  - destruct b as [|[] ?]; try exact I. contradiction.
  - destruct ((k =? K_Plus) || (k =? K_Minus) || (k =? K_Tilde)); exact I.
Qed.

Lemma commas_nrp l : nrp (commas l).
Proof.
  destruct l as [|x [|y r]]; [exact I| |].
  - cbn [commas]. rewrite <- (app_nil_r (yield x)). apply yield_nrp. exact I.
  - change (commas (x :: y :: r)) with (yield x ++ TComma :: commas (y :: r)). apply yield_nrp. exact I.
Qed.

Lemma yield_nonnil e : yield e <> [].
Proof. destruct (yield_starts e) as (t & tl & E & _). rewrite E. discriminate. Qed.

Lemma commas_len l : (2 <= length l)%nat -> (3 <= length (commas l))%nat.
Proof.
  destruct l as [|x [|y r]]; cbn [length]; try lia. intros _.
  change (commas (x :: y :: r)) with (yield x ++ TComma :: commas (y :: r)).
  rewrite app_length. cbn [length].
  assert (1 <= length (yield x))%nat by (pose proof (yield_nonnil x); destruct (yield x); [congruence|cbn; lia]).
  assert (1 <= length (commas (y :: r)))%nat.
  { destruct r as [|z r']; [cbn [commas]|change (commas (y :: z :: r')) with (yield y ++ TComma :: commas (z :: r')); rewrite app_length];
      pose proof (yield_nonnil y); destruct (yield y); try congruence; cbn [length]; lia. }
  lia.
Qed.

(** a printed expression that starts with a parenthesis has at least three tokens *)
Lemma yield_paren_len d e : shape d e -> forall r b, yield e ++ b = TLParen :: r -> (2 <= length r)%nat.
Proof.
  induction e using expr_rect'; intros Hs r0 b0 E.
  all: try (destruct Hs as [Hn Hs]); try (cbv zeta in Hs).
  all: try rewrite yield_tuple in E; try rewrite yield_inlist in E; cbn [yield] in E.
  all: rewrite <- ?app_assoc in E; cbn [app] in E.
  all: repeat match goal with Hs : _ /\ _ |- _ => destruct Hs end.
  all: try (match goal with IH : shape _ ?x -> _, Hx : shape _ ?x |- _ => eapply (IH Hx); exact E end).
  all: try discriminate E.
  - (* nested *) injection E as <-. rewrite app_length. pose proof (yield_nonnil e). destruct (yield e); [congruence|].
    cbn [length]. rewrite app_length. cbn [length]. lia.
  - (* tuple *) injection E as <-. cbn [node_ok] in Hn. apply PeanoNat.Nat.leb_le in Hn. apply commas_len in Hn.
    rewrite !app_length. lia.
  - destruct ((k =? K_Plus) || (k =? K_Minus) || (k =? K_Tilde)); discriminate E.
Qed.

Lemma yield_obal d e : shape d e -> obal (yield e).
Proof.
  induction e using expr_rect'; intro Hs.
  all: try (destruct Hs as [Hn Hs]); try (cbv zeta in Hs).
  all: try (rewrite yield_tuple); try (rewrite yield_inlist); cbn [yield].
  all: repeat match goal with
       | Hs : _ /\ _ |- _ => destruct Hs
       end.
  all: repeat match goal with
       | IH : shape _ ?x -> _, Hs : shape _ ?x |- _ => specialize (IH Hs)
       end.
  - apply obal_one. reflexivity.
  - apply obal_paren; [assumption|]. rewrite <- (app_nil_r (yield e)). apply yield_nrp. exact I.
  - apply obal_paren; [|apply commas_nrp]. apply commas_obal.
    apply shape_all in Hs. rewrite Forall_forall in *. intros x Hin. apply H; [exact Hin|apply Hs; exact Hin].
  - destruct ((k =? K_Plus) || (k =? K_Minus) || (k =? K_Tilde)); apply obal_cons; auto.
  - apply obal_not; [apply yield_nonnil|assumption].
  - apply obal_app; [assumption|apply obal_cons; [reflexivity|assumption]].
  - (* any / all *)
    cbn [node_ok] in Hn. apply andb_true_iff in Hn. destruct Hn as [_ Hq].
    apply obal_app; [assumption|apply obal_cons; [reflexivity|]].
    apply obal_quant; [left; exact Hq|discriminate| |].
    + intros r E. injection E as <-. rewrite app_length. pose proof (yield_nonnil e2). destruct (yield e2); [congruence|cbn [length]; lia].
    + apply obal_paren; [assumption|]. rewrite <- (app_nil_r (yield e2)). apply yield_nrp. exact I.
  - apply obal_app; [assumption|apply obal_one; reflexivity].
  - (* is *)
    cbn [node_ok] in Hn. apply obal_app; [assumption|apply obal_cons; [reflexivity|]].
    destruct n; cbn [not_toks app].
    + apply obal_not; [discriminate|]. apply obal_one. destruct w; try discriminate Hn; reflexivity.
    + apply obal_one. destruct w; try discriminate Hn; reflexivity.
  - (* is distinct from *)
    apply obal_app; [assumption|apply obal_cons; [reflexivity|]].
    destruct n; cbn [not_toks app].
    + apply obal_not; [discriminate|]. apply obal_cons; [reflexivity|apply obal_cons; [reflexivity|assumption]].
    + apply obal_cons; [reflexivity|apply obal_cons; [reflexivity|assumption]].
  - apply obal_app; [assumption|]. repeat (apply obal_cons; [reflexivity|]). assumption.
  - apply obal_app; [assumption|]. repeat (apply obal_cons; [reflexivity|]). apply obal_nil.
  - (* like *)
    apply obal_app; [assumption|].
    assert (Hp : obal (any_toks a ++ yield e2 ++ match esc with Some (s, n0) => [TKw KEscape; TAtom s n0] | None => [] end)).
    { assert (He : obal (yield e2 ++ match esc with Some (s, n0) => [TKw KEscape; TAtom s n0] | None => [] end)).
      { apply obal_app; [assumption|]. destruct esc as [[s0 n0]|]; [|apply obal_nil].
        apply obal_cons; [reflexivity|apply obal_one; reflexivity]. }
      destruct a; cbn [any_toks app]; [|exact He].
      apply obal_quant; [left; reflexivity| | |exact He].
      - pose proof (yield_nonnil e2). destruct (yield e2); [congruence|discriminate].
      - intros r E. eapply yield_paren_len; eassumption. }
    destruct n; cbn [not_toks app].
    + apply obal_not; [destruct kd; discriminate|]. destruct kd; cbn [like_toks app]; repeat (apply obal_cons; [reflexivity|]); exact Hp.
    + destruct kd; cbn [like_toks app]; repeat (apply obal_cons; [reflexivity|]); exact Hp.
  - (* between *)
    apply obal_app; [assumption|].
    assert (Hp : obal (TKw KBetween :: yield e2 ++ TOp K_AND :: yield e3)).
    { apply obal_cons; [reflexivity|]. apply obal_app; [assumption|]. apply obal_cons; [reflexivity|assumption]. }
    destruct n; cbn [not_toks app]; [apply obal_not; [discriminate|exact Hp]|exact Hp].
  - (* in list *)
    apply obal_app; [assumption|].
    assert (Hp : obal (TKw KIn :: TLParen :: commas l ++ [TRParen])).
    { apply obal_cons; [reflexivity|]. apply obal_paren; [|apply commas_nrp]. apply commas_obal.
      match goal with Hl : _ |- _ => apply shape_all in Hl; rewrite Forall_forall in *; intros x Hin; apply H; [exact Hin|apply Hl; exact Hin] end. }
    destruct n; cbn [not_toks app]; [apply obal_not; [discriminate|exact Hp]|exact Hp].
  - (* in unnest *)
    apply obal_app; [assumption|].
    assert (Hp : obal (TKw KIn :: TKw KUnnest :: TLParen :: yield e2 ++ [TRParen])).
    { apply obal_cons; [reflexivity|]. apply obal_quant; [right; reflexivity|discriminate| |].
      - intros r E. injection E as <-. rewrite app_length. pose proof (yield_nonnil e2). destruct (yield e2); [congruence|cbn [length]; lia].
      - apply obal_paren; [assumption|]. rewrite <- (app_nil_r (yield e2)). apply yield_nrp. exact I. }
    destruct n; cbn [not_toks app]; [apply obal_not; [discriminate|exact Hp]|exact Hp].
  - apply obal_app; [assumption|apply obal_cons; [reflexivity|assumption]].
  - apply obal_app; [assumption|apply obal_cons; [reflexivity|]]. apply obal_app; [assumption|apply obal_one; reflexivity].
Qed.


Lemma In_firstn {A} (x : A) n l : In x (firstn n l) -> In x l.
Proof.
  revert l. induction n as [|n IH]; intros l H; [destruct H|]. destruct l as [|y l]; [destruct H|].
  cbn [firstn] in H. destruct H as [H|H]; [left; exact H|right; apply IH; exact H].
Qed.

Lemma oka_count : forall n ts, (length ts <= n)%nat -> forall i i', oka i ts = Some i' -> i' = (i + nsub ts)%nat.
Proof.
  induction n as [|n IH]; intros ts Hn i i' H.
  - destruct ts; [|cbn [length] in Hn; lia]. cbn in H. injection H as <-. unfold nsub. cbn. lia.
  - destruct ts as [|t r]; [cbn in H; injection H as <-; unfold nsub; cbn; lia|]. cbn [length] in Hn.
    assert (IH' : forall r' i0, (length r' <= length r)%nat -> oka i0 r' = Some i' -> i' = (i0 + nsub r')%nat)
      by (intros; eapply IH; eauto; lia).
    rewrite nsub_cons.
    destruct t; try (cbn [oka is_big] in *; rewrite (IH' r i (le_n _) H); lia).
    + destruct s; [cbn [oka is_big] in *; rewrite (IH' r i (le_n _) H); lia|].
      cbn [oka is_big] in *. destruct (n0 <? SQ_BASE); [cbn [negb]; rewrite (IH' r i (le_n _) H); lia|].
      destruct (((n0 =? EX_BASE + N.of_nat i) || (n0 =? NEX_BASE + N.of_nat i)) && small i); [|discriminate H].
      cbn [negb]. rewrite (IH' r (S i) (le_n _) H). lia.
    + cbn [oka is_big] in *. destruct (la k r); [discriminate H|]. destruct (is_not k && exhead r); [discriminate H|].
      rewrite (IH' r i (le_n _) H). lia.
    + cbn [is_big]. destruct (sqhead r) eqn:Sq.
      * destruct r as [|t1 r1]; [discriminate Sq|]. destruct t1; try discriminate Sq. destruct s; try discriminate Sq.
        cbn [sqhead] in Sq. cbn [oka] in H. rewrite Sq in H. destruct r1 as [|[] r2]; try discriminate H.
        destruct ((n0 =? SQ_BASE + N.of_nat i) && small i); [|discriminate H].
        rewrite (IH' r2 (S i) ltac:(cbn [length]; lia) H). rewrite !nsub_cons. cbn [is_big].
        assert (E1 : n0 <? SQ_BASE = false).
        { unfold in_sq in Sq. apply andb_true_iff in Sq. destruct Sq as [Sq' _]. apply N.leb_le in Sq'. apply N.ltb_ge. exact Sq'. }
        rewrite E1. cbn [negb]. lia.
      * rewrite oka_lparen_plain in H by exact Sq. rewrite (IH' r i (le_n _) H). lia.
Qed.

(** * One turn of [fold] *)
Definition is_stopt (t : tok) : bool :=
  match t with TRParen | TComma | TKw KFrom | TType _ | TOther => true | _ => false end.
Definition cside (t : tok) (r : list qtok) : Prop :=
  match t with
  | TKw KNot => nex r = false
  | TKw w => sub_unsafe w r = false
  | _ => True
  end.

Section FoldStep.
  Variable recq : list qtok -> res (query * list qtok).
  Variable exfn : bool.
  Notation foldq := (fold recq exfn).

  Inductive fstep (g k i : nat) (l : list qtok) : folded -> Prop :=
  | FSnil : l = [] -> fstep g k i l fnil
  | FSstop t0 t r : l = t0 :: r -> is_stopt t = true -> fstep g k i l (fstopv t r)
  | FSkwstop w r : l = QE (TKw w) :: r -> fstep g k i l (fcons (TKw w) r (fstopv TOther r))
  | FSnotstop r1 : l = QE (TKw KNot) :: QK KExists :: QE TLParen :: r1 ->
      fstep g k i l (fcons (TKw KNot) (QK KExists :: QE TLParen :: r1) (fstopv (TType 0) (QE TLParen :: r1)))
  | FScons t r k2 : l = QE t :: r -> is_big t = false -> cside t r ->
      fstep g k i l (fcons t r (foldq g k2 i r))
  | FSdf r : l = QE (TKw KDistinct) :: QE (TKw KFrom) :: r ->
      fstep g k i l (fcons (TKw KDistinct) (QE (TKw KFrom) :: r) (fcons (TKw KFrom) r (foldq g k i r)))
  | FSsq r q r' : l = QE TLParen :: r -> is_qstart r = true -> recq r = Ok (q, QE TRParen :: r') ->
      fstep g k i l (fsub q (fcons TLParen r (fcons (TAtom false (SQ_BASE + N.of_nat i)) (QE TRParen :: r')
                       (fcons TRParen r' (foldq g k (S i) r')))))
  | FSex r1 q r' : l = QK KExists :: QE TLParen :: r1 -> exists_group recq exfn r1 = Some (q, r') ->
      fstep g k i l (fsub q (fcons (TAtom false (EX_BASE + N.of_nat i)) r' (foldq g k (S i) r')))
  | FSnex r1 q r' : l = QE (TKw KNot) :: QK KExists :: QE TLParen :: r1 -> exists_group recq exfn r1 = Some (q, r') ->
      fstep g k i l (fsub q (fcons (TAtom false (NEX_BASE + N.of_nat i)) r' (foldq g k (S i) r'))).

  Lemma fold_step g k i l : fstep g k i l (foldq (S g) k i l).
  Proof.
    destruct l as [|[t|q| |] r].
    - apply FSnil. reflexivity.
    - destruct t.
      + destruct s.
        * eapply FScons; [reflexivity|reflexivity|exact I].
        * cbn [fold]. destruct (n <? SQ_BASE) eqn:E.
          -- eapply FScons; [reflexivity|cbn [is_big]; rewrite E; reflexivity|exact I].
          -- eapply FSstop; reflexivity.
      + eapply FScons; [reflexivity|reflexivity|exact I].
      + eapply FScons; [reflexivity|reflexivity|exact I].
      + eapply FScons; [reflexivity|reflexivity|exact I].
      + (* keyword *)
        destruct k0.
        all: try (cbn [fold sub_unsafe]; eapply FScons; [reflexivity|reflexivity|reflexivity]; fail).
        * (* NOT *)
          destruct (nex r) eqn:Nx.
          -- destruct r as [|[?|[]| |] [|[[]| | |] r1]]; try discriminate Nx.
             cbn [fold]. destruct (exists_group recq exfn r1) as [[q r']|] eqn:G.
             ++ eapply FSnex; [reflexivity|exact G].
             ++ apply FSnotstop. reflexivity.
          -- assert (E : foldq (S g) k i (QE (TKw KNot) :: r) = fcons (TKw KNot) r (foldq g k i r)) .
             { clear - Nx. destruct r as [|[t|[]| |] rest']; try reflexivity.
               destruct rest' as [|[[]| | |] ?]; try reflexivity. discriminate Nx. }
             rewrite E. eapply FScons; [reflexivity|reflexivity|exact Nx].
        * (* DISTINCT *)
          destruct r as [|[[]|?| |] r1]; try (cbn [fold sub_unsafe]; eapply FScons; [reflexivity|reflexivity|reflexivity]; fail).
          destruct k0; try (cbn [fold sub_unsafe]; eapply FScons; [reflexivity|reflexivity|reflexivity]; fail).
          apply FSdf. reflexivity.
        * (* FROM *)
          cbn [fold]. destruct k; [eapply FSstop; reflexivity|eapply FScons; [reflexivity|reflexivity|reflexivity]].
        * cbn [fold]. destruct (sub_unsafe KAny r) eqn:U; [eapply FSkwstop; reflexivity|eapply FScons; [reflexivity|reflexivity|exact U]].
        * cbn [fold]. destruct (sub_unsafe KAll r) eqn:U; [eapply FSkwstop; reflexivity|eapply FScons; [reflexivity|reflexivity|exact U]].
        * cbn [fold]. destruct (sub_unsafe KSome r) eqn:U; [eapply FSkwstop; reflexivity|eapply FScons; [reflexivity|reflexivity|exact U]].
        * cbn [fold]. destruct (sub_unsafe KUnnest r) eqn:U; [eapply FSkwstop; reflexivity|eapply FScons; [reflexivity|reflexivity|exact U]].
      + (* ( *)
        cbn [fold]. destruct (is_qstart r) eqn:Qs; [|eapply FScons; [reflexivity|reflexivity|exact I]].
        destruct (recq r) as [[q [|[[]| | |] r']]| | |] eqn:R; try (eapply FScons; [reflexivity|reflexivity|exact I]; fail).
        eapply FSsq; [reflexivity|exact Qs|exact R].
      + cbn [fold]. destruct k; [eapply FSstop; reflexivity|eapply FScons; [reflexivity|reflexivity|exact I]].
      + cbn [fold]. destruct k; [eapply FSstop; reflexivity|eapply FScons; [reflexivity|reflexivity|exact I]].
      + eapply FScons; [reflexivity|reflexivity|exact I].
      + eapply FScons; [reflexivity|reflexivity|exact I].
      + eapply FScons; [reflexivity|reflexivity|exact I].
      + eapply FScons; [reflexivity|reflexivity|exact I].
      + eapply FScons; [reflexivity|reflexivity|exact I].
      + eapply FScons; [reflexivity|reflexivity|exact I].
    - destruct q; try (eapply FSstop; reflexivity).
      destruct r as [|[[]|?| |] r1]; try (eapply FSstop; reflexivity).
      cbn [fold]. destruct (exists_group recq exfn r1) as [[q r']|] eqn:G.
      + eapply FSex; [reflexivity|exact G].
      + eapply FSstop; reflexivity.
    - eapply FSstop; reflexivity.
    - eapply FSstop; reflexivity.
  Qed.
End FoldStep.

(** * Content tokens: any predicate that keeps identifier / number / string tokens only *)
Definition qlit (t : qtok) : bool := match t with QE (TAtom _ _) => true | _ => false end.

Lemma in_sq_base i : small i = true -> in_sq (SQ_BASE + N.of_nat i) = true.
Proof. unfold small, in_sq, SQ_BASE, EX_BASE. intro H. apply N.ltb_lt in H. apply andb_true_iff. split; [apply N.leb_le|apply N.ltb_lt]; lia. Qed.
Lemma in_sq_ex i : in_sq (EX_BASE + N.of_nat i) = false /\ in_sq (NEX_BASE + N.of_nat i) = false.
Proof. unfold in_sq, SQ_BASE, EX_BASE, NEX_BASE. split; apply andb_false_iff; right; apply N.ltb_ge; lia. Qed.
Lemma in_ex_nex i : in_ex (NEX_BASE + N.of_nat i) = false.
Proof. unfold in_ex, EX_BASE, NEX_BASE. apply andb_false_iff; right; apply N.ltb_ge; lia. Qed.
Lemma big_base i : (SQ_BASE + N.of_nat i <? SQ_BASE) = false /\ (EX_BASE + N.of_nat i <? SQ_BASE) = false /\
  (NEX_BASE + N.of_nat i <? SQ_BASE) = false.
Proof. unfold SQ_BASE, EX_BASE, NEX_BASE. repeat split; apply N.ltb_ge; lia. Qed.

Lemma rest_at_cons c t r v l : rest_at (S c) ((t, r) :: v) l = rest_at c v r.
Proof. destruct c; reflexivity. Qed.

Lemma unfoldl_small st t r : is_big t = false -> unfoldl st (t :: r) = QE t :: unfoldl st r.
Proof.
  destruct t; try reflexivity. destruct s; [reflexivity|]. cbn [is_big unfoldl]. intro H.
  apply negb_false_iff in H. rewrite H. reflexivity.
Qed.
Lemma unfoldl_big st s n r : (n <? SQ_BASE) = false ->
  unfoldl (s :: st) (TAtom false n :: r) = wrap n s ++ unfoldl st r.
Proof. intro H. cbn [unfoldl]. rewrite H. reflexivity. Qed.

Lemma lead_small exfn t r sl : is_big t = false -> lead_ok exfn (t :: r) sl = lead_ok exfn r sl.
Proof.
  destruct t; try reflexivity. destruct s; [reflexivity|]. cbn [is_big lead_ok]. intro H.
  apply negb_false_iff in H. rewrite H. reflexivity.
Qed.

Lemma lead_ok_prefix exfn a : forall b sl, lead_ok exfn (a ++ b) sl = true -> lead_ok exfn a (firstn (nsub a) sl) = true.
Proof.
  induction a as [|t a IH]; intros b sl H; [reflexivity|]. cbn [app] in H. rewrite nsub_cons.
  destruct (is_big t) eqn:B.
  - destruct t; try discriminate B. destruct s; try discriminate B. cbn [is_big] in B. apply negb_true_iff in B.
    cbn [lead_ok] in *. rewrite B in *. destruct sl as [|q sl]; [discriminate H|].
    cbn [plus firstn]. apply andb_true_iff in H. destruct H as [H1 H2]. rewrite H1. cbn [andb]. eapply IH. exact H2.
  - rewrite lead_small in * by exact B. cbn [plus]. eapply IH. exact H.
Qed.

Lemma la_unnest_inv W : la KUnnest W = true -> exists n W', W = TLParen :: TAtom false n :: W' /\ in_sq n = true.
Proof.
  destruct W as [|[] [|[[] n| | | | | | | | | | | | |] W']]; try discriminate. intro H. eauto.
Qed.
Lemma la_quant_inv w W : is_quant w = true -> la w W = true ->
  exists n W', W = TLParen :: TLParen :: TAtom false n :: W' /\ in_sq n = true.
Proof.
  intros Hw H.
  destruct W as [|t1 W1]; [destruct w; try discriminate Hw; discriminate H|]. destruct t1; try (destruct w; try discriminate Hw; discriminate H).
  destruct W1 as [|t2 W2]; [destruct w; try discriminate Hw; discriminate H|]. destruct t2; try (destruct w; try discriminate Hw; discriminate H).
  destruct W2 as [|t3 W3]; [destruct w; try discriminate Hw; discriminate H|]. destruct t3; try (destruct w; try discriminate Hw; discriminate H).
  destruct s; [destruct w; try discriminate Hw; discriminate H|]. exists n, W3. split; [reflexivity|]. destruct w; try discriminate Hw; exact H.
Qed.
Lemma la_other w W : is_quant w = false -> w <> KUnnest -> la w W = false.
Proof. intros H1 H2. destruct w; try discriminate H1; try congruence; reflexivity. Qed.

Section Inv.
  Variable d : qdialect.
  (** all the invariants need of the dialect record (the DML core runs these parsers under a dialect that
      fails the other side conditions of [dialect_ok]) *)
  Hypothesis HU0 : lvl (base d) K_UNKNOWN = 0.
  Variable keep : qtok -> bool.
  Hypothesis Hlit : forall t, keep t = true -> qlit t = true.
  (** [mode = true]: ordered equality of the content, for trees none of whose queries has both LIMIT and OFFSET;
      [mode = false]: a permutation, for all trees *)
  Variable mode : bool.
  (** [sf]: with ([true]) or without the fragment test [frag_ok] in the well-formedness of expressions;
      [canP]: what is assumed of every expression of the result: canonical spelling and, for [sf = true], [frag_ok] *)
  Variable sf : bool.
  Variable canP : expr -> bool.
  Hypothesis HP : forall e, canP e = true -> canonical e = true /\ (negb sf || frag_ok (base d) (yield e)) = true.
  Definition qcan : query -> bool := qall canP tt2.
  Notation K := (filter keep).

  Definition ceq (a b : list qtok) : Prop := if mode then a = b else Permutation a b.
  Lemma ceq_refl a : ceq a a.
  Proof. unfold ceq. destruct mode; [reflexivity|apply Permutation_refl]. Qed.
  Lemma ceq_eq a b : a = b -> ceq a b.
  Proof. intros ->. apply ceq_refl. Qed.
  Lemma ceq_trans a b c : ceq a b -> ceq b c -> ceq a c.
  Proof. unfold ceq. destruct mode; [congruence|apply Permutation_trans]. Qed.
  Lemma ceq_app a a' b b' : ceq a a' -> ceq b b' -> ceq (a ++ b) (a' ++ b').
  Proof. unfold ceq. destruct mode; [congruence|apply Permutation_app]. Qed.
  Lemma ceq_perm a b : ceq a b -> Permutation a b.
  Proof. unfold ceq. destruct mode; [intros ->; apply Permutation_refl|auto]. Qed.
  (** the element, then the rest *)
  Lemma ceq_chain a x r1 y r2 : ceq a (x ++ r1) -> ceq r1 (y ++ r2) -> ceq a ((x ++ y) ++ r2).
  Proof.
    intros H1 H2. eapply ceq_trans; [exact H1|]. rewrite <- app_assoc. apply ceq_app; [apply ceq_refl|exact H2].
  Qed.

  Lemma ceq_step a x r1 y : ceq a (x ++ r1) -> ceq r1 y -> ceq a (x ++ y).
  Proof. intros H1 H2. eapply ceq_trans; [exact H1|]. apply ceq_app; [apply ceq_refl|exact H2]. Qed.

  Definition ckT (lim off : option xexpr) : bool := negb mode || one_of lim off.
  Definition nwe (e : expr) : bool := negb (word_escape e).
  Definition ckq : query -> bool := qall nwe ckT.
  Definition ckx : xexpr -> bool := xall nwe ckT.

  Lemma keep_nl t : qlit t = false -> keep t = false.
  Proof. intro H. destruct (keep t) eqn:E; [|reflexivity]. apply Hlit in E. congruence. Qed.
  Lemma K_app a b : K (a ++ b) = K a ++ K b.
  Proof. apply filter_app. Qed.
  Lemma K_drop t r : qlit t = false -> K (t :: r) = K r.
  Proof. intro H. cbn [filter]. rewrite (keep_nl t H). reflexivity. Qed.
  Lemma K_cons t r : K (t :: r) = K [t] ++ K r.
  Proof. cbn [filter]. destruct (keep t); reflexivity. Qed.

  Lemma K_wrap n s : K (wrap n s) = K s.
  Proof.
    unfold wrap. destruct (n <? EX_BASE); [reflexivity|]. destruct (n <? NEX_BASE).
    - rewrite !K_drop by reflexivity. rewrite K_app. cbn [filter]. rewrite (keep_nl (QE TRParen) eq_refl), app_nil_r. reflexivity.
    - rewrite !K_drop by reflexivity. rewrite K_app. cbn [filter]. rewrite (keep_nl (QE TRParen) eq_refl), app_nil_r. reflexivity.
  Qed.

  Lemma K_unfoldl_sim a b : Forall2 tsim a b -> forall st, K (unfoldl st a) = K (unfoldl st b).
  Proof.
    induction 1 as [|x y a b Hxy Hab IH]; intro st; [reflexivity|].
    destruct Hxy as [->|[-> ->]].
    - destruct y; try (cbn [unfoldl filter]; rewrite IH; reflexivity).
      destruct s; [cbn [unfoldl filter]; rewrite IH; reflexivity|].
      cbn [unfoldl]. destruct (n <? SQ_BASE); [cbn [filter]; rewrite IH; reflexivity|].
      destruct st as [|s st']; [cbn [filter]; rewrite IH; reflexivity|]. rewrite !K_app, IH. reflexivity.
    - cbn [unfoldl]. rewrite !K_drop by reflexivity. apply IH.
  Qed.

  (** the printed tokens of an expression have the content of its tokens as read *)
  Lemma K_xtoks e subs : word_escape e = false -> K (xtoks (X e subs)) = K (unfoldl (map qtoks subs) (yield e)).
  Proof. intro H. rewrite xtoks_x. unfold ptoks. apply K_unfoldl_sim. apply yield_norm_sim. exact H. Qed.

  (** ** what the recursive calls return *)
  Definition Inv {A} (wfA canA ckA : A -> bool) (toksA : A -> list qtok) (ts : list qtok) (a : A) (r : list qtok) : Prop :=
    suf r ts /\ (fits ts -> canA a = true -> wfA a = true) /\ (ckA a = true -> ceq (K ts) (K (toksA a) ++ K r)).

  Definition QI (ts : list qtok) (q : query) (r : list qtok) : Prop :=
    Inv (qwfg sf d) qcan ckq qtoks ts q r /\ (is_qstart ts = true -> qlead q = true).
  (** ** The expression parser's view of the input *)
  Section Fold.
    Variable recq : list qtok -> res (query * list qtok).
    Variable exfn : bool.
    Hypothesis HQ : forall ts q r, recq ts = Ok (q, r) -> QI ts q r.
    Notation foldq := (fold recq exfn).
    Definition vw (F : folded) : list tok := map fst (fv F).

    Lemma exists_group_inv r1 q r' : exists_group recq exfn r1 = Some (q, r') ->
      recq r1 = Ok (q, QE TRParen :: r') /\ (exfn = true -> is_qstart r1 = true).
    Proof.
      unfold exists_group. destruct (exfn && negb (is_qstart r1)) eqn:E; [discriminate|].
      destruct (recq r1) as [[q0 [|[[]| | |] r0]]| | |]; try discriminate. intro H. inversion H; subst.
      split; [reflexivity|]. intros ->. cbn [andb] in E. apply negb_false_iff in E. exact E.
    Qed.

    (** the first tokens of the view *)
    Lemma fold_head1 g k i l n W : vw (foldq g k i l) = TAtom false n :: W ->
      in_sq n = false /\ (in_ex n = true -> nex l = true).
    Proof.
      destruct g as [|g]; [discriminate|].
      destruct (fold_step recq exfn g k i l) as [E|t0 t r E St|w r E|r1 E|t r k2 E Hb Hc|r E|r q r' E Qs R|r1 q r' E G|r1 q r' E G];
        unfold vw; cbn [fv fcons fsub fstopv fnil map fst]; intro H; try discriminate H.
      - injection H as -> _. discriminate St.
      - injection H as -> _. cbn [is_big] in Hb. apply negb_false_iff in Hb. destruct (small_not_sq _ Hb) as [H1 H2].
        split; [exact H1|]. rewrite H2. discriminate.
      - injection H as <- _. split; [apply in_sq_ex|]. intros _. subst l. reflexivity.
      - injection H as <- _. split; [apply in_sq_ex|]. rewrite in_ex_nex. discriminate.
    Qed.

    Lemma fold_head2 g k i l n W : vw (foldq g k i l) = TLParen :: TAtom false n :: W -> in_sq n = true ->
      exists r, l = QE TLParen :: r /\ is_qstart r = true.
    Proof.
      destruct g as [|g]; [discriminate|].
      destruct (fold_step recq exfn g k i l) as [E|t0 t r E St|w r E|r1 E|t r k2 E Hb Hc|r E|r q r' E Qs R|r1 q r' E G|r1 q r' E G];
        unfold vw; cbn [fv fcons fsub fstopv fnil map fst]; intros H Sq; try discriminate H.
      - injection H as -> H. apply fold_head1 in H. destruct H as [H _]. congruence.
      - eauto.
    Qed.

    Lemma fold_head3 g k i l n W : vw (foldq g k i l) = TLParen :: TLParen :: TAtom false n :: W -> in_sq n = true ->
      exists r, l = QE TLParen :: QE TLParen :: r /\ is_qstart r = true.
    Proof.
      destruct g as [|g]; [discriminate|].
      destruct (fold_step recq exfn g k i l) as [E|t0 t r E St|w r E|r1 E|t r k2 E Hb Hc|r E|r q r' E Qs R|r1 q r' E G|r1 q r' E G];
        unfold vw; cbn [fv fcons fsub fstopv fnil map fst]; intros H Sq; try discriminate H.
      - injection H as -> H. destruct (fold_head2 _ _ _ _ _ _ H Sq) as (r2 & -> & Q2). eauto.
    Qed.

    (** the look-ahead of [oka] after a keyword of the view *)
    Lemma la_view w g k i r : cside (TKw w) r -> la w (vw (foldq g k i r)) = false /\ is_not w && exhead (vw (foldq g k i r)) = false.
    Proof.
      intro Hc. split.
      - destruct (la w (vw (foldq g k i r))) eqn:L; [exfalso|reflexivity].
        destruct (is_quant w) eqn:Qw.
        + destruct (la_quant_inv _ _ Qw L) as (n & W' & E & Sq). destruct (fold_head3 _ _ _ _ _ _ E Sq) as (r2 & -> & Q2).
          destruct w; try discriminate Qw; cbn [cside sub_unsafe] in Hc; congruence.
        + destruct w; try discriminate Qw; try discriminate L.
          destruct (la_unnest_inv _ L) as (n & W' & E & Sq). destruct (fold_head2 _ _ _ _ _ _ E Sq) as (r2 & -> & Q2).
          cbn [cside sub_unsafe] in Hc. congruence.
      - destruct w; try reflexivity. cbn [is_not andb cside] in *.
        destruct (vw (foldq g k i r)) as [|t W] eqn:E; [reflexivity|]. destruct t; try reflexivity. destruct s; [reflexivity|].
        cbn [exhead]. destruct (in_ex n) eqn:X; [|reflexivity]. destruct (fold_head1 _ _ _ _ _ _ E) as [_ H]. rewrite (H X) in Hc. discriminate Hc.
    Qed.

    Lemma oka_skip i t W : is_big t = false -> t <> TLParen ->
      (forall w, t = TKw w -> la w W = false /\ is_not w && exhead W = false) -> oka i (t :: W) = oka i W.
    Proof.
      intros Hb Hp Hk. destruct t; try reflexivity; try congruence.
      - destruct s; [reflexivity|]. cbn [is_big] in Hb. apply negb_false_iff in Hb. cbn [oka]. rewrite Hb. reflexivity.
      - destruct (Hk k eq_refl) as [H1 H2]. cbn [oka]. rewrite H1, H2. reflexivity.
    Qed.

    Definition sub_info (l : list qtok) (q : query) : Prop :=
      exists ts' r', recq ts' = Ok (q, r') /\ (length ts' <= length l)%nat.

    Lemma sub_info_mono l l' sl : (length l <= length l')%nat -> Forall (sub_info l) sl -> Forall (sub_info l') sl.
    Proof.
      intros Hl H. eapply Forall_impl; [|exact H]. intros q (ts' & r' & R & L). exists ts', r'. split; [exact R|lia].
    Qed.

    Lemma fold_whole : forall g k i l, ffuel (foldq g k i l) = false -> N.of_nat (i + length l) <= 1000000 ->
      oka i (vw (foldq g k i l)) = Some (i + length (fsubs (foldq g k i l)))%nat /\
      lead_ok exfn (vw (foldq g k i l)) (fsubs (foldq g k i l)) = true /\
      Forall (sub_info l) (fsubs (foldq g k i l)) /\
      (length (fsubs (foldq g k i l)) <= length l)%nat.
    Proof.
      induction g as [|g IH]; intros k i l Hf Hm; [discriminate Hf|].
      destruct (fold_step recq exfn g k i l) as [E|t0 t r E St|w r E|r1 E|t r k2 E Hb Hc|r E|r q r' E Qs R|r1 q r' E G|r1 q r' E G];
        unfold vw in *; cbn [fv fsubs ffuel fcons fsub fstopv fnil map fst length] in *.
      - rewrite PeanoNat.Nat.add_0_r. repeat split; try constructor. lia.
      - rewrite PeanoNat.Nat.add_0_r. assert (Ht : oka i [t] = Some i /\ lead_ok exfn [t] [] = true).
        { destruct t; try discriminate St; try (split; reflexivity). destruct k0; try discriminate St; split; reflexivity. }
        destruct Ht. repeat split; try constructor; try lia; assumption.
      - rewrite PeanoNat.Nat.add_0_r. assert (Ht : oka i [TKw w; TOther] = Some i) by (destruct w; reflexivity).
        repeat split; try constructor; try lia; assumption.
      - rewrite PeanoNat.Nat.add_0_r. repeat split; try constructor; lia.
      - subst l. cbn [length] in *.
        destruct (IH k2 i r Hf ltac:(lia)) as (Ho & Hl & Hs & Hn).
        split; [|split; [|split]].
        + rewrite <- Ho. destruct (tok_eqb t TLParen) eqn:Ep.
          * apply tok_eqb_eq in Ep. subst t. apply oka_lparen_plain.
            destruct (map fst (fv (foldq g k2 i r))) as [|t W] eqn:EW; [reflexivity|]. destruct t; try reflexivity. destruct s; [reflexivity|].
            cbn [sqhead]. apply (fold_head1 _ _ _ _ _ _ EW).
          * apply oka_skip; [exact Hb|intros ->; cbn in Ep; discriminate Ep|]. intros w ->. apply la_view. exact Hc.
        + rewrite lead_small by exact Hb. exact Hl.
        + eapply sub_info_mono; [|exact Hs]. cbn [length]. lia.
        + lia.
      - subst l. cbn [length] in *.
        destruct (IH k i r Hf ltac:(lia)) as (Ho & Hl & Hs & Hn).
        split; [|split; [|split]].
        + rewrite <- Ho. reflexivity.
        + exact Hl.
        + eapply sub_info_mono; [|exact Hs]. cbn [length]. lia.
        + lia.
      - subst l. cbn [length] in *. destruct (HQ _ _ _ R) as ((Hsuf & _) & Hlead). apply suf_len in Hsuf. cbn [length] in Hsuf.
        destruct (IH k (S i) r' Hf ltac:(lia)) as (Ho & Hl & Hs & Hn).
        assert (Hsm : small i = true) by (unfold small; apply N.ltb_lt; lia).
        split; [|split; [|split]].
        + cbn [oka]. rewrite (in_sq_base i Hsm), N.eqb_refl, Hsm. cbn [andb]. rewrite Ho. f_equal. lia.
        + cbn [lead_ok]. rewrite (proj1 (big_base i)), (Hlead Qs). cbn [orb andb]. exact Hl.
        + constructor; [exists r, (QE TRParen :: r'); split; [exact R|cbn [length]; lia]|].
          eapply sub_info_mono; [|exact Hs]. cbn [length]. lia.
        + lia.
      - subst l. cbn [length] in *. destruct (exists_group_inv _ _ _ G) as [R Hx].
        destruct (HQ _ _ _ R) as ((Hsuf & _) & Hlead). apply suf_len in Hsuf. cbn [length] in Hsuf.
        destruct (IH k (S i) r' Hf ltac:(lia)) as (Ho & Hl & Hs & Hn).
        assert (Hsm : small i = true) by (unfold small; apply N.ltb_lt; lia).
        split; [|split; [|split]].
        + cbn [oka]. rewrite (proj1 (proj2 (big_base i))), N.eqb_refl, Hsm. cbn [orb andb]. rewrite Ho. f_equal. lia.
        + cbn [lead_ok]. rewrite (proj1 (proj2 (big_base i))), (proj1 (in_sq_ex i)). rewrite Hl, andb_true_r.
          destruct exfn; [rewrite (Hlead (Hx eq_refl)); reflexivity|apply orb_true_r].
        + constructor; [exists r1, (QE TRParen :: r'); split; [exact R|cbn [length]; lia]|].
          eapply sub_info_mono; [|exact Hs]. cbn [length]. lia.
        + lia.
      - subst l. cbn [length] in *. destruct (exists_group_inv _ _ _ G) as [R Hx].
        destruct (HQ _ _ _ R) as ((Hsuf & _) & Hlead). apply suf_len in Hsuf. cbn [length] in Hsuf.
        destruct (IH k (S i) r' Hf ltac:(lia)) as (Ho & Hl & Hs & Hn).
        assert (Hsm : small i = true) by (unfold small; apply N.ltb_lt; lia).
        split; [|split; [|split]].
        + cbn [oka]. rewrite (proj2 (proj2 (big_base i))), N.eqb_refl, Hsm. rewrite orb_true_r. cbn [andb]. rewrite Ho. f_equal. lia.
        + cbn [lead_ok]. rewrite (proj2 (proj2 (big_base i))), (proj2 (in_sq_ex i)). rewrite Hl, andb_true_r.
          destruct exfn; [rewrite (Hlead (Hx eq_refl)); reflexivity|apply orb_true_r].
        + constructor; [exists r1, (QE TRParen :: r'); split; [exact R|cbn [length]; lia]|].
          eapply sub_info_mono; [|exact Hs]. cbn [length]. lia.
        + lia.
    Qed.
  
    Lemma cut0 V sl l : suf (rest_at 0 V l) l /\
      (forallb ckq (firstn (nsub (firstn 0 (map fst V))) sl) = true ->
       ceq (K l) (K (unfoldl (map qtoks (firstn (nsub (firstn 0 (map fst V))) sl)) (firstn 0 (map fst V))) ++ K (rest_at 0 V l))).
    Proof. cbn. split; [apply suf_refl|intros _; apply ceq_refl]. Qed.

    Definition Cut (F : folded) (l : list qtok) (c : nat) : Prop :=
      suf (rest_at c (fv F) l) l /\
      (forallb ckq (firstn (nsub (firstn c (vw F))) (fsubs F)) = true ->
       ceq (K l) (K (unfoldl (map qtoks (firstn (nsub (firstn c (vw F))) (fsubs F))) (firstn c (vw F))) ++ K (rest_at c (fv F) l))).

    (** one ordinary token in front *)
    Lemma cut_cons t r F c : is_big t = false -> Cut F r c -> Cut (fcons t r F) (QE t :: r) (S c).
    Proof.
      intros Hb [Hs Hk]. unfold Cut, vw in *. cbn [fv fsubs fcons map fst firstn]. rewrite rest_at_cons, nsub_cons, Hb. cbn [plus].
      split; [apply suf_cons; exact Hs|]. intro Hc. rewrite unfoldl_small by exact Hb.
      rewrite (K_cons (QE t) r), (K_cons (QE t) (unfoldl _ _)), <- app_assoc. apply ceq_app; [apply ceq_refl|apply Hk; exact Hc].
    Qed.

    (** a subquery in front: [pre] the tokens before it, [post] those after it, none of them content *)
    Lemma cut_sub q r1 r' F c (pre post : list qtok) (P0 : list tok) :
      recq r1 = Ok (q, post ++ r') ->
      forallb (fun t => negb (qlit t)) pre = true -> forallb (fun t => negb (qlit t)) post = true ->
      Cut F r' c ->
      forall U, (forall st, unfoldl (qtoks q :: st) (P0 ++ firstn c (vw F)) = U ++ unfoldl st (firstn c (vw F))) ->
      K U = K (qtoks q) ->
      nsub P0 = 1%nat ->
      suf (rest_at c (fv F) r') (pre ++ r1) /\
      (forallb ckq (firstn (nsub (P0 ++ firstn c (vw F))) (q :: fsubs F)) = true ->
       ceq (K (pre ++ r1)) (K (unfoldl (map qtoks (firstn (nsub (P0 ++ firstn c (vw F))) (q :: fsubs F))) (P0 ++ firstn c (vw F))) ++
                           K (rest_at c (fv F) r'))).
    Proof.
      intros R Hpre Hpost [Hs Hk] U HU HKU Hns.
      destruct (HQ _ _ _ R) as ((Qs & _ & Qk) & _).
      assert (Kpre : K pre = []).
      { clear - Hpre Hlit. induction pre as [|t p IH]; [reflexivity|]. cbn [forallb] in Hpre. apply andb_true_iff in Hpre.
        destruct Hpre as [H1 H2]. apply negb_true_iff in H1. rewrite K_drop by exact H1. apply IH. exact H2. }
      assert (Kpost : K post = []).
      { clear - Hpost Hlit. induction post as [|t p IH]; [reflexivity|]. cbn [forallb] in Hpost. apply andb_true_iff in Hpost.
        destruct Hpost as [H1 H2]. apply negb_true_iff in H1. rewrite K_drop by exact H1. apply IH. exact H2. }
      split.
      - eapply suf_trans; [exact Hs|]. eapply suf_trans; [apply suf_app|]. eapply suf_trans; [exact Qs|apply suf_app].
      - assert (En : nsub (P0 ++ firstn c (vw F)) = S (nsub (firstn c (vw F)))).
        { unfold nsub in *. rewrite filter_app, app_length, Hns. reflexivity. }
        rewrite En. cbn [firstn forallb map]. intro Hc. apply andb_true_iff in Hc. destruct Hc as [Hc1 Hc2].
        rewrite HU, !K_app, HKU, Kpre. cbn [app].
        eapply ceq_chain; [apply Qk; exact Hc1|]. rewrite K_app, Kpost. cbn [app]. apply Hk. exact Hc2.
    Qed.
  
    Lemma fold_cut : forall g k i l, ffuel (foldq g k i l) = false -> forall c,
      (c <= length (fv (foldq g k i l)))%nat ->
      (fstop (foldq g k i l) = true -> (c < length (fv (foldq g k i l)))%nat) ->
      Cut (foldq g k i l) l c.
    Proof.
      induction g as [|g IH]; intros k i l Hf c Hc Hst; [discriminate Hf|].
      destruct (fold_step recq exfn g k i l) as [E|t0 t r E St|w r E|r1 E|t r k2 E Hb Hcs|r E|r q r' E Qs R|r1 q r' E G|r1 q r' E G];
        cbn [fv fsubs ffuel fstop fcons fsub fstopv fnil length] in *.
      - destruct c; [apply cut0|lia].
      - destruct c; [apply cut0|]. specialize (Hst eq_refl). lia.
      - destruct c as [|[|c]]; [apply cut0| |specialize (Hst eq_refl); lia].
        subst l. apply (cut_cons (TKw w) r (fstopv TOther r) 0 eq_refl). apply cut0.
      - destruct c as [|[|c]]; [apply cut0| |specialize (Hst eq_refl); lia].
        subst l. apply (cut_cons (TKw KNot) _ (fstopv (TType 0) (QE TLParen :: r1)) 0 eq_refl). apply cut0.
      - destruct c as [|c]; [apply cut0|]. subst l. apply cut_cons; [exact Hb|]. apply IH; [exact Hf|lia|intro H; specialize (Hst H); lia].
      - destruct c as [|[|c]]; [apply cut0| |].
        + subst l. apply (cut_cons (TKw KDistinct) _ (fcons (TKw KFrom) r (foldq g k i r)) 0 eq_refl). apply cut0.
        + subst l. apply (cut_cons (TKw KDistinct) _ (fcons (TKw KFrom) r (foldq g k i r)) (S c) eq_refl).
          apply (cut_cons (TKw KFrom) r (foldq g k i r) c eq_refl).
          apply IH; [exact Hf|lia|intro H; specialize (Hst H); lia].
      - subst l. destruct (HQ _ _ _ R) as ((Qsuf & _ & Qk) & _).
        destruct c as [|[|[|c]]]; [apply cut0| | |].
        + (* ( *)
          unfold Cut, vw. cbn [fv fsubs fsub fcons map fst firstn]. rewrite rest_at_cons. cbn [rest_at].
          change (nsub [TLParen]) with 0%nat. cbn [firstn map forallb unfoldl]. split; [apply suf_cons, suf_refl|].
          intros _. rewrite K_drop by reflexivity. cbn [filter]. rewrite (keep_nl (QE TLParen) eq_refl). apply ceq_refl.
        + (* ( q *)
          unfold Cut, vw. cbn [fv fsubs fsub fcons map fst firstn]. rewrite !rest_at_cons. cbn [rest_at].
          assert (En : nsub [TLParen; TAtom false (SQ_BASE + N.of_nat i)] = 1%nat).
          { unfold nsub. cbn [filter is_big]. rewrite (proj1 (big_base i)). reflexivity. }
          rewrite En. cbn [firstn map forallb unfoldl]. rewrite (proj1 (big_base i)), andb_true_r.
          split; [apply suf_cons; exact Qsuf|]. intro Hc1. rewrite app_nil_r. rewrite !(K_drop (QE TLParen)) by reflexivity.
          rewrite K_wrap. apply Qk. exact Hc1.
        + (* ( q ) ... *)
          unfold Cut, vw. cbn [fv fsubs fsub fcons map fst firstn]. rewrite !rest_at_cons.
          apply (cut_sub q r r' (foldq g k (S i) r') c [QE TLParen] [QE TRParen]
                   [TLParen; TAtom false (SQ_BASE + N.of_nat i); TRParen] R eq_refl eq_refl
                   (IH _ _ _ Hf c ltac:(lia) ltac:(intro H; specialize (Hst H); lia))
                   (QE TLParen :: wrap (SQ_BASE + N.of_nat i) (qtoks q) ++ [QE TRParen])).
          * intro st. cbn [app unfoldl]. rewrite (proj1 (big_base i)). rewrite <- app_assoc. reflexivity.
          * rewrite K_drop by reflexivity. rewrite K_app, K_wrap. cbn [filter]. rewrite (keep_nl (QE TRParen) eq_refl), app_nil_r. reflexivity.
          * unfold nsub. cbn [filter is_big]. rewrite (proj1 (big_base i)). reflexivity.
      - subst l. destruct (exists_group_inv _ _ _ G) as [R _].
        destruct c as [|c]; [apply cut0|].
        unfold Cut, vw. cbn [fv fsubs fsub fcons map fst firstn]. rewrite !rest_at_cons.
        apply (cut_sub q r1 r' (foldq g k (S i) r') c [QK KExists; QE TLParen] [QE TRParen]
                 [TAtom false (EX_BASE + N.of_nat i)] R eq_refl eq_refl
                 (IH _ _ _ Hf c ltac:(lia) ltac:(intro H; specialize (Hst H); lia))
                 (wrap (EX_BASE + N.of_nat i) (qtoks q))).
        + intro st. cbn [app unfoldl]. rewrite (proj1 (proj2 (big_base i))). reflexivity.
        + apply K_wrap.
        + unfold nsub. cbn [filter is_big]. rewrite (proj1 (proj2 (big_base i))). reflexivity.
      - subst l. destruct (exists_group_inv _ _ _ G) as [R _].
        destruct c as [|c]; [apply cut0|].
        unfold Cut, vw. cbn [fv fsubs fsub fcons map fst firstn]. rewrite !rest_at_cons.
        apply (cut_sub q r1 r' (foldq g k (S i) r') c [QE (TKw KNot); QK KExists; QE TLParen] [QE TRParen]
                 [TAtom false (NEX_BASE + N.of_nat i)] R eq_refl eq_refl
                 (IH _ _ _ Hf c ltac:(lia) ltac:(intro H; specialize (Hst H); lia))
                 (wrap (NEX_BASE + N.of_nat i) (qtoks q))).
        + intro st. cbn [app unfoldl]. rewrite (proj2 (proj2 (big_base i))). reflexivity.
        + apply K_wrap.
        + unfold nsub. cbn [filter is_big]. rewrite (proj2 (proj2 (big_base i))). reflexivity.
    Qed.
  End Fold.

  (** ** [parse_expr] with subqueries *)
  Definition xcanon : xexpr -> bool := xall canP tt2.
  Definition XI : list qtok -> xexpr -> list qtok -> Prop := Inv (xwfg sf d) xcanon ckx xtoks.

  Lemma pexpr_inv recq (HQ : forall ts q r, recq ts = Ok (q, r) -> QI ts q r) ts x r :
    pexpr recq (exists_fn d) (base d) ts = Ok (x, r) -> XI ts x r.
  Proof.
    unfold pexpr. set (F := fold recq (exists_fn d) (S (length ts)) 0 0 ts).
    destruct (ffuel F) eqn:Ff; [discriminate|].
    destruct (parse_expr (base d) (map fst (fv F))) as [[e r0]| | |] eqn:PE; cbn [bind]; try discriminate.
    destruct (fstop F && Nat.eqb (length r0) 0) eqn:G; [discriminate|]. intro H. inversion H; subst x r. clear H.
    pose proof (pratt_invariant (base d) HU0 _ _ _ PE) as (Hy & (_ & Hw & Hls) & _).
    pose proof (parse_expr_shape (base d) _ _ _ PE) as (Hs & _).
    assert (Hn : (length (map fst (fv F)) - length r0 = length (yield e))%nat) by (rewrite Hy, app_length; lia).
    rewrite Hn.
    assert (Hfn : firstn (length (yield e)) (map fst (fv F)) = yield e).
    { rewrite Hy. rewrite firstn_app, PeanoNat.Nat.sub_diag, firstn_all. cbn [firstn]. apply app_nil_r. }
    rewrite Hfn.
    assert (Hlen : length (fv F) = (length (yield e) + length r0)%nat).
    { rewrite <- (map_length fst), Hy, app_length. reflexivity. }
    assert (Hcut : Cut F ts (length (yield e))).
    { apply (fold_cut recq (exists_fn d) HQ (S (length ts)) 0 0 ts Ff); fold F; [lia|]. intro Hst. rewrite Hst in G. cbn [andb] in G.
      destruct r0; [discriminate G|cbn [length] in Hlen; lia]. }
    unfold Cut, vw in Hcut. rewrite Hfn in Hcut. destruct Hcut as [Hsuf Hk].
    split; [exact Hsuf|]. split.
    - (* well-formedness *)
      intros Hfit Hc. unfold xcanon in Hc. cbn [xall] in Hc. apply andb_true_iff in Hc. destruct Hc as [Hce Hcs].
      destruct (fold_whole recq (exists_fn d) HQ (S (length ts)) 0 0 ts Ff ltac:(unfold fits in Hfit; lia)) as (Ho & Hl & Hsi & Hln).
      fold F in Ho, Hl, Hsi, Hln. unfold vw in Ho, Hl. cbn [plus] in Ho.
      pose proof (yield_obal _ _ Hs) as Hob.
      rewrite Hy, Hob in Ho. destruct (oka 0 (yield e)) as [i'|] eqn:Oa; [|discriminate Ho].
      pose proof (oka_count _ _ (le_n _) _ _ Oa) as Ei'. cbn [plus] in Ei'.
      pose proof (oka_count _ _ (le_n _) _ _ Ho) as Er0.
      assert (Hok : okts 0 0 (yield e) = Some (0%nat, i')).
      { apply (okts_combine _ _ (le_n _)); [|exact Oa]. pose proof (yield_dbal _ _ Hs 0%nat []) as Hdb.
        rewrite app_nil_r in Hdb. exact Hdb. }
      assert (Hsl : length (firstn (nsub (yield e)) (fsubs F)) = nsub (yield e)) by (apply firstn_length_le; lia).
      cbn [xwfg]. apply andb_true_iff. split; [apply andb_true_iff; split; [apply andb_true_iff; split|]|].
      + destruct (HP e Hce) as [Hcan Hfr]. unfold ewfg. rewrite Hcan, Hfr. rewrite !andb_true_r.
        apply andb_true_iff. split; [apply andb_true_iff; split|].
        * apply shapeb_iff. exact Hs.
        * apply wfb_iff. exact Hw.
        * apply lspine_gtb_iff. exact Hls.
      + unfold sq_ok. rewrite Hok, Hsl, Ei'. apply PeanoNat.Nat.eqb_refl.
      + rewrite Hy in Hl. eapply lead_ok_prefix. exact Hl.
      + apply forallb_forall. intros q Hin. rewrite forallb_forall in Hcs. specialize (Hcs q Hin).
        apply In_firstn in Hin. rewrite Forall_forall in Hsi. destruct (Hsi q Hin) as (ts' & r' & R & Hlt).
        destruct (HQ _ _ _ R) as ((_ & Hwf & _) & _). apply Hwf; [unfold fits in *; lia|exact Hcs].
    - (* content *)
      intro Hc. unfold ckx in Hc. cbn [xall] in Hc. apply andb_true_iff in Hc. destruct Hc as [Hce Hcs].
      unfold nwe in Hce. apply negb_true_iff in Hce. rewrite (K_xtoks e _ Hce). apply Hk. exact Hcs.
  Qed.

  (** ** Comma-separated lists *)
  Definition ntr (trail : option (list qtok)) (ts : list qtok) : Prop :=
    match trail with Some reserved => comma_end reserved ts = false | None => True end.

  Inductive Chain {A} (R : list qtok -> A -> list qtok -> Prop) (trail : option (list qtok)) :
    list qtok -> list A -> list qtok -> Prop :=
  | Ch_last ts x r0 r : R ts x r0 -> (r = r0 \/ r0 = QE TComma :: r) -> Chain R trail ts [x] r
  | Ch_cons ts x r' l r : R ts x (QE TComma :: r') -> ntr trail r' -> Chain R trail r' l r ->
      Chain R trail ts (x :: l) r.

  Lemma comma_list_chain {A} (elem : list qtok -> res (A * list qtok)) trail (R : list qtok -> A -> list qtok -> Prop) :
    (forall ts x r, elem ts = Ok (x, r) -> R ts x r) ->
    forall g ts l r, comma_list elem trail g ts = Ok (l, r) -> Chain R trail ts l r.
  Proof.
    intro HR. induction g as [|g IH]; intros ts l r H; [discriminate H|]. cbn [comma_list] in H.
    destruct (elem ts) as [[x r0]| | |] eqn:E; cbn [bind] in H; try discriminate H. apply HR in E.
    destruct r0 as [|t r1]; [inversion H; subst; eapply Ch_last; [exact E|left; reflexivity]|].
    destruct t as [t| | |]; try (inversion H; subst; eapply Ch_last; [exact E|left; reflexivity]).
    destruct t; try (inversion H; subst; eapply Ch_last; [exact E|left; reflexivity]).
    destruct (match trail with Some reserved => comma_end reserved r1 | None => false end) eqn:T.
    - inversion H; subst. eapply Ch_last; [exact E|right; reflexivity].
    - destruct (comma_list elem trail g r1) as [[l' r'']| | |] eqn:E2; cbn [bind] in H; try discriminate H.
      inversion H; subst. eapply Ch_cons; [exact E| |apply IH; exact E2].
      unfold ntr. destruct trail; [exact T|exact I].
  Qed.

  Lemma sepc_K {A} (toks : A -> list qtok) x y l :
    K (sepc (map toks (x :: y :: l))) = K (toks x) ++ K (sepc (map toks (y :: l))).
  Proof. cbn [map]. rewrite sepc_cons, K_app, K_drop by reflexivity. reflexivity. Qed.

  Lemma chain_inv {A} (wfA canA ckA : A -> bool) (toksA : A -> list qtok) trail ts l r :
    Chain (Inv wfA canA ckA toksA) trail ts l r ->
    l <> [] /\ Inv (forallb wfA) (forallb canA) (forallb ckA) (fun l => sepc (map toksA l)) ts l r.
  Proof.
    induction 1 as [ts x r0 r (Hs & Hw & Hk) Hr|ts x r' l r (Hs & Hw & Hk) Hn Hc (Hne & IHs & IHw & IHk)].
    - split; [discriminate|]. assert (Hr' : suf r r0 /\ K r0 = K r).
      { destruct Hr as [->| ->]; [split; [apply suf_refl|reflexivity]|split; [apply suf_cons, suf_refl|apply K_drop; reflexivity]]. }
      destruct Hr' as [Hr1 Hr2]. split; [eapply suf_trans; eassumption|]. split.
      + intros Hf Hc. cbn [forallb] in *. rewrite andb_true_r in *. auto.
      + intro Hc. cbn [forallb] in Hc. rewrite andb_true_r in Hc. cbn [map sepc]. rewrite <- Hr2. auto.
    - split; [discriminate|]. assert (Hs' : suf r' ts) by (eapply suf_trans; [apply suf_cons, suf_refl|exact Hs]).
      split; [eapply suf_trans; eassumption|]. split.
      + intros Hf Hc'. cbn [forallb] in *. apply andb_true_iff in Hc'. destruct Hc' as [H1 H2].
        rewrite (Hw Hf H1). cbn [andb]. apply IHw; [eapply fits_suf; eassumption|exact H2].
      + intro Hc'. cbn [forallb] in Hc'. apply andb_true_iff in Hc'. destruct Hc' as [H1 H2].
        destruct l as [|y l']; [congruence|]. rewrite sepc_K.
        eapply ceq_chain; [apply Hk; exact H1|]. rewrite K_drop by reflexivity. apply IHk. exact H2.
  Qed.

  (** the elements after the first one start where a trailing comma would not end the list *)
  Lemma chain_later {A} (R : list qtok -> A -> list qtok -> Prop) trail ts l r :
    Chain R trail ts l r -> Forall (fun x => exists ts' r', R ts' x r' /\ ntr trail ts') (tl l).
  Proof.
    induction 1 as [ts x r0 r HR Hr|ts x r' l r HR Hn Hc IH]; [constructor|]. cbn [tl].
    inversion Hc; subst; constructor; eauto.
  Qed.

  Lemma chain_first {A} (R : list qtok -> A -> list qtok -> Prop) trail ts x l r :
    Chain R trail ts (x :: l) r -> exists r0, R ts x r0.
  Proof. intro H. inversion H; subst; eauto. Qed.

  Lemma ntr_later w x : is_word w = true -> ntr (trail_all d) (w :: x) -> later_ok d w = true.
  Proof.
    unfold ntr, trail_all, later_ok. destruct (trailing d); [|reflexivity]. intros Hw H.
    rewrite comma_end_word in H by exact Hw. rewrite H. reflexivity.
  Qed.

  (** ** Words *)
  Lemma parse_ident_inv ts w r : parse_ident ts = Ok (w, r) -> ts = w :: r /\ is_word w = true.
  Proof.
    unfold parse_ident. destruct ts as [|t r0]; [discriminate|]. destruct (is_word t) eqn:W.
    - intro H. inversion H; subst. auto.
    - destruct t as [[]| | |]; try discriminate. destruct s; discriminate.
  Qed.

  Lemma parse_alias_inv res ts a r : parse_alias res ts = Ok (a, r) ->
    suf r ts /\ optb is_word a = true /\ K ts = K (alias_toks a) ++ K r /\ (a = None -> r = ts).
  Proof.
    unfold parse_alias. destruct ts as [|t ts'].
    - intro H. inversion H; subst. repeat split. apply suf_refl.
    - assert (Hgen : forall (after_as : bool) (l : list qtok),
        match l with
        | w :: r' =>
            if is_word w && (after_as || negb (mem w res)) then Ok (Some w, r')
            else match w with
                 | QE (TAtom true _) => OutOfFragment
                 | QOther | QE TOther => OutOfFragment
                 | _ => if after_as then Err else Ok (None, l)
                 end
        | [] => if after_as then Err else Ok (None, l)
        end = Ok (a, r) ->
        suf r l /\ optb is_word a = true /\ K l = K (alias_toks a) ++ K r /\ (a = None -> after_as = false /\ r = l)).
      { intros aa l. destruct l as [|w r'].
        - destruct aa; [discriminate|]. intro H. inversion H; subst. repeat split. apply suf_refl.
        - destruct (is_word w && (aa || negb (mem w res))) eqn:E.
          + intro H. inversion H; subst. apply andb_true_iff in E. destruct E as [E _].
            repeat split; [apply suf_cons, suf_refl|exact E| |discriminate|discriminate].
            cbn [alias_toks]. rewrite (K_drop (QK KAs)) by reflexivity. apply K_cons.
          + assert (Hn : (if aa then Err else Ok (None, w :: r')) = Ok (a, r) ->
                     suf r (w :: r') /\ optb is_word a = true /\ K (w :: r') = K (alias_toks a) ++ K r /\ (a = None -> aa = false /\ r = w :: r')).
            { destruct aa; [discriminate|]. intro H. inversion H; subst. repeat split. apply suf_refl. }
            destruct w as [[]| | |]; try exact Hn; try discriminate. destruct s; [discriminate|exact Hn]. }
      destruct t as [t0|k| |]; try (intro H; match goal with |- suf _ (?x :: _) /\ _ => pose proof (Hgen false (x :: ts') H) as (H1 & H2 & H3 & H4) end; repeat split; auto; intro Ha; apply H4; exact Ha).
      destruct k; try (intro H; match goal with |- suf _ (?x :: _) /\ _ => pose proof (Hgen false (x :: ts') H) as (H1 & H2 & H3 & H4) end; repeat split; auto; intro Ha; apply H4; exact Ha).
      intro H. pose proof (Hgen true ts' H) as (H1 & H2 & H3 & H4).
      split; [apply suf_cons; exact H1|]. split; [exact H2|]. split; [rewrite K_drop by reflexivity; exact H3|].
      intro Ha. destruct (H4 Ha) as [Hf _]. discriminate Hf.
  Qed.

  Lemma parse_talias_inv res ts a r : parse_talias res ts = Ok (a, r) ->
    suf r ts /\ optb is_word a = true /\ K ts = K (alias_toks a) ++ K r.
  Proof.
    unfold parse_talias. destruct (parse_alias res ts) as [[a0 r0]| | |] eqn:E; cbn [bind]; try discriminate.
    apply parse_alias_inv in E. destruct E as (H1 & H2 & H3 & _).
    destruct a0 as [w|]; [destruct r0 as [|[[]| | |] ?]; try discriminate|]; intro H; inversion H; subst; auto.
  Qed.

  Lemma parse_cols_inv ts cols r : parse_cols d ts = Ok (cols, r) ->
    suf r ts /\ cols_wf d cols = true /\ K ts = K (cols_toks cols) ++ K r.
  Proof.
    unfold parse_cols. destruct (comma_list parse_ident (trail_all d) (S (length ts)) ts) as [[l r0]| | |] eqn:E; cbn [bind]; try discriminate.
    destruct r0 as [|[[]| | |] r1]; try discriminate. intro H. inversion H; subst l r1. clear H.
    pose proof (comma_list_chain parse_ident (trail_all d) (fun ts w r => ts = w :: r /\ is_word w = true) parse_ident_inv _ _ _ _ E) as Hc.
    clear E. assert (Hall : suf (QE TRParen :: r) ts /\ forallb is_word cols = true /\ cols <> [] /\
                            K ts = K (sepc (map (fun c => [c]) cols)) ++ K (QE TRParen :: r)).
    { induction Hc as [ts x r0 r' [-> Hw] Hr|ts x r' l r'' [-> Hw] Hn Hc IH].
      - assert (Hr' : suf r' r0 /\ K r0 = K r').
        { destruct Hr as [->| ->]; [split; [apply suf_refl|reflexivity]|split; [apply suf_cons, suf_refl|apply K_drop; reflexivity]]. }
        destruct Hr' as [Hr1 Hr2]. split; [apply suf_cons; exact Hr1|]. cbn [forallb]. rewrite Hw. repeat split; [discriminate|].
        cbn [map sepc]. rewrite <- Hr2. apply K_cons.
      - destruct IH as (I1 & I2 & I3 & I4). split; [apply suf_cons, suf_cons; exact I1|]. cbn [forallb]. rewrite Hw, I2.
        repeat split; [discriminate|]. destruct l as [|y l']; [congruence|]. rewrite sepc_K.
        rewrite (K_cons x), (K_drop (QE TComma)) by reflexivity. rewrite I4, <- app_assoc. reflexivity. }
    destruct Hall as (A1 & A2 & A3 & A4). split; [eapply suf_trans; [apply suf_cons, suf_refl|exact A1]|]. split.
    - unfold cols_wf. destruct cols as [|c0 cr]; [congruence|]. rewrite A2. cbn [andb].
      apply chain_later in Hc. cbn [tl] in Hc. apply forallb_forall. intros w Hin. rewrite Forall_forall in Hc.
      destruct (Hc w Hin) as (ts' & r' & [-> Hw] & Hn). eapply ntr_later; eassumption.
    - unfold cols_toks. rewrite (K_drop (QE TLParen)) by reflexivity. rewrite K_app. cbn [filter].
      rewrite (keep_nl (QE TRParen) eq_refl), app_nil_r. rewrite A4, K_drop by reflexivity. reflexivity.
  Qed.

  (** ** One nesting level: the recursive calls satisfy their invariants one level down *)
  Definition bcanon : setexpr -> bool := ball canP tt2.
  Definition bck : setexpr -> bool := ball nwe ckT.
  Definition BI (p : N) (ts : list qtok) (b : setexpr) (r : list qtok) : Prop :=
    Inv (bwfg sf d) bcanon bck btoks ts b r /\
    blspine_gtb p b = true /\ brspine_geb (headpow r) b = true /\ headpow r <= p /\
    (forall x, ts = QK KSelect :: x -> lead b = true).
  Definition TI : list qtok -> twj -> list qtok -> Prop :=
    Inv (twj_wfg sf d) (twall canP tt2) (twall nwe ckT) twj_toks.

  Ltac brk H :=
    match type of H with
    | context [bind ?c _] => destruct c as [[? ?]| | |] eqn:?; cbn [bind] in H; try discriminate H
    | context [if ?x then _ else _] => destruct x eqn:?; try discriminate H
    | context [match ?x with _ => _ end] => destruct x eqn:?; try discriminate H
    end.

  Section Level.
    Variable recq : list qtok -> res (query * list qtok).
    Variable recb : N -> list qtok -> res (setexpr * list qtok).
    Variable rect : list qtok -> res (twj * list qtok).
    Hypothesis HQ : forall ts q r, recq ts = Ok (q, r) -> QI ts q r.
    Hypothesis HB : forall p ts b r, recb p ts = Ok (b, r) -> BI p ts b r.
    Hypothesis HT : forall ts t r, rect ts = Ok (t, r) -> TI ts t r.

    Lemma pex_inv ts x r : pex d recq ts = Ok (x, r) -> XI ts x r.
    Proof. unfold pex. destruct (trailing d && comma_rparen ts); [discriminate|]. apply pexpr_inv. exact HQ. Qed.

    Definition IInv := Inv (item_wfg sf d) (iall canP tt2) (iall nwe ckT) item_toks.

    Lemma parse_item_expr_inv ts i r : parse_item_expr d recq ts = Ok (i, r) -> IInv ts i r.
    Proof.
      unfold parse_item_expr. intro H.
      destruct (pex d recq ts) as [[e r1]| | |] eqn:E; cbn [bind] in H; try discriminate H.
      destruct (parse_alias (res_col d) r1) as [[a r2]| | |] eqn:Ea; cbn [bind] in H; try discriminate H.
      inversion H; subst i r. clear H. apply pex_inv in E. destruct E as (Xs & Xw & Xk).
      apply parse_alias_inv in Ea. destruct Ea as (As & Aw & Ak & _).
      split; [eapply suf_trans; eassumption|]. destruct a as [w|]; cbn [optb] in Aw.
      - split.
        + intros Hf Hc. cbn [item_wfg]. rewrite (Xw Hf Hc), Aw. reflexivity.
        + intro Hc. cbn [item_toks]. rewrite K_app. eapply ceq_chain; [apply Xk; exact Hc|]. rewrite Ak. apply ceq_refl.
      - split.
        + intros Hf Hc. cbn [item_wfg]. exact (Xw Hf Hc).
        + intro Hc. cbn [item_toks]. eapply ceq_trans; [apply Xk; exact Hc|]. rewrite Ak. apply ceq_refl.
    Qed.

    Lemma wild_inv k r : (k =? K_Mul) = true -> IInv (QE (TOp k) :: r) IWild r.
    Proof.
      intros _. split; [apply suf_cons, suf_refl|]. split; [reflexivity|]. intros _. cbn [item_toks].
      rewrite !K_drop by reflexivity. apply ceq_refl.
    Qed.

    Lemma parse_item_inv ts i r : parse_item d recq ts = Ok (i, r) -> IInv ts i r.
    Proof.
      unfold parse_item. destruct ts as [|[t| | |] r0]; try apply parse_item_expr_inv.
      destruct t; try apply parse_item_expr_inv.
      destruct (k =? K_Mul) eqn:E; [|apply parse_item_expr_inv].
      intro H. assert (Hr : i = IWild /\ r = r0).
      { destruct r0 as [|[[]|[]| |] ?]; try (inversion H; auto; fail).
        - destruct k0; try (inversion H; auto; fail). destruct (wild_ilike d); [discriminate H|inversion H; auto].
        - destruct (wild_except d); [discriminate H|inversion H; auto]. }
      destruct Hr as [-> ->]. apply wild_inv. exact E.
    Qed.

    Definition OInv := Inv (oelem_wfg sf d) (oall canP tt2) (oall nwe ckT) oelem_toks.

    Lemma parse_order_elem_inv ts o r : parse_order_elem d recq ts = Ok (o, r) -> OInv ts o r.
    Proof.
      unfold parse_order_elem. intro H.
      destruct (pex d recq ts) as [[e r1]| | |] eqn:E; cbn [bind] in H; try discriminate H.
      apply pex_inv in E. destruct E as (Xs & Xw & Xk).
      assert (Hr : exists a, o = OElem e a /\ suf r r1 /\ K r1 = K (asc_toks a) ++ K r).
      { destruct r1 as [|[?|[]| |] r2]; try (inversion H; exists None; repeat split; apply suf_refl).
        - inversion H. exists (Some true). repeat split; [apply suf_cons, suf_refl|cbn [asc_toks]; rewrite !K_drop by reflexivity; reflexivity].
        - inversion H. exists (Some false). repeat split; [apply suf_cons, suf_refl|cbn [asc_toks]; rewrite !K_drop by reflexivity; reflexivity]. }
      destruct Hr as (a & -> & Rs & Rk). split; [eapply suf_trans; eassumption|]. split; [exact Xw|].
      intro Hc. cbn [oelem_toks]. rewrite K_app. eapply ceq_chain; [apply Xk; exact Hc|]. rewrite Rk. apply ceq_refl.
    Qed.

    Lemma parse_group_elem_inv ts x r : parse_group_elem d recq ts = Ok (x, r) -> XI ts x r.
    Proof.
      unfold parse_group_elem. intro H. apply pex_inv.
      destruct ts as [|[[]| | |] [|[[]| | |] ?]]; try exact H. destruct (group_by_expr d); [discriminate H|exact H].
    Qed.

    Definition oxw (x : option xexpr) : bool := match x with Some y => xwfg sf d y | None => true end.

    Lemma opt_clause_inv k ts x r : qlit k = false -> opt_clause d recq k ts = Ok (x, r) ->
      Inv oxw (oxall canP tt2) (oxall nwe ckT) (fun x => clause_toks k (otoks x)) ts x r.
    Proof.
      intros Hk H. unfold opt_clause in H.
      assert (Hnone : Ok (None, ts) = Ok (x, r) ->
                Inv oxw (oxall canP tt2) (oxall nwe ckT) (fun x => clause_toks k (otoks x)) ts x r).
      { intro H'. inversion H'; subst. split; [apply suf_refl|]. split; [reflexivity|]. intros _. apply ceq_refl. }
      destruct ts as [|t r0]; [exact (Hnone H)|]. destruct (qtok_eqb t k) eqn:E; [|exact (Hnone H)].
      destruct (pex d recq r0) as [[e r1]| | |] eqn:Ex; cbn [bind] in H; try discriminate H. inversion H; subst x r. clear H.
      apply pex_inv in Ex. destruct Ex as (Xs & Xw & Xk).
      assert (Ht : qlit t = false).
      { destruct t as [t|q| |], k as [t'|q'| |]; cbn [qtok_eqb] in E; try discriminate E; try reflexivity.
        apply tok_eqb_eq in E. subst. exact Hk. }
      split; [apply suf_cons; exact Xs|]. split.
      - intros Hf Hc. apply Xw; [eapply fits_suf; [apply suf_cons, suf_refl|exact Hf]|exact Hc].
      - intro Hc. cbn [clause_toks otoks option_map]. rewrite (K_drop t) by exact Ht. rewrite (K_drop k) by exact Hk.
        apply Xk. exact Hc.
    Qed.

    (** ** joins *)
    Lemma parse_jkind_inv ts k r : parse_jkind ts = Ok (Some (k, r)) -> suf r ts /\ K ts = K r.
    Proof.
      unfold parse_jkind, expect_join. intro H.
      destruct ts as [|[?|[]| |] r0]; try discriminate H.
      - inversion H; subst. split; [apply suf_cons, suf_refl|apply K_drop; reflexivity].
      - destruct r0 as [|[?|[]| |] r1]; try discriminate H. inversion H; subst.
        split; [apply suf_cons, suf_cons, suf_refl|rewrite !K_drop by reflexivity; reflexivity].
      - destruct r0 as [|[?|[]| |] r1]; try discriminate H.
        + inversion H; subst. split; [apply suf_cons, suf_cons, suf_refl|rewrite !K_drop by reflexivity; reflexivity].
        + destruct r1 as [|[?|[]| |] r2]; try discriminate H. inversion H; subst.
          split; [apply suf_cons, suf_cons, suf_cons, suf_refl|rewrite !K_drop by reflexivity; reflexivity].
      - destruct r0 as [|[?|[]| |] r1]; try discriminate H.
        + inversion H; subst. split; [apply suf_cons, suf_cons, suf_refl|rewrite !K_drop by reflexivity; reflexivity].
        + destruct r1 as [|[?|[]| |] r2]; try discriminate H. inversion H; subst.
          split; [apply suf_cons, suf_cons, suf_cons, suf_refl|rewrite !K_drop by reflexivity; reflexivity].
      - destruct r0 as [|[?|[]| |] r1]; try discriminate H.
        + inversion H; subst. split; [apply suf_cons, suf_cons, suf_refl|rewrite !K_drop by reflexivity; reflexivity].
        + destruct r1 as [|[?|[]| |] r2]; try discriminate H. inversion H; subst.
          split; [apply suf_cons, suf_cons, suf_cons, suf_refl|rewrite !K_drop by reflexivity; reflexivity].
    Qed.

    Lemma K_jkind k : K (jkind_toks k) = [].
    Proof. destruct k; cbn [jkind_toks]; rewrite !K_drop by reflexivity; reflexivity. Qed.

    Definition JCInv := Inv (jcons_wfg sf d) (jcall canP tt2) (jcall nwe ckT) jcons_toks.

    Lemma parse_jcons_inv natural ts c r : parse_jcons d recq natural ts = Ok (c, r) ->
      JCInv ts c r /\ (natural = true -> c = JNatural) /\ (natural = false -> c <> JNatural).
    Proof.
      unfold parse_jcons. destruct natural.
      - intro H. inversion H; subst. split; [|split; [reflexivity|discriminate]].
        split; [apply suf_refl|]. split; [reflexivity|]. intros _. apply ceq_refl.
      - intro H. assert (Hnone : Ok (JNone, ts) = Ok (c, r) -> JCInv ts c r /\ (false = true -> c = JNatural) /\ (false = false -> c <> JNatural)).
        { intro H'. inversion H'; subst. split; [|split; [discriminate|discriminate]].
          split; [apply suf_refl|]. split; [reflexivity|]. intros _. apply ceq_refl. }
        destruct ts as [|[?|k| |] r0]; try exact (Hnone H). destruct k; try exact (Hnone H).
        + (* ON *)
          destruct (pex d recq r0) as [[e r1]| | |] eqn:Ex; cbn [bind] in H; try discriminate H. inversion H; subst c r. clear H.
          apply pex_inv in Ex. destruct Ex as (Xs & Xw & Xk). split; [|split; discriminate].
          split; [apply suf_cons; exact Xs|]. split.
          * intros Hf Hc. apply Xw; [eapply fits_suf; [apply suf_cons, suf_refl|exact Hf]|exact Hc].
          * intro Hc. cbn [jcons_toks]. rewrite !(K_drop (QK KOn)) by reflexivity. apply Xk. exact Hc.
        + (* USING *)
          destruct r0 as [|[[]| | |] r1]; try discriminate H.
          destruct (parse_cols d r1) as [[cols r2]| | |] eqn:Ec; cbn [bind] in H; try discriminate H. inversion H; subst c r. clear H.
          apply parse_cols_inv in Ec. destruct Ec as (Cs & Cw & Ck). split; [|split; discriminate].
          split; [apply suf_cons, suf_cons; exact Cs|]. split; [intros _ _; exact Cw|].
          intros _. cbn [jcons_toks]. rewrite !(K_drop (QK KUsing)), (K_drop (QE TLParen)) by reflexivity. apply ceq_eq. exact Ck.
    Qed.
  
    Lemma eqb_qlit t k : qtok_eqb t k = true -> qlit k = false -> qlit t = false.
    Proof.
      intros E Hk. destruct t as [t|q| |], k as [t'|q'| |]; cbn [qtok_eqb] in E; try discriminate E; try reflexivity.
      apply tok_eqb_eq in E. subst. exact Hk.
    Qed.

    Lemma opt_tok_inv k ts b r : qlit k = false -> opt_tok k ts = (b, r) -> suf r ts /\ K ts = K r.
    Proof.
      intros Hk. unfold opt_tok. destruct ts as [|t r0]; [intro H; inversion H; split; [apply suf_refl|reflexivity]|].
      destruct (qtok_eqb t k) eqn:E; intro H; inversion H; subst; [|split; [apply suf_refl|reflexivity]].
      split; [apply suf_cons, suf_refl|apply K_drop; eapply eqb_qlit; eassumption].
    Qed.

    Lemma opt_tok2_inv k1 k2 ts b r : qlit k1 = false -> qlit k2 = false -> opt_tok2 k1 k2 ts = (b, r) -> suf r ts /\ K ts = K r.
    Proof.
      intros H1 H2. unfold opt_tok2. destruct ts as [|t1 [|t2 r0]]; try (intro H; inversion H; split; [apply suf_refl|reflexivity]).
      destruct (qtok_eqb t1 k1 && qtok_eqb t2 k2) eqn:E; intro H; inversion H; subst; [|split; [apply suf_refl|reflexivity]].
      apply andb_true_iff in E. destruct E as [E1 E2].
      split; [apply suf_cons, suf_cons, suf_refl|rewrite !K_drop by (eapply eqb_qlit; eassumption); reflexivity].
    Qed.

    Definition TRInv := Inv (tref_wfg sf d) (trall canP tt2) (trall nwe ckT) tref_toks.
    Definition tr_head (t : tref) (ts : list qtok) : Prop :=
      match t with TTable n _ => (exists x, ts = n :: x) /\ is_word n = true | _ => True end.

    Lemma parse_derived_inv r t r2 : parse_derived d recq r = Ok (t, r2) -> TRInv (QE TLParen :: r) t r2 /\ tr_head t (QE TLParen :: r).
    Proof.
      unfold parse_derived. destruct (recq r) as [[q [|[[]| | |] r1]]| | |] eqn:R; try discriminate.
      destruct (parse_talias (res_tab d) r1) as [[a r3]| | |] eqn:Ea; cbn [bind]; try discriminate.
      intro H. inversion H; subst t r3. clear H. split; [|exact I].
      destruct (HQ _ _ _ R) as ((Qs & Qw & Qk) & _). apply parse_talias_inv in Ea. destruct Ea as (As & Aw & Ak).
      split; [apply suf_cons; eapply suf_trans; [exact As|]; eapply suf_trans; [apply suf_cons, suf_refl|exact Qs]|]. split.
      - intros Hf Hc. cbn [tref_wfg]. rewrite Aw, andb_true_r. apply Qw; [eapply fits_suf; [apply suf_cons, suf_refl|exact Hf]|exact Hc].
      - intro Hc. cbn [tref_toks]. rewrite !(K_drop (QE TLParen)) by reflexivity. rewrite K_app, (K_drop (QE TRParen)) by reflexivity.
        rewrite <- app_assoc. eapply ceq_trans; [apply Qk; exact Hc|]. rewrite (K_drop (QE TRParen)) by reflexivity. rewrite Ak. apply ceq_refl.
    Qed.

    Definition tref_word (w : qtok) (r : list qtok) : res (tref * list qtok) :=
      if is_word w then
        if unnest_table d && qtok_eqb w (QE (TKw KUnnest)) then OutOfFragment
        else bind (table_follow d r) (fun _ =>
               bind (parse_talias (res_tab d) r) (fun '(a, r1) =>
                 match r1 with
                 | QK KWith :: QE TLParen :: _ => OutOfFragment
                 | _ => Ok (TTable w a, r1)
                 end))
      else match w with
           | QE (TAtom true _) | QOther | QE TOther => OutOfFragment
           | _ => Err
           end.

    Lemma tref_word_inv w r t r' : qtok_eqb w (QK KTable) = false -> tref_word w r = Ok (t, r') ->
      TRInv (w :: r) t r' /\ tr_head t (w :: r).
    Proof.
      intros Ht. unfold tref_word. destruct (is_word w) eqn:W.
      2:{ destruct w as [[]| | |]; try discriminate. destruct s; discriminate. }
      destruct (unnest_table d && qtok_eqb w (QE (TKw KUnnest))) eqn:U; [discriminate|].
      destruct (table_follow d r) as [[]| | |]; cbn [bind]; try discriminate.
      destruct (parse_talias (res_tab d) r) as [[a r1]| | |] eqn:Ea; cbn [bind]; try discriminate.
      intro H. assert (H' : t = TTable w a /\ r' = r1).
      { destruct r1 as [|[?|[]| |] [|[[]| | |] ?]]; inversion H; auto. }
      destruct H' as [-> ->]. clear H. apply parse_talias_inv in Ea. destruct Ea as (As & Aw & Ak).
      split; [|split; [eexists; reflexivity|exact W]].
      split; [apply suf_cons; exact As|]. split.
      - intros _ _. cbn [tref_wfg]. unfold name_ok. rewrite W, U, Ht, Aw. reflexivity.
      - intros _. cbn [tref_toks]. rewrite (K_cons w r), (K_cons w (alias_toks a)), Ak, <- app_assoc. apply ceq_refl.
    Qed.

    Lemma parse_tref_inv ts t r : parse_tref d recq rect ts = Ok (t, r) -> TRInv ts t r /\ tr_head t ts.
    Proof.
      destruct ts as [|[t0|k0| |] r0]; [discriminate| | | |].
      - destruct t0; try (intro H; match goal with |- TRInv (?w :: ?r0) _ _ /\ _ => exact (tref_word_inv w r0 _ _ eq_refl H) end).
        (* ( *)
        cbn [parse_tref]. destruct (parse_derived d recq r0) as [[t1 r1]| | |] eqn:PD; try discriminate.
        + intro H. inversion H; subst. apply parse_derived_inv. exact PD.
        + destruct (rect r0) as [[tw r1]| | |] eqn:RT; cbn [bind]; try discriminate.
          destruct (nested_shape tw) eqn:Ns; [|destruct (paren_tables d); discriminate].
          destruct (negb (first_ok (first_of tw))) eqn:Fo; [discriminate|]. apply negb_false_iff in Fo.
          destruct r1 as [|[[]| | |] r2]; try discriminate.
          destruct (parse_talias (res_tab d) r2) as [[a r3]| | |] eqn:Ea; cbn [bind]; try discriminate.
          intro H. inversion H; subst t r3. clear H. split; [|exact I].
          destruct (HT _ _ _ RT) as (Ts & Tw & Tk). apply parse_talias_inv in Ea. destruct Ea as (As & Aw & Ak).
          split; [apply suf_cons; eapply suf_trans; [exact As|]; eapply suf_trans; [apply suf_cons, suf_refl|exact Ts]|]. split.
          * intros Hf Hc. cbn [tref_wfg]. unfold nested_ok. rewrite Aw, Ns, Fo, !andb_true_r.
            apply Tw; [eapply fits_suf; [apply suf_cons, suf_refl|exact Hf]|exact Hc].
          * intro Hc. cbn [tref_toks]. rewrite !(K_drop (QE TLParen)) by reflexivity. rewrite K_app, (K_drop (QE TRParen)) by reflexivity.
            rewrite <- app_assoc. eapply ceq_trans; [apply Tk; exact Hc|]. rewrite (K_drop (QE TRParen)) by reflexivity. rewrite Ak. apply ceq_refl.
      - destruct k0; try (intro H; match goal with |- TRInv (?w :: ?r0) _ _ /\ _ => exact (tref_word_inv w r0 _ _ eq_refl H) end).
        cbn [parse_tref]. destruct r0 as [|[[]| | |] ?]; discriminate.
      - intro H. exact (tref_word_inv QSemi r0 _ _ eq_refl H).
      - intro H. exact (tref_word_inv QOther r0 _ _ eq_refl H).
    Qed.

    Definition JLInv := Inv (forallb (join_wfg sf d)) (forallb (jall canP tt2)) (forallb (jall nwe ckT))
                            (fun js => concat (map join_toks js)).

    Lemma K_jop_pre o : K (jop_pre o) = [].
    Proof.
      destruct o as [|k c]; [cbn [jop_pre]; rewrite !K_drop by reflexivity; reflexivity|].
      destruct c; cbn [jop_pre]; rewrite ?(K_drop (QK KNatural)) by reflexivity; apply K_jkind.
    Qed.

    (** a join in front of the joins read by [rec] *)
    Lemma join_cons_inv o t ts r1 r2 r3 js r4 (c : jcons) :
      suf r1 ts -> K ts = K r1 -> TRInv r1 t r2 ->
      (jop_wfg sf d o = jcons_wfg sf d c /\ joall canP tt2 o = jcall canP tt2 c /\
       joall nwe ckT o = jcall nwe ckT c /\ jop_suf o = jcons_toks c) ->
      JCInv r2 c r3 -> JLInv r3 js r4 -> JLInv ts (Join o t :: js) r4.
    Proof.
      intros S1 K1 (Ts & Tw & Tk) (O1 & O2 & O3 & O4) (Cs & Cw & Ck) (Ls & Lw & Lk).
      assert (S2 : suf r2 ts) by (eapply suf_trans; eassumption).
      assert (S3 : suf r3 ts) by (eapply suf_trans; eassumption).
      split; [eapply suf_trans; eassumption|]. split.
      - intros Hf Hc. cbn [forallb jall join_wfg] in *. rewrite O2 in Hc. rewrite O1.
        apply andb_true_iff in Hc. destruct Hc as [Hc Hc3]. apply andb_true_iff in Hc. destruct Hc as [Hc1 Hc2].
        rewrite (Cw (fits_suf _ _ S2 Hf) Hc1), (Tw (fits_suf _ _ S1 Hf) Hc2), (Lw (fits_suf _ _ S3 Hf) Hc3). reflexivity.
      - intro Hc. cbn [forallb jall] in Hc. rewrite O3 in Hc.
        apply andb_true_iff in Hc. destruct Hc as [Hc Hc3]. apply andb_true_iff in Hc. destruct Hc as [Hc1 Hc2].
        cbn [map concat join_toks]. rewrite !K_app, K_jop_pre, O4, K1. cbn [app]. rewrite <- !app_assoc.
        eapply ceq_step; [apply Tk; exact Hc2|]. eapply ceq_step; [apply Ck; exact Hc1|]. apply Lk. exact Hc3.
    Qed.

    Lemma join_loop_inv g : forall ts js r, join_loop d recq rect g ts = Ok (js, r) -> JLInv ts js r.
    Proof.
      induction g as [|g IH]; intros ts js r H; [discriminate H|].
      assert (Hgen : (let '(natural, r0) := opt_tok (QK KNatural) ts in
                      bind (parse_jkind r0) (fun o =>
                        match o with
                        | None => if natural then Err else Ok ([], ts)
                        | Some (k, r1) =>
                            bind (parse_tref d recq rect r1) (fun '(t, r2) =>
                              bind (parse_jcons d recq natural r2) (fun '(c, r3) =>
                                bind (join_loop d recq rect g r3) (fun '(js, r4) => Ok (Join (JOp k c) t :: js, r4))))
                        end)) = Ok (js, r) -> JLInv ts js r).
      { clear H. destruct (opt_tok (QK KNatural) ts) as [natural r0] eqn:On. apply (opt_tok_inv (QK KNatural) _ _ _ eq_refl) in On.
        destruct On as [S0 K0]. intro H.
        destruct (parse_jkind r0) as [[[k r1]|]| | |] eqn:Ek; cbn [bind] in H; try discriminate H.
        - apply parse_jkind_inv in Ek. destruct Ek as [S1 K1].
          destruct (parse_tref d recq rect r1) as [[t r2]| | |] eqn:Et; cbn [bind] in H; try discriminate H.
          destruct (parse_jcons d recq natural r2) as [[c r3]| | |] eqn:Ec; cbn [bind] in H; try discriminate H.
          destruct (join_loop d recq rect g r3) as [[js' r4]| | |] eqn:El; cbn [bind] in H; try discriminate H.
          inversion H; subst js r. clear H. apply parse_tref_inv in Et. destruct Et as [Et _].
          apply parse_jcons_inv in Ec. destruct Ec as (Ec & _ & _). apply IH in El.
          eapply (join_cons_inv (JOp k c) t ts r1 r2 r3 js' r4 c); try eassumption.
          + eapply suf_trans; eassumption.
          + congruence.
          + repeat split; reflexivity.
        - destruct natural; [discriminate H|]. inversion H; subst. split; [apply suf_refl|]. split; [reflexivity|].
          intros _. apply ceq_refl. }
      cbn [join_loop] in H. destruct ts as [|[?|k| |] r0]; try exact (Hgen H). destruct k; try exact (Hgen H).
      (* CROSS JOIN *)
      clear Hgen. destruct r0 as [|[?|[]| |] r1]; try discriminate H.
      destruct (parse_tref d recq rect r1) as [[t r2]| | |] eqn:Et; cbn [bind] in H; try discriminate H.
      destruct (join_loop d recq rect g r2) as [[js' r4]| | |] eqn:El; cbn [bind] in H; try discriminate H.
      inversion H; subst js r. clear H. apply parse_tref_inv in Et. destruct Et as [Et _]. apply IH in El.
      eapply (join_cons_inv JCross t _ r1 r2 r2 js' r4 JNone); try eassumption.
      - apply suf_cons, suf_cons, suf_refl.
      - rewrite !K_drop by reflexivity. reflexivity.
      - repeat split; reflexivity.
      - split; [apply suf_refl|]. split; [reflexivity|]. intros _. apply ceq_refl.
    Qed.

    Definition tw_head (t : twj) (ts : list qtok) : Prop := match t with Twj r _ => tr_head r ts end.

    Lemma twj_step_inv ts t r : twj_step d recq rect ts = Ok (t, r) -> TI ts t r /\ tw_head t ts.
    Proof.
      unfold twj_step. intro H.
      destruct (parse_tref d recq rect ts) as [[t0 r1]| | |] eqn:Et; cbn [bind] in H; try discriminate H.
      destruct (join_loop d recq rect (S (length r1)) r1) as [[js r2]| | |] eqn:El; cbn [bind] in H; try discriminate H.
      inversion H; subst t r. clear H. apply parse_tref_inv in Et. destruct Et as [(Ts & Tw & Tk) Th].
      apply join_loop_inv in El. destruct El as (Ls & Lw & Lk). split; [|exact Th].
      split; [eapply suf_trans; eassumption|]. split.
      - intros Hf Hc. cbn [twall twj_wfg] in *. apply andb_true_iff in Hc. destruct Hc as [Hc1 Hc2].
        rewrite (Tw Hf Hc1), (Lw (fits_suf _ _ Ts Hf) Hc2). reflexivity.
      - intro Hc. cbn [twall] in Hc. apply andb_true_iff in Hc. destruct Hc as [Hc1 Hc2].
        cbn [twj_toks]. rewrite K_app. eapply ceq_chain; [apply Tk; exact Hc1|]. apply Lk. exact Hc2.
    Qed.
  
    Lemma chain_mono {A} (R R' : list qtok -> A -> list qtok -> Prop) trail ts l r :
      (forall ts x r, R ts x r -> R' ts x r) -> Chain R trail ts l r -> Chain R' trail ts l r.
    Proof.
      intros HR. induction 1 as [ts x r0 r H Hr|ts x r' l r H Hn Hc IH].
      - eapply Ch_last; [apply HR; exact H|exact Hr].
      - eapply Ch_cons; [apply HR; exact H|exact Hn|exact IH].
    Qed.

    (** ** the clauses of SELECT *)
    Definition from_wf (from : list twj) : bool := forallb (twj_wfg sf d) from && later_names_ok d from.
    Definition FInv := Inv from_wf (forallb (twall canP tt2)) (forallb (twall nwe ckT)) (fun from => from_toks (map twj_toks from)).

    Lemma nil_inv {A} (wfA canA ckA : list A -> bool) (toksA : list A -> list qtok) ts :
      wfA [] = true -> toksA [] = [] -> Inv wfA canA ckA toksA ts [] ts.
    Proof. intros H1 H2. split; [apply suf_refl|]. split; [intros; exact H1|]. intros _. rewrite H2. apply ceq_refl. Qed.

    Lemma parse_from_inv ts from r : parse_from d recq rect ts = Ok (from, r) -> FInv ts from r.
    Proof.
      unfold parse_from. destruct (opt_tok (QE (TKw KFrom)) ts) as [b r0] eqn:Eo.
      apply (opt_tok_inv (QE (TKw KFrom)) _ _ _ eq_refl) in Eo. destruct Eo as [S0 K0].
      destruct b; [|intro H; inversion H; subst; apply nil_inv; reflexivity].
      intro H. pose proof (comma_list_chain _ _ (fun ts t r => TI ts t r /\ tw_head t ts) twj_step_inv _ _ _ _ H) as Hc.
      destruct (chain_inv _ _ _ _ _ _ _ _ (chain_mono _ TI _ _ _ _ (fun _ _ _ H => proj1 H) Hc)) as (Hne & Cs & Cw & Ck).
      split; [eapply suf_trans; eassumption|]. split.
      - intros Hf Hcn. unfold from_wf. rewrite (Cw (fits_suf _ _ S0 Hf) Hcn). cbn [andb].
        unfold later_names_ok. destruct from as [|t0 fr]; [reflexivity|].
        apply chain_later in Hc. cbn [tl] in Hc. apply forallb_forall. intros t Hin. rewrite Forall_forall in Hc.
        destruct (Hc t Hin) as (ts' & r' & [_ Hh] & Hn). destruct t as [[n a|q a|x a] js]; try reflexivity.
        cbn [twj_head_ok]. cbn [tw_head tr_head] in Hh. destruct Hh as [(x & ->) Hw]. eapply ntr_later; eassumption.
      - intro Hcn. rewrite K0. destruct from as [|t0 fr]; [congruence|].
        change (from_toks (map twj_toks (t0 :: fr))) with (QE (TKw KFrom) :: sepc (map twj_toks (t0 :: fr))).
        rewrite (K_drop (QE (TKw KFrom))) by reflexivity. apply Ck. exact Hcn.
    Qed.

    Definition GInv := Inv (forallb (xwfg sf d)) (forallb xcanon) (forallb ckx) (fun gb => group_toks (map xtoks gb)).

    Lemma parse_group_by_inv ts gb r : parse_group_by d recq ts = Ok (gb, r) -> GInv ts gb r.
    Proof.
      unfold parse_group_by. destruct (opt_tok2 (QK KGroup) (QK KBy) ts) as [b r0] eqn:Eo.
      apply (opt_tok2_inv (QK KGroup) (QK KBy) _ _ _ eq_refl eq_refl) in Eo. destruct Eo as [S0 K0].
      destruct b; [|intro H; inversion H; subst; apply nil_inv; reflexivity].
      destruct (fst (opt_tok (QE (TKw KAll)) r0)); [discriminate|].
      destruct (comma_list (parse_group_elem d recq) (trail_all d) (S (length r0)) r0) as [[l r1]| | |] eqn:E; cbn [bind]; try discriminate.
      destruct (group_with d && fst (opt_tok (QK KWith) r1)); [discriminate|]. intro H. inversion H; subst l r1. clear H.
      pose proof (comma_list_chain _ _ XI parse_group_elem_inv _ _ _ _ E) as Hc.
      destruct (chain_inv _ _ _ _ _ _ _ _ Hc) as (Hne & Cs & Cw & Ck).
      split; [eapply suf_trans; eassumption|]. split.
      - intros Hf Hcn. apply Cw; [eapply fits_suf; eassumption|exact Hcn].
      - intro Hcn. rewrite K0. destruct gb as [|x0 gr]; [congruence|].
        change (group_toks (map xtoks (x0 :: gr))) with (QK KGroup :: QK KBy :: sepc (map xtoks (x0 :: gr))).
        rewrite !(K_drop (QK _)) by reflexivity. apply Ck. exact Hcn.
    Qed.

    Definition OBInv := Inv (forallb (oelem_wfg sf d)) (forallb (oall canP tt2)) (forallb (oall nwe ckT))
                            (fun ob => order_toks (map oelem_toks ob)).

    Lemma parse_order_by_inv ts ob r : parse_order_by d recq ts = Ok (ob, r) -> OBInv ts ob r.
    Proof.
      unfold parse_order_by. destruct (opt_tok2 (QK KOrder) (QK KBy) ts) as [b r0] eqn:Eo.
      apply (opt_tok2_inv (QK KOrder) (QK KBy) _ _ _ eq_refl eq_refl) in Eo. destruct Eo as [S0 K0].
      destruct b; [|intro H; inversion H; subst; apply nil_inv; reflexivity].
      intro E. pose proof (comma_list_chain _ _ OInv parse_order_elem_inv _ _ _ _ E) as Hc.
      destruct (chain_inv _ _ _ _ _ _ _ _ Hc) as (Hne & Cs & Cw & Ck).
      split; [eapply suf_trans; eassumption|]. split.
      - intros Hf Hcn. apply Cw; [eapply fits_suf; eassumption|exact Hcn].
      - intro Hcn. rewrite K0. destruct ob as [|x0 gr]; [congruence|].
        change (order_toks (map oelem_toks (x0 :: gr))) with (QK KOrder :: QK KBy :: sepc (map oelem_toks (x0 :: gr))).
        rewrite !(K_drop (QK _)) by reflexivity. apply Ck. exact Hcn.
    Qed.

    Definition BInv := Inv (bwfg sf d) bcanon bck btoks.

    Lemma parse_select_inv ts b r : parse_select d recq rect ts = Ok (b, r) ->
      BInv (QK KSelect :: ts) b r /\ lead b = true /\ (forall o q l r', b <> BSetOp o q l r').
    Proof.
      unfold parse_select. destruct (fst (opt_tok (QK KAs) ts)); [destruct (select_as d); discriminate|].
      destruct (opt_tok (QE (TKw KAll)) ts) as [all ts1] eqn:E1.
      destruct (opt_tok (QE (TKw KDistinct)) ts1) as [dist ts2] eqn:E2.
      apply (opt_tok_inv (QE (TKw KAll)) _ _ _ eq_refl) in E1. apply (opt_tok_inv (QE (TKw KDistinct)) _ _ _ eq_refl) in E2.
      destruct E1 as [S1 K1], E2 as [S2 K2].
      destruct (all && dist); [discriminate|]. destruct (dist && fst (opt_tok (QK KOn) ts2)); [discriminate|].
      destruct (proj_trailing d && comma_rparen ts2); [discriminate|].
      destruct (comma_list (parse_item d recq) (trail_proj d) (S (length ts2)) ts2) as [[items ts3]| | |] eqn:Ei; cbn [bind]; try discriminate.
      destruct (parse_from d recq rect ts3) as [[from ts4]| | |] eqn:Ef; cbn [bind]; try discriminate.
      destruct (opt_clause d recq (QK KWhere) ts4) as [[wh ts5]| | |] eqn:Ew; cbn [bind]; try discriminate.
      destruct (parse_group_by d recq ts5) as [[gb ts6]| | |] eqn:Eg; cbn [bind]; try discriminate.
      destruct (opt_clause d recq (QK KHaving) ts6) as [[hv ts7]| | |] eqn:Eh; cbn [bind]; try discriminate.
      intro H. inversion H; subst b r. clear H. split; [|split; [reflexivity|discriminate]].
      pose proof (comma_list_chain _ _ IInv parse_item_inv _ _ _ _ Ei) as Hc.
      destruct (chain_inv _ _ _ _ _ _ _ _ Hc) as (Hne & Is & Iw & Ik).
      apply parse_from_inv in Ef. destruct Ef as (Fs & Fw & Fk).
      apply (opt_clause_inv (QK KWhere) _ _ _ eq_refl) in Ew. destruct Ew as (Ws & Ww & Wk).
      apply parse_group_by_inv in Eg. destruct Eg as (Gs & Gw & Gk).
      apply (opt_clause_inv (QK KHaving) _ _ _ eq_refl) in Eh. destruct Eh as (Hs & Hw & Hk).
      assert (T2 : suf ts2 (QK KSelect :: ts)) by (apply suf_cons; eapply suf_trans; eassumption).
      assert (T3 : suf ts3 (QK KSelect :: ts)) by (eapply suf_trans; eassumption).
      assert (T4 : suf ts4 (QK KSelect :: ts)) by (eapply suf_trans; eassumption).
      assert (T5 : suf ts5 (QK KSelect :: ts)) by (eapply suf_trans; eassumption).
      assert (T6 : suf ts6 (QK KSelect :: ts)) by (eapply suf_trans; eassumption).
      split; [eapply suf_trans; eassumption|]. split.
      - intros Hf Hc'. unfold bcanon in Hc'. cbn [ball] in Hc'.
        apply andb_true_iff in Hc'. destruct Hc' as [Hc' C5]. apply andb_true_iff in Hc'. destruct Hc' as [Hc' C4].
        apply andb_true_iff in Hc'. destruct Hc' as [Hc' C3]. apply andb_true_iff in Hc'. destruct Hc' as [C1 C2].
        pose proof (Fw (fits_suf _ _ T3 Hf) C2) as Fw'. unfold from_wf in Fw'. apply andb_true_iff in Fw'. destruct Fw' as [Fw1 Fw2].
        cbn [bwfg]. rewrite (Iw (fits_suf _ _ T2 Hf) C1), Fw1, Fw2, (Gw (fits_suf _ _ T5 Hf) C4).
        pose proof (Ww (fits_suf _ _ T4 Hf) C3) as Ww'. pose proof (Hw (fits_suf _ _ T6 Hf) C5) as Hw'.
        unfold oxw in Ww', Hw'. rewrite Ww', Hw'. destruct items; [congruence|reflexivity].
      - intro Hc'. unfold bck in Hc'. cbn [ball] in Hc'.
        apply andb_true_iff in Hc'. destruct Hc' as [Hc' C5]. apply andb_true_iff in Hc'. destruct Hc' as [Hc' C4].
        apply andb_true_iff in Hc'. destruct Hc' as [Hc' C3]. apply andb_true_iff in Hc'. destruct Hc' as [C1 C2].
        rewrite btoks_select. rewrite !(K_drop (QK KSelect)) by reflexivity. rewrite K1, K2.
        assert (Kd : K (dist_toks dist) = []) by (destruct dist; [cbn [dist_toks]; apply K_drop; reflexivity|reflexivity]).
        rewrite K_app, Kd. cbn [app]. rewrite !K_app, <- !app_assoc.
        eapply ceq_step; [apply Ik; exact C1|]. eapply ceq_step; [apply Fk; exact C2|].
        eapply ceq_step; [apply Wk; exact C3|]. eapply ceq_step; [apply Gk; exact C4|]. apply Hk. exact C5.
    Qed.
  
    (** ** VALUES, TABLE, the operands of set operations *)
    Definition VInv := Inv (vrow_wfg sf d) (vrall canP tt2) (vrall nwe ckT) vrow_toks.

    Lemma parse_vrow_inv ts v r : parse_vrow d recq ts = Ok (v, r) -> VInv ts v r.
    Proof.
      unfold parse_vrow. destruct ts as [|[[]| | |] r0]; try discriminate.
      assert (Hgen : bind (comma_list (pex d recq) (trail_all d) (S (length r0)) r0)
                       (fun '(l, r1) => match r1 with QE TRParen :: r2 => Ok (VRow l, r2) | _ => Err end) = Ok (v, r) ->
                     VInv (QE TLParen :: r0) v r).
      { intro H. destruct (comma_list (pex d recq) (trail_all d) (S (length r0)) r0) as [[l r1]| | |] eqn:E; cbn [bind] in H; try discriminate H.
        destruct r1 as [|[[]| | |] r2]; try discriminate H. inversion H; subst v r. clear H.
        pose proof (comma_list_chain _ _ XI pex_inv _ _ _ _ E) as Hc.
        destruct (chain_inv _ _ _ _ _ _ _ _ Hc) as (Hne & Cs & Cw & Ck).
        split; [apply suf_cons; eapply suf_trans; [apply suf_cons, suf_refl|exact Cs]|]. split.
        - intros Hf Hcn. cbn [vrow_wfg vrall] in *. rewrite (Cw (fits_suf _ _ (suf_cons _ _ _ (suf_refl _)) Hf) Hcn).
          destruct l; [congruence|reflexivity].
        - intro Hcn. cbn [vrow_toks]. rewrite !(K_drop (QE TLParen)) by reflexivity. rewrite K_app. cbn [filter].
          rewrite (keep_nl (QE TRParen) eq_refl), app_nil_r. eapply ceq_trans; [apply Ck; exact Hcn|].
          rewrite (K_drop (QE TRParen)) by reflexivity. apply ceq_refl. }
      destruct r0 as [|[t0| | |] r1]; try exact Hgen. destruct t0; try exact Hgen.
      destruct (values_empty d) eqn:Ve; [|discriminate]. intro H. inversion H; subst v r. clear H Hgen.
      split; [apply suf_cons, suf_cons, suf_refl|]. split.
      - intros _ _. cbn [vrow_wfg forallb]. rewrite Ve. reflexivity.
      - intros _. cbn [vrow_toks map sepc app]. rewrite !K_drop by reflexivity. apply ceq_refl.
    Qed.

    Definition nosetop (b : setexpr) : Prop := match b with BSetOp _ _ _ _ => False | _ => True end.

    Lemma parse_operand_inv ts b r : parse_operand d recq rect ts = Ok (b, r) ->
      BInv ts b r /\ (forall x, ts = QK KSelect :: x -> lead b = true) /\ nosetop b.
    Proof.
      unfold parse_operand. destruct ts as [|[t0|k0| |] r0]; try discriminate.
      - destruct t0; try discriminate.
        destruct (recq r0) as [[q r1]| | |] eqn:R; cbn [bind]; try discriminate.
        destruct r1 as [|[[]| | |] r2]; try discriminate. intro H. inversion H; subst b r. clear H.
        destruct (HQ _ _ _ R) as ((Qs & Qw & Qk) & _). split; [|split; [discriminate|exact I]].
        split; [apply suf_cons; eapply suf_trans; [apply suf_cons, suf_refl|exact Qs]|]. split.
        + intros Hf Hc. cbn [bwfg]. apply Qw; [eapply fits_suf; [apply suf_cons, suf_refl|exact Hf]|exact Hc].
        + intro Hc. rewrite btoks_nested. rewrite !(K_drop (QE TLParen)) by reflexivity. rewrite K_app. cbn [filter].
          rewrite (keep_nl (QE TRParen) eq_refl), app_nil_r. eapply ceq_trans; [apply Qk; exact Hc|].
          rewrite (K_drop (QE TRParen)) by reflexivity. apply ceq_refl.
      - destruct k0; try discriminate.
        + (* SELECT *)
          intro H. apply parse_select_inv in H. destruct H as (H1 & H2 & H3). split; [exact H1|]. split; [intros; exact H2|].
          destruct b; try exact I. exfalso. eapply H3. reflexivity.
        + (* VALUES *)
          destruct (comma_list (parse_vrow d recq) (trail_all d) (S (length r0)) r0) as [[rows r1]| | |] eqn:E; cbn [bind]; try discriminate.
          intro H. inversion H; subst b r1. clear H. split; [|split; [discriminate|exact I]].
          pose proof (comma_list_chain _ _ VInv parse_vrow_inv _ _ _ _ E) as Hc.
          destruct (chain_inv _ _ _ _ _ _ _ _ Hc) as (Hne & Cs & Cw & Ck).
          split; [apply suf_cons; exact Cs|]. split.
          * intros Hf Hcn. cbn [bwfg]. rewrite (Cw (fits_suf _ _ (suf_cons _ _ _ (suf_refl _)) Hf) Hcn).
            destruct rows; [congruence|reflexivity].
          * intro Hcn. cbn [btoks]. rewrite !(K_drop (QK KValues)) by reflexivity. apply Ck. exact Hcn.
        + (* TABLE *)
          destruct r0 as [|w r1]; [discriminate|]. destruct (is_word w) eqn:W.
          2:{ destruct w as [[]| | |]; discriminate. }
          intro H. inversion H; subst b r1. clear H. split; [|split; [discriminate|exact I]].
          split; [apply suf_cons, suf_cons, suf_refl|]. split; [intros _ _; exact W|].
          intros _. cbn [btoks]. rewrite !(K_drop (QK KTable)) by reflexivity. rewrite (K_cons w r), (K_cons w []). apply ceq_refl.
    Qed.

    (** ** the set operations *)
    Lemma set_op_of_inv ts o ts1 : set_op_of ts = Some (o, ts1) -> ts = setop_kw o :: ts1 /\ headpow ts = sp_pinned o.
    Proof.
      unfold headpow. destruct ts as [|[?|[]| |] r0]; try discriminate; intro H; inversion H; subst; split; reflexivity.
    Qed.
    Lemma setop_kw_lit o : qlit (setop_kw o) = false.
    Proof. destruct o; reflexivity. Qed.
    Lemma parse_quant_inv ts q r : parse_quant ts = (q, r) -> suf r ts /\ K ts = K r /\ K (quant_toks q) = [].
    Proof.
      unfold parse_quant. destruct ts as [|[[]| | |] r0]; try (intro H; inversion H; subst; repeat split; apply suf_refl).
      destruct k; try (intro H; inversion H; subst; repeat split; apply suf_refl);
        intro H; inversion H; subst; (split; [apply suf_cons, suf_refl|split; [apply K_drop; reflexivity|cbn [quant_toks]; apply K_drop; reflexivity]]).
    Qed.

    Lemma bloop_inv g : forall p e ts b r, bloop recb g p e ts = Ok (b, r) ->
      suf r ts /\ headpow r <= p /\
      (bcanon b = true -> bcanon e = true) /\ (bck b = true -> bck e = true) /\
      (blspine_gtb p e = true -> blspine_gtb p b = true) /\
      (brspine_geb (headpow ts) e = true -> brspine_geb (headpow r) b = true) /\
      (lead e = true -> lead b = true) /\
      (fits ts -> bcanon b = true -> bwfg sf d e = true -> brspine_geb (headpow ts) e = true -> bwfg sf d b = true) /\
      (bck b = true -> ceq (K (btoks e) ++ K ts) (K (btoks b) ++ K r)).
    Proof.
      induction g as [|g IH]; intros p e ts b r H; [discriminate H|]. cbn [bloop] in H.
      destruct (set_op_of ts) as [[o ts1]|] eqn:Es.
      2:{ inversion H; subst b r. split; [apply suf_refl|]. split; [unfold headpow; rewrite Es; lia|].
          repeat split; auto. intros _. apply ceq_refl. }
      destruct (set_op_of_inv _ _ _ Es) as [Ets Hh].
      destruct (sp_pinned o <=? p) eqn:Ep.
      { inversion H; subst b r. apply N.leb_le in Ep. split; [apply suf_refl|]. split; [rewrite Hh; exact Ep|].
        repeat split; auto. intros _. apply ceq_refl. }
      apply N.leb_gt in Ep.
      destruct (parse_quant ts1) as [q ts2] eqn:Eq. apply parse_quant_inv in Eq. destruct Eq as (S2 & K2 & Kq).
      destruct (recb (sp_pinned o) ts2) as [[r1 ts3]| | |] eqn:Er; cbn [bind] in H; try discriminate H.
      destruct (HB _ _ _ _ Er) as ((Rs & Rw & Rk) & Rl & Rr & Rh & _).
      destruct (IH _ _ _ _ _ H) as (I1 & I2 & I3 & I4 & I5 & I6 & I7 & I8 & I9).
      assert (T2 : suf ts2 ts) by (rewrite Ets; apply suf_cons; exact S2).
      assert (T3 : suf ts3 ts) by (eapply suf_trans; eassumption).
      assert (Hr3 : brspine_geb (headpow ts3) (BSetOp o q e r1) = true).
      { cbn [brspine_geb]. rewrite Rr, andb_true_r. apply N.leb_le. exact Rh. }
      split; [eapply suf_trans; eassumption|]. split; [exact I2|].
      split; [intro Hc; specialize (I3 Hc); unfold bcanon in *; cbn [ball] in I3; apply andb_true_iff in I3; tauto|].
      split; [intro Hc; specialize (I4 Hc); unfold bck in *; cbn [ball] in I4; apply andb_true_iff in I4; tauto|].
      split; [intro Hl; apply I5; cbn [blspine_gtb]; rewrite Hl, andb_true_r; apply N.ltb_lt; exact Ep|].
      split; [intros _; apply I6; exact Hr3|].
      split; [intro Hl; apply I7; exact Hl|].
      split.
      - intros Hf Hc Hw Hrs. apply I8; [eapply fits_suf; eassumption|exact Hc| |exact Hr3].
        specialize (I3 Hc). unfold bcanon in I3. cbn [ball] in I3. apply andb_true_iff in I3. destruct I3 as [_ C2].
        cbn [bwfg]. rewrite Rl, Hw, (Rw (fits_suf _ _ T2 Hf) C2). rewrite Hh in Hrs. rewrite Hrs. reflexivity.
      - intro Hc. specialize (I9 Hc). specialize (I4 Hc). unfold bck in I4. cbn [ball] in I4. apply andb_true_iff in I4. destruct I4 as [_ C2].
        eapply ceq_trans; [|exact I9]. rewrite btoks_setop, !K_app, (K_drop (setop_kw o)) by apply setop_kw_lit.
        rewrite K_app, Kq. cbn [app]. rewrite <- app_assoc. apply ceq_app; [apply ceq_refl|].
        rewrite Ets, (K_drop (setop_kw o)) by apply setop_kw_lit. rewrite K2. apply Rk. exact C2.
    Qed.

    Lemma body_step_inv p ts b r : body_step d recq recb rect p ts = Ok (b, r) -> BI p ts b r.
    Proof.
      unfold body_step. intro H.
      destruct (parse_operand d recq rect ts) as [[e r0]| | |] eqn:Eo; cbn [bind] in H; try discriminate H.
      apply parse_operand_inv in Eo. destruct Eo as ((Os & Ow & Ok_) & Ol & On).
      destruct (bloop_inv _ _ _ _ _ _ H) as (I1 & I2 & I3 & I4 & I5 & I6 & I7 & I8 & I9).
      assert (Hl0 : forall p', blspine_gtb p' e = true) by (intro p'; destruct e; try reflexivity; contradiction).
      assert (Hr0 : forall p', brspine_geb p' e = true) by (intro p'; destruct e; try reflexivity; contradiction).
      split; [|split; [apply I5, Hl0|split; [apply I6, Hr0|split; [exact I2|]]]].
      - split; [eapply suf_trans; eassumption|]. split.
        + intros Hf Hc. apply I8; [eapply fits_suf; eassumption|exact Hc|apply Ow; [exact Hf|apply I3; exact Hc]|apply Hr0].
        + intro Hc. eapply ceq_trans; [apply Ok_; apply I4; exact Hc|]. apply I9. exact Hc.
      - intros x Hx. apply I7. eapply Ol. exact Hx.
    Qed.
  
    (** ** LIMIT / OFFSET: the printer writes LIMIT first, whatever the order in the input *)
    Definition kx (o : option xexpr) : list qtok := match o with Some x => K (xtoks x) | None => [] end.
    Definition oxcanon : option xexpr -> bool := oxall canP tt2.
    Definition oxck : option xexpr -> bool := oxall nwe ckT.

    Definition StepInv (cur : option xexpr) (ts : list qtok) (new : option xexpr) (ts1 : list qtok) : Prop :=
      suf ts1 ts /\
      ((new = cur /\ K ts = K ts1) \/
       (cur = None /\ exists x r0, new = Some x /\ suf r0 ts /\ K ts = K r0 /\ XI r0 x ts1)).

    Lemma step_same cur ts : StepInv cur ts cur ts.
    Proof. split; [apply suf_refl|left; split; reflexivity]. Qed.

    Lemma step_wf cur ts new ts1 : StepInv cur ts new ts1 -> fits ts -> oxcanon new = true -> oxw cur = true -> oxw new = true.
    Proof.
      intros [_ [[-> _]|(-> & x & r0 & -> & S0 & _ & (_ & Xw & _))]] Hf Hc Hw; [exact Hw|].
      cbn [oxw]. apply Xw; [eapply fits_suf; eassumption|exact Hc].
    Qed.

    Lemma step_K cur ts new ts1 : StepInv cur ts new ts1 -> oxck new = true -> ceq (kx cur ++ K ts) (kx new ++ K ts1).
    Proof.
      intros [_ [[-> E]|(-> & x & r0 & -> & S0 & E & (_ & _ & Xk))]] Hc; [rewrite E; apply ceq_refl|].
      cbn [kx app]. rewrite E. apply Xk. exact Hc.
    Qed.

    Lemma step_some cur ts new ts1 : StepInv cur ts new ts1 -> is_some cur = true -> new = cur.
    Proof. intros [_ [[-> _]|(-> & _)]] H; [reflexivity|discriminate H]. Qed.

    Lemma lim_step lim ts lim1 ts1 :
      match lim with
      | None =>
          let '(b, r) := opt_tok (QK KLimit) ts in
          if b then
            (let '(a, r') := opt_tok (QE (TKw KAll)) r in
             if a then Ok (None, r') else bind (pex d recq r) (fun '(e, r2) => Ok (Some e, r2)))
          else Ok (lim, ts)
      | Some _ => Ok (lim, ts)
      end = Ok (lim1, ts1) -> StepInv lim ts lim1 ts1.
    Proof.
      destruct lim as [l|]; [intro H; inversion H; apply step_same|].
      destruct (opt_tok (QK KLimit) ts) as [b r0] eqn:E1. apply (opt_tok_inv (QK KLimit) _ _ _ eq_refl) in E1. destruct E1 as [S1 K1].
      destruct b; [|intro H; inversion H; apply step_same].
      destruct (opt_tok (QE (TKw KAll)) r0) as [a r0'] eqn:E2. apply (opt_tok_inv (QE (TKw KAll)) _ _ _ eq_refl) in E2. destruct E2 as [S2 K2].
      destruct a.
      - intro H. inversion H; subst. split; [eapply suf_trans; eassumption|]. left. split; [reflexivity|congruence].
      - destruct (pex d recq r0) as [[e r2]| | |] eqn:Ex; cbn [bind]; try discriminate. intro H. inversion H; subst lim1 ts1.
        apply pex_inv in Ex. split; [eapply suf_trans; [apply Ex|exact S1]|]. right. split; [reflexivity|]. exists e, r0. auto.
    Qed.

    Lemma off_step off ts off1 ts1 :
      match off with
      | None =>
          let '(b, r) := opt_tok (QK KOffset) ts in
          if b then bind (pex d recq r) (fun '(e, r2) => Ok (Some e, r2)) else Ok (off, ts)
      | Some _ => Ok (off, ts)
      end = Ok (off1, ts1) -> StepInv off ts off1 ts1.
    Proof.
      destruct off as [l|]; [intro H; inversion H; apply step_same|].
      destruct (opt_tok (QK KOffset) ts) as [b r0] eqn:E1. apply (opt_tok_inv (QK KOffset) _ _ _ eq_refl) in E1. destruct E1 as [S1 K1].
      destruct b; [|intro H; inversion H; apply step_same].
      destruct (pex d recq r0) as [[e r2]| | |] eqn:Ex; cbn [bind]; try discriminate. intro H. inversion H; subst off1 ts1.
      apply pex_inv in Ex. split; [eapply suf_trans; [apply Ex|exact S1]|]. right. split; [reflexivity|]. exists e, r0. auto.
    Qed.

    Lemma ckT_both a b : ckT (Some a) (Some b) = true -> mode = false.
    Proof. unfold ckT, one_of. cbn [is_some andb negb]. rewrite orb_false_r. apply negb_true_iff. Qed.
    Lemma ceq_swap x y z : mode = false -> ceq (x ++ y ++ z) (y ++ x ++ z).
    Proof. unfold ceq. intros ->. apply Permutation_app_swap_app. Qed.

    Definition LimInv (st : option xexpr * option xexpr) (ts : list qtok) (st' : option xexpr * option xexpr) (r : list qtok) : Prop :=
      suf r ts /\
      (is_some (fst st) = true -> is_some (fst st') = true) /\ (is_some (snd st) = true -> is_some (snd st') = true) /\
      (fits ts -> oxcanon (fst st') = true -> oxcanon (snd st') = true -> oxw (fst st) = true -> oxw (snd st) = true ->
       oxw (fst st') = true /\ oxw (snd st') = true) /\
      (ckT (fst st') (snd st') = true -> oxck (fst st') = true -> oxck (snd st') = true ->
       ceq (kx (fst st) ++ kx (snd st) ++ K ts) (kx (fst st') ++ kx (snd st') ++ K r)) /\
      (forall x, fst st = Some x -> fst st' = Some x \/ snd st' = Some x) /\
      (forall y, snd st = Some y -> snd st' = Some y).

    Lemma limit_iter_inv st ts st' r : limit_iter d recq st ts = Ok (st', r) -> LimInv st ts st' r.
    Proof.
      destruct st as [lim off]. unfold limit_iter. intro H.
      match type of H with bind ?c _ = _ => destruct c as [[lim1 ts1]| | |] eqn:E1; cbn [bind] in H; try discriminate H end.
      match type of H with bind ?c _ = _ => destruct c as [[off1 ts2]| | |] eqn:E2; cbn [bind] in H; try discriminate H end.
      apply lim_step in E1. apply off_step in E2.
      pose proof (proj1 E1) as S1. pose proof (proj1 E2) as S2.
      assert (T2 : suf ts2 ts) by (eapply suf_trans; eassumption).
      (* without the comma form *)
      assert (Hplain : LimInv (lim, off) ts (lim1, off1) ts2).
      { unfold LimInv. cbn [fst snd]. split; [exact T2|]. split; [intro Hs; rewrite (step_some _ _ _ _ E1 Hs); exact Hs|].
        split; [intro Hs; rewrite (step_some _ _ _ _ E2 Hs); exact Hs|]. split; [|split; [|split]].
        4:{ intros y Hy. rewrite (step_some _ _ _ _ E2) by (rewrite Hy; reflexivity). exact Hy. }
        3:{ intros x Hx. left. rewrite (step_some _ _ _ _ E1) by (rewrite Hx; reflexivity). exact Hx. }
        - intros Hf C1 C2 W1 W2. split; [eapply step_wf; eassumption|].
          eapply step_wf; [exact E2|eapply fits_suf; eassumption|exact C2|exact W2].
        - intros Ht C1 C2. pose proof (step_K _ _ _ _ E1 C1) as K1. pose proof (step_K _ _ _ _ E2 C2) as K2.
          (* lim first, then off *)
          eapply ceq_trans; [|apply ceq_app; [apply ceq_refl|exact K2]].
          destruct E1 as [_ [[-> Ek]|(-> & x & r0 & -> & _)]].
          + rewrite Ek. apply ceq_refl.
          + cbn [kx app] in *. destruct off as [o|].
            * assert (off1 = Some o) by (apply (step_some _ _ _ _ E2 eq_refl)). subst off1.
              pose proof (ckT_both _ _ Ht) as Hm. cbn [kx fst snd app].
              eapply ceq_trans; [apply ceq_app; [apply ceq_refl|exact K1]|]. apply ceq_swap. exact Hm.
            * cbn [kx app]. exact K1. }
      assert (Hsame : Ok ((lim1, off1), ts2) = Ok (st', r) -> LimInv (lim, off) ts st' r).
      { intro H'. inversion H'; subst. exact Hplain. }
      destruct lim1 as [l|]; [|exact (Hsame H)]. destruct off1 as [o|]; [exact (Hsame H)|].
      destruct (opt_tok (QE TComma) ts2) as [b r0] eqn:E3. apply (opt_tok_inv (QE TComma) _ _ _ eq_refl) in E3. destruct E3 as [S3 K3].
      destruct (limit_comma d && b); [|exact (Hsame H)].
      destruct (pex d recq r0) as [[e r2]| | |] eqn:Ex; cbn [bind] in H; try discriminate H. inversion H; subst st' r. clear H Hsame.
      apply pex_inv in Ex. destruct Ex as (Xs & Xw & Xk).
      destruct Hplain as (_ & P2 & P3 & P4 & P5 & P6 & P7). unfold LimInv. cbn [fst snd] in *.
      split; [eapply suf_trans; [exact Xs|]; eapply suf_trans; eassumption|]. split; [reflexivity|]. split; [reflexivity|]. split; [|split; [|split]].
      4:{ intros y Hy. specialize (P7 y Hy). discriminate P7. }
      3:{ intros x Hx. right. destruct (P6 x Hx) as [P|P]; [exact P|discriminate P]. }
      - intros Hf C1 C2 W1 W2.
        assert (Hl : oxw (Some l) = true).
        { eapply step_wf; [exact E1|exact Hf|exact C2|exact W1]. }
        split; [|exact Hl]. cbn [oxw]. apply Xw; [eapply fits_suf; [|exact Hf]; eapply suf_trans; eassumption|exact C1].
      - intros Ht C1 C2. pose proof (ckT_both _ _ Ht) as Hm.
        eapply ceq_trans; [apply P5; [unfold ckT; rewrite Hm; reflexivity|exact C2|reflexivity]|].
        cbn [kx app]. rewrite K3. eapply ceq_trans; [apply ceq_app; [apply ceq_refl|apply Xk; exact C1]|]. apply ceq_swap. exact Hm.
    Qed.
  
    (** ** WITH *)
    Definition CInv := Inv (cte_wfg sf d) (call canP tt2) (call nwe ckT) cte_toks.
    Definition cte_head (c : cte) (ts : list qtok) : Prop := (exists x, ts = cte_name c :: x) /\ is_word (cte_name c) = true.

    Lemma parse_cte_body_inv n cols r1 c r : parse_cte_body recq n cols r1 = Ok (c, r) ->
      exists q, c = Cte n cols q /\
        Inv (qwfg sf d) qcan ckq (fun q => QE TLParen :: qtoks q ++ [QE TRParen]) r1 q r.
    Proof.
      unfold parse_cte_body. destruct r1 as [|[[]| | |] r2]; try discriminate.
      destruct (recq r2) as [[q r3]| | |] eqn:R; cbn [bind]; try discriminate.
      destruct r3 as [|[[]| | |] r4]; try discriminate. intro H.
      assert (H' : c = Cte n cols q /\ r = r4).
      { destruct r4 as [|[[]| | |] ?]; try (inversion H; auto; fail). destruct k; try (inversion H; auto; fail). }
      destruct H' as [-> ->]. exists q. split; [reflexivity|].
      destruct (HQ _ _ _ R) as ((Qs & Qw & Qk) & _).
      split; [apply suf_cons; eapply suf_trans; [apply suf_cons, suf_refl|exact Qs]|]. split.
      - intros Hf Hc. apply Qw; [eapply fits_suf; [apply suf_cons, suf_refl|exact Hf]|exact Hc].
      - intro Hc. rewrite !(K_drop (QE TLParen)) by reflexivity. rewrite K_app. cbn [filter].
        rewrite (keep_nl (QE TRParen) eq_refl), app_nil_r. eapply ceq_trans; [apply Qk; exact Hc|].
        rewrite (K_drop (QE TRParen)) by reflexivity. apply ceq_refl.
    Qed.

    Lemma parse_cte_inv ts c r : parse_cte d recq ts = Ok (c, r) -> CInv ts c r /\ cte_head c ts.
    Proof.
      unfold parse_cte. destruct (parse_ident ts) as [[n r0]| | |] eqn:Ei; cbn [bind]; try discriminate.
      apply parse_ident_inv in Ei. destruct Ei as [-> Hn]. intro H.
      destruct r0 as [|[t0|k0| |] r1]; try discriminate H.
      - destruct t0; try discriminate H.
        destruct (parse_cols d r1) as [[cols r2]| | |] eqn:Ec; cbn [bind] in H; try discriminate H.
        destruct r2 as [|[?|[]| |] r3]; try discriminate H.
        apply parse_cte_body_inv in H. destruct H as (q & -> & Bs & Bw & Bk).
        apply parse_cols_inv in Ec. destruct Ec as (Cs & Cw & Ck).
        assert (T3 : suf r3 (n :: QE TLParen :: r1)).
        { apply suf_cons, suf_cons. eapply suf_trans; [apply suf_cons, suf_refl|exact Cs]. }
        split; [|split; [eexists; reflexivity|exact Hn]].
        split; [eapply suf_trans; eassumption|]. split.
        + intros Hf Hc. cbn [cte_wfg]. rewrite Hn. cbn [andb].
          assert (Hcw : ccols_wf d cols = true) by (unfold ccols_wf; destruct cols; [reflexivity|exact Cw]). rewrite Hcw. cbn [andb].
          apply Bw; [eapply fits_suf; eassumption|exact Hc].
        + intro Hc. cbn [cte_toks]. rewrite (K_cons n), (K_cons n (ccols_toks cols ++ _)), <- app_assoc.
          apply ceq_app; [apply ceq_refl|]. rewrite (K_drop (QE TLParen)) by reflexivity. rewrite Ck.
          assert (Ecc : ccols_toks cols = cols_toks cols) by (destruct cols; [discriminate Cw|reflexivity]). rewrite Ecc.
          rewrite (K_app (cols_toks cols)), <- app_assoc.
          apply ceq_app; [apply ceq_refl|]. rewrite !(K_drop (QK KAs)) by reflexivity. apply Bk. exact Hc.
      - destruct k0; try discriminate H.
        apply parse_cte_body_inv in H. destruct H as (q & -> & Bs & Bw & Bk).
        split; [|split; [eexists; reflexivity|exact Hn]].
        split; [apply suf_cons, suf_cons; exact Bs|]. split.
        + intros Hf Hc. cbn [cte_wfg ccols_wf]. rewrite Hn. cbn [andb].
          apply Bw; [eapply fits_suf; [apply suf_cons, suf_cons, suf_refl|exact Hf]|exact Hc].
        + intro Hc. cbn [cte_toks ccols_toks app]. rewrite (K_cons n), (K_cons n (QK KAs :: _)), <- app_assoc.
          apply ceq_app; [apply ceq_refl|]. rewrite !(K_drop (QK KAs)) by reflexivity. apply Bk. exact Hc.
    Qed.

    Definition wwfg (w : option withc) : bool := match w with Some x => with_wfg sf d x | None => true end.
    Definition wcanon (w : option withc) : bool := match w with Some x => wall canP tt2 x | None => true end.
    Definition wck (w : option withc) : bool := match w with Some x => wall nwe ckT x | None => true end.
    Definition WInv := Inv wwfg wcanon wck wtoks.

    Lemma parse_with_inv ts w r : parse_with d recq ts = Ok (w, r) ->
      WInv ts w r /\ (forall x, ts = QK KWith :: x -> is_some w = true) /\ (forall x, ts = QK KSelect :: x -> w = None /\ r = ts).
    Proof.
      unfold parse_with.
      assert (Hnone : Ok (None, ts) = Ok (w, r) -> (forall x, ts <> QK KWith :: x) ->
                WInv ts w r /\ (forall x, ts = QK KWith :: x -> is_some w = true) /\ (forall x, ts = QK KSelect :: x -> w = None /\ r = ts)).
      { intros H Hn. inversion H; subst. split; [|split; [intros x Hx; destruct (Hn x Hx)|auto]].
        split; [apply suf_refl|]. split; [reflexivity|]. intros _. apply ceq_refl. }
      destruct ts as [|[?|k| |] r0]; try (intro H; apply (Hnone H); discriminate).
      destruct k; try (intro H; apply (Hnone H); discriminate). clear Hnone.
      destruct (opt_tok (QK KRecursive) r0) as [rc r1] eqn:Eo.
      destruct (comma_list (parse_cte d recq) (trail_all d) (S (length r1)) r1) as [[ctes r2]| | |] eqn:E; cbn [bind]; try discriminate.
      intro H. inversion H; subst w r2. clear H. split; [|split; [reflexivity|discriminate]].
      pose proof (comma_list_chain _ _ (fun ts c r => CInv ts c r /\ cte_head c ts) parse_cte_inv _ _ _ _ E) as Hc.
      destruct (chain_inv _ _ _ _ _ _ _ _ (chain_mono _ CInv _ _ _ _ (fun _ _ _ H => proj1 H) Hc)) as (Hne & Cs & Cw & Ck).
      pose proof (opt_tok_inv (QK KRecursive) _ _ _ eq_refl Eo) as [S1 K1].
      split; [apply suf_cons; eapply suf_trans; eassumption|]. split.
      - intros Hf Hcn. cbn [wwfg with_wfg]. cbn [wcanon wall] in Hcn.
        rewrite (Cw (fits_suf _ _ (suf_cons _ _ _ S1) Hf) Hcn), andb_true_r.
        unfold with_names_ok. destruct ctes as [|c0 cr]; [congruence|]. apply andb_true_iff. split.
        + destruct rc; [reflexivity|]. cbn [orb]. apply negb_true_iff.
          destruct (chain_first _ _ _ _ _ _ Hc) as (r0' & _ & (x & Ex) & _).
          unfold opt_tok in Eo. rewrite Ex in Eo. destruct r0 as [|t r']; [discriminate Eo|].
          destruct (qtok_eqb t (QK KRecursive)) eqn:Q; [discriminate Eo|]. inversion Eo; subst. exact Q.
        + apply chain_later in Hc. cbn [tl] in Hc. apply forallb_forall. intros c Hin. rewrite Forall_forall in Hc.
          destruct (Hc c Hin) as (ts' & r' & [_ [(x & ->) Hw]] & Hn). eapply ntr_later; eassumption.
      - intro Hcn. cbn [wtoks with_toks]. rewrite !(K_drop (QK KWith)) by reflexivity. rewrite K1, K_app.
        assert (Kr : K (rec_toks rc) = []) by (destruct rc; [cbn [rec_toks]; apply K_drop; reflexivity|reflexivity]).
        rewrite Kr. cbn [app]. apply Ck. exact Hcn.
    Qed.

    (** ** the query *)
    Lemma ckT_mono l1 o1 l2 o2 :
      (is_some l1 = true -> is_some l2 = true) -> (is_some o1 = true -> is_some o2 = true) -> ckT l2 o2 = true -> ckT l1 o1 = true.
    Proof.
      unfold ckT, one_of. intros H1 H2. destruct mode; [|reflexivity]. cbn [negb orb].
      destruct l1, o1; try reflexivity. rewrite (H1 eq_refl), (H2 eq_refl). auto.
    Qed.

    Lemma K_clause k o : qlit k = false -> K (clause_toks k (otoks o)) = kx o.
    Proof. intro Hk. destruct o; [|reflexivity]. cbn [clause_toks otoks option_map kx]. apply K_drop. exact Hk. Qed.

    Lemma query_step_inv ts q r : query_step d recq recb rect ts = Ok (q, r) -> QI ts q r.
    Proof.
      unfold query_step. intro H.
      destruct (parse_with d recq ts) as [[w ts0]| | |] eqn:Ew; cbn [bind] in H; try discriminate H.
      destruct (body_step d recq recb rect (lvl (base d) K_UNKNOWN) ts0) as [[b ts1]| | |] eqn:Eb; cbn [bind] in H; try discriminate H.
      destruct (parse_order_by d recq ts1) as [[ob ts2]| | |] eqn:Eo; cbn [bind] in H; try discriminate H.
      destruct (limit_iter d recq (None, None) ts2) as [[st1 ts3]| | |] eqn:E1; cbn [bind] in H; try discriminate H.
      destruct (limit_iter d recq st1 ts3) as [[st2 ts4]| | |] eqn:E2; cbn [bind] in H; try discriminate H.
      destruct (limit_by d && (is_some (fst st2) && fst (opt_tok (QK KBy) ts4))); [discriminate H|].
      inversion H; subst q r. clear H.
      apply parse_with_inv in Ew. destruct Ew as ((Ws & Ww & Wk) & Wh1 & Wh2).
      apply body_step_inv in Eb. destruct Eb as ((Bs & Bw & Bk) & _ & _ & _ & Bl).
      apply parse_order_by_inv in Eo. destruct Eo as (Os & Ow & Ok_).
      apply limit_iter_inv in E1. apply limit_iter_inv in E2.
      destruct st1 as [l1 o1], st2 as [l2 o2]. unfold LimInv in E1, E2. cbn [fst snd] in *.
      destruct E1 as (L1s & L1a & L1b & L1w & L1k & L1p & L1q). destruct E2 as (L2s & L2a & L2b & L2w & L2k & L2p & L2q).
      assert (T1 : suf ts1 ts) by (eapply suf_trans; eassumption).
      assert (T2 : suf ts2 ts) by (eapply suf_trans; eassumption).
      assert (T3 : suf ts3 ts) by (eapply suf_trans; eassumption).
      (* what holds of the final LIMIT / OFFSET holds of the intermediate ones *)
      assert (Hprov : forall (P : xexpr -> bool), optb P l2 = true -> optb P o2 = true -> optb P l1 = true /\ optb P o1 = true).
      { intros P H1 H2. split.
        - destruct l1 as [x|]; [|reflexivity]. destruct (L2p x eq_refl) as [E|E]; rewrite E in *; assumption.
        - destruct o1 as [y|]; [|reflexivity]. rewrite (L2q y eq_refl) in *. assumption. }
      unfold QI, Inv. split; [split; [eapply suf_trans; [exact L2s|exact T3]|split]|].
      - (* well-formedness *)
        intros Hf Hc. unfold qcan in Hc. cbn [qall] in Hc.
        apply andb_true_iff in Hc. destruct Hc as [Hc Ct]. apply andb_true_iff in Hc. destruct Hc as [C1 C2].
        apply andb_true_iff in Ct. destruct Ct as [Ct _]. apply andb_true_iff in Ct. destruct Ct as [Ct C5].
        apply andb_true_iff in Ct. destruct Ct as [C3 C4].
        destruct (Hprov (xall canP tt2) C4 C5) as [C4' C5'].
        destruct (L1w (fits_suf _ _ T2 Hf) C4' C5' eq_refl eq_refl) as [W1 W2].
        destruct (L2w (fits_suf _ _ T3 Hf) C4 C5 W1 W2) as [W3 W4].
        cbn [qwfg]. unfold wwfg in Ww. unfold wcanon in Ww. rewrite (Ww Hf C1), (Bw (fits_suf _ _ Ws Hf) C2), (Ow (fits_suf _ _ T1 Hf) C3).
        unfold oxw in W3, W4. rewrite W3, W4. reflexivity.
      - (* content *)
        intro Hc. unfold ckq in Hc. cbn [qall] in Hc.
        apply andb_true_iff in Hc. destruct Hc as [Hc Ct]. apply andb_true_iff in Hc. destruct Hc as [C1 C2].
        apply andb_true_iff in Ct. destruct Ct as [Ct C6]. apply andb_true_iff in Ct. destruct Ct as [Ct C5].
        apply andb_true_iff in Ct. destruct Ct as [C3 C4].
        destruct (Hprov (xall nwe ckT) C4 C5) as [C4' C5'].
        rewrite qtoks_query, !K_app, !K_clause by reflexivity. rewrite <- !app_assoc.
        eapply ceq_step; [apply Wk; exact C1|]. eapply ceq_step; [apply Bk; exact C2|]. eapply ceq_step; [apply Ok_; exact C3|].
        eapply ceq_trans; [apply (L1k (ckT_mono _ _ _ _ L2a L2b C6) C4' C5')|]. apply (L2k C6 C4 C5).
      - (* a query that starts with SELECT or WITH *)
        intro Hq. cbn [qlead]. destruct ts as [|[?|[]| |] x]; try discriminate Hq.
        + destruct (Wh2 x eq_refl) as [-> ->]. eapply Bl. reflexivity.
        + specialize (Wh1 x eq_refl). destruct w; [reflexivity|discriminate Wh1].
    Qed.
  End Level.

  (** ** All nesting levels *)
  Lemma parse_lvl_inv f :
    (forall ts q r, pq (parse_lvl d f) ts = Ok (q, r) -> QI ts q r) /\
    (forall p ts b r, pb (parse_lvl d f) p ts = Ok (b, r) -> BI p ts b r) /\
    (forall ts t r, pt (parse_lvl d f) ts = Ok (t, r) -> TI ts t r).
  Proof.
    induction f as [|f (IQ & IB & IT)]; [repeat split; intros; discriminate|].
    cbn [parse_lvl pq pb pt]. split; [|split].
    - intros ts q r H. eapply query_step_inv; eauto.
    - intros p ts b r H. eapply body_step_inv; eauto.
    - intros ts t r H. eapply twj_step_inv; eauto.
  Qed.

  Theorem parse_query_inv_u0 fuel ts q r : parse_query d fuel ts = Ok (q, r) -> QI ts q r.
  Proof. apply (proj1 (parse_lvl_inv fuel)). Qed.
End Inv.

Theorem parse_query_inv d (Hd : dialect_ok d = true) keep (Hlit : forall t, keep t = true -> qlit t = true) mode sf canP
  (HP : forall e, canP e = true -> canonical e = true /\ (negb sf || frag_ok (base d) (yield e)) = true) fuel ts q r :
  parse_query d fuel ts = Ok (q, r) -> QI d keep mode sf canP ts q r.
Proof. exact (parse_query_inv_u0 d (d_U0 d Hd) keep Hlit mode sf canP HP fuel ts q r). Qed.

(** * The theorems *)
Definition keep_none (_ : qtok) : bool := false.
Lemma keep_none_lit : forall t, keep_none t = true -> qlit t = true.
Proof. discriminate. Qed.

(** every expression of the tree is in canonical spelling and passes the conservative fragment test *)
Definition qcanonfrag (d : qdialect) : query -> bool :=
  qall (fun e => canonical e && frag_ok (base d) (yield e)) tt2.

(** 0. The rest is a suffix of the input *)
Theorem query_suffix d fuel ts q rest :
  dialect_ok d = true -> parse_query d fuel ts = Ok (q, rest) -> exists pre, ts = pre ++ rest.
Proof.
  intros Hd H.
  apply (parse_query_inv d Hd keep_none keep_none_lit false false canonical) in H;
    [|intros e He; split; [exact He|reflexivity]].
  apply H.
Qed.

(** 1. Outputs are well-formed: whatever the model parser returns for at most 10^6 tokens satisfies [qwfg false],
    i.e. [qwf] without the conservative test [frag_ok] on the expressions, provided its expressions are in
    canonical spelling (as in [C01_core]) *)
Theorem query_outputs_wf d fuel ts q rest :
  dialect_ok d = true -> fits ts ->
  parse_query d fuel ts = Ok (q, rest) -> qcanonical q = true -> qwfg false d q = true.
Proof.
  intros Hd Hf H Hc.
  apply (parse_query_inv d Hd keep_none keep_none_lit false false canonical) in H;
    [|intros e He; split; [exact He|reflexivity]].
  destruct H as ((_ & Hw & _) & _). apply Hw; assumption.
Qed.

(** ... and all of [qwf], the hypothesis of [query_roundtrip], when its expressions pass [frag_ok] *)
Theorem query_outputs_qwf d fuel ts q rest :
  dialect_ok d = true -> fits ts ->
  parse_query d fuel ts = Ok (q, rest) -> qcanonfrag d q = true -> qwf d q = true.
Proof.
  intros Hd Hf H Hc.
  apply (parse_query_inv d Hd keep_none keep_none_lit false true (fun e => canonical e && frag_ok (base d) (yield e))) in H;
    [|intros e He; apply andb_true_iff in He; destruct He as [H1 H2]; split; [exact H1|exact H2]].
  destruct H as ((_ & Hw & _) & _). apply Hw; assumption.
Qed.

(** 2. Token preservation (the model-level C05) *)
Section Content.
  Variable d : qdialect.
  Hypothesis Hd : dialect_ok d = true.
  Variable keep : qtok -> bool.
  Hypothesis Hlit : forall t, keep t = true -> qlit t = true.

  Lemma ckq_perm q : qword_escape q = false -> ckq false q = true.
  Proof. unfold qword_escape, ckq. intro H. apply negb_false_iff in H. exact H. Qed.

  (** the content tokens of an accepted token list are, up to their order, those of the printed result and of the rest *)
  Theorem query_content fuel ts q rest :
    parse_query d fuel ts = Ok (q, rest) -> qword_escape q = false ->
    Permutation (filter keep ts) (filter keep (qtoks q ++ rest)).
  Proof.
    intros H Hw.
    apply (parse_query_inv d Hd keep Hlit false false canonical) in H; [|intros e He; split; [exact He|reflexivity]].
    destruct H as ((_ & _ & Hk) & _). rewrite filter_app. apply (Hk (ckq_perm q Hw)).
  Qed.

  (** no unquoted ESCAPE word, and no query of the tree has both LIMIT and OFFSET *)
  Definition qcontent_ordered : query -> bool := qall nwe one_of.

  (** ... in the same order, when no query of the result has both LIMIT and OFFSET: everything else the
      printer normalises (AS before aliases, INNER / OUTER, [USING(..)], LIMIT ALL, SELECT ALL, trailing commas,
      [==]) leaves the order of the content tokens alone *)
  Theorem query_content_ordered fuel ts q rest :
    parse_query d fuel ts = Ok (q, rest) -> qcontent_ordered q = true ->
    filter keep ts = filter keep (qtoks q ++ rest).
  Proof.
    intros H Hw.
    apply (parse_query_inv d Hd keep Hlit true false canonical) in H; [|intros e He; split; [exact He|reflexivity]].
    destruct H as ((_ & _ & Hk) & _). rewrite filter_app. apply (Hk Hw).
  Qed.
End Content.

(** canonical spelling excludes the unquoted ESCAPE word *)
Lemma canonical_no_word_escape e : canonical e = true -> word_escape e = false.
Proof.
  induction e using expr_rect'; cbn [canonical word_escape]; rewrite ?wesc_any; intro Hc;
    repeat (apply andb_true_iff in Hc; destruct Hc as [Hc ?]);
    rewrite ?IHe, ?IHe1, ?IHe2, ?IHe3 by assumption; try reflexivity.
  - assert (Hl : forallb canonical l = true).
    { clear H. induction l as [|x l IH]; [reflexivity|]. apply andb_true_iff in Hc. destruct Hc as [H1 H2].
      cbn [forallb]. rewrite H1, (IH H2). reflexivity. }
    rewrite forallb_forall in Hl. rewrite Forall_forall in H.
    destruct (existsb word_escape l) eqn:E; [|reflexivity]. apply existsb_exists in E. destruct E as (x & Hin & Hx).
    rewrite (H x Hin (Hl x Hin)) in Hx. discriminate.
  - destruct esc as [[[|] c]|]; try reflexivity. discriminate Hc.
  - cbn [orb].
    assert (Hl : forallb canonical l = true).
    { clear H. induction l as [|x l IH]; [reflexivity|]. apply andb_true_iff in H0. destruct H0 as [H1 H2].
      cbn [forallb]. rewrite H1, (IH H2). reflexivity. }
    rewrite forallb_forall in Hl. rewrite Forall_forall in H.
    destruct (existsb word_escape l) eqn:E; [|reflexivity]. apply existsb_exists in E. destruct E as (x & Hin & Hx).
    rewrite (H x Hin (Hl x Hin)) in Hx. discriminate.
Qed.

(** 3. Parse -> print -> parse is a fixpoint for accepted token lists (1 + [query_roundtrip]).  The two
    syntactic fragment tests stay hypotheses: [frag_ok] on the expressions (in [qcanonfrag]; conservative: false
    for some parser outputs, [C01_query_output_frag_refuted]) and [qfrag] on the printed tokens *)
Theorem query_fixpoint d fuel ts q rest :
  dialect_ok d = true -> fits ts ->
  parse_query d fuel ts = Ok (q, rest) ->
  qcanonfrag d q = true -> qfrag d (qtoks q ++ rest) = true -> ender rest = true ->
  forall fuel', (qlevel q <= fuel')%nat -> parse_query d fuel' (qtoks q ++ rest) = Ok (q, rest).
Proof.
  intros Hd Hf H Hc Hq He fuel' Hl. apply (query_roundtrip d Hd); auto.
  eapply query_outputs_qwf; eassumption.
Qed.

(** for a whole accepted input ([Parser::parse_query] on a complete token list) *)
Theorem query_fixpoint_top d ts q :
  dialect_ok d = true -> fits ts ->
  parse_query_top d ts = Ok (q, []) ->
  qcanonfrag d q = true -> qfrag d (qtoks q) = true ->
  parse_query d (qlevel q) (qtoks q ++ []) = Ok (q, []).
Proof.
  intros Hd Hf H Hc Hq. unfold parse_query_top in H. destruct (existsb is_qother ts); [discriminate H|].
  eapply query_fixpoint; try eassumption; [rewrite app_nil_r; exact Hq|reflexivity|apply le_n].
Qed.
