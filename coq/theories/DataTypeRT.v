(** Token-level model of the data type printer ([impl Display for DataType],
    src/ast/data_type.rs) and parser ([Parser::parse_data_type] / [parse_data_type_helper] and
    their helpers, src/parser/mod.rs).

    The *regular* constructors (a keyword spelling followed by one of a few parameter shapes)
    are driven by FAMILY TABLES that the translator (harness/dtx) regenerates from the source
    on every run: [prow] = one Display arm, [parow] = one arm of the keyword match of the parser.
    The irregular arms (arrays, STRUCT, UNION, the ClickHouse wrappers, ENUM/SET, DateTime64,
    FixedString, custom names) are modelled by hand, with the dialect gates taken from the
    generated table; their source is pinned by a hash.

    Tokens are what the tokenizer delivers (no blanks); the printer produces the token sequence
    its text lexes to.  The only place where lexing is not a homomorphism on tokens is [>][>],
    which lexes as one [>>] token: [glue] performs that merge and the parser has the
    trailing-bracket bookkeeping of the implementation.  Executable model only; the proofs are in
    DataTypeRTProofs.v. *)
Require Import SqlV.Base.
From Coq Require Import Arith.

Inductive tok :=
| TWord (w : str)              (* unquoted word, spelling kept *)
| TQWord (q : N) (w : str)     (* quoted identifier *)
| TNum (n : N)                 (* number token whose text is the decimal numeral of [n] *)
| TStr (s : str)               (* single-quoted string token, payload *)
| TLParen | TRParen | TComma | TLt | TGt | TShr | TLBracket | TRBracket | TPeriod | TColon
| TOther (n : N).              (* any other token *)

Definition tok_eqb (a b : tok) : bool :=
  match a, b with
  | TWord x, TWord y => str_eqb x y
  | TQWord q x, TQWord r y => N.eqb q r && str_eqb x y
  | TNum x, TNum y => N.eqb x y
  | TStr x, TStr y => str_eqb x y
  | TLParen, TLParen | TRParen, TRParen | TComma, TComma | TLt, TLt | TGt, TGt | TShr, TShr
  | TLBracket, TLBracket | TRBracket, TRBracket | TPeriod, TPeriod | TColon, TColon => true
  | TOther x, TOther y => N.eqb x y
  | _, _ => false
  end.

Fixpoint toks_eqb (a b : list tok) : bool :=
  match a, b with
  | [], [] => true
  | x :: a', y :: b' => tok_eqb x y && toks_eqb a' b'
  | _, _ => false
  end.

(** ** Values *)
Inductive tzinfo := TzNone | TzWith | TzWithout | TzTz.
Inductive charunit := UChars | UOctets.
Inductive charlen := CLInt (n : N) (u : option charunit) | CLMax.
Inductive exact := ENone | EPrec (p : N) | EPrecScale (p s : N).
Inductive ident := Id (q : option N) (v : str).
Inductive bracket := BParen | BAngle.

Inductive dt :=
| DNullary (c : str)
| DOptLen (c : str) (n : option N)
| DCharLen (c : str) (l : option charlen)
| DExact (c : str) (e : exact)
| DTime (c : str) (p : option N) (tz : tzinfo)
| DStrList (c : str) (vals : list str)
| DDatetime64 (p : N) (tz : option str)
| DFixedString (n : N)
| DCustom (name : list ident) (mods : list tok)
| DArrayNone
| DArrayAngle (t : dt)
| DArraySquare (t : dt) (n : option N)
| DArrayParen (t : dt)
| DNullable (t : dt)
| DLowCard (t : dt)
| DMap (k v : dt)
| DStruct (fs : list (option ident * dt)) (b : bracket)
| DUnion (fs : list (ident * dt))
| DTuple (fs : list (option ident * dt))
| DNested (cols : list (ident * dt))
| DUnspecified.

Definition optN_eqb (a b : option N) : bool :=
  match a, b with Some x, Some y => N.eqb x y | None, None => true | _, _ => false end.
Definition ident_eqb (a b : ident) : bool :=
  match a, b with Id q v, Id r w => optN_eqb q r && str_eqb v w end.
Definition oident_eqb (a b : option ident) : bool :=
  match a, b with Some x, Some y => ident_eqb x y | None, None => true | _, _ => false end.
Fixpoint list_eqb {A} (f : A -> A -> bool) (a b : list A) : bool :=
  match a, b with
  | [], [] => true
  | x :: a', y :: b' => f x y && list_eqb f a' b'
  | _, _ => false
  end.
Definition tz_eqb (a b : tzinfo) : bool :=
  match a, b with TzNone, TzNone | TzWith, TzWith | TzWithout, TzWithout | TzTz, TzTz => true | _, _ => false end.
Definition charlen_eqb (a b : charlen) : bool :=
  match a, b with
  | CLMax, CLMax => true
  | CLInt n u, CLInt m v =>
      N.eqb n m && match u, v with
                   | None, None | Some UChars, Some UChars | Some UOctets, Some UOctets => true
                   | _, _ => false end
  | _, _ => false
  end.
Definition exact_eqb (a b : exact) : bool :=
  match a, b with
  | ENone, ENone => true
  | EPrec p, EPrec q => N.eqb p q
  | EPrecScale p s, EPrecScale q r => N.eqb p q && N.eqb s r
  | _, _ => false
  end.

(** A type modifier of a custom type is a *string*; it is represented by the token it prints to.
    A word and a string literal with the same text denote the same modifier. *)
Definition mod_text (t : tok) : option str :=
  match t with TWord w => Some w | TStr s => Some s | _ => None end.
Definition mod_eqb (a b : tok) : bool :=
  match mod_text a, mod_text b with
  | Some x, Some y => str_eqb x y
  | _, _ => tok_eqb a b
  end.

Fixpoint dt_eqb (a b : dt) {struct a} : bool :=
  match a, b with
  | DNullary c, DNullary c' => str_eqb c c'
  | DOptLen c n, DOptLen c' n' => str_eqb c c' && optN_eqb n n'
  | DCharLen c l, DCharLen c' l' =>
      str_eqb c c' && match l, l' with Some x, Some y => charlen_eqb x y | None, None => true | _, _ => false end
  | DExact c e, DExact c' e' => str_eqb c c' && exact_eqb e e'
  | DTime c p z, DTime c' p' z' => str_eqb c c' && optN_eqb p p' && tz_eqb z z'
  | DStrList c v, DStrList c' v' => str_eqb c c' && list_eqb str_eqb v v'
  | DDatetime64 p z, DDatetime64 p' z' =>
      N.eqb p p' && match z, z' with Some x, Some y => str_eqb x y | None, None => true | _, _ => false end
  | DFixedString n, DFixedString n' => N.eqb n n'
  | DCustom nm m, DCustom nm' m' => list_eqb ident_eqb nm nm' && list_eqb mod_eqb m m'
  | DArrayNone, DArrayNone => true
  | DArrayAngle t, DArrayAngle t' => dt_eqb t t'
  | DArraySquare t n, DArraySquare t' n' => dt_eqb t t' && optN_eqb n n'
  | DArrayParen t, DArrayParen t' => dt_eqb t t'
  | DNullable t, DNullable t' => dt_eqb t t'
  | DLowCard t, DLowCard t' => dt_eqb t t'
  | DMap k v, DMap k' v' => dt_eqb k k' && dt_eqb v v'
  | DStruct fs b, DStruct fs' b' =>
      (fix go (l l' : list (option ident * dt)) : bool :=
         match l, l' with
         | [], [] => true
         | (n, t) :: r, (n', t') :: r' => oident_eqb n n' && dt_eqb t t' && go r r'
         | _, _ => false
         end) fs fs'
      && match b, b' with BParen, BParen | BAngle, BAngle => true | _, _ => false end
  | DUnion fs, DUnion fs' =>
      (fix go (l l' : list (ident * dt)) : bool :=
         match l, l' with
         | [], [] => true
         | (n, t) :: r, (n', t') :: r' => ident_eqb n n' && dt_eqb t t' && go r r'
         | _, _ => false
         end) fs fs'
  | DTuple fs, DTuple fs' =>
      (fix go (l l' : list (option ident * dt)) : bool :=
         match l, l' with
         | [], [] => true
         | (n, t) :: r, (n', t') :: r' => oident_eqb n n' && dt_eqb t t' && go r r'
         | _, _ => false
         end) fs fs'
  | DNested fs, DNested fs' =>
      (fix go (l l' : list (ident * dt)) : bool :=
         match l, l' with
         | [], [] => true
         | (n, t) :: r, (n', t') :: r' => ident_eqb n n' && dt_eqb t t' && go r r'
         | _, _ => false
         end) fs fs'
  | DUnspecified, DUnspecified => true
  | _, _ => false
  end.

(** ** Family tables (generated) *)
Inductive family := FNullary | FOptLen (unsigned : bool) | FCharLen | FExact | FTime.
Record prow := { p_ctor : str; p_fam : family; p_words : list str }.

Inductive pfam :=
| PNullary | POptLen | POptLenU (unsigned_ctor : str) | PCharLen | PExact | PTime | PTimeTz | PStrList.
Record palt := { a_kws : list str; a_ctor : str; a_fam : pfam }.
Inductive rowkind := RAlts (alts : list palt) | RIrregular (tag : str).
(** [r_gate = None]: every dialect; [Some ds]: only the listed dialects (names as in harness/vh) *)
Record parow := { r_kw : str; r_gate : option (list str); r_kind : rowkind }.

Record tables := { t_print : list prow; t_parse : list parow }.

Fixpoint mem_str (x : str) (l : list str) : bool :=
  match l with [] => false | y :: r => str_eqb x y || mem_str x r end.

Definition gate_ok (d : str) (g : option (list str)) : bool :=
  match g with None => true | Some ds => mem_str d ds end.

Fixpoint find_prow (l : list prow) (c : str) : option prow :=
  match l with [] => None | r :: l' => if str_eqb (p_ctor r) c then Some r else find_prow l' c end.

Fixpoint find_parow (l : list parow) (d kw : str) : option parow :=
  match l with
  | [] => None
  | r :: l' => if str_eqb (r_kw r) kw && gate_ok d (r_gate r) then Some r else find_parow l' d kw
  end.

(** ** Printer *)
Definition u64_max : N := 18446744073709551615.
Definition W (s : string) : tok := TWord (s2l s).
Definition words (ws : list str) : list tok := map TWord ws.

Definition p_optparen (n : option N) : list tok :=
  match n with None => [] | Some n => [TLParen; TNum n; TRParen] end.

Definition p_charlen (l : option charlen) : list tok :=
  match l with
  | None => []
  | Some CLMax => [TLParen; W "MAX"; TRParen]
  | Some (CLInt n None) => [TLParen; TNum n; TRParen]
  | Some (CLInt n (Some UChars)) => [TLParen; TNum n; W "CHARACTERS"; TRParen]
  | Some (CLInt n (Some UOctets)) => [TLParen; TNum n; W "OCTETS"; TRParen]
  end.

Definition p_exact (e : exact) : list tok :=
  match e with
  | ENone => []
  | EPrec p => [TLParen; TNum p; TRParen]
  | EPrecScale p s => [TLParen; TNum p; TComma; TNum s; TRParen]
  end.

(** the last word with "TZ" glued on: TIME -> TIMETZ *)
Fixpoint glue_tz (ws : list str) : list str :=
  match ws with
  | [] => []
  | [w] => [w ++ s2l "TZ"]
  | w :: r => w :: glue_tz r
  end.

Definition p_time (ws : list str) (p : option N) (tz : tzinfo) : list tok :=
  match tz with
  | TzTz => words (glue_tz ws) ++ p_optparen p
  | TzNone => words ws ++ p_optparen p
  | TzWith => words ws ++ p_optparen p ++ [W "WITH"; W "TIME"; W "ZONE"]
  | TzWithout => words ws ++ p_optparen p ++ [W "WITHOUT"; W "TIME"; W "ZONE"]
  end.

Definition p_ident (i : ident) : tok :=
  match i with Id None v => TWord v | Id (Some q) v => TQWord q v end.

Fixpoint p_name (l : list ident) : list tok :=
  match l with
  | [] => []
  | [i] => [p_ident i]
  | i :: r => p_ident i :: TPeriod :: p_name r
  end.

Fixpoint sep_comma {A} (f : A -> list tok) (l : list A) : list tok :=
  match l with
  | [] => []
  | [x] => f x
  | x :: r => f x ++ TComma :: sep_comma f r
  end.

Definition bad_tok : tok := TOther 4294967295.

Section WithTables.
  Variable T : tables.

  (** pre-glue token sequence: every [>] is still its own token *)
  Fixpoint print_dt (t : dt) : list tok :=
    match t with
    | DNullary c =>
        match find_prow (t_print T) c with
        | Some {| p_fam := FNullary; p_words := ws |} => words ws
        | _ => [bad_tok] end
    | DOptLen c n =>
        match find_prow (t_print T) c with
        | Some {| p_fam := FOptLen u; p_words := ws |} =>
            words ws ++ p_optparen n ++ (if u then [W "UNSIGNED"] else [])
        | _ => [bad_tok] end
    | DCharLen c l =>
        match find_prow (t_print T) c with
        | Some {| p_fam := FCharLen; p_words := ws |} => words ws ++ p_charlen l
        | _ => [bad_tok] end
    | DExact c e =>
        match find_prow (t_print T) c with
        | Some {| p_fam := FExact; p_words := ws |} => words ws ++ p_exact e
        | _ => [bad_tok] end
    | DTime c p tz =>
        match find_prow (t_print T) c with
        | Some {| p_fam := FTime; p_words := ws |} => p_time ws p tz
        | _ => [bad_tok] end
    | DStrList c vals =>
        (* hand-modelled arms: ENUM(..) / SET(..) *)
        (if str_eqb c (s2l "Enum") then [W "ENUM"] else if str_eqb c (s2l "Set") then [W "SET"] else [bad_tok])
        ++ TLParen :: sep_comma (fun s => [TStr s]) vals ++ [TRParen]
    | DDatetime64 p tz =>
        W "DateTime64" :: TLParen :: TNum p ::
          match tz with None => [] | Some z => [TComma; TStr z] end ++ [TRParen]
    | DFixedString n => [W "FixedString"; TLParen; TNum n; TRParen]
    | DCustom name mods =>
        p_name name ++ match mods with [] => [] | _ => TLParen :: sep_comma (fun m => [m]) mods ++ [TRParen] end
    | DArrayNone => [W "ARRAY"]
    | DArrayAngle t => W "ARRAY" :: TLt :: print_dt t ++ [TGt]
    | DArraySquare t n => print_dt t ++ TLBracket :: match n with None => [] | Some n => [TNum n] end ++ [TRBracket]
    | DArrayParen t => W "Array" :: TLParen :: print_dt t ++ [TRParen]
    | DNullable t => W "Nullable" :: TLParen :: print_dt t ++ [TRParen]
    | DLowCard t => W "LowCardinality" :: TLParen :: print_dt t ++ [TRParen]
    | DMap k v => W "Map" :: TLParen :: print_dt k ++ TComma :: print_dt v ++ [TRParen]
    | DStruct fs b =>
        let body :=
          (fix go (l : list (option ident * dt)) : list tok :=
             match l with
             | [] => []
             | [(n, t)] => match n with Some i => [p_ident i] | None => [] end ++ print_dt t
             | (n, t) :: r => match n with Some i => [p_ident i] | None => [] end ++ print_dt t ++ TComma :: go r
             end) fs in
        match fs, b with
        | [], _ => [W "STRUCT"]
        | _, BParen => W "STRUCT" :: TLParen :: body ++ [TRParen]
        | _, BAngle => W "STRUCT" :: TLt :: body ++ [TGt]
        end
    | DUnion fs =>
        W "UNION" :: TLParen ::
          (fix go (l : list (ident * dt)) : list tok :=
             match l with
             | [] => []
             | [(n, t)] => p_ident n :: print_dt t
             | (n, t) :: r => p_ident n :: print_dt t ++ TComma :: go r
             end) fs ++ [TRParen]
    | DTuple fs =>
        W "Tuple" :: TLParen ::
          (fix go (l : list (option ident * dt)) : list tok :=
             match l with
             | [] => []
             | [(n, t)] => match n with Some i => [p_ident i] | None => [] end ++ print_dt t
             | (n, t) :: r => match n with Some i => [p_ident i] | None => [] end ++ print_dt t ++ TComma :: go r
             end) fs ++ [TRParen]
    | DNested fs =>
        W "Nested" :: TLParen ::
          (fix go (l : list (ident * dt)) : list tok :=
             match l with
             | [] => []
             | [(n, t)] => p_ident n :: print_dt t
             | (n, t) :: r => p_ident n :: print_dt t ++ TComma :: go r
             end) fs ++ [TRParen]
    | DUnspecified => []
    end.
End WithTables.

(** What the tokenizer makes of adjacent [>] characters: greedy pairs, left to right. *)
Fixpoint glue (ts : list tok) : list tok :=
  match ts with
  | TGt :: ((TGt :: r) as _) => TShr :: glue r
  | x :: r => x :: glue r
  | [] => []
  end.

(** ** Parser *)
Inductive pres :=
| POk (t : dt) (trailing : bool) (rest : list tok)
| PErr.

Definition is_kw (k : str) (t : tok) : bool :=
  match t with TWord w => str_eqb (ascii_upper w) k | _ => false end.

Definition is_word (t : tok) : bool :=
  match t with TWord _ | TQWord _ _ => true | _ => false end.

(** [parse_keywords]: all or nothing *)
Fixpoint take_kws (ks : list str) (ts : list tok) : option (list tok) :=
  match ks with
  | [] => Some ts
  | k :: ks' => match ts with
                | t :: r => if is_kw k t then take_kws ks' r else None
                | [] => None end
  end.

Definition expect (t : tok) (ts : list tok) : option (list tok) :=
  match ts with x :: r => if tok_eqb x t then Some r else None | [] => None end.

Definition uint (ts : list tok) : option (N * list tok) :=
  match ts with TNum n :: r => if n <=? u64_max then Some (n, r) else None | _ => None end.

(** [Some (v, rest)] / [None] = error *)
Definition q_optparen (ts : list tok) : option (option N * list tok) :=
  match ts with
  | TLParen :: r =>
      match uint r with
      | Some (n, TRParen :: r') => Some (Some n, r')
      | _ => None end
  | _ => Some (None, ts)
  end.

Definition q_charlen (ts : list tok) : option (option charlen * list tok) :=
  match ts with
  | TLParen :: r =>
      match r with
      | t :: r1 =>
          if is_kw (s2l "MAX") t then
            match r1 with TRParen :: r2 => Some (Some CLMax, r2) | _ => None end
          else
            match uint r with
            | Some (n, u :: r2) =>
                if is_kw (s2l "CHARACTERS") u then
                  match r2 with TRParen :: r3 => Some (Some (CLInt n (Some UChars)), r3) | _ => None end
                else if is_kw (s2l "OCTETS") u then
                  match r2 with TRParen :: r3 => Some (Some (CLInt n (Some UOctets)), r3) | _ => None end
                else match u with TRParen => Some (Some (CLInt n None), r2) | _ => None end
            | _ => None end
      | [] => None end
  | _ => Some (None, ts)
  end.

Definition q_exact (ts : list tok) : option (exact * list tok) :=
  match ts with
  | TLParen :: r =>
      match uint r with
      | Some (p, TComma :: r1) =>
          match uint r1 with
          | Some (s, TRParen :: r2) => Some (EPrecScale p s, r2)
          | _ => None end
      | Some (p, TRParen :: r1) => Some (EPrec p, r1)
      | _ => None end
  | _ => Some (ENone, ts)
  end.

Definition q_tz (ts : list tok) : option (tzinfo * list tok) :=
  match ts with
  | t :: r =>
      if is_kw (s2l "WITH") t then
        match take_kws [s2l "TIME"; s2l "ZONE"] r with Some r' => Some (TzWith, r') | None => None end
      else if is_kw (s2l "WITHOUT") t then
        match take_kws [s2l "TIME"; s2l "ZONE"] r with Some r' => Some (TzWithout, r') | None => None end
      else Some (TzNone, ts)
  | [] => Some (TzNone, ts)
  end.

(** [parse_string_values]: ( 's' {, 's'} ) *)
Fixpoint q_strlist_loop (fuel : nat) (ts : list tok) : option (list str * list tok) :=
  match fuel with
  | O => None
  | S f =>
      match ts with
      | TStr s :: TComma :: r =>
          match q_strlist_loop f r with Some (l, r') => Some (s :: l, r') | None => None end
      | TStr s :: TRParen :: r => Some ([s], r)
      | _ => None end
  end.
Definition q_strlist (ts : list tok) : option (list str * list tok) :=
  match ts with TLParen :: r => q_strlist_loop (S (length r)) r | _ => None end.

(** [parse_optional_type_modifiers]: ( {word | number | string | ,} ) — commas are skipped *)
Fixpoint q_mods_loop (fuel : nat) (ts : list tok) : option (list tok * list tok) :=
  match fuel with
  | O => None
  | S f =>
      match ts with
      | TRParen :: r => Some ([], r)
      | TComma :: r => q_mods_loop f r
      | (TWord _ as m) :: r | (TQWord _ _ as m) :: r | (TNum _ as m) :: r =>
          match q_mods_loop f r with Some (l, r') => Some (m :: l, r') | None => None end
      | TStr s :: r =>
          (* the string's payload becomes the modifier: it prints back without its quotes *)
          match q_mods_loop f r with Some (l, r') => Some (TStr s :: l, r') | None => None end
      | _ => None end
  end.

Definition to_ident (t : tok) : option ident :=
  match t with TWord w => Some (Id None w) | TQWord q w => Some (Id (Some q) w) | _ => None end.

(** [parse_object_name]: ident {. ident} *)
Fixpoint q_name (fuel : nat) (ts : list tok) : option (list ident * list tok) :=
  match fuel with
  | O => None
  | S f =>
      match ts with
      | t :: r =>
          match to_ident t with
          | Some i =>
              match r with
              | TPeriod :: r' =>
                  match q_name f r' with Some (l, r'') => Some (i :: l, r'') | None => None end
              | _ => Some ([i], r) end
          | None => None end
      | [] => None end
  end.

(** [expect_closing_angle_bracket] *)
Definition q_close_angle (trailing : bool) (ts : list tok) : option (bool * list tok) :=
  if trailing then Some (false, ts)
  else match ts with
       | TGt :: r => Some (false, r)
       | TShr :: r => Some (true, r)
       | _ => None end.

Definition square_size_dialects : list str := [s2l "generic"; s2l "duckdb"; s2l "postgresql"].

Section Parser.
  Variable T : tables.
  Variable d : str.     (* dialect name *)

  (** the [Type[..]] suffix loop after the keyword match *)
  Fixpoint q_square (fuel : nat) (t : dt) (ts : list tok) : option (dt * list tok) :=
    match fuel with
    | O => None
    | S f =>
        match ts with
        | TLBracket :: r =>
            let '(sz, r1) :=
              if mem_str d square_size_dialects then
                match uint r with Some (n, r') => (Some n, r') | None => (None, r) end
              else (None, r) in
            match r1 with
            | TRBracket :: r2 => q_square f (DArraySquare t sz) r2
            | _ => None end
        | _ => Some (t, ts) end
    end.

  (** after the keyword match: the suffix loop — skipped when a closing [>] is owed to the parent
      (the type was closed by the first half of a [>>] token) *)
  Definition wrap_square (r : pres) : pres :=
    match r with
    | POk t tr r' =>
        if tr then POk t tr r'
        else match q_square (S (length r')) t r' with
             | Some (t', r'') => POk t' false r''
             | None => PErr end
    | PErr => PErr
    end.

  Definition run_leaf (a : palt) (ts : list tok) : pres :=
    match a_fam a with
    | PNullary => POk (DNullary (a_ctor a)) false ts
    | POptLen =>
        match q_optparen ts with Some (n, r) => POk (DOptLen (a_ctor a) n) false r | None => PErr end
    | POptLenU uc =>
        (* the precision is parsed first; its error surfaces after the UNSIGNED test *)
        match q_optparen ts with
        | Some (n, r) =>
            match r with
            | t :: r' => if is_kw (s2l "UNSIGNED") t then POk (DOptLen uc n) false r'
                         else POk (DOptLen (a_ctor a) n) false r
            | [] => POk (DOptLen (a_ctor a) n) false r end
        | None => PErr end
    | PCharLen =>
        match q_charlen ts with Some (l, r) => POk (DCharLen (a_ctor a) l) false r | None => PErr end
    | PExact =>
        match q_exact ts with Some (e, r) => POk (DExact (a_ctor a) e) false r | None => PErr end
    | PTime =>
        match q_optparen ts with
        | Some (p, r) =>
            match q_tz r with Some (z, r') => POk (DTime (a_ctor a) p z) false r' | None => PErr end
        | None => PErr end
    | PTimeTz =>
        match q_optparen ts with Some (p, r) => POk (DTime (a_ctor a) p TzTz) false r | None => PErr end
    | PStrList =>
        match q_strlist ts with Some (l, r) => POk (DStrList (a_ctor a) l) false r | None => PErr end
    end.

  (** if / else-if chain over keyword continuations: first alternative whose keywords are there *)
  Fixpoint run_alts (alts : list palt) (ts : list tok) : pres :=
    match alts with
    | [] => PErr
    | a :: r =>
        match take_kws (a_kws a) ts with
        | Some ts' => run_leaf a ts'
        | None => run_alts r ts end
    end.

  Definition q_custom (ts : list tok) : pres :=
    match q_name (S (length ts)) ts with
    | Some (nm, TLParen :: r) =>
        match q_mods_loop (S (length r)) r with
        | Some (m, r') => POk (DCustom nm m) false r'
        | None => PErr end
    | Some (nm, r) => POk (DCustom nm []) false r
    | None => PErr
    end.

  (** [parse_data_type_helper] up to (not including) its suffix loop; every recursive use is the
      whole helper, [wrap_square (parse_main ..)] *)
  Fixpoint parse_main (fuel : nat) (ts : list tok) {struct fuel} : pres :=
    match fuel with
    | O => PErr
    | S f =>
        let top (ts : list tok) : pres :=   (* parse_data_type *)
          match wrap_square (parse_main f ts) with
          | POk t false r => POk t false r
          | _ => PErr end in
        let sub (mk : dt -> dt) (ts : list tok) : pres :=   (* parse_sub_type *)
          match ts with
          | TLParen :: r =>
              match top r with
              | POk t _ (TRParen :: r') => POk (mk t) false r'
              | _ => PErr end
          | _ => PErr end in
        let main : pres :=
          match ts with
          | TWord w :: r =>
              match find_parow (t_parse T) d (ascii_upper w) with
              | Some {| r_kind := RAlts alts |} => run_alts alts r
              | Some {| r_kind := RIrregular tag |} =>
                  if str_eqb tag (s2l "DATETIME64#0") then
                    match r with
                    | TLParen :: r1 =>
                        match uint r1 with
                        | Some (p, TComma :: TStr z :: TRParen :: r2) => POk (DDatetime64 p (Some z)) false r2
                        | Some (p, TRParen :: r2) => POk (DDatetime64 p None) false r2
                        | _ => PErr end
                    | _ => PErr end
                  else if str_eqb tag (s2l "FIXEDSTRING#0") then
                    match r with
                    | TLParen :: r1 =>
                        match uint r1 with
                        | Some (n, TRParen :: r2) => POk (DFixedString n) false r2
                        | _ => PErr end
                    | _ => PErr end
                  else if str_eqb tag (s2l "ARRAY#0") then
                    if str_eqb d (s2l "snowflake") then POk DArrayNone false r
                    else if str_eqb d (s2l "clickhouse") then sub DArrayParen r
                    else
                      match r with
                      | TLt :: r1 =>
                          match wrap_square (parse_main f r1) with
                          | POk t tr r2 =>
                              match q_close_angle tr r2 with
                              | Some (tr', r3) => POk (DArrayAngle t) tr' r3
                              | None => PErr end
                          | PErr => PErr end
                      | _ => PErr end
                  else if str_eqb tag (s2l "NULLABLE#0") then sub DNullable r
                  else if str_eqb tag (s2l "LOWCARDINALITY#0") then sub DLowCard r
                  else if str_eqb tag (s2l "MAP#0") then
                    match r with
                    | TLParen :: r1 =>
                        match top r1 with
                        | POk k _ (TComma :: r2) =>
                            match top r2 with
                            | POk v _ (TRParen :: r3) => POk (DMap k v) false r3
                            | _ => PErr end
                        | _ => PErr end
                    | _ => PErr end
                  else if str_eqb tag (s2l "STRUCT#0") then     (* DuckDB: STRUCT(name type, ..) *)
                    match r with
                    | TLParen :: r1 =>
                        match named_fields f r1 with
                        | Some (fs, TRParen :: r2) => POk (DStruct (map (fun nt => (Some (fst nt), snd nt)) fs) BParen) false r2
                        | _ => PErr end
                    | _ => PErr end
                  else if str_eqb tag (s2l "STRUCT#1") then     (* BigQuery: STRUCT<[name] type, ..> *)
                    match r with
                    | TLt :: r1 =>
                        match angle_fields f r1 with
                        | Some (fs, tr, r2) =>
                            match q_close_angle tr r2 with
                            | Some (tr', r3) => POk (DStruct fs BAngle) tr' r3
                            | None => PErr end
                        | None => PErr end
                    | _ => POk (DStruct [] BAngle) false r end
                  else if str_eqb tag (s2l "UNION#0") then
                    match r with
                    | TLParen :: r1 =>
                        match named_fields f r1 with
                        | Some (fs, TRParen :: r2) => POk (DUnion fs) false r2
                        | _ => PErr end
                    | _ => PErr end
                  else if str_eqb tag (s2l "TUPLE#0") then
                    match r with
                    | TLParen :: r1 =>
                        match tuple_fields f r1 with
                        | Some (fs, TRParen :: r2) => POk (DTuple fs) false r2
                        | _ => PErr end
                    | _ => PErr end
                  else if str_eqb tag (s2l "NESTED#0") then
                    match r with
                    | TLParen :: r1 =>
                        match nested_cols f r1 with
                        | Some (fs, TRParen :: r2) => POk (DNested fs) false r2
                        | _ => PErr end
                    | _ => PErr end
                  else PErr
              | None => q_custom ts
              end
          | TQWord _ _ :: _ => q_custom ts
          | _ => PErr
          end in
        main
    end
  (** name type {, name type}: DuckDB struct, UNION; each type through [parse_data_type] *)
  with named_fields (fuel : nat) (ts : list tok) {struct fuel} : option (list (ident * dt) * list tok) :=
    match fuel with
    | O => None
    | S f =>
        match ts with
        | t :: r =>
            match to_ident t with
            | Some i =>
                match wrap_square (parse_main f r) with
                | POk ty false (TComma :: r1) =>
                    match named_fields f r1 with
                    | Some (l, r2) => Some ((i, ty) :: l, r2)
                    | None => None end
                | POk ty false r1 => Some ([(i, ty)], r1)
                | _ => None end
            | None => None end
        | [] => None end
    end
  (** BigQuery struct fields: [parse_struct_field_def] separated by commas; a field that consumed
      [>>] ends the struct (what follows belongs to the enclosing type) *)
  with angle_fields (fuel : nat) (ts : list tok) {struct fuel} : option (list (option ident * dt) * bool * list tok) :=
    match fuel with
    | O => None
    | S f =>
        let '(nm, ts1) :=
          match ts with
          | a :: ((b :: _) as r) => if is_word a && is_word b then (to_ident a, r) else (None, ts)
          | _ => (None, ts) end in
        match wrap_square (parse_main f ts1) with
        | POk ty true r1 => Some ([(nm, ty)], true, r1)    (* [>>] also closed this struct: stop *)
        | POk ty false (TComma :: r1) =>
            match angle_fields f r1 with
            | Some (l, tr', r2) => Some ((nm, ty) :: l, tr', r2)
            | None => None end
        | POk ty false r1 => Some ([(nm, ty)], false, r1)
        | PErr => None end
    end
  (** ClickHouse tuple fields: the trailing-bracket flag is dropped *)
  with tuple_fields (fuel : nat) (ts : list tok) {struct fuel} : option (list (option ident * dt) * list tok) :=
    match fuel with
    | O => None
    | S f =>
        let '(nm, ts1) :=
          match ts with
          | a :: ((b :: _) as r) => if is_word a && is_word b then (to_ident a, r) else (None, ts)
          | _ => (None, ts) end in
        match wrap_square (parse_main f ts1) with
        | POk ty _ (TComma :: r1) =>
            match tuple_fields f r1 with
            | Some (l, r2) => Some ((nm, ty) :: l, r2)
            | None => None end
        | POk ty _ r1 => Some ([(nm, ty)], r1)
        | PErr => None end
    end
  (** Nested(..): column definitions restricted to [name type] (options and collations are
      outside the model: the column must be followed by [,] or [)]) *)
  with nested_cols (fuel : nat) (ts : list tok) {struct fuel} : option (list (ident * dt) * list tok) :=
    match fuel with
    | O => None
    | S f =>
        match ts with
        | t :: r =>
            match to_ident t with
            | Some i =>
                match wrap_square (parse_main f r) with
                | POk ty false (TComma :: r1) =>
                    match nested_cols f r1 with
                    | Some (l, r2) => Some ((i, ty) :: l, r2)
                    | None => None end
                | POk ty false ((TRParen :: _) as r1) => Some ([(i, ty)], r1)
                | _ => None end
            | None => None end
        | [] => None end
    end.

  Definition parse_helper (fuel : nat) (ts : list tok) : pres := wrap_square (parse_main fuel ts).

  (** [Parser::parse_data_type] on a token list, with enough fuel for any input *)
  Definition parse_dt (ts : list tok) : pres :=
    match parse_helper (S (length ts)) ts with
    | POk t false r => POk t false r
    | _ => PErr
    end.
End Parser.

(** ** Decidable side condition on the generated tables.
    Every regular Display row is found again by the parser table under its own spelling (keywords
    are matched on their ASCII upper-casing), in an ungated row, with the same constructor and a
    matching family; the keywords the families themselves use (UNSIGNED, WITH, WITHOUT, MAX, ..)
    are not continuation keywords of any row; the hand-modelled arms are where the model expects
    them.  A constructor whose spelling now belongs to a neighbour, a dropped UNSIGNED, a changed
    spelling on either side all make it false. *)
Definition fam_matches (c : str) (f : family) (a : palt) : bool :=
  match f, a_fam a with
  | FNullary, PNullary => str_eqb (a_ctor a) c
  | FOptLen false, POptLen => str_eqb (a_ctor a) c
  | FOptLen false, POptLenU _ => str_eqb (a_ctor a) c
  | FOptLen true, POptLenU uc => str_eqb uc c
  | FCharLen, PCharLen => str_eqb (a_ctor a) c
  | FExact, PExact => str_eqb (a_ctor a) c
  | FTime, PTime => str_eqb (a_ctor a) c
  | _, _ => false
  end.

(** first row for a keyword, whatever its gate *)
Fixpoint find_kw (l : list parow) (kw : str) : option parow :=
  match l with
  | [] => None
  | r :: l' => if str_eqb (r_kw r) kw then Some r else find_kw l' kw
  end.

(** the alternative reached when exactly the words [ws] follow the first keyword *)
Fixpoint select_alt (alts : list palt) (ws : list str) : option palt :=
  match alts with
  | [] => None
  | a :: r =>
      match take_kws (a_kws a) (words ws) with
      | Some [] => Some a
      | Some (_ :: _) => None      (* an earlier alternative takes a strict prefix: unreachable spelling *)
      | None => select_alt r ws end
  end.

Definition all_alt_kws (T : tables) : list str :=
  flat_map (fun r => match r_kind r with RAlts alts => flat_map a_kws alts | RIrregular _ => [] end) (t_parse T).

Definition family_kws : list str :=
  [s2l "UNSIGNED"; s2l "WITH"; s2l "WITHOUT"; s2l "MAX"; s2l "CHARACTERS"; s2l "OCTETS"; s2l "TIME"; s2l "ZONE"].

(** words that the type grammar could absorb after a complete type *)
Definition absorb_kws (T : tables) : list str := family_kws ++ all_alt_kws T.

Definition prow_ok (T : tables) (r : prow) : bool :=
  match p_words r with
  | [] => false
  | w0 :: ws =>
      match find_kw (t_parse T) (ascii_upper w0) with
      | Some {| r_gate := None; r_kind := RAlts alts |} =>
          match select_alt alts ws with
          | Some a => fam_matches (p_ctor r) (p_fam r) a
          | None => false end
          && match p_fam r with
             | FTime =>
                 (* TIME -> TIMETZ: a single word whose TZ form is its own ungated keyword *)
                 match ws with
                 | [] =>
                     match find_kw (t_parse T) (ascii_upper (w0 ++ s2l "TZ")) with
                     | Some {| r_gate := None; r_kind := RAlts [ {| a_kws := []; a_ctor := c; a_fam := PTimeTz |} ] |} =>
                         str_eqb c (p_ctor r)
                     | _ => false end
                 | _ => false end
             | _ => true end
      | _ => false end
  end.

Definition irregular_expect : list (str * str * str) :=
  [ (s2l "generic", s2l "DATETIME64", s2l "DATETIME64#0"); (s2l "generic", s2l "FIXEDSTRING", s2l "FIXEDSTRING#0");
    (s2l "ansi", s2l "ARRAY", s2l "ARRAY#0"); (s2l "duckdb", s2l "STRUCT", s2l "STRUCT#0");
    (s2l "bigquery", s2l "STRUCT", s2l "STRUCT#1"); (s2l "generic", s2l "STRUCT", s2l "STRUCT#1");
    (s2l "duckdb", s2l "UNION", s2l "UNION#0"); (s2l "generic", s2l "UNION", s2l "UNION#0");
    (s2l "clickhouse", s2l "NULLABLE", s2l "NULLABLE#0"); (s2l "generic", s2l "NULLABLE", s2l "NULLABLE#0");
    (s2l "clickhouse", s2l "LOWCARDINALITY", s2l "LOWCARDINALITY#0"); (s2l "clickhouse", s2l "MAP", s2l "MAP#0");
    (s2l "clickhouse", s2l "NESTED", s2l "NESTED#0"); (s2l "clickhouse", s2l "TUPLE", s2l "TUPLE#0") ].

Definition irregular_ok (T : tables) : bool :=
  forallb (fun e => match e with (d, kw, tag) =>
             match find_parow (t_parse T) d kw with
             | Some {| r_kind := RIrregular t |} => str_eqb t tag
             | _ => false end end) irregular_expect
  && match find_kw (t_parse T) (s2l "ENUM"), find_kw (t_parse T) (s2l "SET") with
     | Some {| r_gate := None; r_kind := RAlts [ {| a_kws := []; a_ctor := c1; a_fam := PStrList |} ] |},
       Some {| r_gate := None; r_kind := RAlts [ {| a_kws := []; a_ctor := c2; a_fam := PStrList |} ] |} =>
         str_eqb c1 (s2l "Enum") && str_eqb c2 (s2l "Set")
     | _, _ => false end.

(** expectations of the hand model that the table does not meet (dialect, keyword), for reports *)
Definition bad_irregular (T : tables) : list (str * str) :=
  map (fun e => match e with (d, kw, _) => (d, kw) end)
      (filter (fun e => match e with (d, kw, tag) =>
                 negb match find_parow (t_parse T) d kw with
                      | Some {| r_kind := RIrregular t |} => str_eqb t tag
                      | _ => false end end) irregular_expect).

Definition kws_disjoint (T : tables) : bool :=
  forallb (fun k => negb (mem_str k (all_alt_kws T))) family_kws.

Definition family_consistent (T : tables) : bool :=
  forallb (prow_ok T) (t_print T) && kws_disjoint T && irregular_ok T.

(** for the directed search *)
Definition bad_print_rows (T : tables) : list str :=
  map p_ctor (filter (fun r => negb (prow_ok T r)) (t_print T)).
(** parser alternatives whose constructor has no Display row spelled [keyword continuation] *)
Definition bad_parse_rows (T : tables) : list str :=
  flat_map (fun r => match r_kind r with
                     | RIrregular _ => []
                     | RAlts alts =>
                         flat_map (fun a =>
                           let c := match a_fam a with POptLenU _ => a_ctor a | _ => a_ctor a end in
                           match a_fam a with
                           | PStrList | PTimeTz => []
                           | _ => match find_prow (t_print T) c with
                                  | Some pr => if list_eqb str_eqb (map ascii_upper (p_words pr)) (r_kw r :: a_kws a) then [] else [c]
                                  | None => [c] end
                           end) alts
                     end) (t_parse T).

(** ** Follow set: what may come after a complete type without being absorbed by the type grammar *)
(** after the keyword part of a type (the suffix loop may still take a [[]) *)
Definition follow_main (T : tables) (rest : list tok) : bool :=
  match rest with
  | [] => true
  | TLParen :: _ | TPeriod :: _ => false
  | TWord w :: _ => negb (mem_str (ascii_upper w) (absorb_kws T))
  | _ => true
  end.

Definition follow_ok (T : tables) (rest : list tok) : bool :=
  follow_main T rest && match rest with TLBracket :: _ => false | _ => true end.

(** ... at the end of a whole type: additionally no [>] / [>>] (they would be glued to, or taken for,
    the type's own closing brackets) *)
Definition follow_top (T : tables) (rest : list tok) : bool :=
  follow_ok T rest && match rest with TGt :: _ | TShr :: _ => false | _ => true end.

(** the hand-modelled arm [tag] is what dialect [d] reaches on keyword [kw] *)
Definition irr_at (T : tables) (d kw tag : str) : bool :=
  match find_parow (t_parse T) d kw with
  | Some {| r_kind := RIrregular t |} => str_eqb t tag
  | _ => false
  end.

Definition optN_le (n : option N) : bool := match n with None => true | Some n => n <=? u64_max end.

(** values of the table-driven families, with parameters in range *)
Definition leaf_wf (T : tables) (t : dt) : bool :=
  match t with
  | DNullary c => match find_prow (t_print T) c with Some {| p_fam := FNullary |} => true | _ => false end
  | DOptLen c n => match find_prow (t_print T) c with Some {| p_fam := FOptLen _ |} => optN_le n | _ => false end
  | DCharLen c l =>
      match find_prow (t_print T) c with
      | Some {| p_fam := FCharLen |} => match l with Some (CLInt n _) => n <=? u64_max | _ => true end
      | _ => false end
  | DExact c e =>
      match find_prow (t_print T) c with
      | Some {| p_fam := FExact |} =>
          match e with ENone => true | EPrec p => p <=? u64_max | EPrecScale p s => (p <=? u64_max) && (s <=? u64_max) end
      | _ => false end
  | DTime c p tz => match find_prow (t_print T) c with Some {| p_fam := FTime |} => optN_le p | _ => false end
  | _ => false
  end.

(** glued form of [n] closing angle brackets *)
Fixpoint close (n : nat) : list tok :=
  match n with
  | O => []
  | S O => [TGt]
  | S (S k) => TShr :: close k
  end.

(** number of [>] a printed type ends with (angle arrays only: the fragment of the nesting theorem) *)
Fixpoint trail (t : dt) : nat :=
  match t with DArrayAngle u => S (trail u) | _ => 0 end.

Fixpoint depth (t : dt) : nat :=
  match t with
  | DArrayAngle u | DArrayParen u | DNullable u | DLowCard u => S (depth u)
  | DArraySquare u _ => depth u      (* a suffix is taken by the same helper call *)
  | DMap k v => S (Nat.max (depth k) (depth v))
  | _ => 0
  end.

(** ** The known defects of the [>>] bookkeeping, as decidable classes on values
    (mirrors lib/props/C18.py [angle_classes]; KNOWN_FINDINGS.txt keys "angle-close:..."). *)
Fixpoint trailf (t : dt) : nat :=
  match t with
  | DArrayAngle u => S (trailf u)
  | DStruct fs BAngle =>
      match fs with
      | [] => 0%nat
      | _ => S ((fix lst (l : list (option ident * dt)) : nat :=
                   match l with [] => 0%nat | [(_, u)] => trailf u | _ :: r => lst r end) fs)
      end
  | _ => 0%nat
  end.

Definition even_run (n : nat) : bool := Nat.leb 2%nat n && Nat.even n.

(** [comma]/[bracket]: the printed value is followed by [,] / [[] *)
Fixpoint angle_defect (pg : bool) (comma bracket : bool) (t : dt) : bool :=
  (bracket && even_run (trailf t))
  || (comma && even_run (trailf t) && match t with DStruct _ BAngle => true | _ => false end)
  || (pg && Nat.leb 3%nat (trailf t))
  || match t with
     | DArrayAngle u | DArrayParen u | DNullable u | DLowCard u => angle_defect pg false false u
     | DArraySquare u _ => angle_defect pg false true u
     | DMap k v => angle_defect pg true false k || angle_defect pg false false v
     | DStruct fs _ | DTuple fs =>
         (fix go (l : list (option ident * dt)) : bool :=
            match l with
            | [] => false
            | [(_, u)] => angle_defect pg false false u
            | (_, u) :: r => angle_defect pg true false u || go r
            end) fs
     | DUnion fs | DNested fs =>
         (fix go (l : list (ident * dt)) : bool :=
            match l with
            | [] => false
            | [(_, u)] => angle_defect pg false false u
            | (_, u) :: r => angle_defect pg true false u || go r
            end) fs
     | _ => false
     end.

Definition known_angle_class (d : str) (t : dt) : bool :=
  angle_defect (str_eqb d (s2l "postgresql")) false false t.

Definition pres_eqb (a b : pres) : bool :=
  match a, b with
  | POk t f r, POk t' f' r' => dt_eqb t t' && Bool.eqb f f' && toks_eqb r r'
  | PErr, PErr => true
  | _, _ => false
  end.
