(** Executable model of [src/tokenizer.rs]: one Gallina function per Rust scanner, same
    branching order as [Tokenizer::next_token].  Model only — proofs live in LexerProofs.v.

    Abstraction (stated in DESIGN.md): the Rust [State] is a peekable char iterator plus
    line/col that only [State::next] updates.  Here a scanner is a function from the remaining
    input [l : list N] to a payload and the remaining input *after* it; positions are then
    derived from the consumed prefix ([advance]).  A Rust scanner that consumed characters
    without going through [State::next] would show up as a location disagreement in the
    correspondence check. *)
Require Import SqlV.Base.
Local Open Scope N_scope.

(** * Tokens *)
Inductive strkind :=
| KSingle | KDouble | KTripleSingle | KTripleDouble
| KByteSingle | KByteDouble | KTripleByteSingle | KTripleByteDouble
| KRawSingle | KRawDouble | KTripleRawSingle | KTripleRawDouble
| KNational | KEscaped | KUnicode | KHex.

Inductive wsk :=
| WSpace | WNewline | WTab
| WLine (prefix comment : str)
| WBlock (s : str).

Inductive fixtok :=
| FComma | FDoubleEq | FEq | FNeq | FLt | FGt | FLtEq | FGtEq | FSpaceship | FPlus | FMinus
| FMul | FDiv | FDuckIntDiv | FMod | FStringConcat | FLParen | FRParen | FPeriod | FColon
| FDoubleColon | FAssignment | FSemiColon | FBackslash | FLBracket | FRBracket | FAmpersand
| FPipe | FCaret | FLBrace | FRBrace | FRArrow | FSharp | FTilde | FTildeAsterisk
| FExclamationMarkTilde | FExclamationMarkTildeAsterisk | FDoubleTilde | FDoubleTildeAsterisk
| FExclamationMarkDoubleTilde | FExclamationMarkDoubleTildeAsterisk | FShiftLeft | FShiftRight
| FOverlap | FExclamationMark | FDoubleExclamationMark | FAtSign | FCaretAt | FPGSquareRoot
| FPGCubeRoot | FArrow | FLongArrow | FHashArrow | FHashLongArrow | FAtArrow | FArrowAt
| FHashMinus | FAtQuestion | FAtAt | FQuestion | FQuestionAnd | FQuestionPipe.

Inductive tok :=
| TWord (v : str) (q : option N)       (* keyword is a function of (v,q): Keywords.make_word *)
| TNumber (s : str) (long : bool)
| TChar (c : N)
| TStr (k : strkind) (s : str)
| TDollar (v : str) (tag : option str)
| TWs (w : wsk)
| TPlaceholder (s : str)
| TCustom (s : str)
| TFix (f : fixtok).

Inductive lexerr :=
| EExpectedClose (q : N)        (* "Expected close delimiter '{q}' before EOF." *)
| EUnterminatedString           (* "Unterminated string literal" *)
| EInvalidOpening               (* "invalid string literal opening" *)
| EUnterminatedDollar           (* "Unterminated dollar-quoted string" *)
| EUnterminatedDollarExpected   (* "Unterminated dollar-quoted, expected $" *)
| EUnterminatedEncoded          (* "Unterminated encoded string literal" *)
| EEofComment                   (* "Unexpected EOF while in a multi-line comment" *)
| EUnterminatedUnicode          (* "Unterminated unicode encoded string literal" *)
| EEofHex                       (* "Unexpected EOF while parsing hex digit in escaped unicode string." *)
| EInvalidHexDigit (c : N)      (* "Invalid hex digit in escaped unicode string: {c}" *)
| EInvalidUnicode (n : N).      (* "Invalid unicode character: {n:x}" *)

(** [Err e r]: error [e] located at the position where the remaining input is [r]. *)
Inductive res (A : Type) :=
| Ok (a : A)
| Err (e : lexerr) (at_rest : str)
| Panic (why : N).     (* 1 = matching_end_quote, 2 = assert_eq newline, 3 = out of fuel *)
Arguments Ok {A}. Arguments Err {A}. Arguments Panic {A}.

(** * Dialect and std character classes *)
Inductive piq_mode := PiqAlways | PiqRedshift.

Record dialect := {
  d_ident_start : N -> bool;
  d_ident_part : N -> bool;
  d_delim_start : N -> bool;
  d_custom_op : N -> bool;
  d_piq : piq_mode;                 (* is_proper_identifier_inside_quotes *)
  d_backslash : bool;               (* supports_string_literal_backslash_escape *)
  d_unicode_lit : bool;             (* supports_unicode_string_literal *)
  d_triple : bool;                  (* supports_triple_quoted_string *)
  d_numeric_prefix : bool;          (* supports_numeric_prefix *)
  d_bq_or_generic : bool;           (* dialect_of!(self is BigQueryDialect | GenericDialect) *)
  d_snowflake : bool;
  d_duck_or_generic : bool;
  d_sf_or_bq : bool;
  d_pg : bool
}.

Record uni := {
  u_whitespace : N -> bool;         (* char::is_whitespace *)
  u_numeric : N -> bool;            (* char::is_numeric *)
  u_alphanumeric : N -> bool        (* char::is_alphanumeric *)
}.

(** Character sets as generated data: a 128-bit mask for ASCII plus sorted ranges above. *)
Fixpoint in_ranges (rs : list (N * N)) (c : N) : bool :=
  match rs with
  | [] => false
  | (lo, hi) :: r => if c <? lo then false else if c <=? hi then true else in_ranges r c
  end.
Definition in_set (mask : N) (rs : list (N * N)) (c : N) : bool :=
  if c <? 128 then N.testbit mask c else in_ranges rs c.

(** * Character constants and ASCII classes *)
Definition cSP := 32. Definition cTAB := 9. Definition cLF := 10. Definition cCR := 13.
Definition cSQ := 39. Definition cDQ := 34. Definition cBQ := 96. Definition cBSL := 92.
Definition cDOLLAR := 36. Definition cLBR := 91. Definition cRBR := 93. Definition cUS := 95.
Definition cDOT := 46. Definition cSTAR := 42. Definition cSLASH := 47. Definition cMINUS := 45.
Definition cPLUS := 43. Definition cGT := 62. Definition cLT := 60. Definition cEQ := 61.
Definition cBANG := 33. Definition cTILDE := 126. Definition cAT := 64. Definition cHASH := 35.
Definition cPCT := 37. Definition cPIPE := 124. Definition cAMP := 38. Definition cCARET := 94.
Definition cQM := 63. Definition cCOLON := 58.

Definition is_digit (c : N) : bool := (48 <=? c) && (c <=? 57).
Definition is_octal (c : N) : bool := (48 <=? c) && (c <=? 55).
Definition is_hexdigit (c : N) : bool :=
  is_digit c || ((65 <=? c) && (c <=? 70)) || ((97 <=? c) && (c <=? 102)).
Definition hexval (c : N) : N :=
  if is_digit c then c - 48 else if (65 <=? c) && (c <=? 70) then c - 55 else c - 87.
Definition is_digit_or_dot (c : N) : bool := is_digit c || (c =? cDOT).

(** [char::from_u32]: scalar values only. *)
Definition valid_scalar (n : N) : bool :=
  (n <? 55296) || ((57343 <? n) && (n <=? 1114111)).

(** * Generic helpers *)
Fixpoint take_while (p : N -> bool) (l : str) : str * str :=
  match l with
  | [] => ([], [])
  | c :: r => if p c then let '(a, b) := take_while p r in (c :: a, b) else ([], l)
  end.

(** [u32::from_str_radix]: optional leading '+', at least one digit, every char a digit of the
    radix.  (Overflow cannot occur for the lengths used: <= 8 hex or 3 octal digits.) *)
Fixpoint digits_val (radix : N) (isd : N -> bool) (acc : N) (l : str) : option N :=
  match l with
  | [] => Some acc
  | c :: r => if isd c then digits_val radix isd (acc * radix + hexval c) r else None
  end.
Definition from_str_radix (radix : N) (isd : N -> bool) (s : str) : option N :=
  match s with
  | [] => None
  | c :: r =>
      if c =? cPLUS then match r with [] => None | _ => digits_val radix isd 0 r end
      else digits_val radix isd 0 s
  end.

(** * Position tracking: the only place line/col change ([State::next]). *)
Definition loc := (N * N)%type.
Definition advance1 (p : loc) (c : N) : loc :=
  let '(ln, col) := p in if c =? cLF then (ln + 1, 1) else (ln, col + 1).
Definition advance (p : loc) (cs : str) : loc := fold_left advance1 cs p.

(** * Scanners *)
Section Lex.
  Variable d : dialect.
  Variable u : uni.
  Variable unesc : bool.

  Definition tokenize_word (first : str) (l : str) : str * str :=
    let '(w, r) := take_while (d_ident_part d) l in (first ++ w, r).

  (** [tokenize_identifier_or_keyword(ch, chars)]; [l] still holds the "first char". *)
  Definition ident_or_keyword (chs : str) (l : str) : tok * str :=
    let l1 := tl l in
    let '(word, r) := tokenize_word chs l1 in
    if forallb is_digit_or_dot word then
      let '(s, _) := take_while is_digit_or_dot word in
      let '(s2, r2) := take_while is_digit_or_dot r in
      (TNumber (s ++ s2) false, r2)
    else (TWord word None, r).

  Definition start_binop (prefix : str) (default : fixtok) (l : str) : tok * str :=
    let '(ops, r) := take_while (d_custom_op d) l in
    match ops with
    | [] => (TFix default, r)
    | _ => (TCustom (prefix ++ ops), r)
    end.

  (** [consume_for_binop]: one more char, then [start_binop]. *)
  Definition consume_for_binop (prefix : str) (default : fixtok) (l : str) : tok * str :=
    start_binop prefix default (tl l).

  (** [tokenize_single_line_comment] *)
  Definition line_comment (l : str) : res (str * str) :=
    let '(c, r) := take_while (fun ch => negb (ch =? cLF)) l in
    match r with
    | [] => Ok (c, [])
    | ch :: r' => if ch =? cLF then Ok (c ++ [ch], r') else Panic 2
    end.

  (** [tokenize_multiline_comment], after "/*".  Returns the pushed chars (the caller pops the
      final '*') and the rest; [None] = EOF inside the comment. *)
  Fixpoint ml_loop (last : N) (nested : N) (l : str) : option (str * str) :=
    match l with
    | [] => None
    | ch :: r =>
        if (last =? cSLASH) && (ch =? cSTAR) then
          match ml_loop ch (nested + 1) r with
          | Some (s, r') => Some (ch :: s, r') | None => None end
        else if (last =? cSTAR) && (ch =? cSLASH) then
          if nested - 1 =? 0 then Some ([], r)
          else match ml_loop ch (nested - 1) r with
               | Some (s, r') => Some (ch :: s, r') | None => None end
        else match ml_loop ch nested r with
             | Some (s, r') => Some (ch :: s, r') | None => None end
    end.
  Definition multiline_comment (l : str) : res (tok * str) :=
    match ml_loop cSP 1 l with
    | Some (s, r) => Ok (TWs (WBlock (removelast s)), r)
    | None => Err EEofComment []
    end.

  (** Backslash escapes of [tokenize_quoted_string]. *)
  Definition bs_map (c : N) : N :=
    if c =? 48 then 0 else if c =? 97 then 7 else if c =? 98 then 8 else if c =? 102 then 12
    else if c =? 110 then 10 else if c =? 114 then 13 else if c =? 116 then 9
    else if c =? 90 then 26 else c.

  (** The main loop of [tokenize_quoted_string] (opening quotes already consumed).
      [many]: triple-quoted.  Returns all pushed chars (for [many] the caller strips the two
      trailing quotes) and the rest; [None] = unterminated. *)
  Fixpoint qs_loop (q : N) (many bs : bool) (ncq : N) (l : str) : option (str * str) :=
    match l with
    | [] => None
    | ch :: r =>
        let pending := if many then (ncq + 1 =? 3) else true in
        if (ch =? q) && pending then
          if many then Some ([], r)
          else match r with
               | c2 :: r2 =>
                   if c2 =? q then
                     match qs_loop q many bs ncq r2 with
                     | Some (s, r') => Some (ch :: (if unesc then s else ch :: s), r')
                     | None => None
                     end
                   else Some ([], r)
               | [] => Some ([], r)
               end
        else if (ch =? cBSL) && bs then
          match r with
          | nx :: r2 =>
              match qs_loop q many bs 0 r2 with
              | Some (s, r') =>
                  Some (if unesc then bs_map nx :: s else ch :: nx :: s, r')
              | None => None
              end
          | [] => None
          end
        else
          match qs_loop q many bs (if ch =? q then ncq + 1 else 0) r with
          | Some (s, r') => Some (ch :: s, r')
          | None => None
          end
    end.

  Definition strip2 (s : str) : str := removelast (removelast s).

  (** [tokenize_quoted_string] with [num_opening_quotes_to_consume = 1] (One). *)
  Definition single_quoted (q : N) (bs : bool) (l : str) : res (str * str) :=
    match l with
    | c :: r =>
        if c =? q then
          match qs_loop q false bs 0 r with
          | Some (s, r') => Ok (s, r')
          | None => Err EUnterminatedString l
          end
        else Err EInvalidOpening l
    | [] => Err EInvalidOpening l
    end.

  (** [tokenize_single_or_triple_quoted_string] *)
  Definition single_or_triple (q : N) (bs : bool) (k1 k3 : strkind) (l : str) : res (tok * str) :=
    match l with
    | c1 :: r1 =>
        if c1 =? q then
          match r1 with
          | c2 :: r2 =>
              if c2 =? q then
                match r2 with
                | c3 :: r3 =>
                    if c3 =? q then
                      match qs_loop q true bs 0 r3 with
                      | Some (s, r') => Ok (TStr k3 (strip2 s), r')
                      | None => Err EUnterminatedString r3
                      end
                    else Ok (TStr k1 [], r2)
                | [] => Ok (TStr k1 [], r2)
                end
              else match qs_loop q false bs 0 r1 with
                   | Some (s, r') => Ok (TStr k1 s, r')
                   | None => Err EUnterminatedString r1
                   end
          | [] => match qs_loop q false bs 0 r1 with
                  | Some (s, r') => Ok (TStr k1 s, r')
                  | None => Err EUnterminatedString r1
                  end
          end
        else Err EInvalidOpening l
    | [] => Err EInvalidOpening l
    end.

  (** [parse_quoted_ident]: returns pushed chars and rest; [None] = EOF before the close. *)
  Fixpoint quoted_ident (qe : N) (l : str) : option (str * str) :=
    match l with
    | [] => None
    | ch :: r =>
        if ch =? qe then
          match r with
          | c2 :: r2 =>
              if c2 =? qe then
                match quoted_ident qe r2 with
                | Some (s, r') => Some (ch :: (if unesc then s else ch :: s), r')
                | None => None
                end
              else Some ([], r)
          | [] => Some ([], r)
          end
        else match quoted_ident qe r with
             | Some (s, r') => Some (ch :: s, r')
             | None => None
             end
    end.

  Definition matching_end_quote (c : N) : option N :=
    if c =? cDQ then Some cDQ else if c =? cLBR then Some cRBR else if c =? cBQ then Some cBQ
    else None.

  (** [is_proper_identifier_inside_quotes] on the remaining input (opening quote included). *)
  Fixpoint skip_ws (l : str) : str :=
    match l with c :: r => if u_whitespace u c then skip_ws r else l | [] => [] end.
  Definition proper_inside_quotes (l : str) : bool :=
    match d_piq d with
    | PiqAlways => true
    | PiqRedshift =>
        match skip_ws (tl l) with c :: _ => d_ident_start d c | [] => false end
    end.

  (** ** Escaped string E'...' ([Unescape]) *)
  Definition byte_to_char (radix : N) (isd : N -> bool) (s : str) : option N :=
    match from_str_radix radix isd s with
    | None => None
    | Some n => let n := N.land n 255 in if n <=? 127 then Some n else None
    end.

  (** up to [k] chars satisfying [p] *)
  Fixpoint take_upto (k : nat) (p : N -> bool) (l : str) : str * str :=
    match k, l with
    | S k', c :: r => if p c then let '(a, b) := take_upto k' p r in (c :: a, b) else ([], l)
    | _, _ => ([], l)
    end.
  (** exactly [k] chars *)
  Fixpoint take_exact (k : nat) (l : str) : option (str * str) :=
    match k, l with
    | O, _ => Some ([], l)
    | S k', c :: r => match take_exact k' r with Some (a, b) => Some (c :: a, b) | None => None end
    | S _, [] => None
    end.

  Definition unescape_unicode (k : nat) (l : str) : option (N * str) :=
    match take_exact k l with
    | None => None
    | Some (s, r) =>
        match from_str_radix 16 is_hexdigit s with
        | None => None
        | Some n => if valid_scalar n then Some (n, r) else None
        end
    end.

  (** one escape after the backslash; [None] aborts the whole literal *)
  Definition esc_one (l : str) : option (N * str) :=
    match l with
    | [] => None
    | c :: r =>
        if c =? 98 then Some (8, r) else if c =? 102 then Some (12, r)
        else if c =? 110 then Some (10, r) else if c =? 114 then Some (13, r)
        else if c =? 116 then Some (9, r)
        else if c =? 117 then unescape_unicode 4 r
        else if c =? 85 then unescape_unicode 8 r
        else if c =? 120 then
          let '(s, r') := take_upto 2 is_hexdigit r in
          match s with
          | [] => Some (120, r')
          | _ => match byte_to_char 16 is_hexdigit s with Some n => Some (n, r') | None => None end
          end
        else if is_octal c then
          let '(s, r') := take_upto 2 is_octal r in
          match byte_to_char 8 is_octal (c :: s) with Some n => Some (n, r') | None => None end
        else Some (c, r)
    end.

  (** main loop of [Unescape::unescape] after the opening quote; fuel = length of input *)
  Fixpoint esc_loop (fuel : nat) (l : str) : option (str * str) :=
    match fuel with
    | O => None
    | S f =>
        match l with
        | [] => None
        | c :: r =>
            if c =? cSQ then
              match r with
              | c2 :: r2 =>
                  if c2 =? cSQ then
                    match esc_loop f r2 with Some (s, r') => Some (cSQ :: s, r') | None => None end
                  else Some ([], r)
              | [] => Some ([], r)
              end
            else if negb (c =? cBSL) then
              match esc_loop f r with Some (s, r') => Some (c :: s, r') | None => None end
            else
              match esc_one r with
              | None => None
              | Some (n, r1) =>
                  if n =? 0 then None
                  else match esc_loop f r1 with Some (s, r') => Some (n :: s, r') | None => None end
              end
        end
    end.

  (** ** Unicode string U&'...' *)
  (** [take_char_from_hex_digits]: [Ok (char, rest)] or an error located where it arose *)
  Fixpoint hex_digits (k : nat) (acc : N) (l : str) : res (N * str) :=
    match k with
    | O => if valid_scalar acc then Ok (acc, l) else Err (EInvalidUnicode acc) l
    | S k' =>
        match l with
        | [] => Err EEofHex []
        | c :: r => if is_hexdigit c then hex_digits k' (acc * 16 + hexval c) r
                    else Err (EInvalidHexDigit c) r
        end
    end.

  Fixpoint uni_loop (fuel : nat) (l : str) : res (str * str) :=
    match fuel with
    | O => Panic 3
    | S f =>
        match l with
        | [] => Err EUnterminatedUnicode []
        | c :: r =>
            if c =? cSQ then
              match r with
              | c2 :: r2 =>
                  if c2 =? cSQ then
                    match uni_loop f r2 with
                    | Ok (s, r') => Ok (cSQ :: s, r') | Err e a => Err e a | Panic w => Panic w end
                  else Ok ([], r)
              | [] => Ok ([], r)
              end
            else if c =? cBSL then
              let step (x : res (N * str)) :=
                match x with
                | Ok (n, r1) =>
                    match uni_loop f r1 with
                    | Ok (s, r') => Ok (n :: s, r') | Err e a => Err e a | Panic w => Panic w end
                | Err e a => Err e a
                | Panic w => Panic w
                end in
              match r with
              | c2 :: r2 =>
                  if c2 =? cBSL then
                    match uni_loop f r2 with
                    | Ok (s, r') => Ok (cBSL :: s, r') | Err e a => Err e a | Panic w => Panic w end
                  else if c2 =? cPLUS then step (hex_digits 6 0 r2)
                  else step (hex_digits 4 0 r)
              | [] => step (hex_digits 4 0 r)
              end
            else
              match uni_loop f r with
              | Ok (s, r') => Ok (c :: s, r') | Err e a => Err e a | Panic w => Panic w end
        end
    end.

  (** ** Dollar-preceded values *)
  Fixpoint dq_loop (prev : option N) (l : str) : option (str * str) :=
    match l with
    | [] => None
    | ch :: r =>
        match prev with
        | Some p =>
            if p =? cDOLLAR then
              if ch =? cDOLLAR then Some ([], r)
              else match dq_loop (Some ch) r with
                   | Some (s, r') => Some (cDOLLAR :: ch :: s, r') | None => None end
            else if negb (ch =? cDOLLAR) then
              match dq_loop (Some ch) r with
              | Some (s, r') => Some (ch :: s, r') | None => None end
            else dq_loop (Some ch) r
        | None =>
            if negb (ch =? cDOLLAR) then
              match dq_loop (Some ch) r with
              | Some (s, r') => Some (ch :: s, r') | None => None end
            else dq_loop (Some ch) r
        end
    end.

  (** matching the tag after a '$': [TagEq r] all tag chars matched; [TagNe ms r] mismatch
      after consuming [ms]; [TagEof] input ended *)
  Inductive tagres := TagEq (r : str) | TagNe (ms : str) (r : str) | TagEof.
  Fixpoint match_tag (tag : str) (l : str) : tagres :=
    match tag with
    | [] => TagEq l
    | c :: tag' =>
        match l with
        | [] => TagEof
        | nc :: r =>
            if nc =? c then
              match match_tag tag' r with
              | TagEq r' => TagEq r'
              | TagNe ms r' => TagNe (nc :: ms) r'
              | TagEof => TagEof
              end
            else TagNe [nc] r
        end
    end.

  Fixpoint tagged_loop (fuel : nat) (tag : str) (l : str) : res (str * str) :=
    match fuel with
    | O => Panic 3
    | S f =>
        let '(pre, r) := take_while (fun ch => negb (ch =? cDOLLAR)) l in
        match r with
        | [] => Err EUnterminatedDollarExpected []
        | _ :: r1 =>   (* the '$' *)
            let continue_with (ms : str) (r2 : str) :=
              match tagged_loop f tag r2 with
              | Ok (s, r') => Ok (pre ++ cDOLLAR :: ms ++ s, r')
              | Err e a => Err e a
              | Panic w => Panic w
              end in
            match match_tag tag r1 with
            | TagEof => Err EUnterminatedDollarExpected []
            | TagNe ms r2 => continue_with ms r2
            | TagEq r2 =>
                match r2 with
                | c :: r3 => if c =? cDOLLAR then Ok (pre, r3) else continue_with tag r2
                | [] => continue_with tag r2
                end
            end
        end
    end.

  Definition dollar_value (l : str) : res (tok * str) :=
    let l1 := tl l in
    match l1 with
    | c :: l2 =>
        if c =? cDOLLAR then
          match dq_loop None l2 with
          | Some (s, r) => Ok (TDollar s None, r)
          | None => Err EUnterminatedDollar []
          end
        else
          let '(value, l3) := take_while (fun ch => u_alphanumeric u ch || (ch =? cUS)) l1 in
          match l3 with
          | c3 :: l4 =>
              if c3 =? cDOLLAR then
                match tagged_loop (S (length l4)) value l4 with
                | Ok (s, r) => Ok (TDollar s (match value with [] => None | _ => Some value end), r)
                | Err e a => Err e a
                | Panic w => Panic w
                end
              else Ok (TPlaceholder (cDOLLAR :: value), l3)
          | [] => Ok (TPlaceholder (cDOLLAR :: value), l3)
          end
    | [] => Ok (TPlaceholder [cDOLLAR], [])
    end.

  (** ** Numbers *)
  (** "match one period" *)
  Definition num_period (s0 r0 : str) : str * str :=
    match r0 with
    | c :: r => if c =? cDOT then (s0 ++ [cDOT], r) else (s0, r0)
    | [] => (s0, r0)
    end.
  (** optional sign of the exponent (through the cloned iterator) *)
  Definition num_sign (ra : str) : str * str :=
    match ra with
    | sg :: rb' => if (sg =? cPLUS) || (sg =? cMINUS) then ([sg], rb') else ([], ra)
    | [] => ([], ra)
    end.
  (** exponent look-ahead: new text, new rest, and whether an 'e'/'E' was seen at all *)
  Definition num_exponent (s2 r2 : str) : str * str * bool :=
    match r2 with
    | e :: ra =>
        if (e =? 101) || (e =? 69) then
          let '(sign, rb) := num_sign ra in
          match rb with
          | dg :: _ =>
              if is_digit dg then
                let '(ds, rc) := take_while is_digit rb in
                (s2 ++ e :: sign ++ ds, rc, true)
              else (s2, r2, true)
          | [] => (s2, r2, true)
          end
        else (s2, r2, false)
    | [] => (s2, r2, false)
    end.
  (** numeric-prefix identifiers, then the 'L' suffix *)
  Definition num_tail (s3 r3 : str) (saw_e : bool) : tok * str :=
    let word_branch :=
      if d_numeric_prefix d && negb saw_e then
        let '(w, r4) := take_while (d_ident_part d) r3 in
        match w with [] => None | _ => Some (TWord (s3 ++ w) None, r4) end
      else None in
    match word_branch with
    | Some x => x
    | None =>
        match r3 with
        | c :: r4 => if c =? 76 then (TNumber s3 true, r4) else (TNumber s3 false, r3)
        | [] => (TNumber s3 false, r3)
        end
    end.
  Definition num_hex_prefix (s0 r0 : str) : option str :=
    if str_eqb s0 [48] then
      match r0 with c :: r => if c =? 120 then Some r else None | [] => None end
    else None.

  Definition number (l : str) : tok * str :=
    let '(s0, r0) := take_while is_digit l in
    match num_hex_prefix s0 r0 with
    | Some r =>
        let '(h, r') := take_while is_hexdigit r in (TStr KHex h, r')
    | None =>
        let '(s1, r1) := num_period s0 r0 in
        let '(s2d, r2) := take_while is_digit r1 in
        let s2 := s1 ++ s2d in
        if str_eqb s2 [cDOT] then (TFix FPeriod, r2)
        else
          let '(s3, r3, saw_e) := num_exponent s2 r2 in
          num_tail s3 r3 saw_e
    end.

  (** ** The dispatcher: [next_token].  [None] = end of input. *)
  Definition ret (t : tok) (r : str) : res (option (tok * str)) := Ok (Some (t, r)).
  Definition retp (x : tok * str) : res (option (tok * str)) := Ok (Some x).
  Definition lift {A} (x : res A) (f : A -> res (option (tok * str))) : res (option (tok * str)) :=
    match x with Ok a => f a | Err e a => Err e a | Panic w => Panic w end.
  Definition peek_is (l : str) (c : N) : bool := match l with x :: _ => x =? c | [] => false end.

  Definition word_from (first : N) (r : str) : res (option (tok * str)) :=
    let '(s, r') := tokenize_word [first] r in ret (TWord s None) r'.

  Definition line_comment_tok (prefix : str) (r : str) : res (option (tok * str)) :=
    lift (line_comment r) (fun '(c, r') => ret (TWs (WLine prefix c)) r').

  Definition next_token (l : str) : res (option (tok * str)) :=
    match l with
    | [] => Ok None
    | ch :: r =>
      if ch =? cSP then ret (TWs WSpace) r
      else if ch =? cTAB then ret (TWs WTab) r
      else if ch =? cLF then ret (TWs WNewline) r
      else if ch =? cCR then
        ret (TWs WNewline) (if peek_is r cLF then tl r else r)
      else if ((ch =? 66) || (ch =? 98)) && d_bq_or_generic d then
        if peek_is r cSQ then
          if d_triple d then
            lift (single_or_triple cSQ false KByteSingle KTripleByteSingle r) (fun x => retp x)
          else lift (single_quoted cSQ false r) (fun '(s, r') => ret (TStr KByteSingle s) r')
        else if peek_is r cDQ then
          if d_triple d then
            lift (single_or_triple cDQ false KByteDouble KTripleByteDouble r) (fun x => retp x)
          else lift (single_quoted cDQ false r) (fun '(s, r') => ret (TStr KByteDouble s) r')
        else word_from ch r
      else if ((ch =? 82) || (ch =? 114)) && d_bq_or_generic d then
        if peek_is r cSQ then
          lift (single_or_triple cSQ false KRawSingle KTripleRawSingle r) (fun x => retp x)
        else if peek_is r cDQ then
          lift (single_or_triple cDQ false KRawDouble KTripleRawDouble r) (fun x => retp x)
        else word_from ch r
      else if (ch =? 78) || (ch =? 110) then
        if peek_is r cSQ then
          lift (single_quoted cSQ true r) (fun '(s, r') => ret (TStr KNational s) r')
        else word_from ch r
      else if (ch =? 101) || (ch =? 69) then
        if peek_is r cSQ then
          match esc_loop (length r) (tl r) with
          | Some (s, r') => ret (TStr KEscaped s) r'
          | None => Err EUnterminatedEncoded l
          end
        else word_from ch r
      else if ((ch =? 117) || (ch =? 85)) && d_unicode_lit d then
        if peek_is r cAMP && peek_is (tl r) cSQ then
          lift (uni_loop (S (length r)) (tl (tl r))) (fun '(s, r') => ret (TStr KUnicode s) r')
        else word_from ch r
      else if (ch =? 120) || (ch =? 88) then
        if peek_is r cSQ then
          lift (single_quoted cSQ true r) (fun '(s, r') => ret (TStr KHex s) r')
        else word_from ch r
      else if ch =? cSQ then
        if d_triple d then
          lift (single_or_triple cSQ (d_backslash d) KSingle KTripleSingle l) (fun x => retp x)
        else lift (single_quoted cSQ (d_backslash d) l) (fun '(s, r') => ret (TStr KSingle s) r')
      else if (ch =? cDQ) && negb (d_delim_start d ch) && negb (d_ident_start d ch) then
        if d_triple d then
          lift (single_or_triple cDQ (d_backslash d) KDouble KTripleDouble l) (fun x => retp x)
        else lift (single_quoted cDQ (d_backslash d) l) (fun '(s, r') => ret (TStr KDouble s) r')
      else if d_delim_start d ch && proper_inside_quotes l then
        match matching_end_quote ch with
        | None => Panic 1
        | Some qe =>
            match quoted_ident qe r with
            | Some (s, r') => ret (TWord s (Some ch)) r'
            | None => Err (EExpectedClose qe) l
            end
        end
      else if is_digit ch || (ch =? cDOT) then retp (number l)
      else if ch =? 40 then ret (TFix FLParen) r
      else if ch =? 41 then ret (TFix FRParen) r
      else if ch =? 44 then ret (TFix FComma) r
      else if ch =? cMINUS then
        if peek_is r cMINUS then line_comment_tok [cMINUS; cMINUS] (tl r)
        else if peek_is r cGT then
          if peek_is (tl r) cGT then retp (consume_for_binop [cMINUS; cGT; cGT] FLongArrow (tl r))
          else retp (start_binop [cMINUS; cGT] FArrow (tl r))
        else retp (start_binop [cMINUS] FMinus r)
      else if ch =? cSLASH then
        if peek_is r cSTAR then lift (multiline_comment (tl r)) (fun x => retp x)
        else if peek_is r cSLASH && d_snowflake d then line_comment_tok [cSLASH; cSLASH] (tl r)
        else if peek_is r cSLASH && d_duck_or_generic d then ret (TFix FDuckIntDiv) (tl r)
        else ret (TFix FDiv) r
      else if ch =? cPLUS then ret (TFix FPlus) r
      else if ch =? cSTAR then ret (TFix FMul) r
      else if ch =? cPCT then
        match r with
        | s :: _ =>
            if u_whitespace u s then ret (TFix FMod) r
            else if d_ident_start d cPCT then retp (ident_or_keyword [ch; s] r)
            else retp (start_binop [cPCT] FMod r)
        | [] => retp (start_binop [cPCT] FMod r)
        end
      else if ch =? cPIPE then
        if peek_is r cSLASH then retp (consume_for_binop [cPIPE; cSLASH] FPGSquareRoot r)
        else if peek_is r cPIPE then
          if peek_is (tl r) cSLASH then retp (consume_for_binop [cPIPE; cPIPE; cSLASH] FPGCubeRoot (tl r))
          else retp (start_binop [cPIPE; cPIPE] FStringConcat (tl r))
        else retp (start_binop [cPIPE] FPipe r)
      else if ch =? cEQ then
        if peek_is r cGT then ret (TFix FRArrow) (tl r)
        else if peek_is r cEQ then ret (TFix FDoubleEq) (tl r)
        else ret (TFix FEq) r
      else if ch =? cBANG then
        if peek_is r cEQ then ret (TFix FNeq) (tl r)
        else if peek_is r cBANG then ret (TFix FDoubleExclamationMark) (tl r)
        else if peek_is r cTILDE then
          let r1 := tl r in
          if peek_is r1 cSTAR then ret (TFix FExclamationMarkTildeAsterisk) (tl r1)
          else if peek_is r1 cTILDE then
            let r2 := tl r1 in
            if peek_is r2 cSTAR then ret (TFix FExclamationMarkDoubleTildeAsterisk) (tl r2)
            else ret (TFix FExclamationMarkDoubleTilde) r2
          else ret (TFix FExclamationMarkTilde) r1
        else ret (TFix FExclamationMark) r
      else if ch =? cLT then
        if peek_is r cEQ then
          if peek_is (tl r) cGT then retp (consume_for_binop [cLT; cEQ; cGT] FSpaceship (tl r))
          else retp (start_binop [cLT; cEQ] FLtEq (tl r))
        else if peek_is r cGT then retp (consume_for_binop [cLT; cGT] FNeq r)
        else if peek_is r cLT then retp (consume_for_binop [cLT; cLT] FShiftLeft r)
        else if peek_is r cAT then retp (consume_for_binop [cLT; cAT] FArrowAt r)
        else retp (start_binop [cLT] FLt r)
      else if ch =? cGT then
        if peek_is r cEQ then retp (consume_for_binop [cGT; cEQ] FGtEq r)
        else if peek_is r cGT then retp (consume_for_binop [cGT; cGT] FShiftRight r)
        else retp (start_binop [cGT] FGt r)
      else if ch =? cCOLON then
        if peek_is r cCOLON then ret (TFix FDoubleColon) (tl r)
        else if peek_is r cEQ then ret (TFix FAssignment) (tl r)
        else ret (TFix FColon) r
      else if ch =? 59 then ret (TFix FSemiColon) r
      else if ch =? cBSL then ret (TFix FBackslash) r
      else if ch =? cLBR then ret (TFix FLBracket) r
      else if ch =? cRBR then ret (TFix FRBracket) r
      else if ch =? cAMP then
        if peek_is r cAMP then retp (start_binop [cAMP; cAMP] FOverlap (tl r))
        else retp (start_binop [cAMP] FAmpersand r)
      else if ch =? cCARET then
        if peek_is r cAT then ret (TFix FCaretAt) (tl r) else ret (TFix FCaret) r
      else if ch =? 123 then ret (TFix FLBrace) r
      else if ch =? 125 then ret (TFix FRBrace) r
      else if (ch =? cHASH) && d_sf_or_bq d then line_comment_tok [cHASH] r
      else if ch =? cTILDE then
        if peek_is r cSTAR then retp (consume_for_binop [cTILDE; cSTAR] FTildeAsterisk r)
        else if peek_is r cTILDE then
          if peek_is (tl r) cSTAR then
            retp (consume_for_binop [cTILDE; cTILDE; cSTAR] FDoubleTildeAsterisk (tl r))
          else retp (start_binop [cTILDE; cTILDE] FDoubleTilde (tl r))
        else retp (start_binop [cTILDE] FTilde r)
      else if ch =? cHASH then
        if peek_is r cMINUS then retp (consume_for_binop [cHASH; cMINUS] FHashMinus r)
        else if peek_is r cGT then
          if peek_is (tl r) cGT then retp (consume_for_binop [cHASH; cGT; cGT] FHashLongArrow (tl r))
          else retp (start_binop [cHASH; cGT] FHashArrow (tl r))
        else
          match r with
          | s :: _ =>
              if u_whitespace u s then ret (TFix FSharp) r
              else if d_ident_start d cHASH then retp (ident_or_keyword [ch; s] r)
              else retp (start_binop [cHASH] FSharp r)
          | [] => retp (start_binop [cHASH] FSharp r)
          end
      else if ch =? cAT then
        if peek_is r cGT then ret (TFix FAtArrow) (tl r)
        else if peek_is r cQM then ret (TFix FAtQuestion) (tl r)
        else if peek_is r cAT then
          let r1 := tl r in
          match r1 with
          | t :: _ =>
              if u_whitespace u t then ret (TFix FAtAt) r1
              else if d_ident_start d cAT then retp (ident_or_keyword [ch; cAT; t] r1)
              else ret (TFix FAtAt) r1
          | [] => ret (TFix FAtAt) r1
          end
        else
          match r with
          | s :: _ =>
              if u_whitespace u s then ret (TFix FAtSign) r
              else if d_ident_start d cAT then retp (ident_or_keyword [ch; s] r)
              else ret (TFix FAtSign) r
          | [] => ret (TFix FAtSign) r
          end
      else if (ch =? cQM) && d_pg d then
        if peek_is r cPIPE then ret (TFix FQuestionPipe) (tl r)
        else if peek_is r cAMP then ret (TFix FQuestionAnd) (tl r)
        else ret (TFix FQuestion) r
      else if ch =? cQM then
        let '(s, r') := take_while (u_numeric u) r in ret (TPlaceholder (cQM :: s)) r'
      else if d_ident_start d ch then retp (ident_or_keyword [ch] l)
      else if ch =? cDOLLAR then lift (dollar_value l) (fun x => retp x)
      else if u_whitespace u ch then ret (TWs WSpace) r
      else ret (TChar ch) r
    end.

  (** ** [tokenize_with_location]: tokens with the location of their first character, and on
      failure the error with its location. *)
  Definition consumed_len (l r : str) : nat := (length l - length r)%nat.

  Inductive lexout :=
  | LexOk (ts : list (tok * loc))
  | LexErr (e : lexerr) (at_ : loc) (before : list (tok * loc))
  | LexPanic (why : N).

  Fixpoint tokenize_from (fuel : nat) (p : loc) (l : str) : lexout :=
    match fuel with
    | O => LexPanic 3
    | S f =>
        match next_token l with
        | Ok None => LexOk []
        | Ok (Some (t, r)) =>
            let p' := advance p (firstn (consumed_len l r) l) in
            match tokenize_from f p' r with
            | LexOk ts => LexOk ((t, p) :: ts)
            | LexErr e a ts => LexErr e a ((t, p) :: ts)
            | LexPanic w => LexPanic w
            end
        | Err e a => LexErr e (advance p (firstn (consumed_len l a) l)) []
        | Panic w => LexPanic w
        end
    end.

  Definition tokenize (s : str) : lexout := tokenize_from (S (length s)) (1, 1) s.
End Lex.
