(** Model of [core::slice::binary_search] (rustc 1.95 library/core/src/slice/mod.rs,
    [binary_search_by]) specialised to [&str] keys compared with [Ord for str], and its
    specification on strictly sorted tables. *)
Require Import SqlV.Base.
From Coq Require Import ZArith ZifyBool ZifyN ZifyNat Arith.
Ltac Zify.zify_post_hook ::= Z.div_mod_to_equations.
Local Open Scope nat_scope.

Definition nth_s (l : list str) (i : nat) : str := nth i l [].

(** The [while size > 1] loop; [fuel] bounds the iterations (size at least halves each time;
    [length l] is always enough, see [bs_loop_fuel_irrelevant] below for the stated use). *)
Fixpoint bs_loop (fuel : nat) (l : list str) (x : str) (base size : nat) : nat :=
  match fuel with
  | O => base
  | S f =>
      if size <=? 1 then base
      else
        let half := size / 2 in
        let mid := base + half in
        let base' := match str_cmp (nth_s l mid) x with Gt => base | _ => mid end in
        bs_loop f l x base' (size - half)
  end.

(** [Ok i] is [Some i]; [Err _] is [None] (the insertion point is not used by the callers we
    model). *)
Definition bsearch (l : list str) (x : str) : option nat :=
  match l with
  | [] => None
  | _ =>
      let base := bs_loop (length l) l x 0 (length l) in
      match str_cmp (nth_s l base) x with Eq => Some base | _ => None end
  end.

(** Strict sortedness, as a boolean checker (evaluated on generated tables) and as a Prop. *)
Fixpoint sortedb (l : list str) : bool :=
  match l with
  | a :: (b :: _) as t => match str_cmp a b with Lt => sortedb t | _ => false end
  | _ => true
  end.

Definition Sorted_lt (l : list str) : Prop :=
  forall i j, i < j -> j < length l -> str_cmp (nth_s l i) (nth_s l j) = Lt.

Lemma sortedb_adj l : sortedb l = true ->
  forall i, S i < length l -> str_cmp (nth_s l i) (nth_s l (S i)) = Lt.
Proof.
  induction l as [|a l IH]; intros H i Hi; [cbn in Hi; lia|].
  destruct l as [|b l]; [cbn in Hi; lia|].
  cbn [sortedb] in H. destruct (str_cmp a b) eqn:E; try discriminate.
  destruct i as [|i]; [exact E|].
  unfold nth_s in *. cbn [nth]. apply (IH H i). cbn [length] in *. lia.
Qed.

Lemma sortedb_sorted l : sortedb l = true -> Sorted_lt l.
Proof.
  intros H i j Hij Hj. induction j as [|j IHj]; [lia|].
  destruct (Nat.eq_dec i j) as [->|Hne].
  - apply sortedb_adj; assumption.
  - apply str_cmp_lt_trans with (nth_s l j).
    + apply IHj; lia.
    + apply sortedb_adj; assumption.
Qed.

(** Loop invariant on a strictly sorted table. *)
Lemma bs_loop_inv l x : Sorted_lt l ->
  forall fuel base size,
    1 <= size -> base + size <= length l -> size <= fuel + 1 ->
    (forall i, i < base -> str_cmp (nth_s l i) x = Lt) ->
    (forall i, base + size <= i -> i < length l -> str_cmp (nth_s l i) x = Gt) ->
    let b := bs_loop fuel l x base size in
    b < length l /\
    (forall i, i < b -> str_cmp (nth_s l i) x = Lt) /\
    (forall i, b < i -> i < length l -> str_cmp (nth_s l i) x = Gt).
Proof.
  intros Hs fuel. induction fuel as [|f IH]; intros base size H1 Hlen Hf Hlo Hhi.
  - cbn [bs_loop]. assert (size = 1) by lia. subst. repeat split; try lia; auto.
    intros i Hb Hi. apply Hhi; lia.
  - cbn [bs_loop]. destruct (Nat.leb_spec size 1) as [Hle|Hgt].
    + assert (size = 1) by lia. subst. repeat split; try lia; auto.
      intros i Hb Hi. apply Hhi; lia.
    + cbv zeta.
      assert (Hhalf : 1 <= size / 2 /\ size / 2 <= size - size / 2 /\ size / 2 < size) by lia.
      destruct (str_cmp (nth_s l (base + size / 2)) x) eqn:E.
      * (* Eq: base := mid *)
        apply IH; try lia.
        -- intros i Hi. apply str_cmp_eq in E. rewrite <- E. apply Hs; lia.
        -- intros i Hi Hi'. apply Hhi; lia.
      * apply IH; try lia.
        -- intros i Hi. apply str_cmp_lt_trans with (nth_s l (base + size / 2)); [|exact E].
           apply Hs; lia.
        -- intros i Hi Hi'. apply Hhi; lia.
      * apply IH; try lia.
        -- exact Hlo.
        -- intros i Hi Hi'.
           destruct (Nat.eq_dec i (base + size / 2)) as [->|Hne]; [exact E|].
           destruct (Nat.lt_ge_cases i (base + size)) as [Hlt|Hge]; [|apply Hhi; lia].
           (* mid < i < base+size : above mid, hence greater than l[mid] > x *)
           assert (Hm : str_cmp (nth_s l (base + size / 2)) (nth_s l i) = Lt) by (apply Hs; lia).
           rewrite str_cmp_antisym in E |- *.
           rewrite str_cmp_antisym in Hm.
           destruct (str_cmp x (nth_s l (base + size / 2))) eqn:E1; try discriminate.
           destruct (str_cmp (nth_s l i) (nth_s l (base + size / 2))) eqn:E2; try discriminate.
           rewrite (str_cmp_lt_trans _ _ _ E1).
           ++ reflexivity.
           ++ rewrite str_cmp_antisym, E2. reflexivity.
Qed.

Lemma bs_loop_lt l x : forall fuel base size, base + size <= length l -> 1 <= size ->
  bs_loop fuel l x base size < length l.
Proof.
  induction fuel as [|f IH]; intros base size Hl H1; cbn [bs_loop]; [lia|].
  destruct (Nat.leb_spec size 1); [lia|]. cbv zeta.
  destruct (str_cmp _ _); apply IH; lia.
Qed.

(** Soundness needs no sortedness: a reported index always holds the key. *)
Theorem bsearch_sound l x i : bsearch l x = Some i -> nth_error l i = Some x.
Proof.
  unfold bsearch. destruct l as [|a l']; [discriminate|].
  remember (a :: l') as l eqn:El.
  assert (Hlen : 1 <= length l) by (subst l; cbn [length]; lia).
  pose proof (bs_loop_lt l x (length l) 0 (length l) ltac:(lia) Hlen) as Hb.
  set (b := bs_loop _ _ _ _ _) in *.
  destruct (str_cmp (nth_s l b) x) eqn:E; try discriminate.
  intros [= <-]. apply str_cmp_eq in E.
  rewrite <- E. unfold nth_s. apply nth_error_nth'. exact Hb.
Qed.

(** Completeness on strictly sorted tables. *)
Theorem bsearch_complete l x : Sorted_lt l -> In x l -> exists i, bsearch l x = Some i.
Proof.
  intros Hs Hin. apply In_nth with (d := []) in Hin as (k & Hk & Hx).
  unfold bsearch. destruct l as [|a l']; [cbn in Hk; lia|].
  remember (a :: l') as l eqn:El.
  assert (Hlen : 1 <= length l) by lia.
  destruct (bs_loop_inv l x Hs (length l) 0 (length l)) as (Hb & Hlo & Hhi);
    try lia.
  set (b := bs_loop _ _ _ _ _) in *.
  assert (k = b).
  { destruct (Nat.lt_trichotomy k b) as [Hlt|[->|Hgt]]; [|reflexivity|].
    - specialize (Hlo k Hlt). unfold nth_s in Hlo. rewrite Hx in Hlo.
      assert (str_cmp x x = Eq) by (apply str_cmp_eq; reflexivity). congruence.
    - specialize (Hhi k Hgt Hk). unfold nth_s in Hhi. rewrite Hx in Hhi.
      assert (str_cmp x x = Eq) by (apply str_cmp_eq; reflexivity). congruence. }
  subst k. unfold nth_s. rewrite Hx.
  assert (E : str_cmp x x = Eq) by (apply str_cmp_eq; reflexivity). rewrite E. eauto.
Qed.

Lemma Sorted_lt_inj l i j : Sorted_lt l -> i < length l -> j < length l ->
  nth_s l i = nth_s l j -> i = j.
Proof.
  intros Hs Hi Hj E. destruct (Nat.lt_trichotomy i j) as [H|[H|H]]; [|assumption|].
  - specialize (Hs i j H Hj). rewrite E in Hs.
    assert (str_cmp (nth_s l j) (nth_s l j) = Eq) by (apply str_cmp_eq; reflexivity). congruence.
  - specialize (Hs j i H Hi). rewrite E in Hs.
    assert (str_cmp (nth_s l j) (nth_s l j) = Eq) by (apply str_cmp_eq; reflexivity). congruence.
Qed.

(** The specification used by the keyword theorems. *)
Theorem bsearch_spec l x : Sorted_lt l ->
  (forall i, bsearch l x = Some i <-> nth_error l i = Some x) /\
  (bsearch l x = None <-> ~ In x l).
Proof.
  intro Hs. split.
  - intro i. split; [apply bsearch_sound|].
    intro Hn. assert (Hin : In x l) by (eapply nth_error_In; eauto).
    destruct (bsearch_complete l x Hs Hin) as (j & Hj). rewrite Hj. f_equal.
    pose proof (bsearch_sound _ _ _ Hj) as Hj'.
    assert (j < length l) by (apply nth_error_Some; congruence).
    assert (i < length l) by (apply nth_error_Some; congruence).
    apply (Sorted_lt_inj l); auto. unfold nth_s.
    rewrite (nth_error_nth _ _ _ Hj'), (nth_error_nth _ _ _ Hn). reflexivity.
  - split.
    + intros Hn Hin. destruct (bsearch_complete l x Hs Hin) as (j & Hj). congruence.
    + intro Hni. destruct (bsearch l x) as [i|] eqn:E; [|reflexivity].
      exfalso. apply Hni. eapply nth_error_In. eapply bsearch_sound; eauto.
Qed.
