(** MachineRel.v — the two-run logic with VALUE relations: the runs may start in different
    states (even over different token vectors) and under different dialect records; results
    are related by a relation on values, errors by a relation on errors.

    [Rel RA p p']: from related dialects and related states, [p] and [p'] end in related states
    with outcomes of the same kind whose payloads are related.  Closure lemmas for every
    combinator of the interface are proved ONCE, from a handful of facts about the cursor
    primitives ([Facts]); the instances (R_loc/R_dial in Routes.v, R_ws in WsInvariance.v) only
    establish those facts.  [IfaceR] is the family of all PAIRS of programs built the same way
    from the interface with related continuations (HOAS bind); [ifaceR_sound] says each such
    pair is related.  [denote_rel]: every program of the first-order closure language is related
    to itself. *)
Require Import SqlV.Base SqlV.Machine.
From Coq Require Import Arith.

(** * Relations on values *)
Definition tok_sim (t t' : twl) : Prop := tok t = tok t'.           (* equal up to location *)

Definition msg_sim (m m' : str) : Prop :=
  exists base l c l' c', m = base ++ show_loc l c /\ m' = base ++ show_loc l' c'.
(** errors equal up to the position text *)
Definition err_sim (e e' : err) : Prop :=
  match e, e' with
  | Syntax m, Syntax m' => msg_sim m m'
  | Lex m, Lex m' => m = m'
  | Limit, Limit => True
  | _, _ => False
  end.

Lemma msg_sim_refl m : msg_sim m m.
Proof. exists m, 0, 0, 0, 0. cbn. rewrite app_nil_r. auto. Qed.
Lemma err_sim_refl e : err_sim e e.
Proof. destruct e; cbn; auto. apply msg_sim_refl. Qed.
Lemma err_sim_limit e e' : err_sim e e' -> (e = Limit <-> e' = Limit).
Proof. destruct e, e'; cbn; intro H; try contradiction; split; intro; congruence. Qed.
Lemma expected_sim what t t' : tok_sim t t' -> err_sim (Syntax (expected_msg what t)) (Syntax (expected_msg what t')).
Proof.
  intro H. cbn. unfold expected_msg. rewrite H.
  exists (s2l "Expected: " ++ what ++ s2l ", found: " ++ show_token (tok t')), (line t), (col t), (line t'), (col t').
  rewrite <- !app_assoc. auto.
Qed.

(** ** Observations of a token that do not look at the spelling of a keyword *)
(** an unquoted word that is a keyword *)
Definition kw_word (t : token) : bool :=
  match t with TWord _ None k => negb (str_eqb k no_keyword) | _ => false end.
(** a token one may compare the cursor token with ([Token]'s [==]) without observing the
    spelling of a keyword occurrence: anything but an unquoted keyword word *)
Definition cmp_safe (e : token) : bool := negb (kw_word e).
(** equal tokens, or two spellings (equal up to ASCII case) of the same unquoted keyword *)
Definition token_recase (a b : token) : Prop :=
  a = b \/ exists v v' k, a = TWord v None k /\ b = TWord v' None k /\ str_eqb k no_keyword = false /\ ascii_ci_eq v v'.

Lemma token_recase_refl a : token_recase a a.
Proof. left. reflexivity. Qed.
Lemma recase_kw_of a b : token_recase a b -> kw_of a = kw_of b.
Proof. intros [->|(v & v' & k & -> & -> & _)]; reflexivity. Qed.
Lemma recase_is_term r a b : token_recase a b -> is_term r a = is_term r b.
Proof. intros [->|(v & v' & k & -> & -> & _)]; reflexivity. Qed.
Lemma recase_is_actions_term a b : token_recase a b -> is_actions_term a = is_actions_term b.
Proof. intros [->|(v & v' & k & -> & -> & _)]; reflexivity. Qed.
Lemma recase_cmp e a b : cmp_safe e = true -> token_recase a b -> token_eqb a e = token_eqb b e.
Proof.
  intros He [->|(v & v' & k & -> & -> & Hk & _)]; [reflexivity|].
  destruct e as [| |ve qe ke| | |]; cbn [token_eqb]; try reflexivity.
  destruct qe as [q|]; cbn [optN_eqb]; [rewrite !andb_false_r; reflexivity|].
  unfold cmp_safe, kw_word in He. apply negb_true_iff, negb_false_iff in He. apply str_eqb_eq in He. subst ke.
  rewrite Hk, !andb_false_r. reflexivity.
Qed.
Lemma recase_is_ws a b : token_recase a b -> (match a with TWs _ => true | _ => false end) = (match b with TWs _ => true | _ => false end).
Proof. intros [->|(v & v' & k & -> & -> & _)]; reflexivity. Qed.
(** a [match] that only separates EOF / words (by keyword) / the rest *)
Lemma recase_match_eof {X} a b (x y : X) : token_recase a b ->
  match a with TEOF => x | _ => y end = match b with TEOF => x | _ => y end.
Proof. intros [->|(v & v' & k & -> & -> & _)]; reflexivity. Qed.

Definition opt_rel {A} (R : A -> A -> Prop) (o o' : option A) : Prop :=
  match o, o' with Some a, Some a' => R a a' | None, None => True | _, _ => False end.

(** values of the closure language, up to a token relation *)
Inductive val_rel (Rt : twl -> twl -> Prop) : val -> val -> Prop :=
| VR_unit : val_rel Rt VUnit VUnit
| VR_bool b : val_rel Rt (VBool b) (VBool b)
| VR_tok t t' : Rt t t' -> val_rel Rt (VTok t) (VTok t')
| VR_none : val_rel Rt (VOpt None) (VOpt None)
| VR_some v v' : val_rel Rt v v' -> val_rel Rt (VOpt (Some v)) (VOpt (Some v'))
| VR_list l l' : Forall2 (val_rel Rt) l l' -> val_rel Rt (VList l) (VList l')
| VR_kw k : val_rel Rt (VKw k) (VKw k).

Lemma val_rel_truthy Rt v v' : val_rel Rt v v' -> truthy v = truthy v'.
Proof. destruct 1; reflexivity. Qed.

Section Rel.
  Variable Rd : dial -> dial -> Prop.
  Variable Rs : mstate -> mstate -> Prop.
  Variable Re : err -> err -> Prop.

  Definition Ro {A} (RA : A -> A -> Prop) (o o' : outcome A) : Prop :=
    match o, o' with
    | Ok a, Ok a' => RA a a'
    | Err e, Err e' => Re e e'
    | Panic, Panic => True
    | Diverge, Diverge => True
    | _, _ => False
    end.
  Definition Rel {A} (RA : A -> A -> Prop) (p p' : M A) : Prop :=
    forall d d' s s', Rd d d' -> Rs s s' ->
      Ro RA (fst (p d s)) (fst (p' d' s')) /\ Rs (snd (p d s)) (snd (p' d' s')).

  Lemma rel_ret A (RA : A -> A -> Prop) a a' : RA a a' -> Rel RA (ret a) (ret a').
  Proof. intros H d d' s s' Hd Hs. cbn. auto. Qed.
  Lemma rel_fail A (RA : A -> A -> Prop) e e' : Re e e' -> Rel RA (fail e) (fail e').
  Proof. intros H d d' s s' Hd Hs. cbn. auto. Qed.
  Lemma rel_diverge A (RA : A -> A -> Prop) : Rel RA diverge diverge.
  Proof. intros d d' s s' Hd Hs. cbn. auto. Qed.
  Lemma rel_conseq A (RA RB : A -> A -> Prop) p p' :
    (forall a a', RA a a' -> RB a a') -> Rel RA p p' -> Rel RB p p'.
  Proof.
    intros H Hp d d' s s' Hd Hs. destruct (Hp d d' s s' Hd Hs) as [Ho Hs']. split; auto.
    destruct (fst (p d s)), (fst (p' d' s')); cbn in *; auto.
  Qed.

  Lemma rel_bind A B (RA : A -> A -> Prop) (RB : B -> B -> Prop) p p' k k' :
    Rel RA p p' -> (forall a a', RA a a' -> Rel RB (k a) (k' a')) -> Rel RB (bind p k) (bind p' k').
  Proof.
    intros Hp Hk d d' s s' Hd Hs. unfold bind. destruct (Hp d d' s s' Hd Hs) as [Ho Hs'].
    destruct (p d s) as [o t], (p' d' s') as [o' t']. cbn [fst snd] in *.
    destruct o, o'; cbn in Ho; try contradiction; cbn; auto.
    apply Hk; assumption.
  Qed.
  Lemma rel_bind_unit A B (RA : A -> A -> Prop) (RB : B -> B -> Prop) p p' (q q' : M B) :
    Rel RA p p' -> Rel RB q q' -> Rel RB (bind p (fun _ => q)) (bind p' (fun _ => q')).
  Proof. intros. eapply rel_bind; eauto. Qed.

  Lemma rel_if A (RA : A -> A -> Prop) (b : bool) p p' q q' :
    Rel RA p p' -> Rel RA q q' -> Rel RA (if b then p else q) (if b then p' else q').
  Proof. destruct b; auto. Qed.

  Lemma rel_mfix X A (RX : X -> X -> Prop) (RA : A -> A -> Prop) (F F' : (X -> M A) -> X -> M A) :
    (forall rec rec', (forall x x', RX x x' -> Rel RA (rec x) (rec' x')) ->
                      forall x x', RX x x' -> Rel RA (F rec x) (F' rec' x')) ->
    forall n x x', RX x x' -> Rel RA (mfix F n x) (mfix F' n x').
  Proof.
    intros H n. induction n as [|n IH]; intros x x' Hx; cbn [mfix].
    - apply rel_diverge.
    - apply H; assumption.
  Qed.

  (** * What an instance has to establish about the primitives *)
  Variable Rt : twl -> twl -> Prop.       (* tokens returned by the cursor *)
  Variable Ri : nat -> nat -> Prop.       (* saved indices *)
  Variable cmp_ok : token -> bool.        (* tokens the cursor token may be compared with *)

  Record Facts : Prop := {
    f_obs : forall t t', Rt t t' -> token_recase (tok t) (tok t');
    f_cmp : forall e t t', cmp_ok e = true -> Rt t t' -> token_eqb (tok t) e = token_eqb (tok t') e;
    f_cmp_punct : forall p, cmp_ok (TP p) = true;
    f_peek : forall n, Rel Rt (peek_nth_token n) (peek_nth_token n);
    f_next : Rel Rt next_token next_token;
    f_prev : Rel eq prev_token prev_token;
    f_get_idx : Rel Ri get_idx get_idx;
    f_put_idx : forall i i', Ri i i' -> Rel eq (put_idx i) (put_idx i');
    f_restore : forall s s' t t', Rs s s' -> Rs t t' -> Rs (set_idx (idx s) t) (set_idx (idx s') t');
    f_tc : forall s s', Rs s s' -> tc s = tc s';
    f_pst : forall s s', Rs s s' -> pst s = pst s';
    f_depth : forall s s', Rs s s' -> depth s = depth s';
    f_set_tc : forall s s' b, Rs s s' -> Rs (set_tc b s) (set_tc b s');
    f_set_pst : forall s s' p, Rs s s' -> Rs (set_pst p s) (set_pst p s');
    f_set_depth : forall s s' n, Rs s s' -> Rs (set_depth n s) (set_depth n s');
    f_reserved : forall d d', Rd d d' -> d_reserved d = d_reserved d';
    f_proj_tc : forall d d', Rd d d' -> d_proj_tc d = d_proj_tc d';
    f_id : forall d d', Rd d d' -> d_id d = d_id d';
    f_flag : forall d d' n, Rd d d' -> d_flag d n = d_flag d' n;
    f_err_refl : forall e, Re e e;
    f_err_limit : forall e e', Re e e' -> (e = Limit <-> e' = Limit);
    f_expected : forall what t t', Rt t t' -> Re (Syntax (expected_msg what t)) (Syntax (expected_msg what t'))
  }.
  Hypothesis F : Facts.

  Lemma rel_peek : Rel Rt peek_token peek_token.
  Proof. apply (f_peek F). Qed.
  Lemma rel_get_tc : Rel eq get_tc get_tc.
  Proof. intros d d' s s' Hd Hs. cbn. split; auto. apply (f_tc F); assumption. Qed.
  Lemma rel_ask_reserved : Rel eq ask_reserved ask_reserved.
  Proof. intros d d' s s' Hd Hs. cbn. split; auto. apply (f_reserved F); assumption. Qed.
  Lemma rel_dialect_is ids : Rel eq (dialect_is ids) (dialect_is ids).
  Proof. intros d d' s s' Hd Hs. cbn. split; auto. rewrite (f_id F d d' Hd). reflexivity. Qed.
  Lemma rel_ask_flag n : Rel eq (ask_flag n) (ask_flag n).
  Proof. intros d d' s s' Hd Hs. cbn. split; auto. apply (f_flag F); assumption. Qed.
  Lemma rel_expected A (RA : A -> A -> Prop) what t t' : Rt t t' -> Rel RA (expected what t) (expected what t').
  Proof. intro H. apply rel_fail. apply (f_expected F). exact H. Qed.

  Lemma is_kw_sim k t t' : Rt t t' -> is_kw k t = is_kw k t'.
  Proof. intro H. unfold is_kw. destruct (f_obs F t t' H) as [->|(v & v' & k0 & -> & -> & _)]; reflexivity. Qed.
  Lemma is_term_sim r t t' : Rt t t' -> is_term r (tok t) = is_term r (tok t').
  Proof. intro H. apply recase_is_term. apply (f_obs F). exact H. Qed.

  Lemma rel_parse_keyword k : Rel eq (parse_keyword k) (parse_keyword k).
  Proof.
    unfold parse_keyword. eapply rel_bind; [apply rel_peek|]. intros t t' Ht.
    rewrite (is_kw_sim k t t' Ht). apply rel_if; [|apply rel_ret; reflexivity].
    eapply rel_bind_unit; [apply (f_next F)|apply rel_ret; reflexivity].
  Qed.
  Lemma rel_parse_keywords_from ks i i' : Ri i i' -> Rel eq (parse_keywords_from ks i) (parse_keywords_from ks i').
  Proof.
    intro Hi. induction ks as [|k r IH]; cbn [parse_keywords_from]; [apply rel_ret; reflexivity|].
    eapply rel_bind; [apply rel_parse_keyword|]. intros b b' <-. destruct b; [exact IH|].
    eapply rel_bind_unit; [apply (f_put_idx F); exact Hi|apply rel_ret; reflexivity].
  Qed.
  Lemma rel_parse_keywords ks : Rel eq (parse_keywords ks) (parse_keywords ks).
  Proof. unfold parse_keywords. eapply rel_bind; [apply (f_get_idx F)|]. intros. apply rel_parse_keywords_from. assumption. Qed.
  Lemma rel_one_of ks : Rel eq (parse_one_of_keywords ks) (parse_one_of_keywords ks).
  Proof.
    unfold parse_one_of_keywords. eapply rel_bind; [apply rel_peek|]. intros t t' Ht.
    assert (G : forall k', Rel eq (match find (fun k => str_eqb k k') ks with Some k => next_token ;;; ret (Some k) | None => ret None end)
                               (match find (fun k => str_eqb k k') ks with Some k => next_token ;;; ret (Some k) | None => ret None end)).
    { intro k'. destruct (find _ ks); [|apply rel_ret; reflexivity].
      eapply rel_bind_unit; [apply (f_next F)|apply rel_ret; reflexivity]. }
    destruct (f_obs F t t' Ht) as [->|(v & v' & k0 & -> & -> & _)]; [|apply G].
    destruct (tok t'); try (apply rel_ret; reflexivity). apply G.
  Qed.
  Lemma rel_expect_keyword k : Rel eq (expect_keyword k) (expect_keyword k).
  Proof.
    unfold expect_keyword. eapply rel_bind; [apply rel_parse_keyword|]. intros b b' <-.
    destruct b; [apply rel_ret; reflexivity|]. eapply rel_bind; [apply rel_peek|]. intros. apply rel_expected. assumption.
  Qed.
  Lemma rel_expect_keywords ks : Rel eq (expect_keywords ks) (expect_keywords ks).
  Proof.
    induction ks; cbn [expect_keywords]; [apply rel_ret; reflexivity|].
    eapply rel_bind_unit; [apply rel_expect_keyword|exact IHks].
  Qed.
  Lemma rel_consume_token e : cmp_ok e = true -> Rel eq (consume_token e) (consume_token e).
  Proof.
    intro He. unfold consume_token. eapply rel_bind; [apply rel_peek|]. intros t t' Ht.
    rewrite (f_cmp F e t t' He Ht). apply rel_if; [|apply rel_ret; reflexivity].
    eapply rel_bind_unit; [apply (f_next F)|apply rel_ret; reflexivity].
  Qed.
  Lemma rel_consume_tokens_from ts i i' : forallb cmp_ok ts = true -> Ri i i' -> Rel eq (consume_tokens_from ts i) (consume_tokens_from ts i').
  Proof.
    intros Hts Hi. induction ts as [|t r IH]; cbn [consume_tokens_from]; [apply rel_ret; reflexivity|].
    cbn [forallb] in Hts. apply andb_true_iff in Hts as [Ht Hr].
    eapply rel_bind; [apply rel_consume_token; exact Ht|]. intros b b' <-. destruct b; [apply IH; exact Hr|].
    eapply rel_bind_unit; [apply (f_put_idx F); exact Hi|apply rel_ret; reflexivity].
  Qed.
  Lemma rel_consume_tokens ts : forallb cmp_ok ts = true -> Rel eq (consume_tokens ts) (consume_tokens ts).
  Proof. intro H. unfold consume_tokens. eapply rel_bind; [apply (f_get_idx F)|]. intros. apply rel_consume_tokens_from; assumption. Qed.
  Lemma rel_expect_token e : cmp_ok e = true -> Rel eq (expect_token e) (expect_token e).
  Proof.
    intro He. unfold expect_token. eapply rel_bind; [apply rel_consume_token; exact He|]. intros b b' <-.
    destruct b; [apply rel_ret; reflexivity|]. eapply rel_bind; [apply rel_peek|]. intros. apply rel_expected. assumption.
  Qed.
  Lemma rel_peek_two a b : cmp_ok a = true -> cmp_ok b = true -> Rel eq (peek_two_are a b) (peek_two_are a b).
  Proof.
    intros Ha Hb. unfold peek_two_are. eapply rel_bind; [apply (f_peek F)|]. intros x x' Hx.
    eapply rel_bind; [apply (f_peek F)|]. intros y y' Hy.
    rewrite (f_cmp F a _ _ Ha Hx), (f_cmp F b _ _ Hb Hy). apply rel_ret. reflexivity.
  Qed.

  (** Speculation: no side condition here — both runs see errors of the same kind. *)
  Lemma rel_maybe A (RA : A -> A -> Prop) rr f f' :
    Rel RA f f' -> Rel (opt_rel RA) (maybe_with rr f) (maybe_with rr f').
  Proof.
    intros Hf d d' s s' Hd Hs. unfold maybe_with. destruct (Hf d d' s s' Hd Hs) as [Ho Hs'].
    destruct (f d s) as [o t], (f' d' s') as [o' t']. cbn [fst snd] in *.
    destruct o as [a|e| |], o' as [a'|e'| |]; cbn in Ho; try contradiction; cbn; auto.
    pose proof (f_err_limit F e e' Ho) as Hl.
    destruct e, e'; cbn; try (split; [exact I|apply (f_restore F); assumption]);
      try (exfalso; destruct Hl as [H1 H2]; (discriminate (H1 eq_refl) || discriminate (H2 eq_refl)); fail).
    destruct rr; cbn; [split; [exact Ho|exact Hs']|split; [exact I|apply (f_restore F); assumption]].
  Qed.

  Lemma rel_guard A (RA : A -> A -> Prop) p p' : Rel RA p p' -> Rel RA (guard p) (guard p').
  Proof.
    intros Hp d d' s s' Hd Hs. unfold guard. rewrite <- (f_depth F s s' Hs).
    destruct (depth s) as [|n]; cbn; [split; [apply (f_err_refl F)|exact Hs]|].
    destruct (Hp d d' _ _ Hd (f_set_depth F s s' n Hs)) as [Ho Hs'].
    destruct (p d (set_depth n s)) as [o t], (p' d' (set_depth n s')) as [o' t']. cbn [fst snd] in *.
    split; [exact Ho|]. rewrite <- (f_depth F t t' Hs'). apply (f_set_depth F). exact Hs'.
  Qed.
  Lemma rel_with_state A (RA : A -> A -> Prop) st f f' : Rel RA f f' -> Rel RA (with_state st f) (with_state st f').
  Proof.
    intros Hf d d' s s' Hd Hs. unfold with_state.
    destruct (Hf d d' _ _ Hd (f_set_pst F s s' st Hs)) as [Ho Hs'].
    destruct (f d (set_pst st s)) as [o t], (f' d' (set_pst st s')) as [o' t']. cbn [fst snd] in *.
    rewrite <- (f_pst F s s' Hs).
    destruct o, o'; cbn in Ho; try contradiction; cbn; (split; [exact Ho|]); try apply (f_set_pst F); exact Hs'.
  Qed.
  Lemma rel_with_projection_tc A (RA : A -> A -> Prop) f f' :
    Rel RA f f' -> Rel RA (with_projection_tc f) (with_projection_tc f').
  Proof.
    intros Hf d d' s s' Hd Hs. unfold with_projection_tc.
    rewrite <- (f_tc F s s' Hs), <- (f_proj_tc F d d' Hd).
    destruct (Hf d d' _ _ Hd (f_set_tc F s s' (tc s || d_proj_tc d) Hs)) as [Ho Hs'].
    destruct (f d (set_tc (tc s || d_proj_tc d) s)) as [o t], (f' d' (set_tc (tc s || d_proj_tc d) s')) as [o' t'].
    cbn [fst snd] in *.
    destruct o, o'; cbn in Ho; try contradiction; cbn; (split; [exact Ho|]); try apply (f_set_tc F); exact Hs'.
  Qed.

  Lemma rel_is_end : Rel eq is_end is_end.
  Proof.
    unfold is_end. eapply rel_bind; [apply rel_consume_token; apply (f_cmp_punct F)|]. intros c c' <-.
    destruct c; cbn [negb]; [|apply rel_ret; reflexivity].
    eapply rel_bind; [apply rel_get_tc|]. intros b b' <-. destruct b; [|apply rel_ret; reflexivity].
    eapply rel_bind; [apply rel_peek|]. intros t t' Ht.
    eapply rel_bind; [apply rel_ask_reserved|]. intros r r' <-.
    rewrite (is_term_sim r t t' Ht). apply rel_ret. reflexivity.
  Qed.
  Lemma rel_comma_sep A (RA : A -> A -> Prop) n f f' :
    Rel RA f f' -> Rel (Forall2 RA) (comma_sep n f) (comma_sep n f').
  Proof.
    intro Hf. induction n as [|n IH]; cbn [comma_sep]; [apply rel_diverge|].
    eapply rel_bind; [exact Hf|]. intros x x' Hx.
    eapply rel_bind; [apply rel_is_end|]. intros e e' <-.
    destruct e; [apply rel_ret; auto|].
    eapply rel_bind; [exact IH|]. intros xs xs' Hxs. apply rel_ret. auto.
  Qed.
  Lemma rel_comma_sep0 A (RA : A -> A -> Prop) n f f' t :
    cmp_ok t = true -> Rel RA f f' -> Rel (Forall2 RA) (comma_sep0 n f t) (comma_sep0 n f' t).
  Proof.
    intros Hc Hf. unfold comma_sep0. eapply rel_bind; [apply rel_peek|]. intros t0 t0' Ht.
    rewrite (f_cmp F t _ _ Hc Ht). destruct (token_eqb _ _); [apply rel_ret; auto|].
    eapply rel_bind; [apply rel_get_tc|]. intros b b' <-.
    eapply rel_bind; [apply rel_peek_two; [apply (f_cmp_punct F)|exact Hc]|]. intros two two' <-.
    destruct (b && two).
    - eapply rel_bind_unit; [apply rel_consume_token; apply (f_cmp_punct F)|apply rel_ret; auto].
    - apply rel_comma_sep. exact Hf.
  Qed.
  Lemma rel_kw_sep A (RA : A -> A -> Prop) n k f f' :
    Rel RA f f' -> Rel (Forall2 RA) (kw_sep n k f) (kw_sep n k f').
  Proof.
    intro Hf. induction n as [|n IH]; cbn [kw_sep]; [apply rel_diverge|].
    eapply rel_bind; [exact Hf|]. intros x x' Hx.
    eapply rel_bind; [apply rel_parse_keyword|]. intros b b' <-.
    destruct b; [|apply rel_ret; auto].
    eapply rel_bind; [exact IH|]. intros xs xs' Hxs. apply rel_ret. auto.
  Qed.
  Lemma rel_parenthesized A (RA : A -> A -> Prop) f f' : Rel RA f f' -> Rel RA (parenthesized f) (parenthesized f').
  Proof.
    intro Hf. unfold parenthesized. eapply rel_bind_unit; [apply rel_expect_token; apply (f_cmp_punct F)|].
    eapply rel_bind; [exact Hf|]. intros r r' Hr.
    eapply rel_bind_unit; [apply rel_expect_token; apply (f_cmp_punct F)|apply rel_ret; exact Hr].
  Qed.
  Lemma rel_actions_list A (RA : A -> A -> Prop) n f f' :
    Rel RA f f' -> Rel (Forall2 RA) (actions_list n f) (actions_list n f').
  Proof.
    intro Hf. induction n as [|n IH]; cbn [actions_list]; [apply rel_diverge|].
    eapply rel_bind; [exact Hf|]. intros x x' Hx.
    eapply rel_bind; [apply rel_consume_token; apply (f_cmp_punct F)|]. intros c c' <-.
    destruct c; cbn [negb]; [|apply rel_ret; auto].
    eapply rel_bind; [apply rel_get_tc|]. intros b b' <-. destruct b.
    - eapply rel_bind; [apply rel_peek|]. intros t t' Ht. rewrite (recase_is_actions_term _ _ (f_obs F _ _ Ht)).
      destruct (is_actions_term _); [apply rel_ret; auto|].
      eapply rel_bind; [exact IH|]. intros xs xs' Hxs. apply rel_ret. auto.
    - eapply rel_bind; [exact IH|]. intros xs xs' Hxs. apply rel_ret. auto.
  Qed.
  Lemma rel_with_tc_to A (RA : A -> A -> Prop) v f f' :
    Rel RA f f' -> Rel RA (with_tc_to v f) (with_tc_to v f').
  Proof.
    intros Hf d d' s s' Hd Hs. unfold with_tc_to.
    rewrite <- (f_tc F s s' Hs).
    destruct (Hf d d' _ _ Hd (f_set_tc F s s' v Hs)) as [Ho Hs'].
    destruct (f d (set_tc v s)) as [o t], (f' d' (set_tc v s')) as [o' t'].
    cbn [fst snd] in *.
    destruct o, o'; cbn in Ho; try contradiction; cbn; (split; [exact Ho|]); try apply (f_set_tc F); exact Hs'.
  Qed.
  Lemma rel_projection A (RA : A -> A -> Prop) n f f' :
    Rel RA f f' -> Rel (Forall2 RA) (projection n f) (projection n f').
  Proof.
    intros Hf d d' s s' Hd Hs. unfold projection. rewrite <- (f_tc F s s' Hs).
    apply (rel_with_projection_tc _ _ (comma_sep n (with_tc_to (tc s) f)) (comma_sep n (with_tc_to (tc s) f'))); [|exact Hd|exact Hs].
    apply rel_comma_sep. apply rel_with_tc_to. exact Hf.
  Qed.

  Lemma rel_skip_semis n : Rel eq (skip_semis n) (skip_semis n).
  Proof.
    induction n as [|n IH]; cbn [skip_semis]; [apply rel_diverge|].
    eapply rel_bind; [apply rel_consume_token; apply (f_cmp_punct F)|]. intros b b' <-. destruct b; [exact IH|apply rel_ret; reflexivity].
  Qed.

  (** [skip_all_semis] takes its loop bound from the length of the token vector, which the two
      runs need not share: the instance shows that the bound does not matter. *)
  Hypothesis F_skip_all : Rel eq skip_all_semis skip_all_semis.

  Lemma Forall2_rev {X} (R : X -> X -> Prop) l l' : Forall2 R l l' -> Forall2 R (rev l) (rev l').
  Proof.
    induction 1; cbn; [constructor|]. apply Forall2_app; [assumption|]. constructor; [assumption|constructor].
  Qed.

  Lemma rel_statements_loop A (RA : A -> A -> Prop) blk n stmt stmt' :
    Rel RA stmt stmt' -> forall e acc acc', Forall2 RA acc acc' ->
    Rel (Forall2 RA) (statements_loop blk n stmt e acc) (statements_loop blk n stmt' e acc').
  Proof.
    intro Hs. induction n as [|n IH]; intros e acc acc' Hacc; cbn [statements_loop]; [apply rel_diverge|].
    eapply rel_bind; [apply rel_peek|]. intros t0 t0' Ht0. rewrite (f_cmp F _ _ _ (f_cmp_punct F PSemi) Ht0).
    eapply rel_bind_unit; [apply F_skip_all|].
    eapply rel_bind; [apply rel_peek|]. intros t t' Ht.
    rewrite (is_kw_sim (s2l "END") t t' Ht).
    set (e' := if token_eqb (tok t0') (TP PSemi) then false else e).
    assert (G : Rel (Forall2 RA)
                  (if blk && e' && is_kw (s2l "END") t' then ret (rev acc)
                   else if e' then expected (s2l "end of statement") t
                        else a <- stmt ;; statements_loop blk n stmt true (a :: acc))
                  (if blk && e' && is_kw (s2l "END") t' then ret (rev acc')
                   else if e' then expected (s2l "end of statement") t'
                        else a <- stmt' ;; statements_loop blk n stmt' true (a :: acc'))).
    { apply rel_if; [apply rel_ret; apply Forall2_rev; exact Hacc|].
      apply rel_if; [apply rel_expected; exact Ht|].
      eapply rel_bind; [exact Hs|]. intros a a' Ha. apply IH. constructor; assumption. }
    destruct (f_obs F t t' Ht) as [->|(v & v' & k0 & -> & -> & _)]; [|exact G].
    destruct (tok t'); try exact G. apply rel_ret. apply Forall2_rev. exact Hacc.
  Qed.
  Lemma rel_parse_statements A (RA : A -> A -> Prop) n stmt stmt' :
    Rel RA stmt stmt' -> Rel (Forall2 RA) (parse_statements n stmt) (parse_statements n stmt').
  Proof. intro. apply rel_statements_loop; [assumption|constructor]. Qed.

  (** * All pairs of programs built alike from the interface (no raw, non-skipping access) *)
  Inductive IfaceRC : forall A, (A -> A -> Prop) -> M A -> M A -> Prop :=
  | R_ret A (RA : A -> A -> Prop) a a' : RA a a' -> IfaceRC A RA (ret a) (ret a')
  | R_fail A (RA : A -> A -> Prop) e : IfaceRC A RA (fail e) (fail e)
  | R_expected A (RA : A -> A -> Prop) what t t' : Rt t t' -> IfaceRC A RA (expected what t) (expected what t')
  | R_diverge A (RA : A -> A -> Prop) : IfaceRC A RA diverge diverge
  | R_conseq A (RA RB : A -> A -> Prop) p p' : (forall a a', RA a a' -> RB a a') -> IfaceRC A RA p p' -> IfaceRC A RB p p'
  | R_bind A B RA RB p p' k k' :
      IfaceRC A RA p p' -> (forall a a', RA a a' -> IfaceRC B RB (k a) (k' a')) -> IfaceRC B RB (bind p k) (bind p' k')
  | R_peek_nth n : IfaceRC _ Rt (peek_nth_token n) (peek_nth_token n)
  | R_next : IfaceRC _ Rt next_token next_token
  | R_prev : IfaceRC _ eq prev_token prev_token
  | R_parse_keywords ks : IfaceRC _ eq (parse_keywords ks) (parse_keywords ks)
  | R_consume_tokens ts : forallb cmp_ok ts = true -> IfaceRC _ eq (consume_tokens ts) (consume_tokens ts)
  | R_maybe A RA rr f f' : IfaceRC A RA f f' -> IfaceRC _ (opt_rel RA) (maybe_with rr f) (maybe_with rr f')
  | R_guard A RA p p' : IfaceRC A RA p p' -> IfaceRC A RA (guard p) (guard p')
  | R_with_state A RA st f f' : IfaceRC A RA f f' -> IfaceRC A RA (with_state st f) (with_state st f')
  | R_with_projection_tc A RA f f' : IfaceRC A RA f f' -> IfaceRC A RA (with_projection_tc f) (with_projection_tc f')
  | R_projection A RA n f f' : IfaceRC A RA f f' -> IfaceRC _ (Forall2 RA) (projection n f) (projection n f')
  | R_is_end : IfaceRC _ eq is_end is_end
  | R_comma_sep A RA n f f' : IfaceRC A RA f f' -> IfaceRC _ (Forall2 RA) (comma_sep n f) (comma_sep n f')
  | R_comma_sep0 A RA n f f' t : cmp_ok t = true -> IfaceRC A RA f f' -> IfaceRC _ (Forall2 RA) (comma_sep0 n f t) (comma_sep0 n f' t)
  | R_kw_sep A RA n k f f' : IfaceRC A RA f f' -> IfaceRC _ (Forall2 RA) (kw_sep n k f) (kw_sep n k f')
  | R_actions_list A RA n f f' : IfaceRC A RA f f' -> IfaceRC _ (Forall2 RA) (actions_list n f) (actions_list n f')
  | R_parse_statements A RA n f f' : IfaceRC A RA f f' -> IfaceRC _ (Forall2 RA) (parse_statements n f) (parse_statements n f')
  | R_dialect_is ids : IfaceRC _ eq (dialect_is ids) (dialect_is ids)
  | R_ask_flag n : IfaceRC _ eq (ask_flag n) (ask_flag n).

  Theorem ifaceR_sound A RA p p' : IfaceRC A RA p p' -> Rel RA p p'.
  Proof.
    induction 1.
    - apply rel_ret; assumption.
    - apply rel_fail. apply (f_err_refl F).
    - apply rel_expected; assumption.
    - apply rel_diverge.
    - eapply rel_conseq; eassumption.
    - eapply rel_bind; eauto.
    - apply (f_peek F).
    - apply (f_next F).
    - apply (f_prev F).
    - apply rel_parse_keywords.
    - apply rel_consume_tokens; assumption.
    - apply rel_maybe; assumption.
    - apply rel_guard; assumption.
    - apply rel_with_state; assumption.
    - apply rel_with_projection_tc; assumption.
    - apply rel_projection; assumption.
    - apply rel_is_end.
    - apply rel_comma_sep; assumption.
    - apply rel_comma_sep0; assumption.
    - apply rel_kw_sep; assumption.
    - apply rel_actions_list; assumption.
    - apply rel_parse_statements; assumption.
    - apply rel_dialect_is.
    - apply rel_ask_flag.
  Qed.

  (** * The closure language.  [raw_ok]: may the instance also relate the non-skipping
        primitives and the unbounded look-ahead of the statement-loop probe?  ([PBlock], whose
        look-ahead is five [peek_nth_token], needs no such licence: it is skipping-only.) *)
  Variable raw_ok : bool.
  Hypothesis F_next_ns : raw_ok = true -> Rel (opt_rel Rt) next_token_no_skip next_token_no_skip.
  Hypothesis F_peek_ns : raw_ok = true -> forall n, Rel Rt (peek_nth_token_no_skip n) (peek_nth_token_no_skip n).
  Hypothesis F_lookahead : raw_ok = true -> forall A (RA : A -> A -> Prop) p p' q q',
    Rel RA p p' -> Rel RA q q' ->
    Rel RA (lookahead (existsb (fun t => token_eqb (tok t) (TP PLParen))) p q)
           (lookahead (existsb (fun t => token_eqb (tok t) (TP PLParen))) p' q').

  Fixpoint skipping_only (p : prog) : bool :=
    match p with
    | PNextNoSkip | PPeekNoSkip _ | PStmts => false
    | PSeq a b => skipping_only a && skipping_only b
    | PIf c a b => skipping_only c && skipping_only a && skipping_only b
    | PMaybe a | PCommaSep a | PCommaSep0 a _ | PKwSep _ a | PParen a | PGuard a | PWithState _ a | PProjection a => skipping_only a
    | _ => true
    end.

  (** every token a program compares the cursor token with is admissible *)
  Fixpoint prog_cmp_ok (p : prog) : bool :=
    match p with
    | PConsume t | PExpectTok t => cmp_ok t
    | PConsumes ts => forallb cmp_ok ts
    | PCommaSep0 a t => cmp_ok t && prog_cmp_ok a
    | PSeq a b => prog_cmp_ok a && prog_cmp_ok b
    | PIf c a b => prog_cmp_ok c && prog_cmp_ok a && prog_cmp_ok b
    | PMaybe a | PCommaSep a | PKwSep _ a | PParen a | PGuard a | PWithState _ a | PProjection a => prog_cmp_ok a
    | _ => true
    end.

  Notation RV := (val_rel Rt).

  Lemma rel_commit_chain : Rel RV commit_chain commit_chain.
  Proof.
    unfold commit_chain. eapply rel_bind_unit; [apply rel_one_of|].
    eapply rel_bind; [apply rel_parse_keyword|]. intros a a' <-. destruct a; [|apply rel_ret; constructor].
    eapply rel_bind; [apply rel_parse_keyword|]. intros n n' <-.
    eapply rel_bind_unit; [apply rel_expect_keyword|apply rel_ret; constructor].
  Qed.
  Lemma rel_stmt_core : Rel RV stmt_core stmt_core.
  Proof.
    unfold stmt_core. apply rel_guard. eapply rel_bind; [apply (f_next F)|]. intros t t' Ht.
    rewrite (is_kw_sim (s2l "COMMIT") t t' Ht), (is_kw_sim (s2l "END") t t' Ht).
    apply rel_if; [apply rel_commit_chain|apply rel_expected; exact Ht].
  Qed.
  Lemma rel_stmt_probe : Rel RV stmt_probe stmt_probe.
  Proof.
    unfold stmt_probe. eapply rel_bind; [apply rel_peek|]. intros t t' Ht. rewrite (f_cmp F _ _ _ (f_cmp_punct F PLParen) Ht).
    apply rel_if; [apply rel_ret; constructor|].
    apply rel_guard. eapply rel_bind; [apply (f_next F)|]. intros u u' Hu.
    rewrite (is_kw_sim (s2l "COMMIT") u u' Hu), (is_kw_sim (s2l "END") u u' Hu).
    apply rel_if; [apply rel_commit_chain|apply rel_expected; exact Hu].
  Qed.
  Lemma rel_word_elem : Rel RV word_elem word_elem.
  Proof.
    unfold word_elem. eapply rel_bind; [apply (f_next F)|]. intros t t' Ht.
    destruct (f_obs F t t' Ht) as [E|(v & v' & k0 & E1 & E2 & _)].
    - rewrite E. destruct (tok t'); try (apply rel_expected; exact Ht). apply rel_ret. constructor. exact Ht.
    - rewrite E1, E2. apply rel_ret. constructor. exact Ht.
  Qed.

  Lemma plain_word_sim t t' : Rt t t' -> plain_word (tok t) = plain_word (tok t').
  Proof. intro H. destruct (f_obs F t t' H) as [->|(v & v' & k0 & -> & -> & _)]; reflexivity. Qed.
  Lemma rel_create_procedure fuel : Rel RV (create_procedure fuel) (create_procedure fuel).
  Proof.
    unfold create_procedure.
    eapply rel_bind_unit; [apply (f_next F)|].
    eapply rel_bind_unit; [apply rel_consume_token; apply (f_cmp_punct F)|].
    eapply rel_bind_unit; [apply rel_consume_token; apply (f_cmp_punct F)|].
    eapply rel_bind_unit; [apply rel_expect_keyword|].
    eapply rel_bind_unit; [apply rel_expect_keyword|].
    eapply rel_bind; [unfold parse_statement_block; apply rel_statements_loop; [apply rel_stmt_core|constructor]|].
    intros l l' Hl. eapply rel_bind_unit; [apply rel_expect_keyword|apply rel_ret; constructor; exact Hl].
  Qed.
  (** The block probe looks five non-whitespace tokens ahead and no further: it is related to
      itself by every instance (no [raw_ok] needed, unlike the unbounded look-ahead of [stmts_probe]). *)
  Lemma rel_block_probe fuel : Rel RV (block_probe fuel) (block_probe fuel).
  Proof.
    unfold block_probe.
    eapply rel_bind; [apply (f_peek F)|]. intros t0 t0' H0.
    eapply rel_bind; [apply (f_peek F)|]. intros t1 t1' H1.
    eapply rel_bind; [apply (f_peek F)|]. intros t2 t2' H2.
    eapply rel_bind; [apply (f_peek F)|]. intros t3 t3' H3.
    eapply rel_bind; [apply (f_peek F)|]. intros t4 t4' H4.
    unfold block_header.
    rewrite (is_kw_sim (s2l "CREATE") t0 t0' H0), (is_kw_sim (s2l "PROCEDURE") t1 t1' H1), (plain_word_sim t2 t2' H2),
            (is_kw_sim (s2l "AS") t3 t3' H3), (is_kw_sim (s2l "BEGIN") t4 t4' H4).
    apply rel_if; [|apply rel_ret; constructor].
    apply rel_guard. eapply rel_bind_unit; [apply (f_next F)|].
    eapply rel_bind_unit; [apply rel_parse_keyword|]. apply rel_create_procedure.
  Qed.

  Lemma opt_to_val o o' : opt_rel RV o o' -> RV (VOpt o) (VOpt o').
  Proof. destruct o, o'; cbn; intro H; try contradiction; constructor; assumption. Qed.

  Lemma denote_p_rel rr (self self' : M val) fuel :
    Rel RV self self' ->
    forall p, raw_ok || skipping_only p = true -> prog_cmp_ok p = true ->
              Rel RV (denote_p rr self fuel p) (denote_p rr self' fuel p).
  Proof.
    intros Hself p. induction p; cbn [denote_p skipping_only prog_cmp_ok]; intros Hok Hc.
    - eapply rel_bind; [apply (f_next F)|]. intros. apply rel_ret. constructor. assumption.
    - eapply rel_bind; [apply (f_peek F)|]. intros. apply rel_ret. constructor. assumption.
    - eapply rel_bind_unit; [apply (f_prev F)|apply rel_ret; constructor].
    - rewrite orb_false_r in Hok. eapply rel_bind; [apply (F_next_ns Hok)|]. intros o o' Ho. apply rel_ret.
      destruct o, o'; cbn in *; try contradiction; constructor. constructor. assumption.
    - rewrite orb_false_r in Hok. eapply rel_bind; [apply (F_peek_ns Hok)|]. intros. apply rel_ret. constructor. assumption.
    - eapply rel_bind; [apply rel_parse_keyword|]. intros b b' <-. apply rel_ret. constructor.
    - eapply rel_bind; [apply rel_parse_keywords|]. intros b b' <-. apply rel_ret. constructor.
    - eapply rel_bind; [apply rel_one_of|]. intros o o' <-. apply rel_ret. destruct o; cbn; constructor. constructor.
    - eapply rel_bind_unit; [apply rel_expect_keyword|apply rel_ret; constructor].
    - eapply rel_bind; [apply rel_consume_token; exact Hc|]. intros b b' <-. apply rel_ret. constructor.
    - eapply rel_bind; [apply rel_consume_tokens; exact Hc|]. intros b b' <-. apply rel_ret. constructor.
    - eapply rel_bind_unit; [apply rel_expect_token; exact Hc|apply rel_ret; constructor].
    - apply rel_fail. apply (f_err_refl F).
    - eapply rel_bind; [apply rel_peek|]. intros. apply rel_expected. assumption.
    - assert (H1 : raw_ok || skipping_only p1 = true) by (destruct raw_ok; cbn in *; auto; apply andb_true_iff in Hok; tauto).
      assert (H2 : raw_ok || skipping_only p2 = true) by (destruct raw_ok; cbn in *; auto; apply andb_true_iff in Hok; tauto).
      apply andb_true_iff in Hc as [Hc1 Hc2].
      eapply rel_bind_unit; auto.
    - assert (H1 : raw_ok || skipping_only p1 = true) by (destruct raw_ok; cbn in *; auto; apply andb_true_iff in Hok as [Hok _]; apply andb_true_iff in Hok; tauto).
      assert (H2 : raw_ok || skipping_only p2 = true) by (destruct raw_ok; cbn in *; auto; apply andb_true_iff in Hok as [Hok _]; apply andb_true_iff in Hok; tauto).
      assert (H3 : raw_ok || skipping_only p3 = true) by (destruct raw_ok; cbn in *; auto; apply andb_true_iff in Hok; tauto).
      apply andb_true_iff in Hc as [Hc12 Hc3]. apply andb_true_iff in Hc12 as [Hc1 Hc2].
      eapply rel_bind; [apply IHp1; assumption|]. intros v v' Hv. rewrite (val_rel_truthy _ _ _ Hv).
      apply rel_if; auto.
    - eapply rel_bind; [apply rel_maybe; apply IHp; assumption|]. intros o o' Ho. apply rel_ret. apply opt_to_val. exact Ho.
    - eapply rel_bind; [apply rel_comma_sep; apply IHp; assumption|]. intros. apply rel_ret. constructor. assumption.
    - apply andb_true_iff in Hc as [Hct Hcp].
      eapply rel_bind; [apply rel_comma_sep0; [exact Hct|apply IHp; assumption]|]. intros. apply rel_ret. constructor. assumption.
    - eapply rel_bind; [apply rel_kw_sep; apply IHp; assumption|]. intros. apply rel_ret. constructor. assumption.
    - apply rel_parenthesized. apply IHp; assumption.
    - apply rel_stmt_probe.
    - rewrite orb_false_r in Hok. unfold stmts_probe. apply (F_lookahead Hok).
      + apply rel_ret. constructor.
      + eapply rel_bind; [apply rel_parse_statements; apply rel_stmt_core|]. intros. apply rel_ret. constructor. assumption.
    - apply rel_word_elem.
    - apply rel_guard. apply IHp; assumption.
    - apply rel_with_state. apply IHp; assumption.
    - eapply rel_bind; [apply rel_projection; apply IHp; assumption|]. intros. apply rel_ret. constructor. assumption.
    - exact Hself.
    - apply rel_block_probe.
  Qed.

  Theorem denote_rel rr fuel p :
    raw_ok || skipping_only p = true -> prog_cmp_ok p = true -> Rel RV (denote rr fuel p) (denote rr fuel p).
  Proof.
    intros Hok Hc. unfold denote. apply denote_p_rel; [|exact Hok|exact Hc].
    induction fuel; cbn [denote_rec]; [apply rel_diverge|]. apply denote_p_rel; assumption.
  Qed.
End Rel.

(** With no restriction on comparisons every program passes the comparison test. *)
Lemma prog_cmp_ok_all p : prog_cmp_ok (fun _ => true) p = true.
Proof.
  induction p; cbn [prog_cmp_ok]; auto; try (rewrite ?IHp1, ?IHp2, ?IHp3; reflexivity).
  induction ts; cbn; auto.
Qed.
(** Relations under which related tokens are equal satisfy the observation facts trivially. *)
Lemma obs_of_tok_eq (Rt : twl -> twl -> Prop) :
  (forall t t', Rt t t' -> tok t = tok t') ->
  (forall t t', Rt t t' -> token_recase (tok t) (tok t')) /\
  (forall e t t', (fun _ : token => true) e = true -> Rt t t' -> token_eqb (tok t) e = token_eqb (tok t') e).
Proof. intro H. split; intros; [left; auto|rewrite (H t t'); auto]. Qed.

(** The pairs of programs built alike with unrestricted comparisons (the family used by the
    whitespace, location and dialect instances). *)
Notation IfaceR Rt := (IfaceRC Rt (fun _ => true)).
