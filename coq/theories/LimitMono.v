(** LimitMono.v — C12 at the level of the interface: the recursion limit can only surface as
    the recursion-limit error, for every program built from the interface whose speculation
    sites are limit-transparent (or provably never see the limit error); and the refutation
    for the error-swallowing [maybe_parse] as it stands. *)
Require Import SqlV.Base SqlV.Machine SqlV.MachineProofs.
From Coq Require Import Arith.

(** The side condition on a speculation site: it re-raises the limit error, or its body can
    never produce it.  Its negation is the known class of C12 ("a discard site that can
    swallow RecursionLimitExceeded"). *)
Definition okmaybe_lim (A : Type) (rr : bool) (f : M A) : Prop :=
  rr = true \/ NoStop is_limit f.
Definition anyend (_ : token) : Prop := True.
Definition anymaybe (A : Type) (_ : bool) (_ : M A) : Prop := True.

Notation IfaceLT := (Iface okmaybe_lim anyend).
Notation IfaceAny := (Iface anymaybe anyend).

Theorem iface_mono A (p : M A) : IfaceLT A p -> Mono p.
Proof.
  induction 1.
  - apply resp_ret.
  - apply resp_fail.
  - apply resp_diverge.
  - apply resp_bind; auto.
  - apply resp_peek_nth, Rlim_cursor.
  - apply resp_peek_ns, Rlim_cursor.
  - apply resp_next; [apply Rlim_cursor|apply Rlim_set_idx].
  - apply resp_next_ns; [apply Rlim_cursor|apply Rlim_set_idx].
  - apply resp_prev; [apply Rlim_cursor|apply Rlim_set_idx].
  - apply resp_parse_keywords; [apply Rlim_cursor|apply Rlim_set_idx].
  - apply resp_consume_tokens; [apply Rlim_cursor|apply Rlim_set_idx].
  - destruct H0 as [-> | Hns].
    + apply resp_maybe; [apply Rlim_cursor|apply Rlim_set_idx| |assumption].
      intros e He. split; [exact He|reflexivity].
    + apply resp_maybe_nostop; [apply Rlim_cursor|apply Rlim_set_idx|assumption|assumption].
  - apply mono_guard; assumption.
  - apply mono_with_state; assumption.
  - apply mono_with_projection_tc; assumption.
  - apply mono_projection; assumption.
  - apply mono_is_end.
  - apply mono_comma_sep0; assumption.
  - apply mono_actions_list; assumption.
  - apply resp_skip_all_semis; [apply Rlim_cursor|apply Rlim_set_idx].
  - apply resp_lookahead; [apply Rlim_cursor|assumption|assumption].
  - apply resp_dialect_is.
  - apply resp_ask_flag.
Qed.

(** State restoration holds for every interface program, whatever its speculation sites. *)
Ltac fr :=
  repeat first
    [ apply frame_ret | apply frame_fail | apply frame_diverge | apply frame_peek_nth | apply frame_peek_ns
    | apply frame_next | apply frame_next_ns | apply frame_prev | apply frame_get_idx | apply frame_put_idx
    | apply frame_get_tc | apply frame_ask_reserved | assumption
    | apply frame_bind; [|intro]
    | match goal with
      | |- Frame (if ?b then _ else _) => destruct b
      | |- Frame (match tok ?t with _ => _ end) => destruct (tok t)
      | |- Frame (match ?x with Some _ => _ | None => _ end) => destruct x
      end ].

Lemma frame_parse_keyword k : Frame (parse_keyword k).
Proof. unfold parse_keyword, peek_token. fr. Qed.
Lemma frame_parse_keywords ks : Frame (parse_keywords ks).
Proof.
  unfold parse_keywords. apply frame_bind. apply frame_get_idx. intro i.
  induction ks; cbn [parse_keywords_from]. fr. apply frame_bind. apply frame_parse_keyword. intros []; fr.
Qed.
Lemma frame_consume_token e : Frame (consume_token e).
Proof. unfold consume_token, peek_token. fr. Qed.
Lemma frame_consume_tokens ts : Frame (consume_tokens ts).
Proof.
  unfold consume_tokens. apply frame_bind. apply frame_get_idx. intro i.
  induction ts; cbn [consume_tokens_from]. fr. apply frame_bind. apply frame_consume_token. intros []; fr.
Qed.
Lemma frame_is_end : Frame is_end.
Proof. unfold is_end. apply frame_bind. apply frame_consume_token. intros []; cbn [negb]; unfold peek_token; fr. Qed.
Lemma frame_comma_sep A n (f : M A) : Frame f -> Frame (comma_sep n f).
Proof.
  intro Hf. induction n; cbn [comma_sep]. fr. apply frame_bind; auto. intro x.
  apply frame_bind. apply frame_is_end. intros []; fr.
Qed.
Lemma frame_projection A n (f : M A) : Frame f -> Frame (projection n f).
Proof.
  intros Hf d s. unfold projection.
  apply (frame_with_projection_tc _ (comma_sep n (with_tc_to (tc s) f))).
  apply frame_comma_sep. apply frame_with_tc_to. exact Hf.
Qed.
Lemma frame_comma_sep0 A n (f : M A) t : Frame f -> Frame (comma_sep0 n f t).
Proof.
  intro Hf. unfold comma_sep0, peek_two_are, peek_token. apply frame_bind. fr. intro t0.
  destruct (token_eqb _ _). fr. apply frame_bind. fr. intro b. apply frame_bind. fr. intro two.
  destruct (b && two). apply frame_bind. apply frame_consume_token. intro. fr.
  apply frame_comma_sep. assumption.
Qed.
Lemma frame_actions_list A n (f : M A) : Frame f -> Frame (actions_list n f).
Proof.
  intro Hf. induction n; cbn [actions_list]. fr. apply frame_bind; auto. intro x.
  apply frame_bind. apply frame_consume_token. intros []; cbn [negb]; [|fr].
  apply frame_bind. fr. intros []; unfold peek_token; fr.
Qed.
Lemma frame_skip_all_semis : Frame skip_all_semis.
Proof.
  intros d s. unfold skip_all_semis. generalize (S (length (toks s))). intro n. revert d s.
  change (Frame (skip_semis n)). induction n; cbn [skip_semis]. fr.
  apply frame_bind. apply frame_consume_token. intros []; fr.
Qed.

Theorem iface_frame okm oke A (p : M A) : Iface okm oke A p -> Frame p.
Proof.
  induction 1.
  - apply frame_ret.
  - apply frame_fail.
  - apply frame_diverge.
  - apply frame_bind; auto.
  - apply frame_peek_nth.
  - apply frame_peek_ns.
  - apply frame_next.
  - apply frame_next_ns.
  - apply frame_prev.
  - apply frame_parse_keywords.
  - apply frame_consume_tokens.
  - apply frame_maybe; assumption.
  - apply frame_guard; assumption.
  - apply frame_with_state; assumption.
  - apply frame_with_projection_tc; assumption.
  - apply frame_projection; assumption.
  - apply frame_is_end.
  - apply frame_comma_sep0; assumption.
  - apply frame_actions_list; assumption.
  - apply frame_skip_all_semis.
  - apply frame_lookahead; assumption.
  - apply frame_dialect_is.
  - apply frame_ask_flag.
Qed.

(** * The property, in the form of the brief: for all limits n <= m, the run under n ends in
      the limit error or has the same outcome, the same cursor and the same restored state as
      the run under m. *)
Definition same_but_depth (s t : mstate) : Prop :=
  toks s = toks t /\ idx s = idx t /\ pst s = pst t /\ tc s = tc t.

Definition LimitMonotone {A} (p : M A) : Prop :=
  forall d s n m, (n <= m)%nat ->
    let r1 := p d (set_depth n s) in
    let r2 := p d (set_depth m s) in
    fst r1 = Err Limit \/ (fst r1 = fst r2 /\ same_but_depth (snd r1) (snd r2)).

Theorem limit_mono A (p : M A) : IfaceLT A p -> LimitMonotone p.
Proof.
  intros Hp d s n m Hnm r1 r2.
  assert (HR : Rlim (set_depth n s) (set_depth m s)) by (repeat split; cbn; auto).
  destruct (iface_mono A p Hp d _ _ HR) as [[e [He Hl]] | [Heq (a & b & c & e & f)]].
  - left. unfold r1. rewrite He. f_equal. exact Hl.
  - right. split; [exact Heq|]. repeat split; assumption.
Qed.

(** ... and the depth itself is restored in both runs (unless the run panicked). *)
Theorem limit_depth_restored okm oke A (p : M A) : Iface okm oke A p ->
  forall d s, fst (p d s) <> Panic -> depth (snd (p d s)) = depth s.
Proof. intros Hp d s Hn. destruct (iface_frame okm oke A p Hp d s Hn) as (_ & _ & _ & H). exact H. Qed.

(** * Refutation for the helper as it stands: a speculation site that turns the limit error
      into "no match" makes the outcome depend on the limit other than through the limit error. *)
Definition swallow_witness : M bool :=
  o <- maybe (guard (ret tt)) ;; ret (match o with Some _ => true | None => false end).
Definition empty_state : mstate := {| toks := []; idx := 0; pst := Normal; tc := false; depth := 0 |}.
Definition dial0 : dial := mk_dial false false [].

Lemma swallow_witness_iface : IfaceAny _ swallow_witness.
Proof.
  unfold swallow_witness. apply I_bind.
  - apply I_maybe. apply I_guard. apply I_ret. exact I.
  - intro o. apply I_ret.
Qed.

Theorem limit_mono_refuted : exists (p : M bool), IfaceAny _ p /\ ~ LimitMonotone p.
Proof.
  exists swallow_witness. split. apply swallow_witness_iface.
  intro H. specialize (H dial0 empty_state 0%nat 1%nat (Nat.le_succ_diag_r 0)).
  cbv in H. destruct H as [H | [H _]]; discriminate.
Qed.

(** The same two statements for the first-order closure language (what the harness also runs
    against the real parser): with the limit-transparent helper every program is monotone ... *)
Theorem limit_mono_prog fuel (p : prog) : LimitMonotone (denote true fuel p).
Proof.
  apply limit_mono. apply I_denote.
  - intros A f. left. reflexivity.
  - intro. exact I.
Qed.

(** ... with the current helper it is not: speculating on the guarded statement probe. *)
Definition prog_witness : prog := PIf (PMaybe (PGuard PNext)) PNext (PFail (Syntax [])).
Theorem limit_mono_prog_refuted : exists fuel p, ~ LimitMonotone (denote false fuel p).
Proof.
  exists 3%nat, prog_witness. intro H.
  specialize (H dial0 empty_state 0%nat 1%nat (Nat.le_succ_diag_r 0)).
  vm_compute in H. destruct H as [H | [H _]]; discriminate.
Qed.

(** A site whose body is guard-free never sees the limit error: the "limit-free" discharge of
    the inventory.  (Semantic statement for interface programs without [guard] and without an
    explicit [fail Limit].) *)
Inductive GuardFree : forall A, M A -> Prop :=
| G_ret A (a : A) : GuardFree A (ret a)
| G_fail A e : e <> Limit -> GuardFree A (fail e)
| G_diverge A : GuardFree A diverge
| G_bind A B p k : GuardFree A p -> (forall a, GuardFree B (k a)) -> GuardFree B (bind p k)
| G_peek_nth n : GuardFree _ (peek_nth_token n)
| G_next : GuardFree _ next_token
| G_prev : GuardFree _ prev_token
| G_maybe A rr f : GuardFree A f -> GuardFree _ (maybe_with rr f).

Theorem guard_free_no_limit A (p : M A) : GuardFree A p -> NoStop is_limit p.
Proof.
  induction 1; intros d s e0; cbn.
  - discriminate.
  - intros [= <-]. exact H.
  - discriminate.
  - unfold bind. specialize (IHGuardFree d s). destruct (p d s) as [o t]. destruct o; cbn in *.
    + apply H1.
    + intros [= <-]. apply (IHGuardFree e). reflexivity.
    + discriminate.
    + discriminate.
  - discriminate.
  - unfold next_token. destruct (next_from _ _). discriminate.
  - unfold prev_token. destruct (prev_idx _ _); discriminate.
  - unfold maybe_with. specialize (IHGuardFree d s). destruct (f d s) as [o t].
    destruct o as [a|e| |]; cbn in *; try discriminate.
    destruct e; try discriminate. exfalso. apply (IHGuardFree Limit); reflexivity.
Qed.
