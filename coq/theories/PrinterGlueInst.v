(** C01 — the side conditions of the glue theorem (PrinterGlue.v) discharged by computation on
    the tables regenerated from the running crate: Pratt tables [d_<dialect>] (gen/PrecTables.v),
    lexer tables [dl_<dialect>] and [std_uni] (gen/DialectTables.v), operator spellings
    [optext_<dialect>] (gen/PrinterTables.v), for all 13 dialects. *)
From SqlV Require Import Base PrecSpec Pratt PrinterCore PrinterCoreProofs PrinterGlue.
From SqlVGen Require Import PrecTables DialectTables PrinterTables.
Require SqlV.Lexer.

Definition glue_dialects : list (Pratt.dialect * Lexer.dialect * (N -> str)) := [
  (d_generic, dl_generic, optext_generic); (d_ansi, dl_ansi, optext_ansi);
  (d_bigquery, dl_bigquery, optext_bigquery); (d_clickhouse, dl_clickhouse, optext_clickhouse);
  (d_databricks, dl_databricks, optext_databricks); (d_duckdb, dl_duckdb, optext_duckdb);
  (d_hive, dl_hive, optext_hive); (d_mssql, dl_mssql, optext_mssql); (d_mysql, dl_mysql, optext_mysql);
  (d_postgresql, dl_postgresql, optext_postgresql); (d_redshift, dl_redshift, optext_redshift);
  (d_snowflake, dl_snowflake, optext_snowflake); (d_sqlite, dl_sqlite, optext_sqlite) ].

(** the list covers exactly the generated dialects, in the order of the generated lists *)
Lemma glue_dialects_cover :
  map (fun t => fst (fst t)) glue_dialects = map (fun t => snd (fst (fst t))) PrecTables.all_dialects /\
  map (fun t => snd (fst t)) glue_dialects = DialectTables.all_dialects.
Proof. split; reflexivity. Qed.

(** the side conditions hold for every generated dialect *)
Lemma glue_side_all :
  forallb (fun t => glue_side_conditions (fst (fst t)) (snd (fst t)) std_uni (snd t)) glue_dialects = true.
Proof. vm_compute. reflexivity. Qed.

Lemma glue_unknown_zero :
  forallb (fun t => lvl (fst (fst t)) K_UNKNOWN =? 0) glue_dialects = true.
Proof. vm_compute. reflexivity. Qed.

Lemma glue_side d ld ot : In (d, ld, ot) glue_dialects -> glue_side_conditions d ld std_uni ot = true.
Proof.
  intro H. pose proof glue_side_all as Ha. rewrite forallb_forall in Ha. exact (Ha (d, ld, ot) H).
Qed.

(** glue: the printed text of a well-formed core tree lexes to the tree's canonical tokens *)
Theorem glue_generated d ld ot e : In (d, ld, ot) glue_dialects ->
  gwf d e = true -> lexview ld std_uni (pp ot e) = Some (ptoks e).
Proof. intros H. apply glue. apply glue_side. exact H. Qed.

(** parse -> print -> lex -> parse on the core, at the level of texts *)
Theorem text_roundtrip_generated d ld ot ts e : In (d, ld, ot) glue_dialects ->
  parse_expr d ts = Ok (e, []) -> canonical e = true -> gextra e = true ->
  exists toks, lexview ld std_uni (pp ot e) = Some toks /\ parse_expr d toks = Ok (e, []).
Proof.
  intros H. apply text_roundtrip; [apply glue_side; exact H|].
  pose proof glue_unknown_zero as Hz. rewrite forallb_forall in Hz. specialize (Hz (d, ld, ot) H).
  cbn [fst snd] in Hz. apply N.eqb_eq in Hz. exact Hz.
Qed.

(** membership by position (comparing two different generated tables by conversion is expensive) *)
Tactic Notation "pick" integer(n) := cbn [glue_dialects In]; do n right; left; reflexivity.

Corollary glue_generic e : gwf d_generic e = true -> lexview dl_generic std_uni (pp optext_generic e) = Some (ptoks e).
Proof. apply glue_generated. pick 0. Qed.
Corollary glue_ansi e : gwf d_ansi e = true -> lexview dl_ansi std_uni (pp optext_ansi e) = Some (ptoks e).
Proof. apply glue_generated. pick 1. Qed.
Corollary glue_bigquery e : gwf d_bigquery e = true -> lexview dl_bigquery std_uni (pp optext_bigquery e) = Some (ptoks e).
Proof. apply glue_generated. pick 2. Qed.
Corollary glue_clickhouse e : gwf d_clickhouse e = true -> lexview dl_clickhouse std_uni (pp optext_clickhouse e) = Some (ptoks e).
Proof. apply glue_generated. pick 3. Qed.
Corollary glue_databricks e : gwf d_databricks e = true -> lexview dl_databricks std_uni (pp optext_databricks e) = Some (ptoks e).
Proof. apply glue_generated. pick 4. Qed.
Corollary glue_duckdb e : gwf d_duckdb e = true -> lexview dl_duckdb std_uni (pp optext_duckdb e) = Some (ptoks e).
Proof. apply glue_generated. pick 5. Qed.
Corollary glue_hive e : gwf d_hive e = true -> lexview dl_hive std_uni (pp optext_hive e) = Some (ptoks e).
Proof. apply glue_generated. pick 6. Qed.
Corollary glue_mssql e : gwf d_mssql e = true -> lexview dl_mssql std_uni (pp optext_mssql e) = Some (ptoks e).
Proof. apply glue_generated. pick 7. Qed.
Corollary glue_mysql e : gwf d_mysql e = true -> lexview dl_mysql std_uni (pp optext_mysql e) = Some (ptoks e).
Proof. apply glue_generated. pick 8. Qed.
Corollary glue_postgresql e : gwf d_postgresql e = true -> lexview dl_postgresql std_uni (pp optext_postgresql e) = Some (ptoks e).
Proof. apply glue_generated. pick 9. Qed.
Corollary glue_redshift e : gwf d_redshift e = true -> lexview dl_redshift std_uni (pp optext_redshift e) = Some (ptoks e).
Proof. apply glue_generated. pick 10. Qed.
Corollary glue_snowflake e : gwf d_snowflake e = true -> lexview dl_snowflake std_uni (pp optext_snowflake e) = Some (ptoks e).
Proof. apply glue_generated. pick 11. Qed.
Corollary glue_sqlite e : gwf d_sqlite e = true -> lexview dl_sqlite std_uni (pp optext_sqlite e) = Some (ptoks e).
Proof. apply glue_generated. pick 12. Qed.

(** the former counter-examples (before /repo commit 5371ab5) are now instances of the theorem *)
Example glue_pg_tilde_minus_mul :
  lexview dl_postgresql std_uni (pp optext_postgresql (EPre 66 (EBin 53 (EPre 52 (EAtom false 1)) (EAtom false 2))))
  = Some [TOp 66; TOp 52; TAtom false 1; TOp 53; TAtom false 2].
Proof. apply (glue_postgresql (EPre 66 (EBin 53 (EPre 52 (EAtom false 1)) (EAtom false 2)))). vm_compute. reflexivity. Qed.
Example glue_postfix_over_bin :
  lexview dl_generic std_uni (pp optext_generic (EPostfix (EBin 51 (EAtom false 1) (EPostfix (EAtom false 2)))))
  = Some [TAtom false 1; TOp 51; TAtom false 2; TExcl; TExcl].
Proof. apply (glue_generic (EPostfix (EBin 51 (EAtom false 1) (EPostfix (EAtom false 2))))). vm_compute. reflexivity. Qed.

(** what [gwf] asks beyond [shape d] is needed, for reasons of the MODEL (not of the printer):
    [dec] prints 40 digits, the model knows four type names, and only the seven prefix keys have a
    prefix spelling.  Outside these bounds the statement is false: *)
Lemma gwf_bounds_refuted :
  (exists e, shape d_generic e /\ lexview dl_generic std_uni (pp optext_generic e) <> Some (ptoks e)) /\
  (exists e, shape d_generic e /\ lexview dl_generic std_uni (pp optext_generic e) <> Some (ptoks e) /\
             e = ECast (EAtom false 1) 5) /\
  (exists e, shape d_postgresql e /\ lexview dl_postgresql std_uni (pp optext_postgresql e) <> Some (ptoks e) /\
             e = EPre 53 (EAtom false 1)).
Proof.
  split; [|split].
  - exists (EAtom false atom_bound). split; [apply shapeb_iff; reflexivity|]. vm_compute. discriminate.
  - exists (ECast (EAtom false 1) 5). split; [apply shapeb_iff; reflexivity|]. split; [|reflexivity]. vm_compute. discriminate.
  - exists (EPre 53 (EAtom false 1)). split; [apply shapeb_iff; reflexivity|]. split; [|reflexivity]. vm_compute. discriminate.
Qed.

Print Assumptions glue_generated.
Print Assumptions text_roundtrip_generated.
Print Assumptions gwf_bounds_refuted.
