(** C17 — every parsed tree survives serialisation unchanged.
    Statements only; proofs are [exact] applications of the generic theory (theories/Serde.v,
    SerdeProofs.v) to the type environment regenerated from /repo on every run
    (gen/TypeEnv.v), plus side conditions decided by evaluation in the kernel. *)
Require Import SqlV.Base SqlV.Univ SqlV.Serde SqlV.SerdeProofs SqlVGen.TypeEnv.
From Coq Require Import ZArith.

Definition serde_roots : list str := [s2l "Statement"; s2l "Token"].

(** The declarations reachable from [Statement] and [Token]. *)
Definition serde_env : env := Eval vm_compute in reach_env type_env_full serde_roots.

(** Generated side conditions. *)
Lemma serde_env_closed : closed_env serde_env serde_roots = true.
Proof. vm_compute. reflexivity. Qed.

Lemma serde_env_wf : wf_serde serde_env = true.
Proof. vm_compute. reflexivity. Qed.

Lemma translator_resolved : translator_obligations = [].
Proof. reflexivity. Qed.

Notation TStatement := (TNamed (s2l "Statement")).
Notation TToken := (TNamed (s2l "Token")).

(** Round trip at every type of the environment. *)
Theorem C17_roundtrip : forall t v,
  ty_ok serde_env t = true -> has_type serde_env t v ->
  exists f0, forall f, (f0 <= f)%nat -> de f serde_env t (ser v) = Some v.
Proof. exact (roundtrip serde_env serde_env_wf). Qed.
Print Assumptions C17_roundtrip.

(** ... in particular for statements, statement lists and token lists. *)
Theorem C17_statement : forall v, has_type serde_env TStatement v ->
  exists f0, forall f, (f0 <= f)%nat -> de f serde_env TStatement (ser v) = Some v.
Proof. exact (fun v => roundtrip serde_env serde_env_wf TStatement v eq_refl). Qed.
Print Assumptions C17_statement.

Theorem C17_statements : forall v, has_type serde_env (TVec TStatement) v ->
  exists f0, forall f, (f0 <= f)%nat -> de f serde_env (TVec TStatement) (ser v) = Some v.
Proof. exact (fun v => roundtrip serde_env serde_env_wf (TVec TStatement) v eq_refl). Qed.
Print Assumptions C17_statements.

Theorem C17_tokens : forall v, has_type serde_env (TVec TToken) v ->
  exists f0, forall f, (f0 <= f)%nat -> de f serde_env (TVec TToken) (ser v) = Some v.
Proof. exact (fun v => roundtrip serde_env serde_env_wf (TVec TToken) v eq_refl). Qed.
Print Assumptions C17_tokens.

(** No information is lost: values of one type with the same document are equal. *)
Theorem C17_injective : forall t v1 v2,
  ty_ok serde_env t = true -> has_type serde_env t v1 -> has_type serde_env t v2 ->
  ser v1 = ser v2 -> v1 = v2.
Proof. exact (ser_injective serde_env serde_env_wf). Qed.
Print Assumptions C17_injective.

(** Equal trees serialise to equal documents. *)
Theorem C17_functional : forall v1 v2 : sval, v1 = v2 -> ser v1 = ser v2.
Proof. exact ser_functional. Qed.
Print Assumptions C17_functional.

(** The boolean checker used on dumped values is sound for the typing judgment. *)
Theorem C17_checker_sound : forall fuel t v,
  check_type fuel serde_env t v = true -> has_type serde_env t v.
Proof. exact (check_type_sound serde_env). Qed.
Print Assumptions C17_checker_sound.

(** Non-vacuity: a concrete statement-shaped value of the environment round-trips by evaluation. *)
Example C17_env_nonempty : (10 <=? length serde_env)%nat = true.
Proof. vm_compute. reflexivity. Qed.
