(** C03 — nesting depth is bounded by the recursion limit, never by the stack.
    Statements only: instances of the generic theory (theories/DepthProofs.v) for the call graph
    regenerated from /repo on every run (gen/CallGraph.v), side conditions by evaluation.

    [cg]            the call graph (nodes = functions and closures of src/parser, src/dialect)
    [cg_exceptions] nodes of unguarded cycles listed in KNOWN_FINDINGS.txt (empty once repaired)
    [cgx]           the graph with those nodes treated as guarded *)
Require Import SqlV.Base SqlV.Depth SqlV.DepthProofs SqlVGen.CallGraph.

Definition cgx : graph := with_exceptions cg cg_exceptions.
Definition frame_factor : N := (bsum (g_bounded cg) + 1) * (cg_max_rank + 1).

(** Generated side condition: the rank certificate checks, i.e. every call edge into an
    unguarded (and not excepted, not bounded) node strictly decreases the rank. *)
Lemma cert_ok : check_cert cgx (rk_of cg_ranks cg_max_rank) = true.
Proof. vm_compute. reflexivity. Qed.

(** Every call stack that avoids the listed exceptions and holds at most L units of depth has
    at most (L+1)(K+1)(R+1) frames. *)
Theorem C03_bounded : forall L s,
  stack_path cg s = true -> bounded_ok cg s -> avoids cg_exceptions s = true -> gcount cg s <= L ->
  N.of_nat (length s) <= (L + 1) * (bsum (g_bounded cg) + 1) * (cg_max_rank + 1).
Proof. exact (rank_cert_sound_exc cg cg_exceptions cg_ranks cg_max_rank cert_ok). Qed.
Print Assumptions C03_bounded.

(** The machine: whatever trace of calls along graph edges and returns, under any limit L, the
    stack stays that short and the depth held is exactly the number of guarded frames. *)
Theorem C03_machine : forall L evs s rem f,
  run cgx ([], L) evs = ((s, rem), f) -> trace_ok cgx ([], L) evs = true -> bounded_ok cgx s ->
  rem + gcount cgx s = L /\
  N.of_nat (length s) <= (L + 1) * (bsum (g_bounded cgx) + 1) * (cg_max_rank + 1).
Proof. exact (machine_bounded cgx cg_ranks cg_max_rank cert_ok). Qed.
Print Assumptions C03_machine.

(** Calling a guarded function with no depth left is the limit error, and nothing else is. *)
Theorem C03_limit : forall s rem v, guardedb cg v = true ->
  (snd (step cg (s, rem) (Call v)) = true <-> rem = 0).
Proof. exact (limit_iff cg). Qed.
Theorem C03_only_guards_limit : forall st v, guardedb cg v = false -> snd (step cg st (Call v)) = false.
Proof. exact (unguarded_never_limits cg). Qed.

(** Depth is released: back on the same stack means back to the same remaining depth, whatever
    happened in between (including limit errors that were caught). *)
Theorem C03_released : forall s rem evs rem' f, run cg (s, rem) evs = ((s, rem'), f) -> rem' = rem.
Proof. exact (released cg). Qed.
Print Assumptions C03_released.

(** m sibling constructs: if one runs without the limit error, any number in a row do. *)
Theorem C03_siblings : forall s rem c rem',
  run cg (s, rem) c = ((s, rem'), false) ->
  forall m, run cg (s, rem) (concat (repeat c m)) = ((s, rem), false).
Proof. exact (siblings cg). Qed.
Print Assumptions C03_siblings.

(** The bounded-edge exception: the set-operation loop nests at most twice, and every bounded
    edge of the graph claims no less. *)
Theorem C03_setops : forall ops, setops_depth ops <= 2.
Proof. exact setops_depth_le2. Qed.
Lemma bounded_edges_claim : forallb (fun e => 2 <=? snd e) (g_bounded cg) = true.
Proof. vm_compute. reflexivity. Qed.

(** Known class: each listed exception lies on a real unguarded cycle reachable from an entry
    point, and that cycle pumps — stacks of any length holding a constant amount of depth. *)
Lemma witnesses_ok : forallb (check_pump cg) cg_witnesses = true.
Proof. vm_compute. reflexivity. Qed.
Lemma exceptions_justified :
  forallb (fun e => existsb (fun w => memN e (snd w)) cg_witnesses) cg_exceptions = true.
Proof. vm_compute. reflexivity. Qed.
Theorem C03_refuted : forall w, In w cg_witnesses -> forall j,
  stack_path cg (pump (snd w) j (fst w)) = true /\
  gcount cg (pump (snd w) j (fst w)) = gcount cg (fst w) /\
  (j <= length (pump (snd w) j (fst w)))%nat.
Proof. exact (pump_all cg cg_witnesses witnesses_ok). Qed.
Print Assumptions C03_refuted.

(** Non-vacuity. *)
Example C03_has_guards : negb (match g_guarded cg with [] => true | _ => false end) = true.
Proof. vm_compute. reflexivity. Qed.
Example C03_counter_50 : chain_outcome 1 0 50 50 = false /\ chain_outcome 1 0 51 50 = true.
Proof. vm_compute. split; reflexivity. Qed.
