(** C16 — visitors see every node once, in order, and can stop the walk.
    Statements only; proofs are [exact] applications of the generic theory (theories/Visit.v,
    VisitProofs.v) to the type environment regenerated from /repo on every run
    (gen/TypeEnv.v), plus side conditions decided by evaluation in the kernel. *)
Require Import SqlV.Base SqlV.Univ SqlV.Visit SqlV.VisitProofs SqlVGen.TypeEnv SqlVGen.C16Witness.
From Coq Require Import Sorted.

Definition visit_roots : list str := [s2l "Statement"].

(** The declarations reachable from [Statement]. *)
Definition visit_env : env := Eval vm_compute in reach_env type_env_full visit_roots.

(** Relation spec: every field naming a table ([ObjectName], directly or through
    Option/Vec/Box) of the FROM/JOIN table factor and of the data-modification statements. *)
Definition dml_positions : list position :=
  object_fields visit_env (s2l "TableFactor") (Some (s2l "Table")) ++
  object_fields visit_env (s2l "Insert") None ++
  object_fields visit_env (s2l "Delete") None ++
  object_fields visit_env (s2l "Statement") (Some (s2l "Update")) ++
  object_fields visit_env (s2l "Statement") (Some (s2l "Merge")).

Definition position_eqb (a b : position) : bool :=
  match a, b with
  | (t1, v1, k1), (t2, v2, k2) =>
      str_eqb t1 t2 && str_eqb k1 k2 &&
      match v1, v2 with Some x, Some y => str_eqb x y | None, None => true | _, _ => false end
  end.

(** Known finding (KNOWN_FINDINGS.txt, key delete-tables-not-relations): the targets of MySQL's
    multi-table DELETE are stored in [Delete.tables : Vec<ObjectName>] without a relation hook. *)
Definition KnownClass_C16 (pos : position) : bool :=
  position_eqb pos (s2l "Delete", None, s2l "tables").

Definition required_positions : list position :=
  filter (fun pos => negb (KnownClass_C16 pos)) dml_positions.

(** Generated side conditions. *)
Lemma visit_env_wf : wf_visit visit_env visit_roots required_positions manual_other = true.
Proof. vm_compute. reflexivity. Qed.

Lemma translator_resolved : translator_obligations = [].
Proof. reflexivity. Qed.

(** Non-vacuity of the relation spec: the FROM/JOIN table name and the INSERT target are in it. *)
Lemma spec_has_table_factor :
  existsb (position_eqb (s2l "TableFactor", Some (s2l "Table"), s2l "name")) required_positions = true.
Proof. vm_compute. reflexivity. Qed.
Lemma spec_has_insert :
  existsb (position_eqb (s2l "Insert", None, s2l "table_name")) required_positions = true.
Proof. vm_compute. reflexivity. Qed.

(** Balanced, properly nested callbacks. *)
Theorem C16_balanced : forall v, balanced (walk visit_env v).
Proof. exact (walk_balanced visit_env). Qed.
Print Assumptions C16_balanced.

(** A pre-callback is made for (hook, node) exactly when the declarations hook that node. *)
Theorem C16_entered_iff_hooked : forall v h p,
  In (h, p) (pres (walk visit_env v)) <-> hooked_at visit_env v p h.
Proof. exact (walk_pre_spec visit_env). Qed.
Print Assumptions C16_entered_iff_hooked.

(** Every expression, query, table factor and statement occurring in the tree is entered. *)
Theorem C16_nodes_entered : forall v p n tn h,
  In (tn, h) node_hooks -> sub v p = Some n -> sval_tname n = Some tn ->
  In (h, p) (pres (walk visit_env v)).
Proof. exact (wf_node_entered visit_env visit_roots required_positions manual_other visit_env_wf). Qed.
Print Assumptions C16_nodes_entered.

(** Every table named in a position of the relation spec outside the known class is entered
    as a relation. *)
Theorem C16_relations_entered : forall v q par i k c tn vn args,
  In (tn, vn, k) dml_positions -> KnownClass_C16 (tn, vn, k) = false ->
  sub v q = Some par ->
  (par = VStruct tn SNamed args /\ vn = None \/ exists vn', par = VEnum tn vn' SNamed args /\ vn = Some vn') ->
  nth_error args i = Some (k, c) ->
  In (relation_hook, q ++ [i]) (pres (walk visit_env v)).
Proof.
  exact (fun v q par i k c tn vn args Hin Hk =>
    wf_relation_entered visit_env visit_roots required_positions manual_other visit_env_wf
      v q par i k c tn vn args
      (proj2 (filter_In (fun pos => negb (KnownClass_C16 pos)) (tn, vn, k) dml_positions)
             (conj Hin (f_equal negb Hk)))).
Qed.
Print Assumptions C16_relations_entered.

(** ... and inside the known class the statement is false (witness regenerated from the parse
    of a multi-table DELETE whenever the finding reproduces). *)
Theorem C16_delete_targets_refuted :
  known_reproduced = true ->
  exists v p n, sub v p = Some n /\ sval_tname n = Some (s2l "ObjectName") /\
                in_delete_tables v p = true /\
                ~ In (relation_hook, p) (pres (walk (reach_env type_env_full [s2l "Statement"]) v)).
Proof. exact witness_refuted. Qed.
Print Assumptions C16_delete_targets_refuted.

(** Exactly once: no (hook, node) is entered twice. *)
Theorem C16_once : forall v, NoDup (pres (walk visit_env v)).
Proof. exact (wf_pre_nodup visit_env visit_roots required_positions manual_other visit_env_wf). Qed.
Print Assumptions C16_once.

(** Document pre-order; parents before children. *)
Theorem C16_pre_order : forall v, StronglySorted (pre_lt visit_env) (pres (walk visit_env v)).
Proof. exact (walk_pre_order visit_env). Qed.
Print Assumptions C16_pre_order.

Theorem C16_parents_first : forall v l1 l2 h1 h2 p q,
  pres (walk visit_env v) = l1 ++ (h2, p ++ q) :: l2 -> q <> [] -> ~ In (h1, p) l2.
Proof. exact (parents_before_children visit_env). Qed.
Print Assumptions C16_parents_first.

(** Break: the walk performed with any visitor is the full trace fed callback by callback
    until the first Break; with Break at the k-th callback exactly the first k happen. *)
Theorem C16_break_any_visitor : forall (S : Type) v (cb : visitor S) s,
  walkB S visit_env v cb s = run_until S cb (walk visit_env v) s.
Proof. exact (fun S => walkB_run_until S visit_env). Qed.
Print Assumptions C16_break_any_visitor.

Theorem C16_break_prefix : forall v k, (1 <= k <= length (walk visit_env v))%nat ->
  walkB (list event) visit_env v (break_at k) [] = (firstn k (walk visit_env v), true).
Proof. exact (break_prefix visit_env). Qed.
Print Assumptions C16_break_prefix.

(** The mutating walk with callbacks that change nothing: tree unchanged, same callbacks,
    same Break behaviour as the read-only walk. *)
Theorem C16_mut_noop : forall (S : Type) v (cb : visitor_mut S) fuel s,
  no_rewrite S cb -> (sv_depth v < fuel)%nat ->
  walk_mut S fuel visit_env cb v s =
  let (s', b) := walkB S visit_env v (forget S cb v) s in Some (v, s', b).
Proof. exact (fun S => walk_mut_noop S visit_env). Qed.
Print Assumptions C16_mut_noop.

Theorem C16_mut_same_trace : forall v,
  walk_mut (list event) (Datatypes.S (sv_depth v)) visit_env (break_at_mut 0) v [] =
  Some (v, walk visit_env v, false).
Proof. exact (mut_same_trace visit_env). Qed.
Print Assumptions C16_mut_same_trace.
