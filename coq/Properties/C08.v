(** C08 — keywords are case-insensitive; identifier spelling is preserved.
    Statements only; proofs are [exact] applications of the generic theory to the keyword
    table regenerated from /repo on every run. *)
Require Import SqlV.Base SqlV.Bsearch SqlV.Keywords SqlVGen.KeywordTable.
From Coq Require Import Arith.

(** Generated side conditions, decided by evaluation in the kernel. *)
Lemma kw_table_ok : table_ok all_keywords all_keywords_index = true.
Proof. vm_compute. reflexivity. Qed.

(** The index array names pairwise distinct variants, none of them [NoKeyword]. *)
Definition distinct_names : bool :=
  sortedb all_keywords_index || negb (existsb (fun n => str_eqb n (s2l "NoKeyword")) all_keywords_index).
Fixpoint nodupb (l : list (list N)) : bool :=
  match l with [] => true | a :: r => negb (existsb (str_eqb a) r) && nodupb r end.
Lemma kw_index_nodup : nodupb all_keywords_index = true /\
  existsb (fun n => str_eqb n (s2l "NoKeyword")) all_keywords_index = false.
Proof. vm_compute. split; reflexivity. Qed.

Notation mk := (make_word all_keywords all_keywords_index).

(** Every word of the table is recognised in every capitalisation, spelling kept. *)
Theorem C08_recognised : forall i k name w,
  nth_error all_keywords i = Some k -> nth_error all_keywords_index i = Some name ->
  ascii_ci_eq w k ->
  mk w None = {| w_value := w; w_quote := None; w_keyword := Kw name |}.
Proof. exact (recognised all_keywords all_keywords_index kw_table_ok). Qed.
Print Assumptions C08_recognised.

(** ... and nothing else is. *)
Theorem C08_only : forall w name,
  w_keyword (mk w None) = Kw name ->
  exists i k, nth_error all_keywords i = Some k /\ nth_error all_keywords_index i = Some name /\
              ascii_ci_eq w k.
Proof. exact (only all_keywords all_keywords_index). Qed.
Print Assumptions C08_only.

Theorem C08_case_insensitive : forall w w', ascii_ci_eq w w' ->
  w_keyword (mk w None) = w_keyword (mk w' None).
Proof. exact (recase all_keywords all_keywords_index). Qed.
Print Assumptions C08_case_insensitive.

Theorem C08_quoted_never_keyword : forall w c, w_keyword (mk w (Some c)) = NoKeyword.
Proof. exact (quoted_never all_keywords all_keywords_index). Qed.

Theorem C08_spelling_kept : forall w q, w_value (mk w q) = w /\ w_quote (mk w q) = q.
Proof. exact (spelling_kept all_keywords all_keywords_index). Qed.

Theorem C08_no_index_panic : forall w q, w_keyword (mk w q) <> IndexPanic.
Proof. exact (no_index_panic all_keywords all_keywords_index kw_table_ok). Qed.
Print Assumptions C08_no_index_panic.

(** Non-vacuity: concrete instances. *)
Example C08_select : w_keyword (mk (s2l "sElEcT") None) = Kw (s2l "SELECT").
Proof. vm_compute. reflexivity. Qed.
Example C08_not_kw : w_keyword (mk (s2l "selects") None) = NoKeyword.
Proof. vm_compute. reflexivity. Qed.

(** Parser level (proof by interface, RecaseInvariance.v over the cursor-interface model):
    two token vectors that differ only in the letter case of keyword occurrences (same
    positions) give related results for every program built from the interface whose token
    comparisons do not target a keyword word ([recase_safe]) — and for the statement loop over
    any such statement parser: values are equal except where they carry a recased keyword token
    itself (its own spelling is kept), errors are equal up to the found-token text; a value
    without keyword tokens is literally identical (identifiers keep their exact spelling).
    That the Rust parsers test keywords only through the keyword field is sampled by the
    recasing search, not proved. *)
Require Import SqlV.Machine SqlV.MachineRel SqlV.RecaseInvariance.

Theorem C08_parser_recase_invariance : forall ts ts' tcf limit rr fuel p d,
  recased ts ts' -> recase_safe p = true ->
  Ro err_recase (val_rel tok_recase)
     (fst (denote rr fuel p d (init_state ts tcf limit)))
     (fst (denote rr fuel p d (init_state ts' tcf limit))).
Proof. exact recase_invariance_init. Qed.
Print Assumptions C08_parser_recase_invariance.

Theorem C08_script_recase_invariance : forall ts ts' A (RA : A -> A -> Prop) (stmt stmt' : M A) tcf limit fuel d,
  recased ts ts' -> IfaceRC tok_recase cmp_safe A RA stmt stmt' ->
  Ro err_recase (Forall2 RA)
     (fst (parse_statements fuel stmt d (init_state ts tcf limit)))
     (fst (parse_statements fuel stmt' d (init_state ts' tcf limit))).
Proof. exact recase_invariance_statements. Qed.
Print Assumptions C08_script_recase_invariance.

Theorem C08_identifier_spelling_exact : forall v v',
  val_rel tok_recase v v' -> no_kw_token v = true -> v = v'.
Proof. exact recase_value_exact. Qed.
Print Assumptions C08_identifier_spelling_exact.
