(** C08 — keywords are case-insensitive; identifier spelling is preserved.
    Statements only; proofs are [exact] applications of the generic theory to the keyword
    table regenerated from /repo on every run. *)
Require Import SqlV.Base SqlV.Bsearch SqlV.Keywords SqlVGen.KeywordTable.
From Coq Require Import Arith.

(** Generated side conditions, decided by evaluation in the kernel. *)
Lemma kw_table_ok : table_ok all_keywords all_keywords_index = true.
Proof. vm_compute. reflexivity. Qed.

(** The index array names pairwise distinct variants, none of them [NoKeyword]. *)
Definition distinct_names : bool :=
  sortedb all_keywords_index || negb (existsb (fun n => str_eqb n (s2l "NoKeyword")) all_keywords_index).
Fixpoint nodupb (l : list (list N)) : bool :=
  match l with [] => true | a :: r => negb (existsb (str_eqb a) r) && nodupb r end.
Lemma kw_index_nodup : nodupb all_keywords_index = true /\
  existsb (fun n => str_eqb n (s2l "NoKeyword")) all_keywords_index = false.
Proof. vm_compute. split; reflexivity. Qed.

Notation mk := (make_word all_keywords all_keywords_index).

(** Every word of the table is recognised in every capitalisation, spelling kept. *)
Theorem C08_recognised : forall i k name w,
  nth_error all_keywords i = Some k -> nth_error all_keywords_index i = Some name ->
  ascii_ci_eq w k ->
  mk w None = {| w_value := w; w_quote := None; w_keyword := Kw name |}.
Proof. exact (recognised all_keywords all_keywords_index kw_table_ok). Qed.
Print Assumptions C08_recognised.

(** ... and nothing else is. *)
Theorem C08_only : forall w name,
  w_keyword (mk w None) = Kw name ->
  exists i k, nth_error all_keywords i = Some k /\ nth_error all_keywords_index i = Some name /\
              ascii_ci_eq w k.
Proof. exact (only all_keywords all_keywords_index). Qed.
Print Assumptions C08_only.

Theorem C08_case_insensitive : forall w w', ascii_ci_eq w w' ->
  w_keyword (mk w None) = w_keyword (mk w' None).
Proof. exact (recase all_keywords all_keywords_index). Qed.
Print Assumptions C08_case_insensitive.

Theorem C08_quoted_never_keyword : forall w c, w_keyword (mk w (Some c)) = NoKeyword.
Proof. exact (quoted_never all_keywords all_keywords_index). Qed.

Theorem C08_spelling_kept : forall w q, w_value (mk w q) = w /\ w_quote (mk w q) = q.
Proof. exact (spelling_kept all_keywords all_keywords_index). Qed.

Theorem C08_no_index_panic : forall w q, w_keyword (mk w q) <> IndexPanic.
Proof. exact (no_index_panic all_keywords all_keywords_index kw_table_ok). Qed.
Print Assumptions C08_no_index_panic.

(** Non-vacuity: concrete instances. *)
Example C08_select : w_keyword (mk (s2l "sElEcT") None) = Kw (s2l "SELECT").
Proof. vm_compute. reflexivity. Qed.
Example C08_not_kw : w_keyword (mk (s2l "selects") None) = NoKeyword.
Proof. vm_compute. reflexivity. Qed.
