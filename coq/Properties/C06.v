(** C06 — printed string literals and quoted identifiers denote exactly their payload.
    Statements only. *)
Require Import SqlV.Base SqlV.Lexer SqlV.Escape SqlV.EscapeProofs SqlVGen.DialectTables.
Local Open Scope N_scope.

(** E'...' round-trips for every payload, dialect and character-class record. *)
Theorem C06_escaped : forall d u p,
  tokenize d u true (print_str KEscaped p) = LexOk [(TStr KEscaped p, (1, 1))].
Proof. exact escaped_one_token. Qed.
Print Assumptions C06_escaped.

(** '...' round-trips outside the decidable known-finding class (dialects without
    triple-quoted strings). *)
Theorem C06_single : forall d u p,
  d_triple d = false -> known_quoted cSQ (d_backslash d) false p = false ->
  tokenize d u true (print_str KSingle p) = LexOk [(TStr KSingle p, (1, 1))].
Proof. exact single_one_token. Qed.
Print Assumptions C06_single.

(** ... and is refuted inside it. *)
Theorem C06_single_refuted : exists p,
  has_pair cSQ cSQ p = true /\
  tokenize plain_dialect plain_uni true (print_str KSingle p) <> LexOk [(TStr KSingle p, (1, 1))].
Proof. exact single_doubled_refuted. Qed.

(** quoted identifiers "..." and `...` *)
Theorem C06_ident : forall d u q p,
  (q = cDQ \/ q = cBQ) -> d_delim_start d q = true -> d_piq d = PiqAlways ->
  has_pair q q p = false -> has_pair cBSL q p = false ->
  tokenize d u true (print_ident q p) = LexOk [(TWord p (Some q), (1, 1))].
Proof. exact ident_one_token. Qed.
Print Assumptions C06_ident.

(** N'...' is printed verbatim: round trip iff no quote and no backslash in the payload;
    refuted otherwise. *)
Theorem C06_national : forall d u p,
  has_char cSQ p = false -> has_char cBSL p = false ->
  tokenize d u true (print_str KNational p) = LexOk [(TStr KNational p, (1, 1))].
Proof. exact national_one_token. Qed.
Print Assumptions C06_national.
Theorem C06_national_refuted : exists p,
  has_char cSQ p = true /\
  tokenize plain_dialect plain_uni true (print_str KNational p) <> LexOk [(TStr KNational p, (1, 1))].
Proof. exact national_quote_refuted. Qed.

(** U&'...' round-trips for every payload of Unicode scalar values (every Rust [String] is
    one), in every dialect with Unicode string literals: quotes doubled, backslashes doubled,
    ASCII raw, everything else as \XXXX or \+XXXXXX with upper-case hex digits. *)
Theorem C06_unicode : forall d u p, d_unicode_lit d = true ->
  Forall (fun c => valid_scalar c = true) p ->
  tokenize d u true (print_str KUnicode p) = LexOk [(TStr KUnicode p, (1, 1))].
Proof. exact unicode_one_token. Qed.
Print Assumptions C06_unicode.

(** The scanner-level lemmas the above rest on hold for every quote character, look-ahead
    state and continuation (so they also cover "never changes neighbouring syntax"). *)
Theorem C06_quote_doubling_scanner : forall q, (q =? cBSL) = false -> forall bs p prev ncq rest,
  Good q bs prev p -> starts_with_c q rest = false ->
  qs_loop true q false bs ncq (eq_loop q prev p ++ q :: rest) = Some (p, rest).
Proof. exact qs_escape_quoted. Qed.
Print Assumptions C06_quote_doubling_scanner.

(** Instances on generated data: which built-in dialects satisfy the side conditions. *)
Example C06_generic_ident_side : d_delim_start dl_generic cDQ = true /\ d_piq dl_generic = PiqAlways /\ d_triple dl_generic = false.
Proof. vm_compute. repeat split; reflexivity. Qed.
Example C06_example : tokenize dl_mysql std_uni true (print_str KSingle (s2l "it" ++ [cSQ] ++ s2l "s")) =
                      LexOk [(TStr KSingle (s2l "it" ++ [cSQ] ++ s2l "s"), (1, 1))].
Proof. vm_compute. reflexivity. Qed.

(** * Verbatim-printed kinds (B'..', R'..', triple-quoted forms, [..] identifiers, $..$ strings).
    Display writes the payload between the delimiters as it is.  Outside the class of payloads
    listed as known findings ([known_verbatim], [known_triple], [has_char cRBR], [known_dollar],
    [known_dollar_tagged]) the printed text lexes back to exactly ONE token carrying the payload,
    for every dialect satisfying the side conditions, every payload of any length, and both
    un-escaping modes; inside each class a witness shows the round trip failing. *)
Require Import SqlV.EscapeMore.

Theorem C06_byte_single : forall d u unesc p,
  d_bq_or_generic d = true -> known_verbatim cSQ false p = false ->
  tokenize d u unesc (print_str KByteSingle p) = LexOk [(TStr KByteSingle p, (1, 1))].
Proof. exact byte_single_one_token. Qed.
Theorem C06_byte_double : forall d u unesc p,
  d_bq_or_generic d = true -> known_verbatim cDQ false p = false ->
  tokenize d u unesc (print_str KByteDouble p) = LexOk [(TStr KByteDouble p, (1, 1))].
Proof. exact byte_double_one_token. Qed.
Theorem C06_raw_single : forall d u unesc p,
  d_bq_or_generic d = true -> known_verbatim cSQ false p = false ->
  tokenize d u unesc (print_str KRawSingle p) = LexOk [(TStr KRawSingle p, (1, 1))].
Proof. exact raw_single_one_token. Qed.
Theorem C06_raw_double : forall d u unesc p,
  d_bq_or_generic d = true -> known_verbatim cDQ false p = false ->
  tokenize d u unesc (print_str KRawDouble p) = LexOk [(TStr KRawDouble p, (1, 1))].
Proof. exact raw_double_one_token. Qed.
Theorem C06_triple_single : forall d u unesc p,
  d_triple d = true -> known_triple cSQ (d_backslash d) p = false ->
  tokenize d u unesc (print_str KTripleSingle p) = LexOk [(TStr KTripleSingle p, (1, 1))].
Proof. exact triple_single_one_token. Qed.
Theorem C06_triple_double : forall d u unesc p,
  d_triple d = true -> d_delim_start d cDQ = false -> d_ident_start d cDQ = false ->
  known_triple cDQ (d_backslash d) p = false ->
  tokenize d u unesc (print_str KTripleDouble p) = LexOk [(TStr KTripleDouble p, (1, 1))].
Proof. exact triple_double_one_token. Qed.
Theorem C06_triple_byte_single : forall d u unesc p,
  d_bq_or_generic d = true -> d_triple d = true -> known_triple cSQ false p = false ->
  tokenize d u unesc (print_str KTripleByteSingle p) = LexOk [(TStr KTripleByteSingle p, (1, 1))].
Proof. exact triple_byte_single_one_token. Qed.
Theorem C06_triple_byte_double : forall d u unesc p,
  d_bq_or_generic d = true -> d_triple d = true -> known_triple cDQ false p = false ->
  tokenize d u unesc (print_str KTripleByteDouble p) = LexOk [(TStr KTripleByteDouble p, (1, 1))].
Proof. exact triple_byte_double_one_token. Qed.
Theorem C06_triple_raw_single : forall d u unesc p,
  d_bq_or_generic d = true -> known_triple cSQ false p = false ->
  tokenize d u unesc (print_str KTripleRawSingle p) = LexOk [(TStr KTripleRawSingle p, (1, 1))].
Proof. exact triple_raw_single_one_token. Qed.
Theorem C06_triple_raw_double : forall d u unesc p,
  d_bq_or_generic d = true -> known_triple cDQ false p = false ->
  tokenize d u unesc (print_str KTripleRawDouble p) = LexOk [(TStr KTripleRawDouble p, (1, 1))].
Proof. exact triple_raw_double_one_token. Qed.
Theorem C06_bracket_ident : forall d u unesc p,
  d_delim_start d cLBR = true -> d_piq d = PiqAlways -> has_char cRBR p = false ->
  tokenize d u unesc (print_ident cLBR p) = LexOk [(TWord p (Some cLBR), (1, 1))].
Proof. exact bracket_one_token. Qed.
Theorem C06_dollar : forall d u unesc p,
  d_delim_start d cDOLLAR = false -> d_ident_start d cDOLLAR = false -> known_dollar p = false ->
  tokenize d u unesc (print_dollar None p) = LexOk [(TDollar p None, (1, 1))].
Proof. exact dollar_one_token. Qed.
Theorem C06_dollar_tagged : forall d u unesc tag p,
  d_delim_start d cDOLLAR = false -> d_ident_start d cDOLLAR = false ->
  tag_ok u tag = true -> u_alphanumeric u cDOLLAR = false -> known_dollar_tagged p = false ->
  tokenize d u unesc (print_dollar (Some tag) p) = LexOk [(TDollar p (Some tag), (1, 1))].
Proof. exact dollar_tagged_one_token. Qed.
Print Assumptions C06_byte_single.
Print Assumptions C06_triple_double.
Print Assumptions C06_bracket_ident.
Print Assumptions C06_dollar_tagged.

(** the side conditions on the tables regenerated from the running crate: every dialect that
    lexes triple-quoted strings keeps the double quote out of its identifier characters; no
    dialect starts a delimited identifier with a dollar sign; a dollar sign is not alphanumeric;
    and the hypotheses are satisfiable (BigQuery lexes all the B/R/triple forms, MsSql, Redshift
    and SQLite lex [..]) *)
Example C06_verbatim_side_conditions :
  forallb (fun d => negb (d_triple d) || (negb (d_delim_start d cDQ) && negb (d_ident_start d cDQ))) all_dialects = true /\
  forallb (fun d => negb (d_delim_start d cDOLLAR)) all_dialects = true /\
  u_alphanumeric std_uni cDOLLAR = false /\
  d_bq_or_generic dl_bigquery = true /\ d_triple dl_bigquery = true /\
  d_delim_start dl_mssql cLBR = true /\ d_piq dl_mssql = PiqAlways /\
  d_ident_start dl_postgresql cDOLLAR = false.
Proof. vm_compute. repeat split; reflexivity. Qed.

(** witnesses inside the classes (the known findings verbatim:terminator, verbatim:backslash,
    verbatim:dollar-in-payload), computed with the lexer model *)
Theorem C06_byte_quote_refuted : exists p, known_verbatim cSQ false p = true /\
  tokenize rich_dialect plain_uni true (print_str KByteSingle p) <> LexOk [(TStr KByteSingle p, (1, 1))].
Proof. exact byte_quote_refuted. Qed.
Theorem C06_triple_trailing_quote_refuted : exists p, ends_with_c cSQ p = true /\ known_triple cSQ true p = true /\
  tokenize rich_dialect plain_uni true (print_str KTripleSingle p) <> LexOk [(TStr KTripleSingle p, (1, 1))].
Proof. exact triple_trailing_quote_refuted. Qed.
Theorem C06_bracket_refuted : exists p, has_char cRBR p = true /\
  tokenize rich_dialect plain_uni true (print_ident cLBR p) <> LexOk [(TWord p (Some cLBR), (1, 1))].
Proof. exact bracket_refuted. Qed.
Theorem C06_dollar_pair_refuted : exists p, has_pair cDOLLAR cDOLLAR p = true /\ known_dollar p = true /\
  tokenize rich_dialect plain_uni true (print_dollar None p) <> LexOk [(TDollar p None, (1, 1))].
Proof. exact dollar_pair_refuted. Qed.
Theorem C06_dollar_tagged_refuted : exists tag p, tag_ok plain_uni tag = true /\ known_dollar_tagged p = true /\
  tokenize rich_dialect plain_uni true (print_dollar (Some tag) p) <> LexOk [(TDollar p (Some tag), (1, 1))].
Proof. exact dollar_tagged_refuted. Qed.
