(** C06 — printed string literals and quoted identifiers denote exactly their payload.
    Statements only. *)
Require Import SqlV.Base SqlV.Lexer SqlV.Escape SqlV.EscapeProofs SqlVGen.DialectTables.
Local Open Scope N_scope.

(** E'...' round-trips for every payload, dialect and character-class record. *)
Theorem C06_escaped : forall d u p,
  tokenize d u true (print_str KEscaped p) = LexOk [(TStr KEscaped p, (1, 1))].
Proof. exact escaped_one_token. Qed.
Print Assumptions C06_escaped.

(** '...' round-trips outside the decidable known-finding class (dialects without
    triple-quoted strings). *)
Theorem C06_single : forall d u p,
  d_triple d = false -> known_quoted cSQ (d_backslash d) false p = false ->
  tokenize d u true (print_str KSingle p) = LexOk [(TStr KSingle p, (1, 1))].
Proof. exact single_one_token. Qed.
Print Assumptions C06_single.

(** ... and is refuted inside it. *)
Theorem C06_single_refuted : exists p,
  has_pair cSQ cSQ p = true /\
  tokenize plain_dialect plain_uni true (print_str KSingle p) <> LexOk [(TStr KSingle p, (1, 1))].
Proof. exact single_doubled_refuted. Qed.

(** quoted identifiers "..." and `...` *)
Theorem C06_ident : forall d u q p,
  (q = cDQ \/ q = cBQ) -> d_delim_start d q = true -> d_piq d = PiqAlways ->
  has_pair q q p = false -> has_pair cBSL q p = false ->
  tokenize d u true (print_ident q p) = LexOk [(TWord p (Some q), (1, 1))].
Proof. exact ident_one_token. Qed.
Print Assumptions C06_ident.

(** N'...' is printed verbatim: round trip iff no quote and no backslash in the payload;
    refuted otherwise. *)
Theorem C06_national : forall d u p,
  has_char cSQ p = false -> has_char cBSL p = false ->
  tokenize d u true (print_str KNational p) = LexOk [(TStr KNational p, (1, 1))].
Proof. exact national_one_token. Qed.
Print Assumptions C06_national.
Theorem C06_national_refuted : exists p,
  has_char cSQ p = true /\
  tokenize plain_dialect plain_uni true (print_str KNational p) <> LexOk [(TStr KNational p, (1, 1))].
Proof. exact national_quote_refuted. Qed.

(** U&'...' round-trips for every payload of Unicode scalar values (every Rust [String] is
    one), in every dialect with Unicode string literals: quotes doubled, backslashes doubled,
    ASCII raw, everything else as \XXXX or \+XXXXXX with upper-case hex digits. *)
Theorem C06_unicode : forall d u p, d_unicode_lit d = true ->
  Forall (fun c => valid_scalar c = true) p ->
  tokenize d u true (print_str KUnicode p) = LexOk [(TStr KUnicode p, (1, 1))].
Proof. exact unicode_one_token. Qed.
Print Assumptions C06_unicode.

(** The scanner-level lemmas the above rest on hold for every quote character, look-ahead
    state and continuation (so they also cover "never changes neighbouring syntax"). *)
Theorem C06_quote_doubling_scanner : forall q, (q =? cBSL) = false -> forall bs p prev ncq rest,
  Good q bs prev p -> starts_with_c q rest = false ->
  qs_loop true q false bs ncq (eq_loop q prev p ++ q :: rest) = Some (p, rest).
Proof. exact qs_escape_quoted. Qed.
Print Assumptions C06_quote_doubling_scanner.

(** Instances on generated data: which built-in dialects satisfy the side conditions. *)
Example C06_generic_ident_side : d_delim_start dl_generic cDQ = true /\ d_piq dl_generic = PiqAlways /\ d_triple dl_generic = false.
Proof. vm_compute. repeat split; reflexivity. Qed.
Example C06_example : tokenize dl_mysql std_uni true (print_str KSingle (s2l "it" ++ [cSQ] ++ s2l "s")) =
                      LexOk [(TStr KSingle (s2l "it" ++ [cSQ] ++ s2l "s"), (1, 1))].
Proof. vm_compute. reflexivity. Qed.
