(** C09 — tokens tile the input exactly and carry their true line and column.
    Statements only.  The theorems hold for EVERY dialect record and every std character
    class record; the generated tables are only needed for the no-panic side condition and
    for the non-vacuity examples. *)
Require Import SqlV.Base SqlV.Lexer SqlV.LexerProofs SqlV.LexerTiling SqlVGen.DialectTables.
Local Open Scope N_scope.

(** Tiling + true positions + "the slice between two consecutive positions is what the
    scanner consumed for that token". *)
Theorem C09_tiling : forall d u unesc s ts, tokenize d u unesc s = LexOk ts ->
  exists cs,
    concat cs = s /\ length cs = length ts /\ Forall (fun c => c <> []) cs /\
    (forall i t q, nth_error ts i = Some (t, q) ->
       q = pos_of (concat (firstn i cs)) /\
       next_token d u unesc (concat (skipn i cs)) = Ok (Some (t, concat (skipn (S i) cs)))).
Proof. exact lex_tiles. Qed.
Print Assumptions C09_tiling.

(** positions strictly increase *)
Theorem C09_monotone : forall d u unesc s ts, tokenize d u unesc s = LexOk ts ->
  forall i j t q t' q', (i < j)%nat -> nth_error ts i = Some (t, q) -> nth_error ts j = Some (t', q') ->
  loc_lt q q'.
Proof. exact lex_mono. Qed.
Print Assumptions C09_monotone.

(** tokenizing any suffix that starts at a token boundary reproduces the remaining tokens,
    with positions counted from the start of the suffix *)
Theorem C09_suffix : forall d u unesc s ts, tokenize d u unesc s = LexOk ts ->
  exists cs, concat cs = s /\ forall i,
    exists ts', tokenize d u unesc (concat (skipn i cs)) = LexOk ts' /\
                map fst ts' = skipn i (map fst ts) /\
                (forall j t q, nth_error ts' j = Some (t, q) -> q = pos_of (concat (firstn j (skipn i cs)))).
Proof. exact lex_suffix. Qed.
Print Assumptions C09_suffix.

(** [pos_of] is the declarative 1-based line (split at LF) / column (in characters). *)
Example pos_of_example : pos_of (s2l "ab" ++ [cLF] ++ s2l "cde") = (2, 4).
Proof. vm_compute. reflexivity. Qed.

(** Generated side condition: no built-in dialect has a delimited-identifier opener without
    a closing quote, hence the tokenizer model returns a value on every input. *)
Ltac prove_delims dl :=
  intros ch; unfold dl; cbn [d_delim_start]; revert ch;
  apply in_set_delims; [reflexivity | vm_compute; reflexivity].
Lemma delims_ok_builtin : Forall delims_ok all_dialects.
Proof.
  unfold all_dialects.
  repeat match goal with
  | |- Forall _ [] => constructor
  | |- Forall _ (?dl :: _) => constructor; [unfold delims_ok; prove_delims dl|]
  end.
Qed.

Theorem C09_total_builtin : forall d, In d all_dialects -> forall u unesc s,
  (exists ts, tokenize d u unesc s = LexOk ts) \/ (exists e a ts, tokenize d u unesc s = LexErr e a ts).
Proof. intros d Hd u unesc s. apply tokenize_total.
  pose proof delims_ok_builtin as H. rewrite Forall_forall in H. apply H. exact Hd. Qed.
Print Assumptions C09_total_builtin.

(** Non-vacuity: a concrete accepted input and its tokens. *)
Example C09_example :
  tokenize dl_generic std_uni true (s2l "a" ++ [cLF] ++ s2l "'x''y' --c") =
  LexOk [ (TWord (s2l "a") None, (1, 1)); (TWs WNewline, (1, 2));
          (TStr KSingle (s2l "x'y"), (2, 1)); (TWs WSpace, (2, 7));
          (TWs (WLine (s2l "--") (s2l "c")), (2, 8)) ].
Proof. vm_compute. reflexivity. Qed.

(** Per-kind spelling: the chunk of input between a token's position and the next token's
    position is that token's own text — verbatim for unquoted words, numbers (plus the L
    suffix), placeholders, custom operators and comments (prefix + body, block comments with
    their delimiters), one of the fixed spellings for punctuation and operators, exactly one
    blank character for whitespace tokens (LF, CR or CRLF for Newline).  For every dialect
    record, std class record, mode and input.  (Quote-delimited kinds: C20 / C06 theorems.) *)
Require Import SqlV.LexerSpell.
Theorem C09_spelling : forall d u unesc s ts, tokenize d u unesc s = LexOk ts ->
  exists cs, concat cs = s /\ length cs = length ts /\
    forall i t q, nth_error ts i = Some (t, q) -> spellb u t (nth i cs []) = true.
Proof. exact lex_spell. Qed.
Print Assumptions C09_spelling.

Example C09_spelling_instances :
  spellb std_uni (TFix FNeq) (s2l "!=") = true /\ spellb std_uni (TFix FNeq) (s2l "<>") = true /\
  spellb std_uni (TFix FNeq) (s2l "=") = false /\ spellb std_uni (TNumber (s2l "1e5") true) (s2l "1e5L") = true /\
  spellb std_uni (TWs (WBlock (s2l " c "))) (s2l "/* c */") = true.
Proof. vm_compute. repeat split; reflexivity. Qed.
