(** C20 — turning un-escaping off preserves every literal's raw text.  Statements only. *)
Require Import SqlV.Base SqlV.Lexer SqlV.Escape SqlV.RawMode SqlVGen.DialectTables.
Local Open Scope N_scope.

(** Raw scanners return the exact source text between the delimiters (any quote character
    other than backslash, with or without backslash handling, any continuation). *)
Theorem C20_raw_body_string : forall q, (q =? cBSL) = false -> forall bs l ncq s r,
  qs_loop false q false bs ncq l = Some (s, r) -> l = s ++ q :: r /\ RawBody q bs s.
Proof. exact qs_raw_verbatim. Qed.
Print Assumptions C20_raw_body_string.

Theorem C20_raw_body_ident : forall q, (q =? cBSL) = false -> forall l s r,
  quoted_ident false q l = Some (s, r) -> l = s ++ q :: r /\ RawBody q false s.
Proof. exact ident_raw_verbatim. Qed.
Print Assumptions C20_raw_body_ident.

(** The heuristic printer reproduces such bodies byte for byte. *)
Theorem C20_print_identity : forall q, (q =? cBSL) = false -> forall bs s,
  RawBody q bs s -> escape_quoted q s = s.
Proof. intros q Hq bs s H. unfold escape_quoted. eapply raw_print_id; eauto. Qed.
Print Assumptions C20_print_identity.

(** Token level, '...' literals: body = source text, printing is the identity on it. *)
Theorem C20_single_quoted : forall d u l s r, d_triple d = false ->
  next_token d u false (cSQ :: l) = Ok (Some (TStr KSingle s, r)) ->
  l = s ++ cSQ :: r /\ RawBody cSQ (d_backslash d) s /\ escape_quoted cSQ s = s.
Proof. exact single_raw_body. Qed.
Print Assumptions C20_single_quoted.

(** Both modes produce token streams of the same shape (kinds, quote styles, positions,
    errors); only payloads of quote-delimited literals and quoted identifiers differ. *)
Theorem C20_same_shape : forall d u s, same_shape_out (tokenize d u true s) (tokenize d u false s).
Proof. exact tokenize_shape. Qed.
Print Assumptions C20_same_shape.

(** Refuted for escaped string literals: no raw branch exists. *)
Theorem C20_escaped_refuted : exists d u s p,
  tokenize d u false s = LexOk [(TStr KEscaped p, (1, 1))] /\ s <> 69 :: cSQ :: p ++ [cSQ].
Proof. exact escaped_ignores_raw_mode. Qed.

Example C20_example :
  tokenize dl_mysql std_uni false (cSQ :: s2l "a" ++ [cSQ; cSQ] ++ s2l "b" ++ [cBSL; cSQ] ++ s2l "c" ++ [cSQ]) =
  LexOk [(TStr KSingle (s2l "a" ++ [cSQ; cSQ] ++ s2l "b" ++ [cBSL; cSQ] ++ s2l "c"), (1, 1))].
Proof. vm_compute. reflexivity. Qed.
