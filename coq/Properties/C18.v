(** C18 — every data type value prints to SQL that parses back to itself.
    Statements only.  [SqlVGen.DataTypeTables] (family tables of the regular Display arms and of
    the regular arms of the keyword match in [parse_data_type_helper]) is regenerated on every run
    by harness/dtx; the theorems are [exact] applications of theories/DataTypeRTProofs.v, their
    side conditions decided by evaluation in the kernel.

    Level: tokens (the tokenizer is C06/C09's subject).  [glue] is the one place where printing
    is not a homomorphism on tokens: adjacent [>] lex as [>>].

    What is proved: the full statement for the table-driven families (71 of the 85 constructors)
    and, over them, nesting to ANY depth of ARRAY<..>, square-bracket suffixes [..[]]/[..[n]],
    Nullable(..), LowCardinality(..) with the [>>] trailing-bracket bookkeeping
    ([C18_round_trip_partial]).  The remaining hand-modelled constructors (parenthesised arrays, STRUCT, UNION, Map, Tuple, Nested,
    ENUM/SET, DateTime64, FixedString, custom names) are executable in the model and tied to the
    implementation by correspondence on every run, but their round trip is not proved: the full
    statement is kept visible as [C18_round_trip_full_statement]; two parser defects
    that made it false were repaired in /repo (6cef4ad); [C18_custom_string_modifier_refuted]
    shows the remaining class on the model itself. *)
Require Import SqlV.Base SqlV.DataTypeRT SqlV.DataTypeRTProofs SqlVGen.DataTypeTables.

(** ** Generated side conditions *)
Lemma c18_no_obligations : dt_obligations = [].
Proof. vm_compute. reflexivity. Qed.

(** every regular Display arm is found again by the parser under its own spelling, with the same
    constructor and family; family keywords are not continuation keywords; hand-modelled arms are
    where the model expects them *)
Lemma c18_family_consistent : family_consistent dt_tables = true.
Proof. vm_compute. reflexivity. Qed.

Definition all_dialects : list (list N) :=
  [s2l "generic"; s2l "ansi"; s2l "bigquery"; s2l "clickhouse"; s2l "databricks"; s2l "duckdb"; s2l "hive";
   s2l "mssql"; s2l "mysql"; s2l "postgresql"; s2l "redshift"; s2l "snowflake"; s2l "sqlite"].

(** dialect gates of the wrappers of the nesting theorem, as the generated table has them *)
Lemma c18_gates :
  forallb (fun d => irr_at dt_tables d (s2l "ARRAY") (s2l "ARRAY#0")) all_dialects = true
  /\ filter (fun d => irr_at dt_tables d (s2l "NULLABLE") (s2l "NULLABLE#0")) all_dialects = [s2l "generic"; s2l "clickhouse"]
  /\ filter (fun d => irr_at dt_tables d (s2l "LOWCARDINALITY") (s2l "LOWCARDINALITY#0")) all_dialects = [s2l "generic"; s2l "clickhouse"].
Proof. vm_compute. repeat split; reflexivity. Qed.

(** ** The property *)

(** Table-driven families: every constructor with every combination of its parameters, under
    every dialect, followed by anything the type grammar cannot absorb. *)
Theorem C18_leaf_round_trip :
  forall (d : list N) (t : dt) (rest : list tok) (fuel : nat),
    leaf_wf dt_tables t = true -> follow_ok dt_tables rest = true ->
    parse_helper dt_tables d (S fuel) (print_dt dt_tables t ++ rest) = POk t false rest.
Proof. exact (fun d => leaf_parse dt_tables d c18_family_consistent). Qed.
Print Assumptions C18_leaf_round_trip.

(** Nesting unbounded: the invariant of the [>>] bookkeeping.  [m] closing brackets of enclosing
    ARRAY<..> are pending and [l] square-bracket suffixes follow the type; the child reports whether
    it consumed one of the pending brackets as the second half of a [>>] — and then leaves any
    following [[] to its parent (repaired in /repo 6cef4ad). *)
Theorem C18_angle_bookkeeping :
  forall (d : list N) (t : dt), PF dt_tables d t ->
  forall (fuel : nat) (l : list (option N)) (m : nat) (rest : list tok),
    (depth t < fuel)%nat -> forallb (size_ok d) l = true -> cond_top dt_tables m rest ->
    parse_helper dt_tables d fuel (glue (print_dt dt_tables t ++ sufx l ++ repeat TGt m ++ rest)) =
      POk (wrapsq t l) (match l with [] => flag t m | _ => false end)
          (close (m - (match l with [] => if flag t m then 1 else 0 | _ => 0 end)) ++ glue rest).
Proof. exact (fun d => nest_inv dt_tables d c18_family_consistent). Qed.
Print Assumptions C18_angle_bookkeeping.

Theorem C18_round_trip_partial :
  forall (d : list N) (t : dt) (rest : list tok),
    PF dt_tables d t -> follow_top dt_tables rest = true ->
    parse_helper dt_tables d (S (length (glue (print_dt dt_tables t ++ rest)))) (glue (print_dt dt_tables t ++ rest))
    = POk t false (glue rest).
Proof. exact (fun d => round_trip_follow dt_tables d c18_family_consistent). Qed.
Print Assumptions C18_round_trip_partial.

(** standing alone: [Parser::parse_data_type] consumes the whole printed text *)
Theorem C18_stand_alone_partial :
  forall (d : list N) (t : dt), PF dt_tables d t ->
    parse_dt dt_tables d (glue (print_dt dt_tables t)) = POk t false [].
Proof. exact (fun d => round_trip_standalone dt_tables d c18_family_consistent). Qed.
Print Assumptions C18_stand_alone_partial.

(** inside a cast: [CAST(x AS <type>)] — the type is followed by [)] *)
Theorem C18_in_cast_partial :
  forall (d : list N) (t : dt) (r : list tok), PF dt_tables d t ->
    parse_helper dt_tables d (S (length (glue (print_dt dt_tables t ++ TRParen :: r)))) (glue (print_dt dt_tables t ++ TRParen :: r))
    = POk t false (TRParen :: glue r).
Proof. exact (fun d t r H => C18_round_trip_partial d t (TRParen :: r) H eq_refl). Qed.
Print Assumptions C18_in_cast_partial.

(** in a column definition: [CREATE TABLE t (c <type>, ..)] / [.. <type>)] — the type is followed by [,]
    (or [)], above; or a constraint keyword, which is in the Follow set as long as it is not one of
    [absorb_kws]) *)
Theorem C18_in_column_def_partial :
  forall (d : list N) (t : dt) (r : list tok), PF dt_tables d t ->
    parse_helper dt_tables d (S (length (glue (print_dt dt_tables t ++ TComma :: r)))) (glue (print_dt dt_tables t ++ TComma :: r))
    = POk t false (TComma :: glue r).
Proof. exact (fun d t r H => C18_round_trip_partial d t (TComma :: r) H eq_refl). Qed.
Print Assumptions C18_in_column_def_partial.

(** the constraint keywords that may follow a column type are in the Follow set *)
Example C18_follow_constraints :
  forallb (fun w => follow_top dt_tables [TWord w])
    [s2l "NOT"; s2l "NULL"; s2l "DEFAULT"; s2l "PRIMARY"; s2l "UNIQUE"; s2l "REFERENCES"; s2l "CHECK";
     s2l "COLLATE"; s2l "CONSTRAINT"; s2l "GENERATED"; s2l "AS"; s2l "COMMENT"; s2l "AUTO_INCREMENT"; s2l "FORMAT"] = true.
Proof. vm_compute. reflexivity. Qed.

(** ** The full statement, and why it needs the known-class exclusions *)

(** "In the form the parser itself produces" is expressible on the model: the value is what the
    parser returns for its own printed tokens *before* gluing (i.e. for the text with a blank
    between adjacent [>]).  The full statement then reads: *)
Definition C18_round_trip_full_statement : Prop :=
  forall (d : list N) (t : dt),
    parse_dt dt_tables d (print_dt dt_tables t) = POk t false [] ->
    parse_dt dt_tables d (glue (print_dt dt_tables t)) = POk t false [].
(** Not proved beyond [C18_stand_alone_partial]; every run evaluates it (through the
    implementation and through the model) on the enumerated values. *)

Definition dINT : dt := DOptLen (s2l "Int") None.

(** Repaired in /repo 6cef4ad (was KNOWN_FINDINGS angle-close:even-run-then-bracket):
    [ARRAY<ARRAY<INT>>[]] — the value the parser produces for [ARRAY< ARRAY< INT > >[]] now comes
    back from its printed (glued) text.  It is an instance of [C18_stand_alone_partial]. *)
Lemma C18_bracket_after_shr :
  let t := DArraySquare (DArrayAngle (DArrayAngle dINT)) None in
  PF dt_tables (s2l "generic") t
  /\ parse_dt dt_tables (s2l "generic") (glue (print_dt dt_tables t)) = POk t false [].
Proof.
  split; [|vm_compute; reflexivity].
  apply PF_square; [reflexivity|].
  repeat (apply PF_angle; [vm_compute; reflexivity | vm_compute; reflexivity | vm_compute; reflexivity | ]).
  apply PF_leaf. vm_compute. reflexivity.
Qed.

(** Repaired in /repo 6cef4ad (was angle-close:struct-even-run-then-comma):
    [STRUCT<a STRUCT<ARRAY<INT>>, b INT>] parses back.  STRUCT is outside the proved fragment
    ([_partial]): this is a computed instance on the model, tied to the implementation by the
    correspondence run. *)
Lemma C18_struct_comma_after_shr :
  let a := Id None (s2l "a") in let b := Id None (s2l "b") in
  let t := DStruct [(Some a, DStruct [(None, DArrayAngle dINT)] BAngle); (Some b, dINT)] BAngle in
  parse_dt dt_tables (s2l "bigquery") (print_dt dt_tables t) = POk t false []
  /\ parse_dt dt_tables (s2l "bigquery") (glue (print_dt dt_tables t)) = POk t false [].
Proof. vm_compute. split; reflexivity. Qed.

(** KNOWN_FINDINGS angle-close:pg-triple-gt is a lexer matter (PostgreSQL makes one operator token
    of [>>>]); on tokens as [glue] delivers them the model has no defect left in the angle
    bookkeeping: the classes of [known_angle_class] other than the PostgreSQL one are kept only
    so that the check notices if they come back. *)

(** KNOWN_FINDINGS custom-modifier:not-a-token — the parser stores a quoted modifier without its
    quotes; the value is outside what the printer can spell. *)
Lemma C18_custom_string_modifier_refuted :
  parse_dt dt_tables (s2l "generic") [W "FOO"; TLParen; TStr (s2l "a b"); TRParen]
  = POk (DCustom [Id None (s2l "FOO")] [TStr (s2l "a b")]) false [].
Proof. vm_compute. reflexivity. Qed.

(** ** Non-vacuity *)
Example C18_concrete_nested :
  let t := DArrayAngle (DArrayAngle (DArrayAngle (DNullable (DTime (s2l "Timestamp") (Some 6) TzWith)))) in
  PF dt_tables (s2l "generic") t
  /\ glue (print_dt dt_tables t) =
       [W "ARRAY"; TLt; W "ARRAY"; TLt; W "ARRAY"; TLt; W "Nullable"; TLParen; W "TIMESTAMP"; TLParen; TNum 6; TRParen;
        W "WITH"; W "TIME"; W "ZONE"; TRParen; TShr; TGt].
Proof.
  split; [|vm_compute; reflexivity].
  repeat (first [ apply PF_angle; [vm_compute; reflexivity | vm_compute; reflexivity | vm_compute; reflexivity | ]
                | apply PF_nullable; [vm_compute; reflexivity | ] ]).
  apply PF_leaf. vm_compute. reflexivity.
Qed.

Example C18_concrete_leaves :
  (1 <=? N.of_nat (length print_rows)) && forallb (fun r => negb (str_eqb (p_ctor r) [])) print_rows = true.
Proof. vm_compute. reflexivity. Qed.
