(** C18 — every data type value prints to SQL that parses back to itself.  (work in progress) *)
Require Import SqlV.Base SqlV.DataTypeRT SqlVGen.DataTypeTables.

Lemma c18_no_obligations : dt_obligations = [].
Proof. vm_compute. reflexivity. Qed.

Lemma c18_family_consistent : family_consistent dt_tables = true.
Proof. vm_compute. reflexivity. Qed.
