(** C12 — the recursion limit only ever surfaces as the recursion-limit error.
    Statements only.  The generic theorems live in theories/LimitMono.v; the instance data
    (discard-site inventory, guard shapes, the behaviour of maybe_parse) is regenerated from
    /repo on every run. *)
Require Import SqlV.Base SqlV.Machine SqlV.MachineProofs SqlV.LimitMono SqlV.Pinned.
Require Import SqlVGen.MachineVariant SqlVGen.Inv12.
From Coq Require Import String.

(** For every program built from the parser interface whose speculation sites are
    limit-transparent (or can never see the limit error), for all limits n <= m: the run under
    n ends in the limit error, or has the same outcome and the same final state as under m. *)
Theorem C12_limit_mono : forall A (p : M A), IfaceLT A p -> LimitMonotone p.
Proof. exact limit_mono. Qed.
Print Assumptions C12_limit_mono.

(** The same for every program of the first-order closure language (arbitrary nesting, fuelled
    recursion), when maybe_parse re-raises the limit error. *)
Theorem C12_limit_mono_prog : forall fuel p, LimitMonotone (denote true fuel p).
Proof. exact limit_mono_prog. Qed.
Print Assumptions C12_limit_mono_prog.

(** With the helper that maps every error to "no match" the statement is false. *)
Theorem C12_limit_mono_refuted : exists p : M bool, IfaceAny _ p /\ ~ LimitMonotone p.
Proof. exact limit_mono_refuted. Qed.
Print Assumptions C12_limit_mono_refuted.
Theorem C12_limit_mono_prog_refuted : exists fuel p, ~ LimitMonotone (denote false fuel p).
Proof. exact limit_mono_prog_refuted. Qed.

(** Depth (and tokens, state, option) are restored by every interface program. *)
Theorem C12_depth_restored : forall okm oke A (p : M A), Iface okm oke A p ->
  forall d s, fst (p d s) <> Panic -> depth (snd (p d s)) = depth s.
Proof. exact limit_depth_restored. Qed.
Print Assumptions C12_depth_restored.

(** A guard-free discarded computation never produces the limit error (the static discharge
    of inventory sites that cannot reach a guard). *)
Theorem C12_guard_free : forall A (p : M A), GuardFree A p -> NoStop is_limit p.
Proof. exact guard_free_no_limit. Qed.

(** * Instance: the discard sites of the current tree *)
Local Open Scope string_scope.
Definition swallows (s : string * string * bool) : bool :=
  let '(_, kind, can_limit) := s in
  can_limit && (if String.eqb kind "maybe_parse" then negb maybe_reraises_limit else true).
Definition site_key (s : string * string * bool) : string := fst (fst s).

(** KnownClass of C12: a site of the reviewed list.  Every site that can swallow the limit
    error is in it; anything else breaks this lemma (and the check). *)
Definition KnownSite (s : string * string * bool) : bool := existsb (String.eqb (site_key s)) c12_known_sites.
Lemma C12_sites_covered : forallb (fun s => negb (swallows s) || KnownSite s) discard_sites = true.
Proof. vm_compute. reflexivity. Qed.

(** Every guard is the RAII shape [let _guard = self.recursion_counter.try_decrease()?;]. *)
Lemma C12_guards_raii :
  forallb (fun g => let '(_, ok, n) := g in Nat.eqb ok n) guard_shapes = true /\ unparsed_files = 0%nat.
Proof. vm_compute. split; reflexivity. Qed.

(** [limit_mono] applies to the code as it is iff no swallowing site is left. *)
Definition limit_mono_applies : bool := forallb (fun s => negb (swallows s)) discard_sites.
Lemma applicability_gen (l : list (string * string * bool)) :
  forallb (fun s => negb (swallows s) || KnownSite s) l = true ->
  forallb (fun s => negb (swallows s)) l = true \/
  exists s, In s l /\ swallows s = true /\ KnownSite s = true.
Proof.
  induction l as [|x r IH]; intro H; [left; reflexivity|].
  cbn [forallb] in H. apply andb_true_iff in H as [Hx Hr].
  destruct (swallows x) eqn:Sx.
  - right. exists x. repeat split; [left; reflexivity|exact Sx|exact Hx].
  - destruct (IH Hr) as [Hall|(s & Hin & Hs & Hk)].
    + left. cbn [forallb]. rewrite Sx, Hall. reflexivity.
    + right. exists s. repeat split; auto. right. exact Hin.
Qed.
Lemma C12_applicability : limit_mono_applies = true \/
  exists s, In s discard_sites /\ swallows s = true /\ KnownSite s = true.
Proof. exact (applicability_gen discard_sites C12_sites_covered). Qed.
