(** C05 — printing a parsed statement loses no identifier or literal: the operator core.
    Statements only.  (Outside the core the property is evaluated on the implementation by
    lib/props/C05.py.) *)
Require Import SqlV.Base SqlV.PrecSpec SqlV.Pratt SqlV.PrattProofs SqlV.PrinterCore SqlV.PrinterCoreProofs
  SqlVGen.PrecTables.

Lemma C05_unknown_zero : forall f d lv extra, In (f, d, lv, extra) all_dialects -> lvl d K_UNKNOWN = 0.
Proof.
  intros f d lv extra H. cbn [all_dialects In] in H.
  repeat (destruct H as [H|H]; [inversion H; subst; vm_compute; reflexivity|]). destruct H.
Qed.

(** every content token the parser consumes is stored in the tree, in order (stronger than the
    multiset statement of the property) *)
Theorem C05_core : forall f d lv extra ts e rest,
  In (f, d, lv, extra) all_dialects ->
  parse_expr d ts = Ok (e, rest) -> content ts = content (yield e) ++ content rest.
Proof.
  intros f d lv extra ts e rest Hin. exact (PrinterCoreProofs.C05_core d ts e rest (C05_unknown_zero f d lv extra Hin)).
Qed.
Print Assumptions C05_core.

(** ... and printed back unchanged when the tree is in canonical spelling (no unquoted ESCAPE word) *)
Theorem C05_core_printed : forall f d lv extra ts e rest,
  In (f, d, lv, extra) all_dialects -> canonical e = true ->
  parse_expr d ts = Ok (e, rest) -> content ts = content (ptoks e) ++ content rest.
Proof.
  intros f d lv extra ts e rest Hin. exact (PrinterCoreProofs.C05_core_printed d ts e rest (C05_unknown_zero f d lv extra Hin)).
Qed.
Print Assumptions C05_core_printed.

(** refuted for an unquoted ESCAPE word (known finding core:like-escape-word): the identifier x3
    comes back as the string literal 'x3' *)
Example C05_escape_word_refuted :
  let e := ELike LLike false false (EAtom false 1) (EAtom false 2) (Some (false, 3)) in
  content (yield e) = [CWord 1; CWord 2; CWord 3] /\ content (ptoks e) = [CWord 1; CWord 2; CStr 100003].
Proof. split; vm_compute; reflexivity. Qed.

(** * The DDL core (CREATE TABLE with column definitions; DdlCore.v, DdlCoreInv.v): the tree the model parser
    returns keeps every content token of its input.  [keep] is ANY predicate on tokens that rejects the words
    the statement level tests as keywords (in any capitalisation) and everything that is not a word, a quoted
    word, a number or a string; the input is a list of lexed tokens ([lexed]: both views of each token agree,
    as in [map TT]); the result has no unquoted ESCAPE word ([dword_escape]; the known finding core:like-escape-word;
    implied by canonical spelling, the hypothesis of [C05_core_printed]); [col_faithful]: every spelling the data
    type parser accepts for a column's type has the content of the type's printed form (C18's side). *)
Require SqlV.DdlCore SqlV.DdlCoreProofs SqlV.DdlCoreInv.
Require SqlVGen.DataTypeTables SqlVGen.DdlTables SqlVGen.KeywordTable.
Require Import Coq.Sorting.Permutation.

Lemma C05_ddl_tables_ok : forall d, In d DdlTables.all_ddialects -> DdlCoreProofs.ddialect_ok d = true.
Proof.
  intros d H. cbn [DdlTables.all_ddialects In] in H.
  repeat (destruct H as [H|H]; [subst d; vm_compute; reflexivity|]). destruct H.
Qed.

(** the multiset statement of the property, for the printed statement followed by the unconsumed rest *)
Theorem C05_ddl_content : forall d (keep : DdlCore.dtok -> bool) fuel ts c rest,
  In d DdlTables.all_ddialects ->
  (forall t, DdlCore.kwc t <> None -> keep t = false) ->
  (forall t, keep t = true -> DdlCoreInv.is_lit (DdlCore.tv t) = true) ->
  DdlCore.parse_create_table_core d fuel ts = Ok (c, rest) ->
  Forall DdlCoreInv.lexed ts -> DdlCoreInv.dword_escape c = false ->
  Forall (DdlCoreInv.col_faithful d keep) (DdlCore.columns c) ->
  Permutation (filter keep ts) (filter keep (DdlCore.dtoks (DdlCore.dtab d) c ++ rest)).
Proof.
  intros d keep fuel ts c rest Hin Hkw Hlit.
  exact (DdlCoreInv.ddl_content d (C05_ddl_tables_ok d Hin) keep Hkw Hlit fuel ts c rest).
Qed.
Print Assumptions C05_ddl_content.

(** ... in the order of the input when the elements are printed in input order (Display prints the column
    definitions before the table constraints) *)
Theorem C05_ddl_content_ordered : forall d (keep : DdlCore.dtok -> bool) fuel ts c rest,
  In d DdlTables.all_ddialects ->
  (forall t, DdlCore.kwc t <> None -> keep t = false) ->
  (forall t, keep t = true -> DdlCoreInv.is_lit (DdlCore.tv t) = true) ->
  DdlCore.parse_create_table_core d fuel ts = Ok (c, rest) ->
  Forall DdlCoreInv.lexed ts -> DdlCoreInv.dword_escape c = false ->
  Forall (DdlCoreInv.col_faithful d keep) (DdlCore.columns c) ->
  exists els, (DdlCore.columns c, DdlCore.constraints c) = DdlCoreProofs.split_elems els /\
    filter keep ts = filter keep (DdlCoreInv.dtoks_in d c els ++ rest) /\
    (els = DdlCoreProofs.elems_of c -> filter keep ts = filter keep (DdlCore.dtoks (DdlCore.dtab d) c ++ rest)).
Proof.
  intros d keep fuel ts c rest Hin Hkw Hlit H Hl Hc Hf.
  destruct (DdlCoreInv.ddl_content_ordered d (C05_ddl_tables_ok d Hin) keep Hkw Hlit fuel ts c rest H Hl Hc Hf) as (els & Hs & E).
  exists els. split; [exact Hs|]. split; [exact E|]. intros ->. rewrite DdlCoreInv.dtoks_in_elems_of in E. exact E.
Qed.
Print Assumptions C05_ddl_content_ordered.

(** canonical spelling implies the exclusion *)
Lemma C05_ddl_canonical_no_word_escape : forall c, DdlCoreInv.dcanonical c = true -> DdlCoreInv.dword_escape c = false.
Proof. exact DdlCoreInv.dcanonical_no_word_escape. Qed.

(** the content predicate of the property with the crate's keyword list (keywords::ALL_KEYWORDS, regenerated):
    it satisfies the two conditions on [keep] *)
Definition ddl_content_tok := DdlCoreInv.content_tok KeywordTable.all_keywords.
Lemma C05_ddl_content_tok_ok :
  (forall t, DdlCore.kwc t <> None -> ddl_content_tok t = false) /\
  (forall t, ddl_content_tok t = true -> DdlCoreInv.is_lit (DdlCore.tv t) = true).
Proof.
  split.
  - apply DdlCoreInv.content_tok_kw. vm_compute. reflexivity.
  - apply DdlCoreInv.content_tok_lit.
Qed.

(** the ordered statement is false of the printed statement itself: CREATE TABLE x1 (UNIQUE (x2), x3 INT)
    prints as CREATE TABLE x1 (x3 INT, UNIQUE (x2)) *)
Definition ddl_x n := DdlCore.EE (TAtom false n).
Definition ddl_pre := [DdlCore.TW "CREATE"; DdlCore.TW "TABLE"; ddl_x 1; DdlCore.P_LParen].
Definition ddl_contents d ts :=
  match DdlCore.parse_create_table_core d (S (length ts)) ts with
  | Ok (c, r) => Some (DdlCoreInv.dword_escape c, map DdlCore.tv (filter ddl_content_tok ts),
                       map DdlCore.tv (filter ddl_content_tok (DdlCore.dtoks (DdlCore.dtab d) c ++ r)))
  | _ => None
  end.
Example C05_ddl_content_order_refuted :
  ddl_contents DdlTables.dd_generic
    (ddl_pre ++ [DdlCore.TW "UNIQUE"; DdlCore.P_LParen; ddl_x 2; DdlCore.P_RParen; DdlCore.P_Comma; ddl_x 3;
                 DdlCore.TW "INT"; DdlCore.P_RParen]) =
  Some (false, [DataTypeRT.TWord (ident_text 1); DataTypeRT.TWord (ident_text 2); DataTypeRT.TWord (ident_text 3)],
              [DataTypeRT.TWord (ident_text 1); DataTypeRT.TWord (ident_text 3); DataTypeRT.TWord (ident_text 2)]).
Proof. vm_compute. reflexivity. Qed.
(** refuted for an unquoted ESCAPE word (known finding core:like-escape-word):
    CREATE TABLE x1 (x2 INT DEFAULT x3 LIKE x4 ESCAPE x5) prints the identifier x5 as the string 'x5' *)
Example C05_ddl_escape_word_refuted :
  ddl_contents DdlTables.dd_generic
    (ddl_pre ++ [ddl_x 2; DdlCore.TW "INT"; DdlCore.TW "DEFAULT"; ddl_x 3; DdlCore.TW "LIKE"; ddl_x 4;
                 DdlCore.TW "ESCAPE"; ddl_x 5; DdlCore.P_RParen]) =
  Some (true, [DataTypeRT.TWord (ident_text 1); DataTypeRT.TWord (ident_text 2); DataTypeRT.TWord (ident_text 3);
                DataTypeRT.TWord (ident_text 4); DataTypeRT.TWord (ident_text 5)],
               [DataTypeRT.TWord (ident_text 1); DataTypeRT.TWord (ident_text 2); DataTypeRT.TWord (ident_text 3);
                DataTypeRT.TWord (ident_text 4); DataTypeRT.TStr (ident_text 5)]).
Proof. vm_compute. reflexivity. Qed.

(** * The column types (DataTypeContent.v, DdlCoreContent.v): the data type parser keeps every content token of
    what it consumes, for EVERY type it can return (table-driven families with their lengths / precisions /
    scales, array sizes, ENUM / SET values, the DateTime64 time zone, STRUCT / UNION / Tuple / Nested field
    names, custom type names and modifiers) — so [col_faithful] above holds of every column.  [keep] must also
    reject the words the type grammar reads or prints as keywords ([type_kws], any capitalisation: [int] is
    printed [INT]); the tables pass the decidable test [content_tables_ok].  Numbers are compared by value
    ([TNum n]; VARCHAR(007): known finding parse_literal_uint:normalised, implementation side). *)
Require SqlV.DataTypeContent SqlV.DdlCoreContent.

Lemma C05_type_tables_ok : forall d, In d DdlTables.all_ddialects ->
  DataTypeContent.content_tables_ok (DdlCore.dtab d) = true.
Proof.
  intros d H. cbn [DdlTables.all_ddialects In] in H.
  repeat (destruct H as [H|H]; [subst d; vm_compute; reflexivity|]). destruct H.
Qed.

Theorem C05_type_content : forall d (keep : DdlCore.dtok -> bool) l t r,
  In d DdlTables.all_ddialects ->
  (forall t, keep t = true -> DdlCoreInv.is_lit (DdlCore.tv t) = true) ->
  (forall t w, DdlCore.tv t = DataTypeRT.TWord w ->
     DataTypeRT.mem_str (ascii_upper w) (DataTypeContent.type_kws (DdlCore.dtab d)) = true -> keep t = false) ->
  Forall DdlCoreInv.lexed l -> DdlCore.dtype d l = Ok (t, r) ->
  filter keep l = filter keep (DdlCore.type_toks (DdlCore.dtab d) t) ++ filter keep r.
Proof.
  intros d keep l t r Hin Hlit Hty.
  exact (DdlCoreContent.dtype_content d keep Hlit Hty (C05_type_tables_ok d Hin) l t r).
Qed.
Print Assumptions C05_type_content.

(** [C05_ddl_content_ordered] / [C05_ddl_content] without the hypothesis on the column types *)
Theorem C05_ddl_content_types : forall d (keep : DdlCore.dtok -> bool) fuel ts c rest,
  In d DdlTables.all_ddialects ->
  (forall t, DdlCore.kwc t <> None -> keep t = false) ->
  (forall t, keep t = true -> DdlCoreInv.is_lit (DdlCore.tv t) = true) ->
  (forall t w, DdlCore.tv t = DataTypeRT.TWord w ->
     DataTypeRT.mem_str (ascii_upper w) (DataTypeContent.type_kws (DdlCore.dtab d)) = true -> keep t = false) ->
  DdlCore.parse_create_table_core d fuel ts = Ok (c, rest) ->
  Forall DdlCoreInv.lexed ts -> DdlCoreInv.dword_escape c = false ->
  (exists els, (DdlCore.columns c, DdlCore.constraints c) = DdlCoreProofs.split_elems els /\
     filter keep ts = filter keep (DdlCoreInv.dtoks_in d c els ++ rest)) /\
  Permutation (filter keep ts) (filter keep (DdlCore.dtoks (DdlCore.dtab d) c ++ rest)).
Proof.
  intros d keep fuel ts c rest Hin Hkw Hlit Hty H Hl Hc.
  exact (conj
    (DdlCoreContent.ddl_content_ordered_types d keep Hlit Hty (C05_type_tables_ok d Hin) (C05_ddl_tables_ok d Hin) Hkw fuel ts c rest H Hl Hc)
    (DdlCoreContent.ddl_content_types d keep Hlit Hty (C05_type_tables_ok d Hin) (C05_ddl_tables_ok d Hin) Hkw fuel ts c rest H Hl Hc)).
Qed.
Print Assumptions C05_ddl_content_types.

(** the content predicate of the property meets the condition: every type keyword is in keywords::ALL_KEYWORDS *)
Lemma C05_ddl_content_tok_types_ok : forall d, In d DdlTables.all_ddialects ->
  forall t w, DdlCore.tv t = DataTypeRT.TWord w ->
    DataTypeRT.mem_str (ascii_upper w) (DataTypeContent.type_kws (DdlCore.dtab d)) = true -> ddl_content_tok t = false.
Proof.
  intros d H. apply DdlCoreContent.content_tok_type_kw. cbn [DdlTables.all_ddialects In] in H.
  repeat (destruct H as [H|H]; [subst d; vm_compute; reflexivity|]). destruct H.
Qed.

(** what the conditions exclude.  Tokens that are not lexed (the two views of a token disagree): the equation
    is on tokens, and the printed type is lexed — VARCHAR ( 7 ) with a number token whose expression view is
    missing *)
Example C05_type_content_unlexed_refuted :
  let l := [DdlCore.TW "VARCHAR"; DdlCore.P_LParen; DdlCore.DTok (DataTypeRT.TNum 7) None; DdlCore.P_RParen] in
  exists t, DdlCore.dtype DdlTables.dd_generic l = Ok (t, []) /\
    filter ddl_content_tok l <> filter ddl_content_tok (DdlCore.type_toks DataTypeTables.dt_tables t) ++ [].
Proof. eexists. split; [vm_compute; reflexivity|]. vm_compute. discriminate. Qed.
(** a content predicate that keeps type keywords ([int] is printed [INT]); a Display row of another family than
    the parser alternative (the length is not printed); custom type modifiers: the model keeps the modifier
    token and identifies ['x'] with [x] only in [dt_eqb], so the content is not invariant under [dt_eqb]
    (known finding datatype:custom-modifier-quotes, implementation side) *)
Example C05_type_content_kw_refuted :
  DataTypeContent.content_tables_ok DataTypeContent.T_int = true /\
  DataTypeRT.parse_dt DataTypeContent.T_int (s2l "generic") [DataTypeRT.TWord (s2l "int")] =
    DataTypeRT.POk (DataTypeRT.DOptLen (s2l "Int") None) false [] /\
  filter DataTypeContent.is_litb [DataTypeRT.TWord (s2l "int")] = [DataTypeRT.TWord (s2l "int")] /\
  filter DataTypeContent.is_litb
    (DataTypeRT.glue (DataTypeRT.print_dt DataTypeContent.T_int (DataTypeRT.DOptLen (s2l "Int") None))) =
    [DataTypeRT.TWord (s2l "INT")].
Proof. exact DataTypeContent.type_content_kw_refuted. Qed.
Example C05_custom_modifier_content_refuted :
  let foo := DataTypeRT.TWord (s2l "FOO") in
  exists t1 t2,
    DataTypeRT.parse_dt DataTypeContent.T_none (s2l "generic")
      [foo; DataTypeRT.TLParen; DataTypeRT.TStr (s2l "x"); DataTypeRT.TRParen] = DataTypeRT.POk t1 false [] /\
    DataTypeRT.parse_dt DataTypeContent.T_none (s2l "generic")
      [foo; DataTypeRT.TLParen; DataTypeRT.TWord (s2l "x"); DataTypeRT.TRParen] = DataTypeRT.POk t2 false [] /\
    DataTypeRT.dt_eqb t1 t2 = true /\
    filter DataTypeContent.is_litb (DataTypeRT.glue (DataTypeRT.print_dt DataTypeContent.T_none t1)) =
      [foo; DataTypeRT.TStr (s2l "x")] /\
    filter DataTypeContent.is_litb (DataTypeRT.glue (DataTypeRT.print_dt DataTypeContent.T_none t2)) =
      [foo; DataTypeRT.TWord (s2l "x")].
Proof. exact DataTypeContent.custom_modifier_content_refuted. Qed.

(** * The query core (QueryCore.v, QueryCoreInv.v): the tree the model parser [parse_query] returns, printed,
    has the content tokens of the consumed input.  [keep]: ANY predicate that keeps only identifier / number /
    string tokens.  The printer inserts AS before aliases, drops INNER / OUTER, SELECT ALL, LIMIT ALL and trailing
    commas, writes [USING(..)] and [=] for [==]: none of this is content, and the order of the content tokens is
    kept - except that LIMIT is always printed before OFFSET ([OFFSET a LIMIT b] and [LIMIT a, b] are accepted):
    a permutation in general, the ordered equality when no query of the result has both clauses.
    Exclusion: an unquoted ESCAPE word (known finding core:like-escape-word). *)
Require SqlV.QueryCore SqlV.QueryCoreProofs SqlV.QueryCoreInv.
Require SqlVGen.QueryTables.

Lemma C05_query_tables_ok : forall d, In d QueryTables.all_qdialects -> QueryCoreProofs.dialect_ok d = true.
Proof.
  intros d H. cbn [QueryTables.all_qdialects In] in H.
  repeat (destruct H as [H|H]; [subst d; vm_compute; reflexivity|]). destruct H.
Qed.

Theorem C05_query_content : forall d (keep : QueryCore.qtok -> bool) fuel ts q rest,
  In d QueryTables.all_qdialects ->
  (forall t, keep t = true -> QueryCoreInv.qlit t = true) ->
  QueryCore.parse_query d fuel ts = Ok (q, rest) -> QueryCoreInv.qword_escape q = false ->
  Permutation (filter keep ts) (filter keep (QueryCore.qtoks q ++ rest)).
Proof.
  intros d keep fuel ts q rest Hin Hlit.
  exact (QueryCoreInv.query_content d (C05_query_tables_ok d Hin) keep Hlit fuel ts q rest).
Qed.
Print Assumptions C05_query_content.

Theorem C05_query_content_ordered : forall d (keep : QueryCore.qtok -> bool) fuel ts q rest,
  In d QueryTables.all_qdialects ->
  (forall t, keep t = true -> QueryCoreInv.qlit t = true) ->
  QueryCore.parse_query d fuel ts = Ok (q, rest) -> QueryCoreInv.qcontent_ordered q = true ->
  filter keep ts = filter keep (QueryCore.qtoks q ++ rest).
Proof.
  intros d keep fuel ts q rest Hin Hlit.
  exact (QueryCoreInv.query_content_ordered d (C05_query_tables_ok d Hin) keep Hlit fuel ts q rest).
Qed.
Print Assumptions C05_query_content_ordered.

(** the order is not kept when a query has both clauses: [SELECT x1 OFFSET 1 LIMIT 2] prints
    [SELECT x1 LIMIT 2 OFFSET 1], and so does [SELECT x1 LIMIT 1, 2] (MySQL: LIMIT offset, count) *)
Example C05_query_content_order_refuted :
  let x1 := QueryCore.QE (TAtom false 1) in
  let n1 := QueryCore.QE (TAtom false 5001) in let n2 := QueryCore.QE (TAtom false 5002) in
  let kw := QueryCore.QK in
  forall ts, ts = [kw QueryCore.KSelect; x1; kw QueryCore.KOffset; n1; kw QueryCore.KLimit; n2] \/
             ts = [kw QueryCore.KSelect; x1; kw QueryCore.KLimit; n1; QueryCore.QE TComma; n2] ->
  match QueryCore.parse_query QueryTables.qd_mysql 10 ts with
  | Ok (q, []) => filter QueryCoreInv.qlit ts = [x1; n1; n2] /\ filter QueryCoreInv.qlit (QueryCore.qtoks q) = [x1; n2; n1]
  | _ => False
  end.
Proof. intros x1 n1 n2 kw ts [-> | ->]; vm_compute; split; reflexivity. Qed.

(** the exclusion: [SELECT x1 LIKE x2 ESCAPE x3] prints [ESCAPE 'x3'] - the word becomes a string *)
Example C05_query_escape_word_refuted :
  let ts := [QueryCore.QK QueryCore.KSelect; QueryCore.QE (TAtom false 1); QueryCore.QE (TKw KLike);
             QueryCore.QE (TAtom false 2); QueryCore.QE (TKw KEscape); QueryCore.QE (TAtom false 3)] in
  exists q, QueryCore.parse_query QueryTables.qd_generic 10 ts = Ok (q, []) /\
    QueryCoreInv.qword_escape q = true /\
    ~ Permutation (filter QueryCoreInv.qlit ts) (filter QueryCoreInv.qlit (QueryCore.qtoks q ++ [])).
Proof.
  eexists. split; [vm_compute; reflexivity|]. split; [vm_compute; reflexivity|]. vm_compute. intro H.
  apply (Permutation_in (QueryCore.QE (TAtom false 3))) in H; [|cbn; tauto].
  cbn in H. repeat (destruct H as [H|H]; [discriminate H|]). exact H.
Qed.

(** * The DML core (DmlCore.v, DmlCoreInv.v): the INSERT / UPDATE / DELETE tree the model parser [parse_dml_core]
    returns, printed, has the content tokens of the consumed input.  [keep]: ANY predicate that keeps only
    identifier / number / string tokens (the DML keywords, being words, may be among them).  The printers of the three
    statements write their clauses in the order the parsers read them (RETURNING before ORDER BY / LIMIT in DELETE,
    FROM after SET in UPDATE), drop LIMIT ALL, a FROM the dialect does not read a table after, and the [()] of an
    empty column list: none of this is content; the only reordering is the one inherited from the query core (LIMIT
    before OFFSET in a query).  A DML keyword the parser has re-read as a name ([site]) is printed as the keyword
    again: the statements are about the token lists with these demoted keywords restored ([map unplain]; the
    identity on every lexed text, [C05_dml_content_plain]).  Exclusion: an unquoted ESCAPE word. *)
Require SqlV.DmlCore SqlV.DmlCoreProofs SqlV.DmlCoreInv.
Require SqlVGen.DmlTables.

Lemma C05_dml_tables_ok : forall d, In d DmlTables.all_mdialects -> DmlCoreProofs.mdialect_ok d = true.
Proof.
  intros d H. cbn [DmlTables.all_mdialects In] in H.
  repeat (destruct H as [H|H]; [subst d; vm_compute; reflexivity|]). destruct H.
Qed.

Theorem C05_dml_content : forall d (keep : QueryCore.qtok -> bool) fuel ts s rest,
  In d DmlTables.all_mdialects ->
  (forall t, keep t = true -> QueryCoreInv.qlit t = true) ->
  DmlCore.parse_dml_core d fuel ts = Ok (s, rest) -> DmlCoreInv.mword_escape s = false ->
  Permutation (filter keep (map DmlCore.unplain ts)) (filter keep (DmlCore.mtoks s ++ map DmlCore.unplain rest)).
Proof.
  intros d keep fuel ts s rest Hin Hlit.
  exact (DmlCoreInv.dml_content d (C05_dml_tables_ok d Hin) keep Hlit fuel ts s rest).
Qed.
Print Assumptions C05_dml_content.

Theorem C05_dml_content_ordered : forall d (keep : QueryCore.qtok -> bool) fuel ts s rest,
  In d DmlTables.all_mdialects ->
  (forall t, keep t = true -> QueryCoreInv.qlit t = true) ->
  DmlCore.parse_dml_core d fuel ts = Ok (s, rest) -> DmlCoreInv.mcontent_ordered s = true ->
  filter keep (map DmlCore.unplain ts) = filter keep (DmlCore.mtoks s ++ map DmlCore.unplain rest).
Proof.
  intros d keep fuel ts s rest Hin Hlit.
  exact (DmlCoreInv.dml_content_ordered d (C05_dml_tables_ok d Hin) keep Hlit fuel ts s rest).
Qed.
Print Assumptions C05_dml_content_ordered.

(** on token lists without word numbers of demoted keywords: the statement about the tokens themselves *)
Theorem C05_dml_content_plain : forall d (keep : QueryCore.qtok -> bool) fuel ts s rest,
  In d DmlTables.all_mdialects ->
  (forall t, keep t = true -> QueryCoreInv.qlit t = true) ->
  DmlCore.parse_dml_core d fuel ts = Ok (s, rest) -> DmlCoreInv.mword_escape s = false ->
  forallb DmlCoreProofs.np ts = true -> forallb DmlCoreProofs.np rest = true ->
  Permutation (filter keep ts) (filter keep (DmlCore.mtoks s ++ rest)).
Proof.
  intros d keep fuel ts s rest Hin Hlit.
  exact (DmlCoreInv.dml_content_plain d (C05_dml_tables_ok d Hin) keep Hlit fuel ts s rest).
Qed.
Print Assumptions C05_dml_content_plain.

(** a whole accepted input ([parse_dml_top] rejects the word numbers reserved for demoted keywords) *)
Theorem C05_dml_content_top : forall d (keep : QueryCore.qtok -> bool) ts s,
  In d DmlTables.all_mdialects ->
  (forall t, keep t = true -> QueryCoreInv.qlit t = true) ->
  DmlCore.parse_dml_top d ts = Ok (s, []) -> DmlCoreInv.mword_escape s = false ->
  Permutation (filter keep ts) (filter keep (DmlCore.mtoks s)).
Proof.
  intros d keep ts s Hin Hlit. exact (DmlCoreInv.dml_content_top d (C05_dml_tables_ok d Hin) keep Hlit ts s).
Qed.
Print Assumptions C05_dml_content_top.

Theorem C05_dml_content_ordered_top : forall d (keep : QueryCore.qtok -> bool) ts s,
  In d DmlTables.all_mdialects ->
  (forall t, keep t = true -> QueryCoreInv.qlit t = true) ->
  DmlCore.parse_dml_top d ts = Ok (s, []) -> DmlCoreInv.mcontent_ordered s = true ->
  filter keep ts = filter keep (DmlCore.mtoks s).
Proof.
  intros d keep ts s Hin Hlit. exact (DmlCoreInv.dml_content_ordered_top d (C05_dml_tables_ok d Hin) keep Hlit ts s).
Qed.
Print Assumptions C05_dml_content_ordered_top.

(** the order is not kept when the source query of an INSERT has both clauses:
    [INSERT INTO x1 SELECT x2 OFFSET 1 LIMIT 2] prints [.. LIMIT 2 OFFSET 1] *)
Example C05_dml_content_order_refuted :
  let x := fun n => QueryCore.QE (TAtom false n) in
  let ts := [DmlCore.kw DmlCore.DInsert; DmlCore.kw DmlCore.DInto; x 1; QueryCore.QK QueryCore.KSelect; x 2;
             QueryCore.QK QueryCore.KOffset; x 5001; QueryCore.QK QueryCore.KLimit; x 5002] in
  match DmlCore.parse_dml_core DmlTables.md_generic 10 ts with
  | Ok (s, []) => DmlCoreInv.mcontent_ordered s = false /\ DmlCoreInv.mword_escape s = false /\
                  filter QueryCoreInv.qlit ts = [DmlCore.kw DmlCore.DInsert; DmlCore.kw DmlCore.DInto; x 1; x 2; x 5001; x 5002] /\
                  filter QueryCoreInv.qlit (DmlCore.mtoks s) = [DmlCore.kw DmlCore.DInsert; DmlCore.kw DmlCore.DInto; x 1; x 2; x 5002; x 5001]
  | _ => False
  end.
Proof. vm_compute. repeat split; reflexivity. Qed.

(** the exclusion: [DELETE FROM x1 WHERE x2 LIKE x3 ESCAPE x4] prints [ESCAPE 'x4'] - the word becomes a string *)
Example C05_dml_escape_word_refuted :
  let x := fun n => QueryCore.QE (TAtom false n) in
  let ts := [DmlCore.kw DmlCore.DDelete; QueryCore.QE (TKw KFrom); x 1; QueryCore.QK QueryCore.KWhere; x 2;
             QueryCore.QE (TKw KLike); x 3; QueryCore.QE (TKw KEscape); x 4] in
  match DmlCore.parse_dml_core DmlTables.md_generic 10 ts with
  | Ok (s, []) => DmlCoreInv.mword_escape s = true /\
                  filter QueryCoreInv.qlit ts = [DmlCore.kw DmlCore.DDelete; x 1; x 2; x 3; x 4] /\
                  filter QueryCoreInv.qlit (DmlCore.mtoks s) = [DmlCore.kw DmlCore.DDelete; x 1; x 2; x 3; QueryCore.QE (TAtom true 100004)]
  | _ => False
  end.
Proof. vm_compute. repeat split; reflexivity. Qed.

(** [map unplain] cannot be dropped for token lists outside the lexer's range: the word number [DPLAIN_BASE] (= the
    keyword INSERT read as a name) as a table name prints as the keyword *)
Example C05_dml_demoted_word_refuted :
  let ts := [DmlCore.kw DmlCore.DDelete; QueryCore.QE (TKw KFrom); QueryCore.QE (TAtom false DmlCore.DPLAIN_BASE)] in
  match DmlCore.parse_dml_core DmlTables.md_generic 10 ts with
  | Ok (s, []) => DmlCoreInv.mword_escape s = false /\ forallb DmlCoreProofs.np ts = false /\
                  filter QueryCoreInv.qlit ts = [DmlCore.kw DmlCore.DDelete; QueryCore.QE (TAtom false DmlCore.DPLAIN_BASE)] /\
                  filter QueryCoreInv.qlit (DmlCore.mtoks s) = [DmlCore.kw DmlCore.DDelete; DmlCore.kw DmlCore.DInsert]
  | _ => False
  end.
Proof. vm_compute. repeat split; reflexivity. Qed.
