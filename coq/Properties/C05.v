(** C05 — printing a parsed statement loses no identifier or literal: the operator core.
    Statements only.  (Outside the core the property is evaluated on the implementation by
    lib/props/C05.py.) *)
Require Import SqlV.Base SqlV.PrecSpec SqlV.Pratt SqlV.PrattProofs SqlV.PrinterCore SqlV.PrinterCoreProofs
  SqlVGen.PrecTables.

Lemma C05_unknown_zero : forall f d lv extra, In (f, d, lv, extra) all_dialects -> lvl d K_UNKNOWN = 0.
Proof.
  intros f d lv extra H. cbn [all_dialects In] in H.
  repeat (destruct H as [H|H]; [inversion H; subst; vm_compute; reflexivity|]). destruct H.
Qed.

(** every content token the parser consumes is stored in the tree, in order (stronger than the
    multiset statement of the property) *)
Theorem C05_core : forall f d lv extra ts e rest,
  In (f, d, lv, extra) all_dialects ->
  parse_expr d ts = Ok (e, rest) -> content ts = content (yield e) ++ content rest.
Proof.
  intros f d lv extra ts e rest Hin. exact (PrinterCoreProofs.C05_core d ts e rest (C05_unknown_zero f d lv extra Hin)).
Qed.
Print Assumptions C05_core.

(** ... and printed back unchanged when the tree is in canonical spelling (no unquoted ESCAPE word) *)
Theorem C05_core_printed : forall f d lv extra ts e rest,
  In (f, d, lv, extra) all_dialects -> canonical e = true ->
  parse_expr d ts = Ok (e, rest) -> content ts = content (ptoks e) ++ content rest.
Proof.
  intros f d lv extra ts e rest Hin. exact (PrinterCoreProofs.C05_core_printed d ts e rest (C05_unknown_zero f d lv extra Hin)).
Qed.
Print Assumptions C05_core_printed.

(** refuted for an unquoted ESCAPE word (known finding core:like-escape-word): the identifier x3
    comes back as the string literal 'x3' *)
Example C05_escape_word_refuted :
  let e := ELike LLike false false (EAtom false 1) (EAtom false 2) (Some (false, 3)) in
  content (yield e) = [CWord 1; CWord 2; CWord 3] /\ content (ptoks e) = [CWord 1; CWord 2; CStr 100003].
Proof. split; vm_compute; reflexivity. Qed.
