(** C13 — a trailing comma is pure syntax where the option or dialect allows it.
    Statements only.  Generic theorems: theories/CommaList.v (over the model of
    is_parse_comma_separated_end / parse_comma_separated / parse_comma_separated0 /
    parse_projection in theories/Machine.v).  Instance data regenerated on every run: the
    reserved-keyword terminator set, the dialect flags, the list-site inventory. *)
Require Import SqlV.Base SqlV.Machine SqlV.MachineProofs SqlV.LimitMono SqlV.CommaList SqlV.Pinned.
Require Import SqlVGen.KeywordTable SqlVGen.Inv13.

(** The list text e1 , e2 , ... , en followed by a terminator parses to the element values,
    for every element parser that is local on its elements, every n, every whitespace layout,
    option on or off (when on: no element begins with a terminator). *)
Theorem C13_list : forall A (f : M A) d more vals e a pre rest s fuel,
  Elem A f d e a -> wf_more A f d (tc s) more vals ->
  toks s = pre ++ list_text e more ++ rest ->
  is_term (d_reserved d) (first_tok rest) = true -> (length vals < fuel)%nat ->
  comma_sep fuel f d (set_idx (length pre) s) =
    (Ok (a :: vals), set_idx (length pre + length (list_text e more)) s).
Proof. exact comma_sep_plain. Qed.
Print Assumptions C13_list.

(** Clause 1: one trailing comma before a terminator, option on: same values, cursor before
    the same terminator. *)
Theorem C13_tc_add : forall A (f : M A) d more vals e a pre sp rest s s' fuel,
  Elem A f d e a -> wf_more A f d true more vals -> sep_ok sp ->
  tc s = true -> tc s' = true ->
  toks s = pre ++ list_text e more ++ rest ->
  toks s' = pre ++ list_text e more ++ sep_toks sp ++ rest ->
  is_term (d_reserved d) (first_tok rest) = true -> (length vals < fuel)%nat ->
  exists t t',
    comma_sep fuel f d (set_idx (length pre) s) = (Ok (a :: vals), t) /\
    comma_sep fuel f d (set_idx (length pre) s') = (Ok (a :: vals), t') /\
    skipn (idx t) (toks t) = rest /\ skipn (idx t') (toks t') = rest.
Proof. exact tc_add. Qed.
Print Assumptions C13_tc_add.

(** Clause 2: switching the option on leaves the parse of a text without trailing comma
    unchanged, unless an element begins with a terminator (reserved clause keyword). *)
Theorem C13_tc_off_on : forall A (f : M A) d more vals e a pre rest s fuel,
  Elem A f d e a -> wf_more A f d true more vals ->
  toks s = pre ++ list_text e more ++ rest ->
  is_term (d_reserved d) (first_tok rest) = true -> (length vals < fuel)%nat ->
  fst (comma_sep fuel f d (set_idx (length pre) (set_tc false s))) = Ok (a :: vals) /\
  fst (comma_sep fuel f d (set_idx (length pre) (set_tc true s))) = Ok (a :: vals) /\
  idx (snd (comma_sep fuel f d (set_idx (length pre) (set_tc false s)))) =
  idx (snd (comma_sep fuel f d (set_idx (length pre) (set_tc true s)))).
Proof. exact tc_off_on. Qed.
Print Assumptions C13_tc_off_on.

(** The excluded case is real (the documented ambiguity). *)
Theorem C13_ambiguity :
  let d := (mk_dial false false [s2l "FROM"]) in
  let ts := [ {| tok := TWord (s2l "a") None no_keyword; line := 1; col := 1 |};
              {| tok := TP PComma; line := 1; col := 2 |}; kw_from ] in
  fst (comma_sep 5 word_elem d (init_state ts false 50)) <> fst (comma_sep 5 word_elem d (init_state ts true 50)).
Proof. exact tc_ambiguity. Qed.

Theorem C13_comma0_empty : forall A (f : M A) d fuel s pre l t rest,
  toks s = pre ++ l ++ t :: rest -> all_ws l -> is_ws t = false ->
  comma_sep0 fuel f (tok t) d (set_idx (length pre) s) = (Ok [], set_idx (length pre) s).
Proof. exact comma0_empty. Qed.

Theorem C13_projection_restores_flag : forall okm oke A (item : M A) fuel d s,
  Iface okm oke A item -> fst (projection fuel item d s) <> Panic ->
  tc (snd (projection fuel item d s)) = tc s /\ depth (snd (projection fuel item d s)) = depth s /\
  pst (snd (projection fuel item d s)) = pst s /\ toks (snd (projection fuel item d s)) = toks s.
Proof. exact projection_restores_flag. Qed.
Print Assumptions C13_projection_restores_flag.

(** * Instance *)
(** The terminator set of the current tree: closers + RESERVED_FOR_COLUMN_ALIAS (generated).
    The clause keywords the property names are in it; ordinary words are not. *)
Definition term_now (t : token) : bool := is_term reserved_for_column_alias t.
Definition kwtok (k : string) : token := TWord (s2l k) None (s2l k).
Lemma C13_terminators :
  forallb (fun k => term_now (kwtok k))
    ["FROM"; "WHERE"; "GROUP"; "HAVING"; "ORDER"; "LIMIT"; "UNION"; "EXCEPT"; "INTERSECT"; "INTO"; "OFFSET"; "FETCH"]%string = true
  /\ forallb term_now [TP PRParen; TP PSemi; TEOF; TP PRBracket; TP PRBrace] = true
  /\ forallb (fun t => negb (term_now t)) [TP PComma; TP PLParen; TWord (s2l "a") None no_keyword; TNum (s2l "1") false;
                                           TWord (s2l "FROM") (Some 34) no_keyword] = true.
Proof. vm_compute. repeat split; reflexivity. Qed.

(** Dialect flags as documented: DuckDB everywhere, BigQuery and Snowflake in projections. *)
Local Open Scope string_scope.
Lemma C13_dialect_flags :
  map (fun x => fst (fst x)) (filter (fun x => snd (fst x)) dialect_flags) = ["duckdb"] /\
  map (fun x => fst (fst x)) (filter (fun x => snd x) dialect_flags) = ["bigquery"; "duckdb"; "snowflake"].
Proof. vm_compute. split; reflexivity. Qed.

(** Every hand-rolled comma loop is reviewed: known to ignore the option (KnownClass of C13)
    or pinned as harmless. *)
Definition KnownLoop (k : string) : bool := existsb (String.eqb k) c13_known_loops.
Lemma C13_loops_covered :
  forallb (fun k => KnownLoop k || existsb (String.eqb k) c13_reviewed_loops) comma_loops = true.
Proof. vm_compute. reflexivity. Qed.
