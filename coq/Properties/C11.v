(** C11 — a script parses as the concatenation of its statements.
    Statements only.  The generic theorems are in theories/Script.v, over the model of
    parse_statements in theories/Machine.v (tied to the code by the in-kernel correspondence:
    operation [PStmts] runs Parser::parse_statements, operation [PBlock] runs the block variant
    parse_statement_list(true) through CREATE PROCEDURE .. AS BEGIN .. END).  Instance data regenerated on every run:
    the inventory of places where a statement parser looks at EOF / consumes the separator /
    advances the cursor in a bare loop. *)
Require Import SqlV.Base SqlV.Machine SqlV.MachineProofs SqlV.MachineRel SqlV.LimitMono SqlV.CommaList SqlV.Script SqlV.Pinned.
Require Import SqlV.WsInvariance SqlV.RecaseInvariance SqlV.BlockProbe.
Require Import SqlVGen.Inv11.

(** For every statement parser and all n: if each statement text is parsed locally (the parser
    stops exactly behind it when [;] or the end of input follows, whatever comes after), then
    the script s1 ;+ s2 ;+ ... ;+ sn with any number of leading and trailing separators and
    any whitespace parses to exactly [a1; ...; an]. *)
Theorem C11_script_concat : forall A (stmt : M A) d more vals ts a lead trail tail s fuel,
  Local A stmt d ts a -> starts_stmt ts -> wf_script A stmt d more vals ->
  all_semi_ok lead -> all_semi_ok trail ->
  toks s = semis_toks lead ++ script_text ts more ++ semis_toks trail ++ tail ->
  first_tok tail = TEOF -> idx s = 0%nat ->
  (length vals + 1 < fuel)%nat ->
  fst (parse_statements fuel stmt d s) = Ok (a :: vals).
Proof. exact C11_script. Qed.
Print Assumptions C11_script_concat.

(** Without a separator the loop reports "end of statement": a statement cannot absorb its
    successor through the loop.  (Before /repo's fix of the top-level END break the public loop
    also stopped in front of END and silently dropped the rest of the input; only the body of a
    BEGIN .. END block does that now, [C11_block_stops_at_end].) *)
Theorem C11_separator_required : forall A (stmt : M A) d ts a rest s fuel,
  Local A stmt d ts a -> starts_stmt ts ->
  toks s = ts ++ rest -> idx s = 0%nat ->
  stmt_end (first_tok rest) = false ->
  (1 < fuel)%nat ->
  (forall pre r s', toks s' = pre ++ ts ++ r -> stmt d (set_idx (length pre) s') = (Ok a, set_idx (length pre + length ts) s')) ->
  fst (parse_statements fuel stmt d s) = Err (Syntax (expected_msg (s2l "end of statement") (peek_from rest 0))).
Proof. exact C11_needs_separator. Qed.
Print Assumptions C11_separator_required.

Theorem C11_block_stops_at_end : forall A (stmt : M A) d ts a rest s fuel,
  Local A stmt d ts a -> starts_stmt ts ->
  toks s = ts ++ rest -> idx s = 0%nat ->
  is_kw (s2l "END") (peek_from rest 0) = true ->
  (1 < fuel)%nat ->
  (forall pre r s', toks s' = pre ++ ts ++ r -> stmt d (set_idx (length pre) s') = (Ok a, set_idx (length pre + length ts) s')) ->
  fst (parse_statement_block fuel stmt d s) = Ok [a].
Proof. exact block_stops_at_end. Qed.
Print Assumptions C11_block_stops_at_end.

(** The loop itself keeps the parser state (depth, option, state) whatever the statements do. *)
Theorem C11_loop_frame : forall okm oke A (stmt : M A) fuel, Iface okm oke A stmt -> Frame (parse_statements fuel stmt).
Proof. intros. eapply iface_frame. apply I_parse_statements. eassumption. Qed.

(** * The block probe: the model of [parse_statement] on  CREATE PROCEDURE <word> AS BEGIN <body> END
      that the correspondence runs against the real parser ([PBlock], Machine.block_probe), the only
      caller of the block variant of the loop. *)

(** It is taken exactly in front of that header; otherwise nothing happens. *)
Theorem C11_block_probe_not_taken : forall fuel d s,
  header_ahead s = false -> block_probe fuel d s = (Ok VUnit, s).
Proof. exact block_probe_not_taken. Qed.
Print Assumptions C11_block_probe_not_taken.

(** Taken, it is [parse_statement]'s route to [parse_create_procedure] under one depth guard:
    the name, AS, BEGIN, the block variant of the loop over the statement parser, END. *)
Theorem C11_block_probe_taken : forall fuel d s n,
  header_ahead s = true -> depth s = S n ->
  block_probe fuel d s =
  let '(o, s') := (next_token ;;; parse_keyword (s2l "PROCEDURE") ;;; create_procedure fuel) d (set_depth n s) in
  (o, set_depth (S (depth s')) s').
Proof. exact block_probe_taken. Qed.
Print Assumptions C11_block_probe_taken.

Theorem C11_block_probe_at_depth_0 : forall fuel d s,
  header_ahead s = true -> depth s = 0%nat -> block_probe fuel d s = (Err Limit, s).
Proof. exact block_probe_at_depth_0. Qed.
Print Assumptions C11_block_probe_at_depth_0.

(** Whatever the body does (errors included), tokens, state, option and depth are as before. *)
Theorem C11_block_probe_frame : forall rr fuel, Frame (denote rr fuel PBlock).
Proof. exact block_probe_frame. Qed.
Print Assumptions C11_block_probe_frame.

(** Whitespace between the tokens and the ASCII case of the keywords do not matter (the probe is
    skipping-only: its look-ahead is five [peek_nth_token]). *)
Theorem C11_block_probe_ws_invariant : forall ts ts' tcf limit rr fuel d,
  same_nonws ts ts' ->
  Ro err_sim (val_rel tok_sim)
     (fst (denote rr fuel PBlock d (init_state ts tcf limit)))
     (fst (denote rr fuel PBlock d (init_state ts' tcf limit))).
Proof. exact block_probe_ws_invariant. Qed.
Print Assumptions C11_block_probe_ws_invariant.

Theorem C11_block_probe_recase_invariant : forall ts ts' tcf limit rr fuel d,
  recased ts ts' ->
  Ro err_recase (val_rel tok_recase)
     (fst (denote rr fuel PBlock d (init_state ts tcf limit)))
     (fst (denote rr fuel PBlock d (init_state ts' tcf limit))).
Proof. exact block_probe_recase_invariant. Qed.
Print Assumptions C11_block_probe_recase_invariant.

(** The body of a block, for every statement parser and all n (the counterpart of
    [C11_script_concat] for the block variant, with the final state): if every statement but the
    last is parsed locally in front of a separator and the last in front of END, then the block
    followed by [expect_keyword END] returns exactly [a1; ...; an] and stops behind END.
    [ok]: the states on which the statement parser is known. *)
Theorem C11_block_body : forall A (stmt : M A) d (ok : mstate -> Prop) B (g : list A -> B) more vals ts a pre ws e rest s fuel,
  ok s -> wf_block A stmt d ok ts a more vals -> all_ws ws -> is_kw (s2l "END") e = true ->
  toks s = pre ++ script_text ts more ++ ws ++ e :: rest ->
  (length vals + 1 < fuel)%nat ->
  (l <- parse_statement_block fuel stmt ;; expect_keyword (s2l "END") ;;; ret (g l)) d (set_idx (length pre) s)
  = (Ok (g (a :: vals)), set_idx (length (pre ++ script_text ts more ++ ws ++ [e])) s).
Proof. exact block_body. Qed.
Print Assumptions C11_block_body.

(** Through the probe: header, such a body over the fragment's statement parser, END; two levels
    of depth suffice whatever n is (one for [parse_statement], one given back by each statement). *)
Theorem C11_block_probe_script : forall d c p nm a_ b more vals ts a ws e rest s fuel k,
  block_header c p nm a_ b = true ->
  wf_block val stmt_core d has_depth ts a more vals -> all_ws ws -> is_kw (s2l "END") e = true ->
  toks s = [c; p; nm; a_; b] ++ script_text ts more ++ ws ++ e :: rest -> idx s = 0%nat ->
  depth s = S (S k) -> (length vals + 1 < fuel)%nat ->
  block_probe fuel d s
  = (Ok (VList (a :: vals)), set_idx (length ([c; p; nm; a_; b] ++ script_text ts more ++ ws ++ [e])) s).
Proof. exact block_probe_script. Qed.
Print Assumptions C11_block_probe_script.

(** Instance for all n: n+1 bare COMMIT / END statements, one or more [;] between two of them,
    whitespace anywhere in the body, then END (an END behind a separator is a statement, the END
    behind a statement closes the block). *)
Theorem C11_block_probe_commits : forall d c p nm a_ b ws0 c0 l ws e rest s fuel k,
  block_header c p nm a_ b = true ->
  all_ws ws0 -> is_kw (s2l "COMMIT") c0 || is_kw (s2l "END") c0 = true -> bare_ok l ->
  all_ws ws -> is_kw (s2l "END") e = true ->
  toks s = [c; p; nm; a_; b] ++ script_text (ws0 ++ [c0]) (bare_more l) ++ ws ++ e :: rest -> idx s = 0%nat ->
  depth s = S (S k) -> (length l + 2 < fuel)%nat ->
  block_probe fuel d s
  = (Ok (VList (repeat (VBool false) (S (length l)))),
     set_idx (length ([c; p; nm; a_; b] ++ script_text (ws0 ++ [c0]) (bare_more l) ++ ws ++ [e])) s).
Proof. exact block_probe_commits. Qed.
Print Assumptions C11_block_probe_commits.

(** Non-vacuity on the model: body  COMMIT ; ; commit AND CHAIN  then END (what follows END is left
    alone); no closing END; missing separator; depth 1 and 0; not at the cursor. *)
Theorem C11_block_probe_example :
  bp_run (bp_header ++ bp_body ++ [bp_kw "END" "END"; bp_mk (TP PSemi); bp_kw "COMMIT" "COMMIT"]) 2
    = (Ok (VList [VBool false; VBool true]), 18%nat, 2%nat)
  /\ bp_run (bp_header ++ bp_body) 2
    = (Err (Syntax (s2l "Expected: END, found: EOF")), 16%nat, 2%nat)
  /\ bp_run (bp_header ++ [bp_kw "COMMIT" "COMMIT"; bp_mk (TWs 0); bp_kw "COMMIT" "COMMIT"; bp_kw "END" "END"]) 2
    = (Err (Syntax (s2l "Expected: end of statement, found: COMMIT at Line: 1, Column: 1")), 9%nat, 2%nat)
  /\ bp_run (bp_header ++ bp_body ++ [bp_kw "END" "END"]) 1
    = (Err Limit, 8%nat, 1%nat)
  /\ bp_run (bp_header ++ bp_body ++ [bp_kw "END" "END"]) 0
    = (Err Limit, 0%nat, 0%nat)
  /\ bp_run (bp_mk (TP PSemi) :: bp_header ++ bp_body ++ [bp_kw "END" "END"]) 2
    = (Ok VUnit, 0%nat, 2%nat).
Proof. exact block_probe_example. Qed.
Print Assumptions C11_block_probe_example.

(** * Instance: every place where a statement parser can tell EOF from [;], consumes the
      separator, or advances in a bare loop is reviewed (KnownClass = [c11_known_sites]). *)
Local Open Scope string_scope.
Definition KnownGreedy (k : string) : bool := existsb (String.eqb k) c11_known_sites.
Lemma C11_sites_covered :
  forallb (fun k => KnownGreedy k || existsb (String.eqb k) c11_reviewed_sites) consumer_sites = true.
Proof. vm_compute. reflexivity. Qed.
