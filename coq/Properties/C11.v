(** C11 — a script parses as the concatenation of its statements.
    Statements only.  The generic theorems are in theories/Script.v, over the model of
    parse_statements in theories/Machine.v (tied to the code by the in-kernel correspondence:
    operation [PStmts] runs Parser::parse_statements).  Instance data regenerated on every run:
    the inventory of places where a statement parser looks at EOF / consumes the separator /
    advances the cursor in a bare loop. *)
Require Import SqlV.Base SqlV.Machine SqlV.MachineProofs SqlV.LimitMono SqlV.CommaList SqlV.Script SqlV.Pinned.
Require Import SqlVGen.Inv11.

(** For every statement parser and all n: if each statement text is parsed locally (the parser
    stops exactly behind it when [;] or the end of input follows, whatever comes after), then
    the script s1 ;+ s2 ;+ ... ;+ sn with any number of leading and trailing separators and
    any whitespace parses to exactly [a1; ...; an]. *)
Theorem C11_script_concat : forall A (stmt : M A) d more vals ts a lead trail tail s fuel,
  Local A stmt d ts a -> starts_stmt ts -> wf_script A stmt d more vals ->
  all_semi_ok lead -> all_semi_ok trail ->
  toks s = semis_toks lead ++ script_text ts more ++ semis_toks trail ++ tail ->
  first_tok tail = TEOF -> idx s = 0%nat ->
  (length vals + 1 < fuel)%nat ->
  fst (parse_statements fuel stmt d s) = Ok (a :: vals).
Proof. exact C11_script. Qed.
Print Assumptions C11_script_concat.

(** Without a separator the loop reports "end of statement": a statement cannot absorb its
    successor through the loop.  (Before /repo's fix of the top-level END break the public loop
    also stopped in front of END and silently dropped the rest of the input; only the body of a
    BEGIN .. END block does that now, [C11_block_stops_at_end].) *)
Theorem C11_separator_required : forall A (stmt : M A) d ts a rest s fuel,
  Local A stmt d ts a -> starts_stmt ts ->
  toks s = ts ++ rest -> idx s = 0%nat ->
  stmt_end (first_tok rest) = false ->
  (1 < fuel)%nat ->
  (forall pre r s', toks s' = pre ++ ts ++ r -> stmt d (set_idx (length pre) s') = (Ok a, set_idx (length pre + length ts) s')) ->
  fst (parse_statements fuel stmt d s) = Err (Syntax (expected_msg (s2l "end of statement") (peek_from rest 0))).
Proof. exact C11_needs_separator. Qed.
Print Assumptions C11_separator_required.

Theorem C11_block_stops_at_end : forall A (stmt : M A) d ts a rest s fuel,
  Local A stmt d ts a -> starts_stmt ts ->
  toks s = ts ++ rest -> idx s = 0%nat ->
  is_kw (s2l "END") (peek_from rest 0) = true ->
  (1 < fuel)%nat ->
  (forall pre r s', toks s' = pre ++ ts ++ r -> stmt d (set_idx (length pre) s') = (Ok a, set_idx (length pre + length ts) s')) ->
  fst (parse_statement_block fuel stmt d s) = Ok [a].
Proof. exact block_stops_at_end. Qed.
Print Assumptions C11_block_stops_at_end.

(** The loop itself keeps the parser state (depth, option, state) whatever the statements do. *)
Theorem C11_loop_frame : forall okm oke A (stmt : M A) fuel, Iface okm oke A stmt -> Frame (parse_statements fuel stmt).
Proof. intros. eapply iface_frame. apply I_parse_statements. eassumption. Qed.

(** * Instance: every place where a statement parser can tell EOF from [;], consumes the
      separator, or advances in a bare loop is reviewed (KnownClass = [c11_known_sites]). *)
Local Open Scope string_scope.
Definition KnownGreedy (k : string) : bool := existsb (String.eqb k) c11_known_sites.
Lemma C11_sites_covered :
  forallb (fun k => KnownGreedy k || existsb (String.eqb k) c11_reviewed_sites) consumer_sites = true.
Proof. vm_compute. reflexivity. Qed.
