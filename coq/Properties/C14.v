(** C14 — all public entry points agree on the same text.
    Statements only.  Generic theorems: theories/Routes.v (on MachineRel.v / MachineProofs.v).
    Instance data regenerated from /repo on every run: every write to parser state, the
    save/modify/restore shapes of the sticky fields, every read of a token location. *)
Require Import SqlV.Base SqlV.Machine SqlV.MachineProofs SqlV.LimitMono SqlV.MachineRel SqlV.CommaList SqlV.Script SqlV.Routes SqlV.Pinned.
Require Import SqlVGen.Inv14.

(** Tokens with or without locations: equal values up to token locations, errors equal up to
    the position text — for every program of the closure language (raw primitives included) ... *)
Theorem C14_route_tokens : forall rr fuel p d ts tcf limit,
  Ro err_sim (val_rel tok_sim)
     (fst (denote rr fuel p d (init_state ts tcf limit)))
     (fst (denote rr fuel p d (init_state (strip_loc ts) tcf limit))).
Proof. exact route_tokens. Qed.
Print Assumptions C14_route_tokens.

(** ... and for the statement loop over any statement parser built from the interface. *)
Theorem C14_route_tokens_statements : forall A (RA : A -> A -> Prop) (stmt stmt' : M A) fuel d ts tcf limit,
  IfaceR tok_sim A RA stmt stmt' ->
  Ro err_sim (Forall2 RA)
     (fst (parse_statements fuel stmt d (init_state ts tcf limit)))
     (fst (parse_statements fuel stmt' d (init_state (strip_loc ts) tcf limit))).
Proof. exact route_tokens_statements. Qed.
Print Assumptions C14_route_tokens_statements.

(** Any public call on a configured parser leaves it configured, whatever the outcome. *)
Theorem C14_call_keeps_configuration : forall okm oke A (p : M A) c d s,
  Iface okm oke A p -> configured c s -> fst (p d s) <> Panic -> configured c (snd (p d s)).
Proof. exact call_keeps_configuration. Qed.

(** After ANY history of interface calls on re-targeted token vectors (failing and
    limit-exceeding ones included), the re-targeted parser is a fresh parser. *)
Theorem C14_reuse_fresh : forall okm oke A d c (h : list (list twl * M A)) s s1,
  (forall ts p, In (ts, p) h -> Iface okm oke A p) ->
  configured c s -> after A d h s = Some s1 ->
  configured c s1 /\ forall ts (p : M A), p d (retarget ts s1) = p d (fresh c ts).
Proof. exact reuse_fresh. Qed.
Print Assumptions C14_reuse_fresh.

(** The convenience function is the explicit route with the dialect's default configuration. *)
Theorem C14_parse_sql_def : forall lex A (stmt : M A) fuel d sql,
  parse_sql lex A stmt fuel d sql = explicit_route lex A stmt fuel (default_cfg d) d sql.
Proof. exact parse_sql_def. Qed.

(** A local sub-parser gives the same value standalone and at every embedding position. *)
Theorem C14_embed_elem : forall A (f : M A) d ts a,
  Elem A f d ts a ->
  (forall tcf limit, f d (init_state ts tcf limit) = (Ok a, set_idx (length ts) (init_state ts tcf limit))) /\
  (forall pre rest s, toks s = pre ++ ts ++ rest -> delim d (first_tok rest) = true ->
      fst (f d (set_idx (length pre) s)) = Ok a).
Proof. exact embed_elem. Qed.
Theorem C14_embed_stmt : forall A (stmt : M A) d ts a,
  Local A stmt d ts a ->
  (forall tcf limit, fst (stmt d (init_state ts tcf limit)) = Ok a) /\
  (forall pre rest s, toks s = pre ++ ts ++ rest -> stmt_end (first_tok rest) = true ->
      fst (stmt d (set_idx (length pre) s)) = Ok a).
Proof. exact embed_stmt. Qed.

(** * Instance: the state discipline of the current tree *)
Local Open Scope string_scope.
Definition mem (k : string) (l : list string) : bool := existsb (String.eqb k) l.

(** every write to tokens/index/state/options/recursion_counter is in a modelled constructor or
    primitive, or is a reviewed cursor write *)
Lemma C14_writes_covered :
  forallb (fun w => let '(key, field, modelled) := w in modelled || mem key c14_reviewed_writes) state_writes = true.
Proof. vm_compute. reflexivity. Qed.

(** the sticky fields are only configured (with_options / with_recursion_limit) or
    saved-modified-restored with no early exit in between *)
(** reviewed exception: inside parse_projection's clean outer bracket of options.trailing_commas the
    item closure puts the saved value back for the item and the projection value back after it
    (one block-local "write without restore"); accepted only next to exactly one clean bracket of
    the same function and field and no other unrestored write there *)
Definition same_site (fn field : string) (s : string * string * string * bool) : bool :=
  let '(f, fl, _, _) := s in String.eqb f fn && String.eqb fl field.
Definition item_closure_ok (fn field : string) : bool :=
  String.eqb fn "parser/mod:parse_projection" && String.eqb field "options.trailing_commas" &&
  Nat.eqb (List.length (filter (fun s => same_site fn field s && (let '(_, _, sh, e) := s in String.eqb sh "save-modify-restore" && negb e)) sticky_shapes)) 1 &&
  Nat.eqb (List.length (filter (same_site fn field) sticky_shapes)) 2.
Lemma C14_shapes_ok :
  forallb (fun s => let '(fn, field, shape, early) := s in
             (String.eqb shape "save-modify-restore" && negb early)
             || (String.eqb shape "write-without-restore" && mem fn ["parser/mod:with_options"; "parser/mod:with_recursion_limit"])
             || (String.eqb shape "write-without-restore" && item_closure_ok fn field))
          sticky_shapes = true.
Proof. vm_compute. reflexivity. Qed.

Lemma C14_locations_covered : forallb (fun k => mem k c14_location_reads) location_reads = true /\ unparsed_files = 0%nat.
Proof. vm_compute. split; reflexivity. Qed.
