(** C07 — whitespace and comments between tokens never change the parse (lexer level).
    Statements only. *)
Require Import SqlV.Base SqlV.Lexer SqlV.LexerProofs SqlV.LexerTiling.
Local Open Scope N_scope.

(** Re-lexing from any token boundary reproduces the remaining tokens: what follows a
    whitespace run is tokenized independently of what preceded it. *)
Theorem C07_boundary_independence : forall d u unesc s ts, tokenize d u unesc s = LexOk ts ->
  exists cs, concat cs = s /\ forall i,
    exists ts', tokenize d u unesc (concat (skipn i cs)) = LexOk ts' /\
                map fst ts' = skipn i (map fst ts).
Proof.
  intros d u unesc s ts H. destruct (lex_suffix d u unesc s ts H) as (cs & Hc & Hs).
  exists cs. split; [exact Hc|]. intro i. destruct (Hs i) as (ts' & H1 & H2 & _). eauto.
Qed.
Print Assumptions C07_boundary_independence.

(** * Look-ahead insensitivity of the lexer (LexerLookahead.v): what a token is does not depend on
    WHICH blank follows it, nor on what comes after that blank; a blank gap can be replaced by
    any other blank gap without changing the non-whitespace token sequence.  Proved for every
    dialect table regenerated from the running crate except Redshift, whose delimited-identifier
    opener looks past blanks (refuted below on the real Redshift table: the finding
    redshift:needs-identifier-start of C06). *)
Require Import SqlV.LexerLookahead SqlV.LexerLookaheadInst SqlVGen.DialectTables.

Theorem C07_token_lookahead : forall (d : Lexer.dialect) unesc c b r b' r' t,
  In d DialectTables.all_dialects -> piq_always d = true -> blank b -> blank b' -> not_ws t ->
  next_token d std_uni unesc (c ++ b :: r) = Ok (Some (t, b :: r)) ->
  next_token d std_uni unesc (c ++ b' :: r') = Ok (Some (t, b' :: r')).
Proof. exact lookahead_blank_dialects. Qed.
Print Assumptions C07_token_lookahead.

Theorem C07_blank_gap : forall (d : Lexer.dialect) unesc a w w' rest tsa ts,
  In d DialectTables.all_dialects -> piq_always d = true ->
  blanks w -> blanks w' -> w <> [] -> w' <> [] ->
  tokenize d std_uni unesc a = LexOk tsa -> ~ ends_with_line (map fst tsa) ->
  tokenize d std_uni unesc (a ++ w ++ rest) = LexOk ts ->
  exists ts', tokenize d std_uni unesc (a ++ w' ++ rest) = LexOk ts' /\
              nows (map fst ts') = nows (map fst ts).
Proof. exact tokenize_blank_gap_dialects. Qed.
Print Assumptions C07_blank_gap.

Theorem C07_lookahead_redshift_refuted :
  blank_neutralb dl_redshift std_uni = true /\ probe dl_redshift std_uni [cLBR] = true /\
  next_token dl_redshift std_uni true ([cLBR] ++ cSP :: [49; cRBR]) = Ok (Some (TFix FLBracket, cSP :: [49; cRBR])) /\
  next_token dl_redshift std_uni true ([cLBR] ++ cSP :: [120; cRBR]) = Ok (Some (TWord [cSP; 120] (Some cLBR), [])).
Proof. exact redshift_bracket_refuted. Qed.

(** which generated dialects the two theorems cover *)
Example C07_lookahead_coverage :
  map piq_always DialectTables.all_dialects = [true; true; true; true; true; true; true; true; true; true; false; true; true].
Proof. exact probing_dialects. Qed.

(** Parser level (proof by interface): every program built from the whitespace-skipping
    cursor interface — in particular the statement loop over any such statement parser —
    gives related results (token-for-token equal values; errors equal up to the position text)
    on two token vectors whose non-whitespace subsequences agree.  That the Rust parsers use
    only this interface is a conformance fact checked by inventory, not by this theorem. *)
Require Import SqlV.Machine SqlV.MachineRel SqlV.Provenance SqlV.WsInvariance.

Theorem C07_parser_ws_invariance : forall ts ts' tcf limit rr fuel p d,
  same_nonws ts ts' -> skipping_only p = true ->
  Ro err_sim (val_rel tok_sim)
     (fst (denote rr fuel p d (init_state ts tcf limit)))
     (fst (denote rr fuel p d (init_state ts' tcf limit))).
Proof. exact ws_invariance_init. Qed.
Print Assumptions C07_parser_ws_invariance.

Theorem C07_script_ws_invariance : forall ts ts' A (RA : A -> A -> Prop) (stmt stmt' : M A) tcf limit fuel d,
  same_nonws ts ts' -> IfaceR tok_sim A RA stmt stmt' ->
  Ro err_sim (Forall2 RA)
     (fst (parse_statements fuel stmt d (init_state ts tcf limit)))
     (fst (parse_statements fuel stmt' d (init_state ts' tcf limit))).
Proof. exact ws_invariance_statements. Qed.
Print Assumptions C07_script_ws_invariance.
