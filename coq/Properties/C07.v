(** C07 — whitespace and comments between tokens never change the parse (lexer level).
    Statements only. *)
Require Import SqlV.Base SqlV.Lexer SqlV.LexerProofs SqlV.LexerTiling.
Local Open Scope N_scope.

(** Re-lexing from any token boundary reproduces the remaining tokens: what follows a
    whitespace run is tokenized independently of what preceded it. *)
Theorem C07_boundary_independence : forall d u unesc s ts, tokenize d u unesc s = LexOk ts ->
  exists cs, concat cs = s /\ forall i,
    exists ts', tokenize d u unesc (concat (skipn i cs)) = LexOk ts' /\
                map fst ts' = skipn i (map fst ts).
Proof.
  intros d u unesc s ts H. destruct (lex_suffix d u unesc s ts H) as (cs & Hc & Hs).
  exists cs. split; [exact Hc|]. intro i. destruct (Hs i) as (ts' & H1 & H2 & _). eauto.
Qed.
Print Assumptions C07_boundary_independence.
