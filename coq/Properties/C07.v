(** C07 — whitespace and comments between tokens never change the parse (lexer level).
    Statements only. *)
Require Import SqlV.Base SqlV.Lexer SqlV.LexerProofs SqlV.LexerTiling.
Local Open Scope N_scope.

(** Re-lexing from any token boundary reproduces the remaining tokens: what follows a
    whitespace run is tokenized independently of what preceded it. *)
Theorem C07_boundary_independence : forall d u unesc s ts, tokenize d u unesc s = LexOk ts ->
  exists cs, concat cs = s /\ forall i,
    exists ts', tokenize d u unesc (concat (skipn i cs)) = LexOk ts' /\
                map fst ts' = skipn i (map fst ts).
Proof.
  intros d u unesc s ts H. destruct (lex_suffix d u unesc s ts H) as (cs & Hc & Hs).
  exists cs. split; [exact Hc|]. intro i. destruct (Hs i) as (ts' & H1 & H2 & _). eauto.
Qed.
Print Assumptions C07_boundary_independence.

(** * Look-ahead insensitivity of the lexer (LexerLookahead.v): what a token is does not depend on
    WHICH blank follows it, nor on what comes after that blank; a blank gap can be replaced by
    any other blank gap without changing the non-whitespace token sequence.  Proved for every
    dialect table regenerated from the running crate except Redshift, whose delimited-identifier
    opener looks past blanks (refuted below on the real Redshift table: the finding
    redshift:needs-identifier-start of C06). *)
Require Import SqlV.LexerLookahead SqlV.LexerLookaheadInst SqlVGen.DialectTables.

Theorem C07_token_lookahead : forall (d : Lexer.dialect) unesc c b r b' r' t,
  In d DialectTables.all_dialects -> piq_always d = true -> blank b -> blank b' -> not_ws t ->
  next_token d std_uni unesc (c ++ b :: r) = Ok (Some (t, b :: r)) ->
  next_token d std_uni unesc (c ++ b' :: r') = Ok (Some (t, b' :: r')).
Proof. exact lookahead_blank_dialects. Qed.
Print Assumptions C07_token_lookahead.

Theorem C07_blank_gap : forall (d : Lexer.dialect) unesc a w w' rest tsa ts,
  In d DialectTables.all_dialects -> piq_always d = true ->
  blanks w -> blanks w' -> w <> [] -> w' <> [] ->
  tokenize d std_uni unesc a = LexOk tsa -> ~ ends_with_line (map fst tsa) ->
  tokenize d std_uni unesc (a ++ w ++ rest) = LexOk ts ->
  exists ts', tokenize d std_uni unesc (a ++ w' ++ rest) = LexOk ts' /\
              nows (map fst ts') = nows (map fst ts).
Proof. exact tokenize_blank_gap_dialects. Qed.
Print Assumptions C07_blank_gap.

Theorem C07_lookahead_redshift_refuted :
  blank_neutralb dl_redshift std_uni = true /\ probe dl_redshift std_uni [cLBR] = true /\
  next_token dl_redshift std_uni true ([cLBR] ++ cSP :: [49; cRBR]) = Ok (Some (TFix FLBracket, cSP :: [49; cRBR])) /\
  next_token dl_redshift std_uni true ([cLBR] ++ cSP :: [120; cRBR]) = Ok (Some (TWord [cSP; 120] (Some cLBR), [])).
Proof. exact redshift_bracket_refuted. Qed.

(** which generated dialects the two theorems cover *)
Example C07_lookahead_coverage :
  map piq_always DialectTables.all_dialects = [true; true; true; true; true; true; true; true; true; true; false; true; true].
Proof. exact probing_dialects. Qed.

(** * Layout gaps (LexerGaps.v): the same for gaps that contain COMMENTS.  A layout gap
    ([layout_gapb]) is a non-empty string that the model lexes to whitespace/comment tokens only
    and that is closed (a final line comment contains its LF; block comments are balanced by the
    model's nesting rule).  After a prefix that lexes on its own and does not end in a line
    comment, a gap that starts with a blank can be replaced by any other such gap. *)
Require Import SqlV.LexerGaps SqlV.LexerGapsInst.

Theorem C07_layout_gap : forall (d : Lexer.dialect) unesc a g g' rest tsa ts,
  In d DialectTables.all_dialects -> piq_always d = true ->
  starts_blankb g = true -> starts_blankb g' = true ->
  layout_gapb d std_uni unesc g = true -> layout_gapb d std_uni unesc g' = true ->
  tokenize d std_uni unesc a = LexOk tsa -> ~ ends_with_line (map fst tsa) ->
  tokenize d std_uni unesc (a ++ g ++ rest) = LexOk ts ->
  exists ts', tokenize d std_uni unesc (a ++ g' ++ rest) = LexOk ts' /\
              nows (map fst ts') = nows (map fst ts).
Proof. exact tokenize_layout_gap_dialects. Qed.
Print Assumptions C07_layout_gap.

(** every generated dialect, Redshift included, for prefixes without a delimited-identifier opener
    followed by whitespace only *)
Theorem C07_layout_gap_probe_free : forall (d : Lexer.dialect) unesc a g g' rest tsa ts,
  In d DialectTables.all_dialects -> probe_freeb d std_uni a = true ->
  starts_blankb g = true -> starts_blankb g' = true ->
  layout_gapb d std_uni unesc g = true -> layout_gapb d std_uni unesc g' = true ->
  tokenize d std_uni unesc a = LexOk tsa -> ~ ends_with_line (map fst tsa) ->
  tokenize d std_uni unesc (a ++ g ++ rest) = LexOk ts ->
  exists ts', tokenize d std_uni unesc (a ++ g' ++ rest) = LexOk ts' /\
              nows (map fst ts') = nows (map fst ts).
Proof. exact tokenize_layout_gap_probe_free. Qed.
Print Assumptions C07_layout_gap_probe_free.

(** converse direction: a comment gap collapses to one blank, one blank expands to a comment gap *)
Theorem C07_layout_gap_to_blank : forall (d : Lexer.dialect) unesc a g b rest tsa ts,
  In d DialectTables.all_dialects -> piq_always d = true ->
  starts_blankb g = true -> layout_gapb d std_uni unesc g = true -> blank b ->
  tokenize d std_uni unesc a = LexOk tsa -> ~ ends_with_line (map fst tsa) ->
  tokenize d std_uni unesc (a ++ g ++ rest) = LexOk ts ->
  exists ts', tokenize d std_uni unesc (a ++ b :: rest) = LexOk ts' /\
              nows (map fst ts') = nows (map fst ts).
Proof. exact layout_gap_to_blank_dialects. Qed.
Print Assumptions C07_layout_gap_to_blank.

Theorem C07_blank_to_layout_gap : forall (d : Lexer.dialect) unesc a g b rest tsa ts,
  In d DialectTables.all_dialects -> piq_always d = true ->
  starts_blankb g = true -> layout_gapb d std_uni unesc g = true -> blank b ->
  tokenize d std_uni unesc a = LexOk tsa -> ~ ends_with_line (map fst tsa) ->
  tokenize d std_uni unesc (a ++ b :: rest) = LexOk ts ->
  exists ts', tokenize d std_uni unesc (a ++ g ++ rest) = LexOk ts' /\
              nows (map fst ts') = nows (map fst ts).
Proof. exact blank_to_layout_gap_dialects. Qed.
Print Assumptions C07_blank_to_layout_gap.

(** every gap of a text at once: [segs] lists (segment, gap, replacement gap); each segment lexes
    on its own and does not end in a line comment, each gap starts with a blank *)
Theorem C07_every_layout_gap : forall (d : Lexer.dialect) unesc (segs : list (str * str * str)) fin ts,
  In d DialectTables.all_dialects -> piq_always d = true ->
  forallb (seg3_okb d unesc) segs = true ->
  tokenize d std_uni unesc (weave (map fst segs) fin) = LexOk ts ->
  exists ts', tokenize d std_uni unesc (weave (map (fun s => (fst (fst s), snd s)) segs) fin) = LexOk ts' /\
              nows (map fst ts') = nows (map fst ts).
Proof. exact tokenize_every_gap_dialects. Qed.
Print Assumptions C07_every_layout_gap.

(** a gap lexes to the same whitespace tokens whatever follows it (a final CR merges with LF) *)
Theorem C07_layout_gap_steps : forall d u unesc tsg g,
  Steps d u unesc g tsg [] -> probe_freeb d u g = true -> gap_toks tsg = true ->
  forall X, exists e, Steps d u unesc (g ++ X) tsg e /\ (e = X \/ X = cLF :: e).
Proof. exact layout_gap_steps. Qed.
Print Assumptions C07_layout_gap_steps.

(** gaps with ANY first character (e.g. a comment opener directly after a token): the adjacency
    is an explicit hypothesis -- the prefix ends at a token boundary of both texts *)
Theorem C07_layout_gap_boundary : forall d u unesc a g g' rest tsa tsa' ts,
  layout_gap0 d u unesc g -> layout_gap0 d u unesc g' ->
  Steps d u unesc (a ++ g ++ rest) tsa (g ++ rest) ->
  Steps d u unesc (a ++ g' ++ rest) tsa' (g' ++ rest) -> nows tsa' = nows tsa ->
  Run d u unesc (a ++ g ++ rest) ts ->
  exists ts', Run d u unesc (a ++ g' ++ rest) ts' /\ nows ts' = nows ts.
Proof. exact layout_gap_boundary. Qed.
Print Assumptions C07_layout_gap_boundary.

(** without [starts_blankb g] the theorem is false of the model: the last token of the prefix
    fuses with the comment opener ([fuses]: inserting one blank before the gap changes the
    non-whitespace tokens).  Refuted classes, on the generated tables:
    "x-" + "-- c" (every dialect: the minus joins the comment), "x|" + "/* c */" (every dialect:
    "|/"), PostgreSQL operator characters + any opener (custom operator), "#" + "--" ("#-"),
    "@" + "/*" where "@" starts identifiers, "x/" + "/*" where "//" is an operator (DuckDB,
    Generic) or a comment opener (Snowflake). *)
Theorem C07_gap_adjacency_refuted :
  Forall (fun d => fuses d (s2l "x-") (s2l "-- c" ++ LFs) (s2l "y")) DialectTables.all_dialects /\
  Forall (fun d => fuses d (s2l "x|") (s2l "/* c */") (s2l "y")) DialectTables.all_dialects /\
  (fuses dl_postgresql (s2l "x<") (s2l "/* c */") (s2l "y") /\
   fuses dl_postgresql (s2l "x<") (s2l "-- c" ++ LFs) (s2l "y")) /\
  fuses dl_ansi (s2l "x #") (s2l "-- c" ++ LFs) (s2l "y") /\
  (fuses dl_mssql (s2l "@") (s2l "/* c */") (s2l "y") /\
   fuses dl_mysql (s2l "@") (s2l "/* c */") (s2l "y") /\
   fuses dl_generic (s2l "@") (s2l "/* c */") (s2l "y")) /\
  (fuses dl_generic (s2l "x/") (s2l "/* c */") (s2l "y") /\
   fuses dl_duckdb (s2l "x/") (s2l "/* c */") (s2l "y")) /\
  fuses dl_snowflake (s2l "x/") (s2l "/* c */") (s2l "y").
Proof.
  exact (conj minus_then_line_comment_fuses (conj pipe_then_block_comment_fuses
        (conj pg_operator_then_block_comment_fuses (conj sharp_then_line_comment_fuses
        (conj at_then_block_comment_fuses (conj slash_then_block_comment_fuses_duck
              slash_then_block_comment_fuses_snowflake)))))).
Qed.
Print Assumptions C07_gap_adjacency_refuted.

(** what a fusing triple refutes *)
Theorem C07_fuses_refutes : forall d a g rest, fuses d a g rest ->
  exists g' tsa ts,
    layout_gap d std_uni true g /\ layout_gap d std_uni true g' /\ starts_blank g' /\
    tokenize d std_uni true a = LexOk tsa /\ ~ ends_with_line (map fst tsa) /\
    tokenize d std_uni true (a ++ g ++ rest) = LexOk ts /\
    ~ exists ts', tokenize d std_uni true (a ++ g' ++ rest) = LexOk ts' /\
                  nows (map fst ts') = nows (map fst ts).
Proof. exact fuses_refutes. Qed.
Print Assumptions C07_fuses_refutes.

(** ... and WITH a side condition on the last character of the prefix the gap may start with a
    comment opener directly after the last token (LexerGapsAdj.v).  [adj_okb d u a g]: [g] starts
    with a blank, or with "--", '/' or '#' where that character is inert for the dialect (no
    identifier part, not numeric/alphanumeric/whitespace) and the last character [k] of [a] is
    none of  - / | # @ %  and -- in a dialect where the opener character is a custom-operator
    character (PostgreSQL) -- [k] is neither an operator starter nor such a character. *)
Require Import SqlV.LexerGapsAdj.

Theorem C07_layout_gap_adjacent : forall (d : Lexer.dialect) unesc a g g' rest tsa ts,
  In d DialectTables.all_dialects -> piq_always d = true ->
  adj_okb d std_uni a g = true -> adj_okb d std_uni a g' = true ->
  layout_gapb d std_uni unesc g = true -> layout_gapb d std_uni unesc g' = true ->
  tokenize d std_uni unesc a = LexOk tsa -> ~ ends_with_line (map fst tsa) ->
  tokenize d std_uni unesc (a ++ g ++ rest) = LexOk ts ->
  exists ts', tokenize d std_uni unesc (a ++ g' ++ rest) = LexOk ts' /\
              nows (map fst ts') = nows (map fst ts).
Proof. exact tokenize_layout_gap_adj_dialects. Qed.
Print Assumptions C07_layout_gap_adjacent.

Theorem C07_every_layout_gap_adjacent : forall (d : Lexer.dialect) unesc (segs : list (str * str * str)) fin ts,
  In d DialectTables.all_dialects -> piq_always d = true ->
  forallb (seg3_adj_okb d unesc) segs = true ->
  tokenize d std_uni unesc (weave (map fst segs) fin) = LexOk ts ->
  exists ts', tokenize d std_uni unesc (weave (map (fun s => (fst (fst s), snd s)) segs) fin) = LexOk ts' /\
              nows (map fst ts') = nows (map fst ts).
Proof. exact tokenize_every_gap_adj_dialects. Qed.
Print Assumptions C07_every_layout_gap_adjacent.

(** token level: a token of the prefix is the same token when the tail "o.." is appended *)
Theorem C07_token_adjacent : forall d u unesc o X1,
  o = cMINUS \/ o = cSLASH \/ o = cHASH -> (o = cMINUS -> peek_is X1 cMINUS = true) ->
  d_ident_part d o = false -> u_numeric u o = false -> u_alphanumeric u o = false ->
  u_whitespace u o = false ->
  forall ch c,
  adj_lastb d o (last (ch :: c) 0) = true ->
  d_delim_start d ch && proper_inside_quotes d u (ch :: c)
    = d_delim_start d ch && proper_inside_quotes d u (ch :: c ++ o :: X1) ->
  forall t c2,
  next_token d u unesc (ch :: c) = Ok (Some (t, c2)) -> (c2 = [] -> closed_ws t = true) ->
  next_token d u unesc (ch :: c ++ o :: X1) = Ok (Some (t, c2 ++ o :: X1)).
Proof. exact next_token_adj. Qed.
Print Assumptions C07_token_adjacent.

(** where the side condition holds: inert opener characters '-', '/', '#' per dialect, and the
    dialects in which they are custom-operator characters *)
Example C07_opener_inert :
  map (fun d => map (opener_inertb d std_uni) [cMINUS; cSLASH; cHASH]) DialectTables.all_dialects =
  [ [true; true; false]; [true; true; true]; [true; true; true]; [true; true; true];
    [true; true; true]; [true; true; true]; [true; true; true]; [true; true; false];
    [true; true; true]; [true; true; true]; [true; true; false]; [true; true; true];
    [true; true; true] ].
Proof. exact opener_inert_table. Qed.

(** comment openers of the generated dialects: "--", "/*", "//", "#" *)
Example C07_comment_openers :
  map (fun d => map (opens_comment d) [s2l "--"; s2l "/*"; s2l "//"; s2l "#"]) DialectTables.all_dialects =
  [ [true; true; false; false]; [true; true; false; false]; [true; true; false; true];
    [true; true; false; false]; [true; true; false; false]; [true; true; false; false];
    [true; true; false; false]; [true; true; false; false]; [true; true; false; false];
    [true; true; false; false]; [true; true; false; false]; [true; true; true; true];
    [true; true; false; false] ].
Proof. exact comment_openers. Qed.

(** Parser level (proof by interface): every program built from the whitespace-skipping
    cursor interface — in particular the statement loop over any such statement parser —
    gives related results (token-for-token equal values; errors equal up to the position text)
    on two token vectors whose non-whitespace subsequences agree.  That the Rust parsers use
    only this interface is a conformance fact checked by inventory, not by this theorem. *)
Require Import SqlV.Machine SqlV.MachineRel SqlV.Provenance SqlV.WsInvariance.

Theorem C07_parser_ws_invariance : forall ts ts' tcf limit rr fuel p d,
  same_nonws ts ts' -> skipping_only p = true ->
  Ro err_sim (val_rel tok_sim)
     (fst (denote rr fuel p d (init_state ts tcf limit)))
     (fst (denote rr fuel p d (init_state ts' tcf limit))).
Proof. exact ws_invariance_init. Qed.
Print Assumptions C07_parser_ws_invariance.

Theorem C07_script_ws_invariance : forall ts ts' A (RA : A -> A -> Prop) (stmt stmt' : M A) tcf limit fuel d,
  same_nonws ts ts' -> IfaceR tok_sim A RA stmt stmt' ->
  Ro err_sim (Forall2 RA)
     (fst (parse_statements fuel stmt d (init_state ts tcf limit)))
     (fst (parse_statements fuel stmt' d (init_state ts' tcf limit))).
Proof. exact ws_invariance_statements. Qed.
Print Assumptions C07_script_ws_invariance.
