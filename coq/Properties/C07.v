(** C07 — whitespace and comments between tokens never change the parse (lexer level).
    Statements only. *)
Require Import SqlV.Base SqlV.Lexer SqlV.LexerProofs SqlV.LexerTiling.
Local Open Scope N_scope.

(** Re-lexing from any token boundary reproduces the remaining tokens: what follows a
    whitespace run is tokenized independently of what preceded it. *)
Theorem C07_boundary_independence : forall d u unesc s ts, tokenize d u unesc s = LexOk ts ->
  exists cs, concat cs = s /\ forall i,
    exists ts', tokenize d u unesc (concat (skipn i cs)) = LexOk ts' /\
                map fst ts' = skipn i (map fst ts).
Proof.
  intros d u unesc s ts H. destruct (lex_suffix d u unesc s ts H) as (cs & Hc & Hs).
  exists cs. split; [exact Hc|]. intro i. destruct (Hs i) as (ts' & H1 & H2 & _). eauto.
Qed.
Print Assumptions C07_boundary_independence.

(** Parser level (proof by interface): every program built from the whitespace-skipping
    cursor interface — in particular the statement loop over any such statement parser —
    gives related results (token-for-token equal values; errors equal up to the position text)
    on two token vectors whose non-whitespace subsequences agree.  That the Rust parsers use
    only this interface is a conformance fact checked by inventory, not by this theorem. *)
Require Import SqlV.Machine SqlV.MachineRel SqlV.Provenance SqlV.WsInvariance.

Theorem C07_parser_ws_invariance : forall ts ts' tcf limit rr fuel p d,
  same_nonws ts ts' -> skipping_only p = true ->
  Ro err_sim (val_rel tok_sim)
     (fst (denote rr fuel p d (init_state ts tcf limit)))
     (fst (denote rr fuel p d (init_state ts' tcf limit))).
Proof. exact ws_invariance_init. Qed.
Print Assumptions C07_parser_ws_invariance.

Theorem C07_script_ws_invariance : forall ts ts' A (RA : A -> A -> Prop) (stmt stmt' : M A) tcf limit fuel d,
  same_nonws ts ts' -> IfaceR tok_sim A RA stmt stmt' ->
  Ro err_sim (Forall2 RA)
     (fst (parse_statements fuel stmt d (init_state ts tcf limit)))
     (fst (parse_statements fuel stmt' d (init_state ts' tcf limit))).
Proof. exact ws_invariance_statements. Qed.
Print Assumptions C07_script_ws_invariance.
