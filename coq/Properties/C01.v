(** C01 — operator core (stub, being built). *)
Require Import SqlV.Base SqlV.PrecSpec SqlV.Pratt SqlV.PrattProofs SqlV.PrinterCore.
