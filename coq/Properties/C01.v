(** C01 — parse -> print -> parse is a fixpoint: the operator core.
    Statements only; instances of PrinterCoreProofs / PrattProofs on the tables regenerated from
    the running crate.  (Statements, queries, DDL/DML and the other Expr variants are outside the
    model: for them the property is evaluated on the implementation by lib/props/C01.py.) *)
Require Import SqlV.Base SqlV.PrecSpec SqlV.Pratt SqlV.PrattProofs SqlV.PrinterCore SqlV.PrinterCoreProofs
  SqlVGen.PrecTables SqlVGen.DialectTables SqlVGen.PrinterTables.
Require SqlV.Lexer.

(** generated side conditions *)
Lemma C01_tables_ok : forall f d lv extra, In (f, d, lv, extra) PrecTables.all_dialects ->
  lvl d K_UNKNOWN = 0 /\ lvl d K_AND <= lvl d C_Between.
Proof.
  intros f d lv extra H. cbn [PrecTables.all_dialects In] in H.
  repeat (destruct H as [H|H]; [inversion H; subst; split; vm_compute; congruence|]). destruct H.
Qed.

(** (b) the classical Pratt round trip: for EVERY tree satisfying the parser's invariant (not only
    parser outputs), every dialect table, whatever follows: parsing the tree's tokens returns it. *)
Theorem C01_token_roundtrip : forall f d lv extra e p rest fuel,
  In (f, d, lv, extra) PrecTables.all_dialects ->
  (height e < fuel)%nat -> shape d e -> wf (flags_of d) (lvl d) e -> lspine_gt (lvl d) p e ->
  rspine_ge (flags_of d) (lvl d) (np d rest) e -> np d rest <= p -> esc_safe e rest ->
  frag_ok d (yield e ++ rest) = true ->
  parse_sub d fuel p (yield e ++ rest) = Ok (e, rest).
Proof.
  intros f d lv extra e p rest fuel Hin. destruct (C01_tables_ok f d lv extra Hin) as [U0 Hand].
  exact (token_roundtrip d U0 Hand e p rest fuel).
Qed.
Print Assumptions C01_token_roundtrip.

(** the same with the boolean image predicate that the check evaluates on every tree the
    implementation returns *)
Theorem C01_image_roundtrip : forall f d lv extra e rest,
  In (f, d, lv, extra) PrecTables.all_dialects ->
  imgb d e rest = true -> parse_expr d (yield e ++ rest) = Ok (e, rest).
Proof.
  intros f d lv extra e rest Hin. destruct (C01_tables_ok f d lv extra Hin) as [U0 Hand].
  exact (imgb_roundtrip d e rest U0 Hand).
Qed.
Print Assumptions C01_image_roundtrip.

(** (a)+(b) for parser outputs: the tree keeps every token; printing in canonical spelling and
    parsing again gives the same tree and the same remainder; printing is idempotent. *)
Theorem C01_core : forall f d lv extra ts e rest,
  In (f, d, lv, extra) PrecTables.all_dialects -> canonical e = true ->
  parse_expr d ts = Ok (e, rest) -> parse_expr d (ptoks e ++ rest) = Ok (norm e, rest).
Proof.
  intros f d lv extra ts e rest Hin. destruct (C01_tables_ok f d lv extra Hin) as [U0 _].
  exact (PrinterCoreProofs.C01_core d ts e rest U0).
Qed.
Print Assumptions C01_core.

Theorem C01_core_tokens : forall f d lv extra ts e rest,
  In (f, d, lv, extra) PrecTables.all_dialects ->
  parse_expr d ts = Ok (e, rest) -> parse_expr d (yield e ++ rest) = Ok (e, rest).
Proof.
  intros f d lv extra ts e rest Hin. destruct (C01_tables_ok f d lv extra Hin) as [U0 _].
  exact (PrinterCoreProofs.C01_core_tokens d ts e rest U0).
Qed.

Theorem C01_print_idempotent : forall e, canonical e = true -> ptoks (norm e) = ptoks e.
Proof. exact print_idempotent. Qed.


(** parser outputs are producible trees: two hypotheses of the round trip hold for whatever the
    model parser returns (the precedence ones are C04's [pratt_invariant]) *)
Theorem C01_parser_shape : forall d ts t rest,
  parse_expr d ts = Ok (t, rest) -> shape d t /\ esc_safe t rest.
Proof. exact parse_expr_shape. Qed.
Print Assumptions C01_parser_shape.

(** uniqueness of the C04 specification, a corollary of the round trip *)
Theorem C01_correct_unique : forall f d lv extra t t' ts,
  In (f, d, lv, extra) PrecTables.all_dialects ->
  Correct_gen (flags_of d) (lvl d) t ts -> Correct_gen (flags_of d) (lvl d) t' ts ->
  shape d t -> shape d t' -> frag_ok d ts = true -> t = t'.
Proof.
  intros f d lv extra t t' ts Hin. destruct (C01_tables_ok f d lv extra Hin) as [U0 Hand].
  exact (correct_unique d U0 Hand t t' ts).
Qed.
Print Assumptions C01_correct_unique.

(** (c) glue [lexview (pp e) = ptoks e]: evaluated by the check on every case (not proved for all
    trees).  It was FALSE for the printer before /repo commits f3b7421 and 0e41d8c (two adjacent
    prefix operators, two postfix [!], ILIKE ANY .. ESCAPE); the former counter-examples, evaluated
    inside the kernel with the lexer model of Lexer.v, now satisfy it. *)
Definition x1 := EAtom false 1.
Definition glue ld ot e := lexview ld std_uni (pp ot e) = Some (ptoks e).
Example C01_glue_minus_minus : glue dl_generic optext_generic (EPre K_Minus (EPre K_Minus x1)).
Proof. vm_compute. reflexivity. Qed.
Example C01_glue_pg_at_at : glue dl_postgresql optext_postgresql (EPre 88 (EPre 88 x1)).
Proof. vm_compute. reflexivity. Qed.
Example C01_glue_postfix_pair : glue dl_generic optext_generic (EPostfix (EPostfix x1)).
Proof. vm_compute. reflexivity. Qed.
Example C01_glue_ilike_any_escape :
  glue dl_generic optext_generic (ELike LILike false true x1 (EAtom false 2) (Some (true, 1))).
Proof. vm_compute. reflexivity. Qed.
Example C01_glue_instance :
  glue dl_generic optext_generic (EBin K_Plus (EPre K_Minus x1) (ENot (EAtom true 2))).
Proof. vm_compute. reflexivity. Qed.

(** (c), proved: the glue statement for EVERY well-formed core tree (PrinterGlue.v), for arbitrary
    tables satisfying the decidable side conditions, and for the 13 generated dialects
    ([glue_dialects]: Pratt table, lexer table, operator spellings of the same dialect), where the
    side conditions are discharged by computation on every run.  [gwf d e]: atoms below 10^40 (what
    the model's [dec] prints), the model's four type names, operator keys of the dialect's tables;
    no tree SHAPE is excluded since /repo commit 5371ab5 (Display decides on the operand's text). *)
Require Import SqlV.PrinterGlue SqlV.PrinterGlueInst.

Theorem C01_glue_tables : forall d ld u ot, glue_side_conditions d ld u ot = true ->
  forall e, gwf d e = true -> lexview ld u (pp ot e) = Some (ptoks e).
Proof. exact PrinterGlue.glue. Qed.
Print Assumptions C01_glue_tables.

Theorem C01_glue : forall d ld ot e, In (d, ld, ot) glue_dialects ->
  gwf d e = true -> lexview ld std_uni (pp ot e) = Some (ptoks e).
Proof. exact glue_generated. Qed.
Print Assumptions C01_glue.

(** what the parser returns satisfies the dialect part of [gwf]; [gextra] is the rest (bounds) *)
Theorem C01_shape_gwf : forall d e, shape d e -> gextra e = true -> gwf d e = true.
Proof. exact shape_gwf. Qed.
Print Assumptions C01_shape_gwf.

(** text level: parse -> print -> lex -> parse is the identity on canonical parser outputs of the core *)
Theorem C01_text_roundtrip : forall d ld ot ts e, In (d, ld, ot) glue_dialects ->
  parse_expr d ts = Ok (e, []) -> canonical e = true -> gextra e = true ->
  exists toks, lexview ld std_uni (pp ot e) = Some toks /\ parse_expr d toks = Ok (e, []).
Proof. exact text_roundtrip_generated. Qed.
Print Assumptions C01_text_roundtrip.

(** * The query core: SELECT / query skeleton (QueryCore.v, QueryCoreProofs.v).
    Token-level model of Parser::parse_query (incl. its WITH branch and parse_cte) / parse_query_body /
    parse_select / parse_select_item / parse_table_and_joins (the join loop, parse_join_constraint) /
    parse_table_factor (tables, derived tables, nested joins with the maybe_parse fallback) /
    parse_optional_alias / parse_parenthesized_column_list / the LIMIT-OFFSET loop and of the Display impls of
    Query / With / Cte / SetExpr / Select / SelectItem / TableWithJoins / Join / TableFactor / OrderByExpr,
    over the expression model above, whose expressions may hold subqueries ([(query)], [x [NOT] IN (query)],
    [[NOT] EXISTS (query)], [x = ANY (query)]: atoms standing for the queries of the expression, read by
    [parse_query] one level down); the dialect records [qd_<dialect>] are regenerated from the running
    crate (gen/QueryTables.v). *)
Require Import SqlV.SetOps SqlV.QueryCore SqlV.QueryCoreProofs SqlVGen.QueryTables.

(** generated side conditions: unknown level 0, AND below BETWEEN, the clause keywords are reserved
    (FROM WHERE GROUP HAVING UNION EXCEPT INTERSECT ORDER LIMIT OFFSET as column alias, all but FROM
    as table alias, and so are the join keywords JOIN INNER LEFT RIGHT FULL CROSS NATURAL ON USING),
    RESERVED_FOR_COLUMN_ALIAS lists only keywords other than NOT, and not EXISTS *)
Lemma C01_query_tables_ok : forall d, In d QueryTables.all_qdialects -> dialect_ok d = true.
Proof.
  intros d H. cbn [QueryTables.all_qdialects In] in H.
  repeat (destruct H as [H|H]; [subst d; vm_compute; reflexivity|]). destruct H.
Qed.

(** every dialect record extends the expression dialect of the same name *)
Lemma C01_query_tables_base :
  map base QueryTables.all_qdialects = map (fun x => snd (fst (fst x))) PrecTables.all_dialects.
Proof. reflexivity. Qed.

(** the round trip: for EVERY well-formed query tree of the fragment (not only parser outputs) - WITH
    [RECURSIVE] and its CTEs with or without column lists, SELECT with joins of every kind and constraint,
    nested joins, derived tables, VALUES and TABLE bodies, set operations, ORDER BY / LIMIT / OFFSET,
    subqueries inside the expressions of every clause -, every dialect, every
    continuation that ends a query: parsing the printed tokens returns the tree and the continuation,
    for every fuel from the nesting level up *)
Theorem C01_query_roundtrip : forall d q rest fuel,
  In d QueryTables.all_qdialects ->
  qwf d q = true -> qfrag d (qtoks q ++ rest) = true -> ender rest = true -> (qlevel q <= fuel)%nat ->
  parse_query d fuel (qtoks q ++ rest) = Ok (q, rest).
Proof.
  intros d q rest fuel Hin. exact (query_roundtrip d (C01_query_tables_ok d Hin) q rest fuel).
Qed.
Print Assumptions C01_query_roundtrip.

Theorem C01_query_body_roundtrip : forall d b p rest fuel,
  In d QueryTables.all_qdialects ->
  bwf d b = true -> blspine_gtb p b = true -> headpow rest <= p -> brspine_geb (headpow rest) b = true ->
  (5 <= hrank rest)%nat -> qfrag d (btoks b ++ rest) = true -> (blevel b <= fuel)%nat ->
  parse_body d fuel p (btoks b ++ rest) = Ok (b, rest).
Proof.
  intros d b p rest fuel Hin. exact (body_roundtrip d (C01_query_tables_ok d Hin) b p rest fuel).
Qed.
Print Assumptions C01_query_body_roundtrip.

(** one element of FROM: a table factor with its joins (parse_table_and_joins); what follows is a comma
    or the end of the FROM clause *)
Theorem C01_query_joins_roundtrip : forall d t rest fuel,
  In d QueryTables.all_qdialects ->
  twj_wf d t = true -> qfrag d (twj_toks t ++ rest) = true ->
  (is_comma rest = true \/ (2 <= hrank rest)%nat) -> (S (twjlevel t) <= fuel)%nat ->
  parse_twj d fuel (twj_toks t ++ rest) = Ok (t, rest).
Proof.
  intros d t rest fuel Hin. exact (twj_roundtrip d (C01_query_tables_ok d Hin) t rest fuel).
Qed.
Print Assumptions C01_query_joins_roundtrip.

(** an expression without subquery atoms needs nothing beyond the conditions of the operator core
    ([ewf]: shape, precedence invariant, canonical spelling, the conservative [frag_ok]): the conditions on
    subquery atoms ([sq_ok], [lead_ok]) hold by themselves *)
Theorem C01_query_plain_expr : forall d e, nobig (yield e) = true -> xwf d (X e []) = ewf (base d) e.
Proof. exact xwf_plain. Qed.
Print Assumptions C01_query_plain_expr.

Theorem C01_qtoks_injective : forall d q1 q2,
  In d QueryTables.all_qdialects ->
  qwf d q1 = true -> qwf d q2 = true -> qfrag d (qtoks q1) = true -> qtoks q1 = qtoks q2 -> q1 = q2.
Proof.
  intros d q1 q2 Hin. exact (qtoks_injective d (C01_query_tables_ok d Hin) q1 q2).
Qed.
Print Assumptions C01_qtoks_injective.

(** the conjuncts of [qwf] / [qfrag] that restrict the trees cannot be dropped: the printed tokens of
    the tree do not parse back to it (computed witnesses on a dialect record with the switch in
    question; none of these trees is an output of the parser in such a dialect) *)
Definition qd_switch (tr un we : bool) : qdialect :=
  {| base := d_generic; res_col := res_col_all; res_tab := res_tab_all; limit_comma := false;
     limit_by := false; trailing := tr; proj_trailing := false; wild_except := we; wild_ilike := false;
     select_as := false; unnest_table := un; hyphen_table := false; group_by_expr := false;
     paren_tables := false; group_with := false; exists_fn := false; values_empty := false |}.
Definition qx n := QE (TAtom false n).
Definition xa n : xexpr := X (EAtom false n) [].
Definition q_sel items from : query := Query None (BSelect false items from None [] None) [] None None.
Definition tw n : twj := Twj (TTable n None) [].
Definition q1 : query := q_sel [IExpr (xa 1)] [].

(** trailing commas: a table after the first one named by a reserved word *)
Example C01_query_trailing_name_refuted :
  exists d q, dialect_ok d = true /\ qfrag d (qtoks q) = true /\
    parse_query d (qlevel q) (qtoks q ++ []) <> Ok (q, []).
Proof.
  exists (qd_switch true false false),
         (q_sel [IExpr (xa 1)] [tw (qx 2); tw (QK KSelect)]).
  vm_compute. repeat split; try reflexivity. discriminate.
Qed.
(** ... a later column of USING (..) named by a reserved word *)
Example C01_query_trailing_column_refuted :
  exists d q, dialect_ok d = true /\ qfrag d (qtoks q) = true /\
    parse_query d (qlevel q) (qtoks q ++ []) <> Ok (q, []).
Proof.
  exists (qd_switch true false false),
         (q_sel [IExpr (xa 1)]
            [Twj (TTable (qx 2) None) [Join (JOp JInner (JUsing [qx 4; QK KWhere])) (TTable (qx 3) None)]]).
  vm_compute. repeat split; try reflexivity. discriminate.
Qed.
(** ... a later CTE named by a reserved word *)
Example C01_query_trailing_cte_refuted :
  exists d q, dialect_ok d = true /\ qfrag d (qtoks q) = true /\
    parse_query d (qlevel q) (qtoks q ++ []) <> Ok (q, []).
Proof.
  exists (qd_switch true false false),
         (Query (Some (With false [Cte (qx 2) [] q1; Cte (QK KSelect) [] q1]))
            (BSelect false [IExpr (xa 1)] [] None [] None) [] None None).
  vm_compute. repeat split; try reflexivity. discriminate.
Qed.
(** FROM UNNEST where UNNEST(..) is a table factor *)
Example C01_query_unnest_name_refuted :
  exists d q, dialect_ok d = true /\ qfrag d (qtoks q) = true /\
    parse_query d (qlevel q) (qtoks q ++ []) <> Ok (q, []).
Proof.
  exists (qd_switch false true false), (q_sel [IExpr (xa 1)] [tw (QE (TKw KUnnest))]).
  vm_compute. repeat split; try reflexivity. discriminate.
Qed.
(** [SELECT * EXCEPT SELECT ..] where [* EXCEPT (..)] is a wildcard option *)
Example C01_query_star_except_refuted :
  exists d q, dialect_ok d = true /\ qwf d q = true /\
    parse_query d (qlevel q) (qtoks q ++ []) <> Ok (q, []).
Proof.
  exists (qd_switch false false true),
         (Query None (BSetOp Except QNone (BSelect false [IWild] [] None [] None)
                   (BSelect false [IExpr (xa 1)] [] None [] None)) [] None None).
  vm_compute. repeat split; try reflexivity. discriminate.
Qed.
(** WITH without RECURSIVE whose first CTE is named RECURSIVE: the text reads as WITH RECURSIVE *)
Example C01_query_recursive_name_refuted :
  exists d q, dialect_ok d = true /\ qfrag d (qtoks q) = true /\
    parse_query d (qlevel q) (qtoks q ++ []) <> Ok (q, []).
Proof.
  exists (qd_switch false false false),
         (Query (Some (With false [Cte (QK KRecursive) [] q1]))
            (BSelect false [IExpr (xa 1)] [] None [] None) [] None None).
  vm_compute. repeat split; try reflexivity. discriminate.
Qed.
(** a parenthesised join whose first table is named SELECT: [(SELECT JOIN x2)] is read as a query *)
Example C01_query_nested_starter_refuted :
  exists d q, dialect_ok d = true /\ qfrag d (qtoks q) = true /\
    parse_query d (qlevel q) (qtoks q ++ []) <> Ok (q, []).
Proof.
  exists (qd_switch false false false),
         (q_sel [IExpr (xa 1)]
            [Twj (TNested (Twj (TTable (QK KSelect) None) [Join (JOp JInner JNone) (TTable (qx 2) None)]) None) []]).
  vm_compute. repeat split; try reflexivity. discriminate.
Qed.
(** parentheses around a single table are not a nested join; USING needs a column *)
Example C01_query_nested_shape_refuted :
  exists d q, dialect_ok d = true /\ qfrag d (qtoks q) = true /\
    parse_query d (qlevel q) (qtoks q ++ []) <> Ok (q, []).
Proof.
  exists (qd_switch false false false),
         (q_sel [IExpr (xa 1)] [Twj (TNested (tw (qx 2)) None) []]).
  vm_compute. repeat split; try reflexivity. discriminate.
Qed.
Example C01_query_using_empty_refuted :
  exists d q, dialect_ok d = true /\ qfrag d (qtoks q) = true /\
    parse_query d (qlevel q) (qtoks q ++ []) <> Ok (q, []).
Proof.
  exists (qd_switch false false false),
         (q_sel [IExpr (xa 1)]
            [Twj (TTable (qx 2) None) [Join (JOp JLeft (JUsing [])) (TTable (qx 3) None)]]).
  vm_compute. repeat split; try reflexivity. discriminate.
Qed.

(** subqueries inside expressions: [sq_ok] / [lead_ok] cannot be dropped either *)
Definition q2 : query := q_sel [IExpr (xa 2)] [].
(** a subquery whose text starts with a parenthesised operand of a set operation is not read as a
    subquery: [((SELECT x2) UNION SELECT x2)] *)
Example C01_query_subquery_lead_refuted :
  exists d q, dialect_ok d = true /\ qfrag d (qtoks q) = true /\
    parse_query d (qlevel q) (qtoks q ++ []) <> Ok (q, []).
Proof.
  exists (qd_switch false false false),
         (q_sel [IExpr (X (ENested (EAtom false SQ_BASE))
                          [Query None (BSetOp Union QNone (BNested q2) (BSelect false [IExpr (xa 2)] [] None [] None)) [] None None])] []).
  vm_compute. repeat split; try reflexivity. discriminate.
Qed.
(** NOT applied to EXISTS (..) is read as NOT EXISTS (..) *)
Example C01_query_not_exists_refuted :
  exists d q, dialect_ok d = true /\ qfrag d (qtoks q) = true /\
    parse_query d (qlevel q) (qtoks q ++ []) <> Ok (q, []).
Proof.
  exists (qd_switch false false false), (q_sel [IExpr (X (ENot (EAtom false EX_BASE)) [q2])] []).
  vm_compute. repeat split; try reflexivity. discriminate.
Qed.
(** ... and is accepted as the atom of NOT EXISTS *)
Example C01_query_not_exists_ok :
  let q := q_sel [IExpr (X (EAtom false NEX_BASE) [q2])] [] in
  qwf (qd_switch false false false) q = true /\
  parse_query (qd_switch false false false) (qlevel q) (qtoks q ++ []) = Ok (q, []).
Proof. vm_compute. split; reflexivity. Qed.

(** FROM TABLE: TABLE ( .. ) is a table function, TABLE is not a table name; VALUES () needs MySQL *)
Example C01_query_table_name_refuted :
  exists d q, dialect_ok d = true /\ qfrag d (qtoks q) = true /\
    parse_query d (qlevel q) (qtoks q ++ []) <> Ok (q, []).
Proof.
  exists (qd_switch false false false), (q_sel [IExpr (xa 1)] [tw (QK KTable)]).
  vm_compute. repeat split; try reflexivity. discriminate.
Qed.
Example C01_query_values_empty_refuted :
  exists d q, dialect_ok d = true /\ qfrag d (qtoks q) = true /\
    parse_query d (qlevel q) (qtoks q ++ []) <> Ok (q, []).
Proof.
  exists (qd_switch false false false), (Query None (BValues [VRow []]) [] None None).
  vm_compute. repeat split; try reflexivity. discriminate.
Qed.

(** * The DDL core: CREATE TABLE with column definitions (DdlCore.v, DdlCoreProofs.v).
    Token-level model of Parser::parse_create -> parse_create_table -> parse_columns -> parse_column_def ->
    parse_optional_column_option / parse_optional_table_constraint and of the Display impls of CreateTable /
    ColumnDef / ColumnOptionDef / ColumnOption / TableConstraint, over the expression model above and the data
    type model of C18 (DataTypeRT.v); the dialect records [dd_<dialect>] are regenerated from the running
    crate (gen/DdlTables.v, gen/DataTypeTables.v).  The names of DdlCore / DdlCoreProofs are used qualified. *)
Require SqlV.DdlCore SqlV.DdlCoreProofs.
Require SqlVGen.DataTypeTables SqlVGen.DdlTables.

(** generated side conditions: unknown level 0, AND below BETWEEN, the data type tables are consistent
    (C18's [family_consistent]), the words that start a column option (NOT NULL DEFAULT PRIMARY UNIQUE CHECK
    REFERENCES CONSTRAINT) are not absorbed by the type grammar, the dialect parses CREATE TABLE with
    Parser::parse_create (every dialect but Snowflake) *)
Lemma C01_ddl_tables_ok : forall d, In d DdlTables.all_ddialects -> DdlCoreProofs.ddialect_ok d = true.
Proof.
  intros d H. cbn [DdlTables.all_ddialects In] in H.
  repeat (destruct H as [H|H]; [subst d; vm_compute; reflexivity|]). destruct H.
Qed.

(** every dialect record uses the generated data type tables and extends the expression dialect of the same name *)
Lemma C01_ddl_tables_base :
  map DdlCore.dtab DdlTables.all_ddialects = map (fun _ => DataTypeTables.dt_tables) DdlTables.all_ddialects /\
  map DdlCore.dbase DdlTables.all_ddialects =
    [PrecTables.d_generic; PrecTables.d_ansi; PrecTables.d_bigquery; PrecTables.d_clickhouse; PrecTables.d_databricks;
     PrecTables.d_duckdb; PrecTables.d_hive; PrecTables.d_mssql; PrecTables.d_mysql; PrecTables.d_postgresql;
     PrecTables.d_redshift; PrecTables.d_sqlite].
Proof. split; reflexivity. Qed.

(** the round trip: for EVERY well-formed CREATE TABLE tree of the fragment (not only parser outputs), every
    dialect, every continuation that ends the statement: parsing the printed tokens returns the tree and the
    continuation, for every fuel above the number of tokens *)
Theorem C01_ddl_roundtrip : forall d c rest fuel,
  In d DdlTables.all_ddialects ->
  DdlCoreProofs.dwf d c = true -> DdlCoreProofs.dfrag d c rest = true -> DdlCoreProofs.dender rest = true ->
  (length (DdlCore.dtoks (DdlCore.dtab d) c ++ rest) < fuel)%nat ->
  DdlCore.parse_create_table_core d fuel (DdlCore.dtoks (DdlCore.dtab d) c ++ rest) = Ok (c, rest).
Proof.
  intros d c rest fuel Hin. exact (DdlCoreProofs.ddl_roundtrip d (C01_ddl_tables_ok d Hin) c rest fuel).
Qed.
Print Assumptions C01_ddl_roundtrip.

Theorem C01_dtoks_injective : forall d c1 c2,
  In d DdlTables.all_ddialects ->
  DdlCoreProofs.dwf d c1 = true -> DdlCoreProofs.dwf d c2 = true ->
  DdlCoreProofs.dfrag d c1 [] = true -> DdlCoreProofs.dfrag d c2 [] = true ->
  DdlCore.dtoks (DdlCore.dtab d) c1 = DdlCore.dtoks (DdlCore.dtab d) c2 -> c1 = c2.
Proof.
  intros d c1 c2 Hin. exact (DdlCoreProofs.dtoks_injective d (C01_ddl_tables_ok d Hin) c1 c2).
Qed.
Print Assumptions C01_dtoks_injective.

(** four conjuncts of [dwf] cannot be dropped: the printed tokens of the tree do not parse back to it
    (computed witnesses on the generated dialect records; none of these trees is an output of the parser,
    which rejects the text in the first place) *)
Definition ddl_x n := DdlCore.EE (TAtom false n).
Definition ddl_int := DataTypeRT.DOptLen (s2l "Int") None.
Definition ddl_tbl cols cons : DdlCore.create_table :=
  {| DdlCore.or_replace := false; DdlCore.temporary := false; DdlCore.if_not_exists := false;
     DdlCore.tbl_name := [ddl_x 1]; DdlCore.columns := cols; DdlCore.constraints := cons |}.
Definition ddl_col n t os : DdlCore.column_def := {| DdlCore.cname := n; DdlCore.ctype := t; DdlCore.coptions := os |}.
Definition ddl_fails d c :=
  DdlCoreProofs.ddialect_ok d = true /\ DdlCoreProofs.dfrag d c [] = true /\
  DdlCore.parse_create_table_core d (S (length (DdlCore.dtoks (DdlCore.dtab d) c)))
    (DdlCore.dtoks (DdlCore.dtab d) c ++ []) <> Ok (c, []).

(** a column named by a word that starts a table constraint: CREATE TABLE x1 (UNIQUE INT) *)
Example C01_ddl_constraint_word_column_refuted :
  ddl_fails DdlTables.dd_generic (ddl_tbl [ddl_col (DdlCore.kt DdlCore.WUnique) ddl_int []] []).
Proof. vm_compute. repeat split; try reflexivity. discriminate. Qed.
(** SQLite: an untyped column whose first option is NULL: CREATE TABLE x1 (x2 NULL) reads NULL as the type *)
Example C01_ddl_sqlite_untyped_null_refuted :
  ddl_fails DdlTables.dd_sqlite
    (ddl_tbl [ddl_col (ddl_x 2) DataTypeRT.DUnspecified [{| DdlCore.oname := None; DdlCore.oopt := DdlCore.ONull |}]] []).
Proof. vm_compute. repeat split; try reflexivity. discriminate. Qed.
(** trailing commas (DuckDB): a column list whose second name is a reserved word: UNIQUE (x2, FROM) *)
Example C01_ddl_trailing_reserved_column_refuted :
  ddl_fails DdlTables.dd_duckdb
    (ddl_tbl [ddl_col (ddl_x 2) ddl_int []]
       [{| DdlCore.tname := None; DdlCore.tbody := DdlCore.TUnique [ddl_x 2; DdlCore.EE (TKw KFrom)] |}]).
Proof. vm_compute. repeat split; try reflexivity. discriminate. Qed.
(** an empty column list: UNIQUE () *)
Example C01_ddl_empty_column_list_refuted :
  ddl_fails DdlTables.dd_generic
    (ddl_tbl [ddl_col (ddl_x 2) ddl_int []] [{| DdlCore.tname := None; DdlCore.tbody := DdlCore.TUnique [] |}]).
Proof. vm_compute. repeat split; try reflexivity. discriminate. Qed.

(** * The DDL core on parser outputs (DdlCoreInv.v): what [parse_create_table_core] returns is well-formed, so
    [C01_ddl_roundtrip] applies to it.  A parser output need not be in canonical spelling ([==], an unquoted
    ESCAPE word: [dcanonical], as in [C01_core]) and its column types need not be in the proved part of the
    data type round trip ([dtypes_hyp], C18); everything else [dwf] asks for is proved of every output. *)
Require SqlV.DdlCoreInv.

Theorem C01_ddl_outputs_wf : forall d fuel ts c rest,
  In d DdlTables.all_ddialects ->
  DdlCore.parse_create_table_core d fuel ts = Ok (c, rest) ->
  DdlCoreInv.dcanonical c = true -> DdlCoreInv.dtypes_hyp d c = true ->
  DdlCoreProofs.dwf d c = true.
Proof.
  intros d fuel ts c rest Hin. exact (DdlCoreInv.ddl_outputs_wf d fuel ts c rest (C01_ddl_tables_ok d Hin)).
Qed.
Print Assumptions C01_ddl_outputs_wf.

(** parse -> print -> parse is a fixpoint on accepted token lists: the printed tokens of the result, followed
    by the same rest, parse back to the same result, for every fuel above their number.  [dfrag] (the
    conservative syntactic test on the printed tokens) stays a hypothesis: see the refuted example below *)
Theorem C01_ddl_fixpoint : forall d fuel ts c rest,
  In d DdlTables.all_ddialects ->
  DdlCore.parse_create_table_core d fuel ts = Ok (c, rest) ->
  DdlCoreInv.dcanonical c = true -> DdlCoreInv.dtypes_hyp d c = true ->
  DdlCoreProofs.dfrag d c rest = true -> DdlCoreProofs.dender rest = true ->
  forall fuel', (length (DdlCore.dtoks (DdlCore.dtab d) c ++ rest) < fuel')%nat ->
  DdlCore.parse_create_table_core d fuel' (DdlCore.dtoks (DdlCore.dtab d) c ++ rest) = Ok (c, rest).
Proof.
  intros d fuel ts c rest Hin. exact (DdlCoreInv.ddl_fixpoint d fuel ts c rest (C01_ddl_tables_ok d Hin)).
Qed.
Print Assumptions C01_ddl_fixpoint.

(** ... and for a whole accepted input ([parse_ddl_top]: only statement terminators follow) *)
Theorem C01_ddl_fixpoint_top : forall d ts c,
  In d DdlTables.all_ddialects ->
  DdlCore.parse_ddl_top d ts = Ok c ->
  DdlCoreInv.dcanonical c = true -> DdlCoreInv.dtypes_hyp d c = true -> DdlCoreProofs.dfrag d c [] = true ->
  DdlCore.parse_create_table_core d (S (length (DdlCore.dtoks (DdlCore.dtab d) c)))
    (DdlCore.dtoks (DdlCore.dtab d) c ++ []) = Ok (c, []).
Proof.
  intros d ts c Hin. exact (DdlCoreInv.ddl_fixpoint_top d ts c (C01_ddl_tables_ok d Hin)).
Qed.
Print Assumptions C01_ddl_fixpoint_top.

(** the hypotheses are needed.  Tokens of the examples: *)
Definition ddl_o k := DdlCore.TT (DataTypeRT.TOther k).
Definition ddl_pre := [DdlCore.TW "CREATE"; DdlCore.TW "TABLE"; ddl_x 1; DdlCore.P_LParen].
Definition ddl_out d ts (p : DdlCore.create_table -> list DdlCore.dtok -> bool) :=
  match DdlCore.parse_create_table_core d (S (length ts)) ts with Ok (c, r) => p c r | _ => false end = true.

(** CREATE TABLE x1 (x2 INT DEFAULT x3 == x4): accepted, the tree keeps [==] and is not [dwf] (its normal form is) *)
Example C01_ddl_output_noncanonical_refuted :
  ddl_out DdlTables.dd_generic
    (ddl_pre ++ [ddl_x 2; DdlCore.TW "INT"; DdlCore.TW "DEFAULT"; ddl_x 3; ddl_o 44; ddl_x 4; DdlCore.P_RParen])
    (fun c _ => negb (DdlCoreInv.dcanonical c) && DdlCoreInv.dtypes_hyp DdlTables.dd_generic c &&
                negb (DdlCoreProofs.dwf DdlTables.dd_generic c) && DdlCoreProofs.dwf DdlTables.dd_generic (DdlCore.ct_norm c)).
Proof. vm_compute. reflexivity. Qed.
(** CREATE TABLE x1 (x2 foo): accepted, a custom type is outside the proved part of the data type round trip *)
Example C01_ddl_output_custom_type_refuted :
  ddl_out DdlTables.dd_generic (ddl_pre ++ [ddl_x 2; DdlCore.TW "foo"; DdlCore.P_RParen])
    (fun c _ => DdlCoreInv.dcanonical c && negb (DdlCoreInv.dtypes_hyp DdlTables.dd_generic c) &&
                negb (DdlCoreProofs.dwf DdlTables.dd_generic c)).
Proof. vm_compute. reflexivity. Qed.
(** [dfrag] cannot be discharged for parser outputs: it is a conservative test.  Databricks (lambda functions
    on): CREATE TABLE x1 (x2 INT DEFAULT x3 IN (x4) -> x5) is accepted ([parse_in] does not try a lambda), its
    tree is canonical, typed and [dwf], the printed tokens parse back to it, yet they fail [frag_ok]
    ([( x4 ) ->] looks like a lambda) *)
Example C01_ddl_output_dfrag_refuted :
  ddl_out DdlTables.dd_databricks
    (ddl_pre ++ [ddl_x 2; DdlCore.TW "INT"; DdlCore.TW "DEFAULT"; ddl_x 3; DdlCore.TW "IN"; DdlCore.P_LParen; ddl_x 4;
                 DdlCore.P_RParen; ddl_o 74; ddl_x 5; DdlCore.P_RParen])
    (fun c r => DdlCoreInv.dcanonical c && DdlCoreInv.dtypes_hyp DdlTables.dd_databricks c &&
                DdlCoreProofs.dwf DdlTables.dd_databricks c && negb (DdlCoreProofs.dfrag DdlTables.dd_databricks c r) &&
                match DdlCore.parse_create_table_core DdlTables.dd_databricks 100
                        (DdlCore.dtoks (DdlCore.dtab DdlTables.dd_databricks) c ++ r) with
                | Ok (c', r') => DdlCore.ct_eqb c c' | _ => false end).
Proof. vm_compute. reflexivity. Qed.

(** * The DML core: INSERT / UPDATE / DELETE around the query core (coq/theories/DmlCore.v,
    DmlCoreProofs.v; coq/gen/DmlTables.v is regenerated from the running crate by lib/props/c01dml.py) *)
Require SqlV.DmlCore SqlV.DmlCoreProofs.
Require SqlVGen.DmlTables.

(** generated side conditions: the query core's [dialect_ok], and the reserved-word lists of the DML
    keywords contain only DML keywords *)
Lemma C01_dml_tables_ok : forall d, In d DmlTables.all_mdialects -> DmlCoreProofs.mdialect_ok d = true.
Proof.
  intros d H. cbn [DmlTables.all_mdialects In] in H.
  repeat (destruct H as [H|H]; [subst d; vm_compute; reflexivity|]). destruct H.
Qed.

(** every record extends the query dialect of the same name *)
Lemma C01_dml_tables_base : map DmlCore.qd DmlTables.all_mdialects = QueryTables.all_qdialects.
Proof. reflexivity. Qed.

(** the round trip: for EVERY well-formed statement tree of the fragment (not only parser outputs) -
    INSERT [INTO] t [(columns)] <query> | DEFAULT VALUES [RETURNING items]; UPDATE <table with joins> SET
    assignments (column or tuple targets) [FROM <table with joins>] [WHERE e] [RETURNING items]; DELETE [t1, t2]
    [FROM] <tables with joins> [USING <tables with joins>] [WHERE e] [RETURNING items] [ORDER BY ..] [LIMIT e],
    with the queries, joins and expressions of the query core inside -, every dialect, every continuation
    that ends a statement: parsing the printed tokens returns the tree and the continuation, for every
    fuel from the nesting level up *)
Theorem C01_dml_roundtrip : forall d s rest fuel,
  In d DmlTables.all_mdialects ->
  DmlCoreProofs.mwf d s = true -> DmlCoreProofs.mfrag d (DmlCore.mtoks s ++ rest) = true -> ender rest = true ->
  (DmlCoreProofs.mlevel s <= fuel)%nat ->
  DmlCore.parse_dml_core d fuel (DmlCore.mtoks s ++ rest) = Ok (s, rest).
Proof.
  intros d s rest fuel Hin. exact (DmlCoreProofs.dml_roundtrip d (C01_dml_tables_ok d Hin) s rest fuel).
Qed.
Print Assumptions C01_dml_roundtrip.

Theorem C01_mtoks_injective : forall d s1 s2,
  In d DmlTables.all_mdialects ->
  DmlCoreProofs.mwf d s1 = true -> DmlCoreProofs.mwf d s2 = true -> DmlCoreProofs.mfrag d (DmlCore.mtoks s1) = true ->
  DmlCore.mtoks s1 = DmlCore.mtoks s2 -> s1 = s2.
Proof.
  intros d s1 s2 Hin. exact (DmlCoreProofs.mtoks_injective d (C01_dml_tables_ok d Hin) s1 s2).
Qed.
Print Assumptions C01_mtoks_injective.

(** a table with its joins in front of the USING clause of DELETE (a follower [C01_query_joins_roundtrip]
    does not cover): its last join, if any, has a constraint or is CROSS / NATURAL *)
Theorem C01_dml_joins_before_using : forall d t rest fuel,
  In d QueryTables.all_qdialects ->
  twj_wf d t = true -> qfrag d (twj_toks t ++ rest) = true -> DmlCoreProofs.is_using rest = true ->
  DmlCoreProofs.twj_bare t = false -> (S (twjlevel t) <= fuel)%nat ->
  parse_twj d fuel (twj_toks t ++ rest) = Ok (t, rest).
Proof.
  intros d t rest fuel Hin. exact (DmlCoreProofs.twj_roundtrip_using d (C01_query_tables_ok d Hin) t rest fuel).
Qed.
Print Assumptions C01_dml_joins_before_using.

(** the conjuncts of [mwf] that restrict the trees cannot be dropped: the tree is not [mwf], its printed
    tokens pass [mfrag] and do not parse back to it (computed witnesses on a dialect record with the
    switch in question) *)
Definition md_switch (ktab : list qtok) (tr uf nf : bool) : DmlCore.mdialect :=
  {| DmlCore.qd := qd_switch tr false false; DmlCore.kw_col := [DmlCore.kw DmlCore.DReturning; DmlCore.kw DmlCore.DInto];
     DmlCore.kw_tab := ktab; DmlCore.ins_tab_alias := false; DmlCore.ins_row_alias := false;
     DmlCore.ins_empty_cols := false; DmlCore.ins_after_cols := false; DmlCore.upd_from := uf; DmlCore.del_nofrom := nf |}.
Definition k_set := [DmlCore.kw DmlCore.DSet].
Definition dml_fails d s :=
  DmlCoreProofs.mdialect_ok d = true /\ DmlCoreProofs.mwf d s = false /\ DmlCoreProofs.mfrag d (DmlCore.mtoks s) = true /\
  DmlCore.parse_dml_core d (S (DmlCoreProofs.mlevel s)) (DmlCore.mtoks s ++ []) <> Ok (s, []).
Definition asg n m := DmlCore.Assign (DmlCore.TCol (qx n)) (xa m).

(** RETURNING is not in RESERVED_FOR_TABLE_ALIAS (a finding about /repo, notes/findings/C01.md): a table
    without alias directly in front of RETURNING takes the keyword as its alias.
    DELETE FROM x1 RETURNING x2 *)
Example C01_dml_returning_alias_refuted :
  dml_fails (md_switch k_set false true false)
    (DmlCore.SDelete [] true [tw (qx 1)] None None (Some [IExpr (xa 2)]) [] None) /\
  (* UPDATE x1 SET x2 = x3 FROM x4 RETURNING x5 *)
  dml_fails (md_switch k_set false true false)
    (DmlCore.SUpdate (tw (qx 1)) [asg 2 3] (Some (tw (qx 4))) None (Some [IExpr (xa 5)])) /\
  (* INSERT INTO x1 SELECT x2 FROM x3 RETURNING x4 *)
  dml_fails (md_switch k_set false true false)
    (DmlCore.SInsert true (qx 1) [] (Some (q_sel [IExpr (xa 2)] [tw (qx 3)])) (Some [IExpr (xa 4)])).
Proof. vm_compute. repeat split; try reflexivity; discriminate. Qed.
(** ... with RETURNING in the list all three round-trip *)
Example C01_dml_returning_reserved_ok :
  let d := md_switch [DmlCore.kw DmlCore.DSet; DmlCore.kw DmlCore.DReturning] false true false in
  forallb (fun s => DmlCoreProofs.mwf d s)
    [DmlCore.SDelete [] true [tw (qx 1)] None None (Some [IExpr (xa 2)]) [] None;
     DmlCore.SUpdate (tw (qx 1)) [asg 2 3] (Some (tw (qx 4))) None (Some [IExpr (xa 5)]);
     DmlCore.SInsert true (qx 1) [] (Some (q_sel [IExpr (xa 2)] [tw (qx 3)])) (Some [IExpr (xa 4)])] = true.
Proof. vm_compute. reflexivity. Qed.
(** INSERT INTO x1 (SELECT x2): the parenthesis is read as the column list (MySQL prints
    INSERT INTO x1 () (SELECT x2) this way: a finding about /repo) *)
Example C01_dml_insert_paren_source_refuted :
  dml_fails (md_switch k_set false true false)
    (DmlCore.SInsert true (qx 1) [] (Some (Query None (BNested q1) [] None None)) None).
Proof. vm_compute. repeat split; try reflexivity; discriminate. Qed.
(** DELETE FROM x1 JOIN x2 USING x3: USING is read as the constraint of the join *)
Example C01_dml_using_after_bare_join_refuted :
  dml_fails (md_switch k_set false true false)
    (DmlCore.SDelete [] true [Twj (TTable (qx 1) None) [Join (JOp JInner JNone) (TTable (qx 2) None)]]
                     (Some [tw (qx 3)]) None None [] None).
Proof. vm_compute. repeat split; try reflexivity; discriminate. Qed.
(** UPDATE x1 SET x2 = x3 FROM x4 where UPDATE .. FROM is not supported: FROM is consumed, the table is not read *)
Example C01_dml_update_from_refuted :
  dml_fails (md_switch k_set false false false) (DmlCore.SUpdate (tw (qx 1)) [asg 2 3] (Some (tw (qx 4))) None None).
Proof. vm_compute. repeat split; try reflexivity; discriminate. Qed.
(** UPDATE x1 (no assignment) *)
Example C01_dml_update_no_assignment_refuted :
  dml_fails (md_switch k_set false true false) (DmlCore.SUpdate (tw (qx 1)) [] None None None).
Proof. vm_compute. repeat split; try reflexivity; discriminate. Qed.
(** UPDATE x1 SET x2 = x3 where SET is not in RESERVED_FOR_TABLE_ALIAS: SET is the alias of x1 *)
Example C01_dml_set_alias_refuted :
  dml_fails (md_switch [] false true false) (DmlCore.SUpdate (tw (qx 1)) [asg 2 3] None None None).
Proof. vm_compute. repeat split; try reflexivity; discriminate. Qed.
(** trailing commas: UPDATE x1 SET x2 = x3, WHERE = x4 - the comma in front of a reserved word ends the list *)
Example C01_dml_trailing_target_refuted :
  dml_fails (md_switch k_set true true false)
    (DmlCore.SUpdate (tw (qx 1)) [asg 2 3; DmlCore.Assign (DmlCore.TCol (QK KWhere)) (xa 4)] None None None).
Proof. vm_compute. repeat split; try reflexivity; discriminate. Qed.
(** DELETE x1 (no FROM) where FROM is required; DELETE x1 FROM x2 (table names) where FROM is optional *)
Example C01_dml_delete_from_keyword_refuted :
  dml_fails (md_switch k_set false true false) (DmlCore.SDelete [] false [tw (qx 1)] None None None [] None) /\
  dml_fails (md_switch k_set false true true) (DmlCore.SDelete [qx 1] true [tw (qx 2)] None None None [] None).
Proof. vm_compute. repeat split; try reflexivity; discriminate. Qed.
(** INSERT INTO x1 (x2) without a source *)
Example C01_dml_insert_no_source_refuted :
  dml_fails (md_switch k_set false true false) (DmlCore.SInsert true (qx 1) [qx 2] None None).
Proof. vm_compute. repeat split; try reflexivity; discriminate. Qed.

(** * The query core: what the model parser returns (QueryCoreInv.v).
    [C01_query_roundtrip] above is about every well-formed tree; for PARSER OUTPUTS its hypothesis [qwf] is a
    theorem: one invariant per parser function / loop of the model (the rest is a suffix of the input, the
    result is well-formed, the content equation), the mutual recursion query - body - select - table with
    joins - derived table - expressions with subqueries closed by one induction on the fuel.
    [fits ts]: at most 10^6 tokens (the model numbers the subqueries of ONE expression from SQ_BASE = 10^6;
    beyond, the numbering would collide with that of the EXISTS atoms). *)
Require SqlV.QueryCoreInv.

(** every tree the model parser returns is well-formed, [frag_ok] on its expressions apart, as soon as its
    expressions are in canonical spelling (as in [C01_core]: an output that contains [==] is not) *)
Theorem C01_query_outputs_wf : forall d fuel ts q rest,
  In d QueryTables.all_qdialects -> QueryCoreInv.fits ts ->
  QueryCore.parse_query d fuel ts = Ok (q, rest) -> QueryCoreInv.qcanonical q = true ->
  QueryCoreProofs.qwfg false d q = true.
Proof.
  intros d fuel ts q rest Hin. exact (QueryCoreInv.query_outputs_wf d fuel ts q rest (C01_query_tables_ok d Hin)).
Qed.
Print Assumptions C01_query_outputs_wf.

(** ... and satisfies all of [qwf] when its expressions also pass the conservative fragment test [frag_ok] *)
Theorem C01_query_outputs_qwf : forall d fuel ts q rest,
  In d QueryTables.all_qdialects -> QueryCoreInv.fits ts ->
  QueryCore.parse_query d fuel ts = Ok (q, rest) -> QueryCoreInv.qcanonfrag d q = true ->
  QueryCoreProofs.qwf d q = true.
Proof.
  intros d fuel ts q rest Hin. exact (QueryCoreInv.query_outputs_qwf d fuel ts q rest (C01_query_tables_ok d Hin)).
Qed.
Print Assumptions C01_query_outputs_qwf.

(** that test cannot be proved of parser outputs: [SELECT x1 IN (x2) -> x3] (Databricks: lambdas) is accepted,
    canonical and [qwfg false], but [( x2 ) ->] looks like a lambda to [frag_ok] *)
Example C01_query_output_frag_refuted :
  exists d ts q rest,
    In d QueryTables.all_qdialects /\ QueryCoreInv.fits ts /\
    QueryCore.parse_query d 10 ts = Ok (q, rest) /\ QueryCoreInv.qcanonical q = true /\
    QueryCoreProofs.qwfg false d q = true /\ QueryCoreProofs.qwf d q = false /\ QueryCoreInv.qfragx d q = false.
Proof.
  exists QueryTables.qd_databricks,
    [QK KSelect; QE (TAtom false 1); QE (TKw KIn); QE TLParen; QE (TAtom false 2); QE TRParen; QE (TOp K_Arrow);
     QE (TAtom false 3)].
  eexists. eexists. split; [cbn; tauto|]. split; [vm_compute; discriminate|].
  split; [vm_compute; reflexivity|]. vm_compute. repeat split; reflexivity.
Qed.

(** parse -> print -> parse is a fixpoint for every accepted token list (outputs are well-formed +
    [C01_query_roundtrip]); the two syntactic fragment tests ([frag_ok] in [qcanonfrag], [qfrag] on the printed
    tokens) stay hypotheses *)
Theorem C01_query_fixpoint : forall d fuel ts q rest,
  In d QueryTables.all_qdialects -> QueryCoreInv.fits ts ->
  QueryCore.parse_query d fuel ts = Ok (q, rest) ->
  QueryCoreInv.qcanonfrag d q = true -> QueryCoreProofs.qfrag d (QueryCore.qtoks q ++ rest) = true ->
  QueryCoreProofs.ender rest = true ->
  forall fuel', (QueryCore.qlevel q <= fuel')%nat ->
  QueryCore.parse_query d fuel' (QueryCore.qtoks q ++ rest) = Ok (q, rest).
Proof.
  intros d fuel ts q rest Hin. exact (QueryCoreInv.query_fixpoint d fuel ts q rest (C01_query_tables_ok d Hin)).
Qed.
Print Assumptions C01_query_fixpoint.

(** the rest is a suffix of the input *)
Theorem C01_query_suffix : forall d fuel ts q rest,
  In d QueryTables.all_qdialects ->
  QueryCore.parse_query d fuel ts = Ok (q, rest) -> exists pre, ts = pre ++ rest.
Proof.
  intros d fuel ts q rest Hin. exact (QueryCoreInv.query_suffix d fuel ts q rest (C01_query_tables_ok d Hin)).
Qed.
Print Assumptions C01_query_suffix.

(** without canonical spelling the statement is false, as for the operator core: [SELECT x1 == x2] is accepted and
    its tree is not [canonical] (the printer writes [=]); the tree in canonical spelling ([qnorm]) is what the
    correspondence evaluates *)
Example C01_query_output_noncanonical_refuted :
  exists d ts q rest,
    In d QueryTables.all_qdialects /\ QueryCoreInv.fits ts /\
    QueryCore.parse_query d 10 ts = Ok (q, rest) /\ QueryCoreInv.qcanonical q = false /\
    QueryCoreProofs.qwfg false d q = false /\ QueryCoreProofs.qwfg false d (QueryCore.qnorm q) = true.
Proof.
  exists QueryTables.qd_generic, [QK KSelect; QE (TAtom false 1); QE (TOp K_DoubleEq); QE (TAtom false 2)].
  eexists. eexists. split; [cbn; tauto|]. split; [vm_compute; discriminate|].
  split; [vm_compute; reflexivity|]. vm_compute. repeat split; reflexivity.
Qed.

(** * The DML core: what the model parser returns (DmlCoreInv.v).
    [C01_dml_roundtrip] above is about every well-formed statement tree; for PARSER OUTPUTS its hypothesis [mwf] is a
    theorem: one invariant per parser function of the DML model, on top of the invariants of the query core
    ([QueryCoreInv.parse_query_inv_u0] and its per-entry-point lemmas, instantiated for both dialects the DML
    parsers run the query-core parsers under, [qd d] and [qdx d]) and of [site_inv] for the runs in front of a DML
    keyword and the re-runs with the keyword demoted to a name.  What remains a hypothesis is, exactly:
    - canonical spelling and the conservative test [frag_ok], as for the query core;
    - [mplain]: no name of the tree is a DML keyword ([mwf] demands it; [C01_dml_output_plain_refuted]);
    - [mres_ins]: not [INSERT INTO t () (query)] (MySQL; known finding dml:insert-empty-columns-parenthesised-source).
    The conjuncts of [mwf] about a keyword following an optional alias and about USING after a join without constraint
    are theorems in every generated dialect ([C01_dml_tables_res]) and false of parser outputs otherwise. *)
Require SqlV.DmlCoreInv.

(** generated side conditions: RETURNING and SET are reserved where the model consults the lists; with trailing
    commas on, USING does not end a list *)
Lemma C01_dml_tables_res : forall d, In d DmlTables.all_mdialects -> DmlCoreInv.mdialect_res d = true.
Proof.
  intros d H. cbn [DmlTables.all_mdialects In] in H.
  repeat (destruct H as [H|H]; [subst d; vm_compute; reflexivity|]). destruct H.
Qed.

(** every statement tree the model parser returns is well-formed, [frag_ok] on its expressions apart *)
Theorem C01_dml_outputs_wf : forall d fuel ts s rest,
  In d DmlTables.all_mdialects -> QueryCoreInv.fits ts ->
  DmlCore.parse_dml_core d fuel ts = Ok (s, rest) ->
  DmlCoreInv.mcanonical s = true -> DmlCoreInv.mplain s = false -> DmlCoreInv.mres_ins d s = true ->
  DmlCoreInv.mwfg false d s = true.
Proof.
  intros d fuel ts s rest Hin.
  exact (DmlCoreInv.dml_outputs_wf_res d fuel ts s rest (C01_dml_tables_ok d Hin) (C01_dml_tables_res d Hin)).
Qed.
Print Assumptions C01_dml_outputs_wf.

(** ... and satisfies all of [mwf] when its expressions also pass the conservative fragment test [frag_ok] *)
Theorem C01_dml_outputs_mwf : forall d fuel ts s rest,
  In d DmlTables.all_mdialects -> QueryCoreInv.fits ts ->
  DmlCore.parse_dml_core d fuel ts = Ok (s, rest) ->
  DmlCoreInv.mcanonfrag d s = true -> DmlCoreInv.mplain s = false -> DmlCoreInv.mres_ins d s = true ->
  DmlCoreProofs.mwf d s = true.
Proof.
  intros d fuel ts s rest Hin.
  exact (DmlCoreInv.dml_outputs_mwf_res d fuel ts s rest (C01_dml_tables_ok d Hin) (C01_dml_tables_res d Hin)).
Qed.
Print Assumptions C01_dml_outputs_mwf.

(** for every dialect record (not only the generated ones): with the three conjuncts [mres] as hypotheses *)
Theorem C01_dml_outputs_wf_any : forall d fuel ts s rest,
  DmlCoreProofs.mdialect_ok d = true -> QueryCoreInv.fits ts ->
  DmlCore.parse_dml_core d fuel ts = Ok (s, rest) ->
  DmlCoreInv.mcanonical s = true -> DmlCoreInv.mplain s = false -> DmlCoreInv.mres d s = true ->
  DmlCoreInv.mwfg false d s = true.
Proof. intros d fuel ts s rest. exact (DmlCoreInv.dml_outputs_wf d fuel ts s rest). Qed.
Print Assumptions C01_dml_outputs_wf_any.

(** parse -> print -> parse is a fixpoint for every accepted token list (outputs are well-formed +
    [C01_dml_roundtrip]); the two syntactic fragment tests ([frag_ok] in [mcanonfrag], [mfrag] on the printed
    tokens) stay hypotheses *)
Theorem C01_dml_fixpoint : forall d fuel ts s rest,
  In d DmlTables.all_mdialects -> QueryCoreInv.fits ts ->
  DmlCore.parse_dml_core d fuel ts = Ok (s, rest) ->
  DmlCoreInv.mcanonfrag d s = true -> DmlCoreInv.mplain s = false -> DmlCoreInv.mres_ins d s = true ->
  DmlCoreProofs.mfrag d (DmlCore.mtoks s ++ rest) = true -> QueryCoreProofs.ender rest = true ->
  forall fuel', (DmlCoreProofs.mlevel s <= fuel')%nat ->
  DmlCore.parse_dml_core d fuel' (DmlCore.mtoks s ++ rest) = Ok (s, rest).
Proof.
  intros d fuel ts s rest Hin.
  exact (DmlCoreInv.dml_fixpoint_res d fuel ts s rest (C01_dml_tables_ok d Hin) (C01_dml_tables_res d Hin)).
Qed.
Print Assumptions C01_dml_fixpoint.

(** the rest is a suffix of the input - both with the demoted DML keywords restored: [site] hands a keyword it
    has re-read as a name on to the rest in that spelling *)
Theorem C01_dml_suffix : forall d fuel ts s rest,
  In d DmlTables.all_mdialects ->
  DmlCore.parse_dml_core d fuel ts = Ok (s, rest) ->
  exists pre, map DmlCore.unplain ts = pre ++ map DmlCore.unplain rest.
Proof.
  intros d fuel ts s rest Hin. exact (DmlCoreInv.dml_suffix d fuel ts s rest (C01_dml_tables_ok d Hin)).
Qed.
Print Assumptions C01_dml_suffix.

(** ** the hypotheses cannot be dropped (computed witnesses; [dml_out d ts P]: the input is accepted entirely and
    [P] holds of the tree) *)
Definition dml_out (d : DmlCore.mdialect) (ts : list qtok) (P : DmlCore.stmt -> Prop) : Prop :=
  match DmlCore.parse_dml_core d 10 ts with Ok (s, []) => P s | _ => False end.
(** the printed tokens of the tree parse back to it *)
Definition dml_back (d : DmlCore.mdialect) (s : DmlCore.stmt) : bool :=
  match DmlCore.parse_dml_core d 10 (DmlCore.mtoks s) with Ok (s2, []) => DmlCore.stmt_eqb s s2 | _ => false end.
Definition kI := DmlCore.kw DmlCore.DInsert.   Definition kInto := DmlCore.kw DmlCore.DInto.
Definition kD := DmlCore.kw DmlCore.DDelete.   Definition kSet := DmlCore.kw DmlCore.DSet.
Definition kRet := DmlCore.kw DmlCore.DReturning.

(** [frag_ok] cannot be proved of parser outputs: [DELETE FROM x1 WHERE x2 IN (x3) -> x4] (Databricks: lambdas) is
    accepted, canonical and [mwfg false], but [( x3 ) ->] looks like a lambda to [frag_ok]; the statement is a fixpoint *)
Example C01_dml_output_frag_refuted :
  dml_out DmlTables.md_databricks
    [kD; QE (TKw KFrom); qx 1; QK KWhere; qx 2; QE (TKw KIn); QE TLParen; qx 3; QE TRParen; QE (TOp K_Arrow); qx 4]
    (fun s => DmlCoreInv.mcanonical s = true /\ DmlCoreInv.mplain s = false /\ DmlCoreInv.mres_ins DmlTables.md_databricks s = true /\
              DmlCoreInv.mwfg false DmlTables.md_databricks s = true /\ DmlCoreProofs.mwf DmlTables.md_databricks s = false /\
              DmlCoreInv.mfragx DmlTables.md_databricks s = false /\ dml_back DmlTables.md_databricks s = true).
Proof. vm_compute. repeat split; reflexivity. Qed.

(** [mplain]: [INSERT INTO x1 (SET) VALUES (1)] - a DML keyword is a column name; [mwf] is false (conservatively:
    the statement is a fixpoint) *)
Example C01_dml_output_plain_refuted :
  dml_out DmlTables.md_generic
    [kI; kInto; qx 1; QE TLParen; kSet; QE TRParen; QK KValues; QE TLParen; QE (TAtom false 5001); QE TRParen]
    (fun s => DmlCoreInv.mcanonical s = true /\ DmlCoreInv.mplain s = true /\ DmlCoreInv.mres DmlTables.md_generic s = true /\
              DmlCoreInv.mwfg false DmlTables.md_generic s = false /\ dml_back DmlTables.md_generic s = true).
Proof. vm_compute. repeat split; reflexivity. Qed.

(** [mres_ins]: MySQL [INSERT INTO x1 () (SELECT x2)] prints [INSERT INTO x1 (SELECT x2)], which is rejected *)
Example C01_dml_output_empty_columns_refuted :
  dml_out DmlTables.md_mysql
    [kI; kInto; qx 1; QE TLParen; QE TRParen; QE TLParen; QK KSelect; qx 2; QE TRParen]
    (fun s => DmlCoreInv.mcanonical s = true /\ DmlCoreInv.mplain s = false /\ DmlCoreInv.mres_ins DmlTables.md_mysql s = false /\
              DmlCoreInv.mwfg false DmlTables.md_mysql s = false /\ dml_back DmlTables.md_mysql s = false).
Proof. vm_compute. repeat split; reflexivity. Qed.

(** outside [mdialect_res] the other two conjuncts of [mres] fail for parser outputs.  RETURNING not reserved as a
    table alias: [INSERT INTO x1 SELECT x2 FROM x3 LIMIT ALL RETURNING x4] prints without LIMIT ALL and re-parses
    with RETURNING as the alias of x3 (repaired in the crate: 73841ea); USING ends a list under trailing commas:
    [DELETE FROM x1 JOIN x2, USING x3] prints without the comma and USING reads as the constraint of the join *)
Definition md_using : DmlCore.mdialect :=
  {| DmlCore.qd := {| base := d_generic; res_col := QK KUsing :: res_col_all; res_tab := res_tab_all; limit_comma := false;
                      limit_by := false; trailing := true; proj_trailing := false; wild_except := false; wild_ilike := false;
                      select_as := false; unnest_table := false; hyphen_table := false; group_by_expr := false;
                      paren_tables := false; group_with := false; exists_fn := false; values_empty := false |};
     DmlCore.kw_col := [kRet; kInto]; DmlCore.kw_tab := [kSet; kRet]; DmlCore.ins_tab_alias := false;
     DmlCore.ins_row_alias := false; DmlCore.ins_empty_cols := false; DmlCore.ins_after_cols := false;
     DmlCore.upd_from := true; DmlCore.del_nofrom := false |}.
Example C01_dml_output_reserved_refuted :
  let d1 := md_switch k_set false true false in
  (DmlCoreProofs.mdialect_ok d1 = true /\ DmlCoreInv.mdialect_res d1 = false /\
   dml_out d1 [kI; kInto; qx 1; QK KSelect; qx 2; QE (TKw KFrom); qx 3; QK KLimit; QE (TKw KAll); kRet; qx 4]
     (fun s => DmlCoreInv.mcanonical s = true /\ DmlCoreInv.mplain s = false /\ DmlCoreInv.mres_ins d1 s = true /\
               DmlCoreInv.mres d1 s = false /\ DmlCoreInv.mwfg false d1 s = false /\ dml_back d1 s = false)) /\
  (DmlCoreProofs.mdialect_ok md_using = true /\ DmlCoreInv.mdialect_res md_using = false /\
   dml_out md_using [kD; QE (TKw KFrom); qx 1; QK KJoin; qx 2; QE TComma; QK KUsing; qx 3]
     (fun s => DmlCoreInv.mcanonical s = true /\ DmlCoreInv.mplain s = false /\ DmlCoreInv.mres_ins md_using s = true /\
               DmlCoreInv.mres_using s = false /\ DmlCoreInv.mwfg false md_using s = false /\ dml_back md_using s = false)).
Proof. vm_compute. repeat split; reflexivity. Qed.
