(** C02 — tokenizing never panics or stalls (lexer level) and the abstract work recurrences.
    Statements only. *)
Require Import SqlV.Base SqlV.Lexer SqlV.LexerProofs SqlV.LexerTiling SqlV.Cost SqlVGen.DialectTables.
From Coq Require Import Arith.
Local Open Scope N_scope.

(** Progress: whenever the dispatcher returns a token it consumed at least one character;
    errors are located inside the input; the only panic is an unmatched identifier opener. *)
Theorem C02_lexer_progress : forall d u unesc l,
  match next_token d u unesc l with
  | Ok None => l = []
  | Ok (Some (_, r)) => SSuffix r l
  | Err _ a => Suffix a l
  | Panic w => PanicCond d l w
  end.
Proof. exact next_token_spec. Qed.
Print Assumptions C02_lexer_progress.

(** Fuel adequacy: with fuel |s|+1 the tokenizer never runs out of fuel, on any input. *)
Theorem C02_lexer_no_stall : forall d u unesc fuel p l w, (length l < fuel)%nat ->
  tokenize_from d u unesc fuel p l = LexPanic w ->
  w = 1 /\ exists ch, d_delim_start d ch = true /\ matching_end_quote ch = None.
Proof. exact tokenize_from_panic. Qed.
Print Assumptions C02_lexer_no_stall.

(** ... and for the 13 built-in dialects (generated tables) it always returns a value. *)
Theorem C02_lexer_total_builtin : forall d, In d all_dialects -> forall u unesc s,
  (exists ts, tokenize d u unesc s = LexOk ts) \/ (exists e a ts, tokenize d u unesc s = LexErr e a ts).
Proof.
  intros d Hd u unesc s. apply tokenize_total.
  assert (H : Forall delims_ok all_dialects).
  { unfold all_dialects.
    repeat match goal with
    | |- Forall _ [] => constructor
    | |- Forall _ (?dl :: _) => constructor;
        [unfold delims_ok; intros ch; unfold dl; cbn [d_delim_start]; revert ch;
         apply in_set_delims; [reflexivity | vm_compute; reflexivity]|]
    end. }
  rewrite Forall_forall in H. apply H. exact Hd.
Qed.
Print Assumptions C02_lexer_total_builtin.

(** Each character is consumed by exactly one token: the number of tokens is at most |s|. *)
Theorem C02_lexer_linear_tokens : forall d u unesc s ts,
  tokenize d u unesc s = LexOk ts -> (length ts <= length s)%nat.
Proof.
  intros d u unesc s ts H. destruct (lex_tiles d u unesc s ts H) as (cs & Hc & Hl & Hn & _).
  rewrite <- Hl, <- Hc. clear -Hn. induction Hn as [|c cs Hc Hn IH]; cbn [concat length]; [lia|].
  rewrite app_length. destruct c; [congruence|cbn [length]; lia].
Qed.
Print Assumptions C02_lexer_linear_tokens.

(** Work recurrences (abstract): single pass is polynomial, re-parsing on fallback is exponential. *)
Local Close Scope N_scope.
Local Open Scope nat_scope.
Theorem C02_single_pass_poly : forall T P : nat -> nat,
  (forall a b, a <= b -> P a <= P b) -> (forall n, T (S n) <= T n + P n) ->
  forall n, T n <= T 0 + n * P n.
Proof. exact single_pass_poly. Qed.
Theorem C02_reparse_exponential : forall T : nat -> nat,
  (forall n, T (S n) >= 2 * T n + 1) -> forall n, T n + 1 >= 2 ^ n.
Proof. exact reparse_exponential. Qed.
Print Assumptions C02_reparse_exponential.
