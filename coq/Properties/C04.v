(** C04 — operator chains group exactly as the dialect's precedence table says.
    Statements only: instances of the generic theory (PrecSpec / Pratt / PrattProofs / SetOps /
    SetOpsProofs) on the tables regenerated from the running crate (coq/gen/PrecTables.v). *)
Require Import SqlV.Base SqlV.PrecSpec SqlV.Pratt SqlV.PrattProofs SqlV.SetOps SqlV.SetOpsProofs
  SqlVGen.PrecTables.

(** * Generated side conditions, decided by evaluation in the kernel. *)
Lemma C04_key_table_ok : key_ids_ok = true.
Proof. vm_compute. reflexivity. Qed.

Lemma C04_gen_keys_agree :
  gen_key_names = map (fun '(id, name, _, _) => (id, s2l name)) key_table.
Proof. vm_compute. reflexivity. Qed.

(** The tables dumped from the running crate are order-isomorphic to the pinned published
    order, no token outside the published table has a binding power, and the unknown level is 0. *)
Lemma C04_published_order :
  forallb (fun '(f, d, lv, extra) =>
     published_order f lv && match extra with [] => true | _ => false end) all_dialects = true.
Proof. vm_compute. reflexivity. Qed.

Lemma C04_unknown_zero : forall f d lv extra, In (f, d, lv, extra) all_dialects -> lvl d K_UNKNOWN = 0.
Proof.
  intros f d lv extra H. cbn [all_dialects In] in H.
  repeat (destruct H as [H|H]; [inversion H; subst; vm_compute; reflexivity|]). destruct H.
Qed.

(** * The parser's tree is the precedence-climbing tree — every dialect, every token list.
    Outside the decidable known-finding class (empty once [isdf_fixed] / [div_fixed] are dumped
    as true) this is [Correct] for the published operand levels. *)
Theorem C04_pratt : forall f d lv extra ts t,
  In (f, d, lv, extra) all_dialects ->
  parse_expr d ts = Ok (t, []) -> ~ KnownClass_C04 d t -> Correct (lvl d) t ts.
Proof.
  intros f d lv extra ts t Hin. exact (pratt_correct_known d ts t (C04_unknown_zero f d lv extra Hin)).
Qed.
Print Assumptions C04_pratt.

(** ... and inside the class the tree is still the precedence-climbing tree for the operand
    levels the code uses today; the parser stops exactly at the first token without power. *)
Theorem C04_pratt_as_is : forall f d lv extra ts t rest,
  In (f, d, lv, extra) all_dialects ->
  parse_expr d ts = Ok (t, rest) ->
  ts = yield t ++ rest /\ Correct_gen (flags_of d) (lvl d) t (yield t) /\ np d rest <= lvl d K_UNKNOWN.
Proof.
  intros f d lv extra ts t rest Hin. exact (pratt_invariant d (C04_unknown_zero f d lv extra Hin) ts t rest).
Qed.
Print Assumptions C04_pratt_as_is.

(** Full statement, available for a dialect as soon as the dump says both operands are parsed
    at their published level. *)
Theorem C04_pratt_full : forall f d lv extra ts t,
  In (f, d, lv, extra) all_dialects -> isdf_fixed d = true -> div_fixed d = true ->
  parse_expr d ts = Ok (t, []) -> Correct (lvl d) t ts.
Proof.
  intros f d lv extra ts t Hin. exact (pratt_correct d (C04_unknown_zero f d lv extra Hin) ts t).
Qed.
Print Assumptions C04_pratt_full.


(** * The same statement for the PINNED published table: the dumped table is order-isomorphic to
    it ([C04_published_order]) and [Correct] only depends on the order of the powers. *)
Lemma C04_entry_ok : forall f d lv extra, In (f, d, lv, extra) all_dialects ->
  published_order f lv = true /\ (forall k, lvl d k = nthN lv k).
Proof.
  intros f d lv extra H. cbn [all_dialects In] in H.
  repeat (destruct H as [H|H]; [inversion H; subst; split; [vm_compute; reflexivity|intro; reflexivity]|]).
  destruct H.
Qed.

Theorem C04_pratt_published : forall f d lv extra ts t,
  In (f, d, lv, extra) all_dialects ->
  parse_expr d ts = Ok (t, []) -> ~ KnownClass_C04 d t -> Correct (pinned f) t ts.
Proof.
  intros f d lv extra ts t Hin Hp Hk.
  destruct (C04_entry_ok f d lv extra Hin) as [Hpo Hl].
  pose proof (C04_pratt f d lv extra ts t Hin Hp Hk) as Hc.
  unfold Correct in *. apply (Correct_gen_iso published (pinned f) (lvl d)); [|exact Hc].
  intros i j. rewrite !Hl. apply published_order_iso. exact Hpo.
Qed.
Print Assumptions C04_pratt_published.

(** Refuted today (known finding is-distinct-from-operand): [a IS DISTINCT FROM b AND c]. *)
Definition isdf_witness : list tok :=
  [TAtom false 1; TKw KIs; TKw KDistinct; TKw KFrom; TAtom false 2; TOp K_AND; TAtom false 3].
Theorem C04_isdf_refuted :
  isdf_fixed d_generic = false ->
  exists t, parse_expr d_generic isdf_witness = Ok (t, []) /\ ~ Correct (lvl d_generic) t isdf_witness
            /\ KnownClass_C04 d_generic t.
Proof.
  intro H. vm_compute in H.
  first [ discriminate H
        | eexists; split; [vm_compute; reflexivity|]; split;
          [ intro C; apply (correctb_iff published) in C; vm_compute in C; discriminate C
          | vm_compute; reflexivity ] ].
Qed.
Definition div_witness : list tok := [TAtom false 1; TKw KDiv; TAtom false 2; TOp K_AND; TAtom false 3].
Theorem C04_div_refuted :
  div_fixed d_mysql = false ->
  exists t, parse_expr d_mysql div_witness = Ok (t, []) /\ ~ Correct (lvl d_mysql) t div_witness
            /\ KnownClass_C04 d_mysql t.
Proof.
  intro H. vm_compute in H.
  first [ discriminate H
        | eexists; split; [vm_compute; reflexivity|]; split;
          [ intro C; apply (correctb_iff published) in C; vm_compute in C; discriminate C
          | vm_compute; reflexivity ] ].
Qed.

(** The oracle applied to the implementation's trees decides the specification. *)
Theorem C04_oracle : forall fl lvl t ts, correctb fl lvl t ts = true <-> Correct_gen fl lvl t ts.
Proof. exact correctb_iff. Qed.
Print Assumptions C04_oracle.

(** Associativity and operand levels read off [Correct]. *)
Theorem C04_left_assoc : forall lvl k l k' l' r' ts,
  lvl k = lvl k' -> ~ Correct lvl (EBin k l (EBin k' l' r')) ts.
Proof. exact pratt_left_assoc. Qed.
Theorem C04_tighter_never_above_looser : forall lvl k l k' l' r' ts,
  Correct lvl (EBin k l (EBin k' l' r')) ts -> lvl k < lvl k'.
Proof. exact pratt_right_nesting_tighter. Qed.
Theorem C04_nested_preserved : forall d rec ts t rest,
  parse_prefix d rec (TLParen :: ts) = Ok (t, rest) ->
  (exists x r1, t = ENested x /\ rec (lvl d K_UNKNOWN) ts = Ok (x, TRParen :: r1) /\ rest = r1)
  \/ (exists l, t = ETuple l /\ (2 <= length l)%nat).
Proof. exact nested_preserved. Qed.

(** * Set operations: INTERSECT binds tighter than UNION / EXCEPT, equal levels associate left,
    parenthesised queries are kept. *)
Theorem C04_setops : forall t ts, parse_query_top sp_pinned ts = SOk t [] <-> SCorrect sp_pinned t ts.
Proof. exact (setops_correct_iff sp_pinned sp_pinned_pos). Qed.
Print Assumptions C04_setops.
Theorem C04_setops_unique : forall t t' ts, SCorrect sp_pinned t ts -> SCorrect sp_pinned t' ts -> t = t'.
Proof. exact (scorrect_unique sp_pinned sp_pinned_pos). Qed.
Theorem C04_setops_left_assoc : forall o q l o' q' l' r' ts,
  SCorrect sp_pinned (SSetOp o q l (SSetOp o' q' l' r')) ts -> o' = Intersect /\ o <> Intersect.
Proof. exact setops_left_assoc_pinned. Qed.
Theorem C04_setops_intersect_tighter : forall t ts, SCorrect sp_pinned t ts -> s_intersect_tight t.
Proof. exact setops_intersect_tighter. Qed.
Theorem C04_setops_parens : forall t ts, syield t = ts -> scount_lp ts = squeries t /\ scount_rp ts = squeries t.
Proof. exact squery_preserved. Qed.
Theorem C04_setops_oracle : forall sp t ts, scorrectb sp t ts = true <-> SCorrect sp t ts.
Proof. exact scorrectb_iff. Qed.

(** Non-vacuity. *)
Example C04_example_mul_plus :
  parse_expr d_generic [TAtom false 1; TOp K_Plus; TAtom false 2; TOp 53; TAtom false 3]
  = Ok (EBin K_Plus (EAtom false 1) (EBin 53 (EAtom false 2) (EAtom false 3)), []).
Proof. vm_compute. reflexivity. Qed.
