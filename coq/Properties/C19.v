(** C19 — the CREATE TABLE builder is a lossless view of the statement.
    Statements only.  [SqlVGen.BuilderRouting] is regenerated on every run by the translator
    (harness/builderx, symbolic evaluation of src/ast/helpers/stmt_create_table.rs and of the
    [CreateTable] struct); the theorems are [exact] applications of the generic theory
    (theories/BuilderProofs.v) to it, their side conditions are decided by evaluation in the
    kernel.  All theorems quantify over an arbitrary type [V] of field values: they hold for
    every content of every field (every option of every dialect). *)
Require Import SqlV.Base SqlV.Builder SqlV.BuilderProofs SqlVGen.BuilderRouting.

(** ** Generated side conditions *)

(** The translator interpreted every shape it met (no rest pattern, struct-update base,
    clone()/unwrap_or/default, guard, early return, unknown statement ..). *)
Lemma c19_no_obligations : obligations = [].
Proof. vm_compute. reflexivity. Qed.

(** sigma_try o sigma_build = id on every field of [CreateTable]; both total. *)
Lemma c19_routing_ok : routing_ok stmt_fields builder_fields sigma_build arms = true.
Proof. vm_compute. reflexivity. Qed.

Lemma c19_routing_ok_rev : routing_ok_rev stmt_fields builder_fields sigma_build arms = true.
Proof. vm_compute. reflexivity. Qed.

(** every arm reachable by another statement kind returns an error value; there is a catch-all *)
Lemma c19_arms_total : arms_total arms = true.
Proof. vm_compute. reflexivity. Qed.

(** every setter is the single assignment of its parameter to its own field; distinct setters
    own distinct fields; every field is settable *)
Lemma c19_setters_ok : setters_ok builder_fields setters sigma_new = true.
Proof. vm_compute. reflexivity. Qed.

(** build() reads every statement field from the builder field of the same name *)
Lemma c19_names_ok : names_ok stmt_fields builder_fields sigma_build = true.
Proof. vm_compute. reflexivity. Qed.

Lemma c19_new_ok : new_ok builder_fields sigma_new = true.
Proof. vm_compute. reflexivity. Qed.

(** ** The property *)

(** Converting any CREATE TABLE statement into the builder and building it again returns an
    equal statement. *)
Theorem C19_round_trip :
  forall (V : Type) (cval : list N -> option V) (P : Type) (display_ok : stmt V P -> bool)
         (r : record V),
    keys r = stmt_fields ->
    round_trip V cval P stmt_fields builder_fields sigma_build arms display_ok (SCreateTable r)
    = Some (SCreateTable r).
Proof.
  exact (fun V cval P d =>
    round_trip_ok V cval P stmt_fields builder_fields sigma_build arms d c19_routing_ok).
Qed.
Print Assumptions C19_round_trip.

(** ... through a well-formed builder, without error or panic. *)
Theorem C19_try_from_create_table_ok :
  forall (V : Type) (cval : list N -> option V) (P : Type) (display_ok : stmt V P -> bool)
         (r : record V),
    keys r = stmt_fields ->
    exists b, try_from V cval P builder_fields arms display_ok (SCreateTable r) = ROk b
              /\ keys b = builder_fields
              /\ build V cval P stmt_fields sigma_build b = Some (SCreateTable r).
Proof.
  exact (fun V cval P d =>
    try_from_ct_ok V cval P stmt_fields builder_fields sigma_build arms d c19_routing_ok).
Qed.
Print Assumptions C19_try_from_create_table_ok.

(** The other direction: nothing of the builder is lost in the statement either. *)
Theorem C19_round_trip_rev :
  forall (V : Type) (cval : list N -> option V) (P : Type) (display_ok : stmt V P -> bool)
         (b : record V),
    keys b = builder_fields ->
    exists r, build V cval P stmt_fields sigma_build b = Some (SCreateTable r)
              /\ keys r = stmt_fields
              /\ try_from V cval P builder_fields arms display_ok (SCreateTable r) = ROk b.
Proof.
  exact (fun V cval P d =>
    round_trip_rev_ok V cval P stmt_fields builder_fields sigma_build arms d c19_routing_ok_rev).
Qed.
Print Assumptions C19_round_trip_rev.

(** Every builder setter changes exactly its own field. *)
Theorem C19_setters_frame :
  forall (V : Type) (cval : list N -> option V) (s : setter), In s setters ->
    exists f, own_field builder_fields setters sigma_new s = Some f /\ In f builder_fields /\
      forall (x : V) (b : record V), keys b = builder_fields ->
        exists b', apply_setter V cval s [x] b = Some b' /\ keys b' = builder_fields
          /\ get V b' f = Some x /\ (forall g, g <> f -> get V b' g = get V b g).
Proof.
  exact (fun V cval => setters_frame builder_fields setters sigma_new V cval c19_setters_ok).
Qed.
Print Assumptions C19_setters_frame.

(** The builder is a view *by name*: building exposes each builder field as the statement
    field of the same name ... *)
Theorem C19_view_by_name :
  forall (V : Type) (cval : list N -> option V) (P : Type) (b : record V),
    keys b = builder_fields ->
    exists r, build V cval P stmt_fields sigma_build b = Some (SCreateTable r)
              /\ keys r = stmt_fields
              /\ forall f, In f stmt_fields -> get V r f = get V b f.
Proof.
  exact (fun V cval P => build_by_name V cval P stmt_fields builder_fields sigma_build c19_names_ok).
Qed.
Print Assumptions C19_view_by_name.

(** ... so a setter followed by build() changes exactly the statement field of that name. *)
Theorem C19_setter_then_build :
  forall (V : Type) (cval : list N -> option V) (P : Type) (s : setter) (f : list N),
    In s setters -> own_field builder_fields setters sigma_new s = Some f ->
    forall (x : V) (b : record V), keys b = builder_fields ->
      exists b' r, apply_setter V cval s [x] b = Some b'
        /\ build V cval P stmt_fields sigma_build b' = Some (SCreateTable r)
        /\ keys r = stmt_fields
        /\ (In f stmt_fields -> get V r f = Some x)
        /\ (forall g, g <> f -> In g stmt_fields -> get V r g = get V b g).
Proof.
  exact (fun V cval P => setters_then_build stmt_fields builder_fields sigma_build setters sigma_new
           V cval P c19_setters_ok c19_names_ok).
Qed.
Print Assumptions C19_setter_then_build.

Theorem C19_setters_distinct_fields :
  forall s1 s2 f, In s1 setters -> In s2 setters ->
    own_field builder_fields setters sigma_new s1 = Some f ->
    own_field builder_fields setters sigma_new s2 = Some f -> st_name s1 = st_name s2.
Proof. exact (own_field_injective builder_fields setters sigma_new c19_setters_ok). Qed.
Print Assumptions C19_setters_distinct_fields.

Theorem C19_every_field_settable :
  forall g, In g builder_fields ->
    In g (new_param_fields sigma_new) \/
    exists s, In s setters /\ own_field builder_fields setters sigma_new s = Some g.
Proof. exact (fields_settable builder_fields setters sigma_new c19_setters_ok). Qed.
Print Assumptions C19_every_field_settable.

(** Converting any other statement kind fails with an error value.  The error message formats
    the statement, so a panic can only be one of that statement's own [Display] (property
    C02's ledger), which is a parameter here. *)
Theorem C19_try_from_other_is_error :
  forall (V : Type) (cval : list N -> option V) (P : Type) (display_ok : stmt V P -> bool)
         (variant : list N) (payload : P),
    display_ok (SOther variant payload) = true ->
    try_from V cval P builder_fields arms display_ok (SOther variant payload) = RErr.
Proof.
  exact (fun V cval P d => try_from_total V cval P builder_fields arms d c19_arms_total).
Qed.
Print Assumptions C19_try_from_other_is_error.

Theorem C19_try_from_other_never_ok :
  forall (V : Type) (cval : list N -> option V) (P : Type) (display_ok : stmt V P -> bool)
         (variant : list N) (payload : P),
    try_from V cval P builder_fields arms display_ok (SOther variant payload) = RErr \/
    try_from V cval P builder_fields arms display_ok (SOther variant payload) = RPanic.
Proof.
  exact (fun V cval P d => try_from_other_never_ok V cval P builder_fields arms d c19_arms_total).
Qed.
Print Assumptions C19_try_from_other_never_ok.

(** [new] yields a well-formed builder. *)
Theorem C19_new_total :
  forall (V : Type) (cval : list N -> option V) (ps : list V),
    (forall g c, assoc sigma_new g = Some (SConst c) -> cval c <> None) ->
    (forall g i, assoc sigma_new g = Some (SParam i) -> (i < length ps)%nat) ->
    exists b, run_new V cval builder_fields sigma_new ps = Some b /\ keys b = builder_fields.
Proof. exact (fun V cval ps => new_total builder_fields sigma_new V cval ps c19_new_ok). Qed.
Print Assumptions C19_new_total.

(** ** Non-vacuity: the model computes on a concrete statement whose fields hold their own
    position (values in [N]). *)
Definition c19_numbered (fs : list (list N)) : record N :=
  combine fs (map N.of_nat (seq 1 (length fs))).

Example C19_concrete_round_trip :
  round_trip N (fun _ => None) unit stmt_fields builder_fields sigma_build arms (fun _ => true)
    (SCreateTable (c19_numbered stmt_fields)) = Some (SCreateTable (c19_numbered stmt_fields)).
Proof. vm_compute. reflexivity. Qed.

Example C19_concrete_nonempty :
  Nat.leb 1 (length stmt_fields) && Nat.leb 1 (length builder_fields) && Nat.leb 1 (length setters) = true.
Proof. vm_compute. reflexivity. Qed.

Example C19_concrete_other :
  try_from N (fun _ => None) unit builder_fields arms (fun _ => true) (SOther (s2l "Commit") tt) = RErr.
Proof. vm_compute. reflexivity. Qed.
