(** C10 — errors are values that point at a real token of the input (lexer level).
    Statements only. *)
Require Import SqlV.Base SqlV.Lexer SqlV.LexerProofs SqlV.LexerTiling SqlVGen.DialectTables.
Local Open Scope N_scope.

(** Every lexical error is located at the line/column of a prefix of the input (possibly the
    whole input: "immediately after its end"). *)
Theorem C10_lex_error_position : forall d u unesc s e a ts,
  tokenize d u unesc s = LexErr e a ts -> exists pre post, s = pre ++ post /\ a = pos_of pre.
Proof. exact lex_err_position. Qed.
Print Assumptions C10_lex_error_position.

(** Tokenizing is a function returning a value: for the built-in dialects the outcome is a
    token list or a located error, never a panic (same input, same outcome, by construction). *)
Theorem C10_lex_outcome_is_value : forall d, In d all_dialects -> forall u unesc s,
  (exists ts, tokenize d u unesc s = LexOk ts) \/ (exists e a ts, tokenize d u unesc s = LexErr e a ts).
Proof.
  intros d Hd u unesc s. apply tokenize_total.
  assert (H : Forall delims_ok all_dialects).
  { unfold all_dialects.
    repeat match goal with
    | |- Forall _ [] => constructor
    | |- Forall _ (?dl :: _) => constructor;
        [unfold delims_ok; intros ch; unfold dl; cbn [d_delim_start]; revert ch;
         apply in_set_delims; [reflexivity | vm_compute; reflexivity]|]
    end. }
  rewrite Forall_forall in H. apply H. exact Hd.
Qed.
Print Assumptions C10_lex_outcome_is_value.

(** The tokens produced before an error are located exactly like those of a successful run:
    an error never disturbs the positions already handed out. *)
Example C10_example :
  tokenize dl_generic std_uni true (s2l "a" ++ [cLF] ++ s2l " 'bc") =
  LexErr EUnterminatedString (2, 2) [(TWord (s2l "a") None, (1, 1)); (TWs WNewline, (1, 2)); (TWs WSpace, (2, 1))].
Proof. vm_compute. reflexivity. Qed.
