(** C10 — errors are values that point at a real token of the input (lexer level).
    Statements only. *)
Require Import SqlV.Base SqlV.Lexer SqlV.LexerProofs SqlV.LexerTiling SqlVGen.DialectTables.
Local Open Scope N_scope.

(** Every lexical error is located at the line/column of a prefix of the input (possibly the
    whole input: "immediately after its end"). *)
Theorem C10_lex_error_position : forall d u unesc s e a ts,
  tokenize d u unesc s = LexErr e a ts -> exists pre post, s = pre ++ post /\ a = pos_of pre.
Proof. exact lex_err_position. Qed.
Print Assumptions C10_lex_error_position.

(** Tokenizing is a function returning a value: for the built-in dialects the outcome is a
    token list or a located error, never a panic (same input, same outcome, by construction). *)
Theorem C10_lex_outcome_is_value : forall d, In d all_dialects -> forall u unesc s,
  (exists ts, tokenize d u unesc s = LexOk ts) \/ (exists e a ts, tokenize d u unesc s = LexErr e a ts).
Proof.
  intros d Hd u unesc s. apply tokenize_total.
  assert (H : Forall delims_ok all_dialects).
  { unfold all_dialects.
    repeat match goal with
    | |- Forall _ [] => constructor
    | |- Forall _ (?dl :: _) => constructor;
        [unfold delims_ok; intros ch; unfold dl; cbn [d_delim_start]; revert ch;
         apply in_set_delims; [reflexivity | vm_compute; reflexivity]|]
    end. }
  rewrite Forall_forall in H. apply H. exact Hd.
Qed.
Print Assumptions C10_lex_outcome_is_value.

(** The tokens produced before an error are located exactly like those of a successful run:
    an error never disturbs the positions already handed out. *)
Example C10_example :
  tokenize dl_generic std_uni true (s2l "a" ++ [cLF] ++ s2l " 'bc") =
  LexErr EUnterminatedString (2, 2) [(TWord (s2l "a") None, (1, 1)); (TWs WNewline, (1, 2)); (TWs WSpace, (2, 1))].
Proof. vm_compute. reflexivity. Qed.

(** Parser level (cursor interface model, Machine.v): every token handed out by the cursor is
    an element of the token vector or the EOF sentinel with location (0,0); the sentinel is
    returned iff only whitespace remains; and [expected] builds its message from the text and
    the location of one and the same token — so an "Expected ..., found: T at Line l, Column c"
    produced from a cursor token names a real token of the input at its own position (by C09,
    the start of that token), and end-of-input errors carry no position. *)
Require Import SqlV.Machine SqlV.Provenance.

Theorem C10_cursor_provenance : forall d s,
  (forall n t s', peek_nth_token n d s = (Machine.Ok t, s') -> In t (toks s) \/ t = eof_twl) /\
  (forall t s', Machine.next_token d s = (Machine.Ok t, s') -> In t (toks s) \/ t = eof_twl) /\
  (forall n t s', peek_nth_token_no_skip n d s = (Machine.Ok t, s') -> In t (toks s) \/ t = eof_twl) /\
  (forall t s', next_token_no_skip d s = (Machine.Ok (Some t), s') -> In t (toks s)).
Proof. exact cursor_provenance. Qed.
Print Assumptions C10_cursor_provenance.

Theorem C10_sentinel_iff_exhausted : forall d s, ~ In eof_twl (toks s) ->
  (fst (peek_token d s) = Machine.Ok eof_twl <-> remaining s = []) /\
  (fst (Machine.next_token d s) = Machine.Ok eof_twl <-> remaining s = []).
Proof. exact sentinel_iff_exhausted. Qed.
Print Assumptions C10_sentinel_iff_exhausted.

Check expected_coupled.
Check expect_token_error.
