(** C15 — behaviour depends on a dialect only through the dialect interface.
    Statements only.  Generic theorems: theories/Routes.v.  Instance data regenerated from
    /repo on every run: uses of Any/TypeId, constructions of concrete dialects, the definition
    of dialect_of!, the method list of trait Dialect. *)
Require Import SqlV.Base SqlV.Machine SqlV.MachineRel SqlV.Routes SqlV.Pinned.
Require Import SqlVGen.Inv15.

(** Two dialect values that answer every interface question alike — reported identity included,
    capability answers pointwise (no functional extensionality needed) — are indistinguishable
    to every pair of programs built alike from the interface ... *)
Theorem C15_dial_independence : forall A (RA : A -> A -> Prop) (p p' : M A),
  IfaceR eq A RA p p' -> Rel dial_eqv eq eq RA p p'.
Proof. exact dial_independence. Qed.
Print Assumptions C15_dial_independence.

(** ... in particular to every program of the closure language: identical outcome and state. *)
Theorem C15_dial_independence_prog : forall rr fuel p d d' s,
  dial_eqv d d' -> denote rr fuel p d s = denote rr fuel p d' s.
Proof. exact dial_independence_prog. Qed.
Print Assumptions C15_dial_independence_prog.

(** A wrapper forwarding every answer including the identity is such a value. *)
Theorem C15_forwarding : forall d, dial_eqv (forwarding None d) d.
Proof. exact forwarding_eqv. Qed.

(** The identity field is not idle: a wrapper keeping its own identity is told apart by
    dialect_of!, and by nothing else of the interface. *)
Theorem C15_own_identity_visible :
  let d := {| d_tc := false; d_proj_tc := false; d_reserved := []; d_id := 7; d_flag := fun _ => false |} in
  fst (dialect_is [7] d (init_state [] false 50)) <> fst (dialect_is [7] (forwarding (Some 99) d) (init_state [] false 50)).
Proof. exact own_identity_visible. Qed.

(** * Instance: the identity discipline of the current tree *)
Local Open Scope string_scope.
Definition mem (k : string) (l : list string) : bool := existsb (String.eqb k) l.

Lemma C15_identity_sites_covered : forallb (fun k => mem k c15_identity_sites) identity_sites = true.
Proof. vm_compute. reflexivity. Qed.
Lemma C15_concrete_dialects_covered :
  forallb (fun c => let '(k, in_impl) := c in in_impl || mem k c15_concrete_dialects) concrete_dialects = true.
Proof. vm_compute. reflexivity. Qed.
(** dialect_of! tests identity through <dyn Dialect>::is, i.e. through Dialect::dialect();
    the generated wrapper forwards every method of the trait. *)
Lemma C15_macro_and_wrapper : dialect_of_through_is = true /\ wrapper_forwards_all = true /\ unparsed_files15 = 0%nat.
Proof. vm_compute. repeat split; reflexivity. Qed.
