"""DML-core (in-model) part of C01: INSERT / UPDATE / DELETE around the query core.

coq/theories/DmlCore.v models Parser::parse_statement -> parse_insert / parse_update (parse_assignment,
parse_assignment_target) / parse_delete and the Display arms of Statement::Insert / Update / Delete at token level, on
top of the query core (QueryCore.v: parse_query, parse_table_and_joins, parse_expr, parse_select_item,
parse_order_by_expr are called where the Rust code calls them); coq/theories/DmlCoreProofs.v proves the round trip
`parse_dml_core d fuel (mtoks s ++ rest) = Ok (s, rest)` for well-formed statements.  This module ties the model to
the implementation on every run:
  gen_dml_tables()     coq/gen/DmlTables.v: which DML keywords are in RESERVED_FOR_COLUMN_ALIAS / _TABLE_ALIAS and the
                       per-dialect switches of the model, dumped / probed from the running crate (harness/prattx dmltables);
  check_dml(run, p)    generates statements of the fragment in all dialects, runs the real tokenizer +
                       Parser::parse_statement + to_string + re-parse on them (harness/prattx dml), encodes tokens and
                       trees as Coq terms (the encoders of c01query.py) and evaluates `mcase_full` inside the kernel VM:
                       model parser = implementation on the implementation's tokens, mtoks(tree) = tokens of the printed
                       text, model round trip on the tree, well-formedness of every accepted tree; and checks the
                       property itself on the implementation (print -> parse gives the same tree and the same text).
Evidence goes to run.notes["dml_core"]."""
import os
import re
import time
import common
from common import *
from props import C04, c01query
from props.c01query import QEnc, Gen, ALIAS_WORDS

PKG = C04.PKG
HEADER = ("Require Import SqlV.Base SqlV.PrecSpec SqlV.Pratt SqlV.SetOps SqlV.PrinterCore SqlV.QueryCore "
          "SqlV.QueryCoreProofs SqlV.DmlCore SqlV.DmlCoreProofs SqlVGen.PrecTables SqlVGen.QueryTables SqlVGen.DmlTables.\n")
# the DML keywords the query alphabet lacks: token number DKW_BASE + i, as a name DPLAIN_BASE + i (DmlCore.v)
DKW = {"INSERT": 0, "INTO": 1, "UPDATE": 2, "SET": 3, "DELETE": 4, "RETURNING": 5, "DEFAULT": 6}
DKW_CON = {"INSERT": "DInsert", "INTO": "DInto", "UPDATE": "DUpdate", "SET": "DSet", "DELETE": "DDelete",
           "RETURNING": "DReturning", "DEFAULT": "DDefault"}
DKW_BASE, DPLAIN_BASE = 4900, 4950
SWITCHES = ["ins_tab_alias", "ins_row_alias", "ins_empty_cols", "ins_after_cols", "upd_from", "del_nofrom"]
NAME_WORDS = ALIAS_WORDS + list(DKW)


def switches_from(entry):
    """The model's switches of one dialect, decided by behavioural probes of the running parser."""
    p = entry["probes"]
    return {
        "ins_tab_alias": bool(p["ins_tab_alias"].get("table_alias")),
        "ins_row_alias": bool(p["ins_row_alias"].get("insert_alias")),
        "ins_empty_cols": bool(p["ins_empty_cols"].get("ok") and p["ins_empty_cols"].get("at_end")),
        "ins_after_cols": bool(p["ins_after_cols"].get("after_columns")),
        "upd_from": bool(p["upd_from"].get("from")),
        "del_nofrom": bool(p["del_nofrom"].get("ok") and p["del_nofrom"].get("at_end") and p["del_nofrom"].get("from_kw") is False),
    }


def gen_dml_tables():
    """coq/gen/DmlTables.v from `prattx dmltables` (run on the current /repo crate)."""
    t = run_bin(PKG, ["dmltables"], pkg=PKG)[0]
    col = [k for k in t["reserved_for_column_alias"] if k in DKW]
    tab = [k for k in t["reserved_for_table_alias"] if k in DKW]
    v = ["(* GENERATED on every run by lib/props/c01dml.py from the running /repo crate (harness/prattx dmltables):",
         "   the DML keywords of keywords::RESERVED_FOR_COLUMN_ALIAS / RESERVED_FOR_TABLE_ALIAS and the per-dialect",
         "   switches of coq/theories/DmlCore.v, decided by probing Parser::parse_statement. *)",
         "Require Import SqlV.Base SqlV.PrecSpec SqlV.Pratt SqlV.QueryCore SqlV.DmlCore SqlVGen.PrecTables SqlVGen.QueryTables.", "",
         "Definition kw_col_all : list qtok := [%s]." % "; ".join("kw " + DKW_CON[k] for k in col),
         "Definition kw_tab_all : list qtok := [%s]." % "; ".join("kw " + DKW_CON[k] for k in tab), ""]
    sw = {}
    for d in C04.DIALECTS:
        s = switches_from(t["dialects"][d])
        sw[d] = s
        v += ["Definition md_%s : mdialect := {| qd := qd_%s; kw_col := kw_col_all; kw_tab := kw_tab_all;" % (d, d),
              "  " + " ".join("%s := %s;" % (k, coq_bool(s[k])) for k in SWITCHES[:-1]) + " %s := %s |}." % (SWITCHES[-1], coq_bool(s[SWITCHES[-1]]))]
    v += ["", "Definition all_mdialects : list mdialect := [%s]." % "; ".join("md_" + d for d in C04.DIALECTS)]
    write_if_changed(os.path.join(GEN, "DmlTables.v"), "\n".join(v) + "\n")
    return {"switches": sw, "kw_col": col, "kw_tab": tab}


# ------------------------------------------------------------------ case generation

class MGen(Gen):
    """Statements of the fragment; queries, tables, expressions and items come from the query-core generator."""

    tame = False     # the clause-shape streams: plain names, expressions the dialect accepts

    def nword(self, p=0.12):
        return self.rng.choice(NAME_WORDS) if not self.tame and self.rng.random() < p else self.name()

    def word(self, p=0.12):
        return super().word(0 if self.tame else p)

    def expr(self):
        if not self.tame:
            return super().expr()
        saved, self.pool = self.pool, {"ok": self.pool["ok"], "bad": []}
        try:
            return super().expr()
        finally:
            self.pool = saved

    def returning(self):
        return " RETURNING " + self.lst(self.item)

    def source(self, kind, depth=1):
        if kind == "values":
            return "VALUES " + self.lst(lambda: "(" + self.lst(self.expr) + ")")
        if kind == "select":
            return self.select(depth)
        if kind == "setop":
            return self.select(0) + " " + self.rng.choice(["UNION", "UNION ALL", "EXCEPT", "INTERSECT"]) + " " + self.operand(depth)
        if kind == "with":
            return "WITH " + self.cte(0) + " " + self.select(depth)
        if kind == "nested":
            return "(" + self.query(depth) + ")"
        if kind == "query":
            return self.query(depth)
        return "DEFAULT VALUES"

    def insert(self, into=True, ncols=0, kind="values", ret=False, depth=1):
        s = "INSERT " + ("INTO " if into else "") + self.nword(0.05)
        if ncols:
            s += " (" + ", ".join(self.nword(0.08) for _ in range(ncols)) + ")"
        s += " " + self.source(kind, depth)
        return s + (self.returning() if ret else "")

    def target(self, tup=False):
        if tup:
            return "(" + self.lst(lambda: self.nword(0.08)) + ")"
        return self.nword(0.08)

    def assignment(self, tup=False):
        return self.target(tup) + " = " + self.expr()

    def update(self, nas=1, tup=False, frm=0, where=False, ret=False, depth=1):
        s = "UPDATE " + self.twj(depth, joins=self.rng.choice([0, 0, 0, 1])) + " SET "
        s += ", ".join(self.assignment(tup and i == 0) for i in range(nas))
        if frm:
            s += " FROM " + self.twj(depth, joins=frm - 1)
        if where:
            s += " WHERE " + self.expr()
        return s + (self.returning() if ret else "")

    def delete(self, nfrom=1, using=0, where=False, ret=False, order=False, limit=False, depth=1, head="FROM "):
        s = "DELETE " + head + ", ".join(self.twj(depth, joins=self.rng.choice([0, 0, 1])) for _ in range(nfrom))
        if using:
            s += " USING " + ", ".join(self.twj(depth, joins=using - 1) for _ in range(self.rng.choice([1, 1, 2])))
        if where:
            s += " WHERE " + self.expr()
        if ret:
            s += self.returning()
        if order:
            s += " ORDER BY " + self.lst(lambda: self.expr() + self.rng.choice(["", "", " ASC", " DESC"]))
        if limit:
            s += " LIMIT " + (self.expr() if self.rng.random() < 0.9 else "ALL")
        return s

    def statement(self, depth):
        rng = self.rng
        b = lambda p=0.5: rng.random() < p
        r = rng.random()
        if r < 0.36:
            return self.insert(b(0.85), rng.choice([0, 0, 1, 2, 3]), rng.choice(["values", "values", "select", "setop", "with", "nested", "query", "default"]), b(0.4), depth)
        if r < 0.68:
            return self.update(rng.choice([1, 1, 2, 3]), b(0.15), rng.choice([0, 0, 1, 2]), b(), b(0.4), depth)
        return self.delete(rng.choice([1, 1, 1, 2]), rng.choice([0, 0, 1, 2]), b(), b(0.4), b(0.3), b(0.3), depth,
                           rng.choice(["FROM "] * 8 + ["", "x1 FROM ", "x1, x2 FROM "]))


SOURCES = ["values", "select", "setop", "with", "nested", "default"]

# texts with one %s: every word of NAME_WORDS goes there
NAME_SITES = [
    "INSERT INTO %s VALUES (1)", "INSERT %s VALUES (1)", "INSERT INTO x1 (%s) VALUES (1)", "INSERT INTO x1 (x2, %s) VALUES (1, 2)",
    "INSERT INTO x1 SELECT x2 %s", "INSERT INTO x1 SELECT x2 FROM x3 %s", "INSERT INTO x1 SELECT x2 FROM x3 RETURNING x4 %s",
    "INSERT INTO x1 VALUES (1) RETURNING x2 AS %s", "INSERT INTO x1 VALUES (1) RETURNING %s", "INSERT INTO x1 %s VALUES (1)",
    "INSERT INTO x1 VALUES (1) %s", "INSERT INTO x1 (x2) %s",
    "UPDATE %s SET x2 = 1", "UPDATE x1 %s SET x2 = 1", "UPDATE x1 AS %s SET x2 = 1", "UPDATE x1 SET %s = 1", "UPDATE x1 SET x2 = 1, %s = 2",
    "UPDATE x1 SET (x2, %s) = (1, 2)", "UPDATE x1 SET x2 = %s", "UPDATE x1 SET x2 = 1 FROM %s", "UPDATE x1 SET x2 = 1 FROM x3 %s",
    "UPDATE x1 SET x2 = 1 FROM x3 AS %s WHERE x4", "UPDATE x1 SET x2 = 1 %s", "UPDATE x1 JOIN %s ON x2 SET x3 = 1", "UPDATE x1 SET x2 = 1 WHERE x3 %s",
    "UPDATE x1 SET x2 = 1 WHERE %s RETURNING x3", "UPDATE x1 SET x2 = 1 RETURNING x3 %s",
    "DELETE FROM %s", "DELETE FROM x1 %s", "DELETE FROM x1 AS %s", "DELETE FROM x1, %s", "DELETE FROM x1 USING %s", "DELETE FROM x1 USING x2 %s",
    "DELETE FROM x1 WHERE %s", "DELETE FROM x1 WHERE x2 %s", "DELETE FROM x1 %s x2", "DELETE %s FROM x1", "DELETE x1, %s FROM x2", "DELETE %s",
    "DELETE FROM x1 JOIN x2 %s", "DELETE FROM x1 JOIN x2 USING (%s)", "DELETE FROM x1 RETURNING x2 ORDER BY x3 %s", "DELETE FROM x1 ORDER BY %s LIMIT 1",
    "DELETE FROM x1 LIMIT %s", "DELETE FROM x1 WHERE x2 RETURNING x3 %s, x4", "DELETE FROM x1 NATURAL JOIN x2 %s WHERE x3",
]

DIRECTED = [
    # the two defects this model found
    "DELETE FROM x1 RETURNING x2", "DELETE FROM x1 AS x3 RETURNING x2", "DELETE FROM x1 JOIN x2 RETURNING x3", "DELETE FROM x1 JOIN x2 ON x4 RETURNING x3",
    "DELETE FROM x1 USING x2 RETURNING x3", "DELETE FROM x1 USING x2 AS x4 RETURNING x3", "UPDATE x1 SET x2 = 1 FROM x3 RETURNING x4",
    "UPDATE x1 SET x2 = 1 FROM x3 AS x5 RETURNING x4", "INSERT INTO x1 SELECT x2 FROM x3 RETURNING x4", "INSERT INTO x1 SELECT x2 FROM x3 AS x5 RETURNING x4",
    "INSERT INTO x1 SELECT x2 FROM x3 WHERE x5 RETURNING x4", "INSERT INTO x1 SELECT x2 RETURNING x4", "INSERT INTO x1 SELECT x2 FROM x3 LIMIT ALL RETURNING x4",
    "INSERT INTO x1 () (SELECT x2)", "INSERT INTO x1 () VALUES (1)", "INSERT INTO x1 () VALUES ()", "INSERT INTO x1 (SELECT x2)", "INSERT INTO x1 (x3) (SELECT x2)",
    "INSERT INTO x1 (x3) (SELECT x2) UNION SELECT x4", "INSERT INTO x1 (x2) (x3) VALUES (1)", "INSERT INTO x1 ((SELECT x2))",
    # INSERT
    "INSERT INTO x1 DEFAULT VALUES", "INSERT INTO x1 DEFAULT VALUES RETURNING x2", "INSERT x1 DEFAULT VALUES", "INSERT INTO x1 DEFAULT", "INSERT INTO x1 (x2) DEFAULT VALUES",
    "INSERT INTO x1 DEFAULT VALUES VALUES (1)", "INSERT INTO DEFAULT VALUES", "INSERT INTO DEFAULT DEFAULT VALUES", "INSERT INTO x1 VALUES (DEFAULT)", "INSERT INTO x1 VALUES (1), (2) RETURNING *",
    "INSERT INTO x1", "INSERT INTO", "INSERT", "INSERT INTO x1 x2", "INSERT INTO x1 (x2)", "INSERT INTO x1 (x2,) VALUES (1)", "INSERT INTO x1 (x2, x3,) SELECT x4",
    "INSERT INTO x1 (1) VALUES (1)", "INSERT INTO x1 ('s1') VALUES (1)", "INSERT INTO 's1' VALUES (1)", "INSERT INTO x1.x2 VALUES (1)", "INSERT INTO TABLE x1 VALUES (1)",
    "INSERT INTO x1 AS x2 VALUES (1)", "INSERT INTO x1 VALUES (1) AS x2", "INSERT INTO x1 VALUES (1) AS x2 (x3)", "INSERT INTO x1 VALUES (1) ON x2", "INSERT INTO x1 VALUES (1) ON",
    "INSERT INTO x1 VALUES (1) RETURNING", "INSERT INTO x1 VALUES (1) RETURNING x2,", "INSERT INTO x1 VALUES (1) RETURNING x2, x3 AS x4, *", "INSERT INTO x1 VALUES (1) RETURNING x2 x3",
    "INSERT INTO x1 VALUES (1) RETURNING x2 RETURNING x3", "INSERT INTO x1 VALUES (1);", "INSERT INTO x1 VALUES (1))", "INSERT INTO x1 INSERT INTO x2 VALUES (1)",
    "INSERT INTO x1 UPDATE x2 SET x3 = 1", "INSERT INTO x1 (INSERT INTO x2 VALUES (1))", "INSERT INTO x1 WITH x2 AS (SELECT x3) INSERT INTO x4 VALUES (1)",
    "INSERT INTO x1 SELECT x2 INTO x3", "INSERT INTO INTO VALUES (1)", "INSERT INTO x1 TABLE x2", "INSERT INTO x1 TABLE x2 RETURNING x3", "INSERT INTO x1 SELECT x2 UNION SELECT x3 RETURNING x4",
    "INSERT INTO x1 SELECT x2 FROM x3 UNION SELECT x4 FROM x5 RETURNING x6", "INSERT INTO x1 SELECT x2 FROM x3 JOIN x4 RETURNING x5", "INSERT INTO x1 SELECT x2 FROM x3 JOIN x4 USING (x6) RETURNING x5",
    "INSERT INTO x1 SELECT x2 FROM x3 ORDER BY x4 RETURNING x5", "INSERT INTO x1 SELECT x2 FROM (SELECT x3) RETURNING x5", "INSERT INTO x1 (SELECT x2 FROM x3) RETURNING x5",
    "INSERT INTO x1 SELECT x2, RETURNING x3", "INSERT INTO x1 SELECT x2 FROM x3, RETURNING x4", "INSERT INTO x1 VALUES (1), RETURNING x4", "INSERT INTO x1 SELECT x2 AS RETURNING x3",
    "INSERT INTO x1 SELECT RETURNING", "INSERT INTO x1 SELECT x2 FROM RETURNING", "INSERT INTO x1 SELECT x2 FROM x3 AS RETURNING", "INSERT INTO x1 SELECT x2 SET", "INSERT INTO x1 SELECT x2 FROM x3 SET",
    # UPDATE
    "UPDATE x1 SET x2 = 1", "UPDATE x1 SET x2 = 1, x3 = x4 + 1 WHERE x5 RETURNING x6", "UPDATE x1 SET", "UPDATE x1", "UPDATE", "UPDATE SET x2 = 1", "UPDATE SET SET SET = 1",
    "UPDATE x1 SET x2", "UPDATE x1 SET x2 =", "UPDATE x1 SET x2 == 1", "UPDATE x1 SET x2 = 1,", "UPDATE x1 SET x2 = 1, WHERE x3", "UPDATE x1 SET x2 = 1, RETURNING x3", "UPDATE x1 SET (x2) = 1",
    "UPDATE x1 SET (x2, x3) = (1, 2), x4 = 3", "UPDATE x1 SET () = 1", "UPDATE x1 SET (x2,) = 1", "UPDATE x1 SET (x2, x3 = 1", "UPDATE x1 SET x2.x3 = 1", "UPDATE x1 SET 's1' = 1",
    "UPDATE x1 SET x2 = DEFAULT", "UPDATE x1 SET x2 = DEFAULT, x3 = SET", "UPDATE x1 SET x2 = (SELECT x3)", "UPDATE x1 SET x2 = x3 IN (SELECT x4) WHERE EXISTS (SELECT x5)",
    "UPDATE x1 SET x2 = 1 FROM x3", "UPDATE x1 SET x2 = 1 FROM x3 WHERE x4", "UPDATE x1 SET x2 = 1 FROM x3 JOIN x4 ON x5 LEFT JOIN x6 USING (x7) WHERE x8 RETURNING x9",
    "UPDATE x1 SET x2 = 1 FROM x3, x4", "UPDATE x1 SET x2 = 1 FROM (SELECT x3) AS x4", "UPDATE x1 SET x2 = 1 FROM", "UPDATE x1 SET x2 = 1 FROM WHERE x3", "UPDATE x1 SET x2 = 1 WHERE",
    "UPDATE x1 SET x2 = 1 WHERE x3 WHERE x4", "UPDATE x1 SET x2 = 1 RETURNING x3 WHERE x4", "UPDATE x1 AS x2 SET x3 = 1", "UPDATE x1 x2 SET x3 = 1", "UPDATE x1 JOIN x2 ON x3 SET x4 = 1",
    "UPDATE x1 JOIN x2 SET x4 = 1", "UPDATE x1 NATURAL JOIN x2 SET x4 = 1", "UPDATE x1, x2 SET x3 = 1", "UPDATE (SELECT x1) AS x2 SET x3 = 1", "UPDATE (x1 JOIN x2) SET x3 = 1",
    "UPDATE x1 SET x2 = 1 x3", "UPDATE x1 SET x2 = 1;", "UPDATE x1 SET x2 = x3 FROM x4", "UPDATE x1 SET x2 = x3 IS DISTINCT FROM x4 FROM x5", "UPDATE x1 SET x2 = 1 ORDER BY x3", "UPDATE x1 SET x2 = 1 LIMIT 1",
    # DELETE
    "DELETE FROM x1", "DELETE FROM x1 WHERE x2 = 1", "DELETE FROM x1 WHERE x2 RETURNING x3 ORDER BY x4 LIMIT 5", "DELETE FROM x1, x2 USING x3, x4 WHERE x5", "DELETE", "DELETE FROM",
    "DELETE x1", "DELETE x1 WHERE x2", "DELETE x1, x2", "DELETE x1 FROM x2", "DELETE x1, x2 FROM x3 JOIN x4 ON x5 WHERE x6", "DELETE x1, FROM x2", "DELETE x1 x2 FROM x3", "DELETE FROM FROM x1",
    "DELETE FROM, x1 FROM x2", "DELETE FROM x1 USING", "DELETE FROM x1 USING x2 JOIN x3 ON x4 WHERE x5", "DELETE FROM x1 JOIN x2 USING x3", "DELETE FROM x1 JOIN x2 USING (x3) USING x4",
    "DELETE FROM x1 JOIN x2 ON x5 USING x4", "DELETE FROM x1 NATURAL JOIN x2 USING x4", "DELETE FROM x1 CROSS JOIN x2 USING x4", "DELETE FROM x1 USING x2 USING x3", "DELETE FROM x1 USING (SELECT x2) AS x3 WHERE x4",
    "DELETE FROM x1 WHERE", "DELETE FROM x1 WHERE x2 WHERE x3", "DELETE FROM x1 ORDER BY x2", "DELETE FROM x1 ORDER BY x2 DESC, x3 LIMIT x4", "DELETE FROM x1 ORDER x2", "DELETE FROM x1 LIMIT 1",
    "DELETE FROM x1 LIMIT ALL", "DELETE FROM x1 LIMIT", "DELETE FROM x1 LIMIT 1 ORDER BY x2", "DELETE FROM x1 LIMIT 1, 2", "DELETE FROM x1 LIMIT 1 OFFSET 2", "DELETE FROM x1 ORDER BY x2 RETURNING x3",
    "DELETE FROM x1 RETURNING x2 WHERE x3", "DELETE FROM x1 WHERE x2 RETURNING", "DELETE FROM x1 WHERE x2 RETURNING x3, ORDER BY x4", "DELETE FROM x1, WHERE x2", "DELETE FROM x1 WHERE x2;",
    "DELETE FROM x1 WHERE x2 IN (SELECT x3 FROM x4) RETURNING (SELECT x5), EXISTS (SELECT x6)", "DELETE FROM (SELECT x1) AS x2", "DELETE FROM (x1 JOIN x2) WHERE x3", "DELETE FROM x1 x2 x3",
    "DELETE FROM x1 WHERE x2 RETURNING x3 AS x4 ORDER BY x5", "DELETE FROM x1 WHERE x2 RETURNING * LIMIT 1", "DELETE FROM x1.x2", "DELETE FROM x1 WHERE x2.x3 = 1",
    # a comma in front of a DML keyword (trailing commas), inside the lists of the query core and of the DML parsers
    "DELETE FROM x1 JOIN x2 USING (x3, RETURNING) RETURNING x4", "DELETE FROM x1 JOIN x2 USING (x3, RETURNING x4", "DELETE FROM x1, RETURNING x2",
    "DELETE FROM x1, SET x2", "DELETE FROM x1 USING x2, RETURNING x3", "DELETE FROM x1 ORDER BY x2, RETURNING", "INSERT INTO x1 (x2, RETURNING) VALUES (1, 2)",
    "INSERT INTO x1 (x2, SET) VALUES (1, 2)", "INSERT INTO x1 (x2, INTO) VALUES (1, 2)", "UPDATE x1 SET (x2, RETURNING) = (1, 2)", "UPDATE x1 SET (x2, SET) = (1, 2)",
    "INSERT INTO x1 VALUES (1, RETURNING)", "INSERT INTO x1 VALUES (1, 2), RETURNING x2", "INSERT INTO x1 SELECT x2 FROM x3, RETURNING x4 RETURNING x5",
    "DELETE x1, RETURNING FROM x2", "DELETE x1, SET FROM x2", "UPDATE x1 SET x2 = 1, SET = 2", "UPDATE x1 SET x2 = 1, RETURNING = 2",
    # other statements / nothing
    "SELECT x1", "VALUES (1)", "x1", "", "REPLACE INTO x1 VALUES (1)", "INSERT OR x1 VALUES (1)", "INSERT IGNORE INTO x1 VALUES (1)", "INSERT OVERWRITE x1 VALUES (1)",
    "INSERT INTO x1 PARTITION (x2) VALUES (1)", "INSERT INTO x1 VALUES (1) ON CONFLICT DO NOTHING", "INSERT INTO x1 VALUES (1) ON DUPLICATE KEY UPDATE x2 = 1",
]


def mutate(rng, sql):
    """A token-level edit: drop / duplicate a token, add a comma, append a stray word, or insert a keyword."""
    ts = sql.split(" ")
    r = rng.random()
    i = rng.randrange(len(ts))
    if r < 0.3 and len(ts) > 2:
        del ts[i]
    elif r < 0.45:
        ts.insert(i, ts[i])
    elif r < 0.6:
        ts.insert(i, ",")
    elif r < 0.75:
        ts.append(rng.choice([")", ";", "x9", ", x2", "RETURNING x1", "WHERE x1", "SET x1 = 2", "LIMIT 1", "ORDER BY x1", "USING x2", "FROM x3"]))
    else:
        ts.insert(i, rng.choice(["(", ")", "AS", "FROM", "SET", "RETURNING", "DEFAULT", "VALUES", "INTO", "WHERE", "USING", "JOIN", "ON", "ALL", "SELECT", "TABLE", "="]))
    return " ".join(ts)


def dml_cases(run, T, pool=None):
    rng = run.rng
    thorough = run.tier == "thorough"
    pool = pool or c01query.expr_pool(run, T)
    cases = []
    add = lambda d, sql, stream: cases.append({"dialect": d, "sql": sql, "stream": stream})
    for di, d in enumerate(C04.DIALECTS):
        g = MGen(rng, pool[d])
        part = (lambda i: True) if thorough else (lambda i: (i + di) % 3 == 0)
        g.sq_depth = 1
        g.tame = True
        # (i) every combination of clause presence / absence, 1-3 columns / assignments, every kind of source
        for into in (True, False):
            for ncols in (0, 1, 2, 3):
                for kind in SOURCES:
                    for ret in (False, True):
                        add(d, g.insert(into, ncols, kind, ret), "shapes-insert")
        for nas in (1, 2, 3):
            for tup in (False, True):
                for frm in (0, 1, 2):
                    for where in (False, True):
                        for ret in (False, True):
                            add(d, g.update(nas, tup, frm, where, ret), "shapes-update")
        for m in range(96):
            using, m2 = m % 3, m // 3
            pres = [bool(m2 >> i & 1) for i in range(5)]
            add(d, g.delete(2 if pres[4] else 1, using, pres[0], pres[1], pres[2], pres[3]), "shapes-delete")
        g.sq_depth = 0
        g.tame = False
        # (ii) every word (reserved / non-reserved keywords of the two alphabets, the DML keywords) in every name position
        for wi, w in enumerate(NAME_WORDS):
            for ti, t in enumerate(NAME_SITES):
                if part(wi + ti):
                    add(d, t % w, "names")
        # (iii) directed texts
        for s in DIRECTED:
            add(d, s, "directed")
        # (iv) random statements with queries nested to depth 2, and token-level mutations of them
        n = 500 if thorough else 90
        for _ in range(n):
            s = g.statement(rng.choice([0, 1, 1, 2]))
            add(d, s, "random")
            if rng.random() < 0.5:
                add(d, mutate(rng, s), "mutated")
    seen, out = set(), []
    for c in cases:
        k = (c["dialect"], c["sql"])
        if k not in seen:
            seen.add(k)
            out.append(c)
    return out


# ------------------------------------------------------------------ encoding as Coq terms

class MEnc(QEnc):
    """Tokens and aligned trees of the DML core: the encoders of the query core, with the DML keywords as
    reserved word atoms (tokens: DKW_BASE + i; names in trees: DPLAIN_BASE + i)."""

    @staticmethod
    def view(v):
        """The C04 token view with the DML keywords shown as atoms spelled by their name."""
        return [["atom", t[1]] if t[0] == "other" and t[1] in DKW else t for t in v]

    def atom_id(self, text, string=False):
        if not string and text in DKW:
            return DPLAIN_BASE + DKW[text]
        return super().atom_id(text, string)

    def tok(self, t):
        if t[0] == "atom" and t[1] in DKW:
            return "TAtom false %d" % (DKW_BASE + DKW[t[1]])
        return super().tok(t)

    def qtok(self, t, kind=""):
        if t[0] == "atom" and t[1] in DKW and kind == "":
            return "QE (%s)" % self.tok(t)
        return super().qtok(t, kind)

    def word(self, ident):
        t = self.peek()
        kind = self.kinds[self.pos] if self.pos < len(self.kinds) else ""
        if t[0] == "atom" and t[1] in DKW and kind == "":
            if ident["q"] is not None or ident["v"] != t[1]:
                raise ValueError("alignment: identifier %s vs token %s" % (ident, t))
            self.pos += 1
            return "(QE (TAtom false %d))" % (DPLAIN_BASE + DKW[t[1]])
        return super().word(ident)

    def kw(self, w):
        return self.eat("atom", w)

    def list_end(self):
        if self.peek() == ["p", "Comma"]:       # a trailing comma
            self.pos += 1

    def items(self, r):
        if r is None:
            return "None"
        self.kw("RETURNING")
        l = self.commas(r, self.q_item)
        self.list_end()
        return "(Some %s)" % l

    def twjs(self, l):
        x = self.commas(l, self.q_twj)
        self.list_end()
        return x

    def m_assign(self, a):
        t = a["target"]
        if t["k"] == "col":
            tt = "(TCol %s)" % self.word(t["name"])
        else:
            tt = "(TTuple %s)" % self.cols(t["names"])
        self.eat("op", "Eq")
        return "(Assign %s %s)" % (tt, self.xconv(a["value"]))

    def m_stmt(self, n):
        k = n["k"]
        if k == "insert":
            self.kw("INSERT")
            if n["into"]:
                self.kw("INTO")
            name = self.word(n["table"])
            if n["cols"]:
                cols = self.cols(n["cols"])
            else:
                cols = "[]"
                if self.peek() == ["p", "LParen"] and self.v[self.pos + 1:self.pos + 2] == [["p", "RParen"]]:
                    self.pos += 2                # INSERT INTO t () ..
            if n["source"] is None:
                self.kw("DEFAULT"); self.eatq("VALUES")
                src = "None"
            else:
                src = "(Some %s)" % self.q_query(n["source"])
            return "(SInsert %s %s %s %s %s)" % (coq_bool(n["into"]), name, cols, src, self.items(n["returning"]))
        if k == "update":
            self.kw("UPDATE")
            table = self.q_twj(n["table"])
            self.kw("SET")
            asg = self.commas(n["assignments"], self.m_assign)
            self.list_end()
            frm = "None"
            if self.peek() == ["kw", "FROM"]:
                self.pos += 1                    # consumed whatever the dialect
                if n["from"] is not None:
                    frm = "(Some %s)" % self.q_twj(n["from"])
            elif n["from"] is not None:
                raise ValueError("alignment: FROM")
            return "(SUpdate %s %s %s %s %s)" % (table, asg, frm, self.opt(n["where"], "WHERE"), self.items(n["returning"]))
        self.kw("DELETE")
        tables = "[]"
        if n["tables"]:
            tables = self.commas(n["tables"], self.word)
            self.list_end()
        if n["from_kw"]:
            self.eat("kw", "FROM")
        frm = self.twjs(n["from"])
        using = "None"
        if n["using"] is not None:
            self.eatq("USING")
            using = "(Some %s)" % self.twjs(n["using"])
        wh = self.opt(n["where"], "WHERE")
        ret = self.items(n["returning"])
        ob = "[]"
        if n["order_by"]:
            self.eatq("ORDER"); self.eatq("BY")
            ob = self.commas(n["order_by"], self.q_order)
            self.list_end()
        lim = "None"
        if self.peek() == ["other", "LIMIT"]:
            self.pos += 1
            if n["limit"] is None:
                self.eat("kw", "ALL")
            else:
                lim = self.opt(n["limit"])
        elif n["limit"] is not None:
            raise ValueError("alignment: LIMIT")
        return "(SDelete %s %s %s %s %s %s %s %s)" % (tables, coq_bool(n["from_kw"]), frm, using, wh, ret, ob, lim)


def encode_case(T, c, r):
    d = c["dialect"]
    if r["tokens"] is None:
        return None
    enc = MEnc(T, d)
    view = enc.view(r["tokens"])
    ts = enc.qtoks(view, r["tkind"])
    rs = r["result"]
    impl = "MIErr"
    if "ok" in rs:
        impl = "MIBad"
        again = rs["again"]
        if rs["ok"] != "out_of_fragment":
            try:
                enc.start(view, r["tkind"])
                term = enc.m_stmt(rs["ok"])
                if enc.pos != len(view) - rs["rest"]:
                    raise ValueError("tree yields %d tokens, parser consumed %d" % (enc.pos, len(view) - rs["rest"]))
                pt = enc.qtoks(enc.view(again["ptokens"]), again["pkind"]) if "ptokens" in again else "[QOther]"
                impl = "(MIOk %s %d %s)" % (term, rs["rest"], pt)
            except (ValueError, KeyError, IndexError) as e:
                c["align_error"] = str(e)
    elif "panic" in rs:
        impl = "MIBad"
    return "(md_%s, %s, %s)" % (d, ts, impl)


CHECK_FN = "(fun c => match c with (d, ts, i) => mcase_full d ts i end)"
CASE_TYPE = "(mdialect * list qtok * mires)"
BITS = {1: "model-parser-vs-parse_statement", 2: "mtoks-vs-printed-tokens", 4: "model-roundtrip", 16: "wf-of-accepted-tree"}
# counted, not an error: 32 = mwf / mfrag / ender fail (the theorem says nothing about the tree).
# Bit 4 (the model does not parse mtoks(tree) back to the tree) is an error when the theorem applies (32 clear) or
# when the implementation does re-parse its printed text to the same tree: outside mwf the model must PREDICT the
# implementation's own round-trip failure (the classes [mwf] excludes contain parser outputs: see notes/findings/C01.md).


TABLES = {}


def impl_key(c, rs):
    """Root-cause key of an implementation round-trip failure."""
    ok = rs.get("ok")
    if isinstance(ok, dict) and ok.get("k") == "insert" and not ok["cols"] and rs["text"].split(" RETURNING ")[0].rstrip().endswith(")") \
            and re.match(r"INSERT (INTO )?\S+ \(", rs["text"]) and isinstance(ok.get("source"), dict) and ok["source"]["body"]["k"] in ("nested", "setop"):
        return "insert-empty-columns-parenthesised-source"
    if "RETURNING" not in TABLES.get("kw_tab", []) and re.search(r"\bAS RETURNING\b", rs["again"].get("text2") or ""):
        return "returning-read-as-table-alias"
    if rs["again"].get("same") is False and rs["again"].get("text2") == rs["text"] and "==" in c["sql"] and re.search(r"\w\((?:[^()]*, )?(\w+|'\w+') = ", rs["text"]):
        return "function-argument-eq-read-as-named-argument"
    if re.search(r"\bSELECT ALL\b", rs.get("text", "")):
        return "select-all-identifier"
    return "impl-roundtrip"


def check_dml(run, prop="C01", tables=None, pool=None):
    t0 = time.time()
    note = {}
    run.notes["dml_core"] = note
    tables = tables or gen_dml_tables()
    TABLES.clear()
    TABLES.update(tables)
    note["switches"] = tables["switches"]
    note["dml_keywords_reserved_for_column_alias"] = tables["kw_col"]
    note["dml_keywords_reserved_for_table_alias"] = tables["kw_tab"]
    T = C04.gen_tables(run)
    ok, out = coq_make(["theories/DmlCoreProofs.vo", "gen/DmlTables.vo"])
    if not ok:
        run.violation({"what": "the DML-core model does not build", "unchecked": "DmlCore correspondence",
                       "tool_output": failing_coq_item(out)}, no_input=True)
        return note
    known = dict(known_findings(prop))
    cases = dml_cases(run, T, pool)
    res = run_bin_parallel(PKG, ["dml"], cases, pkg=PKG)
    terms, idx = [], []
    stats = {"cases": len(cases), "accepted": 0, "rejected": 0, "dml_statements": 0, "trees_in_fragment": 0,
             "impl_roundtrip_fail": 0, "streams": {}}
    viol = {}

    def report(key, rep, **kw):
        # a defect of the query core met inside a statement keeps its key
        full = "query:" + key if key == "select-all-identifier" else "dml:" + key
        if full in known:
            run.known(full, known[full])
            stats.setdefault("by_key", {})
            stats["by_key"][full] = stats["by_key"].get(full, 0) + 1
        else:
            viol[key] = viol.get(key, 0) + 1
            if viol[key] <= 6:
                run.violation(dict(rep, key=full), **kw)

    for i, (c, r) in enumerate(zip(cases, res)):
        st = stats["streams"].setdefault(c["stream"], {"cases": 0, "accepted": 0, "compared": 0})
        st["cases"] += 1
        rs = r["result"]
        if "ok" in rs:
            stats["accepted"] += 1
            st["accepted"] += 1
            if rs.get("kind") in ("Insert", "Update", "Delete"):
                stats["dml_statements"] += 1
                again = rs["again"]
                # the property itself on the implementation (whatever the parser left unconsumed is not part of the tree)
                good = again.get("same") is True and again.get("rest") == 0 and again.get("text2") == rs["text"]
                if not good:
                    stats["impl_roundtrip_fail"] += 1
                    report(impl_key(c, rs), {"what": "an accepted DML statement does not survive parse -> print -> parse", "dialect": c["dialect"],
                                             "input": c["sql"], "printed": rs["text"],
                                             "reparse": {k: again.get(k) for k in ("same", "err", "tokerr", "panic", "text2", "rest")}})
        elif "tokerr" not in rs:
            stats["rejected"] += 1
        t = encode_case(T, c, r)
        if t is not None:
            terms.append(t)
            idx.append(i)
            if "MIOk" in t:
                stats["trees_in_fragment"] += 1
    codes = C04.run_coq_codes("c01dml", HEADER, terms, CHECK_FN, CASE_TYPE, shard_size=max(150, len(terms) // 16 + 1))
    cnt = {v: 0 for v in BITS.values()}
    compared = 0
    for i, cd in zip(idx, codes):
        c, r = cases[i], res[i]
        if cd & 8:
            continue
        compared += 1
        stats["streams"][c["stream"]]["compared"] += 1
        rs = r["result"]
        impl_good = "ok" in rs and rs["again"].get("same") is True and rs["again"].get("rest") == 0
        if "ok" in rs and not cd & 1 and bool(cd & 4) == impl_good:
            # the model's round trip and the implementation's disagree (either way)
            cnt["model-roundtrip"] += 1
            report("model:model-roundtrip", {"what": "DML-core model check failed: the model's round trip of the tree %s, the implementation's %s" % (
                                                "fails" if cd & 4 else "holds", "holds" if impl_good else "fails"),
                                             "unchecked": "correspondence DmlCore (model-roundtrip)", "dialect": c["dialect"], "input": c["sql"],
                                             "observed": rs.get("text") or rs}, no_input=True)
        if cd & 4 and not cd & 32:
            cnt["model-roundtrip"] += 1
            report("model:theorem-instance", {"what": "a tree satisfying the hypotheses of dml_roundtrip does not round-trip in the model",
                                              "unchecked": "DmlCoreProofs.dml_roundtrip", "dialect": c["dialect"], "input": c["sql"]}, no_input=True)
        if cd & 4:
            stats["model_predicts_roundtrip_failure"] = stats.get("model_predicts_roundtrip_failure", 0) + 1
        for b, name in BITS.items():
            if b == 4:
                continue
            if cd & b:
                cnt[name] += 1
                report("model:" + name, {"what": "DML-core model check failed: " + name, "unchecked": "correspondence DmlCore (" + name + ")",
                                         "dialect": c["dialect"], "input": c["sql"], "observed": r["result"].get("text") or r["result"],
                                         "alignment": c.get("align_error")}, no_input=True)
    stats["in_fragment"] = compared
    stats["outside_fragment"] = len(terms) - compared
    stats["accepted_in_fragment"] = sum(1 for i, cd in zip(idx, codes) if not cd & 8 and "ok" in res[i]["result"])
    stats["rejected_in_fragment"] = sum(1 for i, cd in zip(idx, codes) if not cd & 8 and "ok" not in res[i]["result"])
    stats["outside_wf_or_fragment_test"] = sum(1 for cd in codes if cd & 32 and not cd & 8)
    stats["theorem_instances"] = sum(1 for i, cd in zip(idx, codes) if not cd & (8 | 16 | 32) and "ok" in res[i]["result"])
    stats["alignment_failures"] = sum(1 for c in cases if "align_error" in c)
    stats["model_checks_failed"] = cnt
    stats["disagreements"] = sum(cnt.values())
    # the reserved-word defect: RETURNING is not in RESERVED_FOR_TABLE_ALIAS, so a table without alias directly in
    # front of RETURNING swallows the keyword (the statement is rejected; the model's theorem excludes the class)
    if "RETURNING" not in tables["kw_tab"]:
        hit = [c for c, r in zip(cases, res) if c["sql"] == "DELETE FROM x1 RETURNING x2" and
               ("err" in r["result"] or r["result"].get("rest"))]
        if hit:
            stats["returning_read_as_table_alias"] = len(hit)
            report("returning-table-alias", {"what": "`DELETE FROM x1 RETURNING x2`: RETURNING is read as the alias of x1", "dialect": hit[0]["dialect"],
                                             "input": hit[0]["sql"]})
    stats["wall_s"] = round(time.time() - t0, 1)
    note.update(stats)
    run.add_eval(len(cases), compared)
    for c, r in list(zip(cases, res))[40:42]:
        run.sample({"dml_core": c["sql"], "dialect": c["dialect"], "printed": r["result"].get("text", r["result"])})
    log(f"[{prop}] DML core: {len(cases)} cases, {compared} compared in the kernel, {stats['disagreements']} model disagreements, "
        f"{stats['impl_roundtrip_fail']} implementation round-trip failures, {stats['wall_s']}s")
    return note
