"""Operator-core (in-model) part shared by C01 and C05: theorems of coq/Properties/C01.v / C05.v and
the model-vs-implementation correspondence of the printer.  `check_core(run, prop)` is called by
lib/props/C01.py and lib/props/C05.py; it records its evidence under run.notes["in_model"].
(stub: replaced by the builder of the Coq core)"""


def check_core(run, prop):
    run.notes["in_model"] = {"status": "stub"}
    return None
