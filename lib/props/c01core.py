"""Operator-core (in-model) part shared by C01 and C05: re-checks the theorems of
coq/Properties/C01.v / C05.v and runs, inside the Coq VM, the correspondence of the printer model
(PrinterCore.pp vs Display, ptoks vs the crate's tokenizer on the printed text, the Lexer.v model on
the model's text, the model's token round trip, content equality); evaluates the property itself on
the implementation for the same inputs (print -> tokenize -> parse_expr again, same tree, printing
idempotent; content tokens kept).  `check_core(run, prop)` is called by lib/props/C01.py and
lib/props/C05.py and records its evidence under run.notes["in_model"]."""
import json
import os
import re
import time
import common
from common import *
from props import C04
import lexlib

PKG = C04.PKG
HEADER = ("Require Import SqlV.Base SqlV.PrecSpec SqlV.Pratt SqlV.PrinterCore SqlV.PrinterCoreProofs "
          "SqlVGen.PrecTables SqlVGen.DialectTables SqlVGen.PrinterTables.\nRequire SqlV.Lexer.\n")
# prefix operators and their spelling, for the pair stream
PREFIX = {"Plus": "+", "Minus": "-", "Tilde": "~", "AtSign": "@", "DoubleExclamationMark": "!!",
          "PGSquareRoot": "|/", "PGCubeRoot": "||/"}
CORE_KNOWN = {
    "C01": {},
    "C05": {
        "core:like-escape-word": "`a LIKE b ESCAPE c` (unquoted word accepted by parse_literal_string) prints `ESCAPE 'c'`: the identifier becomes a string literal",
    },
}


def gen_printer_tables(T):
    """coq/gen/PrinterTables.v: what Display prints for the operator made from each token key."""
    cases = []
    for d in C04.DIALECTS:
        for n, s in T["info"][d]["ops"].items():
            cases.append({"dialect": d, "sql": "x1 IS NULL %s x2" % s, "key": n, "pre": False})
        for n, s in C04.PREFIX_SPELL.items():
            if n != "kw:NOT":
                cases.append({"dialect": d, "sql": "%s x1" % s, "key": n, "pre": True})
    res = run_bin(PKG, ["expr"], cases, pkg=PKG)
    text = {d: {} for d in C04.DIALECTS}
    for c, r in zip(cases, res):
        rs = r["result"]
        if "ok" not in rs or rs.get("rest") != 0:
            continue
        t = rs["text"]
        if c["pre"]:
            if rs["ok"]["k"] == "un" and t.endswith("x1"):
                text[c["dialect"]].setdefault(c["key"], t[:-2])
        else:
            if rs["ok"]["k"] == "bin" and t.startswith("x1 IS NULL ") and t.endswith(" x2"):
                text[c["dialect"]][c["key"]] = t[len("x1 IS NULL "):-3]
    v = ["(* GENERATED on every run by lib/props/c01core.py from the running /repo crate: the text",
         "   Display for BinaryOperator / UnaryOperator prints for the operator made from each token key. *)",
         "Require Import SqlV.Base SqlV.PrecSpec."]
    for d in C04.DIALECTS:
        pairs = sorted((T["kid"][k], s) for k, s in text[d].items())
        v.append("Definition optext_%s (k : N) : list N :=" % d)
        for k, s in pairs:
            v.append("  if k =? %d then %s else" % (k, coq_str(s)))
        v.append("  [].")
    write_if_changed(os.path.join(GEN, "PrinterTables.v"), "\n".join(v) + "\n")
    return text


def core_cases(run, T):
    """The C04 expression stream (atoms renamed to x<n> / s<n>) plus all ordered pairs and triples of
    prefix operators, postfix pairs, and LIKE-family variants with ANY / ESCAPE."""
    rng = run.rng

    class _QuickTier:        # the C04 quick stream (all pairs); its thorough stream (2M cases) is C04's own business
        tier = "quick"
    shim = _QuickTier()
    shim.rng = rng
    cases = C04.gen_cases(shim, T)
    if run.tier != "thorough":
        keep = {"single", "single-prefix", "pair", "interior", "paren", "chain", "triple"}
        cases = [c for c in cases if c["stream"] in keep]
    if run.tier != "thorough":
        # quick: all singles / interior / parenthesis / chain cases, a third of the pairs and triples
        cases = [c for c in cases if c["stream"] not in ("pair", "triple") or rng.random() < 0.34]
    for c in cases:
        c["sql"] = re.sub(r"\by(\d+)\b", lambda m: "x%d" % (60 + int(m.group(1))), c["sql"])
        c["sql"] = re.sub(r"(?<![\w'])7(?![\w'])", "x77", c["sql"])   # number operands: atoms are x<n> / 's<n>' here
    extra = []
    for d in C04.DIALECTS:
        pres = ["-", "+", "NOT"] + (["~", "@", "!!", "|/", "||/"] if T["flags"][d]["is_pg"] else [])
        for a in pres:
            for b in pres:
                for tail in ("x1", "'s1'", "(x1)", "x1 :: INT", "x1 !", "x1 * x2", "x1 + x2", "x1 IS NULL", "x1 || x2 ! * x3"):
                    extra.append({"dialect": d, "sql": "%s %s %s" % (a, b, tail), "stream": "prefix-pair"})
                extra.append({"dialect": d, "sql": "x2 %s %s %s x1" % ("-", a, b), "stream": "prefix-pair"})
                for c3 in pres:
                    extra.append({"dialect": d, "sql": "%s %s %s x1" % (a, b, c3), "stream": "prefix-triple"})
        for tail in ("x1 ! !", "x1 ! ! !", "x1 ! :: INT !", "x1 ! = x2", "x1 ! [x2]", "- x1 !", "x1 ! IS NULL", "(x1 + x2 !) !", "x1 + x2 ! !", "- x1 ! !"):
            extra.append({"dialect": d, "sql": tail, "stream": "postfix-pair"})
        for kw in ("LIKE", "ILIKE", "NOT LIKE", "NOT ILIKE", "SIMILAR TO"):
            for anyk in ("", "ANY ") if "SIMILAR" not in kw else ("",):
                for esc in ("", " ESCAPE 's1'", " ESCAPE x9"):
                    extra.append({"dialect": d, "sql": "x1 %s %sx2%s" % (kw, anyk, esc), "stream": "like-forms"})
                    extra.append({"dialect": d, "sql": "x1 %s %sx2%s AND x3" % (kw, anyk, esc), "stream": "like-forms"})
        extra.append({"dialect": d, "sql": "x1 == x2 == x3", "stream": "spelling"})
        extra.append({"dialect": d, "sql": "x1 != x2 <> x3", "stream": "spelling"})
    seen, out = set(), []
    for c in extra + cases:
        k = (c["dialect"], c["sql"])
        if k not in seen:
            seen.add(k)
            out.append(c)
    return out


def patterns(node, out):
    """Known printer-defect patterns present in an implementation tree (keys of CORE_KNOWN + pairs)."""
    if isinstance(node, dict):
        k = node.get("k")
        if k == "un" and node["op"] not in ("Not", "PGPostfixFactorial"):
            ch = node["e"]
            if isinstance(ch, dict) and ch.get("k") == "un" and ch["op"] not in ("Not", "PGPostfixFactorial"):
                out.add("prefix-pair:%s%s" % (PREFIX[C04.UNOP_TOK[node["op"]]], PREFIX[C04.UNOP_TOK[ch["op"]]]))
        if k == "un" and node["op"] == "PGPostfixFactorial":
            ch = node["e"]
            if isinstance(ch, dict) and ch.get("k") == "un" and ch["op"] == "PGPostfixFactorial":
                out.add("postfix-pair:!!")
        if k == "like" and node["kind"] == "ILike" and node["any"] and node["esc"] is not None:
            out.add("ilike-any-escape")
        for v in node.values():
            patterns(v, out)
    elif isinstance(node, list):
        for v in node:
            patterns(v, out)


def content_of(view):
    out = []
    for t in view:
        if t[0] == "atom":
            out.append(("w", t[1]))
        elif t[0] == "str":
            out.append(("s", t[1]))
        elif t[0] == "other":
            out.append(("o", t[1]))
    return sorted(out)


def check_core(run, prop):
    t0 = time.time()
    note = {}
    run.notes["in_model"] = note
    T = C04.gen_tables(run)
    lexlib.gen_dialect_tables()
    gen_printer_tables(T)
    pr = prove(prop)
    run.cov["obligations"] = run.cov.get("obligations", 0) + pr["statements"]
    run.cov["discharged"] = run.cov.get("discharged", 0) + (pr["statements"] if pr["ok"] else 0)
    note["print_assumptions"] = {"closed_under_global_context": pr["closed"], "axioms": pr["axioms"]}
    note["cone"] = pr["cone"]
    if not pr["ok"]:
        run.violation({"what": "a proof obligation of %s (operator core) no longer checks" % prop,
                       "unchecked": failing_coq_item(pr["output"]), "forbidden": pr["forbidden"], "axioms": pr["axioms"]}, no_input=True)
    coq_make(["theories/PrinterCore.vo", "gen/PrinterTables.vo", "gen/DialectTables.vo", "gen/PrecTables.vo"])

    known = dict(known_findings(prop))
    cases = core_cases(run, T)
    res = run_bin_parallel(PKG, ["expr"], cases, pkg=PKG)
    terms, idx = [], []
    stats = {"cases": len(cases), "trees": 0, "in_fragment": 0, "impl_roundtrip_fail": 0, "content_fail": 0, "by_key": {}}
    viol = {}

    def report(key, rep, **kw):
        full = "core:" + key
        if full in known:
            run.known(full, known[full])
            stats["by_key"][full] = stats["by_key"].get(full, 0) + 1
        else:
            viol[key] = viol.get(key, 0) + 1
            if viol[key] <= 10:
                run.violation(dict(rep, key=full), **kw)

    def impl_good(rs):
        again = rs["again"]
        return again.get("same") is True and again.get("rest") == 0 and again.get("text2") == rs["text"]

    # prefix-operator pairs that fail on their own (`P1 P2 x1`): the keys of the pair findings
    bad_pairs = {d: set() for d in C04.DIALECTS}
    for c, r in zip(cases, res):
        rs = r["result"]
        if c["stream"] == "prefix-pair" and c["sql"].endswith(" x1") and len(c["sql"].split()) == 3 and "ok" in rs and not impl_good(rs):
            ps = set()
            patterns(rs["ok"], ps)
            bad_pairs[c["dialect"]] |= {p for p in ps if p.startswith("prefix-pair:")}
    note["failing_prefix_pairs"] = {d: sorted(v) for d, v in bad_pairs.items() if v}

    def keys_of(d, tree):
        ps = set()
        patterns(tree, ps)
        return {p for p in ps if not p.startswith("prefix-pair:") or p in bad_pairs[d]}

    for i, (c, r) in enumerate(zip(cases, res)):
        rs = r["result"]
        if "ok" not in rs or r["tokens"] is None:
            continue
        stats["trees"] += 1
        again = rs["again"]
        d = c["dialect"]
        pats = keys_of(d, rs["ok"])
        base = {"dialect": d, "input": c["sql"], "stream": c["stream"], "printed": rs["text"], "reparse": {k: again.get(k) for k in ("same", "err", "tokerr", "panic", "text2", "rest")}}
        if prop == "C01":
            if not impl_good(rs):
                stats["impl_roundtrip_fail"] += 1
                for p in (sorted(pats) or ["unclassified"]):
                    report(p, {"what": "the printed expression does not parse back to the same tree", **base})
        else:
            used = r["tokens"][:len(r["tokens"]) - rs["rest"]]
            if "ptokens" in again and not pats and content_of(used) != content_of(again["ptokens"]):
                stats["content_fail"] += 1
                wordesc = any(t[0] == "kw" and t[1] == "ESCAPE" and j + 1 < len(used) and used[j + 1][0] == "atom" for j, t in enumerate(used))
                report("like-escape-word" if wordesc else "unclassified",
                       {"what": "content tokens of the input and of the printed text differ", "lost_or_invented": [content_of(used), content_of(again["ptokens"])], **base})
        # model side
        enc = C04.Enc(T, d)
        try:
            term, pos = enc.tree(r["tokens"], rs["ok"])
        except (ValueError, KeyError):
            continue
        if "ptokens" not in again:
            pt = "[TOther]"
        else:
            pt = enc.toks(again["ptokens"])
        stats["in_fragment"] += 1
        rest_toks = enc.toks(r["tokens"][len(r["tokens"]) - rs["rest"]:]) if rs["rest"] else "[]"
        if prop == "C01":
            terms.append("(d_%s, optext_%s, dl_%s, %s, %s, %s, %s)" % (d, d, d, term, coq_str(rs["text"]), pt, rest_toks))
        else:
            terms.append("(optext_%s, %s, %s)" % (d, term, coq_str(rs["text"])))
        idx.append(i)
    fn = "(fun c => match c with (d, ot, ld, e, text, pt, rest) => c01_full d ot ld std_uni e text pt rest end)"
    typ = "(Pratt.dialect * (N -> list N) * Lexer.dialect * expr * list N * list PrecSpec.tok * list PrecSpec.tok)"
    if prop != "C01":
        fn = "(fun c => match c with (ot, e, text) => c05_case ot e text end)"
        typ = "((N -> list N) * expr * list N)"
    codes = C04.run_coq_codes("c01core_" + prop.lower(), HEADER, terms, fn, typ, shard_size=1000)
    bits = {1: "pp-vs-Display", 2: "printed-text-tokens", 4: "lexer-model-glue", 8: "model-token-roundtrip", 16: "content", 32: "image-predicate"}
    relevant = (1, 2, 4, 8, 32) if prop == "C01" else (1, 16)
    cnt = {v: 0 for v in bits.values()}
    stats["outside_syntactic_fragment_test"] = sum(1 for cd in codes if cd & 64)
    for i, cd in zip(idx, codes):
        c, r = cases[i], res[i]
        rs = r["result"]
        pats = keys_of(c["dialect"], rs["ok"])
        for b in relevant:
            if cd & b:
                cnt[bits[b]] += 1
                base = {"dialect": c["dialect"], "input": c["sql"], "printed": rs["text"], "failed": bits[b]}
                if b in (2, 4) and pats:
                    for p in sorted(pats):
                        report(p, {"what": "the printed text does not lex to the canonical tokens of the tree (glue)", **base})
                elif b == 16:
                    report("like-escape-word", {"what": "content of the printed tokens differs from the content of the input (model)", **base})
                elif b == 1:
                    report("pp-model", {"what": "PrinterCore.pp and Display disagree", "unchecked": "correspondence PrinterCore.pp", **base}, no_input=True)
                else:
                    report("model:" + bits[b], {"what": "operator-core model check failed", "unchecked": bits[b], **base},
                           no_input=(b in (8, 32)))
    stats["model_checks_failed"] = cnt
    stats["wall_s"] = round(time.time() - t0, 1)
    note.update(stats)
    run.add_eval(len(cases), stats["in_fragment"])
    for c, r in list(zip(cases, res))[:2]:
        run.sample({"core": c["sql"], "dialect": c["dialect"], "printed": r["result"].get("text")})
    return stats
