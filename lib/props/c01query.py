"""Query-core (in-model) part of C01: queries around the expression model.

coq/theories/QueryCore.v models Parser::parse_query (WITH / parse_cte, ORDER BY, the LIMIT-OFFSET loop) / parse_query_body
(SELECT, parenthesised query, VALUES, TABLE) / parse_select / parse_select_item / parse_table_and_joins (all join kinds and
constraints) / parse_table_factor (tables, derived tables, nested joins) / parse_optional_alias, subqueries inside
expressions ((q), IN (q), [NOT] EXISTS (q), op ANY|ALL|SOME (q)) and the Display impls of Query / With / Cte / SetExpr /
Select / SelectItem / TableWithJoins / Join / TableFactor / Values / Table / OrderByExpr at token level;
coq/theories/QueryCoreProofs.v proves the round trip `parse_query d fuel (qtoks q ++ rest) = Ok (q, rest)` for
well-formed trees.  This module ties the model to the implementation on every run:
  gen_query_tables()   coq/gen/QueryTables.v: the reserved-word lists and the per-dialect switches of the model,
                       dumped / probed from the running crate (harness/prattx qtables);
  check_query(run, p)  generates texts of the fragment in all dialects, runs the real tokenizer + parse_query +
                       to_string + re-parse on them (harness/prattx query), encodes tokens and trees as Coq terms
                       and evaluates `qcase_full` inside the kernel VM: model parser = implementation on the
                       implementation's tokens, qtoks(tree) = tokens of the printed text, model round trip on the
                       tree, qwf(tree) for every accepted tree; and checks the property itself on the
                       implementation (print -> parse gives the same tree and the same text).
Evidence goes to run.notes["query_core"]."""
import os
import re
import time
import common
from common import *
from props import C04

PKG = C04.PKG
HEADER = ("Require Import SqlV.Base SqlV.PrecSpec SqlV.Pratt SqlV.SetOps SqlV.PrinterCore SqlV.QueryCore "
          "SqlV.QueryCoreProofs SqlVGen.PrecTables SqlVGen.QueryTables.\n")
QKW = {"SELECT": "KSelect", "WHERE": "KWhere", "GROUP": "KGroup", "BY": "KBy", "HAVING": "KHaving", "ORDER": "KOrder",
       "ASC": "KAsc", "DESC": "KDesc", "LIMIT": "KLimit", "OFFSET": "KOffset", "AS": "KAs", "UNION": "KUnion",
       "EXCEPT": "KExcept", "INTERSECT": "KIntersect", "JOIN": "KJoin", "INNER": "KInner", "LEFT": "KLeft",
       "RIGHT": "KRight", "FULL": "KFull", "OUTER": "KOuter", "CROSS": "KCross", "NATURAL": "KNatural", "ON": "KOn",
       "USING": "KUsing", "WITH": "KWith", "RECURSIVE": "KRecursive", "EXISTS": "KExists",
       "VALUES": "KValues", "TABLE": "KTable"}
WORD_OPS = {"AND": 40, "OR": 41, "XOR": 42}
FLAGS = ["limit_comma", "limit_by", "trailing", "proj_trailing", "wild_except", "wild_ilike", "select_as", "unnest_table",
         "hyphen_table", "group_by_expr", "paren_tables", "group_with", "exists_fn", "values_empty"]
# words used as aliases / table names: reserved and non-reserved keywords of the model's alphabet
ALIAS_WORDS = ["SELECT", "WHERE", "GROUP", "BY", "HAVING", "ORDER", "ASC", "DESC", "LIMIT", "OFFSET", "AS", "UNION",
               "EXCEPT", "INTERSECT", "FROM", "DISTINCT", "ALL", "NOT", "IS", "NULL", "TRUE", "IN", "BETWEEN", "LIKE",
               "ILIKE", "TO", "ESCAPE", "AT", "TIME", "ZONE", "ANY", "SOME", "UNNEST", "DIV", "AND", "OR", "INT", "TEXT",
               "DATE", "x7", "JOIN", "INNER", "LEFT", "RIGHT", "FULL", "OUTER", "CROSS", "NATURAL", "ON", "USING", "WITH",
               "RECURSIVE", "EXISTS", "VALUES", "TABLE"]


def word_term(name):
    """Coq qtok for a keyword of the alphabet (None if the keyword is outside it)."""
    if name in QKW:
        return "QK " + QKW[name]
    if name in C04.KW:
        return "QE (TKw %s)" % C04.KW[name]
    if name in WORD_OPS:
        return "QE (TOp %d)" % WORD_OPS[name]
    if name in C04.TYPES:
        return "QE (TType %d)" % C04.TYPES[name]
    return None


def flags_from(entry):
    """The model's switches of one dialect, decided by behavioural probes of the running parser."""
    p = entry["probes"]
    ok = lambda k: bool(p[k].get("ok") and p[k].get("at_end"))
    return {
        "limit_comma": ok("limit_comma") and bool(p["limit_comma"].get("offset")),
        "limit_by": bool(p["limit_by"].get("limit_by")),
        "trailing": ok("trailing"),
        "proj_trailing": ok("proj_trailing"),
        "wild_except": bool(p["wild_except"].get("wild_opts")),
        "wild_ilike": bool(p["wild_ilike"].get("wild_opts")),
        "select_as": bool(p["select_as"].get("value_table_mode")),
        "unnest_table": p["unnest_table"].get("from_kind") == "UNNEST",
        "hyphen_table": ok("hyphen_table"),
        "group_by_expr": ok("group_by_expr"),
        "paren_tables": ok("paren_tables"),
        "group_with": ok("group_with"),
        "exists_fn": p["exists_nested"].get("item0_kind") != "Exists",
        "values_empty": ok("values_empty"),
    }


def gen_query_tables():
    """coq/gen/QueryTables.v from `prattx qtables` (run on the current /repo crate)."""
    t = run_bin(PKG, ["qtables"], pkg=PKG)[0]
    col = [w for w in (word_term(k) for k in t["reserved_for_column_alias"]) if w]
    tab = [w for w in (word_term(k) for k in t["reserved_for_table_alias"]) if w]
    v = ["(* GENERATED on every run by lib/props/c01query.py from the running /repo crate (harness/prattx qtables):",
         "   keywords::RESERVED_FOR_COLUMN_ALIAS / RESERVED_FOR_TABLE_ALIAS restricted to the model's alphabet and the",
         "   per-dialect switches of coq/theories/QueryCore.v, decided by probing Parser::parse_query. *)",
         "Require Import SqlV.Base SqlV.PrecSpec SqlV.Pratt SqlV.QueryCore SqlVGen.PrecTables.", "",
         "Definition res_col_all : list qtok := [%s]." % "; ".join(col),
         "Definition res_tab_all : list qtok := [%s]." % "; ".join(tab), ""]
    flags, mism = {}, {}
    for d in C04.DIALECTS:
        fl = flags_from(t["dialects"][d])
        flags[d] = fl
        for k, val in t["dialects"][d]["flags"].items():
            if fl.get(k) != val:
                mism.setdefault(d, {})[k] = {"trait_method": val, "probe": fl.get(k)}
        v += ["Definition qd_%s : qdialect := {| base := d_%s; res_col := res_col_all; res_tab := res_tab_all;" % (d, d),
              "  " + " ".join("%s := %s;" % (k, coq_bool(fl[k])) for k in FLAGS[:-1]) + " %s := %s |}." % (FLAGS[-1], coq_bool(fl[FLAGS[-1]]))]
    v += ["", "Definition all_qdialects : list qdialect := [%s]." % "; ".join("qd_" + d for d in C04.DIALECTS)]
    write_if_changed(os.path.join(GEN, "QueryTables.v"), "\n".join(v) + "\n")
    return {"flags": flags, "flag_probe_mismatch": mism, "reserved_col": t["reserved_for_column_alias"],
            "reserved_tab": t["reserved_for_table_alias"],
            "named_arg_eq": {d: bool(t["dialects"][d].get("named_arg_eq")) for d in C04.DIALECTS}}


# ------------------------------------------------------------------ case generation

def expr_pool(run, T):
    """Expressions of the C04 generator (atoms renamed to x<n>), per dialect; those the parser accepts entirely."""
    rng = run.rng

    class _Quick:
        tier = "quick"
    shim = _Quick()
    shim.rng = rng
    keep = {"single", "single-prefix", "pair", "interior", "paren", "triple"}
    per = 260 if run.tier == "thorough" else 70
    by_d = {d: [] for d in C04.DIALECTS}
    for c in C04.gen_cases(shim, T, only=lambda c: c["stream"] in keep):
        by_d[c["dialect"]].append(c)
    cases = []
    for d in C04.DIALECTS:
        for c in rng.sample(by_d[d], min(per, len(by_d[d]))):
            sql = re.sub(r"\by(\d+)\b", lambda m: "x%d" % (60 + int(m.group(1))), c["sql"])
            cases.append({"dialect": d, "sql": sql})
    res = run_bin_parallel(PKG, ["expr"], cases, pkg=PKG)
    pool = {d: {"ok": [], "bad": []} for d in C04.DIALECTS}
    for c, r in zip(cases, res):
        rs = r["result"]
        good = "ok" in rs and rs.get("rest") == 0
        pool[c["dialect"]]["ok" if good else "bad"].append(c["sql"])
    return pool


class Gen:
    def __init__(self, rng, pool):
        self.rng, self.pool, self.n = rng, pool, 0
        self.sq_depth = 0        # how deep subqueries inside expressions may still nest

    def name(self):
        self.n += 1
        return "x%d" % (self.n % 40 + 1)

    def word(self, p=0.12):
        return self.rng.choice(ALIAS_WORDS) if self.rng.random() < p else self.name()

    def subq(self):
        return self.query(self.sq_depth - 1)

    def expr(self):
        r = self.rng.random()
        if self.sq_depth > 0 and r < 0.14:
            f = self.rng.choice(["(%s)", "(%s)", "EXISTS (%s)", "NOT EXISTS (%s)", "x1 IN (%s)", "x2 NOT IN (%s)", "x3 = (%s)",
                                 "(%s) + x4", "x5 = ANY (%s)", "x6 < ALL (%s)", "((%s))", "x7 IN ((%s))", "x8 IN ((%s), 1)",
                                 "NOT (%s)", "x9 BETWEEN (%s) AND 2", "x1 AND EXISTS (%s) OR x2", "- (%s)", "(%s) IS NULL",
                                 "x3 LIKE (%s)", "(%s) :: INT", "((%s), x4)", "x5 = SOME ((%s) + 1)"])
            return f % self.subq()
        if r < 0.35:
            return self.name()
        if r < 0.5:
            return self.rng.choice(["1", "'s1'", "x1 = 1", "x2 + x3", "NOT x1", "(x1)", "x1 IS NULL", "- x2", "x1 AND x2 OR x3",
                                    "x1 IN (1, 2)", "x1 BETWEEN 1 AND 2", "x1 LIKE 's1'", "(x1, x2)", "x1 :: INT", "x1 == x2",
                                    "x1 LIKE x2 ESCAPE x3", "x1 IS DISTINCT FROM x2"])
        if r < 0.95 and self.pool["ok"]:
            return self.rng.choice(self.pool["ok"])
        if self.pool["bad"]:
            return self.rng.choice(self.pool["bad"])
        return self.name()

    def lst(self, f, sep=", "):
        return sep.join(f() for _ in range(self.rng.choice([1, 1, 2, 2, 3])))

    def alias(self):
        r = self.rng.random()
        if r < 0.45:
            return ""
        return (" AS " if r < 0.75 else " ") + self.word()

    def item(self):
        if self.rng.random() < 0.12:
            return "*"
        return self.expr() + self.alias()

    JOIN_KW = ["JOIN", "INNER JOIN", "LEFT JOIN", "LEFT OUTER JOIN", "RIGHT JOIN", "RIGHT OUTER JOIN", "FULL JOIN",
               "FULL OUTER JOIN"]

    def factor(self, depth, nest):
        r = self.rng.random()
        if depth > 0 and r < 0.25:
            return "(" + self.query(depth - 1) + ")" + self.alias()
        if nest > 0 and r < 0.4:
            return "(" + self.twj(depth, nest - 1, self.rng.choice([0, 1, 1, 1, 2])) + ")" + self.alias()
        return self.word(0.05) + self.alias()

    def join(self, depth, nest):
        rng = self.rng
        if rng.random() < 0.12:
            return " CROSS JOIN " + self.factor(depth, nest)
        kw, c = rng.choice(self.JOIN_KW), rng.random()
        if c < 0.18:
            return " NATURAL " + kw + " " + self.factor(depth, nest)
        s = " " + kw + " " + self.factor(depth, nest)
        if c < 0.55:
            s += " ON " + self.expr()
        elif c < 0.8:
            s += " USING (" + self.lst(lambda: self.word(0.1)) + ")"
        return s

    def twj(self, depth, nest=2, joins=None):
        n = self.rng.choice([0, 0, 0, 1, 1, 2, 3]) if joins is None else joins
        return self.factor(depth, nest) + "".join(self.join(depth, nest) for _ in range(n))

    def tref(self, depth):
        return self.twj(depth)

    def cte(self, depth):
        s = self.word(0.1)
        if self.rng.random() < 0.4:
            s += " (" + self.lst(lambda: self.word(0.1)) + ")"
        return s + " AS (" + self.query(depth) + ")"

    def select(self, depth, present=None):
        rng = self.rng
        on = (lambda k: present[k]) if present is not None else (lambda k: rng.random() < {"from": 0.7, "where": 0.4, "group": 0.3, "having": 0.25}[k])
        s = "SELECT " + rng.choice(["", "", "", "DISTINCT ", "ALL "]) + self.lst(self.item)
        if on("from"):
            s += " FROM " + self.lst(lambda: self.tref(depth))
        if on("where"):
            s += " WHERE " + self.expr()
        if on("group"):
            s += " GROUP BY " + self.lst(self.expr)
        if on("having"):
            s += " HAVING " + self.expr()
        return s

    def operand(self, depth):
        r = self.rng.random()
        if depth > 0 and r < 0.3:
            return "(" + self.query(depth - 1) + ")"
        if r < 0.36:
            return "VALUES " + self.lst(lambda: "(" + self.lst(self.expr) + ")")
        if r < 0.4:
            return "TABLE " + self.word(0.1)
        return self.select(depth)

    def body(self, depth):
        s = self.operand(depth)
        while self.rng.random() < 0.3:
            s += " " + self.rng.choice(["UNION", "EXCEPT", "INTERSECT"]) + self.rng.choice(["", "", " ALL", " DISTINCT"]) + " " + self.operand(depth)
        return s

    def tail(self, present=None):
        rng = self.rng
        on = (lambda k: present[k]) if present is not None else (lambda k: rng.random() < 0.3)
        s = ""
        if on("order"):
            s += " ORDER BY " + self.lst(lambda: self.expr() + rng.choice(["", "", " ASC", " DESC"]))
        lim = " LIMIT " + (self.expr() if rng.random() < 0.9 else "ALL")
        off = " OFFSET " + self.expr()
        a, b = on("limit"), on("offset")
        if a and b:
            r = rng.random()
            s += lim + off if r < 0.6 else (off + lim if r < 0.85 else " LIMIT 3, 4")
        elif a:
            s += lim if rng.random() < 0.85 else " LIMIT 5, x6"
        elif b:
            s += off
        return s

    def query(self, depth):
        saved, self.sq_depth = self.sq_depth, depth
        try:
            return self.query1(depth)
        finally:
            self.sq_depth = saved

    def query1(self, depth):
        s = ""
        if depth > 0 and self.rng.random() < 0.25:
            s = "WITH " + ("RECURSIVE " if self.rng.random() < 0.3 else "")
            s += ", ".join(self.cte(depth - 1) for _ in range(self.rng.choice([1, 1, 2]))) + " "
        return s + self.body(depth) + self.tail()


def mutate(rng, sql):
    """A token-level edit: drop / duplicate a token, add a trailing comma, or append a stray word."""
    ts = sql.split(" ")
    r = rng.random()
    i = rng.randrange(len(ts))
    if r < 0.3 and len(ts) > 2:
        del ts[i]
    elif r < 0.5:
        ts.insert(i, ts[i])
    elif r < 0.7:
        ts.insert(i, ",")
    elif r < 0.85:
        ts.append(rng.choice([")", ";", "x9", "BY x1", ", x2", "ORDER x1", "GROUP x1", "LIMIT 1", "OFFSET 2 LIMIT 1 LIMIT 2"]))
    else:
        ts.insert(i, rng.choice(["(", ")", "AS", "ALL", "DISTINCT", "FROM", "SELECT", "JOIN", "ON", "NATURAL", "LEFT", "OUTER",
                                 "CROSS", "USING", "WITH", "RECURSIVE", "INNER"]))
    return " ".join(ts)


def query_cases(run, T):
    rng = run.rng
    thorough = run.tier == "thorough"
    pool = expr_pool(run, T)
    cases = []
    add = lambda d, sql, stream: cases.append({"dialect": d, "sql": sql, "stream": stream})
    sel_keys, tail_keys = ["from", "where", "group", "having"], ["order", "limit", "offset"]
    for di, d in enumerate(C04.DIALECTS):
        g = Gen(rng, pool[d])
        # quick tier: the two big directed products are split three ways over the dialects (every
        # combination still runs in four or five dialects); thorough: all of them everywhere
        part = (lambda i: True) if thorough else (lambda i: (i + di) % 3 == 0)
        # (i) every shape of clause presence / absence
        g.sq_depth = 1
        for m in range(128):
            pres = {k: bool(m >> i & 1) for i, k in enumerate(sel_keys + tail_keys)}
            add(d, g.select(1, pres) + g.tail(pres), "shapes")
        g.sq_depth = 0
        # (ii) the alias rule: every word as column alias / table alias / table name, with and without AS
        for w in ALIAS_WORDS:
            add(d, "SELECT x1 %s FROM x2" % w, "alias")
            add(d, "SELECT x1 AS %s FROM x2" % w, "alias")
            add(d, "SELECT x1 FROM x2 %s" % w, "alias")
            add(d, "SELECT x1 FROM x2 AS %s WHERE x3" % w, "alias")
            add(d, "SELECT x1 FROM %s" % w, "alias")
            add(d, "SELECT x1 FROM (SELECT x2) %s" % w, "alias")
            add(d, "SELECT x1 %s, x2" % w, "alias")
        # (ii-b) the alias rule around joins and CTE names / column lists: every word in every position
        for wi, w in enumerate(ALIAS_WORDS):
            for ti, t in enumerate(["SELECT x1 FROM x2 %s JOIN x3", "SELECT x1 FROM x2 JOIN x3 %s", "SELECT x1 FROM x2 JOIN x3 AS %s ON x4",
                      "SELECT x1 FROM x2 JOIN x3 %s ON x4", "SELECT x1 FROM %s JOIN x3", "SELECT x1 FROM x2 LEFT JOIN %s USING (x4)",
                      "SELECT x1 FROM (%s JOIN x3 ON x4) AS x5", "SELECT x1 FROM (x2 JOIN x3) %s", "SELECT x1 FROM x2 JOIN x3 USING (%s)",
                      "SELECT x1 FROM x2 JOIN x3 USING (x4, %s)", "WITH %s AS (SELECT x1) SELECT x2", "WITH x1 (%s) AS (SELECT x2) SELECT x3",
                      "WITH x1 (x2, %s) AS (SELECT x3) SELECT x4", "WITH x1 AS (SELECT x2), %s AS (SELECT x3) SELECT x4",
                      "WITH RECURSIVE %s (x1) AS (SELECT x2) SELECT x3", "SELECT x1 FROM x2 NATURAL JOIN x3 %s"]):
                if part(wi + ti):
                    add(d, t % w, "alias-join")
        # (ii-c) every join spelling x constraint x alias form, 0-3 joins; 0-2 CTEs with / without column lists
        JK = ["JOIN", "INNER JOIN", "LEFT JOIN", "LEFT OUTER JOIN", "RIGHT JOIN", "RIGHT OUTER JOIN", "FULL JOIN", "FULL OUTER JOIN",
              "CROSS JOIN", "LEFT", "INNER", "OUTER JOIN", "LEFT INNER JOIN", "CROSS", "NATURAL", "FULL OUTER", "LEFT SEMI JOIN"]
        CONS = ["", " ON x5 = x6", " USING (x5)", " USING (x5, x6)", " ON x5 ON x6", " USING x5", " USING ()", " USING (x5,)", " ON"]
        AL = ["", " AS x7", " x7", " AS LEFT", " ON", " AS x7 (x8)"]
        for ji, jk in enumerate(JK):
            for ci, co in enumerate(CONS):
                for ai, al in enumerate(AL):
                    if part(ji + ci + ai):
                        add(d, "SELECT x1 FROM x2%s %s x3%s%s" % (al, jk, al.replace("7", "9"), co), "joins")
                if part(ji + ci):
                    add(d, "SELECT x1 FROM x2 NATURAL %s x3%s WHERE x4" % (jk, co), "joins")
                    add(d, "SELECT x1 FROM x2 %s (SELECT x3) AS x4%s" % (jk, co), "joins")
                    add(d, "SELECT x1 FROM x2 %s (x3 %s x4%s)%s, x7" % (jk, jk, co, co), "joins")
                    add(d, "SELECT x1 FROM x2 %s x3%s %s x4%s %s x5%s" % (jk, co, jk, co, jk, co), "joins")
        for s in ["SELECT x1 FROM (x2 JOIN x3)", "SELECT x1 FROM ((x2 JOIN x3))", "SELECT x1 FROM ((x2 JOIN x3) JOIN x4)", "SELECT x1 FROM (((x2 JOIN x3)))",
                  "SELECT x1 FROM ((SELECT x2) JOIN x3)", "SELECT x1 FROM ((SELECT x2) AS x4 JOIN x3)", "SELECT x1 FROM ((SELECT x2) x4 JOIN x3)",
                  "SELECT x1 FROM (((SELECT x2) AS x4 JOIN x3) JOIN x5)", "SELECT x1 FROM ((SELECT x2))", "SELECT x1 FROM ((SELECT x2) AS x3)",
                  "SELECT x1 FROM (SELECT JOIN x2)", "SELECT x1 FROM (SELECT JOIN x2 ON x3)", "SELECT x1 FROM (WITH JOIN x2)", "SELECT x1 FROM (SELECT NATURAL JOIN x2)",
                  "SELECT x1 FROM (x2 JOIN x3) AS x4 (x5)", "SELECT x1 FROM (x2 JOIN x3 JOIN x4 ON x5) x6 JOIN x7", "SELECT x1 FROM (x2) JOIN x3",
                  "SELECT x1 FROM (x2 AS x3) AS x4", "SELECT x1 FROM (x2 JOIN x3", "SELECT x1 FROM x2 JOIN (x3", "SELECT x1 FROM (x2 JOIN x3))",
                  "SELECT x1 FROM ((x2 JOIN x3) UNION SELECT x4)", "SELECT x1 FROM ((SELECT x2) UNION (SELECT x3))", "SELECT x1 FROM ((SELECT x2) UNION (SELECT x3)) JOIN x4",
                  "SELECT x1 FROM x2 JOIN x3 ON x4 IS DISTINCT FROM x5 LEFT JOIN x6 ON x7 LIKE x8 ESCAPE 's1'", "SELECT x1 FROM x2 JOIN x3 ON x4, x5 JOIN x6 USING (x7), x8",
                  "SELECT x1 FROM x2 JOIN x3 ON x4 GROUP BY x5", "SELECT x1 FROM x2 JOIN x3 USING (x4) UNION SELECT x5 FROM x6 NATURAL JOIN x7 ORDER BY x8",
                  "SELECT x1 FROM x2 WITH (x3)", "SELECT x1 FROM x2 WITH x3", "SELECT x1 FROM x2 AS x3 WITH (x4)", "SELECT x1 FROM x2 WITH", "SELECT x1 GROUP BY x2 WITH x3",
                  "SELECT x1 GROUP BY x2 WITH", "SELECT x1 ORDER BY x2 WITH x3", "SELECT DISTINCT ON (x1) x2", "SELECT DISTINCT ON x1", "SELECT ON", "SELECT x1 ON x2",
                  "SELECT x1 FROM x2 JOIN x3 ON x4 JOIN", "SELECT x1 FROM x2 JOIN", "SELECT x1 FROM JOIN", "SELECT x1 FROM x2 JOIN JOIN JOIN x3", "SELECT x1 FROM x2, JOIN x3",
                  "SELECT x1 FROM x2 JOIN x3, WHERE x4", "SELECT x1 FROM x2 JOIN x3 ON x4, WHERE x5", "SELECT x1 FROM x2 JOIN x3 USING (x4, WHERE)", "SELECT x1 FROM x2 JOIN x3 USING (x4, x5,) WHERE x6",
                  "WITH x1 AS (SELECT x2) SELECT x3", "WITH x1 AS (SELECT x2), x3 AS (SELECT x4) SELECT x5 FROM x1 JOIN x3 ON x6", "WITH x1 (x2) AS (SELECT x3) SELECT x4",
                  "WITH x1 (x2, x3) AS (SELECT x4), x5 (x6) AS (SELECT x7) SELECT x8", "WITH RECURSIVE x1 AS (SELECT x2) SELECT x3", "WITH RECURSIVE AS (SELECT x2) SELECT x3",
                  "WITH RECURSIVE RECURSIVE AS (SELECT x2) SELECT x3", "WITH RECURSIVE RECURSIVE (x1) AS (SELECT x2) SELECT x3", "WITH x1 AS (SELECT x2)", "WITH x1 AS (SELECT x2),",
                  "WITH x1 AS (SELECT x2), SELECT x3", "WITH x1 AS SELECT x2 SELECT x3", "WITH x1 (x2) (SELECT x3) SELECT x4", "WITH x1 () AS (SELECT x3) SELECT x4",
                  "WITH x1 (x2,) AS (SELECT x3) SELECT x4", "WITH x1 AS (SELECT x2) FROM x3 SELECT x4", "WITH x1 AS NOT (SELECT x2) SELECT x3", "WITH x1 AS (SELECT x2) (SELECT x3)",
                  "WITH x1 AS (SELECT x2) (SELECT x3) UNION SELECT x4 ORDER BY x5 LIMIT 1", "(WITH x1 AS (SELECT x2) SELECT x3)", "SELECT x1 FROM (WITH x2 AS (SELECT x3) SELECT x4) AS x5",
                  "WITH x1 AS (WITH x2 AS (WITH x3 AS (SELECT x4) SELECT x5) SELECT x6) SELECT x7", "WITH x1 AS (SELECT x2) WITH x3 AS (SELECT x4) SELECT x5",
                  "WITH x1 AS (SELECT x2 UNION SELECT x3 ORDER BY x4 LIMIT 5) SELECT x6 UNION SELECT x7", "WITH x1 AS (SELECT x2) SELECT x3 UNION (WITH x4 AS (SELECT x5) SELECT x6)",
                  "WITH 's1' AS (SELECT x2) SELECT x3", "WITH x1 ('s1') AS (SELECT x2) SELECT x3", "WITH 1 AS (SELECT x2) SELECT x3", "WITH x1 AS (SELECT x2) x3", "WITH",
                  "SELECT x1 FROM x2 JOIN x3 USING ('s1')", "SELECT x1 FROM x2 JOIN x3 USING (1)", "SELECT x1 LIMIT ALL BY x2", "SELECT x1 BY x2", "SELECT x1 OFFSET 1 BY x2",
                  "SELECT x1 LIMIT 1 OFFSET 2 BY x3", "SELECT x1 LIMIT 1, 2 BY x3"]:
            add(d, s, "directed")
        # (ii-d) subqueries inside expressions
        SQS = ["SELECT x2", "SELECT x2 FROM x3 WHERE x4", "WITH x2 AS (SELECT x3) SELECT x4", "SELECT x2 UNION SELECT x3 ORDER BY x4 LIMIT 1",
               "(SELECT x2)", "SELECT (SELECT x2)", "SELECT x2, x3", "SELECT EXISTS (SELECT x2) FROM x3 JOIN x4 ON x5 IN (SELECT x6)", "x2", "SELECT", "SELECT x2 x3 x4"]
        EXF = ["SELECT (%s)", "SELECT ((%s))", "SELECT (%s), (%s) AS x8 FROM x9", "SELECT x1 WHERE EXISTS (%s)", "SELECT x1 WHERE NOT EXISTS (%s)",
               "SELECT x1 WHERE NOT NOT EXISTS (%s)", "SELECT x1 WHERE x5 IN (%s)", "SELECT x1 WHERE x5 NOT IN (%s)", "SELECT x1 WHERE x5 IN ((%s))",
               "SELECT x1 WHERE x5 IN ((%s), (%s))", "SELECT x1 WHERE x5 = ANY (%s)", "SELECT x1 WHERE x5 = ANY ((%s))", "SELECT x1 WHERE x5 > ALL ((%s) + 1)",
               "SELECT x1 WHERE x5 = SOME (%s)", "SELECT x1 WHERE x5 IN UNNEST (%s)", "SELECT x1 WHERE x5 IN UNNEST ((%s))", "SELECT x1 HAVING (%s) > 1",
               "SELECT x1 GROUP BY (%s), x5", "SELECT x1 ORDER BY (%s) DESC, EXISTS (%s)", "SELECT x1 LIMIT (%s) OFFSET (%s)", "SELECT x1 LIMIT (%s), (%s)",
               "SELECT x1 FROM x5 JOIN x6 ON EXISTS (%s)", "SELECT x1 FROM x5 JOIN x6 ON (%s) = x7 LEFT JOIN x8 USING (x9)", "SELECT x1 x5 (%s)", "SELECT x1 EXISTS (%s)",
               "SELECT x1 NOT EXISTS (%s)", "SELECT EXISTS (%s) AS x5, NOT EXISTS (%s) x6", "SELECT x5 (%s)", "SELECT EXISTS %s", "SELECT EXISTS ((%s))",
               "SELECT (%s) (%s)", "SELECT (%s, x5)", "SELECT (x5, (%s))", "SELECT x1 WHERE (%s) IS NOT DISTINCT FROM (%s) FROM x5", "SELECT - (%s) :: INT",
               "SELECT x1 WHERE x5 LIKE (%s) ESCAPE 's1'", "SELECT x1 WHERE x5 BETWEEN (%s) AND (%s)", "SELECT x1 IN (%s) IN (%s)", "SELECT x1 FROM (%s) AS x5 WHERE (%s)",
               "SELECT (%s) UNION SELECT (%s)", "SELECT (%s", "SELECT (%s))", "SELECT x1 WHERE x5 IN (%s", "SELECT x1 WHERE EXISTS (%s) (%s)", "SELECT [(%s)]",
               "SELECT x1[(%s)]", "SELECT EXISTS", "SELECT EXISTS (", "SELECT NOT EXISTS", "SELECT x1 AS EXISTS", "SELECT x1 FROM EXISTS", "SELECT x1 FROM x2 EXISTS"]
        for ei, f in enumerate(EXF):
            for si, s in enumerate(SQS):
                if f.count("%s") == 0:
                    if si == 0:
                        add(d, f, "subquery")
                elif part(ei + si) or si < 2:
                    add(d, f % ((s,) * f.count("%s")), "subquery")
        # (ii-e) VALUES and TABLE bodies
        for s in ["VALUES (1)", "VALUES (1, x2), (x3, 's1')", "VALUES (1), (2), (3) ORDER BY x1 LIMIT 2", "VALUES ()", "VALUES (), ()", "VALUES (1), ()",
                  "VALUES", "VALUES 1", "VALUES (1", "VALUES (1),", "VALUES (1,)", "VALUES (1), WHERE", "VALUES (1) (2)", "VALUES ((1))", "VALUES (1) UNION VALUES (2)",
                  "VALUES (1) UNION ALL SELECT x2 EXCEPT TABLE x3", "SELECT x1 FROM (VALUES (1), (2)) AS x3", "SELECT x1 FROM (VALUES (1)) x3 JOIN (VALUES (2)) AS x4 ON x5",
                  "SELECT x1 FROM VALUES (1) AS x3", "SELECT x1 FROM VALUES", "SELECT x1 FROM VALUES x3", "SELECT x1 FROM VALUES JOIN x3", "SELECT x1 FROM (VALUES JOIN x3)",
                  "WITH x1 AS (VALUES (1)) SELECT x2", "WITH x1 (x2) AS (VALUES (1)) TABLE x1", "WITH x1 AS (TABLE x2) VALUES (1)", "SELECT (VALUES (1))", "SELECT EXISTS (VALUES (1))",
                  "SELECT x1 IN (VALUES (1))", "VALUES ((SELECT x1)), (EXISTS (SELECT x2))", "SELECT x1 WHERE (VALUES (x1 == x2), (x3))", "SELECT (SELECT x1 FROM x2, SELECT)",
                  "SELECT (SELECT x1 FROM x2, x3,) FROM x4", "SELECT x5 FROM (SELECT x1 FROM x2, x3,)", "VALUES (x1 IN (SELECT x2))", "(VALUES (1))", "((VALUES (1)) UNION (TABLE x1))",
                  "VALUES (1) AS x2", "VALUES (1) x2", "VALUES (x1) FROM x2", "VALUES ROW(1)", "VALUES (1) LIMIT 1 OFFSET 2",
                  "TABLE x1", "TABLE x1 ORDER BY x2", "TABLE", "TABLE 1", "TABLE (x1)", "TABLE x1 x2", "TABLE x1 AS x2", "TABLE x1.x2", "TABLE x1 UNION TABLE x2",
                  "TABLE SELECT", "TABLE TABLE", "TABLE VALUES", "TABLE x1, x2", "SELECT x1 FROM TABLE", "SELECT x1 FROM TABLE x2", "SELECT x1 FROM TABLE (x2)",
                  "SELECT x1 FROM x2 JOIN TABLE", "SELECT x1 FROM (TABLE x2)", "SELECT x1 FROM (TABLE x2) AS x3", "SELECT x1 FROM (TABLE JOIN x3)", "SELECT x1 AS TABLE", "SELECT x1 TABLE",
                  "SELECT x1 VALUES", "SELECT x1 FROM x2 VALUES", "SELECT x1 FROM x2 AS VALUES", "SELECT TABLE", "SELECT VALUES", "SELECT x1 = (TABLE x2)"]:
            add(d, s, "directed")
        # (iii) directed: LIMIT / OFFSET orders, quantifiers, parenthesised operands, trailing commas, wildcard options
        for s in ["SELECT x1 LIMIT 1 OFFSET 2", "SELECT x1 OFFSET 2 LIMIT 1", "SELECT x1 LIMIT ALL", "SELECT x1 LIMIT ALL LIMIT 2",
                  "SELECT x1 LIMIT 1, 2", "SELECT x1 LIMIT 1, 2 OFFSET 3", "SELECT x1 OFFSET 1 LIMIT 2, 3", "SELECT x1 LIMIT 1 LIMIT 2",
                  "SELECT x1 OFFSET 1 OFFSET 2", "SELECT x1 LIMIT 1 BY x2", "SELECT x1 LIMIT 1 OFFSET 2 LIMIT 3",
                  "SELECT x1, FROM x2", "SELECT x1, x2, WHERE x3", "SELECT x1,", "SELECT (x1, x2,) FROM x3", "SELECT x1 FROM x2,",
                  "SELECT * FROM x1", "SELECT *, x1 FROM x2", "SELECT * EXCEPT SELECT x1", "SELECT * EXCEPT (x1) FROM x2",
                  "SELECT * ILIKE 's1' FROM x2", "SELECT x1, * FROM x2", "SELECT x1 * FROM x2", "SELECT DISTINCT * FROM x1",
                  "SELECT ALL x1", "SELECT ALL DISTINCT x1", "SELECT DISTINCT ALL x1", "SELECT AS x1", "SELECT",
                  "SELECT ALL ALL x1", "SELECT ALL ALL", "SELECT DISTINCT DISTINCT x1",
                  "SELECT x1 FROM (x2)", "SELECT x1 FROM (x2) AS x3", "SELECT x1 FROM ((SELECT x2))", "SELECT x1 FROM (SELECT x2) AS x3 (x4)",
                  "SELECT x1 FROM x2 (x3)", "SELECT x1 FROM x2-x3", "SELECT x1 FROM x2 - x3", "SELECT x1 FROM UNNEST", "SELECT x1 FROM UNNEST(x2)",
                  "SELECT x1 FROM 's1'", "SELECT x1 's1'", "SELECT x1 AS 's1'", "SELECT x1 1", "SELECT x1 FROM x2 1", "SELECT x1 FROM 1",
                  "SELECT x1 GROUP BY ()", "SELECT x1 GROUP BY (), x2", "SELECT x1 GROUP BY ALL", "SELECT x1 GROUP x2", "SELECT x1 ORDER x2",
                  "SELECT x1 GROUP BY x2 HAVING x3 WHERE x4", "SELECT x1 WHERE x2 FROM x3", "SELECT x1 HAVING x2", "SELECT x1 ORDER BY x2 ASC DESC",
                  "SELECT x1 UNION SELECT x2 INTERSECT SELECT x3 EXCEPT SELECT x4", "(SELECT x1)", "((SELECT x1))", "(SELECT x1) UNION (SELECT x2)",
                  "(SELECT x1 LIMIT 1) UNION ALL SELECT x2 ORDER BY x3", "SELECT x1 UNION (SELECT x2 UNION SELECT x3)",
                  "(SELECT x1 UNION SELECT x2) INTERSECT SELECT x3", "SELECT x1 UNION DISTINCT SELECT x2", "SELECT x1 UNION BY SELECT x2",
                  "SELECT x1 UNION", "SELECT x1 INTERSECT ALL (SELECT x2 ORDER BY x3 LIMIT 1)", "(SELECT x1", "SELECT x1)", "SELECT x1;",
                  "SELECT x1 FROM (SELECT x2 FROM (SELECT x3 FROM (SELECT x4) AS x5) AS x6) AS x7",
                  "SELECT x1 FROM (SELECT x2 UNION SELECT x3 ORDER BY x4) x5, x6 x7 WHERE x8 LIKE x9",
                  "SELECT x1 WHERE x2 IS DISTINCT FROM x3", "SELECT x1 IS DISTINCT FROM x2 FROM x3", "SELECT x1 FROM x2 WHERE x3 LIKE x4 ESCAPE 's1'",
                  "SELECT x1 LIKE x2 ESCAPE", "SELECT x1 ORDER BY x2 LIKE x3 ASC", "SELECT x1 :: WHERE", "SELECT x1 + WHERE FROM x2", "SELECT WHERE",
                  "SELECT FROM", "SELECT x1 FROM x2 FROM", "SELECT x1 FROM FROM"]:
            add(d, s, "directed")
        # (iv) random queries, nesting to depth 3, and token-level mutations of them
        n = 900 if thorough else 140
        for _ in range(n):
            q = g.query(rng.choice([0, 1, 1, 2, 3]))
            add(d, q, "random")
            if rng.random() < 0.35:
                add(d, mutate(rng, q), "mutated")
    seen, out = set(), []
    for c in cases:
        k = (c["dialect"], c["sql"])
        if k not in seen:
            seen.add(k)
            out.append(c)
    return out


# ------------------------------------------------------------------ encoding as Coq terms

class QEnc(C04.Enc):
    """Tokens and aligned trees of the query core.  The expression part is C04.Enc."""

    def qtok(self, t, kind=""):
        k = t[0]
        if k == "other":
            return "QK " + QKW[t[1]] if t[1] in QKW else "QOther"
        if k == "p" and t[1] == "SemiColon":
            return "QSemi"
        if kind == "qid":
            return "QOther"
        if k == "atom" and kind != "num":
            if not re.fullmatch(r"[a-z]\d+", t[1]) or self.atom_id(t[1]) >= 5000:
                return "QOther"
        if k == "atom" and kind == "num" and self.atom_id(t[1]) < 5000:
            return "QOther"
        return "QE (%s)" % self.tok(t)

    def qtoks(self, view, kinds):
        return "[" + "; ".join(self.qtok(t, k) for t, k in zip(view, kinds)) + "]"

    def start(self, view, kinds):
        self.v, self.kinds, self.pos = view, kinds, 0

    def eatq(self, w):
        return self.eat("other", w)

    def word(self, ident):
        """The word token an identifier of the tree was made from."""
        if ident["q"] is not None:
            raise ValueError("quoted identifier")
        t = self.peek()
        kind = self.kinds[self.pos] if self.pos < len(self.kinds) else ""
        if t[0] == "atom":
            okay = kind == "" and t[1] == ident["v"]
        else:
            okay = t[0] in ("other", "kw", "type") and t[1] == ident["v"].upper()
        if not okay:
            raise ValueError("alignment: identifier %s vs token %s" % (ident, t))
        self.pos += 1
        return "(%s)" % self.qtok(t, kind)

    def alias(self, a):
        if a is None:
            return "None"
        if self.peek() == ["other", "AS"]:
            self.pos += 1
        return "(Some %s)" % self.word(a)

    def commas(self, l, f):
        out = []
        for i, x in enumerate(l):
            if i:
                self.eat("p", "Comma")
            out.append(f(x))
        return "[" + "; ".join(out) + "]"

    SQ, EX, NEX = 1000000, 2000000, 3000000
    subs = None

    def sub(self, qn):
        """A subquery at the current token position: its index among the subqueries of the enclosing expression."""
        if not isinstance(qn, dict):
            raise ValueError("subquery outside the fragment")
        saved, self.subs = self.subs, None
        q = self.q_query(qn)
        self.subs = saved
        if self.subs is None:
            raise ValueError("subquery outside an expression site")
        self.subs.append(q)
        return len(self.subs) - 1

    def conv(self, n):
        k = n["k"]
        if k == "subquery":
            self.eat("p", "LParen"); i = self.sub(n["q"]); self.eat("p", "RParen")
            return "(ENested (EAtom false %d))" % (self.SQ + i)
        if k == "exists":
            if n["neg"]:
                self.eat("kw", "NOT")
            self.eatq("EXISTS"); self.eat("p", "LParen"); i = self.sub(n["q"]); self.eat("p", "RParen")
            return "(EAtom false %d)" % ((self.NEX if n["neg"] else self.EX) + i)
        if k == "insubquery":
            e = self.conv(n["e"])
            if n["neg"]:
                self.eat("kw", "NOT")
            self.eat("kw", "IN"); self.eat("p", "LParen"); i = self.sub(n["q"]); self.eat("p", "RParen")
            return "(EInList %s %s [EAtom false %d])" % (coq_bool(n["neg"]), e, self.SQ + i)
        if k == "anyall" and n["r"]["k"] == "subquery":
            # Display writes ANY(<subquery>) with one pair of parentheses; so does the parser read it
            l = self.conv(n["l"])
            t = self.peek()
            name = ("kw:" + t[1]) if t[0] == "kw" else t[1]
            if t[0] not in ("kw", "op") or self.binop.get(name) != n["op"]:
                raise ValueError("alignment: operator %s vs token %s" % (n["op"], t))
            self.pos += 1
            q = self.eat("kw")[1]
            if q != n["q"]:
                raise ValueError("quantifier")
            self.eat("p", "LParen")
            if self.peek() == ["p", "LParen"]:
                raise ValueError("ANY ((subquery)): two token forms of one tree")
            i = self.sub(n["r"]["q"])
            self.eat("p", "RParen")
            return "(EAnyAll %d %s %s (EAtom false %d))" % (self.kid[name], C04.KW[q], l, self.SQ + i)
        return super().conv(n)

    def xconv(self, n):
        """An expression site: the expression and the list of its subqueries."""
        saved, self.subs = self.subs, []
        try:
            e = self.conv(n)
            return "(X %s [%s])" % (e, "; ".join(self.subs))
        finally:
            self.subs = saved

    def opt(self, n, kw=None):
        if n is None:
            return "None"
        if kw:
            self.eatq(kw)
        return "(Some %s)" % self.xconv(n)

    def q_item(self, n):
        if n["k"] == "wild":
            self.eat("op", "Mul")
            return "IWild"
        e = self.xconv(n["e"])
        if n["k"] == "expr":
            return "(IExpr %s)" % e
        if self.peek() == ["other", "AS"]:
            self.pos += 1
        return "(IAlias %s %s)" % (e, self.word(n["a"]))

    def q_factor(self, n):
        if n["k"] == "table":
            name = self.word(n["name"])
            return "(TTable %s %s)" % (name, self.alias(n["alias"]))
        self.eat("p", "LParen")
        if n["k"] == "derived":
            x = self.q_query(n["q"])
            self.eat("p", "RParen")
            return "(TDerived %s %s)" % (x, self.alias(n["alias"]))
        x = self.q_twj(n["t"])
        self.eat("p", "RParen")
        return "(TNested %s %s)" % (x, self.alias(n["alias"]))

    def cols(self, l):
        self.eat("p", "LParen")
        c = self.commas(l, self.word)
        if self.peek() == ["p", "Comma"]:       # a trailing comma
            self.pos += 1
        self.eat("p", "RParen")
        return c

    def q_join(self, j):
        kind, c = j["kind"], j["c"]
        if kind == "JCross":
            self.eatq("CROSS"); self.eatq("JOIN")
            return "(Join JCross %s)" % self.q_factor(j["rel"])
        if c["k"] == "natural":
            self.eatq("NATURAL")
        if kind == "JInner":
            if self.peek() == ["other", "INNER"]:
                self.pos += 1
        else:
            self.eatq({"JLeft": "LEFT", "JRight": "RIGHT", "JFull": "FULL"}[kind])
            if self.peek() == ["other", "OUTER"]:
                self.pos += 1
        self.eatq("JOIN")
        rel = self.q_factor(j["rel"])
        if c["k"] == "on":
            self.eatq("ON")
            cc = "(JOn %s)" % self.xconv(c["e"])
        elif c["k"] == "using":
            self.eatq("USING")
            cc = "(JUsing %s)" % self.cols(c["cols"])
        else:
            cc = {"natural": "JNatural", "none": "JNone"}[c["k"]]
        return "(Join (JOp %s %s) %s)" % (kind, cc, rel)

    def q_twj(self, n):
        rel = self.q_factor(n["rel"])
        return "(Twj %s [%s])" % (rel, "; ".join(self.q_join(j) for j in n["joins"]))

    def q_cte(self, c):
        name = self.word(c["name"])
        cols = self.cols(c["cols"]) if c["cols"] else "[]"
        self.eatq("AS")
        self.eat("p", "LParen")
        q = self.q_query(c["q"])
        self.eat("p", "RParen")
        return "(Cte %s %s %s)" % (name, cols, q)

    def q_with(self, w):
        if w is None:
            return "None"
        self.eatq("WITH")
        if w["recursive"]:
            self.eatq("RECURSIVE")
        ctes = self.commas(w["ctes"], self.q_cte)
        if self.peek() == ["p", "Comma"]:       # a trailing comma of the CTE list
            self.pos += 1
        return "(Some (With %s %s))" % (coq_bool(w["recursive"]), ctes)

    def q_order(self, o):
        e = self.xconv(o["e"])
        if o["asc"] is None:
            return "(OElem %s None)" % e
        self.eatq("ASC" if o["asc"] else "DESC")
        return "(OElem %s (Some %s))" % (e, coq_bool(o["asc"]))

    def q_body(self, n):
        k = n["k"]
        if k == "nested":
            self.eat("p", "LParen")
            q = self.q_query(n["q"])
            self.eat("p", "RParen")
            return "(BNested %s)" % q
        if k == "values":
            self.eatq("VALUES")

            def row(r):
                self.eat("p", "LParen")
                l = self.commas(r, self.xconv)
                if self.peek() == ["p", "Comma"]:
                    raise ValueError("trailing comma in an expression list")
                self.eat("p", "RParen")
                return "(VRow %s)" % l
            rows = self.commas(n["rows"], row)
            if self.peek() == ["p", "Comma"]:       # a trailing comma of the row list
                self.pos += 1
            return "(BValues %s)" % rows
        if k == "table_body":
            self.eatq("TABLE")
            return "(BTable %s)" % self.word(n["name"])
        if k == "setop":
            l = self.q_body(n["l"])
            self.eatq(n["op"].upper())
            if n["q"] != "None":
                self.eat("kw", n["q"].upper())
            return "(BSetOp %s %s %s %s)" % (n["op"], {"None": "QNone", "All": "QAll", "Distinct": "QDistinct"}[n["q"]], l, self.q_body(n["r"]))
        self.eatq("SELECT")
        if not n["distinct"]:
            self.opt_kw("ALL")
        else:
            self.eat("kw", "DISTINCT")
        items = self.commas(n["items"], self.q_item)
        if self.peek() == ["p", "Comma"]:       # a trailing comma of the projection
            self.pos += 1
        fr = "[]"
        if n["from"]:
            self.eat("kw", "FROM")
            fr = self.commas(n["from"], self.q_twj)
            if self.peek() == ["p", "Comma"]:   # a trailing comma of the FROM list
                self.pos += 1
        wh = self.opt(n["where"], "WHERE")
        gb = "[]"
        if n["group_by"]:
            self.eatq("GROUP"); self.eatq("BY")
            gb = self.commas(n["group_by"], self.xconv)
        hv = self.opt(n["having"], "HAVING")
        return "(BSelect %s %s %s %s %s %s)" % (coq_bool(n["distinct"]), items, fr, wh, gb, hv)

    def q_query(self, n):
        w = self.q_with(n["with"])
        b = self.q_body(n["body"])
        ob = "[]"
        if n["order_by"]:
            self.eatq("ORDER"); self.eatq("BY")
            ob = self.commas(n["order_by"], self.q_order)
        lim = off = "None"
        for _ in range(2):
            t = self.peek()
            if t == ["other", "LIMIT"] and lim == "None":
                self.pos += 1
                if self.peek() == ["kw", "ALL"]:
                    self.pos += 1
                    continue
                save = self.pos
                try:
                    if n["limit"] is None:
                        raise ValueError("no limit in the tree")
                    lim = self.opt(n["limit"])
                    if self.peek() == ["p", "Comma"] and off == "None" and n["offset"] is not None:
                        raise ValueError("comma form")
                except (ValueError, KeyError):
                    self.pos = save
                    off = self.opt(n["offset"])         # LIMIT <offset>, <limit>
                    self.eat("p", "Comma")
                    lim = self.opt(n["limit"])
            elif t == ["other", "OFFSET"] and off == "None":
                self.pos += 1
                off = self.opt(n["offset"])
        if (lim == "None") != (n["limit"] is None) or (off == "None") != (n["offset"] is None):
            raise ValueError("alignment: LIMIT / OFFSET")
        return "(Query %s %s %s %s %s)" % (w, b, ob, lim, off)


def encode_case(T, c, r):
    d = c["dialect"]
    if r["tokens"] is None:
        return None
    enc = QEnc(T, d)
    ts = enc.qtoks(r["tokens"], r["tkind"])
    rs = r["result"]
    impl = "QIErr"
    if "ok" in rs:
        impl = "QIBad"
        again = rs["again"]
        if rs["ok"] != "out_of_fragment":
            try:
                enc.start(r["tokens"], r["tkind"])
                term = enc.q_query(rs["ok"])
                if enc.pos != len(r["tokens"]) - rs["rest"]:
                    raise ValueError("tree yields %d tokens, parser consumed %d" % (enc.pos, len(r["tokens"]) - rs["rest"]))
                pt = enc.qtoks(again["ptokens"], again["pkind"]) if "ptokens" in again else "[QOther]"
                impl = "(QIOk %s %d %s)" % (term, rs["rest"], pt)
            except (ValueError, KeyError, IndexError) as e:
                c["align_error"] = str(e)
    return "(qd_%s, %s, %s)" % (d, ts, impl)


def fn_arg_eq(sql):
    """`name ( .. == ..` : a function call (VALUES in operand position counts) with `==` in an argument."""
    return re.search(r"\b[A-Za-z_][A-Za-z_0-9]*\s*\((?:[^()]|\([^()]*\))*==", sql) is not None


def nested_list_end(sql, reserved):
    """A comma inside parentheses followed by `)` or by a word of RESERVED_FOR_COLUMN_ALIAS: where
    options.trailing_commas is on, the list ends there."""
    depth = 0
    toks = re.findall(r"'[^']*'|[A-Za-z_][A-Za-z_0-9]*|[(),]|\S", sql)
    for i, t in enumerate(toks):
        if t == "(":
            depth += 1
        elif t == ")":
            depth -= 1
        elif t == "," and depth > 0 and i + 1 < len(toks):
            n = toks[i + 1]
            if n == ")" or n.upper() in reserved:
                return True
    return False


CHECK_FN = "(fun c => match c with (d, ts, i) => qcase_full d ts i end)"
CASE_TYPE = "(qdialect * list qtok * qires)"
BITS = {1: "model-parser-vs-parse_query", 2: "qtoks-vs-printed-tokens", 4: "model-roundtrip", 16: "qwf-of-accepted-tree"}


def check_query(run, prop="C01", tables=None):
    t0 = time.time()
    note = {}
    run.notes["query_core"] = note
    tables = tables or gen_query_tables()
    note["flags"] = tables["flags"]
    if tables["flag_probe_mismatch"]:
        note["flag_probe_mismatch"] = tables["flag_probe_mismatch"]
    T = C04.gen_tables(run)
    ok, out = coq_make(["theories/QueryCoreProofs.vo", "gen/QueryTables.vo"])
    if not ok:
        run.violation({"what": "the query-core model does not build", "unchecked": "QueryCore correspondence",
                       "tool_output": failing_coq_item(out)}, no_input=True)
        return note
    known = dict(known_findings(prop))
    cases = query_cases(run, T)
    res = run_bin_parallel(PKG, ["query"], cases, pkg=PKG)
    terms, idx = [], []
    stats = {"cases": len(cases), "accepted": 0, "rejected": 0, "trees_in_fragment": 0, "impl_roundtrip_fail": 0,
             "streams": {}}
    viol = {}

    reserved_col = set(tables["reserved_col"])
    # dialects in which only the projection may end in a comma: parse_projection switches
    # options.trailing_commas on for the whole projection, subqueries of its items included
    proj_only = {d for d, fl in tables["flags"].items() if fl["proj_trailing"] and not fl["trailing"]}

    def report(key, rep, **kw):
        full = key if key.startswith("dml:") else "query:" + key
        if full in known:
            run.known(full, known[full])
            stats.setdefault("by_key", {})
            stats["by_key"][full] = stats["by_key"].get(full, 0) + 1
        else:
            viol[key] = viol.get(key, 0) + 1
            if viol[key] <= 6:
                run.violation(dict(rep, key=full), **kw)

    for i, (c, r) in enumerate(zip(cases, res)):
        st = stats["streams"].setdefault(c["stream"], {"cases": 0, "accepted": 0, "compared": 0})
        st["cases"] += 1
        rs = r["result"]
        if "ok" in rs:
            stats["accepted"] += 1
            st["accepted"] += 1
            again = rs["again"]
            # the property itself on the implementation
            good = again.get("same") is True and again.get("rest") == 0 and again.get("text2") == rs["text"]
            if not good:
                stats["impl_roundtrip_fail"] += 1
                # Display never prints the ALL quantifier: `SELECT ALL` in the printed text is an identifier spelled ALL
                key = "select-all-identifier" if re.search(r"\bSELECT ALL\b", rs["text"]) else "impl-roundtrip"
                if key == "impl-roundtrip" and tables["named_arg_eq"].get(c["dialect"]) and fn_arg_eq(c["sql"]):
                    # `f(a == b)` prints `f(a = b)`, a named argument where `=` introduces one (DuckDB); VALUES in
                    # operand position is such a call
                    key = "dml:function-argument-eq-read-as-named-argument"
                report(key, {"what": "an accepted query does not survive parse -> print -> parse", "dialect": c["dialect"],
                                          "input": c["sql"], "printed": rs["text"],
                                          "reparse": {k: again.get(k) for k in ("same", "err", "tokerr", "panic", "text2", "rest")}})
        elif "tokerr" not in rs:
            stats["rejected"] += 1
        t = encode_case(T, c, r)
        if t is not None:
            terms.append(t)
            idx.append(i)
            if "QIOk" in t:
                stats["trees_in_fragment"] += 1
    codes = C04.run_coq_codes("c01query", HEADER, terms, CHECK_FN, CASE_TYPE, shard_size=max(200, len(terms) // 16 + 1))
    cnt = {v: 0 for v in BITS.values()}
    compared = 0
    for i, cd in zip(idx, codes):
        c, r = cases[i], res[i]
        if cd & 8:
            continue
        compared += 1
        stats["streams"][c["stream"]]["compared"] += 1
        for b, name in BITS.items():
            if cd & b:
                if b == 1 and c["dialect"] in proj_only and nested_list_end(c["sql"], reserved_col):
                    # the implementation applies the trailing-comma end rule to the lists of a subquery inside a
                    # projection item (and only there); the model's rule is static
                    stats["projection_trailing_scope"] = stats.get("projection_trailing_scope", 0) + 1
                    report("projection-trailing-comma-scope", {"what": "options.trailing_commas leaks from parse_projection into the subqueries of its items",
                                                               "dialect": c["dialect"], "input": c["sql"], "observed": r["result"].get("text") or r["result"]})
                    break
                cnt[name] += 1
                report("model:" + name, {"what": "query-core model check failed: " + name, "unchecked": "correspondence QueryCore (" + name + ")",
                                         "dialect": c["dialect"], "input": c["sql"], "observed": r["result"].get("text") or r["result"],
                                         "alignment": c.get("align_error")}, no_input=True)
    stats["in_fragment"] = compared
    stats["outside_fragment"] = len(terms) - compared
    stats["accepted_in_fragment"] = sum(1 for i, cd in zip(idx, codes) if not cd & 8 and "ok" in res[i]["result"])
    stats["rejected_in_fragment"] = sum(1 for i, cd in zip(idx, codes) if not cd & 8 and "ok" not in res[i]["result"])
    stats["outside_syntactic_fragment_test"] = sum(1 for cd in codes if cd & 32 and not cd & 8)
    stats["model_checks_failed"] = cnt
    stats["disagreements"] = sum(cnt.values())
    stats["wall_s"] = round(time.time() - t0, 1)
    note.update(stats)
    run.add_eval(len(cases), compared)
    for c, r in list(zip(cases, res))[300:302]:
        run.sample({"query_core": c["sql"], "dialect": c["dialect"], "printed": r["result"].get("text", r["result"])})
    log(f"[{prop}] query core: {len(cases)} cases, {compared} compared in the kernel, {stats['disagreements']} model disagreements, "
        f"{stats['impl_roundtrip_fail']} implementation round-trip failures, {stats['wall_s']}s")
    return note
