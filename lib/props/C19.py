"""C19 — the CREATE TABLE builder is a lossless view of the statement.

Protocol (notes/CONVENTIONS.md):
 1 build harness/builderx against the current /repo tree (its build.rs regenerates the table of
   setter calls from the source, so every setter the tree defines is driven);
 2 translator bx_extract (symbolic evaluation of build / try_from / new / setters) -> JSON ->
   coq/gen/BuilderRouting.v;
 3 Properties/C19.v re-checked (generic theorems of theories/BuilderProofs.v applied to the
   generated routings; side conditions by vm_compute; Print Assumptions);
 4 the property itself on the implementation: field-sentinel families (one-hot, one-cold, full,
   random multi-hot) through try_from/build and build/try_from, every setter on sentinel
   builders, try_from on every other statement kind of the corpus, every CREATE TABLE of the
   corpus under every accepting dialect;
 5 correspondence: the observations of 4 are encoded as Coq terms and the routing model is run
   on them inside the kernel VM;
 6 directed search: a failing side condition names the field / arm / setter; the sentinel
   statement built for exactly that field is the candidate failing input.
"""
import collections
import json
import os
import re
import subprocess
from common import *
from corpus import corpus

PKG = "builderx"
# self-test hook: the source tree read by the translator (the dynamic driver is always compiled
# against the path dependency of harness/builderx/Cargo.toml)
SRC_ROOT = os.environ.get("VERIF_C19_SRC", REPO)
HEADER = "Require Import SqlV.Base SqlV.Builder SqlVGen.BuilderRouting.\n"
# self-test hook: directory holding bx_extract / bx_drive built (with CARGO_TARGET_DIR under
# /var/tmp, never into /verif/.cache) from a scratch copy of the crate whose sqlparser path
# dependency points at a mutated scratch copy of /repo
SELFTEST_BIN = os.environ.get("VERIF_C19_SELFTEST_BIN")
import common as _common


def _bx(fn, *a, **k):
    if not SELFTEST_BIN:
        return fn(*a, **k)
    old = _common.bin_path
    _common.bin_path = lambda pkg, name: os.path.join(SELFTEST_BIN, name) if pkg == PKG else old(pkg, name)
    _common._built.add(PKG)
    try:
        return fn(*a, **k)
    finally:
        _common.bin_path = old


MAX_REPORTS = 6
MISSING = object()
# CREATE TABLE / SHOW CREATE texts for options the harvested corpus does not exercise (kept private to
# this check so that other properties' streams are not affected); dialect lists = accepting dialects
EXTRA_SQL = [
    ('SHOW CREATE TABLE t', ['generic', 'ansi', 'bigquery', 'clickhouse', 'databricks', 'duckdb', 'hive', 'mssql', 'mysql', 'postgresql', 'redshift', 'snowflake', 'sqlite']),
    ('CREATE VOLATILE TABLE t (a INT)', ['snowflake']),
    ('CREATE TABLE t (a INT) ENGINE=MergeTree PRIMARY KEY (a) ORDER BY (a)', ['generic', 'clickhouse']),
    ('CREATE TABLE t (a INT64) PARTITION BY a CLUSTER BY a, b OPTIONS(description = "x", n = 3)', ['generic', 'bigquery']),
    ("CREATE OR REPLACE TRANSIENT TABLE t (a INT) CLUSTER BY (a) COPY GRANTS CHANGE_TRACKING=FALSE ENABLE_SCHEMA_EVOLUTION=FALSE DATA_RETENTION_TIME_IN_DAYS=1 MAX_DATA_EXTENSION_TIME_IN_DAYS=2 DEFAULT_DDL_COLLATION='en'", ['snowflake']),
    ('CREATE GLOBAL TEMPORARY TABLE t (a INT) ON COMMIT DROP', ['generic', 'ansi', 'bigquery', 'clickhouse', 'databricks', 'duckdb', 'hive', 'mssql', 'mysql', 'postgresql', 'redshift', 'sqlite']),
    ("CREATE TABLE t (a INT) AUTO_INCREMENT=7 DEFAULT CHARSET=latin1 COLLATE=latin1_bin COMMENT='c'", ['generic', 'ansi', 'bigquery', 'clickhouse', 'databricks', 'duckdb', 'mssql', 'mysql', 'postgresql', 'redshift', 'sqlite']),
    ("CREATE EXTERNAL TABLE t (a INT) STORED AS ORC LOCATION 's3://b/k'", ['generic', 'ansi', 'bigquery', 'clickhouse', 'databricks', 'duckdb', 'hive', 'mssql', 'mysql', 'postgresql', 'redshift', 'snowflake', 'sqlite']),
    ('CREATE TABLE t LIKE u', ['generic', 'ansi', 'bigquery', 'clickhouse', 'databricks', 'duckdb', 'hive', 'mssql', 'mysql', 'postgresql', 'redshift', 'snowflake', 'sqlite']),
    ('CREATE TABLE t CLONE u', ['generic', 'ansi', 'bigquery', 'clickhouse', 'databricks', 'duckdb', 'hive', 'mssql', 'mysql', 'postgresql', 'redshift', 'snowflake', 'sqlite']),
    ('CREATE TABLE t AS SELECT 1', ['generic', 'ansi', 'bigquery', 'clickhouse', 'databricks', 'duckdb', 'hive', 'mssql', 'mysql', 'postgresql', 'redshift', 'snowflake', 'sqlite']),
]


def jd(v):
    return json.dumps(v, sort_keys=True, ensure_ascii=False)


# ------------------------------------------------------------------ translator -> Coq

def coq_src(s):
    k, v = s["k"], s["v"]
    if k == "field":
        return "SField %s" % coq_str(v)
    if k == "param":
        return "SParam %d" % int(v)
    if k == "const":
        return "SConst %s" % coq_str(v)
    return "SOpaque %s" % coq_str(str(v))


def coq_routing(r):
    return "[" + ";\n     ".join("(%s, %s)" % (coq_str(e["field"]), coq_src(e["src"])) for e in (r or [])) + "]"


def coq_arm(a):
    pk = a["pat"]["k"]
    pat = {"ct": "PCt", "wild": "PWild", "unknown": "PUnknown"}.get(pk)
    if pk == "variant":
        pat = "PVariant %s" % coq_str(a["pat"]["v"] or "")
    b = a["body"]
    if b["k"] == "ok":
        body = "BOk %s" % coq_routing(b["routing"])
    elif b["k"] == "err":
        body = "BErr %s" % coq_bool(b.get("displays", True))
    else:
        body = "BOther %s" % coq_str(b.get("text", "")[:200])
    return "(%s, %s)" % (pat, body)


def extract():
    return _bx(run_bin, "bx_extract", [SRC_ROOT], pkg=PKG)[0]


def gen_routing(run=None):
    tr = extract()
    names = lambda l: [f["name"] for f in l]
    v = ["(* GENERATED by ./check C19 from the source tree (harness/builderx bx_extract: symbolic",
         "   evaluation of CreateTableBuilder::{build, try_from, new, setters}).  Do not edit. *)",
         "Require Import SqlV.Base SqlV.Builder.",
         "Definition stmt_fields : list (list N) := " + coq_strs(names(tr["stmt_fields"])) + ".",
         "Definition builder_fields : list (list N) := " + coq_strs(names(tr["builder_fields"])) + ".",
         "Definition sigma_build : routing :=\n    " + coq_routing((tr["build"] or {}).get("routing")) + ".",
         "Definition arms : list arm :=\n  [" + ";\n   ".join(coq_arm(a) for a in (tr["try_from"] or {}).get("arms", [])) + "].",
         "Definition sigma_new : routing :=\n    " + coq_routing((tr["new"] or {}).get("routing")) + ".",
         "Definition setters : list setter := ["]
    v.append(";\n".join(
        "  {| st_name := %s; st_nparams := %d; st_assigns := %s; st_returns_self := %s |}"
        % (coq_str(s["name"]), len(s["params"]), coq_routing(s["assigns"]), coq_bool(s["returns_self"]))
        for s in tr["setters"]))
    v.append("].")
    v.append("Definition obligations : list (list N * list N) := [" + ";\n  ".join(
        "(%s, %s)" % (coq_str(o["key"]), coq_str(o["what"])) for o in tr["obligations"]) + "].")
    v.append("Definition statement_variants : list (list N) := " + coq_strs(tr["statement_variants"]) + ".")
    v.append("Definition ct_variant : list N := " + coq_str(tr.get("ct_variant", "")) + ".")
    write_if_changed(os.path.join(GEN, "BuilderRouting.v"), "\n".join(v) + "\n")
    return tr


def gen_all(run):
    return gen_routing(run)


# ------------------------------------------------------------------ reading Coq values back

def parse_coq_value(out):
    """Parse the value printed by `Eval vm_compute in (...)`: nested tuples/lists of numbers and
    constructor names.  Returns python lists (tuples become lists too)."""
    m = re.search(r"=\s(.*)\n\s*:\s", out, re.S)
    if not m:
        raise RuntimeError("cannot read Coq output: " + out[-1500:])
    txt = re.sub(r"%[A-Za-z]+", "", m.group(1))
    toks = re.findall(r"[()\[\];,]|[A-Za-z0-9_']+", txt)
    pos = [0]

    def item():
        t = toks[pos[0]]
        if t in "([":
            close = ")" if t == "(" else "]"
            pos[0] += 1
            xs = []
            while toks[pos[0]] != close:
                if toks[pos[0]] in ";,":
                    pos[0] += 1
                    continue
                xs.append(item())
            pos[0] += 1
            return xs
        pos[0] += 1
        if t.isdigit():
            return int(t)
        return t

    return item()


def nstr(l):
    return "".join(chr(c) for c in l)


def model_facts():
    """The side conditions and the defect lists, computed by the model inside Coq."""
    term = ("(routing_ok stmt_fields builder_fields sigma_build arms, "
            "routing_ok_rev stmt_fields builder_fields sigma_build arms, "
            "arms_total arms, setters_ok builder_fields setters sigma_new, new_ok builder_fields sigma_new, "
            "(bad_stmt_fields stmt_fields builder_fields sigma_build arms, "
            "bad_builder_fields stmt_fields builder_fields sigma_build arms, "
            "bad_arms 0 arms, bad_setters builder_fields setters sigma_new), "
            "length obligations, arms_display_free arms, names_ok stmt_fields builder_fields sigma_build, "
            "bad_names stmt_fields builder_fields sigma_build)")
    rc, out = coq_eval(HEADER, term)
    if rc != 0:
        return None, out
    v = parse_coq_value(out)
    facts = {"routing_ok": v[0] == "true", "routing_ok_rev": v[1] == "true", "arms_total": v[2] == "true",
             "setters_ok": v[3] == "true", "new_ok": v[4] == "true",
             "bad_stmt_fields": [nstr(x) for x in v[5][0]], "bad_builder_fields": [nstr(x) for x in v[5][1]],
             "bad_arms": v[5][2], "bad_setters": [nstr(x) for x in v[5][3]],
             "obligations": v[6], "display_free": v[7] == "true", "names_ok": v[8] == "true",
             "bad_names": [nstr(x) for x in v[9]]}
    return facts, out


# ------------------------------------------------------------------ sentinels

def core_type(t):
    t = t.replace(" ", "")
    while True:
        m = re.match(r"^(Option|Box)<(.*)>$", t)
        if not m:
            return t
        t = m.group(2)


INTS = {"u8", "u16", "u32", "u64", "usize", "i8", "i16", "i32", "i64", "isize"}


class Sentinels:
    """Two values per field (v0 = the usual value in the corpus, v1 = a different value, unique
    among all fields where the type has enough values), drawn from what the parser produced for
    fields of the same type; primitives are synthesised."""

    def __init__(self, fields, donors, rng):
        self.fields = fields                    # [{"name","ty"}]
        self.rng = rng
        own = collections.defaultdict(collections.Counter)
        for d in donors:
            for k, v in d.items():
                own[k][jd(v)] += 1
        self.pool = collections.defaultdict(list)   # core type -> [json text]
        for f in fields:
            ct = core_type(f["ty"])
            for t, _ in own[f["name"]].most_common():
                if t != "null" and t not in self.pool[ct]:
                    self.pool[ct].append(t)
        for ct in list({core_type(f["ty"]) for f in fields}):
            if ct == "bool":
                self.pool[ct] = ["false", "true"]
            elif ct in INTS:
                self.pool[ct] += [str(40 + i) for i in range(12)]
            elif ct == "String":
                self.pool[ct] += [json.dumps("c19_sentinel_%d" % i) for i in range(12)]
        self.own = own
        self.v0, self.v1, self.unavailable = {}, {}, []
        used = set()
        for f in fields:
            n, ct = f["name"], core_type(f["ty"])
            if own[n]:
                self.v0[n] = own[n].most_common(1)[0][0]
            elif f["ty"].replace(" ", "").startswith("Option<"):
                self.v0[n] = "null"
            elif self.pool[ct]:
                self.v0[n] = self.pool[ct][0]
            else:
                self.v0[n] = None
        for f in fields:
            n, ct = f["name"], core_type(f["ty"])
            cands = [t for t, _ in own[n].most_common() if t != "null"] + self.pool[ct]
            cands = [t for t in cands if t != self.v0[n]]
            fresh = [t for t in cands if t not in used]
            pick = (fresh or cands or [None])[0]
            if pick is None or self.v0[n] is None:
                self.unavailable.append(n)
                continue
            self.v1[n] = pick
            used.add(pick)
        self.names = [f["name"] for f in fields]
        self.ok_names = [n for n in self.names if n in self.v1]

    def record(self, hot):
        """hot: set of field names holding v1 (all others v0)."""
        return {n: json.loads(self.v1[n] if (n in hot and n in self.v1) else self.v0[n]) for n in self.names
                if self.v0[n] is not None}

    def fresh(self, ty, avoid):
        """a value of type `ty` different from every text in `avoid`"""
        cands = list(self.pool[core_type(ty)])
        if ty.replace(" ", "").startswith("Option<"):
            cands.append("null")
        for t in cands:
            if t not in avoid:
                return t
        return None

    def families(self, n_random):
        fam = [("base", set()), ("full", set(self.ok_names))]
        for n in self.ok_names:
            fam.append(("hot:" + n, {n}))
        for n in self.ok_names:
            fam.append(("cold:" + n, set(self.ok_names) - {n}))
        for i in range(n_random):
            fam.append(("random:%d" % i, {n for n in self.ok_names if self.rng.random() < 0.5}))
        return fam


def own_field_py(name, builder_names, setter_names, new_param_fields):
    """Same naming rule as Builder.own_field (the Coq definition is the reference)."""
    if name in builder_names:
        return name
    orphans_f = [f for f in builder_names if f not in setter_names and f not in new_param_fields]
    orphans_s = [s for s in setter_names if s not in builder_names]
    if len(orphans_f) == 1 and len(orphans_s) == 1:
        return orphans_f[0]
    return None


def diff_fields(a, b):
    ks = list(dict.fromkeys(list(a) + list(b)))
    return [k for k in ks if jd(a.get(k, "<absent>")) != jd(b.get(k, "<absent>"))]


# ------------------------------------------------------------------ the check

def check(run):
    thorough = run.tier == "thorough"
    run.cov["rule"] = (
        "Property evaluated on the implementation for: (a) every CREATE TABLE statement obtained by parsing the "
        "test-suite corpus under every accepting dialect (non-trivial = distinct statement value by serde JSON), "
        "(b) field-sentinel statements and builders: base / full / one-hot / one-cold per field plus random "
        "multi-hot subsets, both directions (each distinct record non-trivial), (c) every public setter applied to "
        "the base and the full sentinel builder with an argument different from the current value (each call "
        "non-trivial), (d) try_from on every non-CREATE-TABLE statement of the corpus (non-trivial = distinct "
        "(variant, text) pair). The same observations are replayed on the Coq model inside the kernel VM.")
    run.cov["checker_cmd"] = "make -C coq Properties/C19.vo (coqc 8.16.1, full .vo build) + coqc on generated case files"
    run.cov["trusted_base"] = TRUSTED_BASE_COMMON[:1] + [
        "translator harness/builderx/src/translate.rs (syn 2): symbolic evaluation of build/try_from/new/setters into routings; "
        "uninterpreted shapes become obligations that break Properties/C19.v; validated on every run against the compiled crate by the sentinel correspondence",
        "lib/props/C19.py printing the routings as Coq terms and encoding observed records (serde_json values hashed to numbers)",
        "dynamic driver harness/builderx/src/bin/bx_drive.rs; serde Serialize/Deserialize derives of the AST used to synthesise and observe records",
        "modelled rather than verified: Rust struct literals, destructuring patterns, match arm selection and field assignment as record routings (theories/Builder.v); Rust move semantics (a moved value is not altered)",
        "Display of non-CREATE-TABLE statements inside the error message is a parameter of the theorem (C02's ledger); it is exercised on every such statement of the corpus",
        "no axioms: every property theorem is followed by Print Assumptions and must report 'Closed under the global context'",
    ]
    run.assumptions = [
        "struct field lists of CreateTable / CreateTableBuilder as declared in the parsed source (cfg-gated fields: none today)",
        "serde field names equal Rust field names for both structs (no serde attributes; checked: observed JSON keys = declared fields)",
    ]

    # 1-2: translator, generated instance
    tr = gen_routing(run)
    info = _bx(run_bin, "bx_drive", ["info"], pkg=PKG)[0]
    run.notes["translator"] = {
        "source_root": SRC_ROOT, "driver_compiled_against": info["src"], "files_parsed": tr["files_parsed"],
        "stmt_fields": len(tr["stmt_fields"]), "builder_fields": len(tr["builder_fields"]),
        "setters": len(tr["setters"]), "arms": len((tr["try_from"] or {}).get("arms", [])),
        "statement_variants": len(tr["statement_variants"]), "obligations": tr["obligations"][:20],
        "other_methods": tr["other_methods"]}

    # 3: theorems
    pr = prove("C19")
    run.cov["obligations"] = pr["statements"]
    run.cov["discharged"] = pr["statements"] if pr["ok"] else 0
    run.notes["print_assumptions"] = {"closed_under_global_context": pr["closed"], "axioms": pr["axioms"]}
    run.notes["cone"] = pr["cone"]
    facts, facts_out = (None, "")
    if os.path.exists(os.path.join(GEN, "BuilderRouting.vo")):
        facts, facts_out = model_facts()
    run.notes["model_side_conditions"] = facts

    # thorough tier: independent re-check of the compiled closure of Properties/C19.vo
    if thorough and pr["make_ok"]:
        p = subprocess.run(["timeout", "900", "coqchk", "-silent", "-o", "-Q", "theories", "SqlV", "-Q", "gen", "SqlVGen",
                            "-Q", "Properties", "SqlVProps", "SqlVProps.C19"], cwd=COQ,
                           stdout=subprocess.PIPE, stderr=subprocess.STDOUT, text=True)
        summary = p.stdout[p.stdout.find("CONTEXT SUMMARY"):] if "CONTEXT SUMMARY" in p.stdout else p.stdout[-1500:]
        clean = p.returncode == 0 and all(re.search(k + r":\s*<none>", summary) for k in (
            "Axioms", "relying on type-in-type", "relying on unsafe \\(co\\)fixpoints", "positivity is assumed"))
        run.notes["coqchk"] = {"exit": p.returncode, "clean": clean, "summary": re.sub(r"\s+", " ", summary)[:600]}
        log("[coq] coqchk SqlVProps.C19 -> %d, clean=%s" % (p.returncode, clean))
        if not clean:
            run.violation({"what": "coqchk does not accept the compiled closure of Properties/C19.vo as axiom-free",
                           "unchecked": "coqchk -o SqlVProps.C19", "tool_output": p.stdout[-2000:]}, no_input=True)

    # 4: the property on the implementation
    dyn = dynamic(run, tr, info, thorough)

    # 5: correspondence inside Coq
    corr_bad = None
    if facts is not None:
        corr_bad = correspondence(run, tr, dyn)

    # 6: decision / directed search
    decide(run, tr, pr, facts, facts_out, dyn, corr_bad)


def dynamic(run, tr, info, thorough):
    D = {"fail_rt": [], "fail_setter": [], "fail_other": [], "fail_name": [], "cases": {}, "machinery": []}
    sfields, bfields = tr["stmt_fields"], tr["builder_fields"]
    snames, bnames = [f["name"] for f in sfields], [f["name"] for f in bfields]
    ctv = tr.get("ct_variant") or "CreateTable"

    # ---- corpus: every CREATE TABLE under every accepting dialect; other kinds: Err, no panic
    cases = []
    for e in corpus():
        cases.append({"sql": e["sql"], "dialects": e["dialects"]})
    for q, ds in EXTRA_SQL:
        cases.append({"sql": q, "dialects": ds})
    rr = _bx(run_bin_parallel, "bx_drive", ["sql"], cases, pkg=PKG)
    outcome = collections.Counter()
    variants = collections.Counter()
    ct_values = {}
    ct_runs = 0
    other_distinct = set()
    by_variant_fail = collections.defaultdict(list)
    for c, r in zip(cases, rr):
        for x in r["results"]:
            outcome[x["outcome"]] += 1
            variants[x["variant"]] += 1
            if "stmt" in x:
                ct_runs += 1
                ct_values.setdefault(jd(x["stmt"]), {"sql": c["sql"], "dialect": x["dialect"]})
                if x["outcome"] != "roundtrip-ok":
                    D["fail_rt"].append({"source": "corpus", "sql": c["sql"], "dialect": x["dialect"], "statement": x["stmt"],
                                         "outcome": x["outcome"], "detail": x.get("detail")})
            else:
                other_distinct.add((x["variant"], c["sql"]))
                if x["outcome"] != "err":
                    f = {"sql": c["sql"], "dialect": x["dialect"], "variant": x["variant"], "statement_index": x["idx"],
                         "outcome": x["outcome"], "detail": x.get("detail")}
                    D["fail_other"].append(f)
                    by_variant_fail[x["variant"]].append(f)
    run.add_eval(ct_runs, len(ct_values))
    run.add_eval(sum(outcome.values()) - ct_runs, len(other_distinct))
    missing_variants = sorted(set(tr["statement_variants"]) - set(variants))
    run.notes["corpus"] = {"texts": len(cases), "statement_runs": sum(outcome.values()), "outcomes": dict(outcome),
                           "create_table_runs": ct_runs, "distinct_create_table_values": len(ct_values),
                           "statement_variants_exercised": len(variants),
                           "statement_variants_not_exercised": missing_variants}
    D["variants_seen"] = sorted(variants)
    D["ct_values"] = ct_values

    # ---- sentinels
    donors = [json.loads(t)[ctv] for t in ct_values if isinstance(json.loads(t), dict) and ctv in json.loads(t)]
    S = Sentinels(sfields, donors, run.rng)
    B = Sentinels(bfields, donors, run.rng)   # donors keyed by field name: same-named builder fields reuse them
    D["S"], D["B"] = S, B
    run.notes["sentinels"] = {"stmt_fields_with_two_values": len(S.ok_names), "stmt_fields_without": S.unavailable,
                              "builder_fields_with_two_values": len(B.ok_names), "builder_fields_without": B.unavailable,
                              "distinct_v1_values": len(set(S.v1.values()))}
    n_random = 1500 if thorough else 150
    sfam = S.families(n_random)
    scases = [{"stmt": {ctv: S.record(hot)}} for _, hot in sfam]
    # every distinct corpus statement value as well, to observe the intermediate builder
    corpus_vals = list(ct_values)
    scases += [{"stmt": json.loads(t)} for t in corpus_vals]
    sres = _bx(run_bin_parallel, "bx_drive", ["stmt"], scases, pkg=PKG)
    labels = [l for l, _ in sfam] + ["corpus:%d" % i for i in range(len(corpus_vals))]
    n_ok = 0
    D["stmt_obs"] = []
    for lab, c, r in zip(labels, scases, sres):
        if "error" in r or not r.get("input_reserialised_equal", False):
            D["machinery"].append({"case": lab, "problem": r.get("error", "synthetic statement is not a serde fixpoint")})
            continue
        D["stmt_obs"].append((lab, c["stmt"], r))
        good = r.get("try") == "ok" and r.get("build") == "ok" and r.get("equal") is True and jd(r.get("rebuilt")) == jd(c["stmt"])
        if good:
            n_ok += 1
        else:
            src = ct_values.get(jd(c["stmt"])) if lab.startswith("corpus:") else None
            D["fail_rt"].append({"source": lab, "sql": (src or {}).get("sql"), "dialect": (src or {}).get("dialect"),
                                 "statement": c["stmt"], "rendered_sql": r.get("display"),
                                 "outcome": "try_from=%s build=%s equal=%s" % (r.get("try"), r.get("build"), r.get("equal")),
                                 "lost_or_changed_fields": diff_fields(c["stmt"].get(ctv, {}), (r.get("rebuilt") or {}).get(ctv, {}) if isinstance(r.get("rebuilt"), dict) else {}),
                                 "detail": {k: r.get(k) for k in ("msg", "rebuilt")}})
    run.add_eval(len(sfam), len({jd(c) for c in scases[:len(sfam)]}))
    run.sample({"sentinel_statement_full": {"fields": len(scases[1]["stmt"][ctv]), "rendered_sql": sres[1].get("display"),
                                            "try_from": sres[1].get("try"), "equal": sres[1].get("equal")}})

    bfam = B.families(n_random)
    bcases = [{"builder": B.record(hot)} for _, hot in bfam]
    bres = _bx(run_bin_parallel, "bx_drive", ["builder"], bcases, pkg=PKG)
    D["builder_obs"] = []
    for (lab, _), c, r in zip(bfam, bcases, bres):
        if "error" in r:
            D["machinery"].append({"case": "builder " + lab, "problem": r["error"]})
            continue
        D["builder_obs"].append((lab, c["builder"], r))
        if not (r.get("build") == "ok" and r.get("try") == "ok" and r.get("equal") is True):
            D["fail_rt"].append({"source": "builder " + lab, "sql": None, "dialect": None, "builder": c["builder"],
                                 "outcome": "build=%s try_from=%s equal=%s" % (r.get("build"), r.get("try"), r.get("equal")),
                                 "lost_or_changed_fields": diff_fields(c["builder"], r.get("builder") or {}),
                                 "detail": {k: r.get(k) for k in ("msg",)}})
    # the view is by name: a builder that differs from the base builder in field g only builds a
    # statement that differs from the base statement in field g only, with the same value
    base_stmt = next((r["stmt"].get(ctv) for lab, _, r in D["builder_obs"] if lab == "base" and isinstance(r.get("stmt"), dict)), None)
    if base_stmt is not None:
        for lab, b, r in D["builder_obs"]:
            if lab.startswith("hot:") and isinstance(r.get("stmt"), dict) and ctv in r["stmt"]:
                g = lab[4:]
                ch = diff_fields(base_stmt, r["stmt"][ctv])
                if g in snames and not (ch == [g] and jd(r["stmt"][ctv].get(g)) == jd(b[g])):
                    D["fail_name"].append({"builder_field": g, "builder": b, "statement_fields_changed": ch,
                                           "expected_statement_fields_changed": [g]})
    run.add_eval(len(bfam), len({jd(c) for c in bcases}))
    run.notes["sentinel_runs"] = {"statement_records": len(sfam), "builder_records": len(bfam),
                                  "corpus_values_through_stmt_mode": len(corpus_vals), "round_trips_ok": n_ok}

    # ---- setters
    setter_names = [s["name"] for s in tr["setters"]]
    new_param_fields = [e["field"] for e in ((tr["new"] or {}).get("routing") or []) if e["src"]["k"] == "param"]
    drv = {s["name"]: s["arity"] for s in info["setters"]}
    tr_public = {s["name"] for s in tr["setters"] if s["public"]}
    if set(drv) != tr_public and SRC_ROOT == info["src"]:
        D["machinery"].append({"case": "setter table", "problem": "driver table %s != translator %s" % (sorted(set(drv) ^ tr_public), "")})
    stc, stmeta = [], []
    for s in tr["setters"]:
        if s["name"] not in drv:
            continue
        for lab, hot in (("base", set()), ("full", set(B.ok_names))):
            b = B.record(hot)
            own = own_field_py(s["name"], bnames, setter_names, new_param_fields)
            args = []
            for p in s["params"]:
                avoid = {jd(v) for k, v in b.items()}
                a = B.fresh(p["ty"], avoid)
                if a is None:  # e.g. bool: only needs to differ from the own field
                    avoid = {jd(b[own])} if own in b else set()
                    a = B.fresh(p["ty"], avoid)
                args.append(MISSING if a is None else json.loads(a))
            if any(a is MISSING for a in args):
                D["machinery"].append({"case": "setter %s/%s" % (s["name"], lab), "problem": "no argument value of type %s available" % [p["ty"] for p in s["params"]]})
                continue
            stc.append({"builder": b, "setter": s["name"], "args": args})
            stmeta.append((s["name"], lab, own))
    stres = _bx(run_bin_parallel, "bx_drive", ["setter"], stc, pkg=PKG) if stc else []
    D["setter_obs"] = []
    for (name, lab, own), c, r in zip(stmeta, stc, stres):
        if "after" not in r:
            if "panic" in r:
                D["fail_setter"].append({"setter": name, "builder": lab, "operation": c, "observed": r, "expected_changed": [own]})
            else:
                D["machinery"].append({"case": "setter %s/%s" % (name, lab), "problem": r.get("error")})
            continue
        D["setter_obs"].append((name, c, r))
        changed = diff_fields(c["builder"], r["after"])
        okv = own is not None and changed == [own] and len(c["args"]) == 1 and jd(r["after"].get(own)) == jd(c["args"][0])
        if not okv:
            D["fail_setter"].append({"setter": name, "builder": lab, "operation": c, "own_field": own,
                                     "observed_changed_fields": changed, "expected_changed_fields": [own],
                                     "observed_own_value": r["after"].get(own) if own else None})
    run.add_eval(len(stc), len(stc))
    run.notes["setter_runs"] = {"calls": len(stc), "setters_driven": len({m[0] for m in stmeta}),
                                "setters_in_source": len(tr["setters"]), "skipped_by_driver": info.get("skipped")}
    if stc:
        k = min(len(stc) - 1, 2 * 17)
        run.sample({"setter": stc[k]["setter"], "argument": stc[k]["args"], "changed_fields": diff_fields(stc[k]["builder"], stres[k].get("after", {}))})

    # ---- new
    D["new_obs"] = None
    if tr["new"] and info.get("new_arity", 0) == len(tr["new"]["params"]):
        args = []
        for p in tr["new"]["params"]:
            a = B.fresh(p["ty"], set())
            args.append(json.loads(a) if a is not None else None)
        r = _bx(run_bin, "bx_drive", ["new"], [{"args": args}], pkg=PKG)[0]
        if "builder" in r:
            D["new_obs"] = (args, r["builder"])
        else:
            D["machinery"].append({"case": "new", "problem": r})
        run.add_eval(1, 1)

    # serde field names = declared fields
    for lab, st, r in D["stmt_obs"][:1]:
        if sorted(st[ctv]) != sorted(snames) or (r.get("builder") and sorted(r["builder"]) != sorted(bnames)):
            D["machinery"].append({"case": "field lists", "problem": "serde keys differ from the declared fields: stmt %s builder %s" % (
                sorted(set(st[ctv]) ^ set(snames)), sorted(set(r.get("builder") or bnames) ^ set(bnames)))})
    return D


# ------------------------------------------------------------------ correspondence in Coq

KNOWN_CONSTS = {"false": False, "true": True, "None": None, "vec![]": [], "Vec::new()": []}

CASE_DEFS = r"""
Inductive ccase :=
| CTry (s b : list N) | CBuild (b s : list N) | CSet (name : list N) (b xs a : list N)
| CNew (ps b : list N) | COther (variant : list N) (is_err : bool).
Definition cval (c : list N) : option N := assoc cval_table c.
Definition vals (r : record N) : list N := map snd r.
Definition wf (fs : list (list N)) (vs : list N) : bool := Nat.eqb (length fs) (length vs).
Definition tf := try_from N cval unit builder_fields arms (fun _ => true).
Definition check_case (c : ccase) : bool :=
  match c with
  | CTry s b => wf stmt_fields s &&
      match tf (SCreateTable (combine stmt_fields s)) with ROk b' => str_eqb (vals b') b | _ => false end
  | CBuild b s => wf builder_fields b &&
      match build N cval unit stmt_fields sigma_build (combine builder_fields b) with
      | Some (SCreateTable s') => str_eqb (vals s') s | _ => false end
  | CSet n b xs a => wf builder_fields b &&
      match find (fun s => str_eqb (st_name s) n) setters with
      | Some s => match apply_setter N cval s xs (combine builder_fields b) with
                  | Some b' => str_eqb (vals b') a | None => false end
      | None => false end
  | CNew ps b =>
      match run_new N cval builder_fields sigma_new ps with Some b' => str_eqb (vals b') b | None => false end
  | COther v e =>
      match tf (SOther v tt), e with RErr, true => true | _, _ => false end
  end.
"""


def correspondence(run, tr, D):
    ids = {}

    def vid(v):
        return ids.setdefault(jd(v), len(ids) + 1)

    def enc(names, rec):
        return "[" + ";".join(str(vid(rec[n]) if n in rec else 0) for n in names) + "]"

    snames, bnames = [f["name"] for f in tr["stmt_fields"]], [f["name"] for f in tr["builder_fields"]]
    ctv = tr.get("ct_variant") or "CreateTable"
    terms, meta = [], []
    for lab, st, r in D["stmt_obs"]:
        if r.get("try") == "ok" and isinstance(r.get("builder"), dict):
            terms.append("CTry %s %s" % (enc(snames, st[ctv]), enc(bnames, r["builder"])))
            meta.append(("try_from", lab))
            if r.get("build") == "ok" and isinstance(r.get("rebuilt"), dict) and ctv in r["rebuilt"]:
                terms.append("CBuild %s %s" % (enc(bnames, r["builder"]), enc(snames, r["rebuilt"][ctv])))
                meta.append(("build", lab))
        else:
            # the model predicts Ok for every CREATE TABLE record: encode the failure as a disagreement
            terms.append("CTry %s []" % enc(snames, st[ctv]))
            meta.append(("try_from", lab))
    for lab, b, r in D["builder_obs"]:
        if r.get("build") == "ok" and isinstance(r.get("stmt"), dict) and ctv in r["stmt"]:
            terms.append("CBuild %s %s" % (enc(bnames, b), enc(snames, r["stmt"][ctv])))
            meta.append(("build", "builder " + lab))
    for name, c, r in D["setter_obs"]:
        terms.append("CSet %s %s [%s] %s" % (coq_str(name), enc(bnames, c["builder"]),
                                              ";".join(str(vid(a)) for a in c["args"]), enc(bnames, r["after"])))
        meta.append(("setter", name))
    # constants of `new`: known texts have a fixed meaning, unknown ones are learned from the
    # first field that uses them (the other fields with the same text must then agree)
    ctab = {}
    const_problems = []
    if D["new_obs"]:
        args, nb = D["new_obs"]
        for e in tr["new"]["routing"]:
            if e["src"]["k"] == "const" and e["field"] in nb:
                t = e["src"]["v"]
                if t in KNOWN_CONSTS:
                    ctab[t] = vid(KNOWN_CONSTS[t])
                    if jd(nb[e["field"]]) != jd(KNOWN_CONSTS[t]):
                        const_problems.append((e["field"], t, nb[e["field"]]))
                else:
                    ctab.setdefault(t, vid(nb[e["field"]]))
        terms.append("CNew [%s] %s" % (";".join(str(vid(a)) for a in args), enc(bnames, nb)))
        meta.append(("new", "new"))
    for v in D["variants_seen"]:
        if v != ctv:
            bad = any(f["variant"] == v for f in D["fail_other"])
            terms.append("COther %s %s" % (coq_str(v), coq_bool(not bad)))
            meta.append(("other", v))
    header = (HEADER + "Definition cval_table : list (list N * N) := [" +
              "; ".join("(%s, %d)" % (coq_str(t), i) for t, i in ctab.items()) + "].\n" + CASE_DEFS)
    try:
        bad = run_coq_cases("c19", header, terms, "check_case", shard_size=400, per_case_type="ccase")
    except RuntimeError as e:
        run.violation({"what": "model evaluation failed", "unchecked": "correspondence routing model vs implementation",
                       "tool_output": str(e)[-2000:]}, no_input=True)
        return None
    kinds = collections.Counter(k for k, _ in meta)
    run.notes["correspondence"] = {"cases": len(terms), "by_kind": dict(kinds), "disagreements": len(bad),
                                   "distinct_field_values": len(ids), "constants_of_new": len(ctab),
                                   "constant_meaning_problems": const_problems}
    return [meta[i] for i in bad] + [("new-const", "%s: `%s` observed %s" % (f, t, jd(o))) for f, t, o in const_problems]


# ------------------------------------------------------------------ decision

def rt_report(f):
    rep = {"what": "a CREATE TABLE statement does not survive CreateTableBuilder::try_from followed by build()"
                   if "statement" in f else "a builder does not survive build() followed by try_from",
           "call": "CreateTableBuilder::try_from(stmt).map(|b| b.build()) == Ok(stmt)",
           "source": f["source"],
           "input": f.get("sql") or "the value under `statement` / `builder` (synthesised field-sentinel record, not parsed from text)",
           "rendered_sql": f.get("rendered_sql"), "dialect": f.get("dialect"),
           "expected": "an equal statement", "observed": f.get("outcome"),
           "lost_or_changed_fields": f.get("lost_or_changed_fields")}
    if "statement" in f:
        rep["statement"] = f["statement"]
    if "builder" in f:
        rep["builder"] = f["builder"]
    if f.get("detail"):
        t = json.dumps(f["detail"], ensure_ascii=False)
        rep["detail"] = f["detail"] if len(t) < 6000 else t[:6000]
    return rep


def decide(run, tr, pr, facts, facts_out, D, corr_bad):
    static_ok = pr["ok"] and facts is not None and all(
        facts[k] for k in ("routing_ok", "routing_ok_rev", "arms_total", "setters_ok", "new_ok", "names_ok")) and facts["obligations"] == 0
    bad_fields = list(dict.fromkeys((facts or {}).get("bad_stmt_fields", []) + (facts or {}).get("bad_builder_fields", [])))
    arms = (tr["try_from"] or {}).get("arms", [])

    # --- failing inputs found on the implementation (the property itself)
    # directed: failures on the sentinel of a field named by the model come first, then parsed
    # statements (they carry SQL text), then the rest
    def rank(f):
        named = any(f["source"].endswith(":" + b) for b in bad_fields)
        return (0 if named else 1, 0 if f.get("sql") else 1, len(jd(f.get("statement") or f.get("builder"))))
    reported = 0
    seen_fieldsets = set()
    for f in sorted(D["fail_rt"], key=rank):
        key = (tuple(f.get("lost_or_changed_fields") or []), "statement" in f)
        if key in seen_fieldsets or reported >= MAX_REPORTS:
            continue
        seen_fieldsets.add(key)
        run.violation(rt_report(f))
        reported += 1
    seen = set()
    for f in D["fail_setter"]:
        if f["setter"] in seen or len(seen) >= MAX_REPORTS:
            continue
        seen.add(f["setter"])
        run.violation({"what": "a builder setter does not change exactly its own field",
                       "call": "CreateTableBuilder::%s" % f["setter"], **{k: v for k, v in f.items() if k != "setter"}})
    seen = set()
    for f in D["fail_other"]:
        if f["variant"] in seen or len(seen) >= MAX_REPORTS:
            continue
        seen.add(f["variant"])
        run.violation({"what": "try_from on a statement that is not CREATE TABLE did not return an error value",
                       "call": "CreateTableBuilder::try_from", "input": f["sql"], "dialect": f["dialect"],
                       "variant": f["variant"], "expected": "Err(ParserError)", "observed": f["outcome"], "detail": f.get("detail")})
    seen = set()
    for f in D["fail_name"]:
        if len(seen) >= MAX_REPORTS:
            break
        seen.add(f["builder_field"])
        run.violation({"what": "setting builder field `%s` and building does not change exactly the statement field of that name" % f["builder_field"],
                       "call": "CreateTableBuilder::build", **f})
    run.notes["property_failures"] = {"view_by_name": len(D["fail_name"]),"round_trip": len(D["fail_rt"]), "setters": len(D["fail_setter"]), "other_kinds": len(D["fail_other"])}

    # --- static side broken without a failing input of the same class
    if not static_ok:
        if facts is None:
            run.violation({"what": "the generated routing instance does not compile, so no theorem of C19 could be re-checked",
                           "unchecked": failing_coq_item(pr["output"]), "tool_output": facts_out[-1500:]}, no_input=True)
        else:
            rt_broken = not (facts["routing_ok"] and facts["routing_ok_rev"])
            if rt_broken and not D["fail_rt"]:
                run.violation({"what": "routing_ok fails for fields %s but every sentinel and corpus statement round-trips" % bad_fields,
                               "unchecked": "c19_routing_ok / c19_routing_ok_rev (C19_round_trip, C19_round_trip_rev)",
                               "fields": bad_fields, "searched": run.notes.get("sentinel_runs")}, no_input=True)
            if not facts["setters_ok"] and not D["fail_setter"]:
                run.violation({"what": "setters_ok fails for setters %s but every driven setter changed exactly its own field" % facts["bad_setters"],
                               "unchecked": "c19_setters_ok (C19_setters_frame)", "setters": facts["bad_setters"],
                               "searched": run.notes.get("setter_runs")}, no_input=True)
            if not facts["arms_total"] and not D["fail_other"]:
                named = [arms[i] for i in facts["bad_arms"] if i < len(arms)]
                run.violation({"what": "an arm of try_from reachable by a non-CREATE-TABLE statement does not return an error value, "
                                       "but no statement of the corpus reaches it with a wrong outcome",
                               "unchecked": "c19_arms_total (C19_try_from_other_is_error)",
                               "arms": [{"key": a["key"], "pattern": a["pat"], "body": a["body"].get("text", a["body"]["k"])} for a in named],
                               "variants_not_in_corpus": run.notes["corpus"]["statement_variants_not_exercised"]}, no_input=True)
            if not facts["names_ok"] and not D["fail_name"] and not D["fail_rt"]:
                run.violation({"what": "build() does not read statement fields %s from the builder field of the same name, "
                                       "but every one-hot sentinel builder builds the expected statement" % facts["bad_names"],
                               "unchecked": "c19_names_ok (C19_view_by_name, C19_setter_then_build)", "fields": facts["bad_names"]}, no_input=True)
            if not facts["new_ok"]:
                run.violation({"what": "CreateTableBuilder::new does not initialise every field with a parameter or a constant",
                               "unchecked": "c19_new_ok (C19_new_total)"}, no_input=True)
            if facts["obligations"] and not (D["fail_rt"] or D["fail_setter"] or D["fail_other"]):
                run.violation({"what": "the translator met shapes it cannot interpret; the routing theorems do not cover them",
                               "unchecked": "c19_no_obligations", "obligations": tr["obligations"][:20]}, no_input=True)
            if not pr["ok"] and not run.violations:
                run.violation({"what": "a proof obligation of C19 no longer checks", "unchecked": failing_coq_item(pr["output"]),
                               "forbidden": pr["forbidden"], "axioms": pr["axioms"]}, no_input=True)

    # --- model and implementation disagree although the property holds on the implementation
    if corr_bad:
        kinds = collections.Counter(k for k, _ in corr_bad)
        run.notes["correspondence_disagreements"] = [list(x) for x in corr_bad[:20]]
        explained = {"try_from": D["fail_rt"], "build": D["fail_rt"], "setter": D["fail_setter"], "other": D["fail_other"]}
        for k in kinds:
            if explained.get(k):
                continue  # the implementation itself violates the property there: reported above
            if not static_ok and k in ("try_from", "build", "setter", "other") and run.violations:
                continue
            run.violation({"what": "the routing model extracted from the source and the compiled implementation disagree (%s)" % k,
                           "unchecked": "correspondence %s" % k, "cases": [x[1] for x in corr_bad if x[0] == k][:10]}, no_input=True)
    if D["machinery"]:
        run.notes["machinery_problems"] = D["machinery"][:20]
        hard = [m for m in D["machinery"] if m["case"] in ("field lists", "setter table", "new")]
        unusable = len(D["machinery"]) > max(5, len(D["stmt_obs"]) // 10)
        if hard or unusable:
            run.violation({"what": "the dynamic cross-check could not be carried out as designed", "unchecked": "sentinel correspondence",
                           "problems": D["machinery"][:10]}, no_input=True)


# ------------------------------------------------------------------ replay

def replay(path):
    r = json.load(open(path))
    print(json.dumps({k: v for k, v in r.items() if k not in ("statement", "builder", "detail")}, indent=1, ensure_ascii=False)[:4000])
    if "statement" in r:
        out = _bx(run_bin, "bx_drive", ["stmt"], [{"stmt": r["statement"]}], pkg=PKG)[0]
        print("implementation now: try_from=%s build=%s equal=%s" % (out.get("try"), out.get("build"), out.get("equal")))
        if isinstance(out.get("rebuilt"), dict):
            k = next(iter(r["statement"]))
            print("fields lost or changed now:", diff_fields(r["statement"][k], out["rebuilt"].get(k, {})))
    elif "builder" in r:
        out = _bx(run_bin, "bx_drive", ["builder"], [{"builder": r["builder"]}], pkg=PKG)[0]
        print("implementation now: build=%s try_from=%s equal=%s" % (out.get("build"), out.get("try"), out.get("equal")))
    elif "operation" in r:
        out = _bx(run_bin, "bx_drive", ["setter"], [r["operation"]], pkg=PKG)[0]
        print("implementation now: changed fields", diff_fields(r["operation"]["builder"], out.get("after", {})), out.get("panic", ""))
    elif r.get("input") and r.get("dialect"):
        out = _bx(run_bin, "bx_drive", ["sql"], [{"sql": r["input"], "dialects": [r["dialect"]]}], pkg=PKG)[0]
        print("implementation now:", [{k: x[k] for k in ("variant", "outcome")} for x in out["results"]])
    if r.get("kind") == "no-failing-input-found":
        tr = extract()
        print("translator now: obligations =", tr["obligations"][:10])
    return 0
